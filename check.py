#!/usr/bin/env python3
"""Driver for the goloop property checks.

  python3 check.py <ID> quick|thorough        run one property check
  python3 check.py <ID> --replay <file>       re-run a saved failing case
  python3 check.py --setup                    pre-build all harness test binaries
  python3 check.py --list                     list property ids

Exit 0: property held on everything explored.  Exit 1 (+ "VIOLATION property=<ID> replay=<path>"):
violation.  Exit 2: inconclusive (build failure, time-out, resource exhaustion) - never a violation.
"""
import fcntl
import glob
import json
import os
import re
import resource
import shutil
import subprocess
import sys
import tempfile
import time

VERIF = os.path.dirname(os.path.abspath(__file__))
HARNESS = os.path.join(VERIF, "harness")
BUILD = os.path.join(VERIF, ".build")
REPO = os.environ.get("VERIF_REPO", "/repo").rstrip("/") or "/repo"   # VERIF_REPO: run against a scratch copy (sensitivity runs)
ALT = "" if REPO == "/repo" else "." + re.sub(r"[^A-Za-z0-9]+", "_", REPO)
NPROC = os.cpu_count() or 4
# evidence/ describes /repo only; runs against a scratch copy (VERIF_REPO) write theirs under .build/
EVDIR = os.path.join(VERIF, "evidence") if not ALT else os.path.join(BUILD, "evidence" + ALT)

# property -> (cluster package, quick timeout s, thorough timeout s, thorough shards, [(fuzz target, seconds)])
def P(cluster, technique, text, note, ref, qt=900, tt=3000, shards=16, fuzz=(), race=0):
    # race = n: in the thorough tier n extra shards run the same test from a -race build (a quarter of the cases). The
    # race detector is NOT an oracle here (its reports go to files and do not change the exit code): the instrumented
    # binary only perturbs the Go scheduler, so the same oracle sees other interleavings.
    return dict(cluster=cluster, technique=technique, text=text, note=note, ref=ref, qt=qt, tt=tt, shards=shards,
                fuzz=list(fuzz), race=race)

PROPS = {
    "C27": P("hdata", "enumeration of all lengths x indices + rapid-generated (length, flush points) against an independent Merkle reference",
             "Every length 0..300 (thorough 0..1100) and every index is enumerated live and after Flush+Recover; witnesses are checked by the "
             "accumulator's Verify and by an independent recomputation of the perfect-subtree root from the item list; rapid adds mid-way "
             "flush/recover points. Exploration: lengths above the bound are not covered.",
             "trusts SHA3-256 from goloop's crypto package and the in-memory MapDB", "DESIGN §7 (C27)", shards=4),
    "C29": P("hbtp", "rapid-generated validator sets and signature vectors (by-construction classes: valid, absent, wrong index, foreign key, other decision, "
             "unrecoverable) encoded as wire bytes, against a reference predicate",
             "Every drawn vector is judged by the predicate 'all present entries are validator i's own signature over this decision and 3*present>2n'; "
             "counts are biased to the 2/3 boundary, both accept and reject are demanded and a panic is a violation; a further sub-check runs sequences of part and proof "
             "verifications for two decisions on ONE proof context object (what an earlier call verified must not matter). Exploration: n<=10, distinct keys.",
             "trusts crypto.NewSignature/dcrd for producing valid signatures; duplicate validator keys are not decided", "DESIGN §7 (C29)", shards=8),
    "C30": P("hnet", "round trip of generated packet sequences through drawn stream chunkings + single-byte substitution must-reject + round-trip oracle on "
             "arbitrary accepted input (rapid; native go fuzz in thorough)",
             "Field-exact round trip for payloads up to the 1 MiB maximum under drawn chunkings, through both PacketReader and ReadFrom; every single-byte hit on "
             "header, payload or digest must be rejected (exact for an FNV-1a single-byte change; length-field hits may end in EOF, also a rejection). Exploration.",
             "extension bytes/length are not covered by the packet digest and are not mutated; needs hook network/verif_hooks.go", "DESIGN §8 (C30)",
             fuzz=[("FuzzC30ReadFrom", 120)]),
    "C31": P("hnet", "model-based stream check over a hook-built SecureConn pair (all AEAD suites) with independently drawn write and read-buffer sizes, key-relation "
             "checks, single ciphertext-stream mutations",
             "Concatenation-of-writes model with the io.Reader contract for read buffers down to 1 byte in both directions; pairwise key relations; any byte "
             "substitution, swap, replay or removal of a frame must yield an error before any byte of the affected frame is handed out. Exploration.",
             "the two padding header bytes are unauthenticated and excluded; tail truncation not claimed; deterministic session scalars via hook", "DESIGN §8 (C31)"),
    "C32": P("hnet", "generated (key, session secret, signature/public-key mutation) tuples against an independent SEC1 parser + stdlib ECDSA + independent "
             "address derivation",
             "Whenever VerifySignature accepts, an independent verifier must confirm the signature is by the claimed key over this session's secret and that the id is "
             "that key's address; other-session, other-key, mutated and malformed inputs are all exercised. A second sub-check runs histories of up to 400 sessions over "
             "up to 260 peers (returning peers, impostors, identities arriving by other ways) on one node and demands that every identity ever assigned still is the "
             "address of the key that proved it; a third drives the node's real handshake handlers from the remote end of a connection, in both directions, with honest, "
             "other-session, other-key, wrong-claim, mutated and refused proofs, and demands that the peer is handed on as authenticated only with a valid proof over "
             "the secret the node itself derived for this session. Exploration.",
             "trusted base: dcrd curve arithmetic, Go crypto/ecdsa, x/crypto sha3; ECDSA malleability is not decided", "DESIGN §8 (C32)"),
    "C33": P("hnet", "real onPacket on a hook-built PeerToPeer with generated peers/roles and relay sequences; decision function transcribed from the statement",
             "Every delivery to the recording callback is checked against the three stated rules (at most one delivery per flooded packet across any relaying peers, "
             "one-hop only from its source, originator broadcast only from a validator-role peer); entitled-but-dropped packets make the run inconclusive so the "
             "check cannot pass vacuously; a second sub-check floods up to two ring lengths of other digests around watched packets and demands suppression of every "
             "re-relay inside the guaranteed remembering distance (19x500-1 later digests), with bias to bucket and ring boundaries; a third one hands copies of "
             "one flooded packet to the node through 2-8 peers from goroutines released together (hundreds of rounds per case) and demands at most one delivery. Exploration.",
             "peers and roles are set directly through the hook (no handshake or discovery); self-sourced flooded packets and re-relays beyond the digest ring are not decided; "
             "the concurrent sub-check does not own the Go scheduler: its invariant holds for every schedule, detection of a broken node is statistical", "DESIGN §8 (C33)"),
    "C12": P("hsvc", "rapid-generated v3 transactions with spelling variants against an independent ICON serialization reference, a 3x JSON<->stored-form round trip "
             "and single-member metamorphic changes",
             "Every generated transaction's id equals an independently computed ICON hash, and every field plus signature validity survives repeated conversion to "
             "the stored form, for both binary and raw-JSON storage; any single signed-member change yields a different, reference-equal id. Exploration over the "
             "generated domain.",
             "trusts SHA3 and the harness serializer (cross-checked with the Java SDK in /repo/sdk); JSON numbers/booleans and member names with special characters are "
             "outside the generated domain", "DESIGN §6 (C12)"),
    "C13": P("hsvc", "rapid-generated keys, hashes and transactions with 17 signature variants (incl. the just-verified genuine signature replayed on a sibling transaction), judged by an independent math/big secp256k1 recovery over the independent tx id",
             "Acceptance implies the exact signature bytes recover the sender's address over the reference id; genuine signatures are always accepted; malformed, "
             "foreign-key, foreign-id and replayed signatures are rejected on both the JSON and the stored-binary path; the genuine transaction is always verified "
             "first in the same process, so verification state carried between transactions is exercised. Exploration.",
             "the ECDSA malleable twin and recovery bytes 4..7 are not decided; trusts SHA3", "DESIGN §6 (C13)"),
    "C14": P("hsvc", "rapid state-machine histories with a map model, retained snapshots and a canonical-rebuild hash reference",
             "After every operation all retained snapshots, the live state and the state hash agree with the model, and the hash agrees with a fresh canonical rebuild; "
             "covers Reset, ClearCache, Flush, reload, node caches and the contract life cycle (deploy / accept / reject / disable / block). Exploration: 6 accounts x 7 keys.",
             "the hash reference reuses the trie/RLP code on a canonical path (account encoding not re-implemented)", "DESIGN §6 (C14)"),
    "C17": P("hdata", "rapid state machine vs map model; root vs fresh trie and an independent MPT root (hex-prefix + RLP + SHA3-256)",
             "Random set/delete/snapshot/flush/reload/ClearCache histories over prefix-sharing keys are compared step by step with a map for lookups, ordered iteration, "
             "prefix iteration and retained snapshots; the root must equal an independently computed MPT root, so order-independence is checked against a spec-level "
             "reference. Exploration.",
             "trusts the in-file reference encoder with goloop's <=32-byte embedding rule; empty values, DB errors and concurrency are not covered", "DESIGN §7 (C17)"),
    "C18": P("hdata", "rapid; genuine proofs verified by a root-only trie on an empty DB; constructed single-element alterations and foreign-root proofs must be rejected; native go fuzz of the verifier (soundness oracle) in thorough",
             "Completeness for every sampled stored key from three proof sources; soundness for absent keys and foreign proofs; every single-element alteration and "
             "other-root proof must be rejected, on fresh and reused verifiers. Exploration.",
             "trailing appended proof elements are not demanded to fail; a nil-pointer panic of Prove for one absent-key shape is recorded as a label and not judged "
             "(the statement only says no value is yielded)", "DESIGN §7 (C18)", fuzz=[("FuzzC18Prove", 120)]),
    "C19": P("hdata", "rapid histories vs overlay+tombstone model on a spied MapDB, including stacked layers",
             "Every get/has is checked against the model; at each commit or discard the entire underlying store and all layer views are compared key by key, including "
             "keys never used by the case. Exploration.",
             "MapDB back-end only (a zero-length value is a stored value there); replay order and concurrency are not covered", "DESIGN §7 (C19)"),
    "C20": P("hdata", "rapid delivery schedules with injected forgeries vs source-DB model; three state shapes including the real world state",
             "After every delivery step completion is checked to hold exactly when all source entries are present, and injected unrequested payloads are checked absent "
             "from every hashed bucket; the final target DB equals the source, has no foreign key, and reopens to the model and the trusted root. Exploration.",
             "works at merkle.Builder level (the sync2 network layer is not exercised); the harness trie.Object type is trusted", "DESIGN §7 (C20)"),
    "C21": P("hdata", "rapid tuple pairs with equal concatenation; container state machines vs slices/maps in a shared store",
             "Injectivity and grouping-independence of the Hash, RLP and PrefixedHash keys and the SplitKeys round trip over typed parts at RLP boundaries; adversarially "
             "named containers are compared with their reference after every operation; sibling builders / sub-dictionary handles derived from one parent are kept alive "
             "together and used in creation order. Exploration.",
             "part bytes are computed by the harness; RawBuilder and raw prefixes of different lengths are excluded by design; hash collisions are assumed away",
             "DESIGN §7 (C21)"),
    "C01": P("hsim", "rapid-drawn schedules over 3..7 real consensus engines (real block managers, real file WAL) with a harness-owned network, timers fired through "
             "their real closures, Byzantine keys (equivocating votes, two valid blocks, POL re-proposals), a scripted split-lock adversary, crashes with torn "
             "WAL tails; history invariants: agreement and a >2/3 precommit certificate for every finalized block",
             "Agreement and the commit certificate are checked after every event of each generated history (deliveries incl. duplicates/reordering/loss, timeouts, "
             "block-manager completions, Byzantine messages incl. fast-sync block results with genuine, partial, repeated, mixed-round and foreign commit vote lists, "
             "transactions entering node pools, crash/restart). Exploration: schedules are sampled, not enumerated; deep lock/unlock scenarios are "
             "reached only through the scripted adversary plus noise; liveness is not examined.",
             "database durable across engine crashes; block manager object survives an engine restart; hooks consensus/verif_hooks_sim.go expose state, the pending "
             "timer and message constructors only", "DESIGN §4 (C01)", qt=1200, tt=3400),
    "C02": P("hsim", "same simulator with crash weight x4: crash = Term + truncate every WAL tail file to a drawn cut in [durable size, size] (frame boundary, "
             "boundary+{1,7,8,9}, interior) or a crash point inside the last handler (after its k-th send, later sends withdrawn), restart on the same logs; "
             "invariants over the whole message pool",
             "No correct key ever signs two different votes or proposals for one (type,height,round) anywhere in the pool; every vote/proposal is in the durable part "
             "of the round WAL at the instant it is handed to the network; no double-sign evidence names a correct validator; restart from any generated torn log "
             "succeeds. Exploration over sampled schedules and crash points.",
             "prefix-persistence of appended WAL bytes; database durable; the logical clock advances on every vote (a re-signed vote differs, as with wall-clock time)",
             "DESIGN §4 (C02)", qt=1200, tt=3400),
    "C09": P("hexec", "(i) token-scheduled bodies on NewWorldVirtualState/GetFuture against sequential execution on a plain world state (all reads and the final hash); "
             "(ii) the same generated blocks through real transitions at concurrency 2/4/8 against level 1 and the reference",
             "Lock-level interleavings of random programs (account read/write/idle locks, world read/write locks, reset, retry) must give identical reads, receipts and "
             "state hash to one-by-one execution. Exploration: the harness owns three gates per body; Go-scheduler interleavings inside goloop are not enumerated.",
             "bodies touch only declared accounts and start as the dispatcher's worker does; the reference is the harness body interpreter on goloop's plain WorldState",
             "DESIGN §6 (C09)", race=4),
    "C10": P("hexec", "rapid-generated fault-scripted blocks through real transitions at ConcurrencyLevel 1/2/4/8 with an observational receipt-versus-last-attempt "
             "oracle and a crash journal",
             "Every generated block either errors or carries exactly the receipts of each transaction's last attempt, in order, across fault positions, fault kinds "
             "(retryable, retry-exhausted, non-retryable) and both execution modes; a process crash is a violation via the journal. Exploration.",
             "trusts the harness handler's attempt recorder; goroutine schedules are the Go runtime's; 'recoverable implies success' is measured, not demanded",
             "DESIGN §6 (C10)", race=4),
    "C15": P("hfee", "rapid-generated chain configs and blocks of real signed transactions executed by real transitions on MapDB, compared with an accounting model "
             "built from receipts",
             "Thousands of blocks with zero, tiny and huge balances, values and limits on the affordability boundaries, step prices 0..1.25e10, in-block price changes, "
             "failing contract calls and the out-of-balance-at-charge rollback branch; every reachable balance, the treasury delta, the total, non-negativity and "
             "step bounds are checked per block. Exploration.",
             "trusts receipts as the reported fee, the repository's test chain fixture and the basic platform (+ optional LegacyBalanceCheck revision bit); fee sharing, "
             "the parallel executor and external execution engines are excluded", "DESIGN §6 (C15)"),
    "C16": P("hfee", "rapid-generated programs (mutate storage, balances, flags, events, BTP messages, then fail at a drawn point or inside nested frames) run by a "
             "programmable contract through the real CallContext over two transports, compared with a frame-survival reference model and the Merkle state hash",
             "About 1000 failing-after-mutation transactions and ~50 outer-success-with-inner-rollback cases per quick run across all failure statuses, nesting depth "
             "up to 4, the fee-charge rollback and the transaction-timeout clean-up (an asynchronous callee that writes and never answers, in worlds with a "
             "200 ms transaction timeout); the oracle is the whole account-trie hash plus per-key/per-balance diffs plus receipt logs and BTP messages. "
             "Exploration.",
             "trusts service/state for building the expected hash (checked by C14) and the harness contract's own record of what it did; sequential executor only; "
             "no external EE", "DESIGN §6 (C16)"),
    "C11": P("hpool", "model-based PBT of block trees (forks, commits, restarts) over the real locator manager, plus chained real transitions, plus window-edge probes",
             "For generated chains with forks, commits and restarts under any fixed threshold, a block repeating an id of itself or of any ancestor, or holding a "
             "timestamp outside (T-th, T+th], is never accepted, at the locator-tracker API and at OnValidate of real transitions; edges +-1 and every duplicate "
             "placement are constructed. Exploration; per-block varying thresholds are only reported (labelled experiment).",
             "trusted base: MapDB, harness transaction types, state/scoredb for setting the threshold; consensus proposes on finalized parents", "DESIGN §6 (C11)"),
    "C37": P("hpool", "differential (pool selection versus a peer's validating transition on the same parent) plus an independent cumulative-balance/window/replay "
             "model over generated pools",
             "For generated pools, balances, fee settings and multi-round histories every Candidate() output is accepted by a real validating transition and satisfies "
             "the stated per-transaction conditions, with edge timestamps, finalized ids in the pool and balance exhaustion constructed. Exploration.",
             "trusted base: harness set-up transaction, world snapshot reads for initial balances, MapDB; order and non-starvation are not decided", "DESIGN §6 (C37)"),
    "C03": P("hcons", "rapid histories + small-scope enumeration over the real file WAL; every crash offset of the unsynced tail on a directory copy; reference "
             "list oracle with a synced mark",
             "Every torn-tail state of short unsynced tails (all byte offsets up to 96 B) and all frame-boundary neighbourhoods of long ones is recovered with the "
             "applyRoundWAL loop and continued through up to 4 crash/recover/append cycles incl. rotated segments; recovered records must be a byte-equal prefix "
             "containing every synced record. Exploration with exhaustive small scopes.",
             "crash = truncation of the tail segment (prefix-persistence model); fsync and the file system are trusted; scratch on tmpfs; the retention "
             "sub-check (small FileLimit/TotalLimit, housekeeping) demands a contiguous most-recent run and a clean end, not a particular amount kept",
             "DESIGN §4 (C03)", qt=1200),
    "C04": P("hcons", "rapid vote sequences on the real voteSet (hook), independent recount of the slot array after every add",
             "Threshold (exactly > 2n/3), uniqueness of the reported decision and stickiness are compared against an independent recount after every step of "
             "thousands of sequences up to n=10 with duplicates and conflicting re-votes. Exploration.",
             "hook accessors trusted; the replacement policy without +2/3 is not judged (statement silent)", "DESIGN §4 (C04)"),
    "C05": P("hcons", "constructed certificates with 16 bad-item classes through the wire decoder, VerifyBlock, toVoteList, a real BlockManager.Import (also across a "
             "validator-set change) and a real consensus engine's fast-sync entry (ReceiveBlockResult -> processBlock) after drawn earlier votes",
             "No explored list is accepted without > 2/3 distinct valid signers over exactly the target, the voter bitmap equals the signer set, and no list "
             "(unrecoverable, 64-byte, duplicated, foreign, wrong-target signatures) panics. After a validator-set change only the set designated by the parent "
             "certifies. On the fast-sync path a block result is consumed only if list plus earlier received precommits for exactly (block, round, part set) "
             "come from > 2/3 distinct validators, whatever other quorum (nil, other block, other round, prevotes) the node saw before. Exploration; only-if direction.",
             "secp256k1 library trusted; BTP proofs empty; pairs (block id, part set id) that belong to no block are uttered by at most f=(n-1)/3 validators "
             "(the engine identifies a block by its part set id)", "DESIGN §4 (C05)"),
    "C06": P("hcons", "attribute-mutated message pairs against a reference predicate, at IsConflictWith (both orders), dsmLog and DoubleSignReport PreValidate",
             "No explored non-conflict (different signer, height, round, type, network, identical content, or two copies of one signed vote that differ only in the parts "
             "the signature does not cover) is ever claimed or accepted as evidence. "
             "Exploration; only-if direction.",
             "stub world context for PreValidate; the DSR contract handler level is not covered", "DESIGN §4 (C06)"),
    "C07": P("hblock", "rapid: two real block managers, chosen commit-vote timestamps, single/multi-field mutations with re-derived hashes, reference-median "
             "oracle on Import",
             "Every candidate's import verdict is compared with an independent evaluation of the stated rule (height, prevID, state-required version, timestamp = "
             "median of commit vote timestamps computed by an own sort, > parent's), including median boundaries for odd and even vote counts. Exploration.",
             "votes are always validly signed (C05 decides otherwise); non-negative small timestamps; the repository's test service manager", "DESIGN §5 (C07)"),
    "C08": P("hblock", "rapid: real chains -> round trip, body-component grafts and byte mutations through BlockDataFactory with a header-vs-decoded-content hash "
             "oracle and a runaway watchdog; native go fuzz in thorough",
             "Every decoded input is checked against hashes recomputed from the decoded content and the header read from the input bytes; thousands of grafts and "
             "byte mutations per run incl. non-empty BTP digests; every accepted block, whatever bytes it came from, must decode from its own serialization to the same id "
             "(fixed point); a decoder that does not return while allocating >1 GiB is a violation. Exploration + "
             "coverage-guided fuzzing.",
             "trusts goloop's tx-list hash and codec for recomputation; time-only hangs are inconclusive", "DESIGN §5 (C08)", fuzz=[("FuzzC08Decode", 180)]),
    "C22": P("hdata2", "enumerated boundary sizes plus rapid sizes; index and order identity on built and re-opened lists of real transactions and receipts",
             "For every required size, including 127/128, 255/256, 32767/32768 and 65535/65536/65537, full iteration and per-index lookup return exactly the "
             "original items in order, before and after Flush and re-open. Exploration over sizes.",
             "transactions are unsigned stubs made from one template; receipt versions 1 and 2 only", "DESIGN §6 (C22)", qt=1200, shards=4),
    "C23": P("hdata2", "rapid (round trip, determinism and sorted keys via an independent RLP splitter, narrowing, must-reject, mutation decoding into 20 targets with "
             "a fixed-point and decoder-state canary) plus native go fuzz in thorough",
             "Values of a broad supported-type family round-trip with nil and empty kept apart and deterministic sorted-map encodings; out-of-range numbers, truncated "
             "inputs and inflated sizes are rejected by every target; arbitrary bytes never crash any target and never disturb a later decode; lists with surplus members, "
             "values written through the explicit list API, an older reader of a newer encoding and Decoder.Skip keep the following stream intact. Exploration + fuzzing.",
             "'supported' as read from encodeValue/decodeValue; pointer-to-container and interface fields are excluded; msgpack is not covered", "DESIGN §7 (C23)",
             fuzz=[("FuzzC23Decode", 180)]),
    "C24": P("hdata2", "rapid; independent math/big two's-complement reference and a second text parser over boundary-biased 64-bit and big integers",
             "Every generated integer is compared byte-for-byte with an independently computed minimal encoding and decoded/parsed back through every intconv and HexInt "
             "entry point; ~20k values per quick run concentrated on byte-length boundaries. Exploration.",
             "trusts math/big and encoding/json", "DESIGN §7 (C24)"),
    "C25": P("hdata2", "rapid; differential against a clean-room legacy LZW encoder, stdlib decoder cross-check, Python-derived pinned goldens",
             "Compress output is byte-compared with an independent encoder on inputs that exercise width growth, dictionary reset and closing-step edges, and must "
             "decompress through both goloop's and the stdlib reader. Agreement of three implementations plus goldens is evidence, not proof, of historic-format "
             "equality.",
             "the reference encoder and goldens are the harness author's reading of the legacy (Go <= 1.16) format", "DESIGN §7 (C25)"),
    "C26": P("hdata2", "rapid; logs through real receipts and merges, queried with API-built and independently computed SHA3 three-bit blooms, across compressed, "
             "bytes, JSON and persisted forms",
             "Every address and indexed value of every generated log must be reported by the receipt bloom and by every carried form of the merged block bloom; "
             "one case in ten is a dense block (40..400 logs) whose bloom compresses to a stream that reaches 10-bit LZW codes. Exploration; no false-positive claim.",
             "trusts x/crypto/sha3", "DESIGN §7 (C26)"),
    "C28": P("hdata2", "rapid; two differently driven accumulators plus an independent 16-ary reference root, independent proof-chain verification and verifier trees "
             "with 11 alteration kinds, SetLen walks and enumerated rewinds against recorded per-prefix headers",
             "Headers are sequence-determined and equal to an independent reference; proofs of all or boundary keys verify independently and via MerkleTree.Add while "
             "altered ones are rejected by a fresh verifier and by one that already holds the nodes of the path (it accepted the genuine proof or a neighbour's before); "
             "every rewind is compared with fresh accumulation, including forks. Exploration up to 5000 (quick) / 70000 (thorough) leaves.",
             "leaves are distinct SHA3 values; MapDB is the store", "DESIGN §7 (C28)"),
    "C34": P("hicon", "rapid state machine over icsim at the latest revision with a receipt-driven ledger and invariants I1-I4 compared after every block",
             "Random multi-term histories of valid and invalid (over-spend, votes above stake, bond moves beyond the unused stake, non-bonder, duplicate registration) "
             "staking, delegation, bond, transfer, registration and claim transactions run on the real extension state; "
             "after every block exact per-account balances, stake, votes, supply conservation, network totals and per-entry unstake expiry are compared. Exploration.",
             "trusts icsim's world/transfer model and receipt status; penalties, unregistration and fees are out of scope; icsim configured with Rrep != 0 and a "
             "funded treasury", "DESIGN §9 (C34)"),
    "C35": P("hicon", "generated terms run through the real IISS4 reward calculation; budget inequality plus per-voter share recomputed independently with math/big",
             "Every generated term is executed by the real calculator over real stage/reward states; the total credited I-Score is bounded by the exact term budget and "
             "every voter's credit equals the floor share computed from the generated history. Exploration.",
             "trusts icstage/icreward storage and PRep.VoterReward/GetReward as the observation; rewardability and the inter-P-Rep split are not decided",
             "DESIGN §9 (C35)"),
    "C36": P("hdata2", "rapid; round trip plus must-accept/must-reject against the regular language ^(hx|cx)[0-9a-f]{40}$ with 15 near-miss mutation kinds; native go fuzz of the strict parser in thorough",
             "The strict parser's verdict is compared with the regular language for 20k addresses and candidates per run, including case, length, prefix and unicode "
             "near misses, and all byte forms are round-tripped into stale receivers. Exploration.",
             "the canonical form is the one server/jsonrpc/validator.go states for t_addr; that validator and jsonrpc.Address are run on every candidate as well", "DESIGN §7 (C36)", fuzz=[("FuzzC36Strict", 60)]),
}

# properties not (yet) claimed -> reason
NOT_APPLICABLE = {}

# what later strengthening rounds added to a check (appended to its manifest text; details in DESIGN §14.2)
ADDED = {
    "C06": "Also: copies of one signed message whose signature is re-encoded (malleable twin, compressed-key flag) are never evidence.",
    "C07": "Also through the consensus entry (NewBlockDataFromReader + ImportBlock) as a drawn alternative to Import.",
    "C08": "Also blocks with patch transactions built by the node's block handler.",
    "C12": "Also bare integer literals in data (around 2^53 up to the int64 limits): id, signature validity and fields unchanged across representations, decided against goloop's own id.",
    "C13": "Also signatures forged from the public key alone (digest 0 / derived digest) and stored-form transactions that have no id, which no signature may authorize.",
    "C14": "Also mutations through AccountState handles kept across GetSnapshot/Reset, compared with the model after every step.",
    "C20": "Also blobs byte-identical to a trie node of the same state (one hash wanted for two buckets).",
    "C21": "Also long-lived array handles and whole-store save/roll-back.",
    "C24": "Also the Hex* number types through the RLP and MsgPack codecs (payload = minimal two's complement).",
    "C25": "Also kilobyte-sized nearly constant inputs (highest compression ratios).",
    "C26": "Also an aggregate bloom stored and restored from its compressed form between merges.",
    "C27": "Also witnesses held across later WitnessFor calls and re-verified.",
    "C28": "Also headers handed out for a prefix held and re-read after the accumulator has grown.",
    "C22": "Also lists that hold the same transaction at several positions.",
    "C31": "Also reads into a window (len < cap) of a larger sentinel-filled buffer, and a transport that hands out a write in segments.",
    "C32": "Also sessions without a key-agreement parameter from the remote end, in which nobody may be authenticated.",
    "C36": "Also the JSON-RPC address gate (validator tags and jsonrpc.Address) on every candidate.",
}

HOOKS = {
    # /repo path (only compiled with -tags verif) -> canonical copy in /verif/hooks
    "network/verif_hooks.go": "network_verif_hooks.go",
    "consensus/verif_hooks_sim.go": "consensus_verif_hooks_sim.go",
    "consensus/verif_hooks.go": "consensus_verif_hooks.go",
    "icon/iiss/calculator/verif_hooks.go": "calculator_verif_hooks.go",
    "icon/icsim/verif_hooks.go": "icsim_verif_hooks.go",
}


def go_env():
    e = dict(os.environ)
    e.update(GOFLAGS="-mod=mod", GOPROXY="off", GOSUMDB="off", GOTOOLCHAIN="local", CGO_ENABLED=e.get("CGO_ENABLED", "1"))
    return e


def overlay_file():
    os.makedirs(BUILD, exist_ok=True)
    rep = {}
    for dst, src in HOOKS.items():
        rep[os.path.join(REPO, dst)] = os.path.join(VERIF, "hooks", src)
    p = os.path.join(BUILD, "overlay%s.json" % ALT)
    tmp = p + ".%d" % os.getpid()
    with open(tmp, "w") as f:
        json.dump({"Replace": rep}, f)
    os.replace(tmp, p)
    return p


def modfile_args():
    """for VERIF_REPO: an alternative go.mod (replace => that copy) next to its own go.sum"""
    if not ALT:
        return []
    mod = open(os.path.join(HARNESS, "go.mod")).read().replace("=> /repo", "=> " + REPO)
    p = os.path.join(BUILD, "alt%s.mod" % ALT)
    if not os.path.exists(p) or open(p).read() != mod:
        open(p, "w").write(mod)
    return ["-modfile=" + p]


def sync_gosum():
    """harness/go.sum = /repo/go.sum + the pinned rapid lines (kept in harness/go.sum.extra)."""
    extra = open(os.path.join(HARNESS, "go.sum.extra")).read()
    want = open(os.path.join(REPO, "go.sum")).read()
    if not want.endswith("\n"):
        want += "\n"
    want += extra
    p = os.path.join(HARNESS, "go.sum") if not ALT else os.path.join(BUILD, "alt%s.sum" % ALT)
    try:
        cur = open(p).read()
    except OSError:
        cur = None
    if cur != want:
        tmp = p + ".%d" % os.getpid()
        open(tmp, "w").write(want)
        os.replace(tmp, p)


def build(cluster, race=False):
    """go test -c of one cluster, from /repo's current working tree. Returns (binary path | None, log)."""
    os.makedirs(BUILD, exist_ok=True)
    ov = overlay_file()
    name = cluster + ALT + (".race" if race else "") + ".test"
    out = os.path.join(BUILD, name)
    lock = open(os.path.join(BUILD, name + ".lock"), "w")
    fcntl.flock(lock, fcntl.LOCK_EX)
    try:
        sync_gosum()
        tmp = out + ".tmp%d" % os.getpid()
        cmd = ["go", "test", "-c", "-tags", "verif", "-vet=off", "-overlay", ov, "-o", tmp] + modfile_args()
        if race:
            cmd.append("-race")
        cmd.append("./" + cluster + "/")
        r = subprocess.run(cmd, cwd=HARNESS, env=go_env(), stdout=subprocess.PIPE, stderr=subprocess.STDOUT, text=True)
        if r.returncode != 0 or not os.path.exists(tmp):
            return None, r.stdout
        os.replace(tmp, out)
        return out, r.stdout
    finally:
        fcntl.flock(lock, fcntl.LOCK_UN)
        lock.close()


def base_seed():
    try:
        v = int(os.environ.get("VERIF_SEED", "1"))
    except ValueError:
        v = 1
    s = (v * 1000003 + 7919) % (2 ** 62)
    return s or 7919


def known_findings(pid):
    """known_findings.txt lines:  finding: property=<id> key=<key> <text>   |   fixed: property=<id> <commit> <text>"""
    out = []
    p = os.path.join(VERIF, "known_findings.txt")
    if not os.path.exists(p):
        return out
    for l in open(p):
        l = l.strip()
        m = re.match(r"finding:\s+property=(\S+)\s+key=(\S+)\s*(.*)$", l)
        if m and m.group(1) == pid:
            out.append((m.group(2), m.group(3)))
    return out


def limit():
    try:
        resource.setrlimit(resource.RLIMIT_AS, (48 << 30, 48 << 30))
    except Exception:
        pass
    os.setsid()


def nolimit():
    # -race binaries reserve terabytes of address space for shadow memory: no RLIMIT_AS for them
    os.setsid()


class Shard:
    def __init__(self, idx, proc, d, log):
        self.idx, self.proc, self.dir, self.log = idx, proc, d, log
        self.timed_out = False
        self.race = False


def run_shards(pid, binary, tier, nshards, timeout, scratch, test_re, extra_args=(), extra_env=None, race_binary=None,
               nrace=0):
    shards = []
    seed = base_seed()
    kf = "\n".join("%s\t%s" % kv for kv in known_findings(pid))
    total = nshards + (nrace if race_binary else 0)
    for i in range(total):
        d = os.path.join(scratch, "shard%d" % i)
        os.makedirs(os.path.join(d, "tmp"))
        env = dict(os.environ)
        env.update(VERIF_TIER=tier, VERIF_EVOUT=os.path.join(d, "ev.json"), VERIF_JOURNAL=os.path.join(d, "journal.txt"),
                   VERIF_KNOWN=kf, VERIF_SHARD=str(i), VERIF_NSHARDS=str(total), TMPDIR=os.path.join(d, "tmp"),
                   GOTRACEBACK="all", GOMAXPROCS=str(max(2, NPROC // max(1, min(total, NPROC // 2)))))
        if extra_env:
            env.update(extra_env)
        israce = i >= nshards
        if israce:
            env.update(VERIF_SCALE="0.25", GORACE="halt_on_error=0 exitcode=0 log_path=%s" % os.path.join(d, "race"))
        args = [race_binary if israce else binary, "-test.run", test_re, "-test.timeout", "0", "-test.count", "1",
                "-rapid.seed=%d" % (seed + i * 104729)] + list(extra_args)
        log = open(os.path.join(d, "out.txt"), "w")
        p = subprocess.Popen(args, cwd=d, env=env, stdout=log, stderr=subprocess.STDOUT,
                             preexec_fn=nolimit if israce else limit)
        sh = Shard(i, p, d, log)
        sh.race = israce
        shards.append(sh)
    deadline = time.time() + timeout
    for s in shards:
        try:
            s.proc.wait(timeout=max(1, deadline - time.time()))
        except subprocess.TimeoutExpired:
            s.timed_out = True
            try:
                os.killpg(s.proc.pid, 9)
            except Exception:
                s.proc.kill()
            s.proc.wait()
        s.log.close()
    return shards


def classify(s):
    """-> ('pass'|'violation'|'inconclusive', reason)"""
    out = open(os.path.join(s.dir, "out.txt"), errors="replace").read()
    if s.timed_out:
        return "inconclusive", "timed out"
    rc = s.proc.returncode
    if rc == 0:
        return "pass", ""
    if "INCONCLUSIVE:" in out or rc == 3:
        return "inconclusive", "harness reported inconclusive"
    if re.search(r"out of memory|cannot allocate memory|signal: killed|newosproc|failed to create new OS thread", out) or rc in (-9, 137):
        return "inconclusive", "resource exhaustion"
    if getattr(s, "race", False) and "--- FAIL" in out and " violated" not in out and "panic:" not in out and "fatal error:" not in out:
        # a -race shard whose only complaint is the testing package's "race detected during execution of test":
        # the race detector is not an oracle of any property here (see P(race=...))
        if "race detected during execution of test" in out:
            return "pass", "race reports ignored"
    if "--- FAIL" in out:
        return "violation", "test failure"
    if "panic:" in out or "fatal error:" in out:
        if "github.com/icon-project/goloop" in out:
            return "violation", "process died with goloop frames on the stack"
        return "inconclusive", "process died outside goloop"
    return "inconclusive", "exit status %s" % rc


def save_replay(pid, s, tag):
    """copy rapid fail files / journal / output of a violating shard to replays/<ID>/ and return the main path"""
    rd = os.path.join(VERIF, "replays", pid)
    os.makedirs(rd, exist_ok=True)
    stamp = time.strftime("%Y%m%d-%H%M%S") + "-%s%d" % (tag, s.idx)
    main = None
    for f in sorted(glob.glob(os.path.join(s.dir, "testdata", "rapid", "*", "*.fail"))):
        dst = os.path.join(rd, os.path.basename(f))
        shutil.copy(f, dst)
        main = main or dst
    for f in sorted(glob.glob(os.path.join(s.dir, "crashers", "*"))):
        dst = os.path.join(rd, os.path.basename(f))
        shutil.copy(f, dst)
        main = main or dst
    j = os.path.join(s.dir, "journal.txt")
    if os.path.exists(j):
        dst = os.path.join(rd, stamp + ".journal")
        shutil.copy(j, dst)
        main = main or dst
    outp = os.path.join(rd, stamp + ".out.txt")
    txt = open(os.path.join(s.dir, "out.txt"), errors="replace").read()
    open(outp, "w").write(txt[-200000:])
    return main or outp


def merge_evidence(pid, tier, shards, wall, violations, extra_cov=None, notes=None):
    frs = []
    for s in shards:
        p = os.path.join(s.dir, "ev.json")
        if os.path.exists(p):
            try:
                frs.append(json.load(open(p)))
            except Exception:
                pass
    nt, labels, samples, assumptions, extra = set(), {}, [], [], {}
    evals, rule, exhaustive = 0, "", False
    for f in frs:
        evals += f.get("evaluations", 0)
        nt.update(f.get("nt_hashes") or [])
        for k, v in (f.get("labels") or {}).items():
            labels[k] = labels.get(k, 0) + v
        for x in f.get("samples") or []:
            if len(samples) < 8 and x not in samples:
                samples.append(x)
        for a in f.get("assumptions") or []:
            if a not in assumptions:
                assumptions.append(a)
        rule = rule or f.get("rule", "")
        exhaustive = exhaustive or bool(f.get("exhaustive"))
        for k, v in (f.get("extra") or {}).items():
            if isinstance(v, (int, float)) and isinstance(extra.get(k), (int, float)):
                extra[k] = max(extra[k], v)
            else:
                extra.setdefault(k, v)
    cov = dict(evaluations=evals, distinct_nontrivial=len(nt), rule=rule, samples=samples, labels=labels,
               shards=len(shards), shards_reporting=len(frs))
    if exhaustive:
        cov["exhaustive_part"] = True
    cov.update(extra)
    if extra_cov:
        cov.update(extra_cov)
    if notes:
        cov["notes"] = notes
    try:
        seed = int(os.environ.get("VERIF_SEED", "1"))
    except ValueError:
        seed = 1
    evd = dict(property_id=pid, tier=tier, seed=seed, level="exploration", coverage=cov,
               assumptions=assumptions, wall_s=round(wall, 2), violations=violations)
    os.makedirs(EVDIR, exist_ok=True)
    p = os.path.join(EVDIR, pid + ".json")
    tmp = p + ".%d" % os.getpid()
    json.dump(evd, open(tmp, "w"), indent=1, ensure_ascii=False)
    os.replace(tmp, p)


def test_regex(pid):
    return "^Test%s$" % pid


def run_fuzz(pid, cfg, scratch, notes):
    """bounded native coverage-guided campaigns (thorough tier only). Returns list of crasher paths."""
    crashers = []
    for target, secs in cfg["fuzz"]:
        pkgdir = os.path.join(HARNESS, cfg["cluster"])
        cdir = os.path.join(pkgdir, "testdata", "fuzz", target)
        before = set(os.listdir(cdir)) if os.path.isdir(cdir) else set()
        cmd = ["go", "test", "-tags", "verif", "-vet=off", "-overlay", overlay_file(), "-run", "^$",
               "-fuzz", "^%s$" % target, "-fuzztime", "%ds" % secs] + modfile_args() + [
               "./" + cfg["cluster"] + "/"]
        env = go_env()
        env.update(VERIF_TIER="thorough", TMPDIR=scratch)
        t0 = time.time()
        try:
            r = subprocess.run(cmd, cwd=HARNESS, env=env, stdout=subprocess.PIPE, stderr=subprocess.STDOUT, text=True,
                               timeout=secs + 600)
            out = r.stdout
            rc = r.returncode
        except subprocess.TimeoutExpired as e:
            out, rc = (e.stdout or ""), 0
            if isinstance(out, bytes):
                out = out.decode(errors="replace")
        m = re.findall(r"execs: (\d+)", out)
        notes.append("fuzz %s: %ss, execs=%s, rc=%s" % (target, int(time.time() - t0), m[-1] if m else "?", rc))
        after = set(os.listdir(cdir)) if os.path.isdir(cdir) else set()
        new = sorted(after - before)
        if rc != 0 and new:
            rd = os.path.join(VERIF, "replays", pid)
            os.makedirs(rd, exist_ok=True)
            for n in new:
                dst = os.path.join(rd, "%s-%s.fuzz" % (target, n))
                shutil.move(os.path.join(cdir, n), dst)
                crashers.append(dst)
            open(os.path.join(rd, "%s-%s.out.txt" % (target, new[0])), "w").write(out[-100000:])
        elif rc != 0 and "FAIL" in out and "context deadline exceeded" not in out:
            notes.append("fuzz %s ended abnormally without crasher: %s" % (target, out[-400:]))
    return crashers


def run_check(pid, tier):
    cfg = PROPS[pid]
    t0 = time.time()
    binary, blog = build(cfg["cluster"])
    if not binary:
        print(blog[-6000:])
        print("INCONCLUSIVE property=%s harness build failed" % pid)
        return 2
    scratch = tempfile.mkdtemp(prefix="verif-%s-" % pid)
    try:
        nsh = 1 if tier == "quick" else cfg["shards"]
        to = cfg["qt"] if tier == "quick" else cfg["tt"]
        rbin, nrace = None, 0
        if tier == "thorough" and cfg.get("race"):
            rbin, rlog = build(cfg["cluster"], race=True)
            nrace = cfg["race"] if rbin else 0
        shards = run_shards(pid, binary, tier, nsh, to, scratch, test_regex(pid), race_binary=rbin, nrace=nrace)
        res = [(s,) + classify(s) for s in shards]
        shown = set()
        for s in shards:
            for l in open(os.path.join(s.dir, "out.txt"), errors="replace"):
                if l.startswith("KNOWN-FINDING:") and l.rstrip() not in shown:   # one line per listed finding, not per shard
                    shown.add(l.rstrip())
                    print(l.rstrip())
        viol = [(s, why) for s, c, why in res if c == "violation"]
        inc = [(s, why) for s, c, why in res if c == "inconclusive"]
        notes = []
        crashers = []
        if nrace:
            nrep = sum(len(glob.glob(os.path.join(s.dir, "race.*"))) for s in shards if getattr(s, "race", False))
            notes.append("%d of %d shards ran a -race build at a quarter of the cases (scheduler perturbation only; %d race "
                         "detector report file(s), not used as an oracle)" % (nrace, len(shards), nrep))
        elif tier == "thorough" and cfg.get("race"):
            notes.append("-race build failed; no perturbed shards")
        if tier == "thorough" and cfg["fuzz"] and not viol:
            crashers = run_fuzz(pid, cfg, scratch, notes)
        nviol = len(viol) + len(crashers)
        if inc:
            notes.append("inconclusive shards: " + "; ".join("%d: %s" % (s.idx, w) for s, w in inc))
        merge_evidence(pid, tier, shards, time.time() - t0, nviol, notes=notes)
        if viol or crashers:
            if viol:
                s, why = viol[0]
                txt = open(os.path.join(s.dir, "out.txt"), errors="replace").read()
                print(txt[-5000:])
                path = save_replay(pid, s, tier[0])
            else:
                path = crashers[0]
            print("VIOLATION property=%s replay=%s" % (pid, path))
            return 1
        if inc and len(inc) == len(shards):
            s, why = inc[0]
            print(open(os.path.join(s.dir, "out.txt"), errors="replace").read()[-3000:])
            print("INCONCLUSIVE property=%s %s" % (pid, why))
            return 2
        ev = json.load(open(os.path.join(EVDIR, pid + ".json")))["coverage"]
        print("OK property=%s tier=%s evaluations=%d distinct_nontrivial=%d wall=%.1fs%s" % (
            pid, tier, ev["evaluations"], ev["distinct_nontrivial"], time.time() - t0,
            (" (" + "; ".join(notes) + ")") if notes else ""))
        return 0
    finally:
        shutil.rmtree(scratch, ignore_errors=True)


def run_replay(pid, path):
    cfg = PROPS[pid]
    path = os.path.abspath(path)
    binary, blog = build(cfg["cluster"])
    if not binary:
        print(blog[-6000:])
        return 2
    scratch = tempfile.mkdtemp(prefix="verif-%s-replay-" % pid)
    try:
        if path.endswith(".fuzz"):
            base = os.path.basename(path)
            target = base.split("-")[0]
            d = os.path.join(scratch, "shard0", "testdata", "fuzz", target)
            os.makedirs(d)
            shutil.copy(path, os.path.join(d, "replay"))
            os.makedirs(os.path.join(scratch, "shard0x"), exist_ok=True)
            # run_shards creates shard0 itself; pre-create is fine only for tmp, so run by hand
            env = dict(os.environ)
            env.update(VERIF_TIER="quick", TMPDIR=scratch)
            r = subprocess.run([binary, "-test.run", "^%s$/^replay$" % target, "-test.timeout", "0"],
                               cwd=os.path.join(scratch, "shard0"), env=env, stdout=subprocess.PIPE,
                               stderr=subprocess.STDOUT, text=True)
            print(r.stdout[-5000:])
            if r.returncode != 0:
                print("VIOLATION property=%s replay=%s" % (pid, path))
                return 1
            return 0
        extra, env, test_re = [], {}, test_regex(pid)
        if path.endswith(".fail"):
            extra = ["-rapid.failfile=" + path]
            m = re.match(r"(Test%s)_([A-Za-z0-9]+)-" % pid, os.path.basename(path))
            if m:
                test_re = "^%s$/^%s$" % (m.group(1), m.group(2))
        elif path.endswith(".journal"):
            env = {"VERIF_REPLAY_JOURNAL": path}
        else:
            print("unknown replay file type: %s" % path)
            return 2
        shards = run_shards(pid, binary, "quick", 1, cfg["qt"], scratch, test_re, extra, env)
        c, why = classify(shards[0])
        print(open(os.path.join(shards[0].dir, "out.txt"), errors="replace").read()[-5000:])
        if c == "violation":
            print("VIOLATION property=%s replay=%s" % (pid, path))
            return 1
        if c == "inconclusive":
            print("INCONCLUSIVE property=%s %s" % (pid, why))
            return 2
        print("OK property=%s replay no longer fails" % pid)
        return 0
    finally:
        shutil.rmtree(scratch, ignore_errors=True)


def setup():
    rc = 0
    for cl in sorted(set(c["cluster"] for c in PROPS.values())):
        t0 = time.time()
        b, log = build(cl)
        print("build %s: %s (%.1fs)" % (cl, "ok" if b else "FAILED", time.time() - t0))
        if not b:
            print(log[-4000:])
            rc = 2
    return rc


def manifest():
    ids = [json.loads(l)["id"] for l in open(os.path.join(VERIF, "properties.jsonl")) if l.strip()]
    checks = []
    for pid in ids:
        if pid not in PROPS:
            continue
        c = PROPS[pid]
        checks.append(dict(
            property_id=pid,
            quick_cmd="python3 check.py %s quick" % pid,
            thorough_cmd="python3 check.py %s thorough" % pid,
            evidence_file="evidence/%s.json" % pid,
            replay_cmd_template="python3 check.py %s --replay {path}" % pid,
            engine="rapid-harness",
            level_claimed=dict(category="exploration", text=c["text"] + ((" " + ADDED[pid]) if pid in ADDED else ""), design_ref=c["ref"]),
            level_note=c["note"],
            technique="property-based testing (pgregory.net/rapid): " + c["technique"]))
    na = [dict(property_id=pid, reason=NOT_APPLICABLE.get(pid, "check not built yet (work in progress); see DESIGN.md for the plan"))
          for pid in ids if pid not in PROPS]
    hooks_commits = []
    hc = os.path.join(VERIF, "hooks", "source_commits.txt")
    if os.path.exists(hc):
        hooks_commits = [l.split()[0] for l in open(hc) if l.strip()]
    m = dict(
        version=1,
        setup_cmd="python3 check.py --setup",
        hooks=dict(guard="verif",
                   enable="go test -tags verif (plus -overlay mapping /repo/<pkg>/verif_hooks.go to /verif/hooks/<pkg>_verif_hooks.go)",
                   baseline_off_cmd="cd /repo && go test -vet=off -count=1 -timeout 25m ./...",
                   source_commits=hooks_commits, add_only=True),
        engines=[dict(name="rapid-harness", path="harness", serves_properties=[c["property_id"] for c in checks],
                      kind_free_text="Go module 'verifharness' (pgregory.net/rapid v1.3.0, native go fuzz in thorough) compiled against "
                                     "/repo's working tree via replace; driven by check.py")],
        checks=checks,
        notes="All checks are generated-input search against explicit oracles (see DESIGN.md). Exit 2 = inconclusive.",
        not_applicable=na)
    json.dump(m, open(os.path.join(VERIF, "MANIFEST.json"), "w"), indent=1)
    print("MANIFEST.json: %d checks, %d not_applicable" % (len(checks), len(na)))
    return 0


def main(argv):
    if len(argv) >= 2 and argv[1] == "--setup":
        return setup()
    if len(argv) >= 2 and argv[1] == "--manifest":
        return manifest()
    if len(argv) >= 2 and argv[1] == "--list":
        print(" ".join(sorted(PROPS)))
        return 0
    if len(argv) < 3 or argv[1] not in PROPS:
        print(__doc__)
        return 2
    pid = argv[1]
    if argv[2] == "--replay":
        return run_replay(pid, argv[3])
    if argv[2] not in ("quick", "thorough"):
        print(__doc__)
        return 2
    return run_check(pid, argv[2])


if __name__ == "__main__":
    sys.exit(main(sys.argv))
