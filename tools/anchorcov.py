#!/usr/bin/env python3
"""tools/anchorcov.py <ID> [...]: statement coverage that a property's quick check reaches in the files its anchors name.

Runs the cluster's test for the property with -coverpkg of the anchor packages (against /repo, build tag verif) and lists
the functions of the anchor files with their coverage, lowest first. A development aid: it decides nothing."""
import json, os, re, subprocess, sys
VERIF = os.path.dirname(os.path.dirname(os.path.abspath(__file__)))
sys.path.insert(0, VERIF)
import check  # noqa
props = {json.loads(l)["id"]: json.loads(l) for l in open(os.path.join(VERIF, "properties.jsonl"))}
env = dict(os.environ, GOFLAGS="-mod=mod", GOPROXY="off", GOSUMDB="off", GOTOOLCHAIN="local", VERIF_TIER="quick")
for pid in sys.argv[1:]:
    p = props[pid]
    files = p["anchors"]["files"]
    pkgs = sorted({"github.com/icon-project/goloop/" + os.path.dirname(f) for f in files})
    cl = check.PROPS[pid]["cluster"]
    out = "/tmp/cov2/%s.out" % pid
    env["VERIF_KNOWN"] = "\n".join("%s\t%s" % kv for kv in check.known_findings(pid))
    cmd = ["go", "test", "-tags", "verif", "-vet=off", "-count=1", "-timeout", "1200s", "-run", "^Test%s$" % pid,
           "-coverpkg=" + ",".join(pkgs), "-coverprofile=" + out, "./" + cl + "/", "-rapid.seed=1"]
    r = subprocess.run(cmd, cwd=os.path.join(VERIF, "harness"), env=env, stdout=subprocess.PIPE, stderr=subprocess.STDOUT, text=True)
    print("==", pid, "rc", r.returncode, r.stdout.strip().splitlines()[-1][:150] if r.stdout.strip() else "")
    f = subprocess.run(["go", "tool", "cover", "-func=" + out], cwd=os.path.join(VERIF, "harness"), env=env, stdout=subprocess.PIPE, text=True).stdout
    rows = []
    for l in f.splitlines():
        m = re.match(r"github.com/icon-project/goloop/(\S+?):(\d+):\s+(\S+)\s+([\d.]+)%", l)
        if m and m.group(1) in files:
            rows.append((float(m.group(4)), m.group(1), m.group(3)))
    rows.sort()
    for c, fn, name in rows:
        if c < 75:
            print("  %5.1f%%  %s  %s" % (c, fn, name))
    print("  (%d functions in anchor files, %d below 75%%)" % (len(rows), sum(1 for r in rows if r[0] < 75)))
