#!/bin/bash
# tools/fuzzcheck.sh <patchfile|-> <cluster> <FuzzTarget> [seconds]: run one native fuzz target against a scratch worktree of
# /repo with the patch applied ("-" = no patch). Development aid for sensitivity runs of the fuzz targets.
pf=$1; cl=$2; tg=$3; secs=${4:-60}
export GOFLAGS=-mod=mod GOPROXY=off GOSUMDB=off GOTOOLCHAIN=local
wt=/tmp/fzx-$tg-$$
git -C /repo worktree add --detach -q $wt HEAD
[ "$pf" != "-" ] && { (cd $wt && git apply $pf) || { echo "patch failed"; git -C /repo worktree remove --force $wt; exit 2; }; }
cd /verif/harness
mod=/tmp/fzx-$tg-$$.mod
sed "s#=> /repo#=> $wt#" go.mod > $mod; cat $wt/go.sum go.sum.extra > ${mod%.mod}.sum
cdir=$cl/testdata/fuzz/$tg
before=$(ls $cdir 2>/dev/null | sort)
go test -tags verif -vet=off -modfile=$mod -run '^$' -fuzz "^$tg\$" -fuzztime ${secs}s ./$cl/ 2>&1 | grep -v WARNING | tail -12
for n in $(comm -13 <(echo "$before") <(ls $cdir 2>/dev/null | sort)); do echo "crasher $n (removed)"; rm -f $cdir/$n; done
rmdir $cdir 2>/dev/null
git -C /repo worktree remove --force $wt; rm -f $mod ${mod%.mod}.sum
