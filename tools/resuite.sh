#!/bin/bash
# tools/resuite.sh <seeded-name>: re-run "existing suite passes with the change" for an archived seeded change in a fresh
# scratch worktree (serialised with keepseed.sh) and record the outcome in its meta.json
cd /verif
( flock 9; python3 tools/seed.py resuite "$1" ) 9>/tmp/keepseed.lock
