#!/usr/bin/env python3
"""Re-run the /verif checks against every kept seeded change and record which check catches which change.

  tools/seedstatus.py [name-prefix ...] [--thorough-on-miss] [--jobs N]

For each /verif/seeded/<name>/ (patch.diff + meta.json) runs tools/seedcheck.sh <name> <property> quick in a scratch
worktree (never /repo itself), stores the outcome in meta.json["detection"] and rewrites seeded/STATUS.md.
"""
import concurrent.futures
import json
import os
import re
import subprocess
import sys
import time

VERIF = os.path.dirname(os.path.dirname(os.path.abspath(__file__)))
SEEDED = os.path.join(VERIF, "seeded")


def run_one(name, tier):
    meta = json.load(open(os.path.join(SEEDED, name, "meta.json")))
    pid = meta["property"]
    t0 = time.time()
    r = subprocess.run([os.path.join(VERIF, "tools", "seedcheck.sh"), name, pid, tier], cwd=VERIF,
                       stdout=subprocess.PIPE, stderr=subprocess.STDOUT, text=True)
    out = r.stdout
    det = "DETECTED" in out
    m = re.search(r"rc=(\d+)", out)
    first = ""
    for l in out.splitlines():
        if "violated" in l or "panic" in l:
            first = l.strip()[:300]
            break
    return dict(check=pid, tier=tier, detected=det, rc=int(m.group(1)) if m else None, wall_s=round(time.time() - t0),
                first_line=first, when=time.strftime("%Y-%m-%d %H:%M"))


def main():
    args = [a for a in sys.argv[1:] if not a.startswith("--")]
    thorough = "--thorough-on-miss" in sys.argv
    jobs = 2
    for a in sys.argv[1:]:
        if a.startswith("--jobs="):
            jobs = int(a.split("=")[1])
    names = sorted(d for d in os.listdir(SEEDED) if os.path.isfile(os.path.join(SEEDED, d, "meta.json")))
    if args:
        names = [n for n in names if any(n.startswith(a) for a in args)]

    def work(n):
        res = run_one(n, "quick")
        if not res["detected"] and thorough:
            res2 = run_one(n, "thorough")
            res2["quick_missed"] = True
            res = res2
        mp = os.path.join(SEEDED, n, "meta.json")
        meta = json.load(open(mp))
        meta["detection"] = res
        json.dump(meta, open(mp, "w"), indent=1)
        print("%-45s %s %s (%ss)" % (n, res["tier"], "DETECTED" if res["detected"] else "missed", res["wall_s"]), flush=True)
        return n

    with concurrent.futures.ThreadPoolExecutor(max_workers=jobs) as ex:
        list(ex.map(work, names))
    write_status()


def write_status():
    rows = []
    for n in sorted(os.listdir(SEEDED)):
        mp = os.path.join(SEEDED, n, "meta.json")
        if not os.path.isfile(mp):
            continue
        meta = json.load(open(mp))
        d = meta.get("detection") or {}
        rows.append("| %s | %s | %s | %s | %s |" % (
            n, meta["property"], (meta.get("needs") or "").replace("|", "/")[:160],
            ("caught by %s %s in %ss" % (d.get("check"), d.get("tier"), d.get("wall_s"))) if d.get("detected") else
            ("MISSED (%s)" % d.get("tier") if d else "not run"),
            (d.get("first_line") or "").replace("|", "/")[:160]))
    with open(os.path.join(SEEDED, "STATUS.md"), "w") as f:
        f.write("# Seeded breaking changes and the checks that catch them\n\n"
                "Each directory holds `patch.diff` (the change, never committed to /repo), `demo/` (a test that fails with the\n"
                "change and passes without it) and `meta.json` (what it needs to manifest, what was run). Rewritten by\n"
                "`tools/seedstatus.py`, which applies each patch in a scratch worktree and runs the property's check there.\n\n"
                "| change | property | needs | result | first line of the report |\n|---|---|---|---|---|\n")
        f.write("\n".join(rows) + "\n")


if __name__ == "__main__":
    if "--table-only" in sys.argv:
        write_status()
    else:
        main()
