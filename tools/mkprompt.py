#!/usr/bin/env python3
"""tools/mkprompt.py <ID> <round> [outdir]: write the prompt for a seeding sub-agent (it sees only the property record, its
own scratch worktree path and the list of earlier seeds for the property) and print the worktree path to create."""
import glob, json, os, sys
VERIF = os.path.dirname(os.path.dirname(os.path.abspath(__file__)))
pid, rnd = sys.argv[1], sys.argv[2]
outdir = sys.argv[3] if len(sys.argv) > 3 else "/tmp/seedprompts"
os.makedirs(outdir, exist_ok=True)
prop = [l.strip() for l in open(os.path.join(VERIF, "properties.jsonl")) if json.loads(l)["id"] == pid][0]
wt = "/tmp/seed%s-%s" % (rnd, pid)
t = open(os.path.join(VERIF, "tools", "seedprompt.tmpl")).read().replace("{WT}", wt).replace("{PROP}", prop)
prev = []
for d in sorted(glob.glob(os.path.join(VERIF, "seeded", pid + "-*"))):
    m = json.load(open(d + "/meta.json"))
    files = [l.split(" b/")[-1].strip() for l in open(d + "/patch.diff") if l.startswith("diff --git")]
    prev.append("- %s (files: %s): manifests with: %s" % (os.path.basename(d), ", ".join(files), m.get("needs", "")))
if prev:
    extra = ("\nEARLIER SEEDED CHANGES FOR THIS PROPERTY (already taken - do NOT produce the same change or a close variant of it; "
             "choose a different mechanism, a different function or file among the anchors, or a different clause of the property "
             "statement):\n%s\n" % "\n".join(prev))
    t = t.replace("\nTASK\n", extra + "\nTASK\n")
open(os.path.join(outdir, "%s-r%s.txt" % (pid, rnd)), "w").write(t)
print(wt)
