#!/usr/bin/env python3
"""Verify and archive a seeded breaking change produced in a scratch worktree.

  seed.py keep <ID> <name> <worktree> <demo-pkg> <demo-run-regex> [--needs TEXT]
      - splits the worktree's uncommitted state into patch.diff (non-test change) and demo files
      - checks: builds; demo FAILS with the change and PASSES without it; the repository's whole suite
        (BASELINE command, demo file moved aside) still passes with the change
      - runs the /verif checks listed in --checks (default: <ID>) quick against the patched copy (VERIF_REPO)
      - writes /verif/seeded/<name>/{patch.diff, demo/…, meta.json}
"""
import json, os, subprocess, sys, shutil, time, argparse, re

ENV = dict(os.environ, GOFLAGS="-mod=mod", GOPROXY="off", GOSUMDB="off", GOTOOLCHAIN="local")

def sh(cmd, cwd, timeout=3000):
    r = subprocess.run(cmd, cwd=cwd, shell=True, env=ENV, stdout=subprocess.PIPE, stderr=subprocess.STDOUT, text=True, timeout=timeout)
    return r.returncode, r.stdout

KNOWN_FAIL = ("--- FAIL: Test_network_allowedPeer", "--- FAIL: Test_network_trustSeeds")


def suite(wt):
    """run the repository's whole suite in wt; -> (ok, detail, seconds). Unexpectedly failing packages are re-run alone."""
    t0 = time.time()
    rc, o = sh("go test -vet=off -count=1 -timeout 25m ./... 2>&1 | grep -v '^ok\\|no test files'", wt, timeout=4000)
    lines = o.splitlines()
    fails = [l for l in lines if l.startswith("--- FAIL") or l.startswith("FAIL") or "panic:" in l]
    badpk = []
    cur = []
    for l in lines:
        if l.startswith("--- FAIL"):
            cur.append(l)
        m = re.match(r"FAIL\t(\S+)", l)
        if m:
            unexpected = [c for c in cur if not c.startswith(KNOWN_FAIL)]
            if unexpected or not cur:
                badpk.append((m.group(1), unexpected))
            cur = []
    detail = "\n".join(fails)
    still = []
    for pk, tests in badpk:
        rel = "./" + pk.split("github.com/icon-project/goloop/", 1)[-1]
        okc = 0
        for i in range(2):
            rc2, o2 = sh("go test -vet=off -count=1 -timeout 25m %s 2>&1 | tail -30" % rel, wt, timeout=2000)
            un = [l for l in o2.splitlines() if l.startswith("--- FAIL") and not l.startswith(KNOWN_FAIL)]
            if not un and "panic:" not in o2 and "build failed" not in o2:
                okc += 1
        detail += "\nre-run of %s alone: %d/2 without unexpected failures" % (rel, okc)
        if okc < 2:
            still.append(pk)
    return (not still), detail[-1500:], time.time() - t0


def resuite(name):
    out = os.path.join("/verif/seeded", name)
    wt = "/tmp/rs-" + name
    sh("git -C /repo worktree add --detach -q %s HEAD" % wt, "/")
    try:
        rc, o = sh("git apply %s" % os.path.join(out, "patch.diff"), wt)
        if rc != 0:
            print("patch does not apply", o); return 2
        ok, detail, secs = suite(wt)
    finally:
        sh("git -C /repo worktree remove --force %s" % wt, "/")
    mp = os.path.join(out, "meta.json")
    m = json.load(open(mp))
    m["ran"] = [r for r in m["ran"] if not r["step"].startswith("existing suite passes")]
    m["ran"].append(dict(step="existing suite passes with the change (%.0fs; fresh worktree; baseline always-fail tests ignored; a package that fails is re-run alone twice to tell load flakes apart)" % secs, ok=ok, detail=detail))
    json.dump(m, open(mp, "w"), indent=1)
    print(name, "suite", "OK" if ok else "FAILS")
    return 0


def main():
    if len(sys.argv) >= 3 and sys.argv[1] == "resuite":
        return resuite(sys.argv[2])
    ap = argparse.ArgumentParser()
    ap.add_argument("cmd"); ap.add_argument("id"); ap.add_argument("name"); ap.add_argument("wt"); ap.add_argument("pkg"); ap.add_argument("run")
    ap.add_argument("--needs", default=""); ap.add_argument("--checks", default=""); ap.add_argument("--tier", default="quick")
    ap.add_argument("--skip-suite", action="store_true"); ap.add_argument("--no-checks", action="store_true")
    a = ap.parse_args()
    wt = a.wt
    out = os.path.join("/verif/seeded", a.name)
    os.makedirs(os.path.join(out, "demo"), exist_ok=True)
    rc, patch = sh("git diff", wt)
    rc, untracked = sh("git ls-files --others --exclude-standard", wt)
    demos = [f for f in untracked.split() if f.endswith("_test.go") or f.endswith(".go")]
    # tracked test files changed count as demo too (should not happen)
    open(os.path.join(out, "patch.diff"), "w").write(patch)
    for f in demos:
        d = os.path.join(out, "demo", f)
        os.makedirs(os.path.dirname(d), exist_ok=True)
        shutil.copy(os.path.join(wt, f), d)
    meta = dict(property=a.id, name=a.name, needs=a.needs, demo_files=demos,
                demo_cmd="go test -count=1 -vet=off -timeout 600s -run '%s' %s" % (a.run, a.pkg), ran=[])
    def rec(what, ok, detail=""):
        meta["ran"].append(dict(step=what, ok=ok, detail=detail[-1500:]))
        print(("OK   " if ok else "FAIL ") + what)
    rc, o = sh("go build ./... ", wt); rec("go build ./... with change", rc == 0, o)
    rc, o = sh(meta["demo_cmd"], wt); rec("demonstration fails with the change", rc != 0 and ("FAIL" in o), o)
    # NOT git stash: the stash is shared by all worktrees of a repository
    sh("git apply -R %s" % os.path.join(out, "patch.diff"), wt)
    try:
        rc, o = sh(meta["demo_cmd"], wt); rec("demonstration passes without the change", rc == 0, o)
    finally:
        sh("git apply %s" % os.path.join(out, "patch.diff"), wt)
    rc, now = sh("git diff", wt)
    rec("worktree holds exactly the archived change again", now == patch)
    if not a.skip_suite:
        for f in demos: os.rename(os.path.join(wt, f), os.path.join(wt, f + ".aside"))
        try:
            ok, detail, secs = suite(wt)
            rec("existing suite passes with the change (%.0fs; baseline always-fail tests ignored; a package that fails is re-run alone twice to tell load flakes apart)" % secs, ok, detail)
        finally:
            for f in demos: os.rename(os.path.join(wt, f + ".aside"), os.path.join(wt, f))
    checks = [] if a.no_checks else [c for c in (a.checks or a.id).split(",") if c]
    detected = {}
    for f in demos: os.rename(os.path.join(wt, f), os.path.join(wt, f + ".aside"))
    try:
        for c in checks:
            t0 = time.time()
            rc, o = sh("VERIF_REPO=%s python3 check.py %s %s" % (wt, c, a.tier), "/verif", timeout=7200)
            v = [l for l in o.splitlines() if l.startswith("VIOLATION")]
            detected[c] = dict(rc=rc, violation=bool(v), wall=round(time.time() - t0), tail=o[-1200:])
            print("check %s %s: rc=%d %s (%.0fs)" % (c, a.tier, rc, "DETECTED" if v else "missed", time.time() - t0))
    finally:
        for f in demos: os.rename(os.path.join(wt, f + ".aside"), os.path.join(wt, f))
    meta["checks"] = detected
    json.dump(meta, open(os.path.join(out, "meta.json"), "w"), indent=1)
    shutil.rmtree("/verif/replays", ignore_errors=True)

if __name__ == "__main__":
    main()
