#!/usr/bin/env python3
"""validate MANIFEST.json and every evidence file against the schemas in /root/.vp (python3-vt has jsonschema)"""
import glob, json, sys
import jsonschema
bad = 0
ms = json.load(open("/root/.vp/MANIFEST.schema.json"))
es = json.load(open("/root/.vp/EVIDENCE.schema.json"))
m = json.load(open("MANIFEST.json"))
try:
    jsonschema.validate(m, ms)
except jsonschema.ValidationError as e:
    print("MANIFEST:", e.message); bad += 1
for c in m["checks"]:
    f = c["evidence_file"]
    try:
        e = json.load(open(f))
        jsonschema.validate(e, es)
        assert e["property_id"] == c["property_id"]
        assert e["level"] == c["level_claimed"]["category"]
        assert e.get("violations", 0) == 0, "violations=%s" % e.get("violations")
    except Exception as x:
        print(f, "INVALID:", getattr(x, "message", x)); bad += 1
print("checked %d evidence files, %d problems" % (len(m["checks"]), bad))
sys.exit(1 if bad else 0)
