#!/bin/bash
# tools/keepseed.sh <ID> <name> <demo-pkg> <run-regex> <needs text>
# serialised (flock) verification + archiving of an agent-made seeded change in /tmp/seed-<ID>, then the check against it,
# then removal of the worktree.
id=$1; name=$2; pkg=$3; run=$4; needs=$5; wt=${6:-/tmp/seed-$id}
cd /verif
(
flock 9
python3 tools/seed.py keep $id $name $wt $pkg "$run" --no-checks --needs "$needs"
) 9>/tmp/keepseed.lock > /tmp/keep-$name.log 2>&1
tools/seedstatus.py $name >> /tmp/keep-$name.log 2>&1
git -C /repo worktree remove --force $wt >> /tmp/keep-$name.log 2>&1
echo finished >> /tmp/keep-$name.log
