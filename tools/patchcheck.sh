#!/bin/bash
# /tmp/sc.sh <patchfile> <ID> [tier]: run a check against an arbitrary patch in a scratch worktree
pf=$1; id=$2; tier=${3:-quick}
wt=/tmp/scx-$id-$$
git -C /repo worktree add --detach -q $wt HEAD
(cd $wt && git apply $pf) || { echo "patch failed"; git -C /repo worktree remove --force $wt; exit 2; }
cd /verif && VERIF_REPO=$wt python3 check.py $id $tier > /tmp/scx-$id.log 2>&1; rc=$?
git -C /repo worktree remove --force $wt
grep -m2 "violated\|VIOLATION" /tmp/scx-$id.log | cut -c1-500
tail -1 /tmp/scx-$id.log | cut -c1-200
echo "sc $id $tier rc=$rc"
