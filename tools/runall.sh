#!/bin/bash
# run every quick (or thorough) check once, each from a fresh process with its evidence file removed first
# usage: tools/runall.sh [tier] [ids...]   (VERIF_SEED from env, default 1)
cd "$(dirname "$0")/.."
tier=${1:-quick}; shift
ids="$@"; [ -z "$ids" ] && ids=$(python3 check.py --list)
mkdir -p .build/runall
rc_all=0
for id in $ids; do
  rm -f evidence/$id.json
  t0=$(date +%s)
  python3 check.py $id $tier > .build/runall/$id.log 2>&1; rc=$?
  t1=$(date +%s)
  ok=$(python3 - "$id" <<'PY'
import json,sys
try:
    e=json.load(open("evidence/%s.json"%sys.argv[1])); c=e["coverage"]
    print("ev=%d nt=%d samples=%d viol=%s"%(c["evaluations"],c["distinct_nontrivial"],len(c["samples"]),e.get("violations")))
except Exception as x:
    print("EVIDENCE-MISSING %s"%x)
PY
)
  echo "$id rc=$rc $((t1-t0))s $ok $(grep -c '^VIOLATION' .build/runall/$id.log) viol-lines; $(grep '^KNOWN-FINDING' .build/runall/$id.log | cut -c1-80)"
  [ $rc -ne 0 ] && rc_all=1
done
exit $rc_all
