#!/bin/bash
# Run /verif checks against a seeded breaking change without touching /repo.
#   tools/seedcheck.sh <seeded-name> [ID[,ID..]] [quick|thorough]
# Creates a scratch worktree of /repo HEAD under /tmp, applies seeded/<name>/patch.diff, runs the checks with
# VERIF_REPO pointing at it (evidence goes to .build/, not evidence/), prints DETECTED/missed, removes the worktree.
set -u
name=$1
ids=${2:-$(python3 -c "import json;print(json.load(open('/verif/seeded/$name/meta.json'))['property'])")}
tier=${3:-quick}
wt=/tmp/sc-$name-$$
git -C /repo worktree add --detach -q "$wt" HEAD || exit 2
trap 'git -C /repo worktree remove --force "$wt" >/dev/null 2>&1; rm -rf "$wt"; rm -rf /verif/.build/*sc_${name//[^A-Za-z0-9]/_}* 2>/dev/null' EXIT
(cd "$wt" && git apply /verif/seeded/$name/patch.diff) || { echo "patch does not apply: $name"; exit 2; }
rc_all=0
for id in ${ids//,/ }; do
  t0=$(date +%s)
  out=$(cd /verif && VERIF_REPO=$wt python3 check.py $id $tier 2>&1); rc=$?
  t1=$(date +%s)
  if echo "$out" | grep -q '^VIOLATION'; then echo "seed=$name check=$id tier=$tier DETECTED rc=$rc wall=$((t1-t0))s"; echo "$out" | grep -m3 'violated\|VIOLATION' | cut -c1-400
  else echo "seed=$name check=$id tier=$tier missed rc=$rc wall=$((t1-t0))s"; echo "$out" | tail -2 | cut -c1-300; rc_all=1; fi
done
exit $rc_all
