//go:build verif

// Hooks for the /verif consensus simulator (C01, C02). Add-only, compiled only with -tags verif.
// They expose state and the pending step timer of the engine and thin constructors for signed
// messages; they contain no protocol logic.

package consensus

import (
	"time"

	"github.com/icon-project/goloop/module"
)

// VerifSimState is a snapshot of the engine's round state.
type VerifSimState struct {
	Height      int64
	Round       int32
	Step        int
	LockedRound int32
	HasTimer    bool
	Started     bool
}

const (
	VerifSimStepNewHeight       = int(stepNewHeight)
	VerifSimStepTransactionWait = int(stepTransactionWait)
	VerifSimStepNewRound        = int(stepNewRound)
	VerifSimStepPropose         = int(stepPropose)
	VerifSimStepPrevote         = int(stepPrevote)
	VerifSimStepPrevoteWait     = int(stepPrevoteWait)
	VerifSimStepPrecommit       = int(stepPrecommit)
	VerifSimStepPrecommitWait   = int(stepPrecommitWait)
	VerifSimStepCommit          = int(stepCommit)
)

func VerifSimGetState(c module.Consensus) VerifSimState {
	cs := c.(*consensus)
	cs.mutex.Lock()
	defer cs.mutex.Unlock()
	return VerifSimState{
		Height: cs.height, Round: cs.round, Step: int(cs.step),
		LockedRound: cs.lockedRound, HasTimer: cs.timer != nil, Started: cs.started,
	}
}

// VerifSimFreezeTimer postpones the pending step timer (if any) so that only the harness fires it.
func VerifSimFreezeTimer(c module.Consensus) {
	cs := c.(*consensus)
	cs.mutex.Lock()
	defer cs.mutex.Unlock()
	if cs.timer != nil {
		cs.timer.Reset(1000 * time.Hour)
	}
}

// VerifSimFireTimer makes the pending step timer (if any) fire now, through its real closure.
func VerifSimFireTimer(c module.Consensus) bool {
	cs := c.(*consensus)
	cs.mutex.Lock()
	defer cs.mutex.Unlock()
	if cs.timer == nil || !cs.started {
		return false
	}
	cs.timer.Reset(0)
	return true
}

// VerifSimVoteInfo returns the signer and the exact signed bytes of a vote.
func VerifSimVoteInfo(m *VoteMessage) (module.Address, []byte) {
	a := m.address()
	if a == nil {
		return nil, m._byteser.bytes()
	}
	return a, m._byteser.bytes()
}

// VerifSimProposalInfo returns the signer and the exact signed bytes of a proposal.
func VerifSimProposalInfo(m *ProposalMessage) (module.Address, []byte) {
	a := m.address()
	if a == nil {
		return nil, m._byteser.bytes()
	}
	return a, m._byteser.bytes()
}

// VerifSimNewVote signs a vote. psid == nil makes a nil vote (blockID then carries the NID bytes).
func VerifSimNewVote(w module.Wallet, vt VoteType, height int64, round int32, blockID []byte,
	psid *PartSetID, appData uint64, ts int64) *VoteMessage {
	vm := newVoteMessage()
	vm.Height = height
	vm.Round = round
	vm.Type = vt
	vm.SetRoundDecision(blockID, psid.WithAppData(appData), nil)
	vm.Timestamp = ts
	_ = vm.Sign(w)
	return vm
}

// VerifSimNewProposal signs a proposal.
func VerifSimNewProposal(w module.Wallet, height int64, round int32, psid *PartSetID, polRound int32, nid uint32) *ProposalMessage {
	msg := NewProposalMessage()
	msg.Height = height
	msg.Round = round
	msg.BlockPartSetID = psid
	msg.POLRound = polRound
	msg.NID = nid
	_ = msg.Sign(w)
	return msg
}

// VerifSimNewBlockPart builds a block part message.
func VerifSimNewBlockPart(height int64, index uint16, nonce int32, part []byte) *BlockPartMessage {
	m := newBlockPartMessage()
	m.Height = height
	m.Index = index
	m.Nonce = nonce
	m.BlockPart = part
	return m
}

// VerifSimNewVoteList builds a vote list message.
func VerifSimNewVoteList(votes ...*VoteMessage) *VoteListMessage {
	m := newVoteListMessage()
	m.VoteList = NewVoteList()
	for _, v := range votes {
		m.VoteList.AddVote(v)
	}
	return m
}

// VerifSimMarshal returns the sub-protocol and wire bytes of a message.
func VerifSimMarshal(m Message) (module.ProtocolInfo, []byte) {
	return module.ProtocolInfo(m.subprotocol()), msgCodec.MustMarshalToBytes(m)
}

// VerifSimPSIDAppData encodes (nid, ntsVoteCount) as the engine does.
func VerifSimPSIDAppData(nid uint32, ntsVoteCount uint16) uint64 {
	return psidAppData(nid, ntsVoteCount)
}
