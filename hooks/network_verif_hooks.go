//go:build verif

// Add-only accessors for the external verification harness (/verif). Compiled only with
// `-tags verif`. No behaviour of the package is changed; every function is a thin wrapper
// around unexported fields/functions.
package network

import (
	"crypto/ecdsa"
	"crypto/elliptic"
	"fmt"
	"math/big"
	"net"

	"github.com/icon-project/goloop/common/log"
	"github.com/icon-project/goloop/module"
)

// ---- Packet ---------------------------------------------------------------------------

// VerifPacketFields is the externally visible content of a Packet.
type VerifPacketFields struct {
	Protocol    uint16
	SubProtocol uint16
	Src         []byte // peerIDSize bytes (nil when the packet has no source)
	Dest        byte
	TTL         byte
	Payload     []byte
	ExtHint     byte
	ExtLen      int // declared extension length (read side only)
	Ext         []byte
	Hash        uint64
}

const (
	VerifPacketHeaderSize = packetHeaderSize
	VerifPacketFooterSize = packetFooterSize
	VerifPacketExtMaxLen  = packetExtendMaxLen
	VerifPacketExtMaxHint = packetExtendMaxHint
	VerifPeerIDSize       = peerIDSize
	VerifDestAny          = p2pDestAny
	VerifDestPeer         = p2pDestPeer
)

// VerifNewPacket builds a packet the way senders do (NewPacket, then the header fields and
// the extension are assigned); Hash is not used.
func VerifNewPacket(f VerifPacketFields) *Packet {
	pkt := NewPacket(module.ProtocolInfo(f.Protocol), module.ProtocolInfo(f.SubProtocol), f.Payload)
	if f.Src != nil {
		pkt.src = NewPeerID(f.Src)
	}
	pkt.dest = f.Dest
	pkt.ttl = f.TTL
	if len(f.Ext) > 0 || f.ExtHint != 0 {
		pkt.extendInfo = newPacketExtendInfo(f.ExtHint, len(f.Ext))
		pkt.ext = f.Ext
	}
	return pkt
}

// VerifPacketFieldsOf reads the fields back.
func VerifPacketFieldsOf(pkt *Packet) VerifPacketFields {
	f := VerifPacketFields{
		Protocol:    pkt.protocol.Uint16(),
		SubProtocol: pkt.subProtocol.Uint16(),
		Dest:        pkt.dest,
		TTL:         pkt.ttl,
		Payload:     pkt.payload,
		ExtHint:     pkt.extendInfo.hint(),
		ExtLen:      pkt.extendInfo.len(),
		Ext:         pkt.ext,
		Hash:        pkt.hashOfPacket,
	}
	if pkt.src != nil {
		f.Src = pkt.src.Bytes()
	}
	return f
}

// ---- secure channel -------------------------------------------------------------------

// VerifSecureKey wraps the unexported session key object.
type VerifSecureKey struct{ k *secureKey }

// VerifNewSecureKey makes a session key on the default curve from the scalar d
// (newSecureKey draws it from crypto/rand; the harness needs reproducible keys).
func VerifNewSecureKey(d []byte) (*VerifSecureKey, error) {
	c := DefaultSecureEllipticCurve
	n := new(big.Int).SetBytes(d)
	if n.Sign() == 0 || n.Cmp(c.Params().N) >= 0 {
		return nil, fmt.Errorf("scalar out of range")
	}
	priv := &ecdsa.PrivateKey{PublicKey: ecdsa.PublicKey{Curve: c}, D: n}
	priv.X, priv.Y = c.ScalarBaseMult(n.Bytes())
	return &VerifSecureKey{k: &secureKey{PrivateKey: priv}}, nil
}

func (v *VerifSecureKey) PublicKey() []byte { return v.k.marshalPublicKey() }
func (v *VerifSecureKey) Curve() elliptic.Curve {
	return v.k.Curve
}
func (v *VerifSecureKey) Setup(sa SecureAeadSuite, peerPublicKey []byte, defaultLower bool, numOfSecret int) error {
	return v.k.setup(sa, peerPublicKey, defaultLower, numOfSecret)
}
func (v *VerifSecureKey) Secrets() [][]byte { return v.k.secret }
func (v *VerifSecureKey) Extra() []byte     { return v.k.extra }
func (v *VerifSecureKey) IsLower() bool     { return v.k.isLower }
func (v *VerifSecureKey) NewConn(conn net.Conn, sa SecureAeadSuite) (*SecureConn, error) {
	return NewSecureConn(conn, sa, v.k)
}

// VerifSecureConnSecrets returns the keys the connection really uses for reading and writing.
func VerifSecureConnSecrets(c *SecureConn) (in, out []byte) { return c.in.secret, c.out.secret }

// VerifSecureConnOverhead returns the AEAD tag size of the connection.
func VerifSecureConnOverhead(c *SecureConn) int { return c.out.aead.Overhead() }

const (
	VerifSecureConnHeaderSize = secureConnHeaderSize
	VerifSecureConnFrameSize  = secureConnFrameSize
)

// ---- authenticator --------------------------------------------------------------------

func VerifNewAuthenticator(w module.Wallet, l log.Logger) *Authenticator {
	return newAuthenticator(w, l)
}

// ---- p2p ------------------------------------------------------------------------------

const (
	VerifConnTypeNone     = byte(p2pConnTypeNone)
	VerifConnTypeReserved = byte(p2pConnTypeReserved)
)

// VerifNewP2P builds a PeerToPeer that is not started (no routines, no dialer).
func VerifNewP2P(self []byte, l log.Logger) *PeerToPeer {
	return newPeerToPeer("verif", &Peer{id: NewPeerID(self)}, nil, nil, l)
}

// VerifSetCallback registers the application callback of a protocol.
func (p2p *PeerToPeer) VerifSetCallback(pi module.ProtocolInfo, cb func(pkt *Packet, p *Peer)) {
	p2p.setCbFunc(pi, cb, nil)
}

// VerifNewPeer builds a connected peer object without starting its routines.
func VerifNewPeer(conn net.Conn, id []byte, role byte, connType byte, pis []module.ProtocolInfo, l log.Logger) *Peer {
	p := newPeer(conn, true, "", l)
	p.setID(NewPeerID(id))
	p.setRole(PeerRoleFlag(role))
	p.setConnType(PeerConnectionType(connType))
	ps := newProtocolInfos()
	ps.Set(pis)
	p.setProtocolInfos(ps)
	return p
}

// VerifOnPacket hands a received packet to the real onPacket the way Peer.receiveRoutine does.
func (p2p *PeerToPeer) VerifOnPacket(pkt *Packet, p *Peer) {
	pkt.sender = p.ID()
	p2p.onPacket(pkt, p)
}

// ---- authenticator handshake ------------------------------------------------------------

var (
	VerifProtoAuth                  = p2pProtoAuth
	VerifProtoAuthSecureRequest     = p2pProtoAuthSecureRequest
	VerifProtoAuthSecureResponse    = p2pProtoAuthSecureResponse
	VerifProtoAuthSignatureRequest  = p2pProtoAuthSignatureRequest
	VerifProtoAuthSignatureResponse = p2pProtoAuthSignatureResponse
)

// VerifAuthSession lets the harness play the remote end of one connection against the real
// handshake handlers of an Authenticator (onPeer, onPacket). It only records whether the peer was
// handed on to the next handler (= authenticated) and exposes the peer object's state.
type VerifAuthSession struct {
	a      *Authenticator
	p      *Peer
	passed bool
}

type verifAuthNext struct {
	*peerHandler
	s *VerifAuthSession
}

func (n *verifAuthNext) onPeer(p *Peer) {
	if n.s.p == p {
		n.s.passed = true
	}
}

// VerifNewAuthSession creates the peer object for conn (incoming = the remote end dialled us) and
// calls the authenticator's onPeer, as the listener / dialer do. One session at a time per authenticator.
func VerifNewAuthSession(a *Authenticator, conn net.Conn, incoming bool, l log.Logger) *VerifAuthSession {
	s := &VerifAuthSession{a: a, p: newPeer(conn, incoming, "", l)}
	a.setNext(&verifAuthNext{peerHandler: newPeerHandler(a.self, l), s: s})
	a.onPeer(s.p)
	return s
}

// Feed hands a received packet to the authenticator, as Peer.receiveRoutine does.
func (s *VerifAuthSession) Feed(pkt *Packet) {
	pkt.sender = s.p.ID()
	s.a.onPacket(pkt, s.p)
}

// Passed reports whether the authenticator handed the peer on as authenticated.
func (s *VerifAuthSession) Passed() bool { return s.passed }
func (s *VerifAuthSession) Closed() bool { return s.p.IsClosed() }

// ID returns the identity the peer object carries now (nil if none).
func (s *VerifAuthSession) ID() []byte {
	if id := s.p.ID(); id != nil {
		return id.Bytes()
	}
	return nil
}

// SessionSecret returns the secret of this very session as derived on the authenticator's side.
func (s *VerifAuthSession) SessionSecret() []byte {
	if s.p.secureKey == nil {
		return nil
	}
	return s.p.secureKey.extra
}
