package hdata2

import (
	"bytes"
	"crypto/sha256"
	"fmt"
	"math/big"
	"reflect"
	"sort"
	"strings"
	"testing"

	"github.com/icon-project/goloop/common"
	"github.com/icon-project/goloop/common/codec"
	"pgregory.net/rapid"

	"verifharness/internal/ev"
)

// C23: encoding any supported value and decoding it yields an equal value (nil and empty kept
// distinct where the format allows); encoding is deterministic (maps in sorted key order);
// decoding arbitrary bytes never crashes and rejects integer overflows and sizes beyond the input.
//
// "Supported" is what common/codec/codec.go encodeValue/decodeValue handle and codec_test.go
// exercises: bool, all int/uint widths, string, []byte, byte arrays, arrays, slices, maps with
// string / signed / unsigned keys, pointers, structs (embedded structs flattened, unexported
// plain fields skipped), *big.Int, and types with custom (de)serialisers (common.HexInt,
// common.Address, codec.TypedObj / TypedDict). Shapes the format cannot keep apart are not
// generated: pointers to slices/maps (null decodes as a pointer to a nil container, the format
// cannot tell that from a nil pointer), interface-typed fields
// (cannot be decoded), custom-codec values inside a value passed by value (not addressable).
//
// Oracles
//  roundtrip : decode(encode v) == v under a harness comparator that keeps nil/empty apart and
//              compares big.Int by value; remainder bytes are returned untouched; encode three
//              times and encode(decode(encode v)) give identical bytes; for every map reachable
//              at a known position (top level maps, the map fields of c23Mid, c23Tree.M at every
//              level) an independent RLP item splitter extracts the keys, which must be exactly
//              the map's keys in strictly ascending order (bytewise for strings, numeric for
//              integers); TypedObj "any" values round trip through MarshalAny/UnmarshalAny.
//  narrow    : an int64/uint64 encoding decoded into every narrower/other integer kind and bool
//              succeeds iff the number is in the target's range (then with the same number).
//  reject    : numbers outside the 64-bit range are rejected by every integer target; every
//              strict prefix of a valid encoding and every encoding whose declared size was
//              raised beyond the input is rejected (error, no panic).
//  bytes     : mutated valid encodings and random bytes are decoded into every target type incl.
//              TypedObj and UnmarshalAny: error or value, never a panic; when a value comes out,
//              re-encoding it and decoding again is a fixed point.
// FuzzC23Decode is the native fuzz target of the "bytes" oracle (thorough tier only).

// ---------------------------------------------------------------------------------------------
// type family

type c23Ints struct {
	B   bool
	I8  int8
	I16 int16
	I32 int32
	I64 int64
	I   int
	U8  uint8
	U16 uint16
	U32 uint32
	U64 uint64
	U   uint
}

type c23Emb struct {
	EI int32
	ES string
}

type C23Pub struct {
	PB []byte
	PU uint16
}

type c23Inner struct {
	N   int64
	S   string
	P   *string
	Big *big.Int
	Bs  []byte
}

type c23Mid struct {
	c23Emb
	C23Pub
	hidden int
	Ints   c23Ints
	In     c23Inner
	PIn    *c23Inner
	Ins    []c23Inner
	PIns   []*c23Inner
	Arr    [3]int16
	ArrE   [2]c23Emb
	A4     [4]byte
	A32    [32]byte
	Strs   []string
	Bss    [][]byte
	U16s   [][]uint16
	MSI    map[string]int64
	MIS    map[int32]string
	MUB    map[uint16][]byte
	MSP    map[string]*c23Inner
	MSL    map[string][]string
	MI8    map[int8]bool
	MU64   map[uint64]uint8
	Bigs   []*big.Int
	PI     *int64
	PBool  *bool
	PS     *string
	H      common.HexInt
	PH     *common.HexInt
	Addr   common.Address
	PAddr  *common.Address
}

type c23Tree struct {
	V    int32
	Name string
	Kids []*c23Tree
	M    map[string]*c23Tree
	Leaf *c23Mid
}

// ---------------------------------------------------------------------------------------------
// generators (explicit, no reflection)

type c23Gen struct {
	rt      *rapid.T
	depth   int
	maxSeen int
	nils    int
	empties int
	budget  int // remaining container elements, keeps values small
}

func (g *c23Gen) enter() {
	g.depth++
	if g.depth > g.maxSeen {
		g.maxSeen = g.depth
	}
}
func (g *c23Gen) leave() { g.depth-- }

// count draws a container size: -1 = nil, 0 = empty, else 1..max (limited by the budget).
func (g *c23Gen) count(label string, max int) int {
	k := rapid.IntRange(-1, max).Draw(g.rt, label)
	if k > g.budget {
		k = g.budget
	}
	if k > 0 {
		g.budget -= k
	}
	switch {
	case k < 0:
		g.nils++
	case k == 0:
		g.empties++
	}
	return k
}

var c23I64Bias = []int64{0, 1, -1, 127, 128, -128, -129, 255, 256, -255, -256, 32767, 32768, -32768, -32769, 65535, 65536,
	1<<31 - 1, 1 << 31, -(1 << 31), -(1 << 31) - 1, 1<<32 - 1, 1 << 32, 1<<63 - 1, -(1 << 63), 1<<55 - 1, 1 << 55, -(1 << 55) - 1}

func (g *c23Gen) i64(label string) int64 {
	if rapid.Bool().Draw(g.rt, label+".b") {
		return rapid.SampledFrom(c23I64Bias).Draw(g.rt, label)
	}
	return rapid.Int64().Draw(g.rt, label)
}

func (g *c23Gen) ibits(label string, bits uint) int64 {
	v := g.i64(label)
	lo, hi := -(int64(1) << (bits - 1)), int64(1)<<(bits-1)-1
	if v < lo || v > hi {
		return rapid.Int64Range(lo, hi).Draw(g.rt, label+".r")
	}
	return v
}

var c23U64Bias = []uint64{0, 1, 127, 128, 255, 256, 32767, 32768, 65535, 65536, 1<<31 - 1, 1 << 31, 1<<32 - 1, 1 << 32, 1<<63 - 1, 1 << 63, 1<<64 - 1, 1<<56 - 1, 1 << 56}

func (g *c23Gen) u64(label string) uint64 {
	if rapid.Bool().Draw(g.rt, label+".b") {
		return rapid.SampledFrom(c23U64Bias).Draw(g.rt, label)
	}
	return rapid.Uint64().Draw(g.rt, label)
}

func (g *c23Gen) ubits(label string, bits uint) uint64 {
	v := g.u64(label)
	if bits < 64 && v >= uint64(1)<<bits {
		return rapid.Uint64Range(0, uint64(1)<<bits-1).Draw(g.rt, label+".r")
	}
	return v
}

// rawBytes draws a non-nil byte string; lengths sit on the RLP header boundaries.
func (g *c23Gen) rawBytes(label string) []byte {
	switch rapid.IntRange(0, 9).Draw(g.rt, label+".k") {
	case 0:
		return []byte{}
	case 1:
		return []byte{rapid.ByteRange(0, 0x7f).Draw(g.rt, label+".lo")}
	case 2:
		return []byte{rapid.ByteRange(0x80, 0xff).Draw(g.rt, label+".hi")}
	case 3:
		n := rapid.SampledFrom([]int{54, 55, 56, 57, 255, 256, 257}).Draw(g.rt, label+".n")
		pat := rapid.SliceOfN(rapid.Byte(), 1, 3).Draw(g.rt, label+".pat")
		return bytes.Repeat(pat, n/len(pat)+1)[:n]
	default:
		return rapid.SliceOfN(rapid.Byte(), 1, 12).Draw(g.rt, label)
	}
}

// bytesN draws nil / empty / non-empty.
func (g *c23Gen) bytesN(label string) []byte {
	if rapid.IntRange(0, 5).Draw(g.rt, label+".nil") == 0 {
		g.nils++
		return nil
	}
	b := g.rawBytes(label)
	if len(b) == 0 {
		g.empties++
	}
	return b
}

func (g *c23Gen) str(label string) string { return string(g.rawBytes(label)) }

func (g *c23Gen) key(label string) string {
	// short keys from a small alphabet so that prefixes / order ties of the first byte occur
	return rapid.StringOfN(rapid.RuneFrom([]rune("ab\x00zé")), 0, 3, -1).Draw(g.rt, label)
}

func (g *c23Gen) big(label string) *big.Int {
	if rapid.IntRange(0, 4).Draw(g.rt, label+".nil") == 0 {
		g.nils++
		return nil
	}
	return g.bigNN(label)
}

func (g *c23Gen) bigNN(label string) *big.Int {
	var v *big.Int
	if rapid.Bool().Draw(g.rt, label+".small") {
		v = big.NewInt(g.i64(label))
	} else {
		v = new(big.Int).SetBytes(rapid.SliceOfN(rapid.Byte(), 0, 40).Draw(g.rt, label))
		if rapid.Bool().Draw(g.rt, label+".neg") {
			v.Neg(v)
		}
	}
	return v
}

func (g *c23Gen) ints() c23Ints {
	return c23Ints{
		B:   rapid.Bool().Draw(g.rt, "B"),
		I8:  int8(g.ibits("I8", 8)),
		I16: int16(g.ibits("I16", 16)),
		I32: int32(g.ibits("I32", 32)),
		I64: g.i64("I64"),
		I:   int(g.i64("I")),
		U8:  uint8(g.ubits("U8", 8)),
		U16: uint16(g.ubits("U16", 16)),
		U32: uint32(g.ubits("U32", 32)),
		U64: g.u64("U64"),
		U:   uint(g.u64("U")),
	}
}

func (g *c23Gen) emb() c23Emb {
	return c23Emb{EI: int32(g.ibits("EI", 32)), ES: g.str("ES")}
}

func (g *c23Gen) pstr(label string) *string {
	if rapid.Bool().Draw(g.rt, label+".nil") {
		g.nils++
		return nil
	}
	s := g.str(label)
	if s == "" {
		g.empties++
	}
	return &s
}

func (g *c23Gen) inner() c23Inner {
	g.enter()
	defer g.leave()
	return c23Inner{N: g.i64("N"), S: g.str("S"), P: g.pstr("P"), Big: g.big("Big"), Bs: g.bytesN("Bs")}
}

func (g *c23Gen) pinner(label string) *c23Inner {
	if rapid.IntRange(0, 3).Draw(g.rt, label+".nil") == 0 {
		g.nils++
		return nil
	}
	in := g.inner()
	return &in
}

func (g *c23Gen) addr(label string) common.Address {
	var a common.Address
	a.SetTypeAndID(rapid.Bool().Draw(g.rt, label+".c"), rapid.SliceOfN(rapid.Byte(), 20, 20).Draw(g.rt, label))
	return a
}

func (g *c23Gen) mid() *c23Mid {
	g.enter()
	defer g.leave()
	m := &c23Mid{}
	m.c23Emb = g.emb()
	m.C23Pub = C23Pub{PB: g.bytesN("PB"), PU: uint16(g.ubits("PU", 16))}
	m.Ints = g.ints()
	m.In = g.inner()
	m.PIn = g.pinner("PIn")
	if n := g.count("Ins", 3); n >= 0 {
		g.enter()
		m.Ins = make([]c23Inner, n)
		for i := range m.Ins {
			m.Ins[i] = g.inner()
		}
		g.leave()
	}
	if n := g.count("PIns", 3); n >= 0 {
		g.enter()
		m.PIns = make([]*c23Inner, n)
		for i := range m.PIns {
			m.PIns[i] = g.pinner("PIns.e")
		}
		g.leave()
	}
	for i := range m.Arr {
		m.Arr[i] = int16(g.ibits("Arr", 16))
	}
	for i := range m.ArrE {
		m.ArrE[i] = g.emb()
	}
	copy(m.A4[:], rapid.SliceOfN(rapid.Byte(), 4, 4).Draw(g.rt, "A4"))
	if rapid.Bool().Draw(g.rt, "A32.set") {
		copy(m.A32[:], bytes.Repeat(rapid.SliceOfN(rapid.Byte(), 1, 4).Draw(g.rt, "A32"), 32))
	}
	if n := g.count("Strs", 3); n >= 0 {
		m.Strs = make([]string, n)
		for i := range m.Strs {
			m.Strs[i] = g.str("Strs.e")
		}
	}
	if n := g.count("Bss", 3); n >= 0 {
		m.Bss = make([][]byte, n)
		for i := range m.Bss {
			m.Bss[i] = g.bytesN("Bss.e")
		}
	}
	if n := g.count("U16s", 2); n >= 0 {
		g.enter()
		m.U16s = make([][]uint16, n)
		for i := range m.U16s {
			if k := g.count("U16s.e", 3); k >= 0 {
				m.U16s[i] = make([]uint16, k)
				for j := range m.U16s[i] {
					m.U16s[i][j] = uint16(g.ubits("U16s.v", 16))
				}
			}
		}
		g.leave()
	}
	if n := g.count("MSI", 4); n >= 0 {
		m.MSI = map[string]int64{}
		for i := 0; i < n; i++ {
			m.MSI[g.key("MSI.k")] = g.i64("MSI.v")
		}
	}
	if n := g.count("MIS", 4); n >= 0 {
		m.MIS = map[int32]string{}
		for i := 0; i < n; i++ {
			m.MIS[int32(g.ibits("MIS.k", 32))] = g.str("MIS.v")
		}
	}
	if n := g.count("MUB", 3); n >= 0 {
		m.MUB = map[uint16][]byte{}
		for i := 0; i < n; i++ {
			m.MUB[uint16(g.ubits("MUB.k", 16))] = g.bytesN("MUB.v")
		}
	}
	if n := g.count("MSP", 3); n >= 0 {
		g.enter()
		m.MSP = map[string]*c23Inner{}
		for i := 0; i < n; i++ {
			m.MSP[g.key("MSP.k")] = g.pinner("MSP.v")
		}
		g.leave()
	}
	if n := g.count("MSL", 2); n >= 0 {
		g.enter()
		m.MSL = map[string][]string{}
		for i := 0; i < n; i++ {
			var l []string
			if k := g.count("MSL.e", 2); k >= 0 {
				l = make([]string, k)
				for j := range l {
					l[j] = g.str("MSL.s")
				}
			}
			m.MSL[g.key("MSL.k")] = l
		}
		g.leave()
	}
	if n := g.count("MI8", 4); n >= 0 {
		m.MI8 = map[int8]bool{}
		for i := 0; i < n; i++ {
			m.MI8[int8(g.ibits("MI8.k", 8))] = rapid.Bool().Draw(g.rt, "MI8.v")
		}
	}
	if n := g.count("MU64", 4); n >= 0 {
		m.MU64 = map[uint64]uint8{}
		for i := 0; i < n; i++ {
			m.MU64[g.u64("MU64.k")] = uint8(g.ubits("MU64.v", 8))
		}
	}
	if n := g.count("Bigs", 3); n >= 0 {
		m.Bigs = make([]*big.Int, n)
		for i := range m.Bigs {
			m.Bigs[i] = g.big("Bigs.e")
		}
	}
	if rapid.Bool().Draw(g.rt, "PI.set") {
		v := g.i64("PI")
		m.PI = &v
	} else {
		g.nils++
	}
	if rapid.Bool().Draw(g.rt, "PBool.set") {
		v := rapid.Bool().Draw(g.rt, "PBool")
		m.PBool = &v
	}
	m.PS = g.pstr("PS")
	m.H.Set(g.bigNN("H"))
	if rapid.Bool().Draw(g.rt, "PH.set") {
		m.PH = new(common.HexInt)
		m.PH.Set(g.bigNN("PH"))
	}
	m.Addr = g.addr("Addr")
	if rapid.Bool().Draw(g.rt, "PAddr.set") {
		a := g.addr("PAddr")
		m.PAddr = &a
	}
	return m
}

func (g *c23Gen) tree(level int) *c23Tree {
	g.enter()
	defer g.leave()
	t := &c23Tree{V: int32(g.ibits("V", 32)), Name: g.str("Name")}
	maxKids := 3
	if level >= 3 {
		maxKids = 0
	}
	if n := g.count("Kids", maxKids); n >= 0 {
		t.Kids = make([]*c23Tree, n)
		for i := range t.Kids {
			if rapid.IntRange(0, 4).Draw(g.rt, "Kids.nil") == 0 {
				g.nils++
				continue
			}
			t.Kids[i] = g.tree(level + 1)
		}
	}
	if n := g.count("M", maxKids); n >= 0 {
		t.M = map[string]*c23Tree{}
		for i := 0; i < n; i++ {
			k := g.key("M.k")
			if rapid.IntRange(0, 4).Draw(g.rt, "M.nil") == 0 {
				g.nils++
				t.M[k] = nil
				continue
			}
			t.M[k] = g.tree(level + 1)
		}
	}
	if rapid.IntRange(0, 3).Draw(g.rt, "Leaf") == 0 && g.budget > 10 {
		t.Leaf = g.mid()
	}
	return t
}

// ---------------------------------------------------------------------------------------------
// targets

type c23Target struct {
	name    string
	gen     func(g *c23Gen) interface{} // pointer to a generated value
	fresh   func() interface{}          // pointer to a zero value of the same type
	byValue bool                        // may also be marshalled by value (no custom-codec fields)
	check   func(enc []byte, p interface{}) string
}

func c23Targets() []c23Target {
	return []c23Target{
		{name: "ints", gen: func(g *c23Gen) interface{} { g.enter(); defer g.leave(); v := g.ints(); return &v }, fresh: func() interface{} { return new(c23Ints) }, byValue: true},
		{name: "inner", gen: func(g *c23Gen) interface{} { v := g.inner(); return &v }, fresh: func() interface{} { return new(c23Inner) }, byValue: true},
		{name: "mid", gen: func(g *c23Gen) interface{} { return g.mid() }, fresh: func() interface{} { return new(c23Mid) },
			check: func(enc []byte, p interface{}) string { return c23CheckMidMaps(enc, p.(*c23Mid)) }},
		{name: "tree", gen: func(g *c23Gen) interface{} { return g.tree(0) }, fresh: func() interface{} { return new(c23Tree) },
			check: func(enc []byte, p interface{}) string { return c23CheckTreeMaps(enc, p.(*c23Tree)) }},
		{name: "int64", gen: func(g *c23Gen) interface{} { v := g.i64("v"); return &v }, fresh: func() interface{} { return new(int64) }, byValue: true},
		{name: "uint64", gen: func(g *c23Gen) interface{} { v := g.u64("v"); return &v }, fresh: func() interface{} { return new(uint64) }, byValue: true},
		{name: "bool", gen: func(g *c23Gen) interface{} { v := rapid.Bool().Draw(g.rt, "v"); return &v }, fresh: func() interface{} { return new(bool) }, byValue: true},
		{name: "string", gen: func(g *c23Gen) interface{} { v := g.str("v"); return &v }, fresh: func() interface{} { return new(string) }, byValue: true},
		{name: "bytes", gen: func(g *c23Gen) interface{} { v := g.bytesN("v"); return &v }, fresh: func() interface{} { return new([]byte) }, byValue: true},
		{name: "strs", gen: func(g *c23Gen) interface{} {
			var v []string
			if n := g.count("n", 4); n >= 0 {
				v = make([]string, n)
				for i := range v {
					v[i] = g.str("e")
				}
			}
			return &v
		}, fresh: func() interface{} { return new([]string) }, byValue: true},
		{name: "bss", gen: func(g *c23Gen) interface{} {
			var v [][]byte
			if n := g.count("n", 4); n >= 0 {
				v = make([][]byte, n)
				for i := range v {
					v[i] = g.bytesN("e")
				}
			}
			return &v
		}, fresh: func() interface{} { return new([][]byte) }, byValue: true},
		{name: "arrU32", gen: func(g *c23Gen) interface{} {
			var v [5]uint32
			for i := range v {
				v[i] = uint32(g.ubits("e", 32))
			}
			return &v
		}, fresh: func() interface{} { return new([5]uint32) }, byValue: true},
		{name: "mapSS", gen: func(g *c23Gen) interface{} {
			var v map[string]string
			if n := g.count("n", 6); n >= 0 {
				v = map[string]string{}
				for i := 0; i < n; i++ {
					v[g.key("k")] = g.str("v")
				}
			}
			return &v
		}, fresh: func() interface{} { return new(map[string]string) }, byValue: true,
			check: func(enc []byte, p interface{}) string { return c23CheckMap(enc, reflect.ValueOf(p).Elem()) }},
		{name: "mapIB", gen: func(g *c23Gen) interface{} {
			var v map[int64][]byte
			if n := g.count("n", 6); n >= 0 {
				v = map[int64][]byte{}
				for i := 0; i < n; i++ {
					v[g.i64("k")] = g.bytesN("v")
				}
			}
			return &v
		}, fresh: func() interface{} { return new(map[int64][]byte) }, byValue: true,
			check: func(enc []byte, p interface{}) string { return c23CheckMap(enc, reflect.ValueOf(p).Elem()) }},
		{name: "mapUP", gen: func(g *c23Gen) interface{} {
			var v map[uint32]*c23Inner
			if n := g.count("n", 4); n >= 0 {
				g.enter()
				v = map[uint32]*c23Inner{}
				for i := 0; i < n; i++ {
					v[uint32(g.ubits("k", 32))] = g.pinner("v")
				}
				g.leave()
			}
			return &v
		}, fresh: func() interface{} { return new(map[uint32]*c23Inner) }, byValue: true,
			check: func(enc []byte, p interface{}) string { return c23CheckMap(enc, reflect.ValueOf(p).Elem()) }},
		{name: "big", gen: func(g *c23Gen) interface{} { v := g.big("v"); return &v }, fresh: func() interface{} { return new(*big.Int) }},
		{name: "pinner", gen: func(g *c23Gen) interface{} { v := g.pinner("v"); return &v }, fresh: func() interface{} { return new(*c23Inner) }, byValue: true},
		{name: "hexint", gen: func(g *c23Gen) interface{} { v := new(common.HexInt); v.Set(g.bigNN("v")); return v }, fresh: func() interface{} { return new(common.HexInt) }},
	}
}

// ---------------------------------------------------------------------------------------------
// comparator

var c23BigT = reflect.TypeOf(big.Int{})

func c23Eq(a, b reflect.Value, path string) string {
	if a.Type() != b.Type() {
		return fmt.Sprintf("%s: type %s vs %s", path, a.Type(), b.Type())
	}
	if a.Type() == c23BigT && a.CanAddr() && b.CanAddr() && a.Addr().CanInterface() {
		x, y := a.Addr().Interface().(*big.Int), b.Addr().Interface().(*big.Int)
		if x.Cmp(y) != 0 {
			return fmt.Sprintf("%s: %v vs %v", path, x, y)
		}
		return ""
	}
	switch a.Kind() {
	case reflect.Bool:
		if a.Bool() != b.Bool() {
			return fmt.Sprintf("%s: %v vs %v", path, a.Bool(), b.Bool())
		}
	case reflect.Int, reflect.Int8, reflect.Int16, reflect.Int32, reflect.Int64:
		if a.Int() != b.Int() {
			return fmt.Sprintf("%s: %d vs %d", path, a.Int(), b.Int())
		}
	case reflect.Uint, reflect.Uint8, reflect.Uint16, reflect.Uint32, reflect.Uint64:
		if a.Uint() != b.Uint() {
			return fmt.Sprintf("%s: %d vs %d", path, a.Uint(), b.Uint())
		}
	case reflect.String:
		if a.String() != b.String() {
			return fmt.Sprintf("%s: %q vs %q", path, a.String(), b.String())
		}
	case reflect.Slice:
		if a.IsNil() != b.IsNil() {
			return fmt.Sprintf("%s: nil=%v vs nil=%v (len %d vs %d)", path, a.IsNil(), b.IsNil(), a.Len(), b.Len())
		}
		fallthrough
	case reflect.Array:
		if a.Len() != b.Len() {
			return fmt.Sprintf("%s: len %d vs %d", path, a.Len(), b.Len())
		}
		for i := 0; i < a.Len(); i++ {
			if m := c23Eq(a.Index(i), b.Index(i), fmt.Sprintf("%s[%d]", path, i)); m != "" {
				return m
			}
		}
	case reflect.Map:
		if a.IsNil() != b.IsNil() {
			return fmt.Sprintf("%s: nil=%v vs nil=%v", path, a.IsNil(), b.IsNil())
		}
		if a.Len() != b.Len() {
			return fmt.Sprintf("%s: len %d vs %d", path, a.Len(), b.Len())
		}
		for _, k := range a.MapKeys() {
			bv := b.MapIndex(k)
			if !bv.IsValid() {
				return fmt.Sprintf("%s: key %v missing", path, k)
			}
			if m := c23Eq(a.MapIndex(k), bv, fmt.Sprintf("%s[%v]", path, k)); m != "" {
				return m
			}
		}
	case reflect.Ptr, reflect.Interface:
		if a.IsNil() != b.IsNil() {
			return fmt.Sprintf("%s: nil=%v vs nil=%v", path, a.IsNil(), b.IsNil())
		}
		if !a.IsNil() {
			return c23Eq(a.Elem(), b.Elem(), path+".*")
		}
	case reflect.Struct:
		for i := 0; i < a.NumField(); i++ {
			if m := c23Eq(a.Field(i), b.Field(i), path+"."+a.Type().Field(i).Name); m != "" {
				return m
			}
		}
	default:
		return fmt.Sprintf("%s: unsupported kind %s in comparator", path, a.Kind())
	}
	return ""
}

// ---------------------------------------------------------------------------------------------
// independent RLP item splitter (goloop flavour: f8 00 is the null item)

type c23Item struct {
	raw     []byte
	payload []byte
	list    bool
	null    bool
}

func c23ReadItem(b []byte) (it c23Item, rest []byte, err error) {
	if len(b) == 0 {
		return it, nil, fmt.Errorf("empty")
	}
	t := int(b[0])
	var hdr, size int
	switch {
	case t < 0x80:
		hdr, size = 0, 1
	case t <= 0xb7:
		hdr, size = 1, t-0x80
	case t < 0xc0:
		n := t - 0xb7
		if len(b) < 1+n {
			return it, nil, fmt.Errorf("short size")
		}
		hdr = 1 + n
		for _, x := range b[1 : 1+n] {
			size = size<<8 | int(x)
		}
	case t <= 0xf7:
		hdr, size = 1, t-0xc0
		it.list = true
	default:
		n := t - 0xf7
		if len(b) < 1+n {
			return it, nil, fmt.Errorf("short size")
		}
		hdr = 1 + n
		for _, x := range b[1 : 1+n] {
			size = size<<8 | int(x)
		}
		it.list = true
		if n == 1 && size == 0 {
			it.null = true
			it.list = false
		}
	}
	if size < 0 || len(b) < hdr+size {
		return it, nil, fmt.Errorf("item of %d+%d bytes exceeds %d", hdr, size, len(b))
	}
	it.raw = b[:hdr+size]
	it.payload = b[hdr : hdr+size]
	return it, b[hdr+size:], nil
}

func c23ListItems(raw []byte) ([]c23Item, string) {
	it, rest, err := c23ReadItem(raw)
	if err != nil || len(rest) != 0 || !it.list {
		return nil, fmt.Sprintf("not a single list item (%v, rest %d, list %v): %x", err, len(rest), it.list, c23Short(raw))
	}
	var out []c23Item
	p := it.payload
	for len(p) > 0 {
		var e c23Item
		e, p, err = c23ReadItem(p)
		if err != nil {
			return nil, fmt.Sprintf("bad element: %v", err)
		}
		out = append(out, e)
	}
	return out, ""
}

func c23Short(b []byte) []byte {
	if len(b) > 64 {
		return b[:64]
	}
	return b
}

// c23CheckMap checks that raw is the encoding of map m with its keys in strictly ascending order.
func c23CheckMap(raw []byte, m reflect.Value) string {
	it, rest, err := c23ReadItem(raw)
	if err != nil || len(rest) != 0 {
		return fmt.Sprintf("map encoding is not one item: %x", c23Short(raw))
	}
	if m.IsNil() {
		if !it.null {
			return fmt.Sprintf("nil map encoded as %x", c23Short(raw))
		}
		return ""
	}
	if it.null {
		return "non-nil map encoded as null"
	}
	items, msg := c23ListItems(raw)
	if msg != "" {
		return msg
	}
	if len(items) != 2*m.Len() {
		return fmt.Sprintf("map with %d entries encoded with %d items", m.Len(), len(items))
	}
	kk := m.Type().Key().Kind()
	var prevS []byte
	var prevN *big.Int
	want := map[string]bool{}
	for _, k := range m.MapKeys() {
		switch kk {
		case reflect.String:
			want["s"+k.String()] = true
		case reflect.Int, reflect.Int8, reflect.Int16, reflect.Int32, reflect.Int64:
			want["n"+big.NewInt(k.Int()).String()] = true
		default:
			want["n"+new(big.Int).SetUint64(k.Uint()).String()] = true
		}
	}
	for i := 0; i < len(items); i += 2 {
		k := items[i]
		if k.list || k.null {
			return fmt.Sprintf("key #%d is not a byte string", i/2)
		}
		if kk == reflect.String {
			if !want["s"+string(k.payload)] {
				return fmt.Sprintf("encoded key %q is not a key of the map", k.payload)
			}
			if i > 0 && bytes.Compare(prevS, k.payload) >= 0 {
				return fmt.Sprintf("string keys not strictly ascending: %q then %q", prevS, k.payload)
			}
			prevS = k.payload
			continue
		}
		// two's complement (signed) or 00-prefixed (unsigned) big-endian number
		n := new(big.Int).SetBytes(k.payload)
		if len(k.payload) > 0 && k.payload[0]&0x80 != 0 {
			n.Sub(n, new(big.Int).Lsh(big.NewInt(1), uint(8*len(k.payload))))
		}
		if !want["n"+n.String()] {
			return fmt.Sprintf("encoded key %v (%x) is not a key of the map", n, k.payload)
		}
		if i > 0 && prevN.Cmp(n) >= 0 {
			return fmt.Sprintf("integer keys not strictly ascending: %v then %v", prevN, n)
		}
		prevN = n
	}
	return ""
}

// c23FieldIndex returns the item index of the named field in the encoding of struct type t
// (embedded structs flattened, unexported plain fields skipped).
func c23FieldIndex(t reflect.Type, name string) int {
	idx := 0
	var walk func(t reflect.Type) int
	walk = func(t reflect.Type) int {
		for i := 0; i < t.NumField(); i++ {
			f := t.Field(i)
			if f.Anonymous && f.Type.Kind() == reflect.Struct {
				if r := walk(f.Type); r >= 0 {
					return r
				}
				continue
			}
			if f.PkgPath != "" {
				continue
			}
			if f.Name == name {
				return idx
			}
			idx++
		}
		return -1
	}
	return walk(t)
}

var c23MidMapFields = []string{"MSI", "MIS", "MUB", "MSP", "MSL", "MI8", "MU64"}

func c23CheckMidMaps(enc []byte, m *c23Mid) string {
	items, msg := c23ListItems(enc)
	if msg != "" {
		return msg
	}
	v := reflect.ValueOf(m).Elem()
	for _, f := range c23MidMapFields {
		i := c23FieldIndex(v.Type(), f)
		if i < 0 || i >= len(items) {
			return fmt.Sprintf("field %s: item index %d of %d", f, i, len(items))
		}
		if msg := c23CheckMap(items[i].raw, v.FieldByName(f)); msg != "" {
			return "field " + f + ": " + msg
		}
	}
	return ""
}

func c23CheckTreeMaps(enc []byte, t *c23Tree) string {
	items, msg := c23ListItems(enc)
	if msg != "" {
		return msg
	}
	if len(items) != 5 {
		return fmt.Sprintf("tree node encoded with %d items", len(items))
	}
	if msg := c23CheckMap(items[3].raw, reflect.ValueOf(t.M)); msg != "" {
		return "M: " + msg
	}
	if t.Kids != nil {
		kids, msg := c23ListItems(items[2].raw)
		if msg != "" {
			return "Kids: " + msg
		}
		if len(kids) != len(t.Kids) {
			return fmt.Sprintf("Kids: %d items for %d kids", len(kids), len(t.Kids))
		}
		for i, k := range t.Kids {
			if k == nil {
				continue
			}
			if msg := c23CheckTreeMaps(kids[i].raw, k); msg != "" {
				return fmt.Sprintf("Kids[%d].%s", i, msg)
			}
		}
	}
	if t.Leaf != nil {
		if msg := c23CheckMidMaps(items[4].raw, t.Leaf); msg != "" {
			return "Leaf." + msg
		}
	}
	return ""
}

// ---------------------------------------------------------------------------------------------
// helpers around the codec that turn panics into messages

func c23Enc(v interface{}) (bs []byte, msg string) {
	defer func() {
		if r := recover(); r != nil {
			msg = fmt.Sprintf("panic in MarshalToBytes(%T): %v", v, r)
		}
	}()
	bs, err := codec.BC.MarshalToBytes(v)
	if err != nil {
		return nil, fmt.Sprintf("MarshalToBytes(%T) error: %v", v, err)
	}
	return bs, ""
}

// c23Dec decodes; panicked reports a crash (always a violation), err a rejection.
func c23Dec(bs []byte, p interface{}) (rest []byte, err error, panicked string) {
	defer func() {
		if r := recover(); r != nil {
			panicked = fmt.Sprintf("panic decoding %x into %T: %v", c23Short(bs), p, r)
		}
	}()
	rest, err = codec.BC.UnmarshalFromBytes(bs, p)
	return
}

func c23Sum(b []byte) string {
	if len(b) <= 80 {
		return fmt.Sprintf("%x", b)
	}
	h := sha256.Sum256(b)
	return fmt.Sprintf("%x…(len %d sha256 %x)", b[:40], len(b), h[:6])
}

// ---------------------------------------------------------------------------------------------
// TypedObj "any" values

func c23Any(g *c23Gen, level int) interface{} {
	g.enter()
	defer g.leave()
	max := 7
	if level >= 3 || g.budget <= 0 {
		max = 5
	}
	switch rapid.IntRange(0, max).Draw(g.rt, "anyKind") {
	case 0:
		g.nils++
		return nil
	case 1:
		return g.str("anyStr")
	case 2:
		return g.bytesN("anyBytes")
	case 3:
		return rapid.Bool().Draw(g.rt, "anyBool")
	case 4:
		h := new(common.HexInt)
		h.Set(g.bigNN("anyInt"))
		return h
	case 5:
		a := g.addr("anyAddr")
		return &a
	case 6:
		n := g.count("anyList", 3)
		if n < 0 {
			n = 0
		}
		l := make([]interface{}, n)
		for i := range l {
			l[i] = c23Any(g, level+1)
		}
		return l
	default:
		n := g.count("anyDict", 3)
		if n < 0 {
			n = 0
		}
		m := make(map[string]interface{}, n)
		for i := 0; i < n; i++ {
			m[g.key("anyKey")] = c23Any(g, level+1)
		}
		return m
	}
}

// c23AnyEq compares "any" trees (after DecodeAny ints come back as *common.HexInt, addresses as
// *common.Address).
func c23AnyEq(a, b interface{}, path string) string {
	switch x := a.(type) {
	case nil:
		if b != nil {
			return fmt.Sprintf("%s: nil vs %T", path, b)
		}
	case string:
		if y, ok := b.(string); !ok || x != y {
			return fmt.Sprintf("%s: %q vs %#v", path, x, b)
		}
	case []byte:
		y, ok := b.([]byte)
		if !ok || !bytes.Equal(x, y) || (x == nil) != (y == nil) {
			return fmt.Sprintf("%s: %#v vs %#v", path, x, b)
		}
	case bool:
		if y, ok := b.(bool); !ok || x != y {
			return fmt.Sprintf("%s: %v vs %#v", path, x, b)
		}
	case *common.HexInt:
		if y, ok := b.(*common.HexInt); !ok || x.Cmp(&y.Int) != 0 {
			return fmt.Sprintf("%s: %v vs %#v", path, x, b)
		}
	case *common.Address:
		if y, ok := b.(*common.Address); !ok || *x != *y {
			return fmt.Sprintf("%s: %v vs %#v", path, x, b)
		}
	case []interface{}:
		y, ok := b.([]interface{})
		if !ok || len(x) != len(y) {
			return fmt.Sprintf("%s: list of %d vs %#v", path, len(x), b)
		}
		for i := range x {
			if m := c23AnyEq(x[i], y[i], fmt.Sprintf("%s[%d]", path, i)); m != "" {
				return m
			}
		}
	case map[string]interface{}:
		y, ok := b.(map[string]interface{})
		if !ok || len(x) != len(y) {
			return fmt.Sprintf("%s: dict of %d vs %#v", path, len(x), b)
		}
		for k, xv := range x {
			yv, ok := y[k]
			if !ok {
				return fmt.Sprintf("%s: key %q missing", path, k)
			}
			if m := c23AnyEq(xv, yv, fmt.Sprintf("%s[%q]", path, k)); m != "" {
				return m
			}
		}
	default:
		return fmt.Sprintf("%s: unexpected %T", path, a)
	}
	return ""
}

func c23AnyRoundTrip(any interface{}) (enc []byte, msg string) {
	defer func() {
		if r := recover(); r != nil {
			msg = fmt.Sprintf("panic in MarshalAny/UnmarshalAny of %#v: %v", any, r)
		}
	}()
	enc, err := common.MarshalAny(codec.BC, any)
	if err != nil {
		return nil, fmt.Sprintf("MarshalAny(%#v) error %v", any, err)
	}
	for i := 0; i < 2; i++ {
		e2, err := common.MarshalAny(codec.BC, any)
		if err != nil || !bytes.Equal(e2, enc) {
			return enc, fmt.Sprintf("MarshalAny is not deterministic: %x vs %x (%v)", c23Short(enc), c23Short(e2), err)
		}
	}
	back, err := common.UnmarshalAny(codec.BC, enc)
	if err != nil {
		return enc, fmt.Sprintf("UnmarshalAny(MarshalAny(v)=%s) error %v", c23Sum(enc), err)
	}
	if m := c23AnyEq(any, back, "any"); m != "" {
		return enc, fmt.Sprintf("UnmarshalAny(MarshalAny(v)) != v: %s (encoding %s)", m, c23Sum(enc))
	}
	// dictionaries are written in sorted key order
	if d, ok := any.(map[string]interface{}); ok {
		items, m := c23ListItems(enc)
		if m != "" || len(items) != 2 {
			return enc, fmt.Sprintf("TypedObj dict encoding is not [type, dict]: %s", m)
		}
		keys, m := c23ListItems(items[1].raw)
		if m != "" || len(keys) != 2*len(d) {
			return enc, fmt.Sprintf("TypedObj dict has %d items for %d entries (%s)", len(keys), len(d), m)
		}
		for i := 2; i < len(keys); i += 2 {
			if bytes.Compare(keys[i-2].payload, keys[i].payload) >= 0 {
				return enc, fmt.Sprintf("TypedObj dict keys not strictly ascending: %q then %q", keys[i-2].payload, keys[i].payload)
			}
		}
	}
	return enc, ""
}

// ---------------------------------------------------------------------------------------------
// the "decode into everything" oracle shared by the bytes sub-check and the native fuzz target

// c23Canary decodes a fixed valid encoding; a decoder that kept state from an earlier (malformed)
// input would get it wrong.
func c23Canary(after string) string {
	var c struct {
		A int64
		B string
		C []uint16
	}
	in := []byte{0xc9, 0x05, 0x83, 'a', 'b', 'c', 0xc3, 0x01, 0x02, 0x03, 0x07}
	rest, err, pan := c23Dec(in, &c)
	if pan != "" {
		return pan
	}
	if err != nil || c.A != 5 || c.B != "abc" || len(c.C) != 3 || c.C[2] != 3 || !bytes.Equal(rest, []byte{0x07}) {
		return fmt.Sprintf("the valid encoding %x decodes as %+v rest=%x err=%v right after decoding %s", in, c, rest, err, after)
	}
	return ""
}

func c23DecodeAll(bs []byte, targets []c23Target) (msg string, accepted int) {
	for _, tg := range targets {
		p := tg.fresh()
		_, err, pan := c23Dec(bs, p)
		if pan != "" {
			return "target " + tg.name + ": " + pan, accepted
		}
		if m := c23Canary(fmt.Sprintf("%s into %T (err=%v)", c23Sum(bs), p, err)); m != "" {
			return m, accepted
		}
		if err != nil {
			continue
		}
		accepted++
		// fixed point: re-encode, decode, compare, re-encode
		b2, m := c23Enc(p)
		if m != "" {
			return fmt.Sprintf("target %s: value decoded from %s cannot be re-encoded: %s", tg.name, c23Sum(bs), m), accepted
		}
		q := tg.fresh()
		rest, err, pan := c23Dec(b2, q)
		if pan != "" {
			return "target " + tg.name + ": " + pan, accepted
		}
		if err != nil || len(rest) != 0 {
			return fmt.Sprintf("target %s: re-encoding %s of the value decoded from %s does not decode: err=%v rest=%d", tg.name, c23Sum(b2), c23Sum(bs), err, len(rest)), accepted
		}
		if m := c23Eq(reflect.ValueOf(p).Elem(), reflect.ValueOf(q).Elem(), tg.name); m != "" {
			return fmt.Sprintf("target %s: decode(encode(x)) != x for x decoded from %s: %s", tg.name, c23Sum(bs), m), accepted
		}
		b3, m := c23Enc(q)
		if m != "" || !bytes.Equal(b2, b3) {
			return fmt.Sprintf("target %s: re-encoding is not a fixed point for input %s: %s vs %s %s", tg.name, c23Sum(bs), c23Sum(b2), c23Sum(b3), m), accepted
		}
	}
	// TypedObj: byte-level fixed point (TypedDict keeps duplicate keys of the input in Keys)
	var to codec.TypedObj
	_, err, pan := c23Dec(bs, &to)
	if pan != "" {
		return "target TypedObj: " + pan, accepted
	}
	if m := c23Canary(fmt.Sprintf("%s into *codec.TypedObj (err=%v)", c23Sum(bs), err)); m != "" {
		return m, accepted
	}
	if err == nil {
		accepted++
		b2, m := c23Enc(&to)
		if m != "" {
			return fmt.Sprintf("target TypedObj: value decoded from %s cannot be re-encoded: %s", c23Sum(bs), m), accepted
		}
		var to2 codec.TypedObj
		rest, err, pan := c23Dec(b2, &to2)
		if pan != "" {
			return "target TypedObj: " + pan, accepted
		}
		if err != nil || len(rest) != 0 {
			return fmt.Sprintf("target TypedObj: re-encoding %s of the value decoded from %s does not decode: %v", c23Sum(b2), c23Sum(bs), err), accepted
		}
		b3, m := c23Enc(&to2)
		if m != "" || !bytes.Equal(b2, b3) {
			return fmt.Sprintf("target TypedObj: re-encoding is not a fixed point for input %s: %s vs %s %s", c23Sum(bs), c23Sum(b2), c23Sum(b3), m), accepted
		}
	}
	// UnmarshalAny (TypedObj -> Go values through the node's TypeCodec)
	func() {
		defer func() {
			if r := recover(); r != nil {
				msg = fmt.Sprintf("target UnmarshalAny: panic decoding %s: %v", c23Sum(bs), r)
			}
		}()
		if _, err := common.UnmarshalAny(codec.BC, bs); err == nil {
			accepted++
		}
	}()
	return msg, accepted
}

var c23Tags = []byte{0x00, 0x01, 0x7f, 0x80, 0x81, 0xb7, 0xb8, 0xb9, 0xbf, 0xc0, 0xc1, 0xf7, 0xf8, 0xf9, 0xff}

func c23Mutate(rt *rapid.T, b []byte) ([]byte, string) {
	out := append([]byte{}, b...)
	kind := rapid.SampledFrom([]string{"none", "flip", "tag", "truncate", "insert", "delete", "dup", "null", "splice"}).Draw(rt, "mutation")
	if len(out) == 0 && kind != "insert" {
		kind = "insert"
	}
	switch kind {
	case "flip":
		n := rapid.IntRange(1, 3).Draw(rt, "nflips")
		for i := 0; i < n; i++ {
			p := rapid.IntRange(0, len(out)-1).Draw(rt, "pos")
			out[p] ^= byte(1 << uint(rapid.IntRange(0, 7).Draw(rt, "bit")))
		}
	case "tag":
		p := rapid.IntRange(0, len(out)-1).Draw(rt, "pos")
		out[p] = rapid.SampledFrom(c23Tags).Draw(rt, "tag")
	case "truncate":
		out = out[:rapid.IntRange(0, len(out)-1).Draw(rt, "len")]
	case "insert":
		p := rapid.IntRange(0, len(out)).Draw(rt, "pos")
		ins := rapid.SliceOfN(rapid.SampledFrom(c23Tags), 1, 4).Draw(rt, "ins")
		out = append(out[:p], append(ins, out[p:]...)...)
	case "delete":
		p := rapid.IntRange(0, len(out)-1).Draw(rt, "pos")
		out = append(out[:p], out[p+1:]...)
	case "dup":
		p := rapid.IntRange(0, len(out)-1).Draw(rt, "pos")
		q := rapid.IntRange(p, len(out)).Draw(rt, "end")
		out = append(out[:q], append(append([]byte{}, out[p:q]...), out[q:]...)...)
	case "null":
		// replace a byte by the two byte null item
		p := rapid.IntRange(0, len(out)-1).Draw(rt, "pos")
		out = append(out[:p], append([]byte{0xf8, 0x00}, out[p+1:]...)...)
	case "splice":
		other := rapid.SliceOfN(rapid.Byte(), 0, 24).Draw(rt, "other")
		p := rapid.IntRange(0, len(out)).Draw(rt, "pos")
		out = append(out[:p], other...)
	}
	return out, kind
}

// c23ValidEncoding draws a target value (or an "any" value) and returns its encoding.
func c23ValidEncoding(rt *rapid.T, targets []c23Target) ([]byte, string) {
	g := &c23Gen{rt: rt, budget: 30}
	i := rapid.IntRange(0, len(targets)).Draw(rt, "target")
	if i == len(targets) {
		enc, err := common.MarshalAny(codec.BC, c23Any(g, 0))
		if err != nil {
			rt.Fatalf("C23 violated: MarshalAny failed: %v", err)
		}
		return enc, "any"
	}
	enc, m := c23Enc(targets[i].gen(g))
	if m != "" {
		rt.Fatalf("C23 violated: %s", m)
	}
	return enc, targets[i].name
}

// ---------------------------------------------------------------------------------------------

type c23IntTarget struct {
	name   string
	fresh  func() interface{}
	lo, hi *big.Int
	get    func(p interface{}) *big.Int
}

func c23IntTargets() []c23IntTarget {
	r := func(lo, hi string) (*big.Int, *big.Int) {
		a, _ := new(big.Int).SetString(lo, 10)
		b, _ := new(big.Int).SetString(hi, 10)
		return a, b
	}
	mk := func(name string, fresh func() interface{}, lo, hi string, get func(p interface{}) *big.Int) c23IntTarget {
		a, b := r(lo, hi)
		return c23IntTarget{name, fresh, a, b, get}
	}
	si := func(v int64) *big.Int { return big.NewInt(v) }
	ui := func(v uint64) *big.Int { return new(big.Int).SetUint64(v) }
	return []c23IntTarget{
		mk("int8", func() interface{} { return new(int8) }, "-128", "127", func(p interface{}) *big.Int { return si(int64(*p.(*int8))) }),
		mk("int16", func() interface{} { return new(int16) }, "-32768", "32767", func(p interface{}) *big.Int { return si(int64(*p.(*int16))) }),
		mk("int32", func() interface{} { return new(int32) }, "-2147483648", "2147483647", func(p interface{}) *big.Int { return si(int64(*p.(*int32))) }),
		mk("int64", func() interface{} { return new(int64) }, "-9223372036854775808", "9223372036854775807", func(p interface{}) *big.Int { return si(*p.(*int64)) }),
		mk("int", func() interface{} { return new(int) }, "-9223372036854775808", "9223372036854775807", func(p interface{}) *big.Int { return si(int64(*p.(*int))) }),
		mk("uint8", func() interface{} { return new(uint8) }, "0", "255", func(p interface{}) *big.Int { return ui(uint64(*p.(*uint8))) }),
		mk("uint16", func() interface{} { return new(uint16) }, "0", "65535", func(p interface{}) *big.Int { return ui(uint64(*p.(*uint16))) }),
		mk("uint32", func() interface{} { return new(uint32) }, "0", "4294967295", func(p interface{}) *big.Int { return ui(uint64(*p.(*uint32))) }),
		mk("uint64", func() interface{} { return new(uint64) }, "0", "18446744073709551615", func(p interface{}) *big.Int { return ui(*p.(*uint64)) }),
		mk("uint", func() interface{} { return new(uint) }, "0", "18446744073709551615", func(p interface{}) *big.Int { return ui(uint64(*p.(*uint))) }),
		mk("bool", func() interface{} { return new(bool) }, "0", "1", func(p interface{}) *big.Int {
			if *p.(*bool) {
				return si(1)
			}
			return si(0)
		}),
	}
}

// c23CheckNumber decodes the encoding enc of number v into every integer target.
func c23CheckNumber(enc []byte, v *big.Int, its []c23IntTarget) string {
	for _, it := range its {
		if strconvIntSize == 32 && (it.name == "int" || it.name == "uint") {
			continue
		}
		p := it.fresh()
		rest, err, pan := c23Dec(enc, p)
		if pan != "" {
			return pan
		}
		in := v.Cmp(it.lo) >= 0 && v.Cmp(it.hi) <= 0
		if in {
			if err != nil {
				return fmt.Sprintf("number %v (encoding %x) is in the range of %s but decoding fails: %v", v, enc, it.name, err)
			}
			if got := it.get(p); got.Cmp(v) != 0 || len(rest) != 0 {
				return fmt.Sprintf("number %v (encoding %x) decodes into %s as %v (rest %d)", v, enc, it.name, got, len(rest))
			}
		} else if err == nil {
			return fmt.Sprintf("number %v (encoding %x) is outside the range of %s but decodes (as %v)", v, enc, it.name, it.get(p))
		}
	}
	return ""
}

const strconvIntSize = 32 << (^uint(0) >> 63)

// c23EncodeNumber is the harness encoding of a number as an RLP byte string holding the minimal
// two's complement form (c24RefSigned) - used for numbers the Go integer types cannot hold.
func c23EncodeNumber(v *big.Int) []byte {
	b := c24RefSigned(v)
	if len(b) == 1 && b[0] < 0x80 {
		return b
	}
	if len(b) <= 55 {
		return append([]byte{byte(0x80 + len(b))}, b...)
	}
	return append([]byte{0xb8, byte(len(b))}, b...)
}

// c23Inflate raises the size declared by the header of the first item.
func c23Inflate(rt *rapid.T, enc []byte) ([]byte, bool) {
	if len(enc) == 0 {
		return nil, false
	}
	t := int(enc[0])
	how := rapid.IntRange(0, 2).Draw(rt, "inflate")
	big8 := []byte{0x7f, 0xff, 0xff, 0xff, 0xff, 0xff, 0xff, 0xff}
	switch {
	case t < 0x80:
		return nil, false
	case t <= 0xb7 || (t >= 0xc0 && t <= 0xf7):
		base := 0x80
		if t >= 0xc0 {
			base = 0xc0
		}
		size := t - base
		switch how {
		case 0:
			if size+1 > 55 {
				return nil, false
			}
			k := rapid.IntRange(1, 55-size).Draw(rt, "k")
			out := append([]byte{byte(t + k)}, enc[1:]...)
			return out, true
		case 1:
			// long form with a size a little beyond the input
			n := len(enc) + rapid.IntRange(0, 300).Draw(rt, "k")
			out := append([]byte{byte(base + 55 + 2), byte(n >> 8), byte(n)}, enc[1:]...)
			return out, true
		default:
			k := rapid.IntRange(1, 8).Draw(rt, "sizeLen")
			out := append([]byte{byte(base + 55 + k)}, big8[:k]...)
			return append(out, enc[1:]...), true
		}
	default:
		base := 0xb7
		if t >= 0xf8 {
			base = 0xf7
		}
		n := t - base
		if len(enc) < 1+n {
			return nil, false
		}
		if base == 0xf7 && n == 1 && enc[1] == 0 {
			return nil, false // the null item
		}
		out := append([]byte{}, enc...)
		switch how {
		case 0, 1:
			// add k to the declared size
			k := rapid.IntRange(1, 1000).Draw(rt, "k")
			v := new(big.Int).SetBytes(out[1 : 1+n])
			v.Add(v, big.NewInt(int64(k)))
			if len(v.Bytes()) > n {
				return nil, false
			}
			v.FillBytes(out[1 : 1+n])
			return out, true
		default:
			for i := 1; i <= n; i++ {
				out[i] = 0xff
			}
			if n == 8 {
				out[1] = 0x7f
			}
			if bytes.Equal(out, enc) {
				return nil, false
			}
			return out, true
		}
	}
}

// ---------------------------------------------------------------------------------------------

func TestC23(t *testing.T) {
	rec := ev.New("C23", "roundtrip: values of a harness type family (all int widths, bool, string, []byte, byte arrays, arrays, nested slices, maps with string/signed/unsigned keys, pointers, embedded and nested structs, a recursive tree, *big.Int, HexInt, Address, TypedObj 'any' trees) built by explicit generators with boundary-biased numbers and lengths (0,1,55,56,255,256) and nil/empty/non-empty containers; narrow/reject: boundary-biased numbers into every integer kind, numbers beyond 64 bits, every strict prefix and inflated size headers; bytes: mutated valid encodings and random bytes into every target; non-trivial = container nesting depth >= 2 or both a nil and an empty container/pointer target in one value (roundtrip), a number within 2 of a range boundary (narrow), any rejected-size case (reject), a mutated encoding that at least one target still accepts (bytes); distinct by encoding bytes (+target)")
	defer rec.Flush(t)
	targets := c23Targets()
	its := c23IntTargets()

	if j, ok := ev.ReplayJournal(); ok {
		// replay of a crash journal: the byte string that was being decoded when the process died
		var in []byte
		if _, err := fmt.Sscanf(j, "C23 bytes %x", &in); err != nil && j != "C23 bytes " {
			ev.Inconclusive("C23: cannot parse journal %q", j)
		}
		rec.Case("replay "+c23Sum(in), true, "replay")
		if msg, _ := c23DecodeAll(in, targets); msg != "" {
			t.Fatalf("C23 violated: %s", msg)
		}
		return
	}

	t.Run("roundtrip", func(t *testing.T) {
		ev.Check(t, 3000, 12000, func(rt *rapid.T) {
			g := &c23Gen{rt: rt, budget: ev.Pick(40, 120)}
			ti := rapid.IntRange(0, len(targets)).Draw(rt, "target")
			if ti == len(targets) {
				any := c23Any(g, 0)
				enc, msg := c23AnyRoundTrip(any)
				nt := g.maxSeen >= 2 || (g.nils > 0 && g.empties > 0)
				rec.Case("any "+c23Sum(enc), nt, "target:any", fmt.Sprintf("depth:%d", c23min(g.maxSeen, 5)))
				if msg != "" {
					rt.Fatalf("C23 violated: %s", msg)
				}
				return
			}
			tg := targets[ti]
			p := tg.gen(g)
			enc, msg := c23Enc(p)
			if msg != "" {
				rt.Fatalf("C23 violated: %s (value %+v)", msg, p)
			}
			labels := []string{"target:" + tg.name, fmt.Sprintf("depth:%d", c23min(g.maxSeen, 5))}
			if g.nils > 0 && g.empties > 0 {
				labels = append(labels, "nilAndEmpty")
			}
			switch {
			case len(enc) > 256:
				labels = append(labels, "enc>256")
			case len(enc) > 55:
				labels = append(labels, "enc>55")
			}
			nt := g.maxSeen >= 2 || (g.nils > 0 && g.empties > 0)
			rec.Case(tg.name+" "+c23Sum(enc), nt, labels...)

			// deterministic
			for i := 0; i < 2; i++ {
				e2, msg := c23Enc(p)
				if msg != "" || !bytes.Equal(enc, e2) {
					rt.Fatalf("C23 violated: target %s: encoding the same value twice gives %s and %s %s", tg.name, c23Sum(enc), c23Sum(e2), msg)
				}
			}
			if tg.byValue {
				e2, msg := c23Enc(reflect.ValueOf(p).Elem().Interface())
				if msg != "" || !bytes.Equal(enc, e2) {
					rt.Fatalf("C23 violated: target %s: value and pointer-to-value encode differently: %s vs %s %s", tg.name, c23Sum(enc), c23Sum(e2), msg)
				}
			}
			var sb bytes.Buffer
			if err := codec.BC.Marshal(&sb, p); err != nil || !bytes.Equal(sb.Bytes(), enc) {
				rt.Fatalf("C23 violated: target %s: Marshal(io.Writer) gives %s, MarshalToBytes %s (err %v)", tg.name, c23Sum(sb.Bytes()), c23Sum(enc), err)
			}
			// the encoding is exactly one item
			if it, rest, err := c23ReadItem(enc); err != nil || len(rest) != 0 || len(it.raw) != len(enc) {
				rt.Fatalf("C23 violated: target %s: encoding %s is not a single well-formed item (%v)", tg.name, c23Sum(enc), err)
			}
			// maps sorted
			if tg.check != nil {
				if msg := tg.check(enc, p); msg != "" {
					rt.Fatalf("C23 violated: target %s: %s (encoding %s)", tg.name, msg, c23Sum(enc))
				}
			}
			// round trip, with trailing bytes that must come back untouched
			tail := rapid.SliceOfN(rapid.Byte(), 0, 5).Draw(rt, "tail")
			q := tg.fresh()
			rest, err, pan := c23Dec(append(append([]byte{}, enc...), tail...), q)
			if pan != "" {
				rt.Fatalf("C23 violated: %s", pan)
			}
			if err != nil {
				rt.Fatalf("C23 violated: target %s: decoding its own encoding %s fails: %v (value %+v)", tg.name, c23Sum(enc), err, p)
			}
			if !bytes.Equal(rest, tail) {
				rt.Fatalf("C23 violated: target %s: remainder after decoding is %x, appended %x", tg.name, rest, tail)
			}
			if m := c23Eq(reflect.ValueOf(p).Elem(), reflect.ValueOf(q).Elem(), tg.name); m != "" {
				rt.Fatalf("C23 violated: target %s: decode(encode(v)) != v at %s (encoding %s)", tg.name, m, c23Sum(enc))
			}
			// stream reader entry point
			q2 := tg.fresh()
			if err := codec.BC.Unmarshal(bytes.NewReader(enc), q2); err != nil {
				rt.Fatalf("C23 violated: target %s: Unmarshal(io.Reader) of %s fails: %v", tg.name, c23Sum(enc), err)
			}
			if m := c23Eq(reflect.ValueOf(p).Elem(), reflect.ValueOf(q2).Elem(), tg.name); m != "" {
				rt.Fatalf("C23 violated: target %s: Unmarshal(io.Reader) differs at %s", tg.name, m)
			}
			// the decoded copy encodes to the same bytes
			if e3, msg := c23Enc(q); msg != "" || !bytes.Equal(e3, enc) {
				rt.Fatalf("C23 violated: target %s: encode(decode(encode v)) = %s differs from encode v = %s %s", tg.name, c23Sum(e3), c23Sum(enc), msg)
			}
		})
	})

	t.Run("surplus", func(t *testing.T) {
		ev.Check(t, 1500, 8000, func(rt *rapid.T) { c23Surplus(rt, rec) })
	})
	t.Run("narrow", func(t *testing.T) {
		ev.Check(t, 1500, 6000, func(rt *rapid.T) {
			g := &c23Gen{rt: rt}
			var v *big.Int
			var enc []byte
			var msg, src string
			if rapid.Bool().Draw(rt, "signed") {
				x := g.i64("x")
				if rapid.IntRange(0, 3).Draw(rt, "near") == 0 {
					x = rapid.SampledFrom([]int64{-129, -128, -127, 126, 127, 128, 254, 255, 256, -32769, -32768, 32767, 32768, 65535, 65536, -2147483649, -2147483648, 2147483647, 2147483648, 4294967295, 4294967296, -1, 0, 1, 2}).Draw(rt, "xb")
				}
				v = big.NewInt(x)
				enc, msg = c23Enc(x)
				src = "int64"
			} else {
				x := g.u64("x")
				v = new(big.Int).SetUint64(x)
				enc, msg = c23Enc(x)
				src = "uint64"
			}
			if msg != "" {
				rt.Fatalf("C23 violated: %s", msg)
			}
			near := false
			for _, it := range its {
				for _, b := range []*big.Int{it.lo, it.hi} {
					d := new(big.Int).Sub(v, b)
					if d.Abs(d).Cmp(big.NewInt(2)) <= 0 {
						near = true
					}
				}
			}
			rec.Case(fmt.Sprintf("narrow %s %v", src, v), near, "narrow:"+src)
			if m := c23CheckNumber(enc, v, its); m != "" {
				rt.Fatalf("C23 violated: %s (encoded from %s)", m, src)
			}
		})
	})

	t.Run("reject", func(t *testing.T) {
		ev.Check(t, 1500, 6000, func(rt *rapid.T) {
			switch rapid.SampledFrom([]string{"bigNumber", "prefix", "inflate"}).Draw(rt, "kind") {
			case "bigNumber":
				// a number no 64-bit type holds, in minimal two's complement form
				n := rapid.IntRange(64, 200).Draw(rt, "bits")
				v := new(big.Int).Lsh(big.NewInt(1), uint(n))
				v.Add(v, new(big.Int).SetBytes(rapid.SliceOfN(rapid.Byte(), 0, 8).Draw(rt, "low")))
				if rapid.Bool().Draw(rt, "neg") {
					v.Neg(v)
				}
				if rapid.IntRange(0, 3).Draw(rt, "edge") == 0 {
					v = rapid.SampledFrom([]*big.Int{
						new(big.Int).Lsh(big.NewInt(1), 64),
						new(big.Int).Neg(new(big.Int).Add(new(big.Int).Lsh(big.NewInt(1), 63), big.NewInt(1))),
						new(big.Int).Add(new(big.Int).Lsh(big.NewInt(1), 64), big.NewInt(1)),
						new(big.Int).Neg(new(big.Int).Lsh(big.NewInt(1), 64)),
					}).Draw(rt, "edgeV")
				}
				enc := c23EncodeNumber(v)
				rec.Case(fmt.Sprintf("bigNumber %v", v), true, "reject:bigNumber")
				if m := c23CheckNumber(enc, v, its); m != "" {
					rt.Fatalf("C23 violated: %s", m)
				}
				// the same number is fine for *big.Int
				var b *big.Int
				if _, err, pan := c23Dec(enc, &b); pan != "" || err != nil || b == nil || b.Cmp(v) != 0 {
					rt.Fatalf("C23 violated: number %v (encoding %x) does not decode into *big.Int: %v %v %s", v, enc, b, err, pan)
				}
			case "prefix":
				enc, name := c23ValidEncoding(rt, targets)
				var cuts []int
				if len(enc) <= 200 {
					for i := 0; i < len(enc); i++ {
						cuts = append(cuts, i)
					}
				} else {
					for i := 0; i < 40; i++ {
						cuts = append(cuts, rapid.IntRange(0, len(enc)-1).Draw(rt, "cut"))
					}
					cuts = append(cuts, 0, 1, 2, len(enc)-1, len(enc)-2)
				}
				rec.Case(fmt.Sprintf("prefix %s %s", name, c23Sum(enc)), true, "reject:prefix")
				for _, c := range cuts {
					if name == "any" {
						var to codec.TypedObj
						_, err, pan := c23Dec(enc[:c], &to)
						if pan != "" {
							rt.Fatalf("C23 violated: %s", pan)
						}
						if err == nil {
							rt.Fatalf("C23 violated: TypedObj: the %d-byte prefix of the %d-byte encoding %s decodes without error", c, len(enc), c23Sum(enc))
						}
						continue
					}
					for _, tg := range targets {
						if tg.name != name {
							continue
						}
						p := tg.fresh()
						_, err, pan := c23Dec(enc[:c], p)
						if pan != "" {
							rt.Fatalf("C23 violated: %s", pan)
						}
						if err == nil {
							rt.Fatalf("C23 violated: target %s: the %d-byte prefix of the %d-byte encoding %s decodes without error", name, c, len(enc), c23Sum(enc))
						}
					}
					rec.Label("prefixRejected")
				}
			default:
				enc, name := c23ValidEncoding(rt, targets)
				bad, ok := c23Inflate(rt, enc)
				if !ok {
					rec.Case(fmt.Sprintf("inflate n/a %s", c23Sum(enc)), false, "reject:inflate:n/a")
					return
				}
				rec.Case(fmt.Sprintf("inflate %s %s", name, c23Sum(bad)), true, "reject:inflate")
				ev.Journal(fmt.Sprintf("C23 bytes %x", bad))
				// no target may accept an item whose declared size exceeds the input
				for _, tg := range targets {
					p := tg.fresh()
					_, err, pan := c23Dec(bad, p)
					if pan != "" {
						rt.Fatalf("C23 violated: %s", pan)
					}
					if err == nil {
						rt.Fatalf("C23 violated: target %s accepts %s whose first item declares more bytes than the input has (from %s)", tg.name, c23Sum(bad), c23Sum(enc))
					}
				}
				var to codec.TypedObj
				if _, err, pan := c23Dec(bad, &to); pan != "" || err == nil {
					rt.Fatalf("C23 violated: TypedObj accepts or crashes on %s whose first item declares more bytes than the input has: %s", c23Sum(bad), pan)
				}
			}
		})
	})

	t.Run("bytes", func(t *testing.T) {
		ev.Check(t, 5000, 20000, func(rt *rapid.T) {
			var in []byte
			var kind string
			if rapid.IntRange(0, 5).Draw(rt, "random") == 0 {
				in = rapid.SliceOfN(rapid.OneOf(rapid.Byte(), rapid.SampledFrom(c23Tags)), 0, 40).Draw(rt, "bytes")
				kind = "random"
			} else {
				enc, name := c23ValidEncoding(rt, targets)
				n := rapid.IntRange(1, 3).Draw(rt, "nMutations")
				in = enc
				var ks []string
				for i := 0; i < n; i++ {
					var k string
					in, k = c23Mutate(rt, in)
					ks = append(ks, k)
				}
				sort.Strings(ks)
				kind = "mut(" + name + "):" + strings.Join(ks, "+")
				rec.Label("from:" + name)
			}
			ev.Journal(fmt.Sprintf("C23 bytes %x", in)) // an out-of-memory abort cannot be recovered
			msg, acc := c23DecodeAll(in, targets)
			lab := "allReject"
			if acc > 0 {
				lab = "someAccept"
			}
			rec.Case("bytes "+c23Sum(in), acc > 0 && kind != "mut:none", lab, "bytes:"+strings.SplitN(kind, ":", 2)[0])
			if msg != "" {
				rt.Fatalf("C23 violated: %s [%s]", msg, kind)
			}
		})
	})
}

func c23min(a, b int) int {
	if a < b {
		return a
	}
	return b
}

// FuzzC23Decode is the native (coverage guided) fuzz target: arbitrary bytes into every target
// type incl. TypedObj and UnmarshalAny - error or value, never a panic; an accepted value must
// re-encode/decode to a fixed point. Seeds are valid encodings from the generators. Run only in
// the thorough tier: go test -tags verif -run '^$' -fuzz '^FuzzC23Decode$' -fuzztime 120s ./hdata2/
func FuzzC23Decode(f *testing.F) {
	targets := c23Targets()
	seedGen := rapid.Custom(func(rt *rapid.T) []byte {
		enc, _ := c23ValidEncoding(rt, targets)
		return enc
	})
	for i := 0; i < 64; i++ {
		f.Add(seedGen.Example(i))
	}
	for _, s := range [][]byte{{}, {0x00}, {0x80}, {0xc0}, {0xf8, 0x00}, {0xc3, 0x01, 0xf8, 0x00}, {0xc2, 0x02, 0xc0}, {0xb8, 0x38}, {0xbf, 0x7f, 0xff, 0xff, 0xff, 0xff, 0xff, 0xff, 0xff}, {0xff, 0x7f, 0xff, 0xff, 0xff, 0xff, 0xff, 0xff, 0xff}} {
		f.Add(s)
	}
	f.Fuzz(func(t *testing.T, in []byte) {
		if len(in) > 1<<16 {
			return
		}
		if msg, _ := c23DecodeAll(in, targets); msg != "" {
			t.Fatalf("C23 violated: %s", msg)
		}
	})
}

// ---------------------------------------------------------------------------------------------
// surplus: lists that hold more elements than the target reads (how goloop stays compatible with
// newer encodings of a structure), and values written through the explicit list API
// (EncodeListOf/DecodeListOf, EncodeMulti/DecodeMulti, custom RLPEncodeSelf/RLPDecodeSelf).
// Oracle: the fields the narrow target does read are the written ones, at every nesting level, and
// whatever follows the value in the stream (a sentinel string and number) is decoded unharmed:
// a skipped element must be skipped with exactly its size.

type c23Wide struct {
	N    int64
	S    string
	P    *string
	Big  *big.Int
	Bs   []byte
	Kids []c23Inner
	M    map[string]int64
}

type c23Slim struct {
	N int64
	S string
}

type c23WideBox struct {
	Head  int32
	Items []c23Wide
	One   c23Wide
	PW    *c23Wide
	Tail  string
}

type c23Flat struct {
	A int64
	B string
	C []byte
	D []uint16
	E c23Slim
	F string
	G uint64
}

type c23SlimBox struct {
	Head  int32
	Items []c23Slim
	One   c23Slim
	PW    *c23Slim
	Tail  string
}

// c23Self writes itself with the explicit list API; c23SelfOld is an older reader of the same format
// that knows only the first two members.
type c23Self struct {
	A int64
	B []byte
	C *c23Inner
	D string
	E []uint16
}

func (x *c23Self) RLPEncodeSelf(e codec.Encoder) error {
	e2, err := e.EncodeList()
	if err != nil {
		return err
	}
	if err := e2.EncodeMulti(x.A, x.B, x.C); err != nil {
		return err
	}
	return e2.EncodeListOf(x.D, x.E)
}

func (x *c23Self) RLPDecodeSelf(d codec.Decoder) error {
	d2, err := d.DecodeList()
	if err != nil {
		return err
	}
	if _, err := d2.DecodeMulti(&x.A, &x.B, &x.C); err != nil {
		return err
	}
	return d2.DecodeListOf(&x.D, &x.E)
}

type c23SelfOld struct {
	A int64
	B []byte
}

func (x *c23SelfOld) RLPEncodeSelf(e codec.Encoder) error { return e.EncodeListOf(x.A, x.B) }
func (x *c23SelfOld) RLPDecodeSelf(d codec.Decoder) error { return d.DecodeListOf(&x.A, &x.B) }

func c23Surplus(rt *rapid.T, rec *ev.Rec) {
	g := &c23Gen{rt: rt, budget: 30}
	wide := func(label string) c23Wide {
		w := c23Wide{N: g.i64(label + ".n"), S: g.str(label + ".s"), P: g.pstr(label + ".p"), Big: g.big(label + ".big"), Bs: g.bytesN(label + ".bs")}
		for i, n := 0, g.count(label+".kids", 3); i < n; i++ {
			w.Kids = append(w.Kids, g.inner())
		}
		if n := g.count(label+".m", 3); n > 0 {
			w.M = map[string]int64{}
			for i := 0; i < n; i++ {
				w.M[g.key(label+".mk")] = g.i64(label + ".mv")
			}
		}
		return w
	}
	kind := rapid.SampledFrom([]string{"box", "box", "self", "selfInSlice", "oldReader", "skip"}).Draw(rt, "kind")
	sentS, sentN := g.str("sentinelS"), g.i64("sentinelN")
	var stream, first []byte
	add := func(v interface{}) {
		b, msg := c23Enc(v)
		if msg != "" {
			rt.Fatalf("C23 violated: %s", msg)
		}
		if first == nil {
			first = b
		}
		stream = append(stream, b...)
	}
	fail := func(format string, a ...interface{}) {
		rt.Fatalf("C23 violated (surplus/%s): %s; stream %x", kind, fmt.Sprintf(format, a...), c23Short(stream))
	}
	tail := func(rest []byte) {
		var s string
		var n int64
		rest, err, pn := c23Dec(rest, &s)
		if pn != "" || err != nil {
			fail("the value after the skipped members does not decode: %v %s", err, pn)
		}
		rest, err, pn = c23Dec(rest, &n)
		if pn != "" || err != nil || len(rest) != 0 {
			fail("the number after the skipped members does not decode: %v %s (%d bytes left)", err, pn, len(rest))
		}
		if s != sentS || n != sentN {
			fail("values following the structure were damaged: got (%q,%d), written (%q,%d)", s, n, sentS, sentN)
		}
	}
	switch kind {
	case "skip":
		// Decoder.Skip(k) inside a list, then the next member (how a single header field is read)
		fl := c23Flat{A: g.i64("a"), B: g.str("b"), C: g.bytesN("c"), E: c23Slim{N: g.i64("e.n"), S: g.str("e.s")}, F: g.str("f"), G: g.u64("g")}
		for i, n := 0, g.count("d", 4); i < n; i++ {
			fl.D = append(fl.D, uint16(g.ubits("dv", 16)))
		}
		add(&fl)
		k := rapid.IntRange(0, 6).Draw(rt, "skipCount")
		func() {
			defer func() {
				if r := recover(); r != nil {
					fail("Skip(%d) / Decode panicked: %v", k, r)
				}
			}()
			d := codec.BC.NewDecoder(bytes.NewReader(stream))
			d2, err := d.DecodeList()
			if err != nil {
				fail("DecodeList: %v", err)
			}
			if err := d2.Skip(k); err != nil {
				fail("Skip(%d) of 7 members: %v", k, err)
			}
			var got, want interface{}
			switch k {
			case 0:
				var v int64
				err, got, want = d2.Decode(&v), &v, &fl.A
			case 1:
				var v string
				err, got, want = d2.Decode(&v), &v, &fl.B
			case 2:
				var v []byte
				err, got, want = d2.Decode(&v), &v, &fl.C
			case 3:
				var v []uint16
				err, got, want = d2.Decode(&v), &v, &fl.D
			case 4:
				var v c23Slim
				err, got, want = d2.Decode(&v), &v, &fl.E
			case 5:
				var v string
				err, got, want = d2.Decode(&v), &v, &fl.F
			default:
				var v uint64
				err, got, want = d2.Decode(&v), &v, &fl.G
			}
			if err != nil {
				fail("member %d after Skip(%d) does not decode: %v", k, k, err)
			}
			if m := c23Eq(reflect.ValueOf(got).Elem(), reflect.ValueOf(want).Elem(), fmt.Sprintf("member%d", k)); m != "" {
				fail("member %d after Skip(%d) differs: %s", k, k, m)
			}
		}()
	case "box":
		wb := c23WideBox{Head: int32(g.ibits("head", 32)), One: wide("one"), Tail: g.str("tail")}
		for i, n := 0, g.count("items", 4); i < n; i++ {
			wb.Items = append(wb.Items, wide("item"))
		}
		if rapid.Bool().Draw(rt, "pw") {
			w := wide("pw")
			wb.PW = &w
		}
		add(&wb)
		add(sentS)
		add(sentN)
		var sb c23SlimBox
		rest, err, pn := c23Dec(stream, &sb)
		if pn != "" || err != nil {
			fail("a structure with more members than the target reads is not decoded: %v %s", err, pn)
		}
		if sb.Head != wb.Head || sb.Tail != wb.Tail || len(sb.Items) != len(wb.Items) || sb.One.N != wb.One.N || sb.One.S != wb.One.S || (sb.PW == nil) != (wb.PW == nil) {
			fail("members read by the narrow target differ: got %+v, written head=%d tail=%q items=%d one=(%d,%q)", sb, wb.Head, wb.Tail, len(wb.Items), wb.One.N, wb.One.S)
		}
		if sb.PW != nil && (sb.PW.N != wb.PW.N || sb.PW.S != wb.PW.S) {
			fail("pointer member read as (%d,%q), written (%d,%q)", sb.PW.N, sb.PW.S, wb.PW.N, wb.PW.S)
		}
		for i := range sb.Items {
			if sb.Items[i].N != wb.Items[i].N || sb.Items[i].S != wb.Items[i].S {
				fail("item %d read as (%d,%q), written (%d,%q)", i, sb.Items[i].N, sb.Items[i].S, wb.Items[i].N, wb.Items[i].S)
			}
		}
		tail(rest)
	case "self", "selfInSlice", "oldReader":
		mk := func(label string) *c23Self {
			x := &c23Self{A: g.i64(label + ".a"), B: g.bytesN(label + ".b"), C: g.pinner(label + ".c"), D: g.str(label + ".d")}
			for i, n := 0, g.count(label+".e", 4); i < n; i++ {
				x.E = append(x.E, uint16(g.ubits(label+".ev", 16)))
			}
			return x
		}
		eq := func(a, b *c23Self) string {
			if a.A != b.A || !bytes.Equal(a.B, b.B) || a.D != b.D || len(a.E) != len(b.E) || (a.C == nil) != (b.C == nil) {
				return fmt.Sprintf("got %+v, written %+v", a, b)
			}
			for i := range a.E {
				if a.E[i] != b.E[i] {
					return fmt.Sprintf("E[%d]=%d, written %d", i, a.E[i], b.E[i])
				}
			}
			if a.C != nil {
				return c23Eq(reflect.ValueOf(*a.C), reflect.ValueOf(*b.C), "C")
			}
			return ""
		}
		switch kind {
		case "self":
			x := mk("x")
			add(x)
			add(sentS)
			add(sentN)
			var y c23Self
			rest, err, pn := c23Dec(stream, &y)
			if pn != "" || err != nil {
				fail("a value written through the list API is not decoded: %v %s", err, pn)
			}
			if m := eq(&y, x); m != "" {
				fail("list-API value changed: %s", m)
			}
			tail(rest)
		case "selfInSlice":
			var xs []*c23Self
			for i, n := 0, 1+g.count("n", 3); i < n; i++ {
				xs = append(xs, mk("x"))
			}
			add(xs)
			add(sentS)
			add(sentN)
			var ys []*c23Self
			rest, err, pn := c23Dec(stream, &ys)
			if pn != "" || err != nil || len(ys) != len(xs) {
				fail("a slice of list-API values is not decoded: %v %s (%d of %d)", err, pn, len(ys), len(xs))
			}
			for i := range xs {
				if m := eq(ys[i], xs[i]); m != "" {
					fail("list-API value %d changed: %s", i, m)
				}
			}
			tail(rest)
		default:
			var xs []*c23Self
			for i, n := 0, 1+g.count("n", 3); i < n; i++ {
				xs = append(xs, mk("x"))
			}
			add(xs)
			add(sentS)
			add(sentN)
			var ys []*c23SelfOld
			rest, err, pn := c23Dec(stream, &ys)
			if pn != "" || err != nil || len(ys) != len(xs) {
				fail("an older reader (first two members only) cannot decode the newer encoding: %v %s (%d of %d)", err, pn, len(ys), len(xs))
			}
			for i := range xs {
				if ys[i].A != xs[i].A || !bytes.Equal(ys[i].B, xs[i].B) {
					fail("older reader got (%d,%x) for element %d, written (%d,%x)", ys[i].A, ys[i].B, i, xs[i].A, xs[i].B)
				}
			}
			tail(rest)
		}
	}
	rec.Case(fmt.Sprintf("surplus %s %s", kind, c23Sum(stream)), true, "surplus", "surplus:"+kind)
}
