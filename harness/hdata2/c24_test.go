package hdata2

import (
	"bytes"
	"encoding/json"
	"fmt"
	"math/big"
	"testing"

	"github.com/icon-project/goloop/common"
	"github.com/icon-project/goloop/common/codec"
	"github.com/icon-project/goloop/common/intconv"
	"pgregory.net/rapid"

	"verifharness/internal/ev"
)

// C24: every int64/uint64 and every big integer is encoded as the minimal two's-complement
// (or unsigned) byte string and decodes back to the same number; hex text formatting of numbers
// parses back to the same number.
//
// Oracle (independent of intconv): the reference byte string of v is the shortest big-endian
// string of n>=1 bytes with -2^(8n-1) <= v < 2^(8n-1) holding v mod 2^(8n) (two's complement),
// or for the unsigned "size" form the shortest big-endian string without leading zero byte
// (one 0x00 byte for zero). Both are computed with math/big arithmetic only. Text: the string is
// also parsed with math/big's own SetString(s, 0) as a second, independent reader.
//
// Not decided (the statement does not speak about it): how non-minimal byte strings decode,
// which texts other than the formatter's output the parsers accept.

// c24RefSigned is the minimal two's-complement big-endian rendering of v.
func c24RefSigned(v *big.Int) []byte {
	n := 1
	for {
		lim := new(big.Int).Lsh(big.NewInt(1), uint(8*n-1)) // 2^(8n-1)
		neg := new(big.Int).Neg(lim)
		if v.Cmp(neg) >= 0 && v.Cmp(lim) < 0 {
			break
		}
		n++
	}
	mod := new(big.Int).Lsh(big.NewInt(1), uint(8*n))
	u := new(big.Int).Mod(v, mod) // Euclidean: 0 <= u < 2^(8n)
	out := make([]byte, n)
	u.FillBytes(out)
	return out
}

// c24RefUnsigned is the minimal unsigned rendering (no leading zero byte; zero is one 0x00).
func c24RefUnsigned(v *big.Int) []byte {
	if v.Sign() == 0 {
		return []byte{0}
	}
	return v.Bytes()
}

func c24Boundary(v *big.Int) bool {
	// |v| at a byte-length boundary: the reference length (signed or unsigned form) of v differs
	// from that of v-1 or v+1.
	p := new(big.Int).Add(v, big.NewInt(1))
	m := new(big.Int).Sub(v, big.NewInt(1))
	ls := len(c24RefSigned(v))
	if len(c24RefSigned(p)) != ls || len(c24RefSigned(m)) != ls {
		return true
	}
	a := new(big.Int).Abs(v)
	ap := new(big.Int).Add(a, big.NewInt(1))
	lu := len(c24RefUnsigned(a))
	if len(c24RefUnsigned(ap)) != lu {
		return true
	}
	if a.Sign() > 0 {
		am := new(big.Int).Sub(a, big.NewInt(1))
		if len(c24RefUnsigned(am)) != lu && am.Sign() != 0 {
			return true
		}
	}
	return false
}

// c24DrawBig draws a big integer of at most maxBits bits, both signs, biased to +-2^k+d.
func c24DrawBig(rt *rapid.T, maxBits int) (*big.Int, string) {
	switch rapid.IntRange(0, 3).Draw(rt, "shape") {
	case 0, 1:
		k := rapid.IntRange(0, maxBits-1).Draw(rt, "k")
		if rapid.Bool().Draw(rt, "byteAligned") {
			k = k / 8 * 8
			if rapid.Bool().Draw(rt, "signBit") && k > 0 {
				k--
			}
		}
		d := rapid.IntRange(-2, 2).Draw(rt, "d")
		v := new(big.Int).Lsh(big.NewInt(1), uint(k))
		v.Add(v, big.NewInt(int64(d)))
		if rapid.Bool().Draw(rt, "neg") {
			v.Neg(v)
		}
		return v, "pow2"
	case 2:
		n := rapid.IntRange(0, maxBits/8).Draw(rt, "nbytes")
		b := rapid.SliceOfN(rapid.Byte(), n, n).Draw(rt, "mag")
		v := new(big.Int).SetBytes(b)
		if rapid.Bool().Draw(rt, "neg") {
			v.Neg(v)
		}
		return v, "random"
	default:
		// 0xff.. / 0x80.. / 0x7f.. patterns
		n := rapid.IntRange(1, maxBits/8).Draw(rt, "nbytes")
		lead := rapid.SampledFrom([]byte{0xff, 0x80, 0x7f, 0x01, 0x00}).Draw(rt, "lead")
		fill := rapid.SampledFrom([]byte{0xff, 0x00, 0x80}).Draw(rt, "fill")
		b := bytes.Repeat([]byte{fill}, n)
		b[0] = lead
		v := new(big.Int).SetBytes(b)
		if rapid.Bool().Draw(rt, "neg") {
			v.Neg(v)
		}
		return v, "pattern"
	}
}

// c24F is satisfied by *testing.T and *rapid.T.
type c24F interface {
	Fatalf(format string, args ...interface{})
}

var c24Two64 = new(big.Int).Lsh(big.NewInt(1), 64)
var c24Two63 = new(big.Int).Lsh(big.NewInt(1), 63)

func c24JSONRoundTrip(rt c24F, what string, in interface{}, out interface{}) {
	b, err := json.Marshal(in)
	if err != nil {
		rt.Fatalf("C24 violated: %s: MarshalJSON(%v) failed: %v", what, in, err)
	}
	if err := json.Unmarshal(b, out); err != nil {
		rt.Fatalf("C24 violated: %s: UnmarshalJSON(%s) failed: %v", what, b, err)
	}
}

func c24CheckBig(rt c24F, v *big.Int) {
	want := c24RefSigned(v)
	in := new(big.Int).Set(v)
	got := intconv.BigIntToBytes(in)
	if in.Cmp(v) != 0 {
		rt.Fatalf("C24 violated: BigIntToBytes modified its argument %v -> %v", v, in)
	}
	if !bytes.Equal(got, want) {
		rt.Fatalf("C24 violated: BigIntToBytes(%v)=%x, minimal two's complement is %x", v, got, want)
	}
	// decode into a receiver that holds garbage of the other sign
	back := big.NewInt(-12345)
	intconv.BigIntSetBytes(back, got)
	if back.Cmp(v) != 0 {
		rt.Fatalf("C24 violated: BigIntSetBytes(BigIntToBytes(%v)=%x)=%v", v, got, back)
	}
	// text
	s := intconv.FormatBigInt(v)
	var p big.Int
	p.SetInt64(777)
	if err := intconv.ParseBigInt(&p, s); err != nil {
		rt.Fatalf("C24 violated: ParseBigInt(FormatBigInt(%v)=%q) error %v", v, s, err)
	}
	if p.Cmp(v) != 0 {
		rt.Fatalf("C24 violated: ParseBigInt(FormatBigInt(%v)=%q)=%v", v, s, &p)
	}
	if q, ok := new(big.Int).SetString(s, 0); !ok || q.Cmp(v) != 0 {
		rt.Fatalf("C24 violated: FormatBigInt(%v)=%q is read by math/big as %v (ok=%v)", v, s, q, ok)
	}
	// HexInt: bytes, binary and JSON forms
	var h common.HexInt
	h.Set(v)
	if hb := h.Bytes(); !bytes.Equal(hb, want) {
		rt.Fatalf("C24 violated: HexInt(%v).Bytes()=%x, minimal two's complement is %x", v, hb, want)
	}
	var h2 common.HexInt
	h2.SetInt64(-9)
	h2.SetBytes(want)
	if h2.Cmp(v) != 0 {
		rt.Fatalf("C24 violated: HexInt.SetBytes(%x)=%v want %v", want, &h2.Int, v)
	}
	var h3 common.HexInt
	h3.SetInt64(5)
	c24JSONRoundTrip(rt, "HexInt", &h, &h3)
	if h3.Cmp(v) != 0 {
		rt.Fatalf("C24 violated: HexInt JSON round trip of %v gives %v", v, &h3.Int)
	}
	// by value marshalling (MarshalJSON has a value receiver)
	var h4 common.HexInt
	c24JSONRoundTrip(rt, "HexInt(value)", h, &h4)
	if h4.Cmp(v) != 0 {
		rt.Fatalf("C24 violated: HexInt(value) JSON round trip of %v gives %v", v, &h4.Int)
	}
}

func c24CheckInt64(rt c24F, v int64) {
	bv := big.NewInt(v)
	want := c24RefSigned(bv)
	got := intconv.Int64ToBytes(v)
	if !bytes.Equal(got, want) {
		rt.Fatalf("C24 violated: Int64ToBytes(%d)=%x, minimal two's complement is %x", v, got, want)
	}
	if r, ok := intconv.SafeBytesToInt64(got); !ok || r != v {
		rt.Fatalf("C24 violated: SafeBytesToInt64(Int64ToBytes(%d)=%x)=(%d,%v)", v, got, r, ok)
	}
	if r := intconv.BytesToInt64(got); r != v {
		rt.Fatalf("C24 violated: BytesToInt64(Int64ToBytes(%d)=%x)=%d", v, got, r)
	}
	s := intconv.FormatInt(v)
	if r, err := intconv.ParseInt(s, 64); err != nil || r != v {
		rt.Fatalf("C24 violated: ParseInt(FormatInt(%d)=%q,64)=(%d,%v)", v, s, r, err)
	}
	if q, ok := new(big.Int).SetString(s, 0); !ok || q.Cmp(bv) != 0 {
		rt.Fatalf("C24 violated: FormatInt(%d)=%q is read by math/big as %v (ok=%v)", v, s, q, ok)
	}
	var o64 common.HexInt64
	o64.Value = 99
	c24JSONRoundTrip(rt, "HexInt64", common.HexInt64{Value: v}, &o64)
	if o64.Value != v {
		rt.Fatalf("C24 violated: HexInt64 JSON round trip of %d gives %d", v, o64.Value)
	}
	if int64(int32(v)) == v {
		var o common.HexInt32
		o.Value = 99
		c24JSONRoundTrip(rt, "HexInt32", common.HexInt32{Value: int32(v)}, &o)
		if int64(o.Value) != v {
			rt.Fatalf("C24 violated: HexInt32 JSON round trip of %d gives %d", v, o.Value)
		}
	}
	if int64(int16(v)) == v {
		var o common.HexInt16
		o.Value = 99
		c24JSONRoundTrip(rt, "HexInt16", common.HexInt16{Value: int16(v)}, &o)
		if int64(o.Value) != v {
			rt.Fatalf("C24 violated: HexInt16 JSON round trip of %d gives %d", v, o.Value)
		}
		if b := (common.HexInt16{Value: int16(v)}).Bytes(); !bytes.Equal(b, want) {
			rt.Fatalf("C24 violated: HexInt16(%d).Bytes()=%x, minimal two's complement is %x", v, b, want)
		}
	}
}

func c24CheckUint64(rt c24F, v uint64) {
	bv := new(big.Int).SetUint64(v)
	want := c24RefSigned(bv) // the unsigned value in two's-complement form (keeps a 0x00 when the top bit is set)
	got := intconv.Uint64ToBytes(v)
	if !bytes.Equal(got, want) {
		rt.Fatalf("C24 violated: Uint64ToBytes(%d)=%x, minimal two's complement is %x", v, got, want)
	}
	if r, ok := intconv.SafeBytesToUint64(got); !ok || r != v {
		rt.Fatalf("C24 violated: SafeBytesToUint64(Uint64ToBytes(%d)=%x)=(%d,%v)", v, got, r, ok)
	}
	if r := intconv.BytesToUint64(got); r != v {
		rt.Fatalf("C24 violated: BytesToUint64(Uint64ToBytes(%d)=%x)=%d", v, got, r)
	}
	// plain unsigned ("size") form
	wantU := c24RefUnsigned(bv)
	gotU := intconv.SizeToBytes(v)
	if !bytes.Equal(gotU, wantU) {
		rt.Fatalf("C24 violated: SizeToBytes(%d)=%x, minimal unsigned is %x", v, gotU, wantU)
	}
	if r, ok := intconv.SafeBytesToSize64(gotU); !ok || r != v {
		rt.Fatalf("C24 violated: SafeBytesToSize64(SizeToBytes(%d)=%x)=(%d,%v)", v, gotU, r, ok)
	}
	if v <= uint64(^uint(0)>>1) {
		if r, ok := intconv.SafeBytesToSize(gotU); !ok || uint64(r) != v {
			rt.Fatalf("C24 violated: SafeBytesToSize(SizeToBytes(%d)=%x)=(%d,%v)", v, gotU, r, ok)
		}
	}
	s := intconv.FormatUint(v)
	if r, err := intconv.ParseUint(s, 64); err != nil || r != v {
		rt.Fatalf("C24 violated: ParseUint(FormatUint(%d)=%q,64)=(%d,%v)", v, s, r, err)
	}
	if q, ok := new(big.Int).SetString(s, 0); !ok || q.Cmp(bv) != 0 {
		rt.Fatalf("C24 violated: FormatUint(%d)=%q is read by math/big as %v (ok=%v)", v, s, q, ok)
	}
	var o64 common.HexUint64
	o64.Value = 99
	c24JSONRoundTrip(rt, "HexUint64", common.HexUint64{Value: v}, &o64)
	if o64.Value != v {
		rt.Fatalf("C24 violated: HexUint64 JSON round trip of %d gives %d", v, o64.Value)
	}
	if uint64(uint32(v)) == v {
		var o common.HexUint32
		o.Value = 99
		c24JSONRoundTrip(rt, "HexUint32", common.HexUint32{Value: uint32(v)}, &o)
		if uint64(o.Value) != v {
			rt.Fatalf("C24 violated: HexUint32 JSON round trip of %d gives %d", v, o.Value)
		}
	}
	if uint64(uint16(v)) == v {
		var o common.HexUint16
		o.Value = 99
		c24JSONRoundTrip(rt, "HexUint16", common.HexUint16{Value: uint16(v)}, &o)
		if uint64(o.Value) != v {
			rt.Fatalf("C24 violated: HexUint16 JSON round trip of %d gives %d", v, o.Value)
		}
		if b := (common.HexUint16{Value: uint16(v)}).Bytes(); !bytes.Equal(b, want) {
			rt.Fatalf("C24 violated: HexUint16(%d).Bytes()=%x, minimal two's complement is %x", v, b, want)
		}
	}
}

func c24Case(rt c24F, rec *ev.Rec, v *big.Int, shape string) {
	labels := []string{"shape:" + shape}
	if v.Sign() < 0 {
		labels = append(labels, "negative")
	} else if v.Sign() > 0 {
		labels = append(labels, "positive")
	} else {
		labels = append(labels, "zero")
	}
	fitsI := v.Cmp(new(big.Int).Neg(c24Two63)) >= 0 && v.Cmp(c24Two63) < 0
	fitsU := v.Sign() >= 0 && v.Cmp(c24Two64) < 0
	if fitsI {
		labels = append(labels, "int64")
	}
	if fitsU {
		labels = append(labels, "uint64")
	}
	if !fitsI && !fitsU {
		labels = append(labels, fmt.Sprintf("big:%dbits", (v.BitLen()+127)/128*128))
	}
	nt := c24Boundary(v)
	if nt {
		labels = append(labels, "boundary")
	}
	rec.Case("v="+v.String(), nt, labels...)
	c24CheckBig(rt, v)
	if fitsI {
		c24CheckInt64(rt, v.Int64())
	}
	if fitsU {
		c24CheckUint64(rt, v.Uint64())
	}
	c24CheckCodec(rt, v, fitsI, fitsU)
}

// c24RLPString is the RLP rendering of a byte string (independent of goloop's writer).
func c24RLPString(b []byte) []byte {
	switch {
	case len(b) == 1 && b[0] < 0x80:
		return []byte{b[0]}
	case len(b) < 56:
		return append([]byte{0x80 + byte(len(b))}, b...)
	default:
		l := c24RefUnsigned(big.NewInt(int64(len(b))))
		return append(append([]byte{0xb7 + byte(len(l))}, l...), b...)
	}
}

// c24CheckCodec: the Hex* number types as they travel in blocks, transactions and the state (self-encoding through
// goloop's RLP and MsgPack codecs): the RLP payload is the minimal two's-complement byte string and both codecs
// give the number back into a receiver that held something else.
func c24CheckCodec(rt c24F, v *big.Int, fitsI, fitsU bool) {
	want := c24RLPString(c24RefSigned(v))
	type pair struct {
		name    string
		in, out interface{}
		get     func() *big.Int
	}
	build := func() []pair {
		var ps []pair
		{
			var in, out common.HexInt
			in.Set(v)
			out.SetInt64(-77)
			ps = append(ps, pair{"HexInt", &in, &out, func() *big.Int { return &out.Int }})
		}
		if fitsI {
			i := v.Int64()
			o64 := &common.HexInt64{Value: 99}
			ps = append(ps, pair{"HexInt64", &common.HexInt64{Value: i}, o64, func() *big.Int { return big.NewInt(o64.Value) }})
			if int64(int32(i)) == i {
				o := &common.HexInt32{Value: 99}
				ps = append(ps, pair{"HexInt32", &common.HexInt32{Value: int32(i)}, o, func() *big.Int { return big.NewInt(int64(o.Value)) }})
			}
			if int64(int16(i)) == i {
				o := &common.HexInt16{Value: 99}
				ps = append(ps, pair{"HexInt16", &common.HexInt16{Value: int16(i)}, o, func() *big.Int { return big.NewInt(int64(o.Value)) }})
			}
		}
		if fitsU {
			u := v.Uint64()
			o64 := &common.HexUint64{Value: 99}
			ps = append(ps, pair{"HexUint64", &common.HexUint64{Value: u}, o64, func() *big.Int { return new(big.Int).SetUint64(o64.Value) }})
			if uint64(uint32(u)) == u {
				o := &common.HexUint32{Value: 99}
				ps = append(ps, pair{"HexUint32", &common.HexUint32{Value: uint32(u)}, o, func() *big.Int { return big.NewInt(int64(o.Value)) }})
			}
			if uint64(uint16(u)) == u {
				o := &common.HexUint16{Value: 99}
				ps = append(ps, pair{"HexUint16", &common.HexUint16{Value: uint16(u)}, o, func() *big.Int { return big.NewInt(int64(o.Value)) }})
			}
		}
		return ps
	}
	for _, p := range build() {
		bs, err := codec.BC.MarshalToBytes(p.in)
		if err != nil {
			rt.Fatalf("C24 violated: RLP encoding of %s(%v) failed: %v", p.name, v, err)
		}
		if !bytes.Equal(bs, want) {
			rt.Fatalf("C24 violated: RLP encoding of %s(%v) is %x, the minimal two's-complement string in RLP is %x", p.name, v, bs, want)
		}
		if rest, err := codec.BC.UnmarshalFromBytes(bs, p.out); err != nil || len(rest) != 0 {
			rt.Fatalf("C24 violated: RLP decoding of %s(%v)=%x failed: %v (rest %x)", p.name, v, bs, err, rest)
		}
		if got := p.get(); got.Cmp(v) != 0 {
			rt.Fatalf("C24 violated: %s(%v) reads back from RLP %x as %v", p.name, v, bs, got)
		}
	}
	for _, p := range build() {
		ms, err := codec.MP.MarshalToBytes(p.in)
		if err != nil {
			rt.Fatalf("C24 violated: MsgPack encoding of %s(%v) failed: %v", p.name, v, err)
		}
		if _, err := codec.MP.UnmarshalFromBytes(ms, p.out); err != nil {
			rt.Fatalf("C24 violated: MsgPack decoding of %s(%v)=%x failed: %v", p.name, v, ms, err)
		}
		if got := p.get(); got.Cmp(v) != 0 {
			rt.Fatalf("C24 violated: %s(%v) reads back from MsgPack %x as %v", p.name, v, ms, got)
		}
	}
}

func TestC24(t *testing.T) {
	rec := ev.New("C24", "integers drawn as +-2^k+d (d in -2..2, k biased to byte and sign-bit boundaries), byte patterns (0xff/0x80/0x7f leads) and random magnitudes, 64-bit and up to 512(quick)/2048(thorough) bits; every case is checked through all encoders/parsers whose range holds it; non-trivial = the minimal byte length of v differs from that of v-1 or v+1 (signed or unsigned form); distinct by value")
	defer rec.Flush(t)
	maxBits := ev.Pick(512, 2048)

	t.Run("fixed", func(t *testing.T) {
		// the explicit bias list of the design, always executed
		var vs []*big.Int
		for _, s := range []string{"0", "1", "-1", "127", "-127", "128", "-128", "129", "-129", "255", "-255", "256", "-256", "257", "-257",
			"32767", "32768", "-32768", "-32769", "65535", "65536",
			"2147483647", "2147483648", "-2147483648", "-2147483649", "4294967295", "4294967296",
			"9223372036854775807", "-9223372036854775808", "9223372036854775808", "-9223372036854775809",
			"18446744073709551615", "18446744073709551616", "-18446744073709551615", "-18446744073709551616"} {
			v, _ := new(big.Int).SetString(s, 10)
			vs = append(vs, v)
		}
		for _, v := range vs {
			c24Case(t, rec, v, "fixed")
		}
	})
	t.Run("bits64", func(t *testing.T) {
		ev.Check(t, 10000, 60000, func(rt *rapid.T) {
			v, shape := c24DrawBig(rt, 66)
			c24Case(rt, rec, v, shape)
		})
	})
	t.Run("big", func(t *testing.T) {
		ev.Check(t, 10000, 60000, func(rt *rapid.T) {
			v, shape := c24DrawBig(rt, maxBits)
			c24Case(rt, rec, v, shape)
		})
	})
	t.Run("nilBig", func(t *testing.T) {
		// a nil *big.Int is treated as zero by the encoder (callers pass optional values)
		if got := intconv.BigIntToBytes(nil); !bytes.Equal(got, []byte{0}) {
			t.Fatalf("C24 violated: BigIntToBytes(nil)=%x want 00", got)
		}
		rec.Case("v=<nil>", false, "nil")
	})
}
