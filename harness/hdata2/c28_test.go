package hdata2

import (
	"bytes"
	"encoding/binary"
	"fmt"
	"sort"
	"testing"

	"github.com/icon-project/goloop/common/db"
	"github.com/icon-project/goloop/icon/icdb"
	"github.com/icon-project/goloop/icon/merkle/hexary"
	"golang.org/x/crypto/sha3"
	"pgregory.net/rapid"

	"verifharness/internal/ev"
)

// C28: for any sequence of block hashes the accumulator's merkle header is determined by the
// sequence alone; every added hash has a proof the merkle tree accepts against that header while
// altered proofs or hashes are rejected; rewinding to any shorter length yields exactly the header
// of accumulating only that prefix.
//
// Oracles
//  * determinism: a second accumulator on its own database, fed the same sequence with a different
//    call pattern (Finalize / GetMerkleHeader / re-open from the persisted state at drawn points)
//    has the same header; and the header equals the harness reference: the 16-ary tree of fixed
//    depth L = min{L : 16^L >= n} whose inner node is the concatenation of its (1..16) children and
//    whose hash is SHA3-256 of it (n=1: the root is the leaf; n=0: empty header).
//  * proofs: for every (small n) or sampled (large n) key, Prove(k,0) is (independently) a hash
//    chain from the header root to the k-th hash; a verifier tree that knows only the header
//    accepts it (MerkleTree.Add); a verifier fed keys in order accepts the incremental proofs
//    Prove(k,-1); one altered input (flipped byte, wrong hash, proof of a key of another leaf
//    group, dropped / added element, resized node) makes a fresh verifier return an error.
//  * rewind: a drawn walk of SetLen(l) / re-Add (same items or a fork with different items) /
//    Finalize steps; after each step the header equals the header recorded when a fresh
//    accumulator had exactly that prefix (resp. the reference root for forked prefixes), and the
//    rewound accumulator still proves its items.
// Not decided: SetLen with l > Len, keys outside [0,n), persistence of SetLen(0).

func c28Leaf(salt uint32, i int) []byte {
	var b [12]byte
	binary.BigEndian.PutUint32(b[:4], salt)
	binary.BigEndian.PutUint64(b[4:], uint64(i))
	h := sha3.Sum256(b[:])
	return h[:]
}

func c28Level(n int) int {
	L := 0
	for p := 1; p < n; p *= 16 {
		L++
	}
	return L
}

// c28RefRoot computes the reference root of the leaves.
func c28RefRoot(leaves [][]byte) []byte {
	if len(leaves) == 0 {
		return nil
	}
	cur := leaves
	for l := c28Level(len(leaves)); l > 0; l-- {
		var next [][]byte
		for i := 0; i < len(cur); i += 16 {
			e := i + 16
			if e > len(cur) {
				e = len(cur)
			}
			h := sha3.Sum256(bytes.Join(cur[i:e], nil))
			next = append(next, h[:])
		}
		cur = next
	}
	if len(cur) != 1 {
		panic("c28RefRoot: harness bug")
	}
	return cur[0]
}

// c28ChainOK verifies a full proof independently: proof[0] hashes to root, each next element
// hashes to the child selected by the key digit, the last one holds hash at digit 0.
func c28ChainOK(root []byte, n int, key int, hash []byte, proof [][]byte) string {
	L := c28Level(n)
	if len(proof) != L {
		return fmt.Sprintf("full proof has %d elements, tree depth is %d", len(proof), L)
	}
	want := root
	for i := 0; i < L; i++ {
		nb := proof[i]
		if len(nb)%32 != 0 || len(nb) == 0 || len(nb) > 512 {
			return fmt.Sprintf("proof[%d] has %d bytes", i, len(nb))
		}
		h := sha3.Sum256(nb)
		if !bytes.Equal(h[:], want) {
			return fmt.Sprintf("proof[%d] hashes to %x, expected %x", i, h[:8], want[:8])
		}
		d := (key >> uint(4*(L-1-i))) & 0xf
		if (d+1)*32 > len(nb) {
			return fmt.Sprintf("proof[%d] has %d children, digit is %d", i, len(nb)/32, d)
		}
		want = nb[d*32 : (d+1)*32]
	}
	if !bytes.Equal(want, hash) {
		return fmt.Sprintf("chain ends at %x, item hash is %x", want[:8], hash[:8])
	}
	return ""
}

type c28Env struct {
	tree, accb db.Bucket
}

func c28NewEnv() c28Env {
	d := db.NewMapDB()
	t, err := d.GetBucket(icdb.BlockMerkle)
	if err != nil {
		ev.Inconclusive("C28: GetBucket: %v", err)
	}
	a, err := d.GetBucket("i")
	if err != nil {
		ev.Inconclusive("C28: GetBucket: %v", err)
	}
	return c28Env{t, a}
}

func (e c28Env) open() hexary.Accumulator {
	a, err := hexary.NewAccumulator(e.tree, e.accb, "")
	if err != nil {
		panic(fmt.Sprintf("NewAccumulator: %v", err))
	}
	return a
}

func c28FreshVerifier(hd *hexary.MerkleHeader) hexary.MerkleTree {
	bk, _ := db.NewMapDB().GetBucket("")
	mt, err := hexary.NewMerkleTree(bk, hd, -1)
	if err != nil {
		panic(fmt.Sprintf("NewMerkleTree(%v): %v", hd, err))
	}
	return mt
}

func c28Clone(p [][]byte) [][]byte {
	out := make([][]byte, len(p))
	for i := range p {
		out[i] = append([]byte{}, p[i]...)
	}
	return out
}

func c28HdrEq(a, b *hexary.MerkleHeader) bool {
	return a.Leaves == b.Leaves && bytes.Equal(a.RootHash, b.RootHash)
}

// c28Keys selects the keys to prove: all for small n, boundaries + drawn ones otherwise.
func c28Keys(rt *rapid.T, n, all int) []int {
	if n <= all {
		ks := make([]int, n)
		for i := range ks {
			ks[i] = i
		}
		return ks
	}
	set := map[int]bool{0: true, n - 1: true}
	for _, p := range []int{16, 256, 4096, 65536} {
		for _, d := range []int{-1, 0, 1} {
			if k := p + d; k >= 0 && k < n {
				set[k] = true
			}
			if k := (n-1)/p*p + d; k >= 0 && k < n {
				set[k] = true
			}
		}
	}
	for i := 0; i < 24; i++ {
		set[rapid.IntRange(0, n-1).Draw(rt, "key")] = true
	}
	var ks []int
	for k := range set {
		ks = append(ks, k)
	}
	sort.Ints(ks)
	return ks
}

// c28Alter applies one drawn alteration and returns the altered (key hash, proof) and its name.
// ok=false when the alteration does not apply to this tree shape.
func c28Alter(rt *rapid.T, leaves [][]byte, k int, proof [][]byte, prover hexary.MerkleTree) (hash []byte, out [][]byte, name string, ok bool) {
	n := len(leaves)
	hash = leaves[k]
	out = c28Clone(proof)
	name = rapid.SampledFrom([]string{"flipByte", "wrongHash", "otherKeyProof", "dropFirst", "dropLast", "prependJunk", "prependCopy", "appendJunk", "truncateNode", "extendNode", "oddNode"}).Draw(rt, "alteration")
	switch name {
	case "flipByte":
		if len(out) == 0 {
			return nil, nil, name, false
		}
		j := rapid.IntRange(0, len(out)-1).Draw(rt, "elem")
		p := rapid.IntRange(0, len(out[j])-1).Draw(rt, "pos")
		out[j][p] ^= byte(1 << uint(rapid.IntRange(0, 7).Draw(rt, "bit")))
	case "wrongHash":
		if n < 2 {
			// a hash that was never added
			hash = c28Leaf(0xdeadbeef, k)
		} else {
			o := rapid.IntRange(0, n-2).Draw(rt, "other")
			if o >= k {
				o++
			}
			hash = leaves[o]
		}
	case "otherKeyProof":
		if n <= 16 {
			return nil, nil, name, false
		}
		// a key of another leaf group
		groups := (n + 15) / 16
		g := rapid.IntRange(0, groups-2).Draw(rt, "group")
		if g >= k/16 {
			g++
		}
		o := g * 16
		p, err := prover.Prove(int64(o), 0)
		if err != nil {
			rt.Fatalf("C28 violated: Prove(%d,0) error %v (n=%d)", o, err, n)
		}
		out = c28Clone(p)
	case "dropFirst":
		if len(out) == 0 {
			return nil, nil, name, false
		}
		out = out[1:]
	case "dropLast":
		if len(out) == 0 {
			return nil, nil, name, false
		}
		out = out[:len(out)-1]
	case "prependJunk":
		out = append([][]byte{c28Leaf(0xabad1dea, k)}, out...)
	case "prependCopy":
		if len(out) == 0 {
			return nil, nil, name, false
		}
		out = append([][]byte{append([]byte{}, out[0]...)}, out...)
	case "appendJunk":
		out = append(out, c28Leaf(0xabad1dea, k))
	case "truncateNode":
		if len(out) == 0 {
			return nil, nil, name, false
		}
		j := rapid.IntRange(0, len(out)-1).Draw(rt, "elem")
		out[j] = out[j][:len(out[j])-32]
	case "extendNode":
		var cand []int
		for j := range out {
			if len(out[j]) < 512 {
				cand = append(cand, j)
			}
		}
		if len(cand) == 0 {
			return nil, nil, name, false
		}
		j := rapid.SampledFrom(cand).Draw(rt, "elem")
		out[j] = append(out[j], c28Leaf(0x0badf00d, k)...)
	case "oddNode":
		if len(out) == 0 {
			return nil, nil, name, false
		}
		j := rapid.IntRange(0, len(out)-1).Draw(rt, "elem")
		out[j] = append(out[j], 0x00)
	}
	return hash, out, name, true
}

// c28CheckProofs checks provability of `leaves` held by accumulator acc (tree nodes in env).
func c28CheckProofs(rt *rapid.T, rec *ev.Rec, env c28Env, acc hexary.Accumulator, leaves [][]byte, allBelow int, alterations int, phase string) {
	n := len(leaves)
	if n == 0 {
		return
	}
	hd, err := acc.Finalize()
	if err != nil {
		rt.Fatalf("C28 violated: %s: Finalize error %v (n=%d)", phase, err, n)
	}
	if g := acc.GetMerkleHeader(); !c28HdrEq(g, hd) {
		rt.Fatalf("C28 violated: %s: header after Finalize %v differs from Finalize result %v", phase, g, hd)
	}
	prover, err := hexary.NewMerkleTree(env.tree, hd, -1)
	if err != nil {
		rt.Fatalf("C28 violated: %s: NewMerkleTree(%v) error %v", phase, hd, err)
	}
	keys := c28Keys(rt, n, allBelow)
	for _, k := range keys {
		full, err := prover.Prove(int64(k), 0)
		if err != nil {
			rt.Fatalf("C28 violated: %s: n=%d Prove(%d,0) error %v", phase, n, k, err)
		}
		if m := c28ChainOK(hd.RootHash, n, k, leaves[k], full); m != "" {
			rt.Fatalf("C28 violated: %s: n=%d proof of key %d is not a hash chain to the header: %s", phase, n, k, m)
		}
		if err := c28FreshVerifier(hd).Add(int64(k), leaves[k], c28Clone(full)); err != nil {
			rt.Fatalf("C28 violated: %s: n=%d verifier rejects the proof of key %d: %v", phase, n, k, err)
		}
		rec.Label("proofAccepted")
	}
	// incremental proofs in key order over a window (how fast sync feeds the tree)
	if n > 0 {
		w0 := 0
		if n > allBelow {
			w0 = rapid.IntRange(0, n-1).Draw(rt, "windowStart")
		}
		w1 := w0 + allBelow
		if w1 > n {
			w1 = n
		}
		v := c28FreshVerifier(hd)
		for k := w0; k < w1; k++ {
			from := -1
			if k == w0 {
				from = 0
			}
			p, err := prover.Prove(int64(k), from)
			if err != nil {
				rt.Fatalf("C28 violated: %s: n=%d Prove(%d,%d) error %v", phase, n, k, from, err)
			}
			if err := v.Add(int64(k), leaves[k], c28Clone(p)); err != nil {
				rt.Fatalf("C28 violated: %s: n=%d in-order verifier (from key %d) rejects incremental proof of key %d (%d elements): %v", phase, n, w0, k, len(p), err)
			}
		}
		// the verifier has become a prover for that window
		for _, k := range []int{w0, w1 - 1} {
			p, err := v.Prove(int64(k), 0)
			if err != nil {
				rt.Fatalf("C28 violated: %s: n=%d rebuilt tree cannot prove key %d: %v", phase, n, k, err)
			}
			if m := c28ChainOK(hd.RootHash, n, k, leaves[k], p); m != "" {
				rt.Fatalf("C28 violated: %s: n=%d rebuilt tree's proof of key %d is wrong: %s", phase, n, k, m)
			}
		}
		rec.LabelN("incrementalAccepted", w1-w0)
	}
	// altered inputs must be rejected (error), never accepted, never crash
	for a := 0; a < alterations; a++ {
		k := keys[rapid.IntRange(0, len(keys)-1).Draw(rt, "alterKey")]
		full, err := prover.Prove(int64(k), 0)
		if err != nil {
			rt.Fatalf("C28 violated: %s: n=%d Prove(%d,0) error %v", phase, n, k, err)
		}
		hash, altered, name, ok := c28Alter(rt, leaves, k, full, prover)
		if !ok {
			rec.Label("alter:" + name + ":n/a")
			continue
		}
		rec.Label("alter:" + name)
		if err := c28FreshVerifier(hd).Add(int64(k), hash, altered); err == nil {
			rt.Fatalf("C28 violated: %s: n=%d verifier ACCEPTS key %d with alteration %q (proof of %d elements)", phase, n, k, name, len(altered))
		}
		// the same altered input presented to a verifier that already holds the nodes on this key's path
		// (it accepted the genuine proof before, as a syncing node that receives the data twice does).
		// Only alterations that keep the proof length are decided here: a shortened full proof is a
		// legitimate delta proof for a tree that has the omitted nodes.
		switch name {
		case "flipByte", "wrongHash", "otherKeyProof", "truncateNode", "extendNode", "oddNode":
			warm := c28FreshVerifier(hd)
			if rapid.Bool().Draw(rt, "warmBySameKey") {
				if err := warm.Add(int64(k), leaves[k], c28Clone(full)); err != nil {
					rt.Fatalf("C28 violated: %s: n=%d verifier rejects the proof of key %d: %v", phase, n, k, err)
				}
			} else {
				// warmed by a neighbour: shares the upper nodes of the path only
				o := k ^ 1
				if o >= n {
					o = k
				}
				po, err := prover.Prove(int64(o), 0)
				if err != nil {
					rt.Fatalf("C28 violated: %s: n=%d Prove(%d,0) error %v", phase, n, o, err)
				}
				if err := warm.Add(int64(o), leaves[o], c28Clone(po)); err != nil {
					rt.Fatalf("C28 violated: %s: n=%d verifier rejects the proof of key %d: %v", phase, n, o, err)
				}
			}
			rec.Label("alter:warmVerifier")
			if err := warm.Add(int64(k), hash, c28Clone(altered)); err == nil {
				rt.Fatalf("C28 violated: %s: n=%d a verifier that already holds this path ACCEPTS key %d with alteration %q (proof of %d elements)", phase, n, k, name, len(altered))
			}
		}
	}
}

func c28AcrossPow16(from, to int) bool {
	for p := 16; p <= from; p *= 16 {
		if to < p {
			return true
		}
	}
	return false
}

var c28Bias = []int{0, 1, 2, 15, 16, 17, 31, 32, 33, 255, 256, 257, 271, 272, 273, 4095, 4096, 4097, 4111, 4112, 4113, 4351, 4352, 4353}

func c28Len(rt *rapid.T, label string, max int) int {
	if rapid.IntRange(0, 2).Draw(rt, label+".b") != 0 {
		var c []int
		for _, l := range c28Bias {
			if l <= max {
				c = append(c, l)
			}
		}
		return rapid.SampledFrom(c).Draw(rt, label)
	}
	return rapid.IntRange(0, max).Draw(rt, label)
}

func TestC28(t *testing.T) {
	rec := ev.New("C28", "a sequence of n distinct 32-byte hashes (n <= 5000 quick / 70000 thorough, biased to 16^k and 16^k+-1 and to x*16^k boundaries) is accumulated twice with different Finalize/GetMerkleHeader/re-open patterns; proofs of all (small n) or boundary+drawn keys are checked independently and by verifier trees, with drawn alterations; then a drawn walk of SetLen / continue / fork / Finalize steps is compared with the recorded per-prefix headers and the reference root; non-trivial = some rewind crosses a power of 16 (l < 16^k <= current length); distinct by (n, salt, patterns, walk)")
	defer rec.Flush(t)
	maxN := ev.Pick(5000, 70000)
	allBelow := ev.Pick(300, 600)

	t.Run("walk", func(t *testing.T) {
		ev.Check(t, 300, 300, func(rt *rapid.T) {
			n := c28Len(rt, "n", maxN)
			salt := rapid.Uint32().Draw(rt, "salt")
			leaves := make([][]byte, n)
			for i := range leaves {
				leaves[i] = c28Leaf(salt, i)
			}
			// interleaving pattern of the second accumulator
			nOps := rapid.IntRange(0, 6).Draw(rt, "nPatternOps")
			pat := map[int]string{}
			var patDesc []string
			for i := 0; i < nOps && n > 0; i++ {
				at := c28Len(rt, "patAt", n)
				op := rapid.SampledFrom([]string{"finalize", "header", "reopen"}).Draw(rt, "patOp")
				pat[at] = op
			}
			var patKeys []int
			for k := range pat {
				patKeys = append(patKeys, k)
			}
			sort.Ints(patKeys)
			for _, k := range patKeys {
				patDesc = append(patDesc, fmt.Sprintf("%d:%s", k, pat[k]))
			}
			// the walk
			type step struct {
				op   string
				l    int
				salt uint32
			}
			nSteps := rapid.IntRange(1, 6).Draw(rt, "nSteps")
			var steps []step
			cur := n
			crosses := false
			for i := 0; i < nSteps; i++ {
				op := rapid.SampledFrom([]string{"rewind", "rewind", "continue", "fork", "finalize"}).Draw(rt, "stepOp")
				switch op {
				case "rewind":
					l := c28Len(rt, "rewindTo", cur)
					if c28AcrossPow16(cur, l) && l > 0 {
						crosses = true
					}
					steps = append(steps, step{op, l, 0})
					cur = l
				case "continue", "fork":
					add := c28Len(rt, "grow", 600)
					if op == "continue" && cur+add > n {
						// beyond the original sequence only new items exist
						op = "fork"
					}
					steps = append(steps, step{op, cur + add, rapid.Uint32().Draw(rt, "forkSalt")})
					cur += add
				default:
					steps = append(steps, step{op, cur, 0})
				}
			}
			desc := fmt.Sprintf("n=%d salt=%08x pattern=%v walk=%v", n, salt, patDesc, steps)
			labels := []string{fmt.Sprintf("depth:%d", c28Level(n))}
			if crosses {
				labels = append(labels, "rewindAcrossPow16")
			}
			rec.Case(desc, crosses, labels...)

			// accumulator A: plain adds, header recorded for every prefix
			envA := c28NewEnv()
			A := envA.open()
			hdr := make([]*hexary.MerkleHeader, n+1)
			hdr[0] = A.GetMerkleHeader()
			if hdr[0].Leaves != 0 || len(hdr[0].RootHash) != 0 {
				rt.Fatalf("C28 violated: empty accumulator has header %v", hdr[0])
			}
			for i, h := range leaves {
				if err := A.Add(append([]byte{}, h...)); err != nil {
					rt.Fatalf("C28 violated: Add #%d error %v", i, err)
				}
				hdr[i+1] = A.GetMerkleHeader()
				if A.Len() != int64(i+1) || hdr[i+1].Leaves != int64(i+1) {
					rt.Fatalf("C28 violated: after %d adds Len()=%d header.Leaves=%d", i+1, A.Len(), hdr[i+1].Leaves)
				}
			}
			// reference root at the final length and at drawn prefixes
			refAt := []int{n}
			for i := 0; i < 3 && n > 0; i++ {
				refAt = append(refAt, c28Len(rt, "refAt", n))
			}
			for _, l := range refAt {
				if want := c28RefRoot(leaves[:l]); !bytes.Equal(hdr[l].RootHash, want) {
					rt.Fatalf("C28 violated: header root after %d adds is %x, reference 16-ary tree root is %x (salt=%08x)", l, hdr[l].RootHash, want, salt)
				}
			}
			// A header handed out for a prefix is a value: whoever holds it (a block header, a verifier tree) must
			// find it unchanged however the accumulator grows afterwards. Private copies of the roots are taken now.
			type c28Held struct {
				at   int
				how  string
				h    *hexary.MerkleHeader
				root []byte
			}
			var held []c28Held
			hold := func(at int, how string, h *hexary.MerkleHeader) {
				if len(held) < 64 || at <= 256 || at == n {
					held = append(held, c28Held{at, how, h, append([]byte{}, h.RootHash...)})
				}
			}
			checkHeld := func(when string) {
				for _, x := range held {
					if x.h.Leaves != int64(x.at) || !bytes.Equal(x.h.RootHash, x.root) {
						rt.Fatalf("C28 violated: the header obtained by %s at length %d was {leaves %d root %x}; %s it reads {leaves %d root %x} (n=%d salt=%08x pattern %v)",
							x.how, x.at, x.at, x.root, when, x.h.Leaves, x.h.RootHash, n, salt, patDesc)
					}
				}
			}
			for i, h := range hdr {
				if i <= 272 || i == n || i%4096 == 0 {
					hold(i, "GetMerkleHeader of the first accumulator", h)
				}
			}
			checkHeld("after the first accumulator has grown to its full length")
			// accumulator B: same sequence, other database, other call pattern
			envB := c28NewEnv()
			B := envB.open()
			for i := 0; i <= n; i++ {
				switch pat[i] {
				case "finalize":
					h, err := B.Finalize()
					if err != nil || !c28HdrEq(h, hdr[i]) {
						rt.Fatalf("C28 violated: second accumulator Finalize at %d gives %v err=%v, first had %v", i, h, err, hdr[i])
					}
					hold(i, "Finalize of the second accumulator", h)
				case "header":
					if h := B.GetMerkleHeader(); !c28HdrEq(h, hdr[i]) {
						rt.Fatalf("C28 violated: second accumulator header at %d is %v, first had %v", i, h, hdr[i])
					} else {
						hold(i, "GetMerkleHeader of the second accumulator", h)
					}
				case "reopen":
					B = envB.open()
					if h := B.GetMerkleHeader(); !c28HdrEq(h, hdr[i]) {
						rt.Fatalf("C28 violated: re-opened accumulator header at %d is %v, first had %v", i, h, hdr[i])
					}
				}
				if i < n {
					if err := B.Add(append([]byte{}, leaves[i]...)); err != nil {
						rt.Fatalf("C28 violated: Add #%d error %v", i, err)
					}
				}
			}
			if h := B.GetMerkleHeader(); !c28HdrEq(h, hdr[n]) {
				rt.Fatalf("C28 violated: two accumulators of the same %d hashes differ: %v vs %v (pattern %v)", n, h, hdr[n], patDesc)
			}
			checkHeld("after the second accumulator has grown to its full length")

			// proofs against the full-length header
			c28CheckProofs(rt, rec, envA, A, leaves, allBelow, 6, "full length")

			// the walk on A
			seq := append([][]byte{}, leaves...) // current content of A
			forked := false
			for si, s := range steps {
				switch s.op {
				case "rewind":
					if err := A.SetLen(int64(s.l)); err != nil {
						rt.Fatalf("C28 violated: step %d SetLen(%d) from %d error %v", si, s.l, len(seq), err)
					}
					if c28AcrossPow16(len(seq), s.l) {
						rec.Label("rewind:acrossPow16")
					}
					seq = seq[:s.l]
					rec.Label("rewind")
				case "continue":
					for i := len(seq); i < s.l; i++ {
						if err := A.Add(append([]byte{}, leaves[i]...)); err != nil {
							rt.Fatalf("C28 violated: step %d Add #%d after rewind error %v", si, i, err)
						}
						seq = append(seq, leaves[i])
					}
				case "fork":
					for i := len(seq); i < s.l; i++ {
						h := c28Leaf(s.salt^0x5a5a5a5a, i)
						if err := A.Add(append([]byte{}, h...)); err != nil {
							rt.Fatalf("C28 violated: step %d Add #%d (fork) error %v", si, i, err)
						}
						seq = append(seq, h)
						if i >= n || !bytes.Equal(h, leaves[i]) {
							forked = true
						}
					}
				case "finalize":
					if _, err := A.Finalize(); err != nil {
						rt.Fatalf("C28 violated: step %d Finalize error %v", si, err)
					}
				}
				got := A.GetMerkleHeader()
				if A.Len() != int64(len(seq)) || got.Leaves != int64(len(seq)) {
					rt.Fatalf("C28 violated: step %d (%v): Len()=%d header.Leaves=%d want %d", si, s, A.Len(), got.Leaves, len(seq))
				}
				// same prefix of the original sequence: fresh accumulation header recorded in hdr
				same := len(seq) <= n
				if same && forked {
					for i := range seq {
						if !bytes.Equal(seq[i], leaves[i]) {
							same = false
							break
						}
					}
				}
				if same {
					if !c28HdrEq(got, hdr[len(seq)]) {
						rt.Fatalf("C28 violated: step %d (%v of walk %v, n=%d salt=%08x): header %v differs from fresh accumulation of the %d-prefix %v", si, s, steps, n, salt, got, len(seq), hdr[len(seq)])
					}
				}
				if want := c28RefRoot(seq); !bytes.Equal(got.RootHash, want) {
					rt.Fatalf("C28 violated: step %d (%v of walk %v, n=%d salt=%08x): header root %x differs from reference root %x of the current %d items", si, s, steps, n, salt, got.RootHash, want, len(seq))
				}
			}
			// the rewound / regrown accumulator still proves its items
			c28CheckProofs(rt, rec, envA, A, seq, 40, 2, "after walk")
		})
	})

	t.Run("rewindAll", func(t *testing.T) {
		// every rewind point of a few lengths around the powers of 16, each from a fresh copy
		lens := []int{17, 33, 256, 257, 273}
		if ev.Thorough() {
			lens = append(lens, 4096, 4097, 4113)
		}
		for _, n := range lens {
			leaves := make([][]byte, n)
			for i := range leaves {
				leaves[i] = c28Leaf(uint32(n), i)
			}
			env := c28NewEnv()
			A := env.open()
			hdr := make([]*hexary.MerkleHeader, n+1)
			hdr[0] = A.GetMerkleHeader()
			for i := range leaves {
				if err := A.Add(append([]byte{}, leaves[i]...)); err != nil {
					t.Fatalf("C28 violated: Add error %v", err)
				}
				hdr[i+1] = A.GetMerkleHeader()
			}
			step := 1
			if n > 1000 {
				step = 17
			}
			for l := n; l >= 0; l -= step {
				// rewind n -> l directly (not step by step), then grow back to n
				if err := A.SetLen(int64(l)); err != nil {
					t.Fatalf("C28 violated: n=%d SetLen(%d) error %v", n, l, err)
				}
				if g := A.GetMerkleHeader(); !c28HdrEq(g, hdr[l]) {
					t.Fatalf("C28 violated: n=%d SetLen(%d): header %v, fresh accumulation of the prefix gives %v", n, l, g, hdr[l])
				}
				for i := l; i < n; i++ {
					if err := A.Add(append([]byte{}, leaves[i]...)); err != nil {
						t.Fatalf("C28 violated: n=%d re-Add #%d after SetLen(%d) error %v", n, i, l, err)
					}
				}
				if g := A.GetMerkleHeader(); !c28HdrEq(g, hdr[n]) {
					t.Fatalf("C28 violated: n=%d after SetLen(%d) and re-adding: header %v want %v", n, l, g, hdr[n])
				}
				rec.Case(fmt.Sprintf("enumerated n=%d rewindTo=%d", n, l), c28AcrossPow16(n, l) && l > 0, "enumeratedRewind")
			}
		}
	})
}
