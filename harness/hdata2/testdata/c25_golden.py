#!/usr/bin/env python3
# Provenance of the golden values pinned in c25_test.go: a textbook (string-table) LZW encoder,
# MSB-first packing, 8-bit literals, clear=256, eof=257, first free code 258, 9..12 bit codes,
# NO clear code at the start of the stream (the format Go <= 1.16 compress/lzw produced and
# goloop's blocks were hashed with). Written independently of the Go code; run: python3 c25_golden.py
import hashlib

def lzw_msb8_legacy(data: bytes) -> bytes:
    assert len(data) > 0
    codes = []                     # (code, width)
    def fresh():
        return {bytes([i]): i for i in range(256)}
    table = fresh(); nxt = 258; width = 9
    def advance(entry):
        nonlocal table, nxt, width
        if nxt == (1 << width):
            width += 1
        if nxt == 4095:
            codes.append((256, width))
            table = fresh(); nxt = 258; width = 9
        else:
            if entry is not None:
                table[entry] = nxt
            nxt += 1
    w = b''
    for b in data:
        wb = w + bytes([b])
        if wb in table:
            w = wb
            continue
        codes.append((table[w], width))
        advance(wb)
        w = bytes([b])
    codes.append((table[w], width))
    advance(None)
    codes.append((257, width))
    acc = 0; n = 0
    for c, wd in codes:
        acc = (acc << wd) | c; n += wd
    pad = (-n) % 8
    acc <<= pad; n += pad
    return acc.to_bytes(n // 8, 'big')

def prng(tag: bytes, n: int) -> bytes:
    out = b''; i = 0
    while len(out) < n:
        out += hashlib.sha256(tag + b'-' + str(i).encode()).digest(); i += 1
    return out[:n]

def bloom(bits):
    v = 0
    for b in bits: v |= 1 << b
    return v.to_bytes((v.bit_length() + 7) // 8, 'big')

inputs = [
    ("zero256", bytes(256)),
    ("ramp256", bytes(range(256))),
    ("bloom3", bloom([0, 1000, 2047])),
    ("bloomHi", bloom([2047])),
    ("one00", b'\x00'),
    ("oneff", b'\xff'),
    ("abab1000", b'ab' * 500),
    ("prng600", prng(b'c25', 600)),
    ("prng8192", prng(b'c25', 8192)),
    ("prng20000", prng(b'c25', 20000)),
]
for name, data in inputs:
    c = lzw_msb8_legacy(data)
    print('{%r, %d, "%s", %d, "%s"},' % (name, len(data), hashlib.sha256(data).hexdigest(), len(c), hashlib.sha256(c).hexdigest()))
    if len(c) <= 40: print('   //', c.hex())
