package hdata2

import (
	"bytes"
	"crypto/sha256"
	"encoding/binary"
	"encoding/json"
	"fmt"
	"math/big"
	"strings"
	"testing"

	"github.com/icon-project/goloop/common"
	"github.com/icon-project/goloop/common/db"
	"github.com/icon-project/goloop/module"
	"github.com/icon-project/goloop/service/txresult"
	"golang.org/x/crypto/sha3"
	"pgregory.net/rapid"

	"verifharness/internal/ev"
)

// C26: for any set of event logs, the merged bloom of a block or receipt reports as possibly
// present every emitting address and every indexed value at its position, including after
// compression and decompression.
//
// What is executed: logs are added to real receipts (txresult.NewReceipt(...).AddLog, revisions
// giving receipt versions 1, 2 and 3; optionally stored in a receipt list, flushed and read back
// from the hash), receipt blooms are merged into a block bloom in a drawn order (as
// service/transition.go does), and the block bloom is additionally carried through the forms a
// header / a peer sees: CompressedBytes -> NewLogsBloomFromCompressed, Bytes, LogBytes, JSON.
//
// Oracle: for every log and every non-nil indexed value, Contain(query) must be true on the bloom
// of the emitting receipt and on every form of the block bloom, where query is
//   (a) the filter bloom built the way server/wsevent.go builds it (AddAddressOfLog /
//       AddIndexedOfLog; single item and whole-event filters), and
//   (b) a bloom built by the harness alone: the three bit positions
//       BE16(h[0:2]), BE16(h[2:4]), BE16(h[4:6]) mod 2048 of h = SHA3-256(0xff||address) resp.
//       SHA3-256(byte(position)||value), computed with x/crypto/sha3 directly.
// No statement is made about false positives. nil indexed values (null arguments) are skipped by
// the bloom by design and are not queried.

func c26RefBits(item []byte) [3]int {
	h := sha3.Sum256(item)
	var out [3]int
	for i := 0; i < 3; i++ {
		out[i] = int(binary.BigEndian.Uint16(h[2*i:2*i+2])) % 2048
	}
	return out
}

func c26RefAddrItem(a module.Address) []byte {
	return append([]byte{0xff}, a.Bytes()...)
}

func c26RefIdxItem(pos int, v []byte) []byte {
	return append([]byte{byte(pos)}, v...)
}

// c26RefBloom builds the query bloom for the given items from the reference bit positions.
func c26RefBloom(items ...[]byte) *txresult.LogsBloom {
	var v big.Int
	for _, it := range items {
		for _, b := range c26RefBits(it) {
			v.SetBit(&v, b, 1)
		}
	}
	return txresult.NewLogsBloom(v.Bytes())
}

// c26Foreign is a module.LogsBloom that is not a *txresult.LogsBloom (other implementations reach
// Merge/Contain through the interface).
type c26Foreign struct{ bs []byte }

func (f c26Foreign) String() string                { return fmt.Sprintf("%x", f.bs) }
func (f c26Foreign) Bytes() []byte                 { return f.bs }
func (f c26Foreign) CompressedBytes() []byte       { return common.Compress(f.bs) }
func (f c26Foreign) LogBytes() []byte              { return f.bs }
func (f c26Foreign) Contain(module.LogsBloom) bool { return false }
func (f c26Foreign) Merge(module.LogsBloom)        {}
func (f c26Foreign) Equal(o module.LogsBloom) bool { return bytes.Equal(f.bs, o.Bytes()) }

type c26Log struct {
	addr    *common.Address
	indexed [][]byte
	rcpt    int
}

func (l c26Log) String() string {
	var sb strings.Builder
	fmt.Fprintf(&sb, "r%d:%s[", l.rcpt, l.addr)
	for i, v := range l.indexed {
		if i > 0 {
			sb.WriteByte(',')
		}
		if v == nil {
			sb.WriteString("nil")
		} else {
			fmt.Fprintf(&sb, "%x", v)
		}
	}
	sb.WriteByte(']')
	return sb.String()
}

var c26Sigs = []string{"Transfer(Address,Address,int)", "Ev(int)", "E()", "ICXIssued(int,int,int,int)", "Log(bytes,str,bool)"}

func c26DrawLog(rt *rapid.T, pool []*common.Address) c26Log {
	var l c26Log
	l.addr = pool[rapid.IntRange(0, len(pool)-1).Draw(rt, "addr")]
	n := rapid.IntRange(1, 4).Draw(rt, "nIndexed")
	l.indexed = make([][]byte, n)
	l.indexed[0] = []byte(rapid.SampledFrom(c26Sigs).Draw(rt, "sig"))
	for i := 1; i < n; i++ {
		switch rapid.IntRange(0, 5).Draw(rt, "valKind") {
		case 0:
			l.indexed[i] = nil
		case 1:
			l.indexed[i] = []byte{}
		case 2:
			av := pool[rapid.IntRange(0, len(pool)-1).Draw(rt, "addrVal")]
			l.indexed[i] = append([]byte{}, av.Bytes()...)
		case 3:
			l.indexed[i] = []byte{byte(rapid.IntRange(0, 3).Draw(rt, "small"))}
		default:
			k := rapid.IntRange(1, 40).Draw(rt, "vlen")
			l.indexed[i] = rapid.SliceOfN(rapid.Byte(), k, k).Draw(rt, "val")
		}
	}
	return l
}

// c26Queries returns the (name, query bloom) pairs that must be contained for log l.
func c26Queries(l c26Log) (names []string, qs []module.LogsBloom) {
	add := func(n string, q module.LogsBloom) { names = append(names, n); qs = append(qs, q) }
	// address
	q := txresult.NewLogsBloom(nil)
	q.AddAddressOfLog(l.addr)
	add("addr/api", q)
	add("addr/ref", c26RefBloom(c26RefAddrItem(l.addr)))
	full := txresult.NewLogsBloom(nil)
	full.AddAddressOfLog(l.addr)
	refItems := [][]byte{c26RefAddrItem(l.addr)}
	for i, v := range l.indexed {
		if v == nil {
			continue
		}
		q := txresult.NewLogsBloom(nil)
		q.AddIndexedOfLog(i, v)
		add(fmt.Sprintf("indexed[%d]/api", i), q)
		add(fmt.Sprintf("indexed[%d]/ref", i), c26RefBloom(c26RefIdxItem(i, v)))
		full.AddIndexedOfLog(i, v)
		refItems = append(refItems, c26RefIdxItem(i, v))
	}
	add("event/api", full)
	add("event/ref", c26RefBloom(refItems...))
	// the same filter handed over as a foreign implementation of module.LogsBloom
	add("event/foreign", c26Foreign{append([]byte{}, full.Bytes()...)})
	return
}

func TestC26(t *testing.T) {
	rec := ev.New("C26", "1..12 event logs (one case in ten: a dense block of 40..400 logs over 40 addresses, whose bloom compresses to >= 256 LZW codes) (addresses from a pool of 4 so that items repeat, 1..4 indexed values incl. nil, empty, address-valued, 1-byte and random values) distributed over 1..4 real receipts (versions 1/2/3, optionally persisted in a receipt list and reloaded), receipt blooms merged in a drawn order (partly through a foreign module.LogsBloom), block bloom also taken through compressed / Bytes / LogBytes / JSON forms; every address and (position,value) is queried with API-built and independently computed 3-bit blooms; non-trivial = at least 2 logs merged; distinct by the list of logs, receipt assignment and merge order")
	defer rec.Flush(t)

	ev.Check(t, 2000, 8000, func(rt *rapid.T) {
		// dense: a block with hundreds of distinct items. Its 256-byte bloom is 20-60 % full, so the
		// compressed form is as long as compression gets (>= 256 LZW codes, code width grows to 10 bits)
		dense := rapid.IntRange(0, 9).Draw(rt, "dense") == 0
		poolSize := 4
		if dense {
			poolSize = 40
		}
		pool := make([]*common.Address, poolSize)
		for i := range pool {
			id := rapid.SliceOfN(rapid.Byte(), 20, 20).Draw(rt, "id")
			pool[i] = common.NewAddressWithTypeAndID(i%2 == 0, id)
		}
		nLogs := rapid.IntRange(1, 12).Draw(rt, "nLogs")
		if dense {
			nLogs = rapid.IntRange(40, 400).Draw(rt, "nLogsDense")
		}
		nRcpt := rapid.IntRange(1, 4).Draw(rt, "nReceipts")
		logs := make([]c26Log, nLogs)
		for i := range logs {
			logs[i] = c26DrawLog(rt, pool)
			logs[i].rcpt = rapid.IntRange(0, nRcpt-1).Draw(rt, "receiptOf")
		}
		vers := make([]int, nRcpt)
		for i := range vers {
			vers[i] = rapid.IntRange(1, 3).Draw(rt, "version")
		}
		persist := rapid.IntRange(0, 3).Draw(rt, "persist") == 0
		order := rapid.Permutation(c26Iota(nRcpt)).Draw(rt, "mergeOrder")
		foreignMerge := rapid.SliceOfN(rapid.Bool(), nRcpt, nRcpt).Draw(rt, "foreignMerge")
		reloadBetween := rapid.SliceOfN(rapid.Bool(), nRcpt, nRcpt).Draw(rt, "reloadBetween")

		labels := []string{fmt.Sprintf("receipts:%d", nRcpt)}
		hasNil, hasEmpty := false, false
		for _, l := range logs {
			for i, v := range l.indexed {
				if i > 0 && v == nil {
					hasNil = true
				}
				if v != nil && len(v) == 0 {
					hasEmpty = true
				}
			}
		}
		if hasNil {
			labels = append(labels, "nilIndexed")
		}
		if hasEmpty {
			labels = append(labels, "emptyIndexed")
		}
		if persist {
			labels = append(labels, "persisted")
		}
		for _, f := range foreignMerge {
			if f {
				labels = append(labels, "foreignMerge")
				break
			}
		}
		var sb strings.Builder
		for _, l := range logs {
			sb.WriteString(l.String())
			sb.WriteByte(' ')
		}
		logsDesc := sb.String()
		if dense {
			labels = append(labels, "denseBlock")
			h := sha256.Sum256([]byte(logsDesc))
			logsDesc = fmt.Sprintf("%d logs over %d addresses (sha256 of rendering %x) first: %s", nLogs, poolSize, h[:8], logs[0])
		}
		desc := fmt.Sprintf("logs=%s versions=%v order=%v foreign=%v persist=%v", logsDesc, vers, order, foreignMerge, persist)
		rec.Case(desc, nLogs >= 2, labels...)

		// build receipts
		mdb := db.NewMapDB()
		rcpts := make([]txresult.Receipt, nRcpt)
		for i := range rcpts {
			rev := module.Revision(0)
			if vers[i] >= 2 {
				rev = module.UseMPTOnEvents
			}
			r := txresult.NewReceipt(mdb, rev, pool[1])
			if vers[i] == 3 {
				r.AddPayment(pool[3], big.NewInt(10), big.NewInt(10))
			}
			rcpts[i] = r
			rec.Label(fmt.Sprintf("receiptVersion:%d", vers[i]))
		}
		for _, l := range logs {
			rcpts[l.rcpt].AddLog(l.addr, l.indexed, [][]byte{[]byte("data")})
		}
		for i, r := range rcpts {
			r.SetResult(module.StatusSuccess, big.NewInt(int64(100+i)), big.NewInt(1), nil)
		}
		blooms := make([]module.LogsBloom, nRcpt)
		for i, r := range rcpts {
			blooms[i] = r.LogsBloom()
		}
		if persist {
			rl := txresult.NewReceiptListFromSlice(mdb, rcpts)
			if err := rl.Flush(); err != nil {
				rt.Fatalf("C26 violated: receipt list Flush failed: %v (%s)", err, desc)
			}
			rl2 := txresult.NewReceiptListFromHash(mdb, rl.Hash())
			for i := range rcpts {
				r, err := rl2.Get(i)
				if err != nil {
					rt.Fatalf("C26 violated: reloaded receipt list Get(%d) failed: %v (%s)", i, err, desc)
				}
				blooms[i] = r.LogsBloom()
			}
		}

		// block bloom: merge in drawn order
		// (an aggregate that is stored and loaded again between merges - drawn - goes on as the restored object)
		block := txresult.NewLogsBloom(nil)
		reloads := 0
		for k, i := range order {
			if foreignMerge[i] {
				block.Merge(c26Foreign{append([]byte{}, blooms[i].Bytes()...)})
			} else {
				block.Merge(blooms[i])
			}
			if k < len(order)-1 && reloadBetween[k] {
				block = txresult.NewLogsBloomFromCompressed(append([]byte{}, block.CompressedBytes()...))
				reloads++
			}
		}
		if reloads > 0 {
			rec.Label("aggregateRestoredFromCompressedBetweenMerges")
		}
		block.Merge(nil) // transition code may hand over nil

		forms := map[string]module.LogsBloom{"merged": block}
		formOrder := []string{"merged", "compressed", "bytes", "logBytes", "json"}
		cb := block.CompressedBytes()
		forms["compressed"] = txresult.NewLogsBloomFromCompressed(append([]byte{}, cb...))
		if len(cb) >= 287 { // 255 codes of 9 bits: the stream reaches 10-bit codes
			rec.Label("compressedReaches10bitCodes")
		}
		forms["bytes"] = txresult.NewLogsBloom(append([]byte{}, block.Bytes()...))
		forms["logBytes"] = txresult.NewLogsBloom(append([]byte{}, block.LogBytes()...))
		js, err := json.Marshal(block)
		if err != nil {
			rt.Fatalf("C26 violated: MarshalJSON of block bloom failed: %v", err)
		}
		jb := txresult.NewLogsBloom(nil)
		if err := json.Unmarshal(js, jb); err != nil {
			rt.Fatalf("C26 violated: UnmarshalJSON(%s) of block bloom failed: %v", js, err)
		}
		forms["json"] = jb

		for _, l := range logs {
			names, qs := c26Queries(l)
			for qi, q := range qs {
				if !blooms[l.rcpt].Contain(q) {
					rt.Fatalf("C26 violated: bloom of receipt %d (%x) does not contain %s of its log %s (query %x)", l.rcpt, blooms[l.rcpt].Bytes(), names[qi], l, q.Bytes())
				}
				for _, fn := range formOrder {
					if !forms[fn].Contain(q) {
						rt.Fatalf("C26 violated: block bloom in form %q (%x) does not contain %s of log %s (query %x); case: %s", fn, forms[fn].Bytes(), names[qi], l, q.Bytes(), desc)
					}
				}
			}
			// receipt bloom is contained in the block bloom as a whole
			for _, fn := range formOrder {
				if !forms[fn].Contain(blooms[l.rcpt]) {
					rt.Fatalf("C26 violated: block bloom in form %q does not contain the bloom of receipt %d; case: %s", fn, l.rcpt, desc)
				}
			}
		}
	})
}

func c26Iota(n int) []int {
	out := make([]int, n)
	for i := range out {
		out[i] = i
	}
	return out
}
