package hdata2

import (
	"bytes"
	"fmt"
	"math/big"
	"testing"

	"github.com/icon-project/goloop/common"
	"github.com/icon-project/goloop/common/db"
	"github.com/icon-project/goloop/module"
	"github.com/icon-project/goloop/service/transaction"
	"github.com/icon-project/goloop/service/txresult"
	"pgregory.net/rapid"

	"verifharness/internal/ev"
)

// C22: a transaction or receipt list built from n items returns, for every n, the items in their
// original order when iterated, each with its original index, and lookup by index returns the
// same item.
//
// Items: real version-3 transactions that differ in their nonce (built from the binary form of one
// template; parsing does not verify signatures, so no signing is needed) and real receipts that
// differ in stepUsed (receipt versions 1 and 2). Oracle: the harness keeps the slice the list was built from;
// iteration must yield exactly n items, the i-th being item i (same serialized bytes / id) and,
// for transactions, reporting index i; Get(i) must return item i for every i; Get(n) must not
// return an item. All of it is checked on the list built from the slice and on the list re-opened
// from its hash after Flush (items are then re-created from the database).

var c22Boundary = []int{0, 1, 2, 127, 128, 129, 255, 256, 257, 32767, 32768, 32769, 65535, 65536, 65537}

// c22MakeTxs builds n distinct real v3 transactions cheaply: one template is parsed from JSON, its
// binary form (an RLP list of 11 fields) is split with the harness item splitter, and for every i
// the nonce field (#7) is replaced by i before the bytes are handed to transaction.NewTransaction
// (binary parsing does not verify signatures).
func c22MakeTxs(n int) []module.Transaction {
	js := `{"version":"0x3","from":"hx54f7853dc6481b670caf69c5a27c7c8fe5be8269","to":"hx49a23bd156932485471f582897bf1bec5f875751","value":"0x1","stepLimit":"0x100","timestamp":"0x5c0000000000","nid":"0x1","nonce":"0x1","signature":"bjarKeF3izGy469dpSciP3TT9caBQVYgHdaNgjY+8wJTOVSFm4o/ODXycFOdXUJcIwqvcE9If8x6Zmgt//XmkQE="}`
	tmpl, err := transaction.NewTransactionFromJSON([]byte(js))
	if err != nil {
		ev.Inconclusive("C22: cannot build template transaction: %v", err)
	}
	items, msg := c23ListItems(tmpl.Bytes())
	if msg != "" || len(items) != 11 {
		ev.Inconclusive("C22: template transaction binary is not a list of 11 fields: %s (%d)", msg, len(items))
	}
	var head, tail []byte
	for i, it := range items {
		if i < 7 {
			head = append(head, it.raw...)
		} else if i > 7 {
			tail = append(tail, it.raw...)
		}
	}
	txs := make([]module.Transaction, n)
	for i := range txs {
		body := append(append(append([]byte{}, head...), c23EncodeNumber(big.NewInt(int64(i)))...), tail...)
		var bin []byte
		switch l := len(body); {
		case l <= 55:
			bin = append([]byte{byte(0xc0 + l)}, body...)
		case l <= 255:
			bin = append([]byte{0xf8, byte(l)}, body...)
		default:
			bin = append([]byte{0xf9, byte(l >> 8), byte(l)}, body...)
		}
		tx, err := transaction.NewTransaction(bin)
		if err != nil {
			ev.Inconclusive("C22: cannot build stub transaction %d: %v", i, err)
		}
		if i < 3 || i == n-1 {
			if nn := tx.(transaction.Transaction).Nonce(); nn == nil || nn.Int64() != int64(i) {
				ev.Inconclusive("C22: stub transaction %d has nonce %v", i, nn)
			}
		}
		txs[i] = tx
	}
	return txs
}

func c22MakeReceipts(d db.Database, n int, rev module.Revision) []txresult.Receipt {
	to := common.MustNewAddressFromString("cx0003737589788888888888888888888888888888")
	rs := make([]txresult.Receipt, n)
	for i := range rs {
		r := txresult.NewReceipt(d, rev, to)
		r.SetResult(module.StatusSuccess, big.NewInt(int64(1000+i)), big.NewInt(10), nil)
		rs[i] = r
	}
	return rs
}

// c22CheckTxList checks list l against the first n elements of want (wantBytes[i] = serialized item i).
func c22CheckTxList(l module.TransactionList, n int, want []module.Transaction, wantBytes [][]byte, wantIDs [][]byte, phase string) string {
	cnt := 0
	for it := l.Iterator(); it.Has(); {
		tx, idx, err := it.Get()
		if err != nil {
			return fmt.Sprintf("%s: n=%d iterator Get at position %d error %v", phase, n, cnt, err)
		}
		if cnt >= n {
			return fmt.Sprintf("%s: n=%d iterator yields more than n items (extra index %d)", phase, n, idx)
		}
		if idx != cnt {
			return fmt.Sprintf("%s: n=%d iterator position %d reports index %d", phase, n, cnt, idx)
		}
		// the very same object is the same item; otherwise compare the serialized form
		if tx == nil || (tx != want[cnt] && !bytes.Equal(tx.Bytes(), wantBytes[cnt])) {
			return fmt.Sprintf("%s: n=%d iterator position %d yields another transaction than item %d", phase, n, cnt, cnt)
		}
		if cnt%997 == 0 && !bytes.Equal(tx.ID(), wantIDs[cnt]) {
			return fmt.Sprintf("%s: n=%d iterator position %d yields id %x want %x", phase, n, cnt, tx.ID(), wantIDs[cnt])
		}
		cnt++
		if err := it.Next(); err != nil {
			return fmt.Sprintf("%s: n=%d iterator Next after position %d error %v", phase, n, cnt-1, err)
		}
	}
	if cnt != n {
		return fmt.Sprintf("%s: n=%d iterator yields %d items", phase, n, cnt)
	}
	for i := 0; i < n; i++ {
		tx, err := l.Get(i)
		if err != nil || tx == nil {
			return fmt.Sprintf("%s: n=%d Get(%d) fails: %v", phase, n, i, err)
		}
		if tx != want[i] && !bytes.Equal(tx.Bytes(), wantBytes[i]) {
			return fmt.Sprintf("%s: n=%d Get(%d) returns another transaction (nonce bytes differ)", phase, n, i)
		}
	}
	if tx, err := l.Get(n); err == nil && tx != nil {
		return fmt.Sprintf("%s: n=%d Get(n) returns an item", phase, n)
	}
	return ""
}

func c22CheckRcptList(l module.ReceiptList, n int, want []txresult.Receipt, wantBytes [][]byte, base int64, phase string) string {
	cnt := 0
	for it := l.Iterator(); it.Has(); {
		r, err := it.Get()
		if err != nil {
			return fmt.Sprintf("%s: n=%d iterator Get at position %d error %v", phase, n, cnt, err)
		}
		if cnt >= n {
			return fmt.Sprintf("%s: n=%d iterator yields more than n items", phase, n)
		}
		if r == nil || (r != module.Receipt(want[cnt]) && !bytes.Equal(r.Bytes(), wantBytes[cnt])) {
			su := "?"
			if r != nil {
				su = r.StepUsed().String()
			}
			return fmt.Sprintf("%s: n=%d iterator position %d yields receipt with stepUsed %s, item %d has %d", phase, n, cnt, su, cnt, base+int64(cnt))
		}
		if r.StepUsed().Int64() != base+int64(cnt) {
			return fmt.Sprintf("%s: n=%d iterator position %d: stepUsed %v want %d", phase, n, cnt, r.StepUsed(), base+int64(cnt))
		}
		cnt++
		if err := it.Next(); err != nil {
			return fmt.Sprintf("%s: n=%d iterator Next after position %d error %v", phase, n, cnt-1, err)
		}
	}
	if cnt != n {
		return fmt.Sprintf("%s: n=%d iterator yields %d items", phase, n, cnt)
	}
	for i := 0; i < n; i++ {
		r, err := l.Get(i)
		if err != nil || r == nil {
			return fmt.Sprintf("%s: n=%d Get(%d) fails: %v", phase, n, i, err)
		}
		// (the serialized form was compared during iteration; stepUsed identifies the item)
		if r != module.Receipt(want[i]) && r.StepUsed().Int64() != base+int64(i) {
			return fmt.Sprintf("%s: n=%d Get(%d) returns receipt with stepUsed %v want %d", phase, n, i, r.StepUsed(), base+int64(i))
		}
	}
	if r, err := l.Get(n); err == nil && r != nil {
		return fmt.Sprintf("%s: n=%d Get(n) returns an item", phase, n)
	}
	return ""
}

func c22RunTx(txs []module.Transaction, bs, ids [][]byte, n int) (msg string) {
	defer func() {
		if r := recover(); r != nil {
			msg = fmt.Sprintf("transactions n=%d: panic: %v", n, r)
		}
	}()
	mdb := db.NewMapDB()
	l := transaction.NewTransactionListFromSlice(mdb, txs[:n])
	if m := c22CheckTxList(l, n, txs, bs, ids, "transactions/built"); m != "" {
		return m
	}
	h := l.Hash()
	if err := l.Flush(); err != nil {
		return fmt.Sprintf("transactions n=%d: Flush error %v", n, err)
	}
	l2 := transaction.NewTransactionListFromHash(mdb, h)
	if m := c22CheckTxList(l2, n, txs, bs, ids, "transactions/reopened"); m != "" {
		return m
	}
	if !bytes.Equal(l2.Hash(), h) || !l.Equal(l2) {
		return fmt.Sprintf("transactions n=%d: re-opened list has another hash", n)
	}
	return ""
}

func c22RunRcpt(n int, rev module.Revision) (msg string) {
	defer func() {
		if r := recover(); r != nil {
			msg = fmt.Sprintf("receipts n=%d rev=%#x: panic: %v", n, rev, r)
		}
	}()
	mdb := db.NewMapDB()
	rs := c22MakeReceipts(mdb, n, rev)
	bs := make([][]byte, n)
	for i, r := range rs {
		bs[i] = r.Bytes()
	}
	l := txresult.NewReceiptListFromSlice(mdb, rs)
	if m := c22CheckRcptList(l, n, rs, bs, 1000, "receipts/built"); m != "" {
		return m
	}
	h := l.Hash()
	if err := l.Flush(); err != nil {
		return fmt.Sprintf("receipts n=%d: Flush error %v", n, err)
	}
	l2 := txresult.NewReceiptListFromHash(mdb, h)
	if m := c22CheckRcptList(l2, n, rs, bs, 1000, "receipts/reopened"); m != "" {
		return m
	}
	if !bytes.Equal(l2.Hash(), h) {
		return fmt.Sprintf("receipts n=%d: re-opened list has another hash", n)
	}
	return ""
}

func c22Class(n int) string {
	switch {
	case n <= 128:
		return "keys:1byte"
	case n <= 32768:
		return "keys:upTo2bytes"
	default:
		return "keys:upTo3bytes"
	}
}

func TestC22(t *testing.T) {
	rec := ev.New("C22", "lists of n real v3 transactions (distinct nonce) and of n real receipts (distinct stepUsed, receipt versions 1 and 2) for the boundary sizes {0,1,2,127,128,129,255,256,257,32767,32768,32769,65535,65536,65537} plus rapid-drawn sizes; each list is checked as built and after Flush + re-open from hash: full iteration (order, count, reported index) and Get(i) for every i; non-trivial = n >= 129 (index keys of different encoded lengths in one list); distinct by (kind, n)")
	defer rec.Flush(t)

	maxN := 65537
	randMax := ev.Pick(3000, 70000)
	if randMax > maxN {
		maxN = randMax
	}
	txs := c22MakeTxs(maxN)
	bs := make([][]byte, maxN)
	ids := make([][]byte, maxN)
	for i, tx := range txs {
		bs[i] = tx.Bytes()
		if i%997 == 0 {
			ids[i] = tx.ID()
		}
	}

	t.Run("boundary", func(t *testing.T) {
		for _, n := range c22Boundary {
			rec.Case(fmt.Sprintf("transactions n=%d", n), n >= 129, "transactions", c22Class(n))
			if m := c22RunTx(txs, bs, ids, n); m != "" {
				t.Fatalf("C22 violated: %s", m)
			}
			rev := module.Revision(0)
			if n%2 == 1 {
				rev = module.UseMPTOnEvents
			}
			rec.Case(fmt.Sprintf("receipts n=%d rev=%#x", n, rev), n >= 129, "receipts", c22Class(n))
			if m := c22RunRcpt(n, rev); m != "" {
				t.Fatalf("C22 violated: %s", m)
			}
		}
	})
	// contents: the list is a list, not a set - the same item may stand at several positions (a block assembler
	// that was handed a repeat builds exactly that list; whether a block may carry it is decided elsewhere)
	t.Run("repeated", func(t *testing.T) {
		ev.Check(t, 150, 3000, func(rt *rapid.T) {
			n := rapid.IntRange(2, 40).Draw(rt, "n")
			pick := rapid.SliceOfN(rapid.IntRange(0, n/2), n, n).Draw(rt, "which") // about half of the positions repeat
			rtxs, rbs, rids := make([]module.Transaction, n), make([][]byte, n), make([][]byte, n)
			repeats := false
			seen := map[int]bool{}
			for i, k := range pick {
				rtxs[i], rbs[i], rids[i] = txs[k], bs[k], txs[k].ID() // (the shared id table is filled sparsely)
				if seen[k] {
					repeats = true
				}
				seen[k] = true
			}
			labels := []string{"transactions", "repeated-items"}
			if !repeats {
				labels = []string{"transactions", "drawn-without-repeat"}
			}
			rec.Case(fmt.Sprintf("transactions with repeats n=%d positions=%v", n, pick), repeats, labels...)
			if m := c22RunTx(rtxs, rbs, rids, n); m != "" {
				rt.Fatalf("C22 violated: %s (items at positions %v of the distinct pool)", m, pick)
			}
		})
	})
	t.Run("random", func(t *testing.T) {
		ev.Check(t, 12, 12, func(rt *rapid.T) {
			n := rapid.IntRange(0, randMax).Draw(rt, "n")
			if rapid.Bool().Draw(rt, "transactions") {
				rec.Case(fmt.Sprintf("transactions n=%d", n), n >= 129, "transactions", c22Class(n), "random")
				if m := c22RunTx(txs, bs, ids, n); m != "" {
					rt.Fatalf("C22 violated: %s", m)
				}
			} else {
				rev := module.Revision(0)
				if rapid.Bool().Draw(rt, "mptEvents") {
					rev = module.UseMPTOnEvents
				}
				rec.Case(fmt.Sprintf("receipts n=%d rev=%#x", n, rev), n >= 129, "receipts", c22Class(n), "random")
				if m := c22RunRcpt(n, rev); m != "" {
					rt.Fatalf("C22 violated: %s", m)
				}
			}
		})
	})
}
