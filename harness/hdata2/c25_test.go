package hdata2

import (
	"bytes"
	stdlzw "compress/lzw"
	"crypto/sha256"
	"encoding/hex"
	"fmt"
	"io"
	"math/big"
	"testing"

	"github.com/icon-project/goloop/common"
	"pgregory.net/rapid"

	"verifharness/internal/ev"
	"verifharness/internal/gen"
)

// C25: Compress then Decompress yields the original bytes, and the compressed form is exactly
// the legacy LZW encoding existing blocks were hashed with (MSB first, 8-bit literals, no leading
// clear code).
//
// Oracles:
//  (a) Decompress(Compress(x)) = x;
//  (b) Compress(x) = c25RefEncode(x), a clean-room encoder of the legacy format written here
//      (prefix/suffix map, explicit bit string; no code shared with common/lzw);
//  (c) the Go standard library reader compress/lzw (MSB, 8) decodes Compress(x) to x;
//  (d) pinned goldens: SHA-256 of the compressed form of fixed inputs produced by a third,
//      textbook string-table encoder in Python (testdata/c25_golden.py).
// For the empty input only (a) is decided (Compress returns an empty string there, which is not an
// LZW stream at all; headers carry an empty field for an empty bloom).

const (
	c25Clear = 256
	c25EOF   = 257
	c25First = 258
	c25Max   = 4095 // the code that is never assigned: reaching it resets the dictionary
)

type c25Stats struct {
	codes   int
	maxW    int
	resets  int
	growEnd bool // the width grew in the closing step (between the last data code and eof)
	rstEnd  bool // the dictionary was reset in the closing step
}

// c25RefEncode: legacy LZW, MSB-first, literal width 8, variable code width 9..12, NO initial
// clear code. next = the code the next dictionary entry will get.
func c25RefEncode(data []byte) ([]byte, c25Stats) {
	var st c25Stats
	var bits []byte // one bit per element, most significant first
	width := 9
	next := c25First
	dict := map[[2]int]int{}
	put := func(code int) {
		for i := width - 1; i >= 0; i-- {
			bits = append(bits, byte(code>>uint(i))&1)
		}
		st.codes++
		if width > st.maxW {
			st.maxW = width
		}
	}
	// step after each emitted data code: the entry (if any) receives code `next`
	step := func(key *[2]int, closing bool) {
		if next == 1<<uint(width) {
			width++
			if closing {
				st.growEnd = true
			}
		}
		if next == c25Max {
			put(c25Clear)
			dict = map[[2]int]int{}
			next = c25First
			width = 9
			st.resets++
			if closing {
				st.rstEnd = true
			}
			return
		}
		if key != nil {
			dict[*key] = next
		}
		next++
	}
	cur := int(data[0])
	for _, b := range data[1:] {
		k := [2]int{cur, int(b)}
		if c, ok := dict[k]; ok {
			cur = c
			continue
		}
		put(cur)
		step(&k, false)
		cur = int(b)
	}
	put(cur)
	step(nil, true)
	put(c25EOF)
	for len(bits)%8 != 0 {
		bits = append(bits, 0)
	}
	out := make([]byte, len(bits)/8)
	for i, b := range bits {
		out[i/8] |= b << uint(7-i%8)
	}
	return out, st
}

// c25NextTrace returns, for every prefix length L>=1 of data, the value of `next` and the width
// right before the closing step of encoding data[:L] (used to construct inputs whose closing step
// grows the width or resets the dictionary).
func c25CloseSpecial(data []byte) (growAt, resetAt []int) {
	width := 9
	next := c25First
	dict := map[[2]int]int{}
	cur := int(data[0])
	note := func(L int) {
		if next == c25Max {
			resetAt = append(resetAt, L)
		} else if next == 1<<uint(width) {
			growAt = append(growAt, L)
		}
	}
	note(1)
	for i, b := range data[1:] {
		k := [2]int{cur, int(b)}
		if c, ok := dict[k]; ok {
			cur = c
		} else {
			if next == 1<<uint(width) {
				width++
			}
			if next == c25Max {
				dict = map[[2]int]int{}
				next = c25First
				width = 9
			} else {
				dict[k] = next
				next++
			}
			cur = int(b)
		}
		note(i + 2)
	}
	return
}

func c25Bloom(rt *rapid.T) []byte {
	// what LogsBloom.Bytes() hands to Compress: minimal big-endian bytes of a 2048-bit set
	var v big.Int
	k := rapid.IntRange(0, 60).Draw(rt, "bitsSet")
	for i := 0; i < k; i++ {
		v.SetBit(&v, rapid.IntRange(0, 2047).Draw(rt, "bit"), 1)
	}
	if rapid.Bool().Draw(rt, "top") {
		v.SetBit(&v, 2047, 1)
	}
	return v.Bytes()
}

func c25Input(rt *rapid.T, maxLen int) ([]byte, string) {
	kind := rapid.SampledFrom([]string{"bloom", "bloom", "runs", "random", "smallAlphabet", "overflow", "closeGrow", "closeReset", "short", "sparseLarge"}).Draw(rt, "kind")
	switch kind {
	case "bloom":
		return c25Bloom(rt), kind
	case "sparseLarge":
		// kilobytes of one byte value with a handful of other bytes: the highest compression ratios (a constant
		// string of N bytes takes about sqrt(2N) codes)
		n := rapid.IntRange(2048, maxLen).Draw(rt, "n")
		out := bytes.Repeat([]byte{rapid.SampledFrom([]byte{0x00, 0x00, 0xff, 0x55}).Draw(rt, "fill")}, n)
		for i, k := 0, rapid.IntRange(0, 12).Draw(rt, "specks"); i < k; i++ {
			out[rapid.IntRange(0, n-1).Draw(rt, "at")] ^= byte(1) << uint(rapid.IntRange(0, 7).Draw(rt, "bit"))
		}
		return out, kind
	case "runs":
		n := rapid.IntRange(1, 40).Draw(rt, "nruns")
		var out []byte
		for i := 0; i < n && len(out) < maxLen; i++ {
			b := rapid.Byte().Draw(rt, "b")
			l := rapid.IntRange(1, 600).Draw(rt, "l")
			out = append(out, bytes.Repeat([]byte{b}, l)...)
		}
		if len(out) > maxLen {
			out = out[:maxLen]
		}
		return out, kind
	case "random":
		return gen.Bytes(rt, "data", maxLen), kind
	case "smallAlphabet":
		n := gen.Len(rt, "n", maxLen)
		a := rapid.IntRange(1, 4).Draw(rt, "alphabet")
		return rapid.SliceOfN(rapid.ByteRange(0, byte(a)), n, n).Draw(rt, "data"), kind
	case "short":
		n := rapid.IntRange(0, 4).Draw(rt, "n")
		return rapid.SliceOfN(rapid.Byte(), n, n).Draw(rt, "data"), kind
	default:
		// enough high-entropy data to run out of codes (about 4.2 KiB per dictionary reset); a
		// cheap expander keeps the number of rapid draws small
		n := rapid.IntRange(4000, maxLen).Draw(rt, "n")
		seed := rapid.SliceOfN(rapid.Byte(), 8, 8).Draw(rt, "seed")
		out := make([]byte, 0, n+32)
		for i := 0; len(out) < n; i++ {
			h := sha256.Sum256(append(seed, byte(i), byte(i>>8)))
			out = append(out, h[:]...)
		}
		out = out[:n]
		if kind == "overflow" {
			return out, kind
		}
		g, r := c25CloseSpecial(out)
		if kind == "closeGrow" && len(g) > 0 {
			return out[:rapid.SampledFrom(g).Draw(rt, "cut")], kind
		}
		if kind == "closeReset" && len(r) > 0 {
			return out[:rapid.SampledFrom(r).Draw(rt, "cut")], kind
		}
		return out, "overflow"
	}
}

func c25Desc(x []byte) string {
	if len(x) <= 48 {
		return fmt.Sprintf("len=%d data=%x", len(x), x)
	}
	h := sha256.Sum256(x)
	return fmt.Sprintf("len=%d sha256=%x head=%x", len(x), h[:8], x[:16])
}

type c25F interface {
	Fatalf(format string, args ...interface{})
}

func c25CheckOne(f c25F, x []byte) c25Stats {
	in := append([]byte{}, x...)
	c := common.Compress(in)
	if !bytes.Equal(in, x) {
		f.Fatalf("C25 violated: Compress modified its input (%s)", c25Desc(x))
	}
	d := common.Decompress(append([]byte{}, c...))
	if !bytes.Equal(d, x) {
		f.Fatalf("C25 violated: Decompress(Compress(x)) != x for %s: got %s (compressed %d bytes)", c25Desc(x), c25Desc(d), len(c))
	}
	if len(x) == 0 {
		return c25Stats{}
	}
	ref, st := c25RefEncode(x)
	if !bytes.Equal(c, ref) {
		i := 0
		for i < len(c) && i < len(ref) && c[i] == ref[i] {
			i++
		}
		f.Fatalf("C25 violated: Compress(x) differs from the legacy LZW encoding for %s: got %d bytes, reference %d bytes, first difference at byte %d (got %x.. want %x..)",
			c25Desc(x), len(c), len(ref), i, c[i:c25min(i+8, len(c))], ref[i:c25min(i+8, len(ref))])
	}
	r := stdlzw.NewReader(bytes.NewReader(c), stdlzw.MSB, 8)
	sd, err := io.ReadAll(r)
	_ = r.Close()
	if err != nil || !bytes.Equal(sd, x) {
		f.Fatalf("C25 violated: compress/lzw cannot decode Compress(x) back to x for %s: err=%v got %s", c25Desc(x), err, c25Desc(sd))
	}
	return st
}

func c25min(a, b int) int {
	if a < b {
		return a
	}
	return b
}

func c25PRNG(tag string, n int) []byte {
	var out []byte
	for i := 0; len(out) < n; i++ {
		h := sha256.Sum256([]byte(fmt.Sprintf("%s-%d", tag, i)))
		out = append(out, h[:]...)
	}
	return out[:n]
}

func c25BloomOf(bitsSet ...int) []byte {
	var v big.Int
	for _, b := range bitsSet {
		v.SetBit(&v, b, 1)
	}
	return v.Bytes()
}

func c25Ramp() []byte {
	b := make([]byte, 256)
	for i := range b {
		b[i] = byte(i)
	}
	return b
}

// goldens from testdata/c25_golden.py: name, input, sha256(input), len(compressed), sha256(compressed)
var c25Goldens = []struct {
	name  string
	in    []byte
	inSum string
	clen  int
	cSum  string
	cHex  string // full compressed form for the short ones
}{
	{"zero256", make([]byte, 256), "5341e6b2646979a70e57653007a1f310169421ec9bdd9f1a5648f75ade005af1", 27, "eeaaee83283c86ca789c531a54eb810598fab21af34f0e1cd9ec0f1f07ede3da", "0040a070482c1a0f0884c2a170c86c3a1f1088c4a27148ac5a0701"},
	{"ramp256", c25Ramp(), "40aff2e9d2d8922e47afd4648e6967497158785fbd1da870e7110266bf944880", 290, "ba0d045c1a016b9f4ae6eba983342fba865055294b745d5cff1d633ce117f61a", ""},
	{"bloom3", c25BloomOf(0, 1000, 2047), "d7f75c13eaf9d22d6cb3edc42d16fb6727e733038f50baa6c0455a81a6b3eba4", 31, "2791cd14d38aa7468137d3e092c69d6e7dd7992430c99b11035a029861c54441", "40002070482c1a0f0884c2a170c86c3a1f108500623148ac5a2f1887006020"},
	{"bloomHi", c25BloomOf(2047), "84cd11fd4d28f21c91b609d25791cf1d47658bcde950faefdcf9b00d2ce89e43", 29, "ed67fd5e5e36e61ec8cb2cb94b708ef876d0e0bdea76b85310ce5b5466011042", "40002070482c1a0f0884c2a170c86c3a1f1088c4a27148ac5a2f038080"},
	{"one00", []byte{0}, "6e340b9cffb37a989ca544e6bb780a2c78901d3fb33738768511a30617afa01d", 3, "221e7a8c9bb28f3dac297b774bb3af91f298cc42e4afdf1b34bdd6360178ddb0", "004040"},
	{"oneff", []byte{0xff}, "a8100ae6aa1940d0b663bb31cd466142ebbdbd5187131b92d93818987832eb89", 3, "cc4d716a25ebff5ba839f74ff556b0b5a7db48d0b6c05eb28902ec9318451f9c", "7fc040"},
	{"abab1000", bytes.Repeat([]byte("ab"), 500), "bd224a350e0aa49ca9e089f136c4dc8fc22c785afb474b5abe0e94d0e9f60aee", 72, "022a742fbad3f6099d38e1d4001e90b808e87ff11a0cbe71c788e0f5385a14f4", ""},
	{"prng600", c25PRNG("c25", 600), "09ead6522d6e0609390b8bd8e0f4099e4aeb526427c38cb5f430469c1e0b985f", 716, "8cfbb14583f428faaedc169e83c4c4c353d87d3e947dd60095f057c57f8dff91", ""},
	{"prng8192", c25PRNG("c25", 8192), "3d2732a6e8e48fc9bc0adfb85b9808ac300484495ffe0f60497044f61881ba15", 11105, "6ad347fb34023f1d6f9c169dd666d6bc2b99df9400cbca9db7d28cb4f9647def", ""},
	{"prng20000", c25PRNG("c25", 20000), "f2ddb84f283655b9f441a6b8ffdb9739c8fd805fbf9c28979c247be4a54c918f", 27308, "2ca730d033fceed45185cf869998b2fcde0e2e2377a434fb6cbf4103cc3cab6b", ""},
}

func c25Labels(kind string, x []byte, st c25Stats) (bool, []string) {
	labels := []string{"kind:" + kind}
	switch {
	case len(x) == 0:
		labels = append(labels, "empty")
	case len(x) <= 256:
		labels = append(labels, "len<=256")
	case len(x) <= 4096:
		labels = append(labels, "len<=4096")
	default:
		labels = append(labels, "len>4096")
	}
	if st.maxW > 0 {
		labels = append(labels, fmt.Sprintf("maxWidth:%d", st.maxW))
	}
	if st.resets > 0 {
		labels = append(labels, "dictReset")
	}
	if st.growEnd {
		labels = append(labels, "closeGrowsWidth")
	}
	if st.rstEnd {
		labels = append(labels, "closeResetsDict")
	}
	return st.maxW > 9, labels
}

func TestC25(t *testing.T) {
	rec := ev.New("C25", "byte strings: LogsBloom.Bytes()-like sparse 2048-bit sets, runs, random, small alphabets, high-entropy strings long enough to exhaust the 12-bit dictionary, strings cut exactly where the closing step grows the code width or resets the dictionary, 0..4 bytes; plus pinned goldens; non-trivial = the encoding grows the code width beyond 9 bits; distinct by content (length+SHA-256)")
	defer rec.Flush(t)
	maxLen := ev.Pick(9000, 70000)

	t.Run("golden", func(t *testing.T) {
		for _, g := range c25Goldens {
			if s := sha256.Sum256(g.in); hex.EncodeToString(s[:]) != g.inSum {
				ev.Inconclusive("C25 golden %s: harness input differs from the python generator's input", g.name)
			}
			st := c25CheckOne(t, g.in)
			c := common.Compress(g.in)
			s := sha256.Sum256(c)
			nt, labels := c25Labels("golden", g.in, st)
			rec.Case("golden "+g.name+" "+c25Desc(g.in), nt, labels...)
			if len(c) != g.clen || hex.EncodeToString(s[:]) != g.cSum {
				t.Fatalf("C25 violated: Compress(golden %s) = %d bytes sha256 %x, pinned legacy encoding has %d bytes sha256 %s", g.name, len(c), s, g.clen, g.cSum)
			}
			if g.cHex != "" && hex.EncodeToString(c) != g.cHex {
				t.Fatalf("C25 violated: Compress(golden %s) = %x, pinned legacy encoding %s", g.name, c, g.cHex)
			}
		}
	})
	t.Run("generated", func(t *testing.T) {
		ev.Check(t, 2000, 6000, func(rt *rapid.T) {
			x, kind := c25Input(rt, maxLen)
			st := c25CheckOne(rt, x)
			nt, labels := c25Labels(kind, x, st)
			rec.Case(c25Desc(x), nt, labels...)
		})
	})
}
