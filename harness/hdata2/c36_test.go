package hdata2

import (
	"bytes"
	"fmt"
	"regexp"
	"strings"
	"testing"

	"github.com/icon-project/goloop/common"
	"github.com/icon-project/goloop/common/codec"
	"github.com/icon-project/goloop/server/jsonrpc"
	"pgregory.net/rapid"

	"verifharness/internal/ev"
	"verifharness/internal/gen"
)

// C36: every account or contract address prints as a single canonical string that the strict
// parser maps back to the same address, the strict parser accepts only canonical strings, and
// byte encodings round-trip.
//
// Oracle: canonical text = "hx"/"cx" + 40 lower-case hex digits of the 20 id bytes, rendered by
// the harness (fmt %x); the set of canonical strings is the regular language
// ^(hx|cx)[0-9a-f]{40}$ (the same one server/jsonrpc/validator.go uses for t_addr). The strict
// parser must accept a candidate iff it is in that language and then yield the address whose
// canonical text is the candidate. Byte forms: SetBytes(Bytes(a)) = a, the 20-byte form gives the
// account address with that id, the codec (RLP) form round-trips.
//
// Not decided: what the lenient SetString accepts, whether a failed strict parse leaves the
// receiver untouched, byte strings of other lengths / type bytes.

var c36Canon = regexp.MustCompile(`^(hx|cx)[0-9a-f]{40}$`)

func c36Text(a *common.Address) string {
	p := "hx"
	if a[0] == 1 {
		p = "cx"
	}
	return p + fmt.Sprintf("%x", a[1:])
}

// c36Mutate derives a candidate string from the canonical string s.
func c36Mutate(rt *rapid.T, s string) (string, string) {
	kinds := []string{"none", "upperOne", "upperAll", "upperPrefix", "prefix", "dropChar", "addChar", "nonHex", "unicode",
		"space", "otherDigit", "truncate", "double", "random", "randomHexish", "fold"}
	k := rapid.SampledFrom(kinds).Draw(rt, "mutation")
	pos := func(lo int) int { return rapid.IntRange(lo, len(s)-1).Draw(rt, "pos") }
	switch k {
	case "none":
		return s, k
	case "upperOne":
		// upper-case one hex letter of the body if there is one, else the whole string
		var idx []int
		for i := 2; i < len(s); i++ {
			if s[i] >= 'a' && s[i] <= 'f' {
				idx = append(idx, i)
			}
		}
		if len(idx) == 0 {
			return s, "none"
		}
		i := rapid.SampledFrom(idx).Draw(rt, "pos")
		return s[:i] + strings.ToUpper(s[i:i+1]) + s[i+1:], k
	case "upperAll":
		return s[:2] + strings.ToUpper(s[2:]), k
	case "upperPrefix":
		p := rapid.SampledFrom([]string{"HX", "Hx", "hX", "CX", "Cx", "cX"}).Draw(rt, "prefix")
		return p + s[2:], k
	case "prefix":
		p := rapid.SampledFrom([]string{"0x", "", "ax", "hh", "xc", "xh", "h", "c", "hxx", "cxhx", "0xhx", "hx0x", "\x00x", "hy"}).Draw(rt, "prefix")
		return p + s[2:], k
	case "dropChar":
		i := pos(0)
		return s[:i] + s[i+1:], k
	case "addChar":
		i := rapid.IntRange(0, len(s)).Draw(rt, "pos")
		c := rapid.SampledFrom([]string{"0", "a", "f", "x", " "}).Draw(rt, "char")
		return s[:i] + c + s[i:], k
	case "nonHex":
		i := pos(2)
		c := rapid.SampledFrom([]string{"g", "G", "x", "z", "-", "+", "_", ".", "/", ":", "@", "`", "\x00", "\n"}).Draw(rt, "char")
		return s[:i] + c + s[i+1:], k
	case "unicode":
		// multi-byte replacements: byte-length preserving (2 chars -> one 2-byte rune) and not
		i := rapid.IntRange(2, len(s)-2).Draw(rt, "pos")
		c := rapid.SampledFrom([]string{"é", "K", "０", "ａ", "ı", "à", "\xff\xfe", "\xc3\x28"}).Draw(rt, "rune")
		if rapid.Bool().Draw(rt, "keepLen") && len(c) <= len(s)-i {
			return s[:i] + c + s[i+len(c):], k
		}
		return s[:i] + c + s[i+1:], k
	case "space":
		switch rapid.IntRange(0, 3).Draw(rt, "where") {
		case 0:
			return " " + s, k
		case 1:
			return s + " ", k
		case 2:
			return s + "\n", k
		default:
			return " " + s[1:], k
		}
	case "otherDigit":
		// stays canonical: another lower-case hex digit
		i := pos(2)
		c := rapid.SampledFrom(strings.Split("0123456789abcdef", "")).Draw(rt, "char")
		return s[:i] + c + s[i+1:], k
	case "truncate":
		n := rapid.IntRange(0, len(s)-1).Draw(rt, "len")
		return s[:n], k
	case "double":
		return s + s[2:], k
	case "random":
		return rapid.String().Draw(rt, "str"), k
	case "randomHexish":
		n := rapid.SampledFrom([]int{38, 39, 40, 40, 40, 41, 42}).Draw(rt, "n")
		body := rapid.StringOfN(rapid.SampledFrom([]rune("0123456789abcdefABCDEFgx ")), n, n, -1).Draw(rt, "body")
		p := rapid.SampledFrom([]string{"hx", "cx", "0x", "HX"}).Draw(rt, "prefix")
		return p + body, k
	default: // fold: characters whose Unicode lower/upper mapping is an ASCII letter
		i := pos(2)
		c := rapid.SampledFrom([]string{"K", "ſ", "İ"}).Draw(rt, "rune")
		return s[:i] + c + s[i+1:], "fold"
	}
}

func c36Hash(s string) string {
	if len(s) <= 120 {
		return fmt.Sprintf("%q", s)
	}
	return fmt.Sprintf("%q…(len %d)", s[:120], len(s))
}

func TestC36(t *testing.T) {
	rec := ev.New("C36", "a drawn 21-byte address (account/contract, ids biased to all-zero, all-ff, letters-only, digits-only) is printed, strictly parsed and byte round-tripped; one candidate string is derived from its canonical text by a drawn mutation (case, prefix, length, non-hex, unicode, whitespace, other digit) or drawn at random and the strict parser's verdict is compared with ^(hx|cx)[0-9a-f]{40}$; non-trivial = the candidate is a mutated (near-miss) form of a canonical string; distinct by (address, candidate)")
	defer rec.Flush(t)

	ev.Check(t, 20000, 100000, func(rt *rapid.T) {
		var a *common.Address
		switch rapid.IntRange(0, 5).Draw(rt, "idShape") {
		case 0:
			id := bytes.Repeat([]byte{rapid.SampledFrom([]byte{0x00, 0xff, 0xaa, 0x11, 0x0a, 0xa0}).Draw(rt, "fill")}, 20)
			a = common.NewAddressWithTypeAndID(rapid.Bool().Draw(rt, "contract"), id)
		default:
			a = gen.Address(rt, "addr")
		}
		want := c36Text(a)

		// 1. one canonical string, mapped back by the strict parser
		s := a.String()
		if s != want || a.String() != s {
			rt.Fatalf("C36 violated: address %x prints as %q (then %q), canonical text is %q", a[:], s, a.String(), want)
		}
		if !c36Canon.MatchString(s) {
			rt.Fatalf("C36 violated: String()=%q is not of the canonical form", s)
		}
		// stale receiver contents (incl. the type byte of an earlier address) must not survive
		stale := rapid.SampledFrom([]byte{0, 1, 0x5a}).Draw(rt, "staleType")
		var b common.Address
		for i := range b {
			b[i] = 0x5a
		}
		b[0] = stale
		if err := b.SetStringStrict(s); err != nil {
			rt.Fatalf("C36 violated: SetStringStrict(%q) rejects the canonical text of %x: %v", s, a[:], err)
		}
		if b != *a {
			rt.Fatalf("C36 violated: SetStringStrict(%q) gives %x want %x", s, b[:], a[:])
		}

		// 2. byte forms
		var c common.Address
		for i := range c {
			c[i] = 0x5a
		}
		c[0] = stale
		bs := append([]byte{}, a.Bytes()...)
		if len(bs) != common.AddressBytes {
			rt.Fatalf("C36 violated: Bytes() of %s has %d bytes", s, len(bs))
		}
		if err := c.SetBytes(bs); err != nil || c != *a {
			rt.Fatalf("C36 violated: SetBytes(Bytes(%s)=%x) gives %x err=%v", s, bs, c[:], err)
		}
		if n, err := common.NewAddress(bs); err != nil || *n != *a {
			rt.Fatalf("C36 violated: NewAddress(Bytes(%s)=%x) gives %v err=%v", s, bs, n, err)
		}
		var d common.Address
		for i := range d {
			d[i] = 0x5a
		}
		d[0] = stale
		if err := d.SetBytes(append([]byte{}, a.ID()...)); err != nil {
			rt.Fatalf("C36 violated: SetBytes(20-byte id %x) error %v", a.ID(), err)
		}
		if d.IsContract() || !bytes.Equal(d.ID(), a.ID()) || d[0] != 0 {
			rt.Fatalf("C36 violated: SetBytes(20-byte id %x) gives %x, want the account address with that id", a.ID(), d[:])
		}
		enc, err := codec.BC.MarshalToBytes(a)
		if err != nil {
			rt.Fatalf("C36 violated: codec encode of %s failed: %v", s, err)
		}
		var e common.Address
		if _, err := codec.BC.UnmarshalFromBytes(enc, &e); err != nil || e != *a {
			rt.Fatalf("C36 violated: codec round trip of %s (%x) gives %x err=%v", s, enc, e[:], err)
		}

		// 3. the strict parser accepts exactly the canonical strings
		cand, kind := c36Mutate(rt, s)
		canonical := c36Canon.MatchString(cand)
		var p common.Address
		perr := p.SetStringStrict(cand)
		labels := []string{"mut:" + kind}
		if canonical {
			labels = append(labels, "cand:canonical")
		} else {
			labels = append(labels, "cand:noncanonical")
		}
		if a.IsContract() {
			labels = append(labels, "contract")
		} else {
			labels = append(labels, "account")
		}
		near := kind != "none" && kind != "random"
		rec.Case(fmt.Sprintf("addr=%s cand=%s", s, c36Hash(cand)), near, labels...)
		if canonical {
			if perr != nil {
				rt.Fatalf("C36 violated: SetStringStrict rejects canonical string %q: %v", cand, perr)
			}
			if got := c36Text(&p); got != cand || p.String() != cand {
				rt.Fatalf("C36 violated: SetStringStrict(%q) gives %x which prints as %q", cand, p[:], p.String())
			}
		} else if perr == nil {
			rt.Fatalf("C36 violated: SetStringStrict accepts non-canonical string %q (-> %s)", cand, p.String())
		}
		// 4. the JSON-RPC gate (server/jsonrpc/validator.go: the strict check in front of the lenient parser that
		// jsonrpc.Address uses) accepts exactly the same strings, and an accepted one becomes the address it spells
		if msg := c36RPC(cand, canonical); msg != "" {
			rt.Fatalf("C36 violated: %s", msg)
		}
	})
}

type c36AddrParam struct {
	A jsonrpc.Address `validate:"t_addr"`
}
type c36EoaParam struct {
	A jsonrpc.Address `validate:"t_addr_eoa"`
}
type c36ScoreParam struct {
	A jsonrpc.Address `validate:"t_addr_score"`
}

var c36Validator = jsonrpc.NewValidator()

func c36RPC(cand string, canonical bool) (msg string) {
	defer func() {
		if r := recover(); r != nil {
			msg = fmt.Sprintf("JSON-RPC address validation/conversion of %q panics: %v", cand, r)
		}
	}()
	okAny := c36Validator.Validate(&c36AddrParam{jsonrpc.Address(cand)}) == nil
	okEoa := c36Validator.Validate(&c36EoaParam{jsonrpc.Address(cand)}) == nil
	okScore := c36Validator.Validate(&c36ScoreParam{jsonrpc.Address(cand)}) == nil
	wantEoa := canonical && strings.HasPrefix(cand, "hx")
	wantScore := canonical && strings.HasPrefix(cand, "cx")
	if okAny != canonical || okEoa != wantEoa || okScore != wantScore {
		return fmt.Sprintf("JSON-RPC validator verdicts for %q are t_addr=%v t_addr_eoa=%v t_addr_score=%v, the canonical language gives %v/%v/%v",
			cand, okAny, okEoa, okScore, canonical, wantEoa, wantScore)
	}
	if okAny {
		if got := jsonrpc.Address(cand).Address().String(); got != cand {
			return fmt.Sprintf("JSON-RPC parameter %q passes validation and becomes address %s", cand, got)
		}
	}
	return ""
}

// FuzzC36Strict is the native (coverage guided) target of the thorough tier: the strict parser accepts a string
// iff it is canonical (^(hx|cx)[0-9a-f]{40}$) and then yields the address that prints as that string; a 21-byte
// string that SetBytes accepts gives an address whose Bytes() parse back to it.
func FuzzC36Strict(f *testing.F) {
	for _, s := range []string{"hx0000000000000000000000000000000000000000", "cx00112233445566778899aabbccddeeff00112233", "hxFF112233445566778899aabbccddeeff00112233",
		"0x00112233445566778899aabbccddeeff00112233", "00112233445566778899aabbccddeeff00112233", "hx", "", "cx0", " hx0000000000000000000000000000000000000000",
		"hx0000000000000000000000000000000000000000\n", "hx00000000000000000000000000000000000000000", "hx000000000000000000000000000000000000000g"} {
		f.Add(s)
	}
	f.Fuzz(func(t *testing.T, cand string) {
		if len(cand) > 256 {
			return
		}
		var p common.Address
		for i := range p {
			p[i] = 0x5a
		}
		err := p.SetStringStrict(cand)
		if c36Canon.MatchString(cand) {
			if err != nil {
				t.Fatalf("C36 violated: SetStringStrict rejects canonical string %q: %v", cand, err)
			}
			if got := c36Text(&p); got != cand || p.String() != cand {
				t.Fatalf("C36 violated: SetStringStrict(%q) gives %x which prints as %q", cand, p[:], p.String())
			}
			var q common.Address
			if err := q.SetBytes(p.Bytes()); err != nil || q != p {
				t.Fatalf("C36 violated: SetBytes(Bytes(%s)) gives %x err=%v", cand, q[:], err)
			}
		} else if err == nil {
			t.Fatalf("C36 violated: SetStringStrict accepts non-canonical string %q (-> %s)", cand, p.String())
		}
		if msg := c36RPC(cand, c36Canon.MatchString(cand)); msg != "" {
			t.Fatalf("C36 violated: %s", msg)
		}
	})
}
