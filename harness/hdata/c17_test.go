package hdata

import (
	"bytes"
	"fmt"
	"sort"
	"strings"
	"testing"

	"github.com/icon-project/goloop/common/crypto"
	"github.com/icon-project/goloop/common/db"
	"github.com/icon-project/goloop/common/trie"
	"github.com/icon-project/goloop/common/trie/cache"
	"github.com/icon-project/goloop/common/trie/trie_manager"
	"pgregory.net/rapid"

	"verifharness/internal/ev"
)

// C17: a trie behaves exactly like a key/value map under any sequence of sets and deletes:
// lookups return the last written value, iteration returns exactly the stored pairs in
// ascending key order, prefix iteration returns exactly the pairs with that prefix. The root
// hash depends only on the stored pairs, not on operation order, snapshots, cache clearing,
// flushing or reloading from the database.
//
// Oracle: a Go map as reference model. The root is compared with
//   (a) the root of a fresh trie built from the sorted model by sets only (canonical-ness), and
//   (b) an independent MPT root computed in this file (hex-prefix + RLP + SHA3-256, written from
//       the Ethereum MPT specification and /repo/doc/btp_extension.md "Merkle Patricia Trie").
// Not decided here (the statement does not cover it): the "old value" results of Set/Delete,
// empty values (a zero-length value is indistinguishable from "absent" in a branch node; all
// callers store non-empty encodings), behaviour on database errors.
//
// Embedding rule of (b): goloop embeds a child node whose encoding is <= 32 bytes (Ethereum
// and the text of btp_extension.md say "shorter than 32 bytes", i.e. < 32). Both variants are
// computed; the label "node32" counts states in which they differ. The statement only demands
// that the root is a function of the pairs, which holds for either rule, so the check accepts
// the rule the implementation uses consistently (<= 32) and reports the deviation from the
// document only as an observation (label "rootIsDocVariant" / "rootIsImplVariant").

// ---------------------------------------------------------------- independent reference root

func c17RlpBytes(b []byte) []byte {
	if len(b) == 1 && b[0] < 0x80 {
		return []byte{b[0]}
	}
	return append(c17RlpHead(0x80, len(b)), b...)
}

func c17RlpHead(base byte, n int) []byte {
	if n <= 55 {
		return []byte{base + byte(n)}
	}
	var l []byte
	for x := n; x > 0; x >>= 8 {
		l = append([]byte{byte(x)}, l...)
	}
	return append([]byte{base + 55 + byte(len(l))}, l...)
}

func c17RlpList(items ...[]byte) []byte {
	var body []byte
	for _, it := range items {
		body = append(body, it...)
	}
	return append(c17RlpHead(0xc0, len(body)), body...)
}

func c17HexPrefix(nibs []byte, leaf bool) []byte {
	flag := byte(0)
	if leaf {
		flag = 2
	}
	var out []byte
	if len(nibs)%2 == 1 {
		out = append(out, (flag|1)<<4|nibs[0])
		nibs = nibs[1:]
	} else {
		out = append(out, flag<<4)
	}
	for i := 0; i < len(nibs); i += 2 {
		out = append(out, nibs[i]<<4|nibs[i+1])
	}
	return out
}

type c17kv struct {
	nibs []byte
	val  []byte
}

type c17ref struct {
	inlineMax int // child encodings of at most this many bytes are embedded
	branches  int
	node32    int // nodes whose encoding is exactly 32 bytes (not counting the root)
}

// enc returns the RLP encoding of the node holding kvs (sorted, all sharing nibs[:depth]).
func (r *c17ref) enc(kvs []c17kv, depth int) []byte {
	if len(kvs) == 1 {
		return c17RlpList(c17RlpBytes(c17HexPrefix(kvs[0].nibs[depth:], true)), c17RlpBytes(kvs[0].val))
	}
	// longest common prefix from depth (sorted => compare first and last)
	first, last := kvs[0].nibs, kvs[len(kvs)-1].nibs
	cp := 0
	for depth+cp < len(first) && depth+cp < len(last) && first[depth+cp] == last[depth+cp] {
		cp++
	}
	if cp > 0 {
		return c17RlpList(c17RlpBytes(c17HexPrefix(first[depth:depth+cp], false)), r.link(kvs, depth+cp))
	}
	r.branches++
	items := make([][]byte, 17)
	rest := kvs
	items[16] = c17RlpBytes(nil)
	if len(rest[0].nibs) == depth {
		items[16] = c17RlpBytes(rest[0].val)
		rest = rest[1:]
	}
	for i := 0; i < 16; i++ {
		n := 0
		for n < len(rest) && rest[n].nibs[depth] == byte(i) {
			n++
		}
		if n == 0 {
			items[i] = c17RlpBytes(nil)
		} else {
			items[i] = r.link(rest[:n], depth+1)
			rest = rest[n:]
		}
	}
	return c17RlpList(items...)
}

func (r *c17ref) link(kvs []c17kv, depth int) []byte {
	e := r.enc(kvs, depth)
	if len(e) == 32 {
		r.node32++
	}
	if len(e) <= r.inlineMax {
		return e
	}
	return c17RlpBytes(crypto.SHA3Sum256(e))
}

func c17SortedKeys(model map[string][]byte) []string {
	keys := make([]string, 0, len(model))
	for k := range model {
		keys = append(keys, k)
	}
	sort.Strings(keys)
	return keys
}

// c17RefRoot computes the root of the model with the given embedding threshold.
func c17RefRoot(model map[string][]byte, inlineMax int) (root []byte, branches, node32 int) {
	if len(model) == 0 {
		return nil, 0, 0
	}
	var kvs []c17kv
	for _, k := range c17SortedKeys(model) { // byte order == nibble order
		nibs := make([]byte, 0, 2*len(k))
		for i := 0; i < len(k); i++ {
			nibs = append(nibs, k[i]>>4, k[i]&0xf)
		}
		kvs = append(kvs, c17kv{nibs, model[k]})
	}
	r := &c17ref{inlineMax: inlineMax}
	return crypto.SHA3Sum256(r.enc(kvs, 0)), r.branches, r.node32
}

// ---------------------------------------------------------------- generator

var c17Alphabet = []byte{0x00, 0x01, 0x10}

func c17DrawKey(rt *rapid.T, wide bool) []byte {
	if wide {
		// wide fan-out: 1-2 byte keys (and a few 32-byte ones) over all 16 first nibbles
		k := []byte{rapid.Byte().Draw(rt, "kw0") & 0xf1}
		switch rapid.IntRange(0, 5).Draw(rt, "kwkind") {
		case 0:
		case 1:
			k = append(k, bytes.Repeat([]byte{0x33}, 31)...)
		default:
			k = append(k, rapid.Byte().Draw(rt, "kw1")&0x31)
		}
		return k
	}
	short := func(max int) []byte {
		n := rapid.IntRange(0, max).Draw(rt, "klen")
		k := make([]byte, n)
		for i := range k {
			k[i] = rapid.SampledFrom(c17Alphabet).Draw(rt, "ksym")
		}
		return k
	}
	if rapid.IntRange(0, 3).Draw(rt, "kkind") != 0 {
		return short(6)
	}
	// 32-byte key: short shared prefix, then a filler, possibly a differing last byte
	k := short(3)
	fill := rapid.SampledFrom([]byte{0x00, 0x11, 0xf0}).Draw(rt, "kfill")
	for len(k) < 32 {
		k = append(k, fill)
	}
	k[31] = rapid.SampledFrom([]byte{0x00, 0x01, 0x10, 0xff}).Draw(rt, "klast")
	// keys longer than a hash (33, 40, 64 bytes) take the non-pooled nibble buffer path
	if ext := rapid.SampledFrom([]int{0, 0, 0, 1, 8, 32}).Draw(rt, "klong"); ext > 0 {
		k = append(k, bytes.Repeat([]byte{fill}, ext)...)
	}
	return k
}

var c17ValLens = []int{1, 1, 2, 3, 8, 20, 24, 25, 26, 27, 28, 29, 30, 31, 32, 33, 34, 40, 54, 55, 56, 57, 100, 255, 256, 300}

func c17DrawVal(rt *rapid.T) []byte {
	n := rapid.SampledFrom(c17ValLens).Draw(rt, "vlen")
	b := rapid.SampledFrom([]byte{0x01, 0x7f, 0x80, 0xab}).Draw(rt, "vbyte")
	return bytes.Repeat([]byte{b}, n)
}

type c17snap struct {
	s     trie.Snapshot
	model map[string][]byte
	at    int
}

func c17Copy(m map[string][]byte) map[string][]byte {
	c := make(map[string][]byte, len(m))
	for k, v := range m {
		c[k] = v
	}
	return c
}

// c17Contents compares lookups, full iteration and prefix iteration of s with the model.
// order: 0 = lookups first, 1 = iteration first (the nodes of a freshly reloaded or cache-cleared trie
// are then loaded by the iterator, not by Get), 2 = prefix iteration first
func c17Contents(s trie.Immutable, model map[string][]byte, pool [][]byte, prefixes [][]byte, order int) string {
	if order != 0 {
		ps := append([][]byte{nil}, prefixes...)
		if order == 2 && len(prefixes) > 0 {
			ps = append(append([][]byte{}, prefixes...), nil)
		}
		if msg := c17Iterate(s, model, ps); msg != "" {
			return msg
		}
	}
	for _, k := range pool {
		v, err := s.Get(k)
		if err != nil {
			return fmt.Sprintf("Get(%x) error %v", k, err)
		}
		if want, ok := model[string(k)]; ok {
			if !bytes.Equal(v, want) {
				return fmt.Sprintf("Get(%x)=%x, last written value %x", k, v, want)
			}
		} else if v != nil {
			return fmt.Sprintf("Get(%x)=%x for a key that is not stored", k, v)
		}
	}
	if s.Empty() != (len(model) == 0) {
		return fmt.Sprintf("Empty()=%v with %d stored pairs", s.Empty(), len(model))
	}
	return c17Iterate(s, model, append([][]byte{nil}, prefixes...))
}

func c17Iterate(s trie.Immutable, model map[string][]byte, ps [][]byte) string {
	keys := c17SortedKeys(model)
	for _, p := range ps {
		var want []string
		for _, k := range keys {
			if strings.HasPrefix(k, string(p)) {
				want = append(want, k)
			}
		}
		var it trie.Iterator
		what := fmt.Sprintf("Filter(%x)", p)
		if p == nil {
			it = s.Iterator()
			what = "Iterator()"
		} else {
			it = s.Filter(p)
		}
		i := 0
		for ; it.Has(); i++ {
			v, k, err := it.Get()
			if err != nil {
				return fmt.Sprintf("%s item %d error %v", what, i, err)
			}
			if i >= len(want) {
				return fmt.Sprintf("%s yields extra pair %x=%x after the %d expected", what, k, v, len(want))
			}
			if string(k) != want[i] {
				return fmt.Sprintf("%s item %d has key %x, expected %x (expected keys %x)", what, i, k, want[i], want)
			}
			if !bytes.Equal(v, model[want[i]]) {
				return fmt.Sprintf("%s item %d key %x has value %x, stored %x", what, i, k, v, model[want[i]])
			}
			if err := it.Next(); err != nil {
				return fmt.Sprintf("%s Next after item %d: %v", what, i, err)
			}
			if i > len(model)+2 {
				break
			}
		}
		if i != len(want) {
			return fmt.Sprintf("%s yields %d pairs, expected %d (%x)", what, i, len(want), want)
		}
	}
	return ""
}

func c17FreshRoot(model map[string][]byte) []byte {
	m := trie_manager.NewMutable(db.NewMapDB(), nil)
	for _, k := range c17SortedKeys(model) {
		if _, err := m.Set([]byte(k), model[k]); err != nil {
			panic(err)
		}
	}
	return m.GetSnapshot().Hash()
}

func TestC17(t *testing.T) {
	rec := ev.New("C17", "rapid state machine over one mutable trie on a MapDB: set/delete/get/snapshot/flush/reload-from-DB/reset-to-snapshot/ClearCache over a drawn key pool (0-6 byte keys from {00,01,10}, empty key, 32-byte keys with shared prefixes, some 33-64 byte keys, a wide fan-out mode) with values of 1..100 bytes; after drawn steps and at the end lookups, Iterator, Filter and root are compared with a map model, a fresh trie and an independent MPT root; non-trivial = some delete removed a branch node of the reference trie and a reload from the database followed; distinct by (pool, op list)")
	defer rec.Flush(t)
	maxOps := ev.Pick(60, 160)
	ev.Check(t, 5000, 40000, func(rt *rapid.T) {
		wide := rapid.IntRange(0, 4).Draw(rt, "wide") == 0
		np := rapid.IntRange(2, 14).Draw(rt, "npool")
		if wide {
			np = rapid.IntRange(8, 40).Draw(rt, "npoolw")
		}
		withCache := rapid.IntRange(0, 3).Draw(rt, "nodeCache") == 0
		var pool [][]byte
		seen := map[string]bool{}
		for len(pool) < np {
			k := c17DrawKey(rt, wide)
			if seen[string(k)] {
				// derive a sibling instead of rejecting: extend by one symbol
				k = append(append([]byte{}, k...), rapid.SampledFrom(c17Alphabet).Draw(rt, "kext"))
				if seen[string(k)] {
					continue
				}
			}
			seen[string(k)] = true
			pool = append(pool, k)
		}
		// prefixes used for Filter: prefixes of pool keys, whole keys, one absent prefix
		var prefixes [][]byte
		pseen := map[string]bool{}
		addP := func(p []byte) {
			if len(p) > 0 && !pseen[string(p)] {
				pseen[string(p)] = true
				prefixes = append(prefixes, p)
			}
		}
		for _, s := range c17Alphabet {
			addP([]byte{s})
		}
		for i := 0; i < 4; i++ {
			k := pool[rapid.IntRange(0, np-1).Draw(rt, "pkey")]
			addP(k[:rapid.IntRange(0, len(k)).Draw(rt, "plen")])
		}
		addP([]byte{0x10, 0x77})
		addP([]byte{0x02})

		mdb := db.NewMapDB()
		mut := trie_manager.NewMutable(mdb, nil)
		nc := cache.NewNodeCache(3, 0, "")
		if withCache {
			trie_manager.SetCacheOfMutable(mut, nc)
		}
		model := map[string][]byte{}
		var snaps []c17snap
		var ops []string
		collapsed, collapsedThenReload := false, false
		sawNode32, emptyKey := false, false
		nops := rapid.IntRange(6, maxOps).Draw(rt, "nops")

		fail := func(format string, args ...interface{}) {
			rt.Fatalf("C17 violated: %s\n pool=%x\n ops=%s", fmt.Sprintf(format, args...), pool, strings.Join(ops, " "))
		}
		verify := func(s trie.Immutable, m map[string][]byte, what string) {
			if msg := c17Contents(s, m, pool, prefixes, rapid.IntRange(0, 2).Draw(rt, "readOrder")); msg != "" {
				fail("%s: %s", what, msg)
			}
			got := s.Hash()
			impl, _, n32 := c17RefRoot(m, 32)
			doc, _, _ := c17RefRoot(m, 31)
			if n32 > 0 {
				sawNode32 = true
				if bytes.Equal(got, doc) && !bytes.Equal(impl, doc) {
					rec.Label("rootIsDocVariant")
				} else if bytes.Equal(got, impl) && !bytes.Equal(impl, doc) {
					rec.Label("rootIsImplVariant")
				}
			}
			if fresh := c17FreshRoot(m); !bytes.Equal(got, fresh) {
				fail("%s: root %x differs from root %x of a fresh trie holding the same %d pairs", what, got, fresh, len(m))
			}
			if !bytes.Equal(got, impl) {
				fail("%s: root %x differs from independently computed MPT root %x (%d pairs)", what, got, impl, len(m))
			}
		}
		checkMutable := func(what string) {
			for _, k := range pool {
				v, err := mut.Get(k)
				if err != nil {
					fail("%s: mutable Get(%x) error %v", what, k, err)
				}
				want, ok := model[string(k)]
				if ok && !bytes.Equal(v, want) {
					fail("%s: mutable Get(%x)=%x, last written %x", what, k, v, want)
				}
				if !ok && v != nil {
					fail("%s: mutable Get(%x)=%x for a key that is not stored", what, k, v)
				}
			}
		}

		for i := 0; i < nops; i++ {
			op := rapid.IntRange(0, 99).Draw(rt, "op")
			switch {
			case op < 30: // set
				ki := rapid.IntRange(0, np-1).Draw(rt, "ki")
				v := c17DrawVal(rt)
				if rapid.IntRange(0, 7).Draw(rt, "same") == 0 {
					if old, ok := model[string(pool[ki])]; ok {
						v = old // rewrite of the same value
					}
				}
				ops = append(ops, fmt.Sprintf("set(%d,%02x*%d)", ki, v[0], len(v)))
				if _, err := mut.Set(pool[ki], v); err != nil {
					fail("Set error %v", err)
				}
				model[string(pool[ki])] = v
				if len(pool[ki]) == 0 {
					emptyKey = true
				}
			case op < 54: // delete
				ki := rapid.IntRange(0, np-1).Draw(rt, "ki")
				ops = append(ops, fmt.Sprintf("del(%d)", ki))
				_, before, _ := c17RefRoot(model, 32)
				if _, err := mut.Delete(pool[ki]); err != nil {
					fail("Delete error %v", err)
				}
				delete(model, string(pool[ki]))
				if _, after, _ := c17RefRoot(model, 32); after < before {
					collapsed = true
				}
			case op < 58: // get
				ops = append(ops, "get")
				checkMutable("get")
			case op < 66: // snapshot, retained
				ops = append(ops, "snap")
				snaps = append(snaps, c17snap{mut.GetSnapshot(), c17Copy(model), i})
			case op < 71: // flush a snapshot (a retained one or a new one)
				if len(snaps) > 0 && rapid.Bool().Draw(rt, "old") {
					si := rapid.IntRange(0, len(snaps)-1).Draw(rt, "si")
					ops = append(ops, fmt.Sprintf("flush(s%d)", si))
					if err := snaps[si].s.Flush(); err != nil {
						fail("Flush error %v", err)
					}
				} else {
					ops = append(ops, "flush")
					if err := mut.GetSnapshot().Flush(); err != nil {
						fail("Flush error %v", err)
					}
				}
			case op < 83: // reload: flush, then continue on a trie opened from the database by hash
				ops = append(ops, "reload")
				s := mut.GetSnapshot()
				if err := s.Flush(); err != nil {
					fail("Flush error %v", err)
				}
				mut = trie_manager.NewMutable(mdb, s.Hash())
				if withCache {
					trie_manager.SetCacheOfMutable(mut, nc)
				}
				if collapsed {
					collapsedThenReload = true
				}
				im := trie_manager.NewImmutable(mdb, s.Hash())
				verify(im, model, "immutable reloaded from database")
			case op < 87: // reset to a retained snapshot
				if len(snaps) == 0 {
					ops = append(ops, "noop")
					break
				}
				si := rapid.IntRange(0, len(snaps)-1).Draw(rt, "si")
				ops = append(ops, fmt.Sprintf("reset(s%d)", si))
				if rapid.Bool().Draw(rt, "viaNew") {
					mut = trie_manager.NewMutableFromImmutable(snaps[si].s)
				} else if err := mut.Reset(snaps[si].s); err != nil {
					fail("Reset error %v", err)
				}
				model = c17Copy(snaps[si].model)
			case op < 93: // clear cache of the mutable or of a snapshot
				if len(snaps) > 0 && rapid.Bool().Draw(rt, "old") {
					si := rapid.IntRange(0, len(snaps)-1).Draw(rt, "si")
					ops = append(ops, fmt.Sprintf("clear(s%d)", si))
					snaps[si].s.ClearCache()
				} else {
					ops = append(ops, "clear")
					mut.ClearCache()
				}
			default: // full comparison now
				ops = append(ops, "check")
				checkMutable("check")
				verify(mut.GetSnapshot(), model, "snapshot of current state")
			}
		}
		ops = append(ops, "end")
		checkMutable("end")
		verify(mut.GetSnapshot(), model, "snapshot of final state")
		for i, sn := range snaps {
			verify(sn.s, sn.model, fmt.Sprintf("retained snapshot s%d taken at step %d", i, sn.at))
		}

		desc := fmt.Sprintf("cache=%v pool=%x ops=%s", withCache, pool, strings.Join(ops, " "))
		if len(desc) > 900 {
			desc = fmt.Sprintf("%s… (%d ops, sha3=%x)", desc[:800], len(ops), crypto.SHA3Sum256([]byte(desc))[:8])
		}
		labels := []string{}
		if collapsed {
			labels = append(labels, "deleteCollapsedBranch")
		}
		if len(snaps) > 0 {
			labels = append(labels, "retainedSnapshots")
		}
		if sawNode32 {
			labels = append(labels, "node32")
		}
		if emptyKey {
			labels = append(labels, "emptyKey")
		}
		if wide {
			labels = append(labels, "wideFanout")
		}
		if withCache {
			labels = append(labels, "nodeCache")
		}
		rec.Case(desc, collapsedThenReload, labels...)
	})
}
