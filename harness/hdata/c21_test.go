package hdata

import (
	"bytes"
	"fmt"
	"math/big"
	"sort"
	"strings"
	"testing"

	"github.com/icon-project/goloop/common"
	"github.com/icon-project/goloop/common/containerdb"
	"github.com/icon-project/goloop/common/crypto"
	"github.com/icon-project/goloop/common/db"
	"github.com/icon-project/goloop/common/trie"
	"github.com/icon-project/goloop/common/trie/trie_manager"
	"pgregory.net/rapid"

	"verifharness/internal/ev"
)

// C21: distinct container paths (variable, array element, dictionary entry at any nesting depth,
// under any contract prefix) always map to distinct storage keys, composite keys decode back to
// their parts, and array and dictionary containers behave like an array and a map.
//
// A path is a tuple of parts; a part is a byte string: string -> its bytes, []byte, bool -> 00/01,
// integers (int, int16, int32, int64, *big.Int, HexInt) -> minimal big-endian two's complement,
// address -> its 21 bytes. The harness computes these bytes itself (c21part.b). Two paths are
// distinct when their lists of byte strings differ (an int 1 and the byte string 01 are the same
// part; scoredb separates container kinds by a leading type byte, which is just another part).
//
// keys:        tuples T1,T2 (often two different splits of the same byte string, so that the raw
//              concatenations are equal): key(T1) = key(T2) <=> T1 = T2, for ToKey(HashBuilder),
//              ToKey(RLPBuilder), ToKey(PrefixedHashBuilder) (first part = raw prefix) and
//              NewHashKey(prefix) with the same prefix; the key of a path does not depend on how
//              the parts were grouped over ToKey/Append calls; SplitKeys(AppendKeys(T)) = T;
//              the hash key is SHA3-256 of the composite key.
// containers:  several ArrayDB / DictDB (depth 1-3, also through GetDB) / VarDB with adversarial
//              names in ONE store, compared after every operation with reference slices/maps.
// split:       SplitKeys on truncated / bit-flipped composite keys: error, or parts that survive
//              AppendKeys+SplitKeys again; it must not panic (DESIGN/why_tests_cant: FuzzSplitKeys
//              only runs its seeds).
// Not claimed: RawBuilder (concatenates without length prefix by design: used only with fixed-size
// parts), NewHashKey with raw prefixes of different length, empty values, wrong-arity calls.

type c21part struct {
	v interface{} // what is handed to containerdb
	b []byte      // its byte string, computed by the harness
	s string      // rendering
}

func c21IntBytes(x *big.Int) []byte {
	if x.Sign() == 0 {
		return []byte{0}
	}
	for n := 1; ; n++ {
		lim := new(big.Int).Lsh(big.NewInt(1), uint(8*n-1)) // 2^(8n-1)
		if x.Cmp(new(big.Int).Neg(lim)) >= 0 && x.Cmp(lim) < 0 {
			y := new(big.Int).Set(x)
			if y.Sign() < 0 {
				y.Add(y, new(big.Int).Lsh(big.NewInt(1), uint(8*n)))
			}
			b := y.Bytes()
			return append(make([]byte, n-len(b)), b...)
		}
	}
}

var c21Ints = []int64{0, 1, -1, 2, 127, 128, -128, -129, 255, 256, -256, -257, 32767, -32768, 65535, 65536, 1 << 31, -(1 << 31), 1<<63 - 1, -(1 << 63)}
var c21Lens = []int{0, 1, 1, 2, 2, 3, 5, 55, 56, 255, 256}
var c21Syms = []byte{'a', 'b', 0x00, 0x01, 0x7f, 0x80, 0x81, 0xb7, 0xb8, 0xc0, 0xff}

func c21DrawBytes(rt *rapid.T) []byte {
	n := rapid.SampledFrom(c21Lens).Draw(rt, "plen")
	if n > 5 {
		fill := rapid.SampledFrom(c21Syms).Draw(rt, "pfill")
		return bytes.Repeat([]byte{fill}, n)
	}
	b := make([]byte, n)
	for i := range b {
		b[i] = rapid.SampledFrom(c21Syms).Draw(rt, "psym")
	}
	return b
}

func c21DrawPart(rt *rapid.T) c21part {
	switch rapid.IntRange(0, 11).Draw(rt, "pkind") {
	case 0, 1, 2:
		b := c21DrawBytes(rt)
		return c21part{b, b, fmt.Sprintf("bytes:%s", c21Short(b))}
	case 3, 4:
		b := c21DrawBytes(rt)
		return c21part{string(b), b, fmt.Sprintf("str:%s", c21Short(b))}
	case 5:
		v := rapid.SampledFrom(c21Ints).Draw(rt, "pint")
		if rapid.Bool().Draw(rt, "pintAsInt") {
			return c21part{int(v), c21IntBytes(big.NewInt(v)), fmt.Sprintf("int:%d", v)}
		}
		return c21part{v, c21IntBytes(big.NewInt(v)), fmt.Sprintf("int64:%d", v)}
	case 6:
		v := rapid.SampledFrom([]int64{0, 1, -1, 127, 128, -128, -129, 255, 32767, -32768}).Draw(rt, "pint16")
		if rapid.Bool().Draw(rt, "as32") {
			return c21part{int32(v), c21IntBytes(big.NewInt(v)), fmt.Sprintf("int32:%d", v)}
		}
		return c21part{int16(v), c21IntBytes(big.NewInt(v)), fmt.Sprintf("int16:%d", v)}
	case 7:
		x := new(big.Int).SetBytes(rapid.SliceOfN(rapid.Byte(), 0, 12).Draw(rt, "pbig"))
		if rapid.Bool().Draw(rt, "pbigNeg") {
			x.Neg(x)
		}
		if rapid.Bool().Draw(rt, "pbigHex") {
			h := new(common.HexInt)
			h.Set(x)
			return c21part{h, c21IntBytes(x), fmt.Sprintf("hexint:%s", x)}
		}
		return c21part{x, c21IntBytes(x), fmt.Sprintf("big:%s", x)}
	case 8:
		v := rapid.Bool().Draw(rt, "pbool")
		if v {
			return c21part{true, []byte{1}, "bool:true"}
		}
		return c21part{false, []byte{0}, "bool:false"}
	case 9:
		v := rapid.SampledFrom(c21Syms).Draw(rt, "pbyte")
		return c21part{v, []byte{v}, fmt.Sprintf("byte:%02x", v)}
	default:
		id := bytes.Repeat([]byte{rapid.SampledFrom([]byte{0x00, 0x01, 0xab}).Draw(rt, "paddr")}, 20)
		var a *common.Address
		if rapid.Bool().Draw(rt, "pcontract") {
			a = common.NewContractAddress(id)
			return c21part{a, append([]byte{1}, id...), "addr:" + a.String()}
		}
		a = common.NewAccountAddress(id)
		return c21part{a, append([]byte{0}, id...), "addr:" + a.String()}
	}
}

func c21Short(b []byte) string {
	if len(b) > 8 {
		return fmt.Sprintf("%02x*%d", b[0], len(b))
	}
	return fmt.Sprintf("%x", b)
}

func c21TupleString(t []c21part) string {
	var ss []string
	for _, p := range t {
		ss = append(ss, p.s)
	}
	return "(" + strings.Join(ss, ",") + ")"
}

// c21ID is the identity of a path: the list of byte strings.
func c21ID(t []c21part) string {
	var sb strings.Builder
	for _, p := range t {
		fmt.Fprintf(&sb, "%d:%x,", len(p.b), p.b)
	}
	return sb.String()
}

func c21Concat(t []c21part) string {
	var b []byte
	for _, p := range t {
		b = append(b, p.b...)
	}
	return string(b)
}

func c21Values(t []c21part) []interface{} {
	vs := make([]interface{}, len(t))
	for i, p := range t {
		vs[i] = p.v
	}
	return vs
}

// c21SplitOf cuts s into parts at drawn positions (possibly adding empty parts).
func c21SplitOf(rt *rapid.T, s []byte, tag string) []c21part {
	var t []c21part
	rest := s
	for len(rest) > 0 {
		n := rapid.IntRange(0, len(rest)).Draw(rt, tag+"cut")
		if n == 0 && rapid.IntRange(0, 2).Draw(rt, tag+"empty") != 0 {
			n = 1
		}
		b := append([]byte{}, rest[:n]...)
		rest = rest[n:]
		if rapid.Bool().Draw(rt, tag+"asStr") {
			t = append(t, c21part{string(b), b, "str:" + c21Short(b)})
		} else {
			t = append(t, c21part{b, b, "bytes:" + c21Short(b)})
		}
		if len(t) > 8 {
			t = append(t, c21part{rest, rest, "bytes:" + c21Short(rest)})
			break
		}
	}
	return t
}

// key of a path for a builder kind, with the parts grouped at drawn positions over ToKey/Append
func c21Key(rt *rapid.T, kind containerdb.KeyBuilderType, t []c21part, tag string) []byte {
	vs := c21Values(t)
	lo := 0
	if kind == containerdb.PrefixedHashBuilder {
		lo = 1 // ToKey needs the prefix
	}
	first := rapid.IntRange(lo, len(vs)).Draw(rt, tag+"grp0")
	kb := containerdb.ToKey(kind, vs[:first]...)
	for first < len(vs) {
		n := rapid.IntRange(1, len(vs)-first).Draw(rt, tag+"grp")
		kb = kb.Append(vs[first : first+n]...)
		first += n
	}
	return kb.Build()
}

// ---------------------------------------------------------------- stores

type c21mapStore struct{ m map[string][]byte }

func (s *c21mapStore) GetValue(k []byte) ([]byte, error) {
	if v, ok := s.m[string(k)]; ok {
		return v, nil
	}
	return nil, nil
}
func (s *c21mapStore) SetValue(k, v []byte) ([]byte, error) {
	old := s.m[string(k)]
	s.m[string(k)] = append([]byte{}, v...)
	return old, nil
}
func (s *c21mapStore) DeleteValue(k []byte) ([]byte, error) {
	old := s.m[string(k)]
	delete(s.m, string(k))
	return old, nil
}

// ---------------------------------------------------------------- container model

type c21array struct {
	base []c21part
	ref  [][]byte
	// two long-lived handles (created on first use, kept across later operations and across roll-backs of the store,
	// the way icstate keeps its ArrayDB while the state is reset)
	h [2]*containerdb.ArrayDB
}
type c21dict struct {
	base  []c21part
	depth int
	ref   map[string][]byte // c21ID(keys) -> value
	keys  map[string][]c21part
}
type c21var struct {
	base []c21part
	ref  []byte
}

func TestC21(t *testing.T) {
	rec := ev.New("C21", "keys: two tuples of typed parts (strings/bytes/ints/big/HexInt/bool/byte/address, lengths 0,1,2,55,56,255,256, RLP-header-like bytes), two thirds of the time two different splits of one byte string, keyed with Hash/RLP/PrefixedHash builders and drawn ToKey/Append groupings; containers: 2-6 ArrayDB/DictDB(depth 1-3)/VarDB with names from {'',a,b,ab,abc,a\\x00} and type bytes as scoredb, 10-60 put/pop/set/get/delete operations in one map- or trie-backed store, every container compared with a reference after every operation; split: SplitKeys on damaged composite keys. non-trivial = the case holds two DISTINCT tuples (keys) / live storage paths (containers) whose raw concatenations are equal; distinct by rendered case")
	defer rec.Flush(t)

	builders := []struct {
		name string
		kind containerdb.KeyBuilderType
	}{{"hash", containerdb.HashBuilder}, {"rlp", containerdb.RLPBuilder}, {"prefixedHash", containerdb.PrefixedHashBuilder}}

	t.Run("keys", func(t *testing.T) {
		ev.Check(t, 4000, 40000, func(rt *rapid.T) {
			var t1, t2 []c21part
			mode := rapid.IntRange(0, 5).Draw(rt, "mode")
			switch {
			case mode < 4: // two splits of one string
				var s []byte
				n := rapid.IntRange(0, 10).Draw(rt, "slen")
				for i := 0; i < n; i++ {
					s = append(s, rapid.SampledFrom(c21Syms).Draw(rt, "ssym"))
				}
				t1 = c21SplitOf(rt, s, "a")
				t2 = c21SplitOf(rt, s, "b")
			case mode == 4: // typed tuples
				for i, n := 0, rapid.IntRange(0, 5).Draw(rt, "n1"); i < n; i++ {
					t1 = append(t1, c21DrawPart(rt))
				}
				for i, n := 0, rapid.IntRange(0, 5).Draw(rt, "n2"); i < n; i++ {
					t2 = append(t2, c21DrawPart(rt))
				}
			default: // same tuple re-typed: equal byte strings given as other Go types
				for i, n := 0, rapid.IntRange(1, 5).Draw(rt, "n1"); i < n; i++ {
					p := c21DrawPart(rt)
					t1 = append(t1, p)
					if rapid.Bool().Draw(rt, "retype") {
						t2 = append(t2, c21part{append([]byte{}, p.b...), p.b, "bytes:" + c21Short(p.b)})
					} else {
						t2 = append(t2, c21part{string(p.b), p.b, "str:" + c21Short(p.b)})
					}
				}
			}
			same := c21ID(t1) == c21ID(t2)
			desc := fmt.Sprintf("T1=%s T2=%s", c21TupleString(t1), c21TupleString(t2))
			fail := func(format string, args ...interface{}) {
				rt.Fatalf("C21 violated: %s\n %s", fmt.Sprintf(format, args...), desc)
			}
			// composite key and its decoding
			for _, tu := range [][]c21part{t1, t2} {
				ck := containerdb.AppendKeys(nil, c21Values(tu)...)
				parts, err := containerdb.SplitKeys(ck)
				if err != nil {
					fail("SplitKeys(AppendKeys%s = %x) error %v", c21TupleString(tu), ck, err)
				}
				if len(parts) != len(tu) {
					fail("SplitKeys(AppendKeys%s = %x) has %d parts, expected %d", c21TupleString(tu), ck, len(parts), len(tu))
				}
				for i := range parts {
					if !bytes.Equal(parts[i], tu[i].b) {
						fail("SplitKeys(AppendKeys%s = %x) part %d is %x, expected %x", c21TupleString(tu), ck, i, parts[i], tu[i].b)
					}
				}
				// appending in two steps gives the same composite key
				cut := rapid.IntRange(0, len(tu)).Draw(rt, "ckcut")
				ck2 := containerdb.AppendKeys(containerdb.AppendKeys(nil, c21Values(tu[:cut])...), c21Values(tu[cut:])...)
				if !bytes.Equal(ck, ck2) {
					fail("AppendKeys in two steps (cut %d) gives %x, in one step %x for %s", cut, ck2, ck, c21TupleString(tu))
				}
				// hash builder = SHA3-256 of the composite key; rlp builder = the composite key
				if hk := containerdb.ToKey(containerdb.HashBuilder, c21Values(tu)...).Build(); !bytes.Equal(hk, crypto.SHA3Sum256(ck)) {
					fail("hash key of %s is %x, SHA3-256 of its composite key is %x", c21TupleString(tu), hk, crypto.SHA3Sum256(ck))
				}
				if rk := containerdb.ToKey(containerdb.RLPBuilder, c21Values(tu)...).Build(); !bytes.Equal(rk, ck) {
					fail("rlp key of %s is %x, composite key %x", c21TupleString(tu), rk, ck)
				}
				// NewHashKey(prefix = composite key of the head) == hash key of the whole path
				if nk := containerdb.NewHashKey(containerdb.AppendKeys(nil, c21Values(tu[:cut])...), c21Values(tu[cut:])...).Build(); !bytes.Equal(nk, crypto.SHA3Sum256(ck)) {
					fail("NewHashKey(prefix of %d parts) of %s is %x, expected %x", cut, c21TupleString(tu), nk, crypto.SHA3Sum256(ck))
				}
			}
			// retained siblings: builders derived from one parent are independent values. A parent p (itself
			// derived by Append), child c1 = p.Append(t1...), then child c2 = p.Append(t2...): c1 must still
			// build the key of prefix+t1 after c2 exists (contracts keep several sub-container handles).
			for _, b := range builders {
				pre := []c21part{{"pfx", []byte("pfx"), "str:pfx"}}
				if extra := rapid.IntRange(0, 2).Draw(rt, "sibPrefix"); extra > 0 && len(t2) > 0 {
					pre = append(pre, t2[:min(extra, len(t2))]...)
				}
				root := containerdb.ToKey(b.kind, c21Values(pre[:1])...)
				p := root.Append(c21Values(pre[1:])...)
				if rapid.Bool().Draw(rt, "sibDeeper") {
					p = p.Append("mid")
					pre = append(pre, c21part{"mid", []byte("mid"), "str:mid"})
				}
				c1 := p.Append(c21Values(t1)...)
				want1 := containerdb.ToKey(b.kind, c21Values(append(append([]c21part{}, pre...), t1...))...).Build()
				c2 := p.Append(c21Values(t2)...)
				want2 := containerdb.ToKey(b.kind, c21Values(append(append([]c21part{}, pre...), t2...))...).Build()
				if got := c1.Build(); !bytes.Equal(got, want1) {
					fail("%s builder: child builder of path %s+%s builds %x after a sibling was derived from the same parent, expected %x", b.name, c21TupleString(pre), c21TupleString(t1), got, want1)
				}
				if got := c2.Build(); !bytes.Equal(got, want2) {
					fail("%s builder: second child of path %s+%s builds %x, expected %x", b.name, c21TupleString(pre), c21TupleString(t2), got, want2)
				}
			}
			for _, b := range builders {
				if b.kind == containerdb.PrefixedHashBuilder && (len(t1) == 0 || len(t2) == 0) {
					continue
				}
				k1 := c21Key(rt, b.kind, t1, "k1")
				k1b := c21Key(rt, b.kind, t1, "k1b")
				k2 := c21Key(rt, b.kind, t2, "k2")
				if !bytes.Equal(k1, k1b) {
					fail("%s builder: the key of %s depends on the ToKey/Append grouping: %x vs %x", b.name, c21TupleString(t1), k1, k1b)
				}
				if same && !bytes.Equal(k1, k2) {
					fail("%s builder: equal paths give different keys %x / %x", b.name, k1, k2)
				}
				if !same && bytes.Equal(k1, k2) {
					fail("%s builder: distinct paths collide on storage key %x", b.name, k1)
				}
			}
			// same raw prefix, different tails
			pfx := c21DrawBytes(rt)
			n1 := containerdb.NewHashKey(pfx, c21Values(t1)...).Build()
			n2 := containerdb.NewHashKey(pfx, c21Values(t2)...).Build()
			if same != bytes.Equal(n1, n2) {
				fail("NewHashKey(prefix %x): paths equal=%v but keys %x / %x", pfx, same, n1, n2)
			}
			labels := []string{}
			if same {
				labels = append(labels, "keysEqualTuples")
			} else {
				labels = append(labels, "keysDistinctTuples")
			}
			rec.Case("keys "+desc, !same && c21Concat(t1) == c21Concat(t2), labels...)
		})
	})

	t.Run("split", func(t *testing.T) {
		ev.Check(t, 3000, 30000, func(rt *rapid.T) {
			var tu []c21part
			for i, n := 0, rapid.IntRange(1, 4).Draw(rt, "n"); i < n; i++ {
				tu = append(tu, c21DrawPart(rt))
			}
			ck := containerdb.AppendKeys(nil, c21Values(tu)...)
			var data []byte
			how := rapid.SampledFrom([]string{"trunc", "flip", "sizefield", "random"}).Draw(rt, "how")
			switch how {
			case "trunc":
				data = append([]byte{}, ck[:rapid.IntRange(0, len(ck)).Draw(rt, "cut")]...)
			case "flip":
				data = append([]byte{}, ck...)
				i := rapid.IntRange(0, min(len(data)-1, 12)).Draw(rt, "at")
				data[i] ^= byte(1 << uint(rapid.IntRange(0, 7).Draw(rt, "bit")))
			case "sizefield":
				hdr := rapid.SampledFrom([]byte{0xb8, 0xb9, 0xba, 0xbb, 0xbf, 0xc0, 0xf7, 0xf8, 0xff}).Draw(rt, "hdr")
				data = append([]byte{hdr}, rapid.SliceOfN(rapid.SampledFrom([]byte{0x00, 0x01, 0x37, 0x38, 0x7f, 0x80, 0xff}), 0, 9).Draw(rt, "sz")...)
				data = append(data, ck...)
			default:
				data = rapid.SliceOfN(rapid.Byte(), 0, 24).Draw(rt, "rnd")
			}
			desc := fmt.Sprintf("split %s of %s: %x", how, c21TupleString(tu), data)
			if len(desc) > 600 {
				desc = fmt.Sprintf("split %s of %s: %x… (%d bytes, sha3 %x)", how, c21TupleString(tu), data[:40], len(data), crypto.SHA3Sum256(data)[:6])
			}
			parts, err := func() (p [][]byte, err error) {
				defer func() {
					if r := recover(); r != nil {
						rt.Fatalf("C21 violated: SplitKeys(%x) panics: %v", data, r)
					}
				}()
				return containerdb.SplitKeys(data)
			}()
			if err == nil {
				vs := make([]interface{}, len(parts))
				for i := range parts {
					vs[i] = parts[i]
				}
				again, err2 := containerdb.SplitKeys(containerdb.AppendKeys(nil, vs...))
				if err2 != nil || len(again) != len(parts) {
					rt.Fatalf("C21 violated: parts %x decoded from %x do not decode back after AppendKeys: %x, %v", parts, data, again, err2)
				}
				for i := range parts {
					if !bytes.Equal(parts[i], again[i]) {
						rt.Fatalf("C21 violated: parts %x decoded from %x do not decode back after AppendKeys: %x", parts, data, again)
					}
				}
			}
			l := "splitRejected"
			if err == nil {
				l = "splitAccepted"
			}
			rec.Case(desc, false, "split-"+how, l)
		})
	})

	t.Run("containers", func(t *testing.T) {
		names := []string{"", "a", "b", "ab", "abc", "a\x00"}
		keyPool := []c21part{
			{"", []byte{}, "str:"}, {"a", []byte("a"), "str:a"}, {"b", []byte("b"), "str:b"}, {"bc", []byte("bc"), "str:bc"},
			{"c", []byte("c"), "str:c"}, {[]byte("ab"), []byte("ab"), "bytes:ab"}, {0, []byte{0}, "int:0"}, {1, []byte{1}, "int:1"},
			{int64(128), []byte{0, 0x80}, "int64:128"}, {int64(-128), []byte{0x80}, "int64:-128"}, {true, []byte{1}, "bool:true"},
			{[]byte{0x00}, []byte{0}, "bytes:00"}, {"\x00", []byte{0}, "str:00"}, {[]byte{0x81, 0x01}, []byte{0x81, 0x01}, "bytes:8101"},
		}
		maxOps := ev.Pick(60, 200)
		ev.Check(t, 1500, 10000, func(rt *rapid.T) {
			kind := builders[rapid.IntRange(0, 2).Draw(rt, "builder")]
			var store containerdb.BytesStoreState
			useTrie := rapid.IntRange(0, 3).Draw(rt, "trieStore") == 0
			var tm trie.Mutable
			var ms *c21mapStore
			if useTrie {
				tm = trie_manager.NewMutable(db.NewMapDB(), nil)
				store = containerdb.NewBytesStoreStateFromRaw(tm)
			} else {
				ms = &c21mapStore{map[string][]byte{}}
				store = ms
			}
			// roll-back support: a saved point of the store and of the reference model
			type c21save struct {
				snap   trie.Snapshot
				m      map[string][]byte
				arrays [][][]byte
				dicts  []map[string][]byte
				vars   [][]byte
			}
			var saved *c21save
			rollbacks, liveHandleOps := 0, 0
			root := func(typeByte byte, name string) ([]c21part, containerdb.KeyBuilder) {
				base := []c21part{{typeByte, []byte{typeByte}, fmt.Sprintf("byte:%02x", typeByte)}, {name, []byte(name), "str:" + c21Short([]byte(name))}}
				if kind.kind == containerdb.PrefixedHashBuilder {
					// contract prefix as raw part, then the scoredb-like parts
					base = append([]c21part{{[]byte{0x70}, []byte{0x70}, "bytes:70"}}, base...)
				}
				return base, containerdb.ToKey(kind.kind, c21Values(base)...)
			}
			var arrays []*c21array
			var dicts []*c21dict
			var vars []*c21var
			var ops []string
			used := map[string]bool{}
			nc := rapid.IntRange(2, 6).Draw(rt, "ncont")
			for i := 0; i < nc; i++ {
				name := rapid.SampledFrom(names).Draw(rt, "name")
				switch ct := rapid.IntRange(0, 2).Draw(rt, "ctype"); ct {
				case 0:
					if !used["A"+name] {
						used["A"+name] = true
						b, _ := root(0x00, name)
						arrays = append(arrays, &c21array{base: b})
						ops = append(ops, fmt.Sprintf("array(%q)", name))
					}
				case 1:
					if !used["D"+name] {
						used["D"+name] = true
						b, _ := root(0x01, name)
						d := rapid.IntRange(1, 3).Draw(rt, "depth")
						dicts = append(dicts, &c21dict{base: b, depth: d, ref: map[string][]byte{}, keys: map[string][]c21part{}})
						ops = append(ops, fmt.Sprintf("dict(%q,%d)", name, d))
					}
				default:
					if !used["V"+name] {
						used["V"+name] = true
						b, _ := root(0x02, name)
						vars = append(vars, &c21var{base: b})
						ops = append(ops, fmt.Sprintf("var(%q)", name))
					}
				}
			}
			kbOf := func(base []c21part) containerdb.KeyBuilder {
				return containerdb.ToKey(kind.kind, c21Values(base)...)
			}
			fail := func(format string, args ...interface{}) {
				rt.Fatalf("C21 violated: %s\n builder=%s trieStore=%v history: %s", fmt.Sprintf(format, args...), kind.name, useTrie, strings.Join(ops, " "))
			}
			valBytes := func(v containerdb.Value) []byte {
				if v == nil {
					return nil
				}
				return v.Bytes()
			}
			drawKeys := func(n int) []c21part {
				ks := make([]c21part, n)
				for i := range ks {
					ks[i] = keyPool[rapid.IntRange(0, len(keyPool)-1).Draw(rt, "dk")]
				}
				return ks
			}
			// dictionary lookup through a drawn chain of GetDB calls
			dictGet := func(d *c21dict, ks []c21part) containerdb.Value {
				dd := containerdb.NewDictDB(store, d.depth, kbOf(d.base))
				rest := ks
				for len(rest) > 1 && rapid.Bool().Draw(rt, "viaGetDB") {
					n := rapid.IntRange(1, len(rest)-1).Draw(rt, "sub")
					dd = dd.GetDB(c21Values(rest[:n])...)
					if dd == nil {
						fail("GetDB(%s) of a deeper dictionary returns nil", c21TupleString(rest[:n]))
					}
					rest = rest[n:]
				}
				return dd.Get(c21Values(rest)...)
			}
			checkAll := func(after string) {
				for _, a := range arrays {
					adb := containerdb.NewArrayDB(store, kbOf(a.base))
					if adb.Size() != len(a.ref) {
						fail("after %s: array %s has Size()=%d, reference length %d", after, c21TupleString(a.base), adb.Size(), len(a.ref))
					}
					for i, want := range a.ref {
						if got := valBytes(adb.Get(i)); !bytes.Equal(got, want) || got == nil {
							fail("after %s: array %s element %d is %x, reference %x", after, c21TupleString(a.base), i, got, want)
						}
					}
					if v := adb.Get(len(a.ref)); v != nil {
						fail("after %s: array %s of length %d returns %x at index %d", after, c21TupleString(a.base), len(a.ref), v.Bytes(), len(a.ref))
					}
					for hi, h := range a.h {
						if h == nil {
							continue
						}
						if h.Size() != len(a.ref) {
							fail("after %s: array %s has Size()=%d through long-lived handle %d, reference length %d", after, c21TupleString(a.base), h.Size(), hi, len(a.ref))
						}
						if n := len(a.ref); n > 0 {
							if got := valBytes(h.Get(n - 1)); !bytes.Equal(got, a.ref[n-1]) {
								fail("after %s: array %s last element is %x through long-lived handle %d, reference %x", after, c21TupleString(a.base), got, hi, a.ref[n-1])
							}
						}
					}
				}
				for _, d := range dicts {
					ids := make([]string, 0, len(d.keys))
					for id := range d.keys {
						ids = append(ids, id)
					}
					sort.Strings(ids)
					for _, id := range ids {
						got := valBytes(dictGet(d, d.keys[id]))
						want, ok := d.ref[id]
						if ok && !bytes.Equal(got, want) {
							fail("after %s: dict %s entry %s is %x, reference %x", after, c21TupleString(d.base), c21TupleString(d.keys[id]), got, want)
						}
						if !ok && got != nil {
							fail("after %s: dict %s entry %s is %x, reference has no such entry", after, c21TupleString(d.base), c21TupleString(d.keys[id]), got)
						}
					}
				}
				for _, v := range vars {
					got := containerdb.NewVarDB(store, kbOf(v.base)).Bytes()
					if !bytes.Equal(got, v.ref) || (got == nil) != (v.ref == nil) {
						fail("after %s: var %s is %x, reference %x", after, c21TupleString(v.base), got, v.ref)
					}
				}
			}
			siblingOps := 0
			nops := rapid.IntRange(10, maxOps).Draw(rt, "nops")
			for i := 0; i < nops; i++ {
				val := []byte(fmt.Sprintf("v%d", i))
				var valArg interface{} = val
				if rapid.Bool().Draw(rt, "valStr") {
					valArg = string(val)
				}
				total := len(arrays) + len(dicts) + len(vars)
				if total == 0 {
					break
				}
				ci := rapid.IntRange(0, total-1).Draw(rt, "cont")
				var op string
				switch {
				case ci < len(arrays):
					a := arrays[ci]
					adb := containerdb.NewArrayDB(store, kbOf(a.base))
					if hi := rapid.IntRange(0, 3).Draw(rt, "handle"); hi >= 2 {
						// a long-lived handle instead of a fresh one
						if a.h[hi-2] == nil {
							a.h[hi-2] = adb
						}
						adb = a.h[hi-2]
						liveHandleOps++
					}
					switch rapid.IntRange(0, 9).Draw(rt, "aop") {
					case 0, 1, 2, 3:
						op = fmt.Sprintf("put(%s,%s)", a.base[len(a.base)-1].s, val)
						if err := adb.Put(valArg); err != nil {
							fail("Put error %v", err)
						}
						a.ref = append(a.ref, val)
					case 4, 5, 6:
						op = fmt.Sprintf("pop(%s)", a.base[len(a.base)-1].s)
						got := adb.Pop()
						if len(a.ref) == 0 {
							if got != nil {
								fail("%s on an empty array returns %x", op, got.Bytes())
							}
						} else {
							want := a.ref[len(a.ref)-1]
							a.ref = a.ref[:len(a.ref)-1]
							if got == nil || !bytes.Equal(got.Bytes(), want) {
								fail("%s returns %x, last element was %x", op, valBytes(got), want)
							}
						}
					default:
						idx := rapid.IntRange(-1, len(a.ref)+1).Draw(rt, "idx")
						op = fmt.Sprintf("aset(%s,%d,%s)", a.base[len(a.base)-1].s, idx, val)
						err := adb.Set(idx, valArg)
						if idx >= 0 && idx < len(a.ref) {
							if err != nil {
								fail("%s error %v", op, err)
							}
							a.ref[idx] = val
						} else if err == nil {
							fail("%s outside of the array (length %d) succeeds", op, len(a.ref))
						}
					}
				case ci < len(arrays)+len(dicts):
					d := dicts[ci-len(arrays)]
					ks := drawKeys(d.depth)
					id := c21ID(ks)
					d.keys[id] = ks
					ddb := containerdb.NewDictDB(store, d.depth, kbOf(d.base))
					if rapid.IntRange(0, 2).Draw(rt, "dop") != 0 {
						op = fmt.Sprintf("dset(%s,%s,%s)", d.base[len(d.base)-1].s, c21TupleString(ks), val)
						// set through a sub-dictionary or directly
						target, rest := ddb, ks
						if d.depth > 1 && rapid.Bool().Draw(rt, "setViaGetDB") {
							n := rapid.IntRange(1, d.depth-1).Draw(rt, "setSub")
							target, rest = ddb.GetDB(c21Values(ks[:n])...), ks[n:]
							if target == nil {
								fail("GetDB(%s) of a depth-%d dictionary returns nil", c21TupleString(ks[:n]), d.depth)
							}
						}
						if d.depth == 3 && rapid.IntRange(0, 2).Draw(rt, "siblingHandles") == 0 {
							// two handles derived from one sub-dictionary, both alive: write through the FIRST one
							// after the second one was created, then through the second
							ks2 := append(append([]c21part{}, ks[:1]...), drawKeys(2)...)
							sub := ddb.GetDB(c21Values(ks[:1])...)
							if sub == nil {
								fail("GetDB(%s) of a depth-3 dictionary returns nil", c21TupleString(ks[:1]))
							}
							h1 := sub.GetDB(c21Values(ks[1:2])...)
							h2 := sub.GetDB(c21Values(ks2[1:2])...)
							if h1 == nil || h2 == nil {
								fail("GetDB of a depth-2 sub-dictionary returns nil")
							}
							op = fmt.Sprintf("dsetSiblings(%s,%s,%s)", d.base[len(d.base)-1].s, c21TupleString(ks), c21TupleString(ks2))
							if err := h1.Set(c21Values(ks[2:])[0], valArg); err != nil {
								fail("%s error %v", op, err)
							}
							d.ref[id] = val
							val2 := []byte(fmt.Sprintf("w%d", i))
							if err := h2.Set(c21Values(ks2[2:])[0], val2); err != nil {
								fail("%s error %v", op, err)
							}
							id2 := c21ID(ks2)
							d.keys[id2] = ks2
							d.ref[id2] = val2
							siblingOps++
						} else {
							if err := target.Set(append(c21Values(rest), valArg)...); err != nil {
								fail("%s error %v", op, err)
							}
							d.ref[id] = val
						}
					} else {
						op = fmt.Sprintf("ddel(%s,%s)", d.base[len(d.base)-1].s, c21TupleString(ks))
						if err := ddb.Delete(c21Values(ks)...); err != nil {
							fail("%s error %v", op, err)
						}
						delete(d.ref, id)
					}
				default:
					v := vars[ci-len(arrays)-len(dicts)]
					vdb := containerdb.NewVarDB(store, kbOf(v.base))
					if rapid.IntRange(0, 3).Draw(rt, "vop") != 0 {
						op = fmt.Sprintf("vset(%s,%s)", v.base[len(v.base)-1].s, val)
						if err := vdb.Set(valArg); err != nil {
							fail("%s error %v", op, err)
						}
						v.ref = val
					} else {
						op = fmt.Sprintf("vdel(%s)", v.base[len(v.base)-1].s)
						if _, err := vdb.Delete(); err != nil {
							fail("%s error %v", op, err)
						}
						v.ref = nil
					}
				}
				ops = append(ops, op)
				checkAll(op)
				// save point / roll-back of the whole store (a failed transaction is undone like this); handles stay alive
				switch rapid.IntRange(0, 11).Draw(rt, "saveOrRollback") {
				case 0:
					sv := &c21save{}
					if useTrie {
						sv.snap = tm.GetSnapshot()
					} else {
						sv.m = map[string][]byte{}
						for k, v := range ms.m {
							sv.m[k] = v
						}
					}
					for _, a := range arrays {
						sv.arrays = append(sv.arrays, append([][]byte{}, a.ref...))
					}
					for _, d := range dicts {
						c := map[string][]byte{}
						for k, v := range d.ref {
							c[k] = v
						}
						sv.dicts = append(sv.dicts, c)
					}
					for _, v := range vars {
						sv.vars = append(sv.vars, v.ref)
					}
					saved = sv
					ops = append(ops, "save")
				case 1:
					if saved != nil {
						if useTrie {
							if err := tm.Reset(saved.snap); err != nil {
								ev.Inconclusive("C21: trie reset: %v", err)
							}
						} else {
							ms.m = map[string][]byte{}
							for k, v := range saved.m {
								ms.m[k] = v
							}
						}
						for i, a := range arrays {
							a.ref = append([][]byte{}, saved.arrays[i]...)
						}
						for i, d := range dicts {
							d.ref = map[string][]byte{}
							for k, v := range saved.dicts[i] {
								d.ref[k] = v
							}
						}
						for i, v := range vars {
							v.ref = saved.vars[i]
						}
						rollbacks++
						ops = append(ops, "rollback")
						checkAll("rollback")
					}
				}
			}
			// live storage paths and the non-trivial rule
			var live [][]c21part
			for _, a := range arrays {
				if len(a.ref) > 0 {
					live = append(live, a.base)
				}
				for i := range a.ref {
					live = append(live, append(append([]c21part{}, a.base...), c21part{i, c21IntBytes(big.NewInt(int64(i))), ""}))
				}
			}
			for _, d := range dicts {
				for id := range d.ref {
					live = append(live, append(append([]c21part{}, d.base...), d.keys[id]...))
				}
			}
			for _, v := range vars {
				if v.ref != nil {
					live = append(live, v.base)
				}
			}
			byConcat := map[string]string{}
			ambiguous := false
			for _, p := range live {
				id, c := c21ID(p), c21Concat(p)
				if other, ok := byConcat[c]; ok && other != id {
					ambiguous = true
				}
				byConcat[c] = id
			}
			desc := fmt.Sprintf("containers builder=%s trie=%v %s", kind.name, useTrie, strings.Join(ops, " "))
			if len(desc) > 900 {
				desc = fmt.Sprintf("%s… (%d ops, sha3 %x)", desc[:800], len(ops), crypto.SHA3Sum256([]byte(desc))[:6])
			}
			labels := []string{"containers-" + kind.name}
			if useTrie {
				labels = append(labels, "trieStore")
			}
			if len(arrays) > 0 {
				labels = append(labels, "hasArray")
			}
			if len(dicts) > 0 {
				labels = append(labels, "hasDict")
			}
			if siblingOps > 0 {
				labels = append(labels, "siblingHandlesOfOneSubDict")
			}
			if rollbacks > 0 {
				labels = append(labels, "storeRolledBack")
			}
			if liveHandleOps > 0 {
				labels = append(labels, "longLivedArrayHandles")
			}
			if rollbacks > 0 && liveHandleOps > 0 {
				labels = append(labels, "longLivedArrayHandleAcrossRollback")
			}
			rec.Case(desc, ambiguous, labels...)
		})
	})
}
