package hdata

import (
	"bytes"
	"errors"
	"fmt"
	"math/big"
	"reflect"
	"sort"
	"strings"
	"testing"

	"github.com/icon-project/goloop/common"
	"github.com/icon-project/goloop/common/crypto"
	"github.com/icon-project/goloop/common/db"
	"github.com/icon-project/goloop/common/merkle"
	"github.com/icon-project/goloop/common/trie"
	"github.com/icon-project/goloop/common/trie/trie_manager"
	"github.com/icon-project/goloop/service/state"
	"pgregory.net/rapid"

	"verifharness/internal/ev"
)

// C20: starting from only a trusted root hash, feeding a node the data it requests, in any order
// and interleaved with forged or unrequested data, ends with no outstanding requests exactly
// when the local store holds the complete state, and the rebuilt state has the trusted root and
// contents. Data whose hash was not requested is never stored.
//
// Source state (three shapes): "bytes" a plain MPT; "object" an object MPT whose values reference
// a blob in BytesByHash and optionally a nested storage MPT (harness object type mirroring
// state.contract / accountSnapshot.Resolve); "world" a real service/state world state (accounts
// with balance, storage and pending contract code). The source database is written by ONE flush of
// a state built by sets only, so every entry of it is reachable from the root: "complete state"
// = every (bucket,key,value) of the source database.
// Target: merkle.NewBuilder(empty MapDB behind a spy that records every key written).
// The harness plays the network: it repeatedly lists Builder.Requests() and either serves one
// of them (first / last / random one; sometimes tagged with the other hash-addressed bucket id or
// with a bucket id that has no hasher) or injects a payload nobody asked for: random bytes, a
// node of another trie, a requested node with one bit flipped, a genuine source node that is
// not requested yet, a duplicate of an already delivered node.
// Decided after every step:  UnresolvedCount()==0  <=>  every source entry is readable from
// Builder.Database();  an injected payload whose SHA3-256 is neither requested nor already
// delivered is not readable from Builder.Database() under any hash-addressed bucket.
// Decided at the end: after Flush(true) every source entry is in the target MapDB with the same
// value, every key ever written to the target MapDB is the hash of a source entry, and the state
// reopened from the target MapDB by the trusted root has exactly the model contents and that root.
// Not decided: which error OnData returns for unrequested data; whether a requested payload
// delivered under another bucket id is additionally stored under that id.

// ---------------------------------------------------------------- harness object (shape "object")

type c20Obj struct {
	database db.Database
	dataHash []byte
	storRoot []byte
	data     []byte        // source side only
	stor     trie.Snapshot // source side only
}

func (o *c20Obj) Bytes() []byte {
	return append(append([]byte{}, o.dataHash...), o.storRoot...)
}
func (o *c20Obj) Reset(d db.Database, k []byte) error {
	if len(k) != 32 && len(k) != 64 {
		return errors.New("c20Obj: bad length")
	}
	o.database, o.dataHash, o.storRoot = d, k[:32], k[32:]
	return nil
}
func (o *c20Obj) Flush() error {
	if o.data != nil {
		bk, err := o.database.GetBucket(db.BytesByHash)
		if err != nil {
			return err
		}
		if err := bk.Set(o.dataHash, o.data); err != nil {
			return err
		}
	}
	if o.stor != nil {
		return o.stor.Flush()
	}
	return nil
}
func (o *c20Obj) Equal(x trie.Object) bool {
	o2, ok := x.(*c20Obj)
	return ok && bytes.Equal(o.Bytes(), o2.Bytes())
}
func (o *c20Obj) Resolve(b merkle.Builder) error {
	bk, err := b.Database().GetBucket(db.BytesByHash)
	if err != nil {
		return err
	}
	v, err := bk.Get(o.dataHash)
	if err != nil {
		return err
	}
	if v == nil {
		b.RequestData(db.BytesByHash, o.dataHash, o)
	}
	if len(o.storRoot) > 0 {
		trie_manager.NewImmutable(b.Database(), o.storRoot).Resolve(b)
	}
	return nil
}
func (o *c20Obj) OnData(v []byte, b merkle.Builder) error { return nil }
func (o *c20Obj) ClearCache()                             {}

var c20ObjType = reflect.TypeOf((*c20Obj)(nil))

// ---------------------------------------------------------------- source construction

type c20source struct {
	shape   string
	spy     *c19spyDB
	root    []byte
	entries map[string][]byte // bucket + "/" + key -> value, all entries of the source DB
	render  string
	verify  func(dst db.Database) string // compares the state reopened from dst with the model
	// objects whose blob is byte-identical to a trie node of the same state
	lookalikes int
}

func c20KV(rt *rapid.T, tag string, n int, wide bool) map[string][]byte {
	m := map[string][]byte{}
	for i := 0; i < n; i++ {
		k := c17DrawKey(rt, wide)
		if rapid.IntRange(0, 2).Draw(rt, tag+"hashedKey") == 0 {
			k = crypto.SHA3Sum256(k) // well spread 32-byte keys as in real state tries
		}
		v := c17DrawVal(rt)
		if rapid.IntRange(0, 2).Draw(rt, tag+"bigVal") == 0 && len(v) < 33 {
			v = bytes.Repeat([]byte{v[0]}, 40) // hashed leaves; equal suffix+value => shared nodes
		}
		m[string(k)] = v
	}
	return m
}

func c20RenderKV(m map[string][]byte) string {
	var sb strings.Builder
	for _, k := range c17SortedKeys(m) {
		fmt.Fprintf(&sb, " %s=%02x*%d", c21Short([]byte(k)), m[k][0], len(m[k]))
	}
	return sb.String()
}

func c20CompareBytesTrie(im trie.Immutable, model map[string][]byte, what string) string {
	keys := c17SortedKeys(model)
	i := 0
	for it := im.Iterator(); it.Has(); i++ {
		v, k, err := it.Get()
		if err != nil {
			return fmt.Sprintf("%s: iterator error %v", what, err)
		}
		if i >= len(keys) || string(k) != keys[i] || !bytes.Equal(v, model[keys[i]]) {
			return fmt.Sprintf("%s: item %d is %x=%x, model differs", what, i, k, v)
		}
		if err := it.Next(); err != nil {
			return fmt.Sprintf("%s: iterator error %v", what, err)
		}
	}
	if i != len(keys) {
		return fmt.Sprintf("%s: %d pairs, model has %d", what, i, len(keys))
	}
	return ""
}

func c20Build(rt *rapid.T, tag string) *c20source {
	src := &c20source{spy: &c19spyDB{db.NewMapDB(), map[string]bool{}}}
	src.shape = rapid.SampledFrom([]string{"bytes", "bytes", "object", "object", "world"}).Draw(rt, tag+"shape")
	wide := rapid.IntRange(0, 2).Draw(rt, tag+"wide") == 0
	switch src.shape {
	case "bytes":
		model := c20KV(rt, tag, rapid.IntRange(0, ev.Pick(30, 80)).Draw(rt, tag+"n"), wide)
		m := trie_manager.NewMutable(src.spy, nil)
		for _, k := range c17SortedKeys(model) {
			m.Set([]byte(k), model[k])
		}
		s := m.GetSnapshot()
		if err := s.Flush(); err != nil {
			ev.Inconclusive("source flush: %v", err)
		}
		src.root = s.Hash()
		src.render = "bytes:" + c20RenderKV(model)
		src.verify = func(dst db.Database) string {
			im := trie_manager.NewImmutable(dst, src.root)
			if msg := c20CompareBytesTrie(im, model, "rebuilt trie"); msg != "" {
				return msg
			}
			if !bytes.Equal(im.Hash(), src.root) {
				return fmt.Sprintf("rebuilt trie has root %x", im.Hash())
			}
			return ""
		}
	case "object":
		type acct struct {
			data []byte
			stor map[string][]byte
		}
		model := map[string]*acct{}
		n := rapid.IntRange(1, 10).Draw(rt, tag+"n")
		var sb strings.Builder
		m := trie_manager.NewMutableForObject(src.spy, nil, c20ObjType)
		for i := 0; i < n; i++ {
			k := c17DrawKey(rt, wide)
			a := &acct{data: []byte(fmt.Sprintf("blob-%d", rapid.IntRange(0, 3).Draw(rt, tag+"blob")))}
			if rapid.Bool().Draw(rt, tag+"hasStor") {
				a.stor = c20KV(rt, tag+"s", rapid.IntRange(1, 8).Draw(rt, tag+"sn"), false)
			}
			model[string(k)] = a
		}
		// Blobs are arbitrary bytes chosen by whoever deploys them: some are byte-identical to a node of a
		// storage trie of this very state, so one hash is wanted for two buckets (MerkleTrie and BytesByHash).
		// The storage tries are flushed first to read their nodes; they stay reachable through their objects.
		stors := map[string]trie.Snapshot{}
		if rapid.IntRange(0, 2).Draw(rt, tag+"lookalikes") == 0 {
			var nodes [][]byte
			for _, k := range func() []string {
				ks := make([]string, 0, len(model))
				for k := range model {
					ks = append(ks, k)
				}
				sort.Strings(ks)
				return ks
			}() {
				if a := model[k]; a.stor != nil {
					sm := trie_manager.NewMutable(src.spy, nil)
					for _, sk := range c17SortedKeys(a.stor) {
						sm.Set([]byte(sk), a.stor[sk])
					}
					ss := sm.GetSnapshot()
					if err := ss.Flush(); err != nil {
						ev.Inconclusive("source flush: %v", err)
					}
					stors[k] = ss
				}
			}
			var nk []string
			for id := range src.spy.touched {
				if strings.HasPrefix(id, string(db.MerkleTrie)+"/") {
					nk = append(nk, id[len(db.MerkleTrie)+1:])
				}
			}
			sort.Strings(nk)
			bk, _ := src.spy.Database.GetBucket(db.MerkleTrie)
			for _, k := range nk {
				if v, _ := bk.Get([]byte(k)); v != nil {
					nodes = append(nodes, v)
				}
			}
			if len(nodes) > 0 {
				for _, k := range func() []string {
					ks := make([]string, 0, len(model))
					for k := range model {
						ks = append(ks, k)
					}
					sort.Strings(ks)
					return ks
				}() {
					if rapid.IntRange(0, 2).Draw(rt, tag+"lookalike") == 0 {
						model[k].data = nodes[rapid.IntRange(0, len(nodes)-1).Draw(rt, tag+"node")]
						src.lookalikes++
					}
				}
			}
		}
		for _, k := range func() []string {
			ks := make([]string, 0, len(model))
			for k := range model {
				ks = append(ks, k)
			}
			sort.Strings(ks)
			return ks
		}() {
			a := model[k]
			o := &c20Obj{database: src.spy, data: a.data, dataHash: crypto.SHA3Sum256(a.data)}
			if ss, ok := stors[k]; ok {
				o.stor = ss
				o.storRoot = ss.Hash()
			} else if a.stor != nil {
				sm := trie_manager.NewMutable(src.spy, nil)
				for _, sk := range c17SortedKeys(a.stor) {
					sm.Set([]byte(sk), a.stor[sk])
				}
				o.stor = sm.GetSnapshot()
				o.storRoot = o.stor.Hash()
			}
			if _, err := m.Set([]byte(k), o); err != nil {
				ev.Inconclusive("source set: %v", err)
			}
			if bytes.HasPrefix(a.data, []byte("blob-")) {
				fmt.Fprintf(&sb, " %s->{%s;%s}", c21Short([]byte(k)), a.data, c20RenderKV(a.stor))
			} else {
				fmt.Fprintf(&sb, " %s->{node:%x;%s}", c21Short([]byte(k)), a.data, c20RenderKV(a.stor))
			}
		}
		s := m.GetSnapshot()
		if err := s.Flush(); err != nil {
			ev.Inconclusive("source flush: %v", err)
		}
		src.root = s.Hash()
		src.render = "object:" + sb.String()
		src.verify = func(dst db.Database) string {
			im := trie_manager.NewImmutableForObject(dst, src.root, c20ObjType)
			seen := 0
			for it := im.Iterator(); it.Has(); it.Next() {
				obj, k, err := it.Get()
				if err != nil {
					return fmt.Sprintf("rebuilt object trie: iterator error %v", err)
				}
				a, ok := model[string(k)]
				if !ok {
					return fmt.Sprintf("rebuilt object trie has key %x which the model has not", k)
				}
				seen++
				o := obj.(*c20Obj)
				bk, _ := dst.GetBucket(db.BytesByHash)
				if blob, _ := bk.Get(o.dataHash); !bytes.Equal(blob, a.data) {
					return fmt.Sprintf("rebuilt object %x has blob %q, model %q", k, blob, a.data)
				}
				if (len(o.storRoot) > 0) != (a.stor != nil) {
					return fmt.Sprintf("rebuilt object %x storage presence differs from model", k)
				}
				if a.stor != nil {
					if msg := c20CompareBytesTrie(trie_manager.NewImmutable(dst, o.storRoot), a.stor, fmt.Sprintf("storage of %x", k)); msg != "" {
						return msg
					}
				}
			}
			if seen != len(model) {
				return fmt.Sprintf("rebuilt object trie has %d objects, model %d", seen, len(model))
			}
			if !bytes.Equal(im.Hash(), src.root) {
				return fmt.Sprintf("rebuilt object trie has root %x", im.Hash())
			}
			return ""
		}
	default: // world
		type acct struct {
			id      []byte
			balance *big.Int
			stor    map[string][]byte
			code    []byte
		}
		var model []*acct
		ws := state.NewWorldState(src.spy, nil, nil, nil, nil)
		n := rapid.IntRange(1, 8).Draw(rt, tag+"n")
		var sb strings.Builder
		ids := map[string]bool{}
		for i := 0; i < n; i++ {
			idb := bytes.Repeat([]byte{byte(rapid.IntRange(0, 40).Draw(rt, tag+"acct"))}, 20)
			contract := rapid.Bool().Draw(rt, tag+"contract")
			var addr *common.Address
			if contract {
				addr = common.NewContractAddress(idb)
			} else {
				addr = common.NewAccountAddress(idb)
			}
			if ids[string(addr.ID())] {
				continue
			}
			ids[string(addr.ID())] = true
			a := &acct{id: addr.ID(), balance: big.NewInt(int64(rapid.IntRange(1, 1000000).Draw(rt, tag+"bal")))}
			as := ws.GetAccountState(addr.ID())
			as.SetBalance(a.balance)
			if contract {
				as.InitContractAccount(common.NewAccountAddress(make([]byte, 20)))
				if rapid.Bool().Draw(rt, tag+"code") {
					a.code = []byte(fmt.Sprintf("code-%d", rapid.IntRange(0, 2).Draw(rt, tag+"codeid")))
					if _, err := as.DeployContract(a.code, state.JavaEE, "application/java", nil, bytes.Repeat([]byte{byte(i + 1)}, 32)); err != nil {
						ev.Inconclusive("DeployContract: %v", err)
					}
				}
				a.stor = c20KV(rt, tag+"s", rapid.IntRange(0, 8).Draw(rt, tag+"sn"), false)
				for _, sk := range c17SortedKeys(a.stor) {
					if _, err := as.SetValue([]byte(sk), a.stor[sk]); err != nil {
						ev.Inconclusive("SetValue: %v", err)
					}
				}
			}
			model = append(model, a)
			fmt.Fprintf(&sb, " %x->{bal=%s code=%q;%s}", a.id[:2], a.balance, a.code, c20RenderKV(a.stor))
		}
		wss := ws.GetSnapshot()
		if err := wss.Flush(); err != nil {
			ev.Inconclusive("world flush: %v", err)
		}
		src.root = wss.StateHash()
		src.render = "world:" + sb.String()
		src.verify = func(dst db.Database) string {
			w2 := state.NewWorldSnapshot(dst, src.root, nil, nil, nil)
			if !bytes.Equal(w2.StateHash(), src.root) {
				return fmt.Sprintf("rebuilt world state has hash %x", w2.StateHash())
			}
			for _, a := range model {
				as := w2.GetAccountSnapshot(a.id)
				if as == nil {
					return fmt.Sprintf("rebuilt world state lacks account %x", a.id)
				}
				if as.GetBalance().Cmp(a.balance) != 0 {
					return fmt.Sprintf("rebuilt account %x has balance %s, model %s", a.id, as.GetBalance(), a.balance)
				}
				for _, sk := range c17SortedKeys(a.stor) {
					v, err := as.GetValue([]byte(sk))
					if err != nil || !bytes.Equal(v, a.stor[sk]) {
						return fmt.Sprintf("rebuilt account %x storage %x is %x (%v), model %x", a.id, sk, v, err, a.stor[sk])
					}
				}
				if a.code != nil {
					nc := as.NextContract()
					if nc == nil {
						return fmt.Sprintf("rebuilt account %x lacks the pending contract", a.id)
					}
					code, err := nc.Code()
					if err != nil || !bytes.Equal(code, a.code) {
						return fmt.Sprintf("rebuilt account %x has code %q (%v), model %q", a.id, code, err, a.code)
					}
				}
			}
			// no further accounts: the account trie has exactly len(model) entries
			cnt := 0
			for it := trie_manager.NewImmutableForObject(dst, src.root, state.AccountType).Iterator(); it.Has(); it.Next() {
				cnt++
			}
			if cnt != len(model) {
				return fmt.Sprintf("rebuilt world state has %d accounts, model %d", cnt, len(model))
			}
			return ""
		}
	}
	// all entries of the source database
	src.entries = map[string][]byte{}
	for id := range src.spy.touched {
		i := strings.Index(id, "/")
		bk, _ := src.spy.Database.GetBucket(db.BucketID(id[:i]))
		if v, _ := bk.Get([]byte(id[i+1:])); v != nil {
			src.entries[id] = v
		}
	}
	return src
}

func (s *c20source) start(b merkle.Builder) {
	switch s.shape {
	case "bytes":
		trie_manager.NewImmutable(b.Database(), s.root).Resolve(b)
	case "object":
		trie_manager.NewImmutableForObject(b.Database(), s.root, c20ObjType).Resolve(b)
	default:
		if _, err := state.NewWorldSnapshotWithBuilder(b, s.root, nil, nil, nil); err != nil {
			ev.Inconclusive("NewWorldSnapshotWithBuilder: %v", err)
		}
	}
}

type c20req struct {
	key  []byte
	bids []db.BucketID
}

func TestC20(t *testing.T) {
	rec := ev.New("C20", "source = plain MPT (0-30 pairs) / object MPT with blobs and nested storage tries / real world state (balances, storage, pending code), flushed once into a spied MapDB; target = merkle.NewBuilder over an empty spied MapDB started from the root hash; the harness serves Requests() one at a time in a drawn order (first/last/random) and injects random bytes, nodes of another state, bit-flipped requested nodes, genuine nodes that are not requested yet, duplicates, wrong bucket ids; non-trivial = at least one injected unrequested payload and at least one request served out of FIFO order; distinct by (source, schedule)")
	defer rec.Flush(t)
	hashed := []db.BucketID{db.MerkleTrie, db.BytesByHash}
	ev.Check(t, 1500, 30000, func(rt *rapid.T) {
		src := c20Build(rt, "a")
		foreign := c20Build(rt, "f")
		dstSpy := &c19spyDB{db.NewMapDB(), map[string]bool{}}
		builder := merkle.NewBuilder(dstSpy)
		src.start(builder)

		srcKeys := map[string]bool{} // hashes of source entries
		for id := range src.entries {
			srcKeys[id[strings.Index(id, "/")+1:]] = true
		}
		var sched []string
		fail := func(format string, args ...interface{}) {
			s := strings.Join(sched, " ")
			if len(s) > 1500 {
				s = "…" + s[len(s)-1500:]
			}
			rt.Fatalf("C20 violated: %s\n source(root %x) %s\n schedule: %s", fmt.Sprintf(format, args...), src.root, src.render, s)
		}
		view := func(b db.BucketID, k []byte) []byte {
			bk, err := builder.Database().GetBucket(b)
			if err != nil {
				fail("builder database GetBucket(%q): %v", string(b), err)
			}
			v, err := bk.Get(k)
			if err != nil {
				fail("builder database Get: %v", err)
			}
			return v
		}
		missing := map[string]bool{}
		for id := range src.entries {
			missing[id] = true
		}
		delivered := map[string]bool{} // hashes handed over while requested
		invariant := func(after string) {
			for id := range missing {
				i := strings.Index(id, "/")
				if v := view(db.BucketID(id[:i]), []byte(id[i+1:])); v != nil {
					if !bytes.Equal(v, src.entries[id]) {
						fail("after %s: target holds %x under %q/%x, source value is %x", after, v, id[:i], id[i+1:], src.entries[id])
					}
					delete(missing, id)
				}
			}
			u := builder.UnresolvedCount()
			if (u == 0) != (len(missing) == 0) {
				var ex string
				for id := range missing {
					ex = fmt.Sprintf("%q/%x", id[:strings.Index(id, "/")], id[strings.Index(id, "/")+1:])
					break
				}
				fail("after %s: UnresolvedCount()=%d while %d of %d source entries are not in the target (e.g. %s)", after, u, len(missing), len(src.entries), ex)
			}
		}
		requests := func() []c20req {
			var rs []c20req
			for it := builder.Requests(); it.Next(); {
				rs = append(rs, c20req{append([]byte{}, it.Key()...), append([]db.BucketID{}, it.BucketIDs()...)})
			}
			if len(rs) != builder.UnresolvedCount() {
				fail("Requests() lists %d requests, UnresolvedCount()=%d", len(rs), builder.UnresolvedCount())
			}
			return rs
		}
		payloadOf := func(r c20req) (db.BucketID, []byte) {
			for _, b := range r.bids {
				if v, ok := src.entries[string(b)+"/"+string(r.key)]; ok {
					return b, v
				}
			}
			fail("the target requests %x (buckets %q) which is not part of the source state", r.key, r.bids)
			return "", nil
		}
		notStored := func(p []byte, what string) {
			h := crypto.SHA3Sum256(p)
			for _, b := range hashed {
				if v := view(b, h); v != nil {
					fail("%s: payload %x (sha3 %x) was not requested but is stored in bucket %q", what, p, h, string(b))
				}
			}
		}
		foreignList := c17SortedKeys(foreign.entries)
		srcList := c17SortedKeys(src.entries)

		invariant("start")
		forged, nonFifo := 0, 0
		kinds := map[string]bool{}
		budget := 3*len(src.entries) + 30
		for step := 0; builder.UnresolvedCount() > 0; step++ {
			rs := requests()
			requested := map[string]bool{}
			for _, r := range rs {
				requested[string(r.key)] = true
			}
			inject := step < budget && rapid.IntRange(0, 99).Draw(rt, "inject") < 38
			if !inject {
				idx := 0
				if step < budget {
					switch rapid.IntRange(0, 3).Draw(rt, "order") {
					case 0, 1:
					case 2:
						idx = len(rs) - 1
					default:
						idx = rapid.IntRange(0, len(rs)-1).Draw(rt, "idx")
					}
				}
				if idx != 0 {
					nonFifo++
				}
				bid, p := payloadOf(rs[idx])
				tag := bid
				switch rapid.IntRange(0, 11).Draw(rt, "tag") {
				case 0: // the other hash-addressed bucket id: same hasher, still the requested data
					if bid == db.MerkleTrie {
						tag = db.BytesByHash
					} else {
						tag = db.MerkleTrie
					}
					kinds["otherBucketTag"] = true
				case 1: // a bucket id without hasher: cannot be verified; nothing is demanded for the call itself
					tag = db.ChainProperty
					kinds["noHasherTag"] = true
				}
				sched = append(sched, fmt.Sprintf("serve#%d/%d(%x..,%q)", idx, len(rs), rs[idx].key[:3], string(tag)))
				err := builder.OnData(tag, append([]byte{}, p...))
				if tag != db.ChainProperty {
					if err != nil {
						fail("requested payload for %x (bucket %q, delivered as %q) is refused: %v", rs[idx].key, string(bid), string(tag), err)
					}
					delivered[string(rs[idx].key)] = true
				}
				invariant(sched[len(sched)-1])
				if step > budget+2*len(src.entries)+10 {
					fail("requests are still outstanding after %d served payloads for %d source entries", step, len(src.entries))
				}
				continue
			}
			// injection of a payload nobody asked for
			var p []byte
			kind := rapid.SampledFrom([]string{"random", "foreign", "flipped", "early", "dup"}).Draw(rt, "forge")
			switch kind {
			case "random":
				p = rapid.SliceOfN(rapid.Byte(), 1, 80).Draw(rt, "rnd")
			case "foreign":
				if len(foreignList) == 0 {
					continue
				}
				id := rapid.SampledFrom(foreignList).Draw(rt, "fid")
				p = foreign.entries[id]
			case "flipped":
				_, q := payloadOf(rs[rapid.IntRange(0, len(rs)-1).Draw(rt, "fl")])
				p = append([]byte{}, q...)
				p[rapid.IntRange(0, len(p)-1).Draw(rt, "flAt")] ^= byte(1 << uint(rapid.IntRange(0, 7).Draw(rt, "flBit")))
			case "early", "dup":
				id := rapid.SampledFrom(srcList).Draw(rt, "sid")
				p = src.entries[id]
			}
			h := string(crypto.SHA3Sum256(p))
			switch {
			case requested[h]:
				// happens to be a requested payload (e.g. the foreign state shares the node): a normal delivery
				kind = "coincidence"
				delivered[h] = true
			case delivered[h]:
				kind = "dup"
			case srcKeys[h]:
				kind = "early"
			}
			tag := hashed[rapid.IntRange(0, 1).Draw(rt, "ftag")]
			sched = append(sched, fmt.Sprintf("inject-%s(%x..,%q)", kind, []byte(h)[:3], string(tag)))
			_ = builder.OnData(tag, append([]byte{}, p...))
			if kind != "coincidence" && kind != "dup" {
				forged++
				kinds[kind] = true
				notStored(p, sched[len(sched)-1])
			} else {
				kinds[kind] = true
			}
			invariant(sched[len(sched)-1])
		}
		invariant("completion")

		if err := builder.Flush(true); err != nil {
			fail("Flush(true) error %v", err)
		}
		// the target MapDB holds exactly the source entries
		for id, want := range src.entries {
			i := strings.Index(id, "/")
			bk, _ := dstSpy.Database.GetBucket(db.BucketID(id[:i]))
			if got, _ := bk.Get([]byte(id[i+1:])); !bytes.Equal(got, want) {
				fail("after completion and Flush(true) the target lacks source entry %q/%x (has %x)", id[:i], id[i+1:], got)
			}
		}
		for id := range dstSpy.touched {
			i := strings.Index(id, "/")
			if !srcKeys[id[i+1:]] {
				bk, _ := dstSpy.Database.GetBucket(db.BucketID(id[:i]))
				v, _ := bk.Get([]byte(id[i+1:]))
				fail("the target database was written under %q/%x (value %x), which is not the hash of any source entry", id[:i], id[i+1:], v)
			}
		}
		if msg := src.verify(dstSpy.Database); msg != "" {
			fail("%s", msg)
		}

		s := strings.Join(sched, " ")
		desc := fmt.Sprintf("%s | %s", src.render, s)
		if len(desc) > 900 {
			desc = fmt.Sprintf("%s… | %d steps sha3=%x", src.render[:min(len(src.render), 500)], len(sched), crypto.SHA3Sum256([]byte(desc))[:8])
		}
		labels := []string{"shape-" + src.shape}
		if src.lookalikes > 0 {
			labels = append(labels, "blob-identical-to-a-trie-node")
		}
		for k := range kinds {
			labels = append(labels, k)
		}
		if len(src.entries) == 0 {
			labels = append(labels, "emptyState")
		}
		rec.Case(desc, forged > 0 && nonFifo > 0, labels...)
	})
}
