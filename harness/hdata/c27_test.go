package hdata

import (
	"fmt"
	"testing"

	"github.com/icon-project/goloop/common/crypto"
	"github.com/icon-project/goloop/common/db"
	"github.com/icon-project/goloop/common/trie/mta"
	"pgregory.net/rapid"

	"verifharness/internal/ev"
)

// C27: for any number of appended items the accumulator produces, for every item, a witness
// that verifies against its current roots; it can be persisted and recovered with the same
// witnesses; nothing fails or panics.
//
// Oracle: (a) the accumulator's own Verify against its roots, and (b) an independent
// reference: the witness path folded with SHA3-256 must reproduce the root of the perfect
// binary subtree the item belongs to, computed by the harness from the item list alone.

func c27Items(n int, salt byte) [][]byte {
	items := make([][]byte, n)
	for i := range items {
		items[i] = []byte(fmt.Sprintf("item-%d-%d", salt, i))
	}
	return items
}

// refRoots returns, for length n, the list of (start, size, rootHash) of the perfect subtrees
// of the binary-counter decomposition, highest first.
type c27sub struct {
	start, size int
	root        []byte
}

func c27RefHash(items [][]byte, lo, size int) []byte {
	if size == 1 {
		return crypto.SHA3Sum256(items[lo])
	}
	l := c27RefHash(items, lo, size/2)
	r := c27RefHash(items, lo+size/2, size/2)
	return crypto.SHA3Sum256(append(append([]byte{}, l...), r...))
}

func c27RefSubtrees(items [][]byte) []c27sub {
	var out []c27sub
	n := len(items)
	start := 0
	for bit := 62; bit >= 0; bit-- {
		sz := 1 << uint(bit)
		if n&sz != 0 {
			out = append(out, c27sub{start, sz, c27RefHash(items, start, sz)})
			start += sz
		}
	}
	return out
}

func c27Fold(ws []mta.Witness, h []byte) []byte {
	for _, w := range ws {
		if w.Direction == mta.Left {
			h = crypto.SHA3Sum256(append(append([]byte{}, w.HashValue...), h...))
		} else {
			h = crypto.SHA3Sum256(append(append([]byte{}, h...), w.HashValue...))
		}
	}
	return h
}

// c27CheckAll checks every index of accumulator a (holding items) and returns a failure text.
func c27CheckAll(a *mta.Accumulator, items [][]byte, phase string) string {
	subs := c27RefSubtrees(items)
	if a.Len() != int64(len(items)) {
		return fmt.Sprintf("%s: Len()=%d want %d", phase, a.Len(), len(items))
	}
	// witnesses are values handed to other parties: all of them are kept (with a private deep copy) while further
	// witnesses are requested from the same accumulator, and must read and verify the same afterwards
	held := make([][]mta.Witness, len(items))
	copies := make([][]mta.Witness, len(items))
	for i, d := range items {
		w, err := a.WitnessFor(int64(i))
		if err != nil {
			return fmt.Sprintf("%s: n=%d WitnessFor(%d) error %v", phase, len(items), i, err)
		}
		held[i] = w
		for _, e := range w {
			copies[i] = append(copies[i], mta.Witness{HashValue: append([]byte{}, e.HashValue...), Direction: e.Direction})
		}
		h := crypto.SHA3Sum256(d)
		if err := a.Verify(w, h); err != nil {
			return fmt.Sprintf("%s: n=%d witness for %d does not verify: %v", phase, len(items), i, err)
		}
		// independent reference
		var want []byte
		var wantLen int
		for _, s := range subs {
			if i >= s.start && i < s.start+s.size {
				want = s.root
				for x := s.size; x > 1; x >>= 1 {
					wantLen++
				}
			}
		}
		if len(w) != wantLen {
			return fmt.Sprintf("%s: n=%d witness for %d has %d elements, reference %d", phase, len(items), i, len(w), wantLen)
		}
		if got := c27Fold(w, h); string(got) != string(want) {
			return fmt.Sprintf("%s: n=%d witness for %d folds to %x, reference subtree root %x", phase, len(items), i, got, want)
		}
		// a witness must not verify another item's hash
		if len(items) > 1 {
			o := crypto.SHA3Sum256(items[(i+1)%len(items)])
			if err := a.Verify(w, o); err == nil {
				return fmt.Sprintf("%s: n=%d witness for %d verifies item %d", phase, len(items), i, (i+1)%len(items))
			}
		}
	}
	if _, err := a.WitnessFor(int64(len(items))); err == nil {
		return fmt.Sprintf("%s: n=%d WitnessFor(n) succeeded", phase, len(items))
	}
	for i, d := range items {
		if len(held[i]) != len(copies[i]) {
			return fmt.Sprintf("%s: n=%d the witness obtained for %d changed its length after later WitnessFor calls", phase, len(items), i)
		}
		for j := range held[i] {
			if held[i][j].Direction != copies[i][j].Direction || string(held[i][j].HashValue) != string(copies[i][j].HashValue) {
				return fmt.Sprintf("%s: n=%d element %d of the witness obtained for %d changed after later WitnessFor calls (%x -> %x)", phase, len(items), j, i, copies[i][j].HashValue, held[i][j].HashValue)
			}
		}
		if err := a.Verify(held[i], crypto.SHA3Sum256(d)); err != nil {
			return fmt.Sprintf("%s: n=%d the witness obtained for %d no longer verifies after later WitnessFor calls: %v", phase, len(items), i, err)
		}
	}
	return ""
}

func c27Run(n int, salt byte, flushAt []int) (msg string) {
	defer func() {
		if r := recover(); r != nil {
			msg = fmt.Sprintf("n=%d flushAt=%v: panic: %v", n, flushAt, r)
		}
	}()
	mdb := db.NewMapDB()
	bk, _ := mdb.GetBucket("")
	a := &mta.Accumulator{KeyForState: []byte("a"), Bucket: bk}
	items := c27Items(n, salt)
	fl := map[int]bool{}
	for _, f := range flushAt {
		fl[f] = true
	}
	for i, d := range items {
		w := a.AddData(d)
		if err := a.Verify(w, crypto.SHA3Sum256(d)); err != nil {
			return fmt.Sprintf("n=%d: witness returned by AddData(%d) does not verify: %v", n, i, err)
		}
		if fl[i+1] {
			// persist mid-way and continue on a recovered instance
			if err := a.Flush(); err != nil {
				return fmt.Sprintf("n=%d: Flush at %d: %v", n, i+1, err)
			}
			a = &mta.Accumulator{KeyForState: []byte("a"), Bucket: bk}
			if err := a.Recover(); err != nil {
				return fmt.Sprintf("n=%d: Recover at %d: %v", n, i+1, err)
			}
			if m := c27CheckAll(a, items[:i+1], fmt.Sprintf("recovered@%d", i+1)); m != "" {
				return m
			}
		}
	}
	if m := c27CheckAll(a, items, "live"); m != "" {
		return m
	}
	if err := a.Flush(); err != nil {
		return fmt.Sprintf("n=%d: Flush: %v", n, err)
	}
	b := &mta.Accumulator{KeyForState: []byte("a"), Bucket: bk}
	if err := b.Recover(); err != nil {
		return fmt.Sprintf("n=%d: Recover: %v", n, err)
	}
	if m := c27CheckAll(b, items, "recovered"); m != "" {
		return m
	}
	// same witnesses before and after persistence
	for i := range items {
		w1, _ := a.WitnessFor(int64(i))
		w2, _ := b.WitnessFor(int64(i))
		if fmt.Sprint(w1) != fmt.Sprint(w2) {
			return fmt.Sprintf("n=%d: witness %d differs after recover", n, i)
		}
	}
	return ""
}

func c27Pow2m1(n int) bool { return n&(n+1) == 0 }

func TestC27(t *testing.T) {
	rec := ev.New("C27", "lengths 0..N enumerated (every index, live and after Flush+Recover) plus rapid-drawn (length, mid-way flush points); non-trivial = length not of the form 2^k-1 (some root slot empty); distinct by (length, flush points)")
	defer rec.Flush(t)
	maxN := ev.Pick(300, 1100)
	t.Run("exhaustive", func(t *testing.T) {
		for n := 0; n <= maxN; n++ {
			msg := c27Run(n, 0, nil)
			rec.Case(fmt.Sprintf("len=%d flushAt=[]", n), !c27Pow2m1(n), "enumerated")
			if msg != "" {
				t.Fatalf("C27 violated: %s", msg)
			}
		}
		rec.Extra("enumerated_lengths", maxN+1)
	})
	t.Run("random", func(t *testing.T) {
		ev.Check(t, 150, 600, func(rt *rapid.T) {
			n := rapid.IntRange(0, 400).Draw(rt, "n")
			k := rapid.IntRange(0, 4).Draw(rt, "k")
			var fl []int
			for i := 0; i < k && n > 0; i++ {
				fl = append(fl, rapid.IntRange(1, n).Draw(rt, "flushAt"))
			}
			salt := rapid.Byte().Draw(rt, "salt")
			msg := c27Run(n, salt, fl)
			rec.Case(fmt.Sprintf("len=%d flushAt=%v", n, fl), !c27Pow2m1(n), "random")
			if msg != "" {
				rt.Fatalf("C27 violated: %s", msg)
			}
		})
	})
}
