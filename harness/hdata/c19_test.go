package hdata

import (
	"bytes"
	"fmt"
	"sort"
	"strings"
	"testing"

	"github.com/icon-project/goloop/common/db"
	"pgregory.net/rapid"

	"verifharness/internal/ev"
)

// C19: a layered database view reflects its own writes and deletes over the underlying store;
// committing the layer makes the underlying store equal to the layered view, and discarding it
// leaves the underlying store exactly as it was.
//
// Oracle: reference model = base maps + per-layer overlay with tombstones. The underlying store
// is a real db.NewMapDB() behind a thin spy that only remembers which keys were ever touched, so
// that "exactly as it was" / "equal to the view" can be compared over every key that can possibly
// exist (touched keys + the whole key pool, in every bucket), not only over the keys of the case.
// Variant "stacked": a second layer on top of the first one (the underlying store of a layer may
// itself be a layer, as merkle.NewBuilder(layerDB) does); the statement is checked for the top
// layer against the view of the layer below, and for the lower layer against the MapDB.
// Empty values: over the MapDB a zero-length value is a stored value (Has = true, Get has length 0)
// both in the layer and in the store, so "the underlying store equals the layered view" is decided
// for them too (presence through Has; whether Get returns nil or an empty slice for a present empty
// value is not decided). About one set in eight writes an empty or nil value.
// Not decided: the error Flush(false) returns after a commit (the layer is then in direct mode: only
// "the underlying store stays as it is" is checked), the order in which a commit replays writes.

var c19Buckets = []db.BucketID{db.MerkleTrie, db.BytesByHash, db.ChainProperty}

type c19spyDB struct {
	db.Database
	touched map[string]bool // bucket + "/" + key
}

type c19spyBucket struct {
	db.Bucket
	id  db.BucketID
	spy *c19spyDB
}

func (s *c19spyDB) GetBucket(id db.BucketID) (db.Bucket, error) {
	bk, err := s.Database.GetBucket(id)
	if err != nil {
		return nil, err
	}
	return &c19spyBucket{bk, id, s}, nil
}

func (b *c19spyBucket) Set(k, v []byte) error {
	b.spy.touched[string(b.id)+"/"+string(k)] = true
	return b.Bucket.Set(k, v)
}

func (b *c19spyBucket) Delete(k []byte) error {
	b.spy.touched[string(b.id)+"/"+string(k)] = true
	return b.Bucket.Delete(k)
}

// model
type c19store map[string][]byte // bucket + "/" + key -> value; missing = absent

type c19layer struct {
	over   map[string]*[]byte // nil pointer value = tombstone
	direct bool
	real   db.LayerDB
}

type c19world struct {
	base   c19store
	layers []*c19layer // bottom first
}

func (w *c19world) view(level int, id string) []byte { // level = number of layers considered
	for i := level - 1; i >= 0; i-- {
		l := w.layers[i]
		if l.direct {
			continue
		}
		if p, ok := l.over[id]; ok {
			if p == nil {
				return nil
			}
			return *p
		}
	}
	return w.base[id]
}

func (w *c19world) write(level int, id string, v *[]byte) { // write arriving at layer index level-1
	for i := level - 1; i >= 0; i-- {
		l := w.layers[i]
		if !l.direct {
			l.over[id] = v
			return
		}
	}
	if v == nil {
		delete(w.base, id)
	} else {
		w.base[id] = *v
	}
}

func c19q(v []byte) string {
	if v == nil {
		return "<absent>"
	}
	return fmt.Sprintf("%q", v)
}

func TestC19(t *testing.T) {
	rec := ev.New("C19", "rapid histories on db.NewLayerDB over a MapDB pre-filled with drawn pairs (3 buckets, 7-key pool per bucket incl. keys shared between buckets; optionally a second layer stacked on the first): set (about 1 in 8 with an empty or nil value)/delete/get/has through cached or freshly fetched bucket handles, interleaved with Flush(true)/Flush(false) of a drawn layer, compared step by step with a map+tombstone model; at every flush the whole underlying store is compared; non-trivial = a key present in the underlying store was deleted and then set again in one uncommitted layer generation which was then committed; distinct by (prefill, op list)")
	defer rec.Flush(t)
	maxOps := ev.Pick(40, 120)
	keyPool := []string{"a", "b", "ab", "k3", "\x00", "key-with-longer-name", "z"}
	ev.Check(t, 10000, 80000, func(rt *rapid.T) {
		spy := &c19spyDB{db.NewMapDB(), map[string]bool{}}
		w := &c19world{base: c19store{}}
		var ops []string
		emptyVals := 0
		// prefill the underlying store directly
		npre := rapid.IntRange(0, 8).Draw(rt, "npre")
		for i := 0; i < npre; i++ {
			b := rapid.SampledFrom(c19Buckets).Draw(rt, "pb")
			k := rapid.SampledFrom(keyPool).Draw(rt, "pk")
			v := []byte(fmt.Sprintf("base%d", i))
			if rapid.IntRange(0, 9).Draw(rt, "pempty") == 0 {
				v = []byte{}
				emptyVals++
			}
			bk, err := spy.GetBucket(b)
			if err != nil {
				ev.Inconclusive("MapDB GetBucket: %v", err)
			}
			if err := bk.Set([]byte(k), v); err != nil {
				ev.Inconclusive("MapDB Set: %v", err)
			}
			w.base[string(b)+"/"+k] = v
			ops = append(ops, fmt.Sprintf("pre(%q,%q,%q)", string(b), k, v))
		}
		depth := 1
		if rapid.IntRange(0, 3).Draw(rt, "stacked") == 0 {
			depth = 2
		}
		var under db.Database = spy
		ctxBase := rapid.IntRange(0, 4).Draw(rt, "ctxBase") == 0
		if ctxBase {
			// the store handed to NewLayerDB carries context flags (as the chain database does)
			under = db.WithFlags(spy, db.Flags{"verif": 1})
		}
		bottom := under
		for i := 0; i < depth; i++ {
			l := &c19layer{over: map[string]*[]byte{}, real: db.NewLayerDB(under)}
			w.layers = append(w.layers, l)
			under = l.real
		}
		top := w.layers[depth-1].real
		cached := map[db.BucketID]db.Bucket{}

		fail := func(format string, args ...interface{}) {
			rt.Fatalf("C19 violated: %s\n depth=%d history: %s", fmt.Sprintf(format, args...), depth, strings.Join(ops, " "))
		}
		bucket := func(d db.Database, b db.BucketID, fresh bool) db.Bucket {
			if !fresh {
				if bk, ok := cached[b]; ok && d == top {
					return bk
				}
			}
			bk, err := d.GetBucket(b)
			if err != nil {
				fail("GetBucket(%q) error %v", string(b), err)
			}
			if d == top {
				cached[b] = bk
			}
			return bk
		}
		allIDs := func() []string {
			set := map[string]bool{}
			for id := range spy.touched {
				set[id] = true
			}
			for _, b := range c19Buckets {
				for _, k := range keyPool {
					set[string(b)+"/"+k] = true
				}
			}
			ids := make([]string, 0, len(set))
			for id := range set {
				ids = append(ids, id)
			}
			sort.Strings(ids)
			return ids
		}
		// compare database d (a layer or the MapDB) with the model view at the given level
		compare := func(d db.Database, level int, what string) {
			for _, id := range allIDs() {
				i := strings.Index(id, "/")
				b, k := db.BucketID(id[:i]), []byte(id[i+1:])
				bk, err := d.GetBucket(b)
				if err != nil {
					fail("%s: GetBucket error %v", what, err)
				}
				want := w.view(level, id)
				got, err := bk.Get(k)
				if err != nil {
					fail("%s: Get(%q,%q) error %v", what, string(b), k, err)
				}
				if !bytes.Equal(got, want) || (want == nil && got != nil) {
					fail("%s: bucket %q key %q holds %s, expected %s", what, string(b), k, c19q(got), c19q(want))
				}
				has, err := bk.Has(k)
				if err != nil {
					fail("%s: Has(%q,%q) error %v", what, string(b), k, err)
				}
				if has != (want != nil) {
					fail("%s: Has(%q,%q)=%v, expected %v", what, string(b), k, has, want != nil)
				}
			}
		}

		// tracking for the non-trivial rule, per layer generation of the top layer
		deleted := map[string]bool{} // base-present keys deleted in the current generation
		delThenSet := false
		nontrivial := false
		commits, discards := 0, 0

		// (bucket,key) choice biased towards pairs that exist in the store below the top layer
		pick := func() (db.BucketID, string) {
			if rapid.IntRange(0, 2).Draw(rt, "present") != 0 {
				var ids []string
				for _, id := range allIDs() {
					if w.view(depth-1, id) != nil || deleted[id] {
						ids = append(ids, id)
					}
				}
				if len(ids) > 0 {
					id := rapid.SampledFrom(ids).Draw(rt, "pid")
					i := strings.Index(id, "/")
					return db.BucketID(id[:i]), id[i+1:]
				}
			}
			return rapid.SampledFrom(c19Buckets).Draw(rt, "b"), rapid.SampledFrom(keyPool).Draw(rt, "k")
		}
		regenerated := 0

		nops := rapid.IntRange(3, maxOps).Draw(rt, "nops")
		for i := 0; i <= nops; i++ {
			op := rapid.IntRange(0, 99).Draw(rt, "op")
			if i == nops {
				op = 99 // always end with a flush
			}
			switch {
			case op < 34: // set
				b, k := pick()
				v := []byte(fmt.Sprintf("v%d", i))
				arg := v
				switch rapid.IntRange(0, 15).Draw(rt, "vkind") {
				case 0:
					v, arg = []byte{}, []byte{}
					emptyVals++
				case 1:
					v, arg = []byte{}, nil // Set(k, nil) stores a zero-length value, like the MapDB does
					emptyVals++
				}
				fresh := rapid.Bool().Draw(rt, "fresh")
				ops = append(ops, fmt.Sprintf("set(%q,%q,%q)", string(b), k, v))
				if err := bucket(top, b, fresh).Set([]byte(k), arg); err != nil {
					fail("Set error %v", err)
				}
				id := string(b) + "/" + k
				if deleted[id] && !w.layers[depth-1].direct {
					delThenSet = true
				}
				vv := v
				w.write(depth, id, &vv)
			case op < 60: // delete
				b, k := pick()
				fresh := rapid.Bool().Draw(rt, "fresh")
				ops = append(ops, fmt.Sprintf("del(%q,%q)", string(b), k))
				id := string(b) + "/" + k
				if w.view(depth-1, id) != nil && !w.layers[depth-1].direct {
					deleted[id] = true
				}
				if err := bucket(top, b, fresh).Delete([]byte(k)); err != nil {
					fail("Delete error %v", err)
				}
				w.write(depth, id, nil)
			case op < 80: // get + has
				b, k := pick()
				fresh := rapid.Bool().Draw(rt, "fresh")
				ops = append(ops, fmt.Sprintf("get(%q,%q)", string(b), k))
				bk := bucket(top, b, fresh)
				want := w.view(depth, string(b)+"/"+k)
				got, err := bk.Get([]byte(k))
				if err != nil {
					fail("Get error %v", err)
				}
				if !bytes.Equal(got, want) || (want == nil && got != nil) {
					fail("layer Get(%q,%q)=%s, the view holds %s", string(b), k, c19q(got), c19q(want))
				}
				has, err := bk.Has([]byte(k))
				if err != nil {
					fail("Has error %v", err)
				}
				if has != (want != nil) {
					fail("layer Has(%q,%q)=%v, the view holds %s", string(b), k, has, c19q(want))
				}
			case op < 87: // full view comparison
				ops = append(ops, "view")
				compare(top, depth, "layer view")
			default: // flush a layer
				li := depth - 1
				if depth == 2 && rapid.IntRange(0, 3).Draw(rt, "lower") == 0 {
					li = 0
				}
				write := rapid.IntRange(0, 2).Draw(rt, "commit") != 0
				l := w.layers[li]
				ops = append(ops, fmt.Sprintf("flush(L%d,%v)", li, write))
				err := l.real.Flush(write)
				if write {
					if err != nil {
						fail("Flush(true) error %v", err)
					}
					if !l.direct {
						for id, p := range l.over {
							w.write(li, id, p)
						}
						l.over = map[string]*[]byte{}
						l.direct = true
						if li == depth-1 {
							commits++
							if delThenSet {
								nontrivial = true
							}
						}
					}
				} else if !l.direct {
					if err != nil {
						fail("Flush(false) error %v", err)
					}
					l.over = map[string]*[]byte{}
					if li == depth-1 {
						discards++
					}
				}
				if li == depth-1 {
					deleted = map[string]bool{}
					delThenSet = false
				}
				if li == depth-1 && l.direct && i < nops && rapid.IntRange(0, 3).Draw(rt, "regen") != 0 {
					// the committed layer is finished: start a new layer generation on the same store
					ops = append(ops, "newlayer")
					under := bottom
					if depth == 2 {
						under = w.layers[0].real
					}
					w.layers[li] = &c19layer{over: map[string]*[]byte{}, real: db.NewLayerDB(under)}
					top = w.layers[li].real
					cached = map[db.BucketID]db.Bucket{}
					regenerated++
				}
				// the underlying store of that layer, and everything above and below
				compare(spy, 0, fmt.Sprintf("underlying MapDB after flush(L%d,%v)", li, write))
				for x := 0; x < depth; x++ {
					compare(w.layers[x].real, x+1, fmt.Sprintf("view of layer %d after flush(L%d,%v)", x, li, write))
				}
			}
		}
		desc := strings.Join(ops, " ")
		if len(desc) > 900 {
			desc = fmt.Sprintf("%s… (%d ops, %d bytes)", desc[:820], len(ops), len(desc))
		}
		labels := []string{fmt.Sprintf("depth%d", depth)}
		if commits > 0 {
			labels = append(labels, "committed")
		}
		if discards > 0 {
			labels = append(labels, "discarded")
		}
		if ctxBase {
			labels = append(labels, "ctxBase")
		}
		if regenerated > 0 {
			labels = append(labels, "severalGenerations")
		}
		if commits > 0 && discards > 0 {
			labels = append(labels, "commitAndDiscard")
		}
		if emptyVals > 0 {
			labels = append(labels, "emptyValueWritten")
		}
		rec.Case(fmt.Sprintf("depth=%d ctx=%v %s", depth, ctxBase, desc), nontrivial, labels...)
	})
}
