package hdata

import (
	"bytes"
	"fmt"
	"strings"
	"testing"

	"github.com/icon-project/goloop/common/db"
	"github.com/icon-project/goloop/common/trie"
	"github.com/icon-project/goloop/common/trie/trie_manager"
	"pgregory.net/rapid"

	"verifharness/internal/ev"
)

// C18: for any trie and any stored key, the proof the trie produces verifies against the root
// hash and yields the stored value; proofs for absent keys never yield a value; any proof that
// was altered or belongs to another root is rejected.
//
// The verifier is always a trie opened on an EMPTY database from the 32-byte root hash only,
// so it knows nothing but the root. Oracle = construction: the harness knows the stored map and
// knows which proofs are genuine and which it altered.
//
//   completeness  stored k:  Prove(k, GetProof(k)) = (stored value, nil), for proofs taken from
//                 an unflushed snapshot, a flushed one and a trie reloaded from the database.
//   soundness     any k, any element list assembled from genuine/altered elements:
//                 the result is an error, or the value really stored under k; never a value for
//                 an absent k.
//   rejection     a genuine proof of a stored key with ONE element flipped / resized / removed /
//                 replaced by different bytes / swapped with its neighbour / preceded by an
//                 inserted element, or a genuine proof taken from a trie with another root:
//                 error. (Every element of a genuine proof of a stored key is a hashed node on
//                 the path, so each of these alterations breaks the hash chain.)
// Not demanded: elements appended AFTER a complete proof (ignored by the verifier when the key
// ends in a branch node; no soundness impact; DESIGN.md C18).
// Not decided: what exactly Prove returns for an absent key as long as it is not a value. On this
// tree Prove(k, GetProof(k)) dereferences a nil object (panic in mptForBytes.Prove) when the
// absent key ends exactly at a branch node that carries no value; a panic yields no value, so it
// is recorded as label "absentKeyProvePanics" and reported as an observation, not a violation.

type c18trie struct {
	model map[string][]byte
	mdb   db.Database
	snap  trie.Snapshot // unflushed at first
	root  []byte
}

func c18Build(rt *rapid.T, wide bool, tag string) *c18trie {
	n := rapid.IntRange(1, 24).Draw(rt, tag+"n")
	t := &c18trie{model: map[string][]byte{}, mdb: db.NewMapDB()}
	m := trie_manager.NewMutable(t.mdb, nil)
	for i := 0; i < n; i++ {
		k := c17DrawKey(rt, wide)
		v := c17DrawVal(rt)
		if _, err := m.Set(k, v); err != nil {
			rt.Fatalf("C18 setup: Set error %v", err)
		}
		t.model[string(k)] = v
	}
	t.snap = m.GetSnapshot()
	t.root = t.snap.Hash()
	return t
}

func c18Verifier(root []byte) trie.Immutable {
	return trie_manager.NewImmutable(db.NewMapDB(), root)
}

// c18Prove runs Prove and converts a panic into panicked=true.
func c18Prove(v trie.Immutable, k []byte, p [][]byte) (val []byte, err error, panicked interface{}) {
	defer func() {
		if r := recover(); r != nil {
			panicked = r
		}
	}()
	val, err = v.Prove(k, p)
	return
}

func c18Clone(p [][]byte) [][]byte {
	c := make([][]byte, len(p))
	for i := range p {
		c[i] = append([]byte{}, p[i]...)
	}
	return c
}

func c18Fmt(p [][]byte) string {
	var sb strings.Builder
	sb.WriteString("[")
	for i, e := range p {
		if i > 0 {
			sb.WriteString(" ")
		}
		fmt.Fprintf(&sb, "%x", e)
	}
	sb.WriteString("]")
	return sb.String()
}

func TestC18(t *testing.T) {
	rec := ev.New("C18", "random maps (1-24 pairs, keys of 0-6 bytes over {00,01,10}, 32-byte keys with shared prefixes, or wide fan-out keys; values 1-300 bytes) built into a trie; for sampled stored keys the genuine proof (from unflushed, flushed and reloaded trie) is verified by a trie opened from the root hash on an empty DB, then altered in one element (flip/resize/remove/replace/swap/insert) or taken from a trie with another root; sampled absent keys (prefixes, extensions, siblings of stored keys) are proven with their own and with foreign proofs; non-trivial = some genuine proof has >= 2 elements; distinct by (map, key choice, alterations)")
	defer rec.Flush(t)
	ev.Check(t, 8000, 150000, func(rt *rapid.T) {
		wide := rapid.IntRange(0, 3).Draw(rt, "wide") == 0
		tr := c18Build(rt, wide, "a")
		keys := c17SortedKeys(tr.model)
		fail := func(format string, args ...interface{}) {
			var sb strings.Builder
			for _, k := range keys {
				fmt.Fprintf(&sb, " %x=%02x*%d", k, tr.model[k][0], len(tr.model[k]))
			}
			rt.Fatalf("C18 violated: %s\n trie(root %x):%s", fmt.Sprintf(format, args...), tr.root, sb.String())
		}

		// sources of genuine proofs
		srcMode := rapid.IntRange(0, 2).Draw(rt, "src")
		var src trie.Immutable = tr.snap
		if srcMode >= 1 {
			if err := tr.snap.Flush(); err != nil {
				fail("Flush error %v", err)
			}
		}
		if srcMode == 2 {
			src = trie_manager.NewImmutable(tr.mdb, tr.root)
		}

		// a second trie with a different root: one pair changed/added/removed
		other := map[string][]byte{}
		for k, v := range tr.model {
			other[k] = v
		}
		ck := keys[rapid.IntRange(0, len(keys)-1).Draw(rt, "chgKey")]
		switch rapid.IntRange(0, 2).Draw(rt, "chg") {
		case 0:
			other[ck] = append(append([]byte{}, other[ck]...), 0x55)
		case 1:
			if len(other) > 1 {
				delete(other, ck)
			} else {
				other[ck+"\x10"] = []byte{1}
			}
		default:
			other[ck+"\x01"] = []byte{2}
		}
		om := trie_manager.NewMutable(db.NewMapDB(), nil)
		for _, k := range c17SortedKeys(other) {
			om.Set([]byte(k), other[k])
		}
		osnap := om.GetSnapshot()
		oroot := osnap.Hash()
		if bytes.Equal(oroot, tr.root) {
			fail("two tries holding different pairs have the same root (other differs at %x)", ck)
		}

		warm := c18Verifier(tr.root) // reused over all genuine proofs of this case
		maxDepth := 0
		var descOps []string
		labels := map[string]bool{}

		// soundness for an arbitrary element list
		sound := func(v trie.Immutable, k []byte, p [][]byte, what string, mustReject bool) {
			val, err, pan := c18Prove(v, k, p)
			want, stored := tr.model[string(k)]
			if pan != nil {
				if !stored && !mustReject {
					labels["absentKeyProvePanics"] = true
					return
				}
				fail("%s: Prove(%x, %s) panics: %v", what, k, c18Fmt(p), pan)
			}
			if err == nil {
				if mustReject {
					fail("%s: Prove(%x, %s) accepted the proof (value %x)", what, k, c18Fmt(p), val)
				}
				if !stored && val != nil {
					fail("%s: Prove(%x, %s) yields value %x for a key that is not stored", what, k, c18Fmt(p), val)
				}
				if stored && !bytes.Equal(val, want) {
					fail("%s: Prove(%x, %s) yields %x, stored value is %x", what, k, c18Fmt(p), val, want)
				}
			}
		}

		nStored := rapid.IntRange(1, 5).Draw(rt, "nStored")
		var genuine [][][]byte
		var genuineKeys []string
		for i := 0; i < nStored; i++ {
			k := keys[rapid.IntRange(0, len(keys)-1).Draw(rt, "sk")]
			p := src.GetProof([]byte(k))
			if len(p) == 0 {
				fail("GetProof(%x) of a stored key returns no proof", k)
			}
			if len(p) > maxDepth {
				maxDepth = len(p)
			}
			genuine = append(genuine, p)
			genuineKeys = append(genuineKeys, k)
			// completeness on a fresh and on the reused verifier
			for vi, v := range []trie.Immutable{c18Verifier(tr.root), warm} {
				val, err, pan := c18Prove(v, []byte(k), c18Clone(p))
				if pan != nil || err != nil || !bytes.Equal(val, tr.model[k]) {
					fail("genuine proof rejected (verifier %d): Prove(%x, %s) = (%x, %v, panic=%v), stored value %x", vi, k, c18Fmt(p), val, err, pan, tr.model[k])
				}
			}
			// other root: this proof against the other root, and the other trie's proof against this root
			if _, err, pan := c18Prove(c18Verifier(oroot), []byte(k), c18Clone(p)); err == nil && pan == nil {
				fail("proof for %x taken under root %x accepted by verifier of root %x: %s", k, tr.root, oroot, c18Fmt(p))
			}
			if op := osnap.GetProof([]byte(k)); len(op) > 0 {
				sound(c18Verifier(tr.root), []byte(k), c18Clone(op), "foreign-root proof", true)
				sound(warm, []byte(k), c18Clone(op), "foreign-root proof (reused verifier)", true)
			}

			// single-element alterations
			nAlt := rapid.IntRange(1, 6).Draw(rt, "nAlt")
			for a := 0; a < nAlt; a++ {
				q := c18Clone(p)
				ei := rapid.IntRange(0, len(q)-1).Draw(rt, "ei")
				kind := rapid.SampledFrom([]string{"flip", "trunc", "grow", "remove", "replSelf", "replOther", "replRand", "replEmpty", "swap", "insert"}).Draw(rt, "alt")
				switch kind {
				case "flip":
					bi := rapid.IntRange(0, len(q[ei])-1).Draw(rt, "bi")
					q[ei][bi] ^= byte(1 << uint(rapid.IntRange(0, 7).Draw(rt, "bit")))
				case "trunc":
					q[ei] = q[ei][:len(q[ei])-1]
				case "grow":
					q[ei] = append(q[ei], rapid.Byte().Draw(rt, "gb"))
				case "remove":
					q = append(q[:ei], q[ei+1:]...)
				case "replSelf":
					ej := rapid.IntRange(0, len(q)-1).Draw(rt, "ej")
					if bytes.Equal(q[ej], q[ei]) {
						kind = "skip"
					} else {
						q[ei] = append([]byte{}, q[ej]...)
					}
				case "replOther":
					kind = "skip"
					ok2 := keys[rapid.IntRange(0, len(keys)-1).Draw(rt, "ok")]
					if op := src.GetProof([]byte(ok2)); len(op) > 0 {
						e := op[rapid.IntRange(0, len(op)-1).Draw(rt, "oe")]
						if !bytes.Equal(e, q[ei]) {
							q[ei] = append([]byte{}, e...)
							kind = "replOther"
						}
					}
				case "replRand":
					q[ei] = rapid.SliceOfN(rapid.Byte(), 1, 40).Draw(rt, "rnd")
					if bytes.Equal(q[ei], p[ei]) {
						kind = "skip"
					}
				case "replEmpty":
					q[ei] = []byte{}
				case "swap":
					if ei+1 < len(q) && !bytes.Equal(q[ei], q[ei+1]) {
						q[ei], q[ei+1] = q[ei+1], q[ei]
					} else {
						kind = "skip"
					}
				case "insert": // before element ei, never at the end
					ins := rapid.SliceOfN(rapid.Byte(), 0, 40).Draw(rt, "ins")
					if ei+1 < len(q) && rapid.Bool().Draw(rt, "insDup") {
						// a duplicate in front of the LAST element would be the same list as a
						// trailing append, which is not required to fail
						ins = append([]byte{}, q[ei]...)
					}
					q = append(q[:ei], append([][]byte{ins}, q[ei:]...)...)
				}
				if kind == "skip" {
					continue
				}
				descOps = append(descOps, fmt.Sprintf("%d:%s@%d", i, kind, ei))
				labels["alt-"+kind] = true
				sound(c18Verifier(tr.root), []byte(k), c18Clone(q), "altered proof ("+kind+")", true)
				sound(warm, []byte(k), q, "altered proof ("+kind+", reused verifier)", true)
			}
		}

		// absent keys: prefixes / extensions / siblings of stored keys, plus drawn ones
		nAbsent := rapid.IntRange(1, 5).Draw(rt, "nAbsent")
		for i := 0; i < nAbsent; i++ {
			base := keys[rapid.IntRange(0, len(keys)-1).Draw(rt, "ab")]
			var k []byte
			switch rapid.IntRange(0, 4).Draw(rt, "abKind") {
			case 0:
				k = []byte(base[:rapid.IntRange(0, len(base)).Draw(rt, "abLen")])
			case 1:
				k = append([]byte(base), rapid.SampledFrom(c17Alphabet).Draw(rt, "abExt"))
			case 2:
				k = []byte(base)
				if len(k) > 0 {
					k[len(k)-1] ^= rapid.SampledFrom([]byte{0x01, 0x10, 0x11, 0x80}).Draw(rt, "abSib")
				}
			default:
				k = c17DrawKey(rt, wide)
			}
			if _, stored := tr.model[string(k)]; stored {
				continue
			}
			descOps = append(descOps, fmt.Sprintf("absent:%x", k))
			p := src.GetProof(k)
			if len(p) > 0 {
				labels["absentWithPath"] = true
			} else {
				labels["absentNoProof"] = true
			}
			sound(c18Verifier(tr.root), k, c18Clone(p), "own proof of an absent key", false)
			sound(warm, k, c18Clone(p), "own proof of an absent key (reused verifier)", false)
			for gi, g := range genuine {
				sound(c18Verifier(tr.root), k, c18Clone(g), fmt.Sprintf("proof of stored key %x used for absent key", genuineKeys[gi]), false)
				sound(warm, k, c18Clone(g), fmt.Sprintf("proof of stored key %x used for absent key (reused verifier)", genuineKeys[gi]), false)
			}
		}
		// proofs of one stored key used for another stored key: error or the right value
		for gi, g := range genuine {
			for gj, k := range genuineKeys {
				if gi != gj && k != genuineKeys[gi] {
					sound(c18Verifier(tr.root), []byte(k), c18Clone(g), fmt.Sprintf("proof of %x used for stored key", genuineKeys[gi]), false)
				}
			}
		}

		var sb strings.Builder
		fmt.Fprintf(&sb, "src=%d wide=%v trie:", srcMode, wide)
		for _, k := range keys {
			fmt.Fprintf(&sb, " %x=%02x*%d", k, tr.model[k][0], len(tr.model[k]))
		}
		fmt.Fprintf(&sb, " other@%x proven=%x ops=%s", ck, genuineKeys, strings.Join(descOps, ","))
		desc := sb.String()
		if len(desc) > 900 {
			desc = fmt.Sprintf("%s… (len %d, root %x)", desc[:780], len(desc), tr.root)
		}
		ls := []string{fmt.Sprintf("depth%d", min(maxDepth, 5)), fmt.Sprintf("src%d", srcMode)}
		for l := range labels {
			ls = append(ls, l)
		}
		rec.Case(desc, maxDepth >= 2, ls...)
	})
}
