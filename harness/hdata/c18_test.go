package hdata

import (
	"bytes"
	"fmt"
	"strings"
	"testing"

	"github.com/icon-project/goloop/common/db"
	"github.com/icon-project/goloop/common/trie"
	"github.com/icon-project/goloop/common/trie/trie_manager"
	"pgregory.net/rapid"

	"verifharness/internal/ev"
)

// C18: for any trie and any stored key, the proof the trie produces verifies against the root
// hash and yields the stored value; proofs for absent keys never yield a value; any proof that
// was altered or belongs to another root is rejected.
//
// The verifier is always a trie opened on an EMPTY database from the 32-byte root hash only,
// so it knows nothing but the root. Oracle = construction: the harness knows the stored map and
// knows which proofs are genuine and which it altered.
//
//   completeness  stored k:  Prove(k, GetProof(k)) = (stored value, nil), for proofs taken from
//                 an unflushed snapshot, a flushed one and a trie reloaded from the database.
//   soundness     any k, any element list assembled from genuine/altered elements:
//                 the result is an error, or the value really stored under k; never a value for
//                 an absent k.
//   rejection     a genuine proof of a stored key with ONE element flipped / resized / removed /
//                 replaced by different bytes / swapped with its neighbour / preceded by an
//                 inserted element, or a genuine proof taken from a trie with another root:
//                 error. (Every element of a genuine proof of a stored key is a hashed node on
//                 the path, so each of these alterations breaks the hash chain.)
// Not demanded: elements appended AFTER a complete proof (ignored by the verifier when the key
// ends in a branch node; no soundness impact; DESIGN.md C18).
// Not decided: what exactly Prove returns for an absent key as long as it is not a value. On this
// tree Prove(k, GetProof(k)) dereferences a nil object (panic in mptForBytes.Prove) when the
// absent key ends exactly at a branch node that carries no value; a panic yields no value, so it
// is recorded as label "absentKeyProvePanics" and reported as an observation, not a violation.

type c18trie struct {
	model map[string][]byte
	mdb   db.Database
	snap  trie.Snapshot // unflushed at first
	root  []byte
}

func c18Build(rt *rapid.T, wide bool, tag string) *c18trie {
	n := rapid.IntRange(1, 24).Draw(rt, tag+"n")
	t := &c18trie{model: map[string][]byte{}, mdb: db.NewMapDB()}
	m := trie_manager.NewMutable(t.mdb, nil)
	for i := 0; i < n; i++ {
		k := c17DrawKey(rt, wide)
		v := c17DrawVal(rt)
		if _, err := m.Set(k, v); err != nil {
			rt.Fatalf("C18 setup: Set error %v", err)
		}
		t.model[string(k)] = v
	}
	t.snap = m.GetSnapshot()
	t.root = t.snap.Hash()
	return t
}

func c18Verifier(root []byte) trie.Immutable {
	return trie_manager.NewImmutable(db.NewMapDB(), root)
}

// c18Prove runs Prove and converts a panic into panicked=true.
func c18Prove(v trie.Immutable, k []byte, p [][]byte) (val []byte, err error, panicked interface{}) {
	defer func() {
		if r := recover(); r != nil {
			panicked = r
		}
	}()
	val, err = v.Prove(k, p)
	return
}

func c18Clone(p [][]byte) [][]byte {
	c := make([][]byte, len(p))
	for i := range p {
		c[i] = append([]byte{}, p[i]...)
	}
	return c
}

func c18Fmt(p [][]byte) string {
	var sb strings.Builder
	sb.WriteString("[")
	for i, e := range p {
		if i > 0 {
			sb.WriteString(" ")
		}
		fmt.Fprintf(&sb, "%x", e)
	}
	sb.WriteString("]")
	return sb.String()
}

func TestC18(t *testing.T) {
	rec := ev.New("C18", "random maps (1-24 pairs, keys of 0-6 bytes over {00,01,10}, 32-byte keys with shared prefixes, or wide fan-out keys; values 1-300 bytes) built into a trie; for sampled stored keys the genuine proof (from unflushed, flushed and reloaded trie) is verified by a trie opened from the root hash on an empty DB, then altered in one element (flip/resize/remove/replace/swap/insert) or taken from a trie with another root; sampled absent keys (prefixes, extensions, siblings of stored keys) are proven with their own and with foreign proofs; non-trivial = some genuine proof has >= 2 elements; distinct by (map, key choice, alterations)")
	defer rec.Flush(t)
	ev.Check(t, 8000, 150000, func(rt *rapid.T) {
		wide := rapid.IntRange(0, 3).Draw(rt, "wide") == 0
		tr := c18Build(rt, wide, "a")
		keys := c17SortedKeys(tr.model)
		fail := func(format string, args ...interface{}) {
			var sb strings.Builder
			for _, k := range keys {
				fmt.Fprintf(&sb, " %x=%02x*%d", k, tr.model[k][0], len(tr.model[k]))
			}
			rt.Fatalf("C18 violated: %s\n trie(root %x):%s", fmt.Sprintf(format, args...), tr.root, sb.String())
		}

		// sources of genuine proofs
		srcMode := rapid.IntRange(0, 2).Draw(rt, "src")
		var src trie.Immutable = tr.snap
		if srcMode >= 1 {
			if err := tr.snap.Flush(); err != nil {
				fail("Flush error %v", err)
			}
		}
		if srcMode == 2 {
			src = trie_manager.NewImmutable(tr.mdb, tr.root)
		}

		// a second trie with a different root: one pair changed/added/removed
		other := map[string][]byte{}
		for k, v := range tr.model {
			other[k] = v
		}
		ck := keys[rapid.IntRange(0, len(keys)-1).Draw(rt, "chgKey")]
		switch rapid.IntRange(0, 2).Draw(rt, "chg") {
		case 0:
			other[ck] = append(append([]byte{}, other[ck]...), 0x55)
		case 1:
			if len(other) > 1 {
				delete(other, ck)
			} else {
				other[ck+"\x10"] = []byte{1}
			}
		default:
			other[ck+"\x01"] = []byte{2}
		}
		om := trie_manager.NewMutable(db.NewMapDB(), nil)
		for _, k := range c17SortedKeys(other) {
			om.Set([]byte(k), other[k])
		}
		osnap := om.GetSnapshot()
		oroot := osnap.Hash()
		if bytes.Equal(oroot, tr.root) {
			fail("two tries holding different pairs have the same root (other differs at %x)", ck)
		}

		warm := c18Verifier(tr.root) // reused over all genuine proofs of this case
		maxDepth := 0
		var descOps []string
		labels := map[string]bool{}

		// soundness for an arbitrary element list
		sound := func(v trie.Immutable, k []byte, p [][]byte, what string, mustReject bool) {
			val, err, pan := c18Prove(v, k, p)
			want, stored := tr.model[string(k)]
			if pan != nil {
				if !stored && !mustReject {
					labels["absentKeyProvePanics"] = true
					return
				}
				fail("%s: Prove(%x, %s) panics: %v", what, k, c18Fmt(p), pan)
			}
			if err == nil {
				if mustReject {
					fail("%s: Prove(%x, %s) accepted the proof (value %x)", what, k, c18Fmt(p), val)
				}
				if !stored && val != nil {
					fail("%s: Prove(%x, %s) yields value %x for a key that is not stored", what, k, c18Fmt(p), val)
				}
				if stored && !bytes.Equal(val, want) {
					fail("%s: Prove(%x, %s) yields %x, stored value is %x", what, k, c18Fmt(p), val, want)
				}
			}
		}

		nStored := rapid.IntRange(1, 5).Draw(rt, "nStored")
		var genuine [][][]byte
		var genuineKeys []string
		for i := 0; i < nStored; i++ {
			k := keys[rapid.IntRange(0, len(keys)-1).Draw(rt, "sk")]
			p := src.GetProof([]byte(k))
			if len(p) == 0 {
				fail("GetProof(%x) of a stored key returns no proof", k)
			}
			if len(p) > maxDepth {
				maxDepth = len(p)
			}
			genuine = append(genuine, p)
			genuineKeys = append(genuineKeys, k)
			// completeness on a fresh and on the reused verifier
			for vi, v := range []trie.Immutable{c18Verifier(tr.root), warm} {
				val, err, pan := c18Prove(v, []byte(k), c18Clone(p))
				if pan != nil || err != nil || !bytes.Equal(val, tr.model[k]) {
					fail("genuine proof rejected (verifier %d): Prove(%x, %s) = (%x, %v, panic=%v), stored value %x", vi, k, c18Fmt(p), val, err, pan, tr.model[k])
				}
			}
			// other root: this proof against the other root, and the other trie's proof against this root
			if _, err, pan := c18Prove(c18Verifier(oroot), []byte(k), c18Clone(p)); err == nil && pan == nil {
				fail("proof for %x taken under root %x accepted by verifier of root %x: %s", k, tr.root, oroot, c18Fmt(p))
			}
			if op := osnap.GetProof([]byte(k)); len(op) > 0 {
				sound(c18Verifier(tr.root), []byte(k), c18Clone(op), "foreign-root proof", true)
				sound(warm, []byte(k), c18Clone(op), "foreign-root proof (reused verifier)", true)
			}

			// single-element alterations
			nAlt := rapid.IntRange(1, 6).Draw(rt, "nAlt")
			for a := 0; a < nAlt; a++ {
				q := c18Clone(p)
				ei := rapid.IntRange(0, len(q)-1).Draw(rt, "ei")
				kind := rapid.SampledFrom([]string{"flip", "trunc", "grow", "remove", "replSelf", "replOther", "replRand", "replEmpty", "swap", "insert"}).Draw(rt, "alt")
				switch kind {
				case "flip":
					bi := rapid.IntRange(0, len(q[ei])-1).Draw(rt, "bi")
					q[ei][bi] ^= byte(1 << uint(rapid.IntRange(0, 7).Draw(rt, "bit")))
				case "trunc":
					q[ei] = q[ei][:len(q[ei])-1]
				case "grow":
					q[ei] = append(q[ei], rapid.Byte().Draw(rt, "gb"))
				case "remove":
					q = append(q[:ei], q[ei+1:]...)
				case "replSelf":
					ej := rapid.IntRange(0, len(q)-1).Draw(rt, "ej")
					if bytes.Equal(q[ej], q[ei]) {
						kind = "skip"
					} else {
						q[ei] = append([]byte{}, q[ej]...)
					}
				case "replOther":
					kind = "skip"
					ok2 := keys[rapid.IntRange(0, len(keys)-1).Draw(rt, "ok")]
					if op := src.GetProof([]byte(ok2)); len(op) > 0 {
						e := op[rapid.IntRange(0, len(op)-1).Draw(rt, "oe")]
						if !bytes.Equal(e, q[ei]) {
							q[ei] = append([]byte{}, e...)
							kind = "replOther"
						}
					}
				case "replRand":
					q[ei] = rapid.SliceOfN(rapid.Byte(), 1, 40).Draw(rt, "rnd")
					if bytes.Equal(q[ei], p[ei]) {
						kind = "skip"
					}
				case "replEmpty":
					q[ei] = []byte{}
				case "swap":
					if ei+1 < len(q) && !bytes.Equal(q[ei], q[ei+1]) {
						q[ei], q[ei+1] = q[ei+1], q[ei]
					} else {
						kind = "skip"
					}
				case "insert": // before element ei, never at the end
					ins := rapid.SliceOfN(rapid.Byte(), 0, 40).Draw(rt, "ins")
					if ei+1 < len(q) && rapid.Bool().Draw(rt, "insDup") {
						// a duplicate in front of the LAST element would be the same list as a
						// trailing append, which is not required to fail
						ins = append([]byte{}, q[ei]...)
					}
					q = append(q[:ei], append([][]byte{ins}, q[ei:]...)...)
				}
				if kind == "skip" {
					continue
				}
				descOps = append(descOps, fmt.Sprintf("%d:%s@%d", i, kind, ei))
				labels["alt-"+kind] = true
				sound(c18Verifier(tr.root), []byte(k), c18Clone(q), "altered proof ("+kind+")", true)
				sound(warm, []byte(k), q, "altered proof ("+kind+", reused verifier)", true)
			}
		}

		// absent keys: prefixes / extensions / siblings of stored keys, plus drawn ones
		nAbsent := rapid.IntRange(1, 5).Draw(rt, "nAbsent")
		for i := 0; i < nAbsent; i++ {
			base := keys[rapid.IntRange(0, len(keys)-1).Draw(rt, "ab")]
			var k []byte
			switch rapid.IntRange(0, 4).Draw(rt, "abKind") {
			case 0:
				k = []byte(base[:rapid.IntRange(0, len(base)).Draw(rt, "abLen")])
			case 1:
				k = append([]byte(base), rapid.SampledFrom(c17Alphabet).Draw(rt, "abExt"))
			case 2:
				k = []byte(base)
				if len(k) > 0 {
					k[len(k)-1] ^= rapid.SampledFrom([]byte{0x01, 0x10, 0x11, 0x80}).Draw(rt, "abSib")
				}
			default:
				k = c17DrawKey(rt, wide)
			}
			if _, stored := tr.model[string(k)]; stored {
				continue
			}
			descOps = append(descOps, fmt.Sprintf("absent:%x", k))
			p := src.GetProof(k)
			if len(p) > 0 {
				labels["absentWithPath"] = true
			} else {
				labels["absentNoProof"] = true
			}
			sound(c18Verifier(tr.root), k, c18Clone(p), "own proof of an absent key", false)
			sound(warm, k, c18Clone(p), "own proof of an absent key (reused verifier)", false)
			for gi, g := range genuine {
				sound(c18Verifier(tr.root), k, c18Clone(g), fmt.Sprintf("proof of stored key %x used for absent key", genuineKeys[gi]), false)
				sound(warm, k, c18Clone(g), fmt.Sprintf("proof of stored key %x used for absent key (reused verifier)", genuineKeys[gi]), false)
			}
		}
		// proofs of one stored key used for another stored key: error or the right value
		for gi, g := range genuine {
			for gj, k := range genuineKeys {
				if gi != gj && k != genuineKeys[gi] {
					sound(c18Verifier(tr.root), []byte(k), c18Clone(g), fmt.Sprintf("proof of %x used for stored key", genuineKeys[gi]), false)
				}
			}
		}

		var sb strings.Builder
		fmt.Fprintf(&sb, "src=%d wide=%v trie:", srcMode, wide)
		for _, k := range keys {
			fmt.Fprintf(&sb, " %x=%02x*%d", k, tr.model[k][0], len(tr.model[k]))
		}
		fmt.Fprintf(&sb, " other@%x proven=%x ops=%s", ck, genuineKeys, strings.Join(descOps, ","))
		desc := sb.String()
		if len(desc) > 900 {
			desc = fmt.Sprintf("%s… (len %d, root %x)", desc[:780], len(desc), tr.root)
		}
		ls := []string{fmt.Sprintf("depth%d", min(maxDepth, 5)), fmt.Sprintf("src%d", srcMode)}
		for l := range labels {
			ls = append(ls, l)
		}
		rec.Case(desc, maxDepth >= 2, ls...)
	})
}

// FuzzC18Prove is the native (coverage guided) target of the thorough tier: the verifier - a trie opened on an
// empty database from a root hash alone - is fed an arbitrary key and an arbitrary element list decoded from the
// fuzz input (elements are genuine proof nodes of the fixed tries, byte-edited copies of them, or raw bytes).
// Oracle (soundness): whatever it returns without error is the value really stored under that key in the trie
// with that root; an absent key never gets a value. A panic yields no value (see the note at the top).
func FuzzC18Prove(f *testing.F) {
	type fixed struct {
		tr    *c18trie
		keys  []string
		nodes [][]byte
	}
	var tries []fixed
	for i := 0; i < 6; i++ {
		wide := i%2 == 1
		tr := rapid.Custom(func(rt *rapid.T) *c18trie { return c18Build(rt, wide, "fz") }).Example(i)
		fx := fixed{tr: tr, keys: c17SortedKeys(tr.model)}
		seen := map[string]bool{}
		for _, k := range fx.keys {
			for _, e := range tr.snap.GetProof([]byte(k)) {
				if !seen[string(e)] {
					seen[string(e)] = true
					fx.nodes = append(fx.nodes, e)
				}
			}
		}
		tries = append(tries, fx)
	}
	// input: [trie][keySel][keyLen][key...] then elements: [kind][arg][len][bytes...]
	for ti, fx := range tries {
		for ki, k := range fx.keys {
			if ki > 3 {
				break
			}
			in := []byte{byte(ti), 0, byte(ki)}
			for range fx.tr.snap.GetProof([]byte(k)) {
				in = append(in, 0, 0, 0) // placeholder; genuine elements are picked by index below
			}
			f.Add(in)
		}
	}
	f.Add([]byte{0, 1, 2, 'a', 'b', 2, 0, 3, 0xc2, 0x80, 0x80})
	f.Fuzz(func(t *testing.T, in []byte) {
		if len(in) < 3 || len(in) > 4096 {
			return
		}
		fx := tries[int(in[0])%len(tries)]
		var key []byte
		pos := 2
		if in[1]%2 == 0 && len(fx.keys) > 0 {
			key = []byte(fx.keys[int(in[2])%len(fx.keys)])
			pos = 3
		} else {
			n := int(in[2]) % 40
			if 3+n > len(in) {
				n = len(in) - 3
			}
			key = in[3 : 3+n]
			pos = 3 + n
		}
		var proof [][]byte
		if in[1]%2 == 0 && in[1]&2 == 0 {
			// start from the genuine proof of the key and let the elements below overwrite positions
			proof = c18Clone(fx.tr.snap.GetProof(key))
		}
		idx := 0
		for pos+3 <= len(in) && len(proof) < 24 {
			kind, arg, l := in[pos], int(in[pos+1]), int(in[pos+2])
			pos += 3
			var e []byte
			switch kind % 4 {
			case 0: // keep what is there (or a genuine node)
				if idx < len(proof) {
					idx++
					continue
				}
				if len(fx.nodes) > 0 {
					e = append([]byte{}, fx.nodes[arg%len(fx.nodes)]...)
				}
			case 1: // a genuine node with one byte edited
				if len(fx.nodes) > 0 {
					e = append([]byte{}, fx.nodes[arg%len(fx.nodes)]...)
					if len(e) > 0 {
						e[l%len(e)] ^= byte(1 + arg%255)
					}
				}
			case 2: // raw bytes
				if pos+l > len(in) {
					l = len(in) - pos
				}
				e = append([]byte{}, in[pos:pos+l]...)
				pos += l
			default: // a genuine node of ANOTHER trie
				o := tries[(int(in[0])+1+arg)%len(tries)]
				if len(o.nodes) > 0 {
					e = append([]byte{}, o.nodes[l%len(o.nodes)]...)
				}
			}
			if idx < len(proof) {
				proof[idx] = e
			} else {
				proof = append(proof, e)
			}
			idx++
		}
		val, err, panicked := c18Prove(c18Verifier(fx.tr.root), key, proof)
		if panicked != nil || err != nil {
			return
		}
		want, stored := fx.tr.model[string(key)]
		if val == nil && !stored {
			return
		}
		if !stored {
			t.Fatalf("C18 violated: Prove yields value %x for key %x which root %x does not hold; proof %s", val, key, fx.tr.root, c18Fmt(proof))
		}
		if !bytes.Equal(val, want) {
			t.Fatalf("C18 violated: Prove yields %x for key %x, the trie with root %x stores %x; proof %s", val, key, fx.tr.root, want, c18Fmt(proof))
		}
	})
}
