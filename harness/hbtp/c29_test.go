package hbtp

import (
	"fmt"
	"strings"
	"testing"

	"github.com/icon-project/goloop/btp/ntm"
	"github.com/icon-project/goloop/common/codec"
	"github.com/icon-project/goloop/common/crypto"
	"github.com/icon-project/goloop/module"
	"pgregory.net/rapid"

	"verifharness/internal/ev"
	"verifharness/internal/gen"
)

// C29: a BTP network-type proof is accepted for a decision only if it contains valid signatures
// over that decision from more than two thirds of the distinct validators of the proof context,
// each at its own index; wrong-index, foreign, forged or insufficient signatures are rejected.
//
// Oracle (reference predicate, by construction of the signature vector): every entry of the
// vector is drawn from a class whose validity is known without looking at goloop's verdict —
// "valid" is validator i's own signature over the decision hash at index i, everything else
// (absent aside) is not a signature of validator i over this decision. accept <=> every present
// entry is of class "valid" at an index of a non-nil validator and 3*present > 2*n, where n is
// the number of validator slots of the context (nil slots included). Everything else must end in
// an error from NewProofFromBytes or Verify; a panic is a violation.
//
// The proof travels as bytes: the harness encodes the wire structure (list of signature byte
// strings, nil for absent) itself and goloop parses it with NewProofFromBytes, as
// proofContextMap.Verify does.
//
// Not decided: validator sets that contain the same key twice (keys are drawn distinct; the
// statement speaks of distinct validators and the brief's predicate does not say how duplicates
// count); signatures whose recovery byte carries the "compressed key" flag (V+4, same key).

type c29wire struct {
	Signatures [][]byte
}

type c29part struct {
	Index     int
	Signature []byte
}

type c29ctx struct {
	uid   string
	keys  []*crypto.PrivateKey // nil = empty validator slot
	pc    module.BTPProofContext
	dHash []byte
	oHash []byte // hash of another decision
	desc  string
	frgn  *crypto.PrivateKey
}

func c29Sign(k *crypto.PrivateKey, h []byte) []byte {
	sig, err := crypto.NewSignature(h, k)
	if err != nil {
		ev.Inconclusive("C29: cannot sign: %v", err)
	}
	b, err := sig.SerializeRSV()
	if err != nil {
		ev.Inconclusive("C29: cannot serialise signature: %v", err)
	}
	return b
}

func c29NewCtx(rt *rapid.T) *c29ctx {
	c := &c29ctx{}
	c.uid = rapid.SampledFrom([]string{"eth", "icon"}).Draw(rt, "uid")
	mod := ntm.ForUID(c.uid)
	if mod == nil {
		ev.Inconclusive("C29: network type module %q not registered", c.uid)
	}
	n := rapid.IntRange(1, 10).Draw(rt, "n")
	base := rapid.IntRange(0, 1000).Draw(rt, "keyBase") * 16
	pubs := make([][]byte, n)
	var kd []string
	nonNil := 0
	for i := 0; i < n; i++ {
		if rapid.IntRange(0, 7).Draw(rt, "nilSlot") == 3 {
			c.keys = append(c.keys, nil)
			kd = append(kd, "nil")
			continue
		}
		k := gen.KeyFromIndex(base + i)
		c.keys = append(c.keys, k)
		if rapid.Bool().Draw(rt, "uncompressed") {
			pubs[i] = k.PublicKey().SerializeUncompressed()
			kd = append(kd, fmt.Sprintf("k%du", base+i))
		} else {
			pubs[i] = k.PublicKey().SerializeCompressed()
			kd = append(kd, fmt.Sprintf("k%dc", base+i))
		}
		nonNil++
	}
	c.frgn = gen.KeyFromIndex(base + 15)
	pc, err := mod.NewProofContext(pubs)
	if err != nil {
		ev.Inconclusive("C29: NewProofContext failed: %v", err)
	}
	reload := rapid.Bool().Draw(rt, "reloadContext") && nonNil > 0
	if reload {
		// the way proofContextMap obtains contexts from state
		pc2, err := mod.NewProofContextFromBytes(pc.Bytes())
		if err != nil {
			ev.Inconclusive("C29: NewProofContextFromBytes failed: %v", err)
		}
		pc = pc2
	}
	c.pc = pc
	h := rapid.Int64Range(1, 1000).Draw(rt, "height")
	r := rapid.Int32Range(0, 3).Draw(rt, "round")
	nts := make([]byte, 32)
	nts[0] = byte(rapid.IntRange(0, 255).Draw(rt, "nts"))
	c.dHash = pc.NewDecision([]byte("0x1.icon"), 1, h, r, nts).Hash()
	switch rapid.IntRange(0, 2).Draw(rt, "otherDecision") {
	case 0:
		c.oHash = pc.NewDecision([]byte("0x1.icon"), 1, h+1, r, nts).Hash()
	case 1:
		c.oHash = pc.NewDecision([]byte("0x1.icon"), 1, h, r+1, nts).Hash()
	default:
		c.oHash = pc.NewDecision([]byte("0x1.icon"), 2, h, r, nts).Hash()
	}
	c.desc = fmt.Sprintf("uid=%s validators=[%s] reload=%v decision=(h=%d r=%d nts=%02x)", c.uid, strings.Join(kd, ","), reload, h, r, nts[0])
	return c
}

var c29BadClasses = []string{"wrongIndex", "foreign", "otherDecision", "noV", "badV", "flippedV", "zeroR", "mutated", "garbageLen"}

// c29Entry produces the signature bytes of the given class for slot i; ok reports whether the
// entry is validator i's signature over this decision. The returned class may differ from the
// requested one when it cannot be built (e.g. wrongIndex with one validator).
func (c *c29ctx) entry(rt *rapid.T, i int, class string) (sig []byte, ok bool, cls string) {
	var own *crypto.PrivateKey
	if i < len(c.keys) {
		own = c.keys[i]
	}
	if own == nil && class != "foreign" && class != "wrongIndex" {
		class = "foreign" // empty or non-existent slot: whatever stands there is not its validator's signature
	}
	switch class {
	case "valid":
		return c29Sign(own, c.dHash), true, class
	case "wrongIndex":
		var cand []int
		for j, k := range c.keys {
			if j != i && k != nil {
				cand = append(cand, j)
			}
		}
		if len(cand) == 0 {
			return c29Sign(c.frgn, c.dHash), false, "foreign"
		}
		j := rapid.SampledFrom(cand).Draw(rt, "otherIndex")
		return c29Sign(c.keys[j], c.dHash), false, class
	case "foreign":
		return c29Sign(c.frgn, c.dHash), false, class
	case "otherDecision":
		return c29Sign(own, c.oHash), false, class
	case "noV":
		return c29Sign(own, c.dHash)[:64], false, class
	case "badV":
		s := c29Sign(own, c.dHash)
		s[64] = rapid.SampledFrom([]byte{2, 3, 8, 9, 27, 28, 100, 228, 229, 255}).Draw(rt, "v")
		return s, false, class
	case "flippedV":
		s := c29Sign(own, c.dHash)
		s[64] ^= 1
		return s, false, class
	case "zeroR":
		s := c29Sign(own, c.dHash)
		z := rapid.IntRange(0, 1).Draw(rt, "which")
		for k := 0; k < 32; k++ {
			s[z*32+k] = 0
		}
		return s, false, class
	case "mutated":
		s := c29Sign(own, c.dHash)
		s[rapid.IntRange(0, 63).Draw(rt, "pos")] ^= byte(1 << uint(rapid.IntRange(0, 7).Draw(rt, "bit")))
		return s, false, class
	case "garbageLen":
		s := c29Sign(own, c.dHash)
		n := rapid.SampledFrom([]int{1, 32, 63, 66}).Draw(rt, "len")
		return append(s, s...)[:n], false, class
	}
	panic("unknown class " + class)
}

func c29Subset(rt *rapid.T, n, k int) map[int]bool {
	idx := rapid.Permutation(c29Range(n)).Draw(rt, "positions")
	m := map[int]bool{}
	for _, i := range idx[:k] {
		m[i] = true
	}
	return m
}

func c29Range(n int) []int {
	r := make([]int, n)
	for i := range r {
		r[i] = i
	}
	return r
}

func c29Proof(rt *rapid.T, rec *ev.Rec) {
	c := c29NewCtx(rt)
	n := len(c.keys)
	thr := 2 * n / 3 // largest insufficient count
	mode := rapid.SampledFrom([]string{"subset", "subset", "oneBad", "oneBad", "mixed"}).Draw(rt, "mode")
	classes := make([]string, n)
	for i := range classes {
		classes[i] = "absent"
	}
	switch mode {
	case "subset", "oneBad":
		k := thr + rapid.IntRange(-2, 2).Draw(rt, "aroundThreshold")
		if rapid.IntRange(0, 5).Draw(rt, "anyCount") == 2 {
			k = rapid.IntRange(0, n).Draw(rt, "count")
		}
		if k < 0 {
			k = 0
		}
		if k > n {
			k = n
		}
		for i := range c29Subset(rt, n, k) {
			classes[i] = "valid"
		}
		if mode == "oneBad" && k > 0 {
			var present []int
			for i, cl := range classes {
				if cl == "valid" {
					present = append(present, i)
				}
			}
			classes[rapid.SampledFrom(present).Draw(rt, "badPos")] = rapid.SampledFrom(c29BadClasses).Draw(rt, "badClass")
		}
	default:
		for i := range classes {
			switch x := rapid.IntRange(0, 9).Draw(rt, "slotClass"); {
			case x < 6:
				classes[i] = "valid"
			case x < 8:
				classes[i] = "absent"
			default:
				classes[i] = rapid.SampledFrom(c29BadClasses).Draw(rt, "badClass")
			}
		}
	}
	// vector length: normally n, sometimes shorter (tail absent) or longer
	vlen := n
	switch rapid.IntRange(0, 7).Draw(rt, "lenMode") {
	case 1:
		vlen = rapid.IntRange(0, n).Draw(rt, "shorter")
	case 2:
		vlen = n + rapid.IntRange(1, 2).Draw(rt, "longer")
	}
	w := c29wire{Signatures: make([][]byte, vlen)}
	present, allOK := 0, true
	var cd []string
	for i := 0; i < vlen; i++ {
		cl := "absent"
		if i < n {
			cl = classes[i]
		} else if rapid.Bool().Draw(rt, "extraPresent") {
			cl = "foreign"
		}
		if cl == "absent" {
			cd = append(cd, "-")
			continue
		}
		sig, ok, cls := c.entry(rt, i, cl)
		w.Signatures[i] = sig
		present++
		if !ok {
			allOK = false
		}
		cd = append(cd, cls)
	}
	want := allOK && 3*present > 2*n
	bs, err := codec.BC.MarshalToBytes(&w)
	if err != nil {
		ev.Inconclusive("C29: cannot encode proof: %v", err)
	}
	desc := fmt.Sprintf("%s vector=[%s] present=%d n=%d", c.desc, strings.Join(cd, ","), present, n)
	got, detail := c29Verify(c, bs)
	labels := []string{"proof", "mode:" + mode}
	if want {
		labels = append(labels, "expectAccept")
	} else if allOK {
		labels = append(labels, "expectReject:insufficient")
	} else {
		labels = append(labels, "expectReject:badEntry")
	}
	for _, x := range cd {
		if x != "-" && x != "valid" {
			rec.Label("entry:" + x)
		}
	}
	near := present >= thr-1 && present <= thr+1
	rec.Case(desc, near, labels...)
	switch {
	case got == "panic":
		rt.Fatalf("C29 violated: panic instead of an error: %s | case: %s proof=%x", detail, desc, bs)
	case want && got != "accept":
		rt.Fatalf("C29 violated: proof with %d valid own-index signatures of %d validators (3*%d > 2*%d) rejected: %s | case: %s", present, n, present, n, detail, desc)
	case !want && got == "accept":
		rt.Fatalf("C29 violated: proof accepted although it must be rejected (all present entries valid=%v, present=%d, n=%d) | case: %s proof=%x", allOK, present, n, desc, bs)
	}
}

// c29Verify parses and verifies like proofContextMap.Verify; returns accept / reject / panic.
func c29Verify(c *c29ctx, proofBytes []byte) (res string, detail string) {
	defer func() {
		if r := recover(); r != nil {
			res, detail = "panic", fmt.Sprint(r)
		}
	}()
	p, err := c.pc.NewProofFromBytes(proofBytes)
	if err != nil {
		return "reject", "NewProofFromBytes: " + err.Error()
	}
	if err := c.pc.Verify(c.dHash, p); err != nil {
		return "reject", "Verify: " + err.Error()
	}
	return "accept", ""
}

func c29Part(rt *rapid.T, rec *ev.Rec) {
	c := c29NewCtx(rt)
	n := len(c.keys)
	idx := rapid.IntRange(0, n-1).Draw(rt, "index")
	if rapid.IntRange(0, 5).Draw(rt, "outOfRange") == 3 {
		idx = rapid.SampledFrom([]int{-1, n, n + 1, -200, 1 << 20}).Draw(rt, "badIndex")
	}
	cl := rapid.SampledFrom(append([]string{"valid", "valid", "valid"}, c29BadClasses...)).Draw(rt, "class")
	slot := idx
	if slot < 0 || slot >= n {
		slot = n // no such validator
	}
	sig, ok, cls := c.entry(rt, slot, cl)
	want := ok && idx >= 0 && idx < n
	bs, err := codec.BC.MarshalToBytes(&c29part{Index: idx, Signature: sig})
	if err != nil {
		ev.Inconclusive("C29: cannot encode proof part: %v", err)
	}
	desc := fmt.Sprintf("part %s index=%d class=%s", c.desc, idx, cls)
	got, detail, ri := func() (res, detail string, ri int) {
		defer func() {
			if r := recover(); r != nil {
				res, detail = "panic", fmt.Sprint(r)
			}
		}()
		pp, err := c.pc.NewProofPartFromBytes(bs)
		if err != nil {
			return "reject", "NewProofPartFromBytes: " + err.Error(), -1
		}
		i, err := c.pc.VerifyPart(c.dHash, pp)
		if err != nil {
			return "reject", "VerifyPart: " + err.Error(), -1
		}
		return "accept", "", i
	}()
	l := "expectReject"
	if want {
		l = "expectAccept"
	}
	rec.Case(desc, !want && cls != "garbageLen", "part", "part:"+cls, l)
	switch {
	case got == "panic":
		rt.Fatalf("C29 violated: panic instead of an error: %s | case: %s part=%x", detail, desc, bs)
	case want && got != "accept":
		rt.Fatalf("C29 violated: validator %d's own signature over the decision rejected: %s | case: %s", idx, detail, desc)
	case want && ri != idx:
		rt.Fatalf("C29 violated: VerifyPart returned validator index %d for the part of validator %d | case: %s", ri, idx, desc)
	case !want && got == "accept":
		rt.Fatalf("C29 violated: proof part accepted although it is not validator %d's signature over this decision | case: %s part=%x", idx, desc, bs)
	}
}

func c29Garbage(rt *rapid.T, rec *ev.Rec) {
	c := c29NewCtx(rt)
	bs := rapid.SliceOfN(rapid.Byte(), 0, 200).Draw(rt, "bytes")
	if rapid.Bool().Draw(rt, "listOfStrings") {
		// well-formed list of arbitrary byte strings
		k := rapid.IntRange(0, 6).Draw(rt, "k")
		w := c29wire{}
		for i := 0; i < k; i++ {
			w.Signatures = append(w.Signatures, rapid.SliceOfN(rapid.Byte(), 0, 70).Draw(rt, "s"))
		}
		bs, _ = codec.BC.MarshalToBytes(&w)
	}
	got, detail := c29Verify(c, bs)
	rec.Case(fmt.Sprintf("garbage %s bytes=%x", c.desc, bs), false, "garbage", "garbage:"+got)
	if got == "panic" {
		rt.Fatalf("C29 violated: panic instead of an error: %s | %s proof=%x", detail, c.desc, bs)
	}
	if got == "accept" {
		// arbitrary bytes cannot contain signatures of more than two thirds of the validators
		rt.Fatalf("C29 violated: arbitrary bytes accepted as proof | %s proof=%x", c.desc, bs)
	}
}

func TestC29(t *testing.T) {
	ntm.InitIconModule()
	rec := ev.New("C29", "rapid: network type (eth/icon), 1-10 validator slots (distinct keys, some slots nil, compressed/uncompressed, context optionally reloaded from bytes), decision; signature vector of length n (sometimes shorter/longer) with entries from {valid, absent, validator j's signature at index i, foreign key, other decision, no V, invalid V, flipped V, zero r/s, bit-mutated, wrong length}, counts biased to threshold +-2; encoded as wire bytes by the harness. part: single proof part with index -1..n+1. Non-trivial = number of present entries within +-1 of floor(2n/3) (proof) / a part that must be rejected; distinct by full rendering")
	defer rec.Flush(t)
	t.Run("proof", func(t *testing.T) {
		ev.Check(t, 8000, 100000, func(rt *rapid.T) { c29Proof(rt, rec) })
	})
	t.Run("part", func(t *testing.T) {
		ev.Check(t, 4000, 50000, func(rt *rapid.T) { c29Part(rt, rec) })
	})
	t.Run("sequence", func(t *testing.T) {
		ev.Check(t, 2500, 30000, func(rt *rapid.T) { c29Sequence(rt, rec) })
	})
	t.Run("garbage", func(t *testing.T) {
		ev.Check(t, 2000, 20000, func(rt *rapid.T) { c29Garbage(rt, rec) })
	})
}


// c29Sequence: one proof context object lives as long as its validator set and verifies parts and
// proofs for many decisions (every height and round). A sequence of 2..12 verifications is run on ONE
// context over two decisions; signatures are validator i's own signature over decision 0 or over
// decision 1 (or another validator's), presented for decision 0 or 1, as a part or inside a proof.
// The reference judges every call on its own: a part is acceptable iff it is validator i's signature
// over the PRESENTED decision; a proof iff all present entries are and 3*present > 2n. What an
// earlier call verified must not matter.
func c29Sequence(rt *rapid.T, rec *ev.Rec) {
	c := c29NewCtx(rt)
	n := len(c.keys)
	dec := [][]byte{c.dHash, c.oHash}
	var live []int
	for i, k := range c.keys {
		if k != nil {
			live = append(live, i)
		}
	}
	if len(live) == 0 {
		rec.Case("sequence "+c.desc+" (no validator key)", false, "sequence", "sequence:noKeys")
		return
	}
	type sigSel struct {
		signer int // validator index whose key signs
		over   int // decision signed
	}
	draw := func(slot int, label string) sigSel {
		x := sigSel{signer: slot, over: rapid.IntRange(0, 1).Draw(rt, label+".over")}
		if rapid.IntRange(0, 9).Draw(rt, label+".otherSigner") == 0 {
			x.signer = live[rapid.IntRange(0, len(live)-1).Draw(rt, label+".signer")]
		}
		return x
	}
	sign := func(x sigSel) []byte { return c29Sign(c.keys[x.signer], dec[x.over]) }
	var trail []string
	nSteps := rapid.IntRange(2, 12).Draw(rt, "steps")
	crossed := false
	seenOver := map[int]bool{}
	for st := 0; st < nSteps; st++ {
		pd := rapid.IntRange(0, 1).Draw(rt, "presentedFor")
		if rapid.IntRange(0, 2).Draw(rt, "asPart") != 0 {
			slot := live[rapid.IntRange(0, len(live)-1).Draw(rt, "slot")]
			x := draw(slot, "part")
			want := x.signer == slot && x.over == pd
			bs, err := codec.BC.MarshalToBytes(&c29part{Index: slot, Signature: sign(x)})
			if err != nil {
				ev.Inconclusive("C29: cannot encode proof part: %v", err)
			}
			trail = append(trail, fmt.Sprintf("part(slot %d: key %d over D%d, for D%d)", slot, x.signer, x.over, pd))
			if seenOver[1-pd] && x.over == 1-pd {
				crossed = true
			}
			seenOver[x.over] = true
			got, detail := func() (res, detail string) {
				defer func() {
					if r := recover(); r != nil {
						res, detail = "panic", fmt.Sprint(r)
					}
				}()
				pp, err := c.pc.NewProofPartFromBytes(bs)
				if err != nil {
					return "reject", err.Error()
				}
				if _, err := c.pc.VerifyPart(dec[pd], pp); err != nil {
					return "reject", err.Error()
				}
				return "accept", ""
			}()
			if got == "panic" {
				rt.Fatalf("C29 violated: panic instead of an error: %s | %s steps: %v", detail, c.desc, trail)
			}
			if got == "accept" && !want {
				rt.Fatalf("C29 violated: step %d: proof part accepted for decision D%d although it is key %d's signature over D%d presented for validator %d | %s steps: %v", st, pd, x.signer, x.over, slot, c.desc, trail)
			}
			if got != "accept" && want {
				rt.Fatalf("C29 violated: step %d: validator %d's own signature over the presented decision rejected (%s) | %s steps: %v", st, slot, detail, c.desc, trail)
			}
			continue
		}
		w := c29wire{Signatures: make([][]byte, n)}
		present, allOK := 0, true
		var cd []string
		for _, slot := range live {
			if rapid.IntRange(0, 4).Draw(rt, "absent") == 0 {
				continue
			}
			x := draw(slot, "entry")
			if rapid.IntRange(0, 2).Draw(rt, "mostlyGood") != 0 {
				x = sigSel{slot, pd}
				if rapid.IntRange(0, 3).Draw(rt, "allOther") == 0 {
					x.over = 1 - pd
				}
			}
			w.Signatures[slot] = sign(x)
			present++
			if x.signer != slot || x.over != pd {
				allOK = false
			}
			if seenOver[1-pd] && x.over == 1-pd {
				crossed = true
			}
			cd = append(cd, fmt.Sprintf("%d:k%d/D%d", slot, x.signer, x.over))
		}
		for _, e := range cd {
			_ = e
		}
		for _, slot := range live {
			if w.Signatures[slot] != nil {
				seenOver[pd] = seenOver[pd] || true
			}
		}
		want := allOK && 3*present > 2*n
		bs, err := codec.BC.MarshalToBytes(&w)
		if err != nil {
			ev.Inconclusive("C29: cannot encode proof: %v", err)
		}
		trail = append(trail, fmt.Sprintf("proof([%s] for D%d)", strings.Join(cd, " "), pd))
		save := c.dHash
		c.dHash = dec[pd]
		got, detail := c29Verify(c, bs)
		c.dHash = save
		for _, slot := range live {
			if w.Signatures[slot] != nil {
				seenOver[0], seenOver[1] = true, true // conservatively: both kinds may have been seen
			}
		}
		switch {
		case got == "panic":
			rt.Fatalf("C29 violated: panic instead of an error: %s | %s steps: %v", detail, c.desc, trail)
		case got == "accept" && !want:
			rt.Fatalf("C29 violated: step %d: proof accepted for decision D%d although it must be rejected (all entries own signatures over it: %v, present %d of %d) | %s steps: %v", st, pd, allOK, present, n, c.desc, trail)
		case got != "accept" && want:
			rt.Fatalf("C29 violated: step %d: proof with %d valid own-index signatures of %d validators rejected (%s) | %s steps: %v", st, present, n, detail, c.desc, trail)
		}
	}
	labels := []string{"sequence"}
	if crossed {
		labels = append(labels, "sequence:signatureOfOtherDecisionAfterItWasVerified")
	}
	rec.Case(fmt.Sprintf("sequence %s steps=%v", c.desc, trail), crossed, labels...)
}
