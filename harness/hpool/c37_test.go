package hpool

import (
	"encoding/base64"
	"encoding/json"
	"fmt"
	"math/big"
	"os"
	"strings"
	"sync"
	"testing"
	"time"

	"github.com/icon-project/goloop/common"
	"github.com/icon-project/goloop/common/crypto"
	"github.com/icon-project/goloop/common/txlocator"
	"github.com/icon-project/goloop/module"
	"github.com/icon-project/goloop/service"
	"github.com/icon-project/goloop/service/contract"
	"github.com/icon-project/goloop/service/scoredb"
	"github.com/icon-project/goloop/service/state"
	"github.com/icon-project/goloop/service/transaction"
	"github.com/icon-project/goloop/service/txresult"
	"pgregory.net/rapid"

	"verifharness/internal/ev"
	"verifharness/internal/gen"
)

// C37: every transaction a node selects from its pool for a new block is inside the block's
// timestamp window, has not been included before, and passes pre-validation with the cumulative
// balance effect of the transactions selected before it - an honest proposer never builds a
// block its peers reject.
//
// Set-up of one case (all real code, MapDB):
//   proposer : service.NewTransactionPool(normal) over service.NewTXIDManager over
//              txlocator.NewManager; finalized blocks are recorded in it the way
//              service.FinalizeTransition does (logger.Add(list, force) ; Commit).
//   peer     : chain of real transitions (service.NewInitTransition -> set-up block that stores
//              balances / step price / step cost / threshold -> one transition per block),
//              every block is finalized before the next proposal, as consensus does.
//   rounds   : signed v3 transfers are put into the pool (expired / future / in-window timestamps
//              with edge bias, several from one sender crossing its balance, receivers that can
//              only pay with what they receive in the same block, too small step limits,
//              transactions already finalized in an earlier block); optionally a block made by
//              "somebody else" is finalized; then pool.Candidate(wc, maxBytes, maxCount).
// Oracles:
//   differential (the property itself): the Candidate list, as the normal transactions of a
//              fresh validating transition on the same parent, must pass OnValidate.
//   model    : every selected tx has T-th < ts <= T+th, an id that is in no finalized block and
//              not twice in the selection, stepLimit >= default step cost, and
//              balance(from) >= stepLimit*stepPrice + value under the running balances
//              (debit sender, credit receiver) of the selection prefix.
// Not decided (not in the statement): selection order relative to pool order, and whether an
// eligible transaction is left out (both only counted).

type c37SetupJSON struct {
	Type      string            `json:"type"`
	TimeStamp common.HexInt64   `json:"timestamp"`
	ThMS      int64             `json:"thMS"`
	StepPrice int64             `json:"stepPrice"`
	StepDef   int64             `json:"stepDefault"`
	Balances  map[string]string `json:"balances"`
}

type c37SetupTx struct {
	j  c37SetupJSON
	id []byte
}

var c37FactoryOnce sync.Once

func c37NewSetupTx(j c37SetupJSON) transaction.Transaction {
	c37FactoryOnce.Do(func() {
		transaction.RegisterFactory(&transaction.Factory{
			Priority: 3,
			CheckJSON: func(jso map[string]interface{}) bool {
				v, ok := jso["type"]
				return ok && v == "c37setup"
			},
			ParseJSON: func(js []byte, jsm map[string]interface{}, raw bool) (transaction.Transaction, error) {
				t := &c37SetupTx{}
				if err := json.Unmarshal(js, &t.j); err != nil {
					return nil, err
				}
				t.id = crypto.SHA3Sum256(t.Bytes())
				return t, nil
			},
		})
	})
	j.Type = "c37setup"
	t := &c37SetupTx{j: j}
	t.id = crypto.SHA3Sum256(t.Bytes())
	return transaction.Wrap(t)
}

func (t *c37SetupTx) Group() module.TransactionGroup { return module.TransactionGroupNormal }
func (t *c37SetupTx) ID() []byte                     { return t.id }
func (t *c37SetupTx) Hash() []byte                   { return t.id }
func (t *c37SetupTx) From() module.Address           { return state.SystemAddress }
func (t *c37SetupTx) To() module.Address             { return state.SystemAddress }
func (t *c37SetupTx) Bytes() []byte                  { b, _ := json.Marshal(&t.j); return b }
func (t *c37SetupTx) Verify() error                  { return nil }
func (t *c37SetupTx) Version() int                   { return module.TransactionVersion3 }
func (t *c37SetupTx) ValidateNetwork(nid int) bool   { return true }
func (t *c37SetupTx) Timestamp() int64               { return t.j.TimeStamp.Value }
func (t *c37SetupTx) Nonce() *big.Int                { return nil }
func (t *c37SetupTx) IsSkippable() bool              { return false }
func (t *c37SetupTx) Dispose()                       {}
func (t *c37SetupTx) ToJSON(version module.JSONVersion) (interface{}, error) {
	return map[string]interface{}{"type": "c37setup"}, nil
}
func (t *c37SetupTx) PreValidate(wc state.WorldContext, update bool) error { return nil }
func (t *c37SetupTx) GetHandler(cm contract.ContractManager) (transaction.Handler, error) {
	return t, nil
}
func (t *c37SetupTx) Prepare(ctx contract.Context) (state.WorldContext, error) {
	return ctx.GetFuture([]state.LockRequest{{Lock: state.AccountWriteLock, ID: state.WorldIDStr}}), nil
}
func (t *c37SetupTx) Execute(ctx contract.Context, wcs state.WorldSnapshot, estimate bool) (txresult.Receipt, error) {
	as := ctx.GetAccountState(state.SystemID)
	if t.j.ThMS > 0 {
		if err := scoredb.NewVarDB(as, state.VarTimestampThreshold).Set(t.j.ThMS); err != nil {
			return nil, err
		}
	}
	if err := scoredb.NewVarDB(as, state.VarStepPrice).Set(t.j.StepPrice); err != nil {
		return nil, err
	}
	if err := scoredb.NewArrayDB(as, state.VarStepTypes).Put(state.StepTypeDefault); err != nil {
		return nil, err
	}
	if err := scoredb.NewDictDB(as, state.VarStepCosts, 1).Set(state.StepTypeDefault, t.j.StepDef); err != nil {
		return nil, err
	}
	for a, b := range t.j.Balances {
		v, ok := new(big.Int).SetString(b, 10)
		if !ok {
			return nil, fmt.Errorf("bad balance %q", b)
		}
		ctx.GetAccountState(common.MustNewAddressFromString(a).ID()).SetBalance(v)
	}
	r := txresult.NewReceipt(ctx.Database(), ctx.Revision(), t.To())
	r.SetResult(module.StatusSuccess, big.NewInt(0), big.NewInt(0), nil)
	return r, nil
}

type c37Monitor struct{}

func (c37Monitor) OnDropTx(n int, user bool)                         {}
func (c37Monitor) OnAddTx(n int, user bool)                          {}
func (c37Monitor) OnRemoveTx(n int, user bool)                       {}
func (c37Monitor) OnCommit(id []byte, ts time.Time, d time.Duration) {}

// c37Tx is the harness' view of one signed v3 transfer.
type c37Tx struct {
	tx    transaction.Transaction
	from  int
	to    string
	toN   string
	value int64
	limit int64
	ts    int64
	n     int
}

func (x *c37Tx) String() string {
	return fmt.Sprintf("t%d{a%d->%s v=%d lim=%d ts=%d}", x.n, x.from, x.toN, x.value, x.limit, x.ts)
}

func c37Sign(w module.Wallet, to string, value, limit, ts int64, nonce int) (transaction.Transaction, error) {
	m := map[string]interface{}{
		"version":   "0x3",
		"from":      w.Address().String(),
		"to":        to,
		"value":     fmt.Sprintf("0x%x", value),
		"stepLimit": fmt.Sprintf("0x%x", limit),
		"timestamp": fmt.Sprintf("0x%x", ts),
		"nid":       "0x1",
		"nonce":     fmt.Sprintf("0x%x", nonce),
	}
	js, _ := json.Marshal(m)
	tx0, err := transaction.NewTransactionFromJSON(js)
	if err != nil {
		return nil, err
	}
	sig, err := w.Sign(tx0.ID())
	if err != nil {
		return nil, err
	}
	m["signature"] = base64.StdEncoding.EncodeToString(sig)
	js, _ = json.Marshal(m)
	return transaction.NewTransactionFromJSON(js)
}

const c37Accounts = 5

// c37DiffOnly (VERIF_C37_ORACLE=diff) lets the differential oracle speak first; only used to
// measure its sensitivity on mutated trees.
var c37DiffOnly = os.Getenv("VERIF_C37_ORACLE") == "diff"

func c37Addr(i int) string { return gen.WalletFromIndex(100 + i).Address().String() }

// c37Balances reads the balances of the harness accounts (and extra receivers) from the state
// behind a finalized transition result.
func c37Snapshot(e *c11Env, result []byte) state.WorldSnapshot {
	wss, err := service.NewWorldSnapshot(e.dbase, e.plt, result, nil)
	if err != nil {
		ev.Inconclusive("C37: NewWorldSnapshot: %v", err)
	}
	return wss
}

func c37BalanceOf(wss state.WorldSnapshot, addr string) *big.Int {
	ass := wss.GetAccountSnapshot(common.MustNewAddressFromString(addr).ID())
	if ass == nil {
		return new(big.Int)
	}
	return new(big.Int).Set(ass.GetBalance())
}

func c37Run(rt *rapid.T, rec *ev.Rec) (violation, desc string, nontrivial bool, labels []string) {
	lab := map[string]bool{}
	var d []string
	finish := func(v string) (string, string, bool, []string) {
		for l := range lab {
			labels = append(labels, l)
		}
		return v, strings.Join(d, " | "), nontrivial, labels
	}
	e := c11NewEnv()
	defer e.close()

	// ---- chain parameters
	thMS := rapid.SampledFrom([]int64{0, 1, 1, 2, 10}).Draw(rt, "thMS")
	th := service.ConfigTXTimestampThresholdDefault
	if thMS != 0 {
		th = thMS * 1000
	}
	stepPrice := rapid.SampledFrom([]int64{0, 1, 1, 10, 12500000000}).Draw(rt, "stepPrice")
	stepDef := rapid.SampledFrom([]int64{0, 100, 100, 100000}).Draw(rt, "stepDefault")
	t0 := int64(1_700_000_000_000_000) + rapid.Int64Range(0, 1000).Draw(rt, "t0")
	unit := stepPrice * stepDef // cost of a minimal transaction
	if unit == 0 {
		unit = 1
	}
	setup := c37SetupJSON{TimeStamp: common.HexInt64{Value: t0}, ThMS: thMS, StepPrice: stepPrice, StepDef: stepDef, Balances: map[string]string{}}
	var balDesc []string
	for i := 0; i < c37Accounts; i++ {
		// balances worth 0..6 minimal transactions, sometimes one short of a multiple
		k := rapid.SampledFrom([]int64{0, 0, 1, 2, 3, 4, 6, 8}).Draw(rt, "balUnits")
		b := new(big.Int).Mul(big.NewInt(k), big.NewInt(unit))
		switch rapid.IntRange(0, 5).Draw(rt, "balAdj") {
		case 0:
			b.Sub(b, big.NewInt(1))
		case 1:
			b.Add(b, big.NewInt(rapid.Int64Range(0, unit).Draw(rt, "balExtra")))
		}
		if b.Sign() < 0 {
			b.SetInt64(0)
		}
		setup.Balances[c37Addr(i)] = b.String()
		balDesc = append(balDesc, fmt.Sprintf("a%d=%s", i, b))
	}
	d = append(d, fmt.Sprintf("th=%d stepPrice=%d stepDefault=%d t0=%d balances[%s]", th, stepPrice, stepDef, t0, strings.Join(balDesc, " ")))

	// ---- peer: init -> set-up block (finalized)
	init := e.initTransition(nil)
	stx := c37NewSetupTx(setup)
	parent := service.NewTransition(init, nil, transaction.NewTransactionListFromSlice(e.dbase, []module.Transaction{stx}), common.NewBlockInfo(1, t0), nil, false)
	if ve, xe, to := c11Exec(parent); to {
		rec.Label("timeout-skipped")
		return finish("")
	} else if ve != nil || xe != nil {
		ev.Inconclusive("C37: set-up block failed: %v %v", ve, xe)
	}
	const finAll = module.FinalizeNormalTransaction | module.FinalizePatchTransaction | module.FinalizeResult
	if err := service.FinalizeTransition(parent, finAll, false); err != nil {
		ev.Inconclusive("C37: finalize set-up block: %v", err)
	}

	// ---- proposer: pool over its own id manager
	lm, err := txlocator.NewManager(e.dbase, c11Logger)
	if err != nil {
		ev.Inconclusive("C37: locator manager: %v", err)
	}
	defer lm.Term()
	tsc := service.NewTimestampChecker()
	if thMS != 0 {
		tsc.SetThreshold(time.Duration(thMS) * time.Millisecond) // transitionContext.onWorldFinalize does this in a node
	}
	tim, err := service.NewTXIDManager(lm, tsc, nil)
	if err != nil {
		ev.Inconclusive("C37: txid manager: %v", err)
	}
	pool := service.NewTransactionPool(module.TransactionGroupNormal, 5000, tim, c37Monitor{}, c11Logger)
	commitProposerSide := func(h, T int64, txs []module.Transaction) string {
		lg := tim.NewLogger(module.TransactionGroupNormal, h, T)
		if _, err := lg.Add(transaction.NewTransactionListFromSlice(e.dbase, txs), true); err != nil {
			return fmt.Sprintf("proposer side: recording finalized block h=%d failed: %v", h, err)
		}
		if err := lg.Commit(); err != nil {
			return fmt.Sprintf("proposer side: commit of finalized block h=%d failed: %v", h, err)
		}
		return ""
	}
	if v := commitProposerSide(1, t0, []module.Transaction{stx}); v != "" {
		return finish(v)
	}

	committed := map[string]bool{}
	var inPool []*c37Tx
	var everMade []*c37Tx
	ntx := 0
	height := int64(1)
	T := t0
	extra := []string{"hx00000000000000000000000000000000000000aa", "cx00000000000000000000000000000000000000bb"}

	makeTx := func(T int64, from int) *c37Tx {
		ntx++
		x := &c37Tx{from: from, n: ntx}
		switch r := rapid.IntRange(0, 9).Draw(rt, "toKind"); {
		case r < 7:
			i := rapid.IntRange(0, c37Accounts-1).Draw(rt, "to")
			x.to, x.toN = c37Addr(i), fmt.Sprintf("a%d", i)
		default:
			x.to, x.toN = extra[r%2], []string{"hxaa", "cxbb"}[r%2]
		}
		// step limit: the minimum, a bit more, or too small
		switch rapid.IntRange(0, 9).Draw(rt, "limKind") {
		case 0:
			x.limit = stepDef - 1
			if x.limit < 0 {
				x.limit = 0
			}
		case 1, 2:
			x.limit = stepDef + rapid.Int64Range(0, stepDef+1).Draw(rt, "limExtra")
		default:
			x.limit = stepDef
		}
		switch rapid.IntRange(0, 5).Draw(rt, "valKind") {
		case 0:
			x.value = 0
		case 1:
			x.value = 1
		case 2:
			x.value = unit
		case 3:
			x.value = 2 * unit
		default:
			x.value = rapid.Int64Range(0, 3*unit).Draw(rt, "value")
		}
		x.ts, _ = c11FreshTs(rt, T, th)
		if rapid.IntRange(0, 5).Draw(rt, "tsNext") == 0 {
			// aimed at the window of a later block
			x.ts += rapid.Int64Range(1, th).Draw(rt, "tsShift")
		}
		tx, err := c37Sign(gen.WalletFromIndex(100+from), x.to, x.value, x.limit, x.ts, ntx)
		if err != nil {
			ev.Inconclusive("C37: cannot build a v3 transaction: %v", err)
		}
		x.tx = tx
		everMade = append(everMade, x)
		return x
	}

	rounds := rapid.IntRange(1, 3).Draw(rt, "rounds")
	for r := 0; r < rounds; r++ {
		height++
		T += c11Delta(rt, th)
		// ---- new transactions into the pool (bursts from one sender so that the sum crosses its balance)
		nNew := rapid.IntRange(0, 14).Draw(rt, "nNew")
		burst := -1
		for i := 0; i < nNew; i++ {
			from := rapid.IntRange(0, c37Accounts-1).Draw(rt, "from")
			if burst >= 0 && rapid.IntRange(0, 2).Draw(rt, "stay") > 0 {
				from = burst
			}
			burst = from
			x := makeTx(T, from)
			if err := pool.Add(x.tx, rapid.Bool().Draw(rt, "direct")); err != nil {
				ev.Inconclusive("C37: pool.Add: %v", err)
			}
			inPool = append(inPool, x)
			if x.toN[0] == 'a' && x.value > 0 && rapid.IntRange(0, 2).Draw(rt, "spendReceived") == 0 {
				// the receiver spends in the same round (payable only with this credit when it is poor)
				burst = int(x.toN[1] - '0')
			}
		}
		// ---- sometimes somebody else's block is finalized first (its transactions may sit in our pool)
		if rapid.IntRange(0, 2).Draw(rt, "foreignBlock") == 0 {
			var blk []*c37Tx
			wssP := c37Snapshot(e, parent.Result())
			bal := map[string]*big.Int{}
			get := func(a string) *big.Int {
				if b, ok := bal[a]; ok {
					return b
				}
				bal[a] = c37BalanceOf(wssP, a)
				return bal[a]
			}
			addIfValid := func(x *c37Tx) {
				cost := new(big.Int).Add(new(big.Int).Mul(big.NewInt(x.limit), big.NewInt(stepPrice)), big.NewInt(x.value))
				if !c11InWindow(T, th, x.ts) || committed[string(x.tx.ID())] || x.limit < stepDef || get(c37Addr(x.from)).Cmp(cost) < 0 {
					return
				}
				for _, y := range blk {
					if y == x {
						return
					}
				}
				get(c37Addr(x.from)).Sub(get(c37Addr(x.from)), cost)
				get(x.to).Add(get(x.to), big.NewInt(x.value))
				blk = append(blk, x)
			}
			for _, x := range inPool {
				if rapid.Bool().Draw(rt, "takeFromPool") {
					addIfValid(x)
				}
			}
			for i := rapid.IntRange(0, 2).Draw(rt, "foreignNew"); i > 0; i-- {
				addIfValid(makeTx(T, rapid.IntRange(0, c37Accounts-1).Draw(rt, "from")))
			}
			var txs []module.Transaction
			var names []string
			for _, x := range blk {
				txs = append(txs, x.tx)
				names = append(names, x.String())
			}
			ev.Journal(strings.Join(d, " | "))
			tr := service.NewTransition(parent, nil, transaction.NewTransactionListFromSlice(e.dbase, txs), common.NewBlockInfo(height, T), nil, false)
			ve, xe, to := c11Exec(tr)
			if to {
				rec.Label("timeout-skipped")
				return finish("")
			}
			if ve != nil || xe != nil {
				// the harness' own block is not the subject; stop the case here
				rec.Label("foreign-block-failed-skipped")
				d = append(d, fmt.Sprintf("foreign block h=%d T=%d [%s] failed: %v %v", height, T, strings.Join(names, ","), ve, xe))
				return finish("")
			}
			if err := service.FinalizeTransition(tr, finAll, false); err != nil {
				return finish(fmt.Sprintf("finalize of block h=%d failed: %v", height, err))
			}
			if v := commitProposerSide(height, T, txs); v != "" {
				return finish(v)
			}
			for _, x := range blk {
				committed[string(x.tx.ID())] = true
			}
			// a node removes finalized transactions from its pool; leaving some models ids that
			// came back (gossip) after they were finalized
			if rapid.IntRange(0, 2).Draw(rt, "removeFinalized") == 0 {
				pool.RemoveList(transaction.NewTransactionListFromSlice(e.dbase, txs))
				var rest []*c37Tx
				for _, x := range inPool {
					if !committed[string(x.tx.ID())] {
						rest = append(rest, x)
					}
				}
				inPool = rest
			}
			parent = tr
			d = append(d, fmt.Sprintf("finalized h=%d T=%d [%s]", height, T, strings.Join(names, ",")))
			lab["foreign-block"] = true
			height++
			T += c11Delta(rt, th)
		}
		// ---- the proposal
		var pn []string
		for _, x := range inPool {
			pn = append(pn, x.String())
		}
		maxCount := rapid.SampledFrom([]int{0, 0, 0, 1, 3, 8}).Draw(rt, "maxCount")
		maxBytes := rapid.SampledFrom([]int{0, 0, 0, 200, 600, 2000}).Draw(rt, "maxBytes")
		d = append(d, fmt.Sprintf("propose h=%d T=%d maxCount=%d maxBytes=%d pool[%s]", height, T, maxCount, maxBytes, strings.Join(pn, ",")))
		wss := c37Snapshot(e, parent.Result())
		ws, err := state.WorldStateFromSnapshot(wss)
		if err != nil {
			ev.Inconclusive("C37: WorldStateFromSnapshot: %v", err)
		}
		bi := common.NewBlockInfo(height, T)
		wc := state.NewWorldContext(ws, bi, nil, e.plt)
		ev.Journal(strings.Join(d, " | "))
		cands, _ := pool.Candidate(wc, maxBytes, maxCount)

		byID := map[string]*c37Tx{}
		for _, x := range everMade {
			byID[string(x.tx.ID())] = x
		}
		var sel []*c37Tx
		var sn []string
		for _, c := range cands {
			x := byID[string(c.ID())]
			if x == nil {
				return finish(fmt.Sprintf("Candidate returned a transaction %x that was never put into the pool", c.ID()))
			}
			sel = append(sel, x)
			sn = append(sn, fmt.Sprintf("t%d", x.n))
		}
		d = append(d, fmt.Sprintf("selected[%s]", strings.Join(sn, ",")))

		// ---- model oracle
		bal := map[string]*big.Int{}
		get := func(a string) *big.Int {
			if b, ok := bal[a]; ok {
				return b
			}
			bal[a] = c37BalanceOf(wss, a)
			return bal[a]
		}
		eligible := func(x *c37Tx, taken map[string]bool) string {
			switch {
			case !c11InWindow(T, th, x.ts):
				return "timestamp outside (T-th,T+th]"
			case committed[string(x.tx.ID())]:
				return "id already in a finalized block"
			case taken[string(x.tx.ID())]:
				return "id twice in the selection"
			case x.limit < stepDef:
				return fmt.Sprintf("stepLimit %d below the default step cost %d", x.limit, stepDef)
			}
			cost := new(big.Int).Add(new(big.Int).Mul(big.NewInt(x.limit), big.NewInt(stepPrice)), big.NewInt(x.value))
			if b := get(c37Addr(x.from)); b.Cmp(cost) < 0 {
				return fmt.Sprintf("sender a%d has %s left after the transactions selected before it, needs %s", x.from, b, cost)
			}
			return ""
		}
		apply := func(x *c37Tx, taken map[string]bool) {
			cost := new(big.Int).Add(new(big.Int).Mul(big.NewInt(x.limit), big.NewInt(stepPrice)), big.NewInt(x.value))
			get(c37Addr(x.from)).Sub(get(c37Addr(x.from)), cost)
			get(x.to).Add(get(x.to), big.NewInt(x.value))
			taken[string(x.tx.ID())] = true
		}
		taken := map[string]bool{}
		modelSays := ""
		for i, x := range sel {
			if why := eligible(x, taken); why != "" {
				if c37DiffOnly {
					// sensitivity runs of the differential oracle alone
					modelSays = why
					break
				}
				return finish(fmt.Sprintf("proposal h=%d T=%d th=%d: selected #%d %s although %s; case: %s", height, T, th, i, x, why, strings.Join(d, " | ")))
			}
			apply(x, taken)
		}
		// ---- classes of this round (order-free: they depend on the selection, not on the pool's order)
		costOf := func(x *c37Tx) *big.Int {
			return new(big.Int).Add(new(big.Int).Mul(big.NewInt(x.limit), big.NewInt(stepPrice)), big.NewInt(x.value))
		}
		perSender := map[int]int{}
		for _, x := range sel {
			perSender[x.from]++
			if c37BalanceOf(wss, c37Addr(x.from)).Cmp(costOf(x)) < 0 {
				lab["sel:paid-with-credit-received-in-the-block"] = true
				nontrivial = true
			}
			if x.ts == T+th {
				lab["sel:ts-at-upper-edge"] = true
			}
			if x.ts == T-th+1 {
				lab["sel:ts-at-lower-edge"] = true
			}
		}
		for _, c := range perSender {
			if c > 1 {
				lab["sel:several-from-one-sender"] = true
			}
		}
		eligibleLeftOut := false
		for _, x := range inPool {
			if taken[string(x.tx.ID())] {
				continue
			}
			switch {
			case !c11InWindow(T, th, x.ts):
				lab["pool:out-of-window"] = true
				if x.ts == T-th || x.ts == T+th+1 {
					lab["pool:out-of-window-by-one"] = true
					nontrivial = nontrivial || len(sel) > 0
				}
			case committed[string(x.tx.ID())]:
				lab["pool:already-finalized"] = true
				nontrivial = nontrivial || len(sel) > 0
			case x.limit < stepDef:
				lab["pool:step-limit-too-small"] = true
			case c37BalanceOf(wss, c37Addr(x.from)).Cmp(costOf(x)) < 0 && get(c37Addr(x.from)).Cmp(costOf(x)) < 0:
				lab["pool:unaffordable"] = true
			case get(c37Addr(x.from)).Cmp(costOf(x)) < 0:
				// affordable on its own, not after what was selected
				lab["pool:left-out-for-cumulative-balance"] = true
				nontrivial = true
			default:
				eligibleLeftOut = true
			}
		}
		if eligibleLeftOut && maxCount == 0 && maxBytes == 0 {
			rec.Label("eligible-left-out-without-limits-not-decided")
			if len(sel) == 0 {
				rec.Label("empty-selection-despite-eligible-not-decided")
			}
		}
		rec.LabelN("selected-transactions", len(sel))
		if len(sel) == 0 {
			rec.Label("empty-selection")
		}

		// ---- differential oracle: a peer validates the proposed block
		tr := service.NewTransition(parent, nil, transaction.NewTransactionListFromSlice(e.dbase, cands), bi, nil, false)
		ve, xe, to := c11Exec(tr)
		if to {
			rec.Label("timeout-skipped")
			return finish("")
		}
		if ve != nil {
			return finish(fmt.Sprintf("proposal h=%d T=%d th=%d built from the pool is rejected by a validating transition: %v; case: %s", height, T, th, ve, strings.Join(d, " | ")))
		}
		if modelSays != "" {
			return finish("differential oracle missed what the model found: " + modelSays)
		}
		rec.Label("proposals-validated")
		if xe != nil {
			rec.Label("execution-error-skipped")
			return finish("")
		}
		if r+1 == rounds {
			break
		}
		// finalize the proposed block on both sides and go on
		if err := service.FinalizeTransition(tr, finAll, false); err != nil {
			return finish(fmt.Sprintf("finalize of proposed block h=%d failed: %v", height, err))
		}
		if v := commitProposerSide(height, T, cands); v != "" {
			return finish(v)
		}
		pool.RemoveList(transaction.NewTransactionListFromSlice(e.dbase, cands))
		for _, x := range sel {
			committed[string(x.tx.ID())] = true
		}
		var rest []*c37Tx
		for _, x := range inPool {
			if !taken[string(x.tx.ID())] {
				rest = append(rest, x)
			}
		}
		inPool = rest
		// Candidate drops transactions it found expired / finalized / invalid in the background;
		// whatever it dropped can only make the next selection smaller, the model does not depend on it
		parent = tr
		lab["second-round"] = true
	}
	return finish("")
}

func TestC37(t *testing.T) {
	rec := ev.New("C37", "pools of signed v3 transfers over a real TXIDManager/locator manager and a real chain of finalized transitions (threshold, step price, "+
		"step cost, balances drawn; timestamps on the window edges; bursts of one sender crossing its balance; receivers spending what they receive; finalized ids left in the pool; "+
		"1-3 proposal rounds with blocks of other proposers in between); non-trivial = in some round a transaction is left out only because of the cumulative balance, or a selected "+
		"one is payable only with what it receives in the same block, or something is selected while the pool also holds a finalized id or a timestamp one microsecond outside the window; "+
		"distinct by the rendered case")
	defer rec.Flush(t)
	ev.Check(t, 1000, 10000, func(rt *rapid.T) {
		v, desc, nt, labels := c37Run(rt, rec)
		rec.Case(desc, nt, labels...)
		if v != "" {
			rt.Fatalf("C37 violated: %s", v)
		}
	})
}
