package hpool

import (
	"encoding/json"
	"fmt"
	"math/big"
	"os"
	"strings"
	"sync"
	"sync/atomic"
	"testing"
	"time"

	"github.com/icon-project/goloop/chain/base"
	"github.com/icon-project/goloop/common"
	"github.com/icon-project/goloop/common/crypto"
	"github.com/icon-project/goloop/common/db"
	"github.com/icon-project/goloop/common/log"
	"github.com/icon-project/goloop/common/txlocator"
	"github.com/icon-project/goloop/consensus"
	"github.com/icon-project/goloop/module"
	"github.com/icon-project/goloop/service"
	"github.com/icon-project/goloop/service/contract"
	"github.com/icon-project/goloop/service/platform/basic"
	"github.com/icon-project/goloop/service/scoredb"
	"github.com/icon-project/goloop/service/state"
	"github.com/icon-project/goloop/service/transaction"
	"github.com/icon-project/goloop/service/txresult"
	"github.com/icon-project/goloop/test"
	"pgregory.net/rapid"

	"verifharness/internal/ev"
	"verifharness/internal/gen"
)

// C11: along any chain of blocks no transaction id is accepted twice (duplicate in the same
// block, in an unfinalized ancestor, in a finalized ancestor), for any timestamp inside the
// validity window and any (fixed) threshold. A transaction is accepted only if its timestamp
// lies in (T-th, T+th].
//
// Sub-checks
//   tracker    : trees of blocks over the real txlocator.NewManager (MapDB) exactly as
//                service/transition.go drives it: parent.New(h,T,th) ; Add(list,false) ;
//                window check of every tx ; Commit at random points ; "restart" (new manager on
//                the same DB, last finalized block re-added with force and committed, as
//                block.NewManager does).  Oracle: reference model of the chain (set of ids on
//                the path to the root).  A block is accepted by the code iff Add succeeds and
//                every tx passes service.CheckTxTimestamp; the model accepts iff no id repeats
//                on the path/in the block and every ts is in (T-th, T+th].
//   window     : service.CheckTxTimestamp / service.NewTimestampRange against the formula.
//   transition : (second half of this file) the same duplicate placements through chained
//                service.NewTransition with real validation.
//   varyingThresholds : labelled experiment, never decides (see DESIGN C11).
//
// Known finding c11KnownKey (goloop not repaired because its own unit test pins the boundary):
// a block accepted by the code and refused by the model is excused iff all its timestamps are in
// the window and EVERY duplicate it carries is an id whose every holder on the path (a) is
// reached by the lookup through tracker objects (c11TrackerReached) and (b) has ts == T_holder+th.
// Then, if the finding is listed (VERIF_KNOWN), the block is taken as accepted (the id is now
// held twice on that chain) and the history goes on; any later repeat of it is decided normally.
// Everything else (same-block repeat, holder only reachable through the manager/DB, any other
// timestamp, window edges) stays a violation. Sub-check "knownfinding" replays the two minimal
// inputs without draws so that the KNOWN-FINDING line shows on every run while the defect exists.
//
// What is NOT decided: over-rejection (the code refusing a block the model accepts) is not
// forbidden by the statement; it is counted ("overreject-not-decided") and the block is treated
// as rejected. Forks that compete with an already finalized block are dead in a real node and
// are not extended after the commit.

type c11Tx struct {
	id []byte
	ts int64
	g  module.TransactionGroup
	transaction.Transaction
}

func (t *c11Tx) ID() []byte                     { return t.id }
func (t *c11Tx) Hash() []byte                   { return t.id }
func (t *c11Tx) Timestamp() int64               { return t.ts }
func (t *c11Tx) Group() module.TransactionGroup { return t.g }
func (t *c11Tx) String() string                 { return fmt.Sprintf("%s@%d", t.name(), t.ts) }
func (t *c11Tx) name() string                   { return strings.TrimRight(string(t.id), "\x00") }

type c11List struct {
	txs []*c11Tx
	module.TransactionList
}

type c11Iter struct {
	l *c11List
	i int
}

func (l *c11List) Iterator() module.TransactionIterator { return &c11Iter{l: l} }
func (it *c11Iter) Has() bool                           { return it.i < len(it.l.txs) }
func (it *c11Iter) Next() error                         { it.i++; return nil }
func (it *c11Iter) Get() (module.Transaction, int, error) {
	return it.l.txs[it.i], it.i, nil
}

func c11NewTx(n int, ts int64, g module.TransactionGroup) *c11Tx {
	id := make([]byte, 32)
	copy(id, fmt.Sprintf("x%d", n))
	return &c11Tx{id: id, ts: ts, g: g}
}

type c11Node struct {
	idx       int
	parent    *c11Node
	height    int64
	T         int64
	th        int64
	txs       []*c11Tx
	tracker   module.LocatorTracker
	committed bool
	dead      bool
	afterRst  bool // committed content only reachable through the database (after restart)
	// linked mirrors tracker.parent != nil: the block's tracker was created while its parent's
	// tracker was still in use (tracker.New) and the block has not been committed since.
	linked bool
}

// c11KnownKey identifies the known finding: tracker.Has skips the lookup for ts >= T+th, so an id
// held by an ancestor whose *tracker* is consulted (an unfinalized ancestor, or one finalized
// while an unfinalized descendant created earlier still points at its tracker) and whose
// timestamp is exactly that ancestor's block time + threshold is not seen.
const c11KnownKey = "C11-unfinalized-ancestor-ts-eq-T-plus-th"

// c11TrackerReached reports whether the lookup that starts at parent's tracker walks through
// tracker objects down to h's tracker (instead of leaving to the manager before).
func c11TrackerReached(parent, h *c11Node) bool {
	for cur := parent; cur != nil; cur = cur.parent {
		if cur == h {
			return true
		}
		if !cur.linked {
			return false
		}
	}
	return false
}

func (n *c11Node) isAncestorOrSelf(o *c11Node) bool {
	for p := o; p != nil; p = p.parent {
		if p == n {
			return true
		}
	}
	return false
}

func c11InWindow(T, th, ts int64) bool { return T-th < ts && ts <= T+th }

type c11World struct {
	g     module.TransactionGroup
	th    int64
	dbase db.Database
	mgr   module.LocatorManager
	nodes []*c11Node
	ntx   int
	desc  []string
}

func (w *c11World) live() []*c11Node {
	var r []*c11Node
	for _, n := range w.nodes {
		if !n.dead {
			r = append(r, n)
		}
	}
	return r
}

func (w *c11World) newRoot() *c11Node {
	// service.newInitTransition: tim.NewLogger(group, 0, 0) -> lm.NewTracker(group, 0, 0, threshold)
	n := &c11Node{idx: len(w.nodes), tracker: w.mgr.NewTracker(w.g, 0, 0, w.th)}
	w.nodes = append(w.nodes, n)
	return n
}

type c11Outcome struct {
	labels     []string
	nontrivial bool
}

var c11Logger = func() log.Logger {
	l := log.New()
	l.SetLevel(log.FatalLevel)
	return l
}()

// c11Deltas are the block-time steps tried: small against th so that windows of consecutive
// blocks overlap (a duplicate can be inside both windows) and at the edges 2th-1, 2th, 2th+1
// where the overlap vanishes.
func c11Delta(rt *rapid.T, th int64) int64 {
	c := []int64{1, 1, 1, 2, th, th, 2*th - 1, 2 * th, 2*th + 1}
	d := rapid.SampledFrom(c).Draw(rt, "delta")
	if rapid.IntRange(0, 5).Draw(rt, "deltaRnd") == 0 {
		d = rapid.Int64Range(1, 3*th).Draw(rt, "deltaAny")
	}
	if d < 1 {
		d = 1
	}
	return d
}

func c11FreshTs(rt *rapid.T, T, th int64) (int64, string) {
	switch rapid.SampledFrom([]int{0, 0, 0, 0, 1, 1, 2, 3, 4, 4, 5, 6}).Draw(rt, "tsKind") {
	case 0:
		return T + th, "hi"
	case 1:
		return T - th + 1, "lo"
	case 2:
		return T, "mid"
	case 3:
		return T + th - 1, "hi-1"
	case 4:
		return rapid.Int64Range(T-th+1, T+th).Draw(rt, "tsIn"), "in"
	case 5:
		return T - th, "expired"
	default:
		return T + th + 1, "future"
	}
}

// c11RunTree executes one generated history; violation text or "".
func c11RunTree(rt *rapid.T, rec *ev.Rec, maxOps int, vary bool) (string, string, c11Outcome) {
	pfx := ""
	if vary {
		pfx = "exp-varying-th:"
	}
	var out c11Outcome
	lab := map[string]bool{}
	w := &c11World{dbase: db.NewMapDB()}
	if rapid.IntRange(0, 9).Draw(rt, "group") < 7 {
		w.g = module.TransactionGroupNormal
	} else {
		w.g = module.TransactionGroupPatch
	}
	w.th = rapid.SampledFrom([]int64{1, 2, 2, 3, 10, 10, service.ConfigTXTimestampThresholdDefault}).Draw(rt, "th")
	t0 := w.th + rapid.Int64Range(1, 1000).Draw(rt, "t0")
	mgr, err := txlocator.NewManager(w.dbase, c11Logger)
	if err != nil {
		ev.Inconclusive("C11: txlocator.NewManager: %v", err)
	}
	w.mgr = mgr
	defer func() { w.mgr.Term() }()
	w.newRoot()
	w.desc = append(w.desc, fmt.Sprintf("group=%s th=%d t0=%d", map[module.TransactionGroup]string{module.TransactionGroupNormal: "normal", module.TransactionGroupPatch: "patch"}[w.g], w.th, t0))
	nOps := rapid.IntRange(2, maxOps).Draw(rt, "nOps")
	last := w.nodes[0]

	finish := func(v string) (string, string, c11Outcome) {
		for l := range lab {
			out.labels = append(out.labels, pfx+l)
		}
		return v, strings.Join(w.desc, " | "), out
	}

	for op := 0; op < nOps; op++ {
		live := w.live()
		k := rapid.IntRange(0, 19).Draw(rt, "op")
		switch {
		case k < 14 || len(live) == 0: // add a block
			if len(live) == 0 {
				return finish("")
			}
			parent := last
			if parent.dead || rapid.IntRange(0, 9).Draw(rt, "pickParent") < 4 {
				parent = live[rapid.IntRange(0, len(live)-1).Draw(rt, "parent")]
			}
			th := w.th
			if vary {
				th = rapid.SampledFrom([]int64{1, 2, 3, 5, 10}).Draw(rt, "blockTh")
			}
			T := t0
			if parent.T != 0 {
				T = parent.T + c11Delta(rt, th)
			}
			n := &c11Node{idx: len(w.nodes), parent: parent, height: parent.height + 1, T: T, th: th}
			n.linked = !(parent.committed && !parent.linked) // tracker.New: committed parent without parent -> manager.NewTracker
			// ids on the path
			var path []*c11Tx
			pathOwner := map[*c11Tx]*c11Node{}
			for p := parent; p != nil; p = p.parent {
				for _, tx := range p.txs {
					path = append(path, tx)
					pathOwner[tx] = p
				}
			}
			var pathIn []*c11Tx
			for _, tx := range path {
				if c11InWindow(T, th, tx.ts) {
					pathIn = append(pathIn, tx)
				}
			}
			var foreign []*c11Tx
			for _, o := range w.nodes {
				if o.isAncestorOrSelf(parent) {
					continue
				}
				for _, tx := range o.txs {
					if _, on := pathOwner[tx]; !on && c11InWindow(T, th, tx.ts) {
						foreign = append(foreign, tx)
					}
				}
			}
			// Block plan: mostly one anomaly per block, so that chains grow deep and every
			// duplicate class is decided in isolation; "mix" keeps arbitrary combinations.
			plan := rapid.SampledFrom([]string{"clean", "clean", "clean", "clean", "clean", "clean", "clean",
				"dupAnc", "dupAnc", "dupAnc", "dupAnc", "dupAnc", "dupSame", "foreign", "foreign", "oow", "mix", "mix", "mix", "dupAncOow"}).Draw(rt, "plan")
			cnt := rapid.IntRange(0, 6).Draw(rt, "ntx")
			if plan != "clean" && plan != "mix" && cnt == 0 {
				cnt = 1
			}
			special := -1
			if cnt > 0 {
				special = rapid.IntRange(0, cnt-1).Draw(rt, "special")
			}
			pickAnc := func(from []*c11Tx) *c11Tx {
				// prefer the far end of the path (grand-parents, finalized blocks) half of the time
				if rapid.Bool().Draw(rt, "deep") {
					return from[len(from)-1-rapid.IntRange(0, (len(from)-1)/3).Draw(rt, "dupDeep")]
				}
				return from[rapid.IntRange(0, len(from)-1).Draw(rt, "dupIn")]
			}
			fresh := func(allowOut bool) {
				ts, k := c11FreshTs(rt, T, th)
				if !allowOut && (k == "expired" || k == "future") {
					ts = T + th
				}
				w.ntx++
				n.txs = append(n.txs, c11NewTx(w.ntx, ts, w.g))
			}
			var kinds []string
			for i := 0; i < cnt; i++ {
				kind := "n"
				if plan == "mix" {
					kind = rapid.SampledFrom([]string{"n", "n", "n", "n", "n", "A", "A", "a", "S", "F", "o"}).Draw(rt, "txKind")
				} else if i == special {
					kind = map[string]string{"clean": "n", "dupAnc": "A", "dupSame": "S", "foreign": "F", "oow": "o", "dupAncOow": "a"}[plan]
				}
				switch {
				case kind == "A" && len(pathIn) > 0:
					n.txs = append(n.txs, pickAnc(pathIn))
				case kind == "a" && len(path) > 0:
					n.txs = append(n.txs, pickAnc(path))
				case kind == "S" && len(n.txs) > 0:
					n.txs = append(n.txs, n.txs[rapid.IntRange(0, len(n.txs)-1).Draw(rt, "dupSame")])
				case kind == "S" && i+1 < cnt: // repeat comes later
					fresh(false)
					special = i + 1
					kind = "n"
				case kind == "F" && len(foreign) > 0:
					n.txs = append(n.txs, foreign[rapid.IntRange(0, len(foreign)-1).Draw(rt, "dupForeign")])
				case kind == "o":
					fresh(true)
				default:
					fresh(plan == "mix")
					kind = "n"
				}
				kinds = append(kinds, kind)
			}
			w.nodes = append(w.nodes, n)
			var sb []string
			for _, tx := range n.txs {
				sb = append(sb, tx.String())
			}
			thd := ""
			if vary {
				thd = fmt.Sprintf(" th=%d", th)
			}
			w.desc = append(w.desc, fmt.Sprintf("B%d<-B%d h=%d T=%d%s [%s]", n.idx, parent.idx, n.height, T, thd, strings.Join(sb, ",")))

			// ---- model
			allIn := true
			for _, tx := range n.txs {
				if !c11InWindow(T, th, tx.ts) {
					allIn = false
				}
			}
			dup := ""
			seen := map[string]bool{}
			holders := map[string][]*c11Node{} // nearest first
			for p := parent; p != nil; p = p.parent {
				for _, tx := range p.txs {
					holders[string(tx.id)] = append(holders[string(tx.id)], p)
				}
			}
			var dupClasses []string
			onlyKnown := true // every duplicate of the block is of the known-finding kind
			knownViaFinalized := false
			for _, tx := range n.txs {
				if seen[string(tx.id)] {
					onlyKnown = false
					dupClasses = append(dupClasses, "dup-same-block")
					if dup == "" {
						dup = tx.String() + " repeated in the block"
					}
				} else if hs, ok := holders[string(tx.id)]; ok {
					o := hs[0]
					for _, h := range hs {
						if !(tx.ts == h.T+h.th && c11TrackerReached(parent, h)) {
							onlyKnown = false
						} else if h.committed {
							knownViaFinalized = true
						}
					}
					cl := "dup-unfinalized-ancestor"
					if o.committed {
						cl = "dup-finalized-ancestor"
						if o.afterRst {
							cl = "dup-finalized-ancestor-db-after-restart"
						}
					}
					if tx.ts == o.T+o.th {
						cl += "-at-boundary"
					}
					if o != parent {
						dupClasses = append(dupClasses, "dup-beyond-parent")
					}
					dupClasses = append(dupClasses, cl)
					if dup == "" {
						dup = fmt.Sprintf("%s already in B%d(T=%d,committed=%v)", tx.String(), o.idx, o.T, o.committed)
					}
				}
				seen[string(tx.id)] = true
			}
			hasForeign := false
			for _, kd := range kinds {
				if kd == "F" {
					hasForeign = true
				}
			}

			// ---- code under test, driven as service/transition.go does
			n.tracker = parent.tracker.New(n.height, T, th)
			_, addErr := n.tracker.Add(&c11List{txs: n.txs}, false)
			var winErr error
			tsr := service.NewTimestampRange(T, th)
			for _, tx := range n.txs {
				e1 := service.CheckTxTimestamp(T-th, T+th, tx)
				e2 := tsr.CheckTx(tx)
				if (e1 == nil) != (e2 == nil) {
					return finish(fmt.Sprintf("CheckTxTimestamp and NewTimestampRange disagree on T=%d th=%d ts=%d: %v / %v", T, th, tx.ts, e1, e2))
				}
				if (e1 == nil) != c11InWindow(T, th, tx.ts) {
					return finish(fmt.Sprintf("window: block T=%d th=%d tx ts=%d: CheckTxTimestamp says %v, (T-th,T+th] says in=%v", T, th, tx.ts, e1, c11InWindow(T, th, tx.ts)))
				}
				if e1 != nil && winErr == nil {
					winErr = e1
				}
			}
			codeAccepts := addErr == nil && winErr == nil
			modelAccepts := allIn && dup == ""
			if !allIn {
				lab["block-with-out-of-window-ts"] = true
				rec.Label(pfx + "blocks-out-of-window")
			}
			if allIn && dup != "" {
				out.nontrivial = true
				for _, c := range dupClasses {
					lab[c] = true
					rec.Label(pfx + "blocks:" + c)
				}
			}
			if allIn && dup == "" && hasForeign {
				lab["id-only-in-sibling-fork"] = true
			}
			if codeAccepts && !modelAccepts && !vary && allIn && onlyKnown && rec.Known(c11KnownKey) {
				// listed known finding: the code now holds the id in this block as well; go on
				lab["known-finding-block-accepted"] = true
				rec.Label("blocks-accepted-by-known-finding")
				if knownViaFinalized {
					rec.Label("blocks-accepted-by-known-finding:ancestor-finalized-but-reached-through-tracker")
				}
				last = n
				continue
			}
			if codeAccepts && !modelAccepts {
				return finish(fmt.Sprintf("block B%d (T=%d th=%d) accepted although %s; history: %s", n.idx, T, th,
					map[bool]string{true: "a timestamp is outside (T-th,T+th]", false: dup}[dup == ""], strings.Join(w.desc, " | ")))
			}
			if allIn && dup != "" && addErr == nil {
				// cannot happen when the previous test passed, kept for clarity
				return finish("duplicate not refused by Add: " + dup)
			}
			if modelAccepts && !codeAccepts {
				// not forbidden by the statement
				rec.Label(pfx + "overreject-not-decided")
				lab["overreject-not-decided"] = true
				n.dead = true
				n.txs = nil
				continue
			}
			if !modelAccepts {
				rec.Label(pfx + "blocks-rejected")
				n.dead = true
				n.txs = nil // holds nothing on any chain
				continue
			}
			rec.Label(pfx + "blocks-accepted")
			last = n
		case k < 19: // commit
			var cand []*c11Node
			for _, n := range live {
				if !n.committed && n.parent != nil {
					cand = append(cand, n)
				}
			}
			if len(cand) == 0 {
				continue
			}
			n := cand[rapid.IntRange(0, len(cand)-1).Draw(rt, "commit")]
			if err := n.tracker.Commit(); err != nil {
				return finish(fmt.Sprintf("Commit of B%d failed: %v", n.idx, err))
			}
			for p := n; p != nil; p = p.parent {
				p.committed = true
				p.linked = false // tracker.Commit: parent committed first, then parent pointer dropped
			}
			for _, o := range w.nodes {
				if !n.isAncestorOrSelf(o) {
					o.dead = true // ancestors take no new forks, competing forks are gone
				}
			}
			w.desc = append(w.desc, fmt.Sprintf("commit B%d", n.idx))
			lab["commit"] = true
			if last.dead {
				last = n
			}
		default: // restart on the same database
			w.mgr.Term()
			mgr, err := txlocator.NewManager(w.dbase, c11Logger)
			if err != nil {
				ev.Inconclusive("C11: txlocator.NewManager: %v", err)
			}
			w.mgr = mgr
			var fin *c11Node
			for _, n := range w.nodes {
				if n.committed && n.parent != nil && (fin == nil || n.height > fin.height) {
					fin = n
				}
			}
			for _, o := range w.nodes {
				o.dead = true
				if o.committed {
					o.afterRst = true
				}
			}
			root := w.mgr.NewTracker(w.g, 0, 0, w.th)
			if fin == nil {
				r := w.newRoot()
				r.tracker = root
				last = r
			} else {
				// block.NewManager: transit(lastFinalized.NormalTransactions(), validated=true) and
				// Finalize(FinalizeNormalTransaction) -> Add(list, force=true) ; Commit
				tr := root.New(fin.height, fin.T, fin.th)
				if _, err := tr.Add(&c11List{txs: fin.txs}, true); err != nil {
					return finish(fmt.Sprintf("restart: forced Add of finalized B%d failed: %v", fin.idx, err))
				}
				if err := tr.Commit(); err != nil {
					return finish(fmt.Sprintf("restart: Commit of finalized B%d failed: %v", fin.idx, err))
				}
				fin.tracker = tr
				fin.dead = false
				fin.linked = false
				last = fin
			}
			w.desc = append(w.desc, "restart")
			lab["restart"] = true
		}
	}
	return finish("")
}

func c11Window(rt *rapid.T, rec *ev.Rec) {
	th := rapid.OneOf(
		rapid.SampledFrom([]int64{0, 1, 2, 10, service.ConfigPatchTimestampThreshold, service.ConfigTXTimestampThresholdDefault}),
		rapid.Int64Range(0, 1<<40),
	).Draw(rt, "th")
	T := rapid.OneOf(
		rapid.Int64Range(0, 2000),
		rapid.Int64Range(1_500_000_000_000_000, 1_900_000_000_000_000),
		rapid.Int64Range(0, 1<<60),
	).Draw(rt, "T")
	off := rapid.OneOf(
		rapid.SampledFrom([]int64{-2, -1, 0, 1, 2}),
		rapid.Int64Range(-1000, 1000),
	).Draw(rt, "off")
	var ts int64
	var where string
	switch rapid.IntRange(0, 3).Draw(rt, "edge") {
	case 0:
		ts, where = T-th+off, "low-edge"
	case 1:
		ts, where = T+th+off, "high-edge"
	case 2:
		ts, where = T+off, "block-time"
	default:
		ts, where = rapid.Int64Range(T-2*th-2, T+2*th+2).Draw(rt, "ts"), "any"
	}
	tx := c11NewTx(1, ts, module.TransactionGroupNormal)
	want := c11InWindow(T, th, ts)
	e1 := service.CheckTxTimestamp(T-th, T+th, tx)
	e2 := service.NewTimestampRange(T, th).CheckTx(tx)
	cls := "in-window"
	if !want {
		cls = "out-of-window"
	}
	exact := ts == T-th || ts == T-th+1 || ts == T+th || ts == T+th+1
	rec.Case(fmt.Sprintf("window T=%d th=%d ts=%d", T, th, ts), exact, "window", "window:"+where, "window:"+cls)
	if (e1 == nil) != want || (e2 == nil) != want {
		rt.Fatalf("C11 violated: block time T=%d threshold=%d tx timestamp=%d: CheckTxTimestamp=%v NewTimestampRange.CheckTx=%v but ts in (T-th, T+th] is %v",
			T, th, ts, e1, e2, want)
	}
}

var c11ExpOnce sync.Once

// c11DirectedTracker: th=1, B1 (T=2) holds x@3 = T+th, its child B2 (T=3, window (2,4]) holds x@3.
func c11DirectedTracker() (violation, desc string) {
	desc = "directed tracker: group=normal th=1 | B1<-B0 h=1 T=2 [x1@3] | B2<-B1 h=2 T=3 [x1@3]"
	mgr, err := txlocator.NewManager(db.NewMapDB(), c11Logger)
	if err != nil {
		ev.Inconclusive("C11: txlocator.NewManager: %v", err)
	}
	defer mgr.Term()
	x := c11NewTx(1, 3, module.TransactionGroupNormal)
	root := mgr.NewTracker(module.TransactionGroupNormal, 0, 0, 1)
	b1 := root.New(1, 2, 1)
	if _, err := b1.Add(&c11List{txs: []*c11Tx{x}}, false); err != nil || service.CheckTxTimestamp(2-1, 2+1, x) != nil {
		return "", desc // B1 itself refused: nothing to decide here (the generated checks decide windows)
	}
	b2 := b1.New(2, 3, 1)
	_, addErr := b2.Add(&c11List{txs: []*c11Tx{x}}, false)
	if addErr == nil && service.CheckTxTimestamp(3-1, 3+1, x) == nil {
		return "block B2 (T=3 th=1) accepted although x1@3 already in its unfinalized parent B1 (T=2): " + desc, desc
	}
	return "", desc
}

// c11DirectedTransition: default threshold, B1 (T) holds a tx with ts = T+th, its child B2 (T+1) holds it again.
func c11DirectedTransition() (violation, desc string, ok bool) {
	e := c11NewEnv()
	defer e.close()
	T := int64(1_700_000_000_000_000)
	th := service.ConfigTXTimestampThresholdDefault
	tx := c11NewPTx(T+th, "c11-directed", 0)
	desc = fmt.Sprintf("directed transitions: th=%d | B1<-B0 h=1 T=%d [%s] | B2<-B1 h=2 T=%d [%s]", th, T, c11TxName(tx), T+1, c11TxName(tx))
	init := e.initTransition(nil)
	b1 := service.NewTransition(init, nil, transaction.NewTransactionListFromSlice(e.dbase, []module.Transaction{tx}), common.NewBlockInfo(1, T), nil, false)
	ve, xe, to := c11Exec(b1)
	if to {
		return "", desc, false
	}
	if ve != nil || xe != nil {
		return "", desc, true
	}
	b2 := service.NewTransition(b1, nil, transaction.NewTransactionListFromSlice(e.dbase, []module.Transaction{tx}), common.NewBlockInfo(2, T+1), nil, false)
	ve, _, to = c11Exec(b2)
	if to {
		return "", desc, false
	}
	if ve == nil {
		return "transition for B2 passed validation although its only transaction is already in the unfinalized parent B1: " + desc, desc, true
	}
	return "", desc, true
}

func TestC11(t *testing.T) {
	rec := ev.New("C11", "block trees over the real locator manager (fixed threshold per case from {1,2,10,default}, block times strictly increasing, "+
		"<=6 tx per block with timestamps on the window edges, duplicates of ids from the same block / ancestors / sibling forks, random commits and restarts) "+
		"plus window probes and chained real transitions; non-trivial = the history contains a block whose timestamps are all in (T-th,T+th] and that repeats an id "+
		"of its own or of an ancestor on its chain (window probes: ts exactly on T-th, T-th+1, T+th, T+th+1); distinct by the rendered history")
	defer rec.Flush(t)
	// Directed, no draws, runs first: the minimal inputs of the known finding c11KnownKey, so that
	// the KNOWN-FINDING line appears on every run while goloop has the defect (and a violation is
	// reported when the finding is not listed). Silent once tracker.Has looks the id up.
	t.Run("knownfinding", func(t *testing.T) {
		v, desc := c11DirectedTracker()
		rec.Case(desc, true, "directed", "directed-tracker")
		if v != "" {
			if !rec.Known(c11KnownKey) {
				t.Fatalf("C11 violated: %s", v)
			}
			rec.Label("directed-known-finding-reproduced")
		}
		if v, desc, ok := c11DirectedTransition(); ok {
			rec.Case(desc, true, "directed", "directed-transition")
			if v != "" {
				if !rec.Known(c11KnownKey) {
					t.Fatalf("C11 violated: %s", v)
				}
				rec.Label("directed-known-finding-reproduced")
			}
		} else {
			rec.Label("tr-timeout-skipped")
		}
	})
	t.Run("tracker", func(t *testing.T) {
		maxOps := ev.Pick(16, 32)
		ev.Check(t, 8000, 60000, func(rt *rapid.T) {
			v, desc, out := c11RunTree(rt, rec, maxOps, false)
			rec.Case(desc, out.nontrivial, append(out.labels, "tracker")...)
			if v != "" {
				rt.Fatalf("C11 violated: %s", v)
			}
		})
	})
	// Experiment, never decides: thresholds that differ from block to block. The statement's
	// "any threshold settings" is read as any fixed setting (DESIGN C11); what the code does when
	// the threshold changes between blocks is only counted.
	t.Run("varyingThresholds", func(t *testing.T) {
		ev.Check(t, 300, 3000, func(rt *rapid.T) {
			v, desc, out := c11RunTree(rt, rec, 16, true)
			rec.Case("varying-th "+desc, false, append(out.labels, "exp-varying-th")...)
			if v != "" {
				rec.Label("exp-varying-th:model-mismatch-not-decided")
				c11ExpOnce.Do(func() { t.Logf("experiment, not decided (first example only): %s", v) })
			}
		})
	})
	t.Run("transition", func(t *testing.T) {
		maxOps := ev.Pick(10, 16)
		ev.Check(t, 1000, 8000, func(rt *rapid.T) {
			v, desc, nt, labels := c11RunTransitions(rt, rec, maxOps)
			rec.Case(desc, nt, append(labels, "transition")...)
			if v != "" {
				rt.Fatalf("C11 violated: %s", v)
			}
		})
	})
	t.Run("window", func(t *testing.T) {
		ev.Check(t, 1500, 20000, func(rt *rapid.T) { c11Window(rt, rec) })
	})
}

// ---------------------------------------------------------------------------------------------

// Transition level of C11: the same histories (chains with forks, duplicates in the same block /
// an unfinalized ancestor / a finalized ancestor / after a restart) are driven through the real
// service.NewInitTransition / NewTransition / Execute / FinalizeTransition on a MapDB. The
// transactions are harness-defined (c11PTx, modelled on the repository's test.Transaction:
// signature-less, free), so the
// only reasons for a validation failure are the ones C11 is about: the recorded ids
// (ensureRecordTXIDs -> TXIDLogger.Add) and the timestamp window (validateTxs -> CheckTx).

func init() {
	// the repository's test transactions and db writers log through the global logger
	log.GlobalLogger().SetLevel(log.FatalLevel)
}

type c11quietT struct{}

func (c11quietT) Errorf(format string, args ...interface{}) {}
func (c11quietT) Logf(format string, args ...interface{})   {}

// c11PTx is a harness-defined transaction ("type":"c11"): free, signature-less, carries a
// timestamp and a salt; when thMS > 0 its execution stores the chain's timestamp threshold
// (milliseconds, the unit the chain score uses). Lists rebuild transactions from their bytes,
// hence the registered factory.
type c11PJSON struct {
	Type      string          `json:"type"`
	TimeStamp common.HexInt64 `json:"timestamp"`
	Salt      string          `json:"salt"`
	ThMS      int64           `json:"thMS,omitempty"`
}

type c11PTx struct {
	j  c11PJSON
	id []byte
}

func c11NewPTx(ts int64, salt string, thMS int64) transaction.Transaction {
	c11RegisterFactory()
	t := &c11PTx{j: c11PJSON{Type: "c11", TimeStamp: common.HexInt64{Value: ts}, Salt: salt, ThMS: thMS}}
	t.id = crypto.SHA3Sum256(t.Bytes())
	return transaction.Wrap(t)
}

var c11FactoryOnce sync.Once

func c11RegisterFactory() {
	c11FactoryOnce.Do(func() {
		transaction.RegisterFactory(&transaction.Factory{
			Priority: 4,
			CheckJSON: func(jso map[string]interface{}) bool {
				v, ok := jso["type"]
				return ok && v == "c11"
			},
			ParseJSON: func(js []byte, jsm map[string]interface{}, raw bool) (transaction.Transaction, error) {
				t := &c11PTx{}
				if err := json.Unmarshal(js, &t.j); err != nil {
					return nil, err
				}
				t.id = crypto.SHA3Sum256(t.Bytes())
				return t, nil
			},
		})
	})
}

func (t *c11PTx) Group() module.TransactionGroup { return module.TransactionGroupNormal }
func (t *c11PTx) ID() []byte                     { return t.id }
func (t *c11PTx) Hash() []byte                   { return t.id }
func (t *c11PTx) From() module.Address           { return state.SystemAddress }
func (t *c11PTx) To() module.Address             { return state.SystemAddress }
func (t *c11PTx) Bytes() []byte                  { b, _ := json.Marshal(&t.j); return b }
func (t *c11PTx) Verify() error                  { return nil }
func (t *c11PTx) Version() int                   { return module.TransactionVersion3 }
func (t *c11PTx) ValidateNetwork(nid int) bool   { return true }
func (t *c11PTx) Timestamp() int64               { return t.j.TimeStamp.Value }
func (t *c11PTx) Nonce() *big.Int                { return nil }
func (t *c11PTx) IsSkippable() bool              { return false }
func (t *c11PTx) Dispose()                       {}
func (t *c11PTx) ToJSON(version module.JSONVersion) (interface{}, error) {
	return map[string]interface{}{"type": "c11", "timestamp": &t.j.TimeStamp, "salt": t.j.Salt}, nil
}
func (t *c11PTx) PreValidate(wc state.WorldContext, update bool) error { return nil }
func (t *c11PTx) GetHandler(cm contract.ContractManager) (transaction.Handler, error) {
	return t, nil
}
func (t *c11PTx) Prepare(ctx contract.Context) (state.WorldContext, error) {
	return ctx.GetFuture([]state.LockRequest{{Lock: state.AccountWriteLock, ID: state.WorldIDStr}}), nil
}
func (t *c11PTx) Execute(ctx contract.Context, wcs state.WorldSnapshot, estimate bool) (txresult.Receipt, error) {
	if t.j.ThMS > 0 {
		as := ctx.GetAccountState(state.SystemID)
		if err := scoredb.NewVarDB(as, state.VarTimestampThreshold).Set(t.j.ThMS); err != nil {
			return nil, err
		}
	}
	r := txresult.NewReceipt(ctx.Database(), ctx.Revision(), t.To())
	r.SetResult(module.StatusSuccess, big.NewInt(0), big.NewInt(0), nil)
	return r, nil
}

type c11Env struct {
	dir    string
	dbase  db.Database
	chain  *test.Chain
	plt    base.Platform
	cm     contract.ContractManager
	tsc    *service.TxTimestampChecker
	logger log.Logger
}

func c11NewEnv() *c11Env {
	dir, err := os.MkdirTemp("", "c11tr")
	if err != nil {
		ev.Inconclusive("C11: temp dir: %v", err)
	}
	e := &c11Env{dir: dir, dbase: db.NewMapDB(), plt: basic.Platform, tsc: service.NewTimestampChecker(), logger: c11Logger}
	e.chain, err = test.NewChain(c11quietT{}, gen.WalletFromIndex(1), e.dbase, e.logger, consensus.NewCommitVoteSetFromBytes, `{"accounts":[],"message":"c11"}`)
	if err != nil {
		ev.Inconclusive("C11: test.NewChain: %v", err)
	}
	e.cm, err = e.plt.NewContractManager(e.dbase, dir+"/contract", e.logger)
	if err != nil {
		ev.Inconclusive("C11: contract manager: %v", err)
	}
	return e
}

var c11LocatorTimeouts int32

// waitLocators waits (bounded) until the locator of every finalized transaction is in the database.
func (e *c11Env) waitLocators(nodes []*c11TNode) bool {
	bk, err := e.dbase.GetBucket(db.TransactionLocatorByHash)
	if err != nil {
		return false
	}
	if atomic.LoadInt32(&c11LocatorTimeouts) >= 3 {
		return false // locators evidently never arrive on this tree; do not wait again
	}
	deadline := time.Now().Add(5 * time.Second)
	for _, n := range nodes {
		if !n.committed {
			continue
		}
		for _, tx := range n.txs {
			for {
				if bs, err := bk.Get(tx.ID()); err == nil && len(bs) > 0 {
					break
				}
				if time.Now().After(deadline) {
					atomic.AddInt32(&c11LocatorTimeouts, 1)
					return false
				}
				time.Sleep(time.Millisecond)
			}
		}
	}
	return true
}

func (e *c11Env) close() {
	e.chain.Close()
	_ = os.RemoveAll(e.dir)
}

func (e *c11Env) initTransition(result []byte) module.Transition {
	tr, err := service.NewInitTransition(e.dbase, result, nil, e.cm, nil, e.chain, e.logger, e.plt, e.tsc)
	if err != nil {
		ev.Inconclusive("C11: NewInitTransition: %v", err)
	}
	return tr
}

type c11cb struct {
	val chan error
	exe chan error
}

func (c *c11cb) OnValidate(tr module.Transition, err error) { c.val <- err }
func (c *c11cb) OnExecute(tr module.Transition, err error)  { c.exe <- err }

const c11Wait = 60 * time.Second

// c11Exec runs a transition; returns (validation error, execution error, timedOut).
func c11Exec(tr module.Transition) (error, error, bool) {
	cb := &c11cb{val: make(chan error, 1), exe: make(chan error, 1)}
	if _, err := tr.Execute(cb); err != nil {
		return err, nil, false
	}
	select {
	case err := <-cb.val:
		if err != nil {
			return err, nil, false
		}
	case <-time.After(c11Wait):
		return nil, nil, true
	}
	select {
	case err := <-cb.exe:
		return nil, err, false
	case <-time.After(c11Wait):
		return nil, nil, true
	}
}

type c11TNode struct {
	idx       int
	parent    *c11TNode
	height    int64
	T         int64
	txs       []module.Transaction
	tr        module.Transition
	committed bool
	dead      bool
	afterRst  bool
	linked    bool // see c11Node.linked
}

func c11TReached(parent, h *c11TNode) bool {
	for cur := parent; cur != nil; cur = cur.parent {
		if cur == h {
			return true
		}
		if !cur.linked {
			return false
		}
	}
	return false
}

func (n *c11TNode) isAncestorOrSelf(o *c11TNode) bool {
	for p := o; p != nil; p = p.parent {
		if p == n {
			return true
		}
	}
	return false
}

func c11TxName(tx module.Transaction) string {
	t := tx.(interface{ Timestamp() int64 })
	return fmt.Sprintf("%x@%d", tx.ID()[:3], t.Timestamp())
}

func c11Ts(tx module.Transaction) int64 { return tx.(interface{ Timestamp() int64 }).Timestamp() }

// c11RunTransitions executes one generated history through real transitions.
func c11RunTransitions(rt *rapid.T, rec *ev.Rec, maxOps int) (violation string, desc string, nontrivial bool, labels []string) {
	lab := map[string]bool{}
	var d []string
	finish := func(v string) (string, string, bool, []string) {
		for l := range lab {
			labels = append(labels, l)
		}
		return v, strings.Join(d, " | "), nontrivial, labels
	}
	e := c11NewEnv()
	defer e.close()

	// threshold: chain default (5 min) or set by the first block (milliseconds granularity)
	thMS := rapid.SampledFrom([]int64{0, 0, 1, 1, 2, 10}).Draw(rt, "thMS")
	th := service.ConfigTXTimestampThresholdDefault
	if thMS != 0 {
		th = thMS * 1000
	}
	t0 := int64(1_700_000_000_000_000) + rapid.Int64Range(0, 1000).Draw(rt, "t0")
	salt := 0
	newTx := func(ts int64) module.Transaction {
		salt++
		return c11NewPTx(ts, fmt.Sprintf("c11-%d", salt), 0)
	}
	root := &c11TNode{tr: e.initTransition(nil)}
	nodes := []*c11TNode{root}
	last := root
	d = append(d, fmt.Sprintf("transitions th=%d t0=%d", th, t0))

	if thMS != 0 {
		// block 1 carries the threshold change; it is validated under the default threshold and
		// none of its content is ever repeated
		n := &c11TNode{idx: 1, parent: root, height: 1, T: t0, linked: true}
		n.txs = []module.Transaction{c11NewPTx(t0, "c11-th", thMS)}
		n.tr = service.NewTransition(root.tr, nil, transaction.NewTransactionListFromSlice(e.dbase, n.txs), common.NewBlockInfo(1, t0), nil, false)
		ve, xe, to := c11Exec(n.tr)
		if to {
			rec.Label("tr-timeout-skipped")
			return finish("")
		}
		if ve != nil || xe != nil {
			ev.Inconclusive("C11: threshold block failed: %v %v", ve, xe)
		}
		nodes = append(nodes, n)
		last = n
		root.dead = true // every later block lives under the new threshold
		d = append(d, fmt.Sprintf("B1<-B0 T=%d [setThreshold %dms]", t0, thMS))
	}

	nOps := rapid.IntRange(2, maxOps).Draw(rt, "nOps")
	for op := 0; op < nOps; op++ {
		var live []*c11TNode
		for _, n := range nodes {
			if !n.dead {
				live = append(live, n)
			}
		}
		k := rapid.IntRange(0, 19).Draw(rt, "op")
		switch {
		case k < 13:
			parent := last
			if parent.dead || rapid.IntRange(0, 9).Draw(rt, "pickParent") < 3 {
				parent = live[rapid.IntRange(0, len(live)-1).Draw(rt, "parent")]
			}
			T := t0
			if parent.T != 0 {
				T = parent.T + c11Delta(rt, th)
			}
			n := &c11TNode{idx: len(nodes), parent: parent, height: parent.height + 1, T: T}
			n.linked = !(parent.committed && !parent.linked)
			holders := map[string][]*c11TNode{} // nearest first
			var path, pathIn, foreign []module.Transaction
			owner := map[string]*c11TNode{}
			for p := parent; p != nil; p = p.parent {
				for _, tx := range p.txs {
					if transaction.Unwrap(tx).(*c11PTx).j.ThMS != 0 {
						continue
					}
					path = append(path, tx)
					owner[string(tx.ID())] = p
					holders[string(tx.ID())] = append(holders[string(tx.ID())], p)
					if c11InWindow(T, th, c11Ts(tx)) {
						pathIn = append(pathIn, tx)
					}
				}
			}
			for _, o := range nodes {
				if o.isAncestorOrSelf(parent) {
					continue
				}
				for _, tx := range o.txs {
					if _, on := owner[string(tx.ID())]; !on && c11InWindow(T, th, c11Ts(tx)) {
						foreign = append(foreign, tx)
					}
				}
			}
			plan := rapid.SampledFrom([]string{"clean", "clean", "clean", "clean", "clean",
				"dupAnc", "dupAnc", "dupAnc", "dupAnc", "dupAnc", "dupAnc", "dupSame", "foreign", "foreign", "oow", "dupAncOow"}).Draw(rt, "plan")
			cnt := rapid.IntRange(0, 4).Draw(rt, "ntx")
			if plan != "clean" && cnt == 0 {
				cnt = 1
			}
			special := -1
			if cnt > 0 {
				special = rapid.IntRange(0, cnt-1).Draw(rt, "special")
			}
			fresh := func(allowOut bool) {
				ts, kd := c11FreshTs(rt, T, th)
				if !allowOut && (kd == "expired" || kd == "future") {
					ts = T + th
				}
				n.txs = append(n.txs, newTx(ts))
			}
			for i := 0; i < cnt; i++ {
				kind := "n"
				if i == special {
					kind = plan
				}
				switch {
				case kind == "dupAnc" && len(pathIn) > 0:
					n.txs = append(n.txs, pathIn[rapid.IntRange(0, len(pathIn)-1).Draw(rt, "dupIn")])
				case kind == "dupAncOow" && len(path) > 0:
					n.txs = append(n.txs, path[rapid.IntRange(0, len(path)-1).Draw(rt, "dupAny")])
				case kind == "dupSame" && len(n.txs) > 0:
					n.txs = append(n.txs, n.txs[rapid.IntRange(0, len(n.txs)-1).Draw(rt, "dupSame")])
				case kind == "dupSame" && i+1 < cnt:
					fresh(false)
					special = i + 1
				case kind == "foreign" && len(foreign) > 0:
					n.txs = append(n.txs, foreign[rapid.IntRange(0, len(foreign)-1).Draw(rt, "dupForeign")])
				case kind == "oow":
					fresh(true)
				default:
					fresh(false)
				}
			}
			nodes = append(nodes, n)
			var sb []string
			for _, tx := range n.txs {
				sb = append(sb, c11TxName(tx))
			}
			d = append(d, fmt.Sprintf("B%d<-B%d h=%d T=%d [%s]", n.idx, parent.idx, n.height, T, strings.Join(sb, ",")))

			// model
			allIn := true
			dup := ""
			var classes []string
			seen := map[string]bool{}
			onlyKnown, knownViaFinalized := true, false
			for _, tx := range n.txs {
				if !c11InWindow(T, th, c11Ts(tx)) {
					allIn = false
				}
				id := string(tx.ID())
				if seen[id] {
					onlyKnown = false
					classes = append(classes, "dup-same-block")
					if dup == "" {
						dup = c11TxName(tx) + " repeated in the block"
					}
				} else if hs, ok := holders[id]; ok {
					o := hs[0]
					for _, h := range hs {
						if !(c11Ts(tx) == h.T+th && c11TReached(parent, h)) {
							onlyKnown = false
						} else if h.committed {
							knownViaFinalized = true
						}
					}
					cl := "dup-unfinalized-ancestor"
					if o.committed {
						cl = "dup-finalized-ancestor"
						if o.afterRst {
							cl = "dup-finalized-ancestor-db-after-restart"
						}
					}
					if c11Ts(tx) == o.T+th {
						cl += "-at-boundary"
					}
					classes = append(classes, cl)
					if dup == "" {
						dup = fmt.Sprintf("%s already in B%d(T=%d,finalized=%v)", c11TxName(tx), o.idx, o.T, o.committed)
					}
				}
				seen[id] = true
			}
			modelAccepts := allIn && dup == ""

			// code
			ev.Journal(strings.Join(d, " | "))
			n.tr = service.NewTransition(parent.tr, nil, transaction.NewTransactionListFromSlice(e.dbase, n.txs), common.NewBlockInfo(n.height, T), nil, false)
			ve, xe, to := c11Exec(n.tr)
			if to {
				rec.Label("tr-timeout-skipped")
				return finish("")
			}
			if allIn && dup != "" {
				nontrivial = true
				for _, c := range classes {
					lab["tr:"+c] = true
					rec.Label("tr-blocks:" + c)
				}
			}
			if !allIn {
				lab["tr:block-with-out-of-window-ts"] = true
			}
			knownAccepted := false
			if ve == nil && !modelAccepts && allIn && onlyKnown && rec.Known(c11KnownKey) {
				// listed known finding: the chain now holds the id in this block as well
				knownAccepted = true
				lab["tr:known-finding-block-accepted"] = true
				rec.Label("tr-blocks-accepted-by-known-finding")
				if knownViaFinalized {
					rec.Label("tr-blocks-accepted-by-known-finding:ancestor-finalized-but-reached-through-tracker")
				}
			}
			if ve == nil && !modelAccepts && !knownAccepted {
				why := dup
				if why == "" {
					why = "a timestamp is outside (T-th,T+th]"
				}
				return finish(fmt.Sprintf("transition for B%d (T=%d th=%d) passed validation although %s; history: %s", n.idx, T, th, why, strings.Join(d, " | ")))
			}
			if ve != nil && modelAccepts {
				rec.Label("tr-overreject-not-decided")
				n.dead, n.txs = true, nil
				continue
			}
			if ve != nil {
				rec.Label("tr-blocks-rejected")
				n.dead, n.txs = true, nil
				continue
			}
			if xe != nil {
				// not a C11 matter; cannot continue on this branch
				rec.Label("tr-execution-error-skipped")
				n.dead, n.txs = true, nil
				continue
			}
			rec.Label("tr-blocks-accepted")
			last = n
		case k < 18: // finalize a block and everything before it
			var cand []*c11TNode
			for _, n := range live {
				if !n.committed && n.parent != nil {
					cand = append(cand, n)
				}
			}
			if len(cand) == 0 {
				continue
			}
			n := cand[rapid.IntRange(0, len(cand)-1).Draw(rt, "commit")]
			var chain []*c11TNode
			for p := n; p != nil && p.parent != nil && !p.committed; p = p.parent {
				chain = append([]*c11TNode{p}, chain...)
			}
			for _, p := range chain {
				if err := service.FinalizeTransition(p.tr, module.FinalizeNormalTransaction|module.FinalizePatchTransaction|module.FinalizeResult, false); err != nil {
					return finish(fmt.Sprintf("FinalizeTransition of B%d failed: %v", p.idx, err))
				}
				p.committed = true
			}
			for p := n; p != nil; p = p.parent {
				p.committed = true // the recursion of tracker.Commit reaches the init tracker too
				p.linked = false
			}
			for _, o := range nodes {
				if !n.isAncestorOrSelf(o) {
					o.dead = true
				}
			}
			if last.dead {
				last = n
			}
			d = append(d, fmt.Sprintf("finalize B%d", n.idx))
			lab["tr:finalize"] = true
		default: // restart: new locator manager / init transition on the same database
			var fin *c11TNode
			for _, n := range nodes {
				if n.committed && n.parent != nil && (fin == nil || n.height > fin.height) {
					fin = n
				}
			}
			if fin == nil {
				continue // nothing durable yet; a restart would be a fresh chain
			}
			for _, o := range nodes {
				o.dead = true
				if o.committed {
					o.afterRst = true
				}
			}
			// a clean shutdown has written every finalized locator (the flush worker is asynchronous)
			if !e.waitLocators(nodes) {
				rec.Label("tr-timeout-skipped")
				return finish("")
			}
			// block.NewManager: init transition on the result before the last finalized block,
			// re-execute that block as already validated and finalize its normal transactions
			var res []byte
			if fin.parent != nil && fin.parent.tr != nil && fin.parent.parent != nil {
				res = fin.parent.tr.Result()
			}
			init := e.initTransition(res)
			tr := service.NewTransition(init, nil, transaction.NewTransactionListFromSlice(e.dbase, fin.txs), common.NewBlockInfo(fin.height, fin.T), nil, true)
			ve, xe, to := c11Exec(tr)
			if to {
				rec.Label("tr-timeout-skipped")
				return finish("")
			}
			if ve != nil || xe != nil {
				return finish(fmt.Sprintf("restart: re-execution of finalized B%d failed: %v %v; history: %s", fin.idx, ve, xe, strings.Join(d, " | ")))
			}
			if err := service.FinalizeTransition(tr, module.FinalizeNormalTransaction, false); err != nil {
				return finish(fmt.Sprintf("restart: finalize of B%d failed: %v", fin.idx, err))
			}
			fin.tr = tr
			fin.dead = false
			fin.linked = false
			last = fin
			d = append(d, "restart")
			lab["tr:restart"] = true
		}
	}
	return finish("")
}
