#!/bin/bash
# Scratch copies of /repo for sensitivity (mutation) runs, so that mutations never touch /repo.
#   wt.sh new <name>              create /tmp/wt-<name> (worktree of /repo HEAD + /repo's uncommitted diff)
#   wt.sh test <name> <args...>   go test <args> against that copy     e.g. wt.sh test m1 ./hdata/ -run '^TestC17$' -count=1 -timeout 300s
#   wt.sh rm <name>               remove it
set -e
export GOFLAGS=-mod=mod GOPROXY=off GOSUMDB=off GOTOOLCHAIN=local
cmd=$1; name=$2; shift 2 || true
wt=/tmp/wt-$name
case "$cmd" in
new)
  git -C /repo worktree add --detach -q "$wt" HEAD
  git -C /repo diff | (cd "$wt" && git apply --allow-empty -) || true
  for f in $(git -C /repo ls-files --others --exclude-standard); do mkdir -p "$wt/$(dirname $f)"; cp "/repo/$f" "$wt/$f"; done
  (cd "$wt" && git add -A && git -c user.email=v@v -c user.name=v commit -q -m wip --allow-empty) || true
  sed "s#=> /repo#=> $wt#" /verif/harness/go.mod > $wt.mod
  cat /repo/go.sum /verif/harness/go.sum.extra > $wt.sum
  echo "created $wt (edit files there), run: wt.sh test $name ./<pkg>/ -run '^TestCNN\$' -count=1 -timeout 300s"
  ;;
test)
  cat "$wt/go.sum" /verif/harness/go.sum.extra > $wt.sum
  cd /verif/harness && go test -modfile=$wt.mod -tags verif -vet=off "$@"
  ;;
rm)
  git -C /repo worktree remove --force "$wt" || rm -rf "$wt"
  rm -f $wt.mod $wt.sum
  ;;
*) echo "usage: wt.sh new|test|rm <name> [args]"; exit 2;;
esac
