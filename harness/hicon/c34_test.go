package hicon

import (
	"crypto/sha256"
	"flag"
	"fmt"
	"io"
	"math/big"
	"sort"
	"strconv"
	"strings"
	"testing"

	"github.com/icon-project/goloop/common"
	"github.com/icon-project/goloop/common/log"
	"github.com/icon-project/goloop/icon/icmodule"
	"github.com/icon-project/goloop/icon/icsim"
	"github.com/icon-project/goloop/icon/iiss/icstate"
	"github.com/icon-project/goloop/icon/iiss/icutils"
	"github.com/icon-project/goloop/module"
	"github.com/icon-project/goloop/service/state"
	"pgregory.net/rapid"

	"verifharness/internal/ev"
)

// C34: at the current protocol revision, across any sequence of stake, unstake, delegation, bond,
// transfer, P-Rep registration and reward-claim operations over any number of blocks and terms
//   (I1) total supply == sum of all balances + all staked + all unstaking ICX
//   (I2) every account: delegated + bonded + unbonding <= stake
//   (I3) network total stake == sum of stakes; network total delegation / bond == sum over accounts of
//        their delegations / bonds to ACTIVE P-Reps
//   (I4) unstaked ICX returns to its owner exactly once, when its lock period ends.
//
// The repository's own simulator (icon/icsim, real iiss extension state, real reward calculator) is
// driven at the latest revision by a rapid state machine. A harness-side ledger follows every
// transaction by its receipt status only (success => the effect the operation is defined to have,
// failure => no effect at all); nothing of the unstake-slot / unbond / timer logic is replicated.
// After EVERY block the ledger and the invariants are compared with the simulator's state:
//   * balances of all accounts incl. the sinks (treasury, system address, governance): exact;
//   * stake / delegation list / bond list of every account: exactly what the successful txs set;
//   * I1 (also against the ledger's supply = initial - burnt registration fees), I2, I3;
//   * I4: after block h no unstake entry with expire <= h exists; an account that sent no setStake in
//     block h keeps every entry with expire > h untouched and receives exactly the entries with
//     expire == h; an account that did send setStake receives between 0 and the sum of its entries
//     due at h; nobody receives anything else (a second return shows as a balance surplus);
//   * claim: only a successful claimer's balance may grow beyond the ledger, by exactly what the
//     treasury lost.
// Invalid operations (over-spend, stake below used stake, votes above stake, bond without being a
// bonder, duplicate registration) are injected; if one "succeeds" an invariant breaks, if it fails
// with a side effect the ledger comparison breaks. Valid-by-construction operations that fail are
// NOT a violation of the statement (labelled validOpFailed so that a starving machine is visible).

type c34Un struct {
	val *big.Int
	exp int64
}

type c34Acct struct {
	addr  module.Address
	actor bool
	bal   *big.Int
	stake *big.Int
	unstk *big.Int
	deleg map[int]*big.Int // expected delegation list (target index -> amount)
	bond  map[int]*big.Int
	// observed after the last block
	unstakes []c34Un
	unbond   *big.Int
	unbonds  map[int]*big.Int // per target
	// P-Rep side
	registered bool
	bonders    map[int]bool
}

func (a *c34Acct) clone() *c34Acct {
	n := *a
	n.bal, n.stake, n.unstk = new(big.Int).Set(a.bal), new(big.Int).Set(a.stake), new(big.Int).Set(a.unstk)
	n.unbond = new(big.Int).Set(a.unbond)
	n.deleg, n.bond, n.unbonds, n.bonders = map[int]*big.Int{}, map[int]*big.Int{}, map[int]*big.Int{}, map[int]bool{}
	for k, v := range a.deleg {
		n.deleg[k] = v
	}
	for k, v := range a.bond {
		n.bond[k] = v
	}
	for k, v := range a.unbonds {
		n.unbonds[k] = v
	}
	for k, v := range a.bonders {
		n.bonders[k] = v
	}
	return &n
}

func c34Sum(m map[int]*big.Int) *big.Int {
	s := new(big.Int)
	for _, v := range m {
		s.Add(s, v)
	}
	return s
}

type c34V struct {
	to  int
	amt *big.Int
}

type c34Tx struct {
	kind  string // transfer stake deleg bond register bonderlist claim rev
	from  int
	to    int
	amt   *big.Int
	votes []c34V
	list  []int
	rev   int
	valid bool // expected to succeed by construction
}

func c34Loop(x *big.Int) string {
	// compact, canonical
	return c35Big(x)
}

func (t c34Tx) String() string {
	v := "!"
	if t.valid {
		v = ""
	}
	switch t.kind {
	case "transfer":
		return fmt.Sprintf("%stransfer(%d>%d,%s)", v, t.from, t.to, c34Loop(t.amt))
	case "stake":
		return fmt.Sprintf("%sstake(%d,%s)", v, t.from, c34Loop(t.amt))
	case "deleg", "bond":
		var sb strings.Builder
		for _, x := range t.votes {
			fmt.Fprintf(&sb, " %d:%s", x.to, c34Loop(x.amt))
		}
		return fmt.Sprintf("%s%s(%d,[%s ])", v, t.kind, t.from, sb.String())
	case "register":
		return fmt.Sprintf("%sregister(%d)", v, t.from)
	case "bonderlist":
		return fmt.Sprintf("%sbonderlist(%d,%v)", v, t.from, t.list)
	case "claim":
		return fmt.Sprintf("claim(%d)", t.from)
	case "rev":
		return fmt.Sprintf("rev(%d)", t.rev)
	}
	return t.kind
}

type c34World struct {
	sim      icsim.Simulator
	ac       []*c34Acct
	nAct     int
	treasury int
	system   int
	gov      int
	supply   *big.Int
	cfgDesc  string
	trace    []string
	st       map[string]int
	unbMax   int
	slotMax  int
}

var c34ICX = new(big.Int).Exp(big.NewInt(10), big.NewInt(18), nil)

func c34Info(i int) *icstate.PRepInfo {
	city := fmt.Sprintf("City%d", i)
	country := "KOR"
	name := fmt.Sprintf("node%d", i)
	email := fmt.Sprintf("%s@email.com", name)
	website := fmt.Sprintf("https://%s.example.com/", name)
	details := fmt.Sprintf("%sdetails/", website)
	endpoint := fmt.Sprintf("%s.example.com:9080", name)
	return &icstate.PRepInfo{City: &city, Country: &country, Name: &name, Email: &email,
		WebSite: &website, Details: &details, P2PEndpoint: &endpoint}
}

func c34Address(prefix byte, i int) module.Address {
	b := make([]byte, 21)
	b[1] = prefix
	b[20] = byte(i + 1)
	return common.MustNewAddress(b)
}

func (w *c34World) toSimTx(t c34Tx) icsim.Transaction {
	from := w.ac[t.from].addr
	switch t.kind {
	case "transfer":
		return w.sim.Transfer(from, w.ac[t.to].addr, t.amt)
	case "stake":
		return w.sim.SetStake(from, t.amt)
	case "deleg":
		ds := icstate.Delegations{}
		for _, v := range t.votes {
			ds = append(ds, icstate.NewDelegation(common.AddressToPtr(w.ac[v.to].addr), v.amt))
		}
		return w.sim.SetDelegation(from, ds)
	case "bond":
		bs := icstate.Bonds{}
		for _, v := range t.votes {
			bs = append(bs, icstate.NewBond(common.AddressToPtr(w.ac[v.to].addr), v.amt))
		}
		return w.sim.SetBond(from, bs)
	case "register":
		return w.sim.RegisterPRep(from, c34Info(t.from))
	case "bonderlist":
		bl := icstate.BonderList{}
		for _, i := range t.list {
			bl = append(bl, common.AddressToPtr(w.ac[i].addr))
		}
		return w.sim.SetBonderList(from, bl)
	case "claim":
		return w.sim.ClaimIScore(from)
	case "rev":
		return w.sim.SetRevision(from, icmodule.ValueToRevision(t.rev))
	}
	panic("unknown tx kind " + t.kind)
}

// apply the defined effect of a SUCCESSFUL transaction to a ledger view.
func c34Apply(view []*c34Acct, supply *big.Int, t c34Tx) {
	a := view[t.from]
	switch t.kind {
	case "transfer":
		if t.from != t.to {
			a.bal = new(big.Int).Sub(a.bal, t.amt)
			view[t.to].bal = new(big.Int).Add(view[t.to].bal, t.amt)
		}
	case "stake":
		inc := new(big.Int).Sub(t.amt, a.stake)
		if inc.Sign() >= 0 {
			fromUn := inc
			if a.unstk.Cmp(inc) < 0 {
				fromUn = a.unstk
			}
			rest := new(big.Int).Sub(inc, fromUn)
			a.unstk = new(big.Int).Sub(a.unstk, fromUn)
			a.bal = new(big.Int).Sub(a.bal, rest)
		} else {
			a.unstk = new(big.Int).Sub(a.unstk, inc) // inc negative
		}
		a.stake = new(big.Int).Set(t.amt)
	case "deleg":
		a.deleg = map[int]*big.Int{}
		for _, v := range t.votes {
			a.deleg[v.to] = v.amt
		}
	case "bond":
		// per-target unbonding bookkeeping is only used to construct valid operations
		nb := map[int]*big.Int{}
		for _, v := range t.votes {
			nb[v.to] = v.amt
		}
		a.bond = nb
	case "register":
		a.bal = new(big.Int).Sub(a.bal, icmodule.BigIntRegPRepFee)
		if supply != nil {
			supply.Sub(supply, icmodule.BigIntRegPRepFee)
		}
		a.registered = true
		a.bonders = map[int]bool{}
	case "bonderlist":
		a.bonders = map[int]bool{}
		for _, i := range t.list {
			a.bonders[i] = true
		}
	}
}

func (w *c34World) observeUnstakes(i int) ([]c34Un, *icstate.AccountSnapshot) {
	snap := w.sim.GetAccountSnapshot(w.ac[i].addr)
	if snap == nil {
		return nil, nil
	}
	var l []c34Un
	for _, u := range snap.UnStakes() {
		l = append(l, c34Un{new(big.Int).Set(u.GetValue()), u.GetExpire()})
	}
	return l, snap
}

func (w *c34World) idxOf(addr module.Address) int {
	for i, a := range w.ac {
		if a.addr.Equal(addr) {
			return i
		}
	}
	return -1
}

// sync overwrites the numeric ledger with the simulator's state (set-up phase only).
func (w *c34World) sync() {
	for i, a := range w.ac {
		a.bal = w.sim.GetBalance(a.addr)
		if !a.actor {
			continue
		}
		l, snap := w.observeUnstakes(i)
		a.unstakes = l
		a.stake, a.unstk, a.unbond = new(big.Int), new(big.Int), new(big.Int)
		a.deleg, a.bond, a.unbonds = map[int]*big.Int{}, map[int]*big.Int{}, map[int]*big.Int{}
		if snap == nil {
			continue
		}
		a.stake = new(big.Int).Set(snap.Stake())
		a.unstk = snap.GetUnstakeAmount()
		for _, d := range snap.Delegations() {
			a.deleg[w.idxOf(d.To())] = d.Amount()
		}
		for _, b := range snap.Bonds() {
			a.bond[w.idxOf(b.To())] = b.Amount()
		}
		for _, u := range snap.Unbonds() {
			a.unbonds[w.idxOf(u.Address())] = u.Value()
			a.unbond.Add(a.unbond, u.Value())
		}
	}
	w.supply = new(big.Int).Set(w.sim.TotalSupply())
}

// block executes one block and, when check is set, compares simulator and ledger. Returns a
// violation text or "".
func (w *c34World) block(txs []c34Tx, check bool) string {
	h := w.sim.BlockHeight() + 1
	blk := icsim.NewBlock()
	for _, t := range txs {
		blk.AddTransaction(w.toSimTx(t))
	}
	var names []string
	for _, t := range txs {
		names = append(names, t.String())
	}
	rcpts, err := w.sim.GoByBlock(nil, blk)
	if err != nil {
		return fmt.Sprintf("block %d %v could not be executed: %+v", h, names, err)
	}
	if len(rcpts) != len(txs)+1 {
		return fmt.Sprintf("block %d: %d receipts for %d txs", h, len(rcpts), len(txs))
	}
	staked := map[int]bool{}
	claimed := map[int]bool{}
	for i, t := range txs {
		ok := rcpts[i+1].Status() == icsim.Success
		tag := t.kind
		if !t.valid {
			tag += "Invalid"
		}
		if ok {
			w.st[tag+"OK"]++
			c34Apply(w.ac, w.supply, t)
			if t.kind == "stake" {
				staked[t.from] = true
			}
			if t.kind == "claim" {
				claimed[t.from] = true
			}
			if !t.valid {
				w.st["invalidOpSucceeded"]++
			}
		} else {
			w.st[tag+"Fail"]++
			if t.valid {
				w.st["validOpFailed"]++
				w.st["validOpFailed."+t.kind]++
			}
		}
		if t.kind == "rev" && !ok {
			return fmt.Sprintf("block %d: setRevision(%d) failed: %v", h, t.rev, rcpts[i+1].Error())
		}
	}
	if len(txs) > 0 {
		w.trace = append(w.trace, fmt.Sprintf("#%d%v", h, names))
	}
	if !check {
		if len(txs) > 0 {
			w.sync()
		}
		return ""
	}
	return w.compare(h, staked, claimed)
}

func (w *c34World) compare(h int64, staked, claimed map[int]bool) string {
	sumBal, sumStake, sumUnstk := new(big.Int), new(big.Int), new(big.Int)
	sumDelegActive, sumBondActive := new(big.Int), new(big.Int)
	totalClaims := new(big.Int)
	for i, a := range w.ac {
		if !a.actor {
			continue
		}
		obsBal := w.sim.GetBalance(a.addr)
		l, snap := w.observeUnstakes(i)
		obsStake, obsUnbond := new(big.Int), new(big.Int)
		obsDeleg, obsBond, obsUnbonds := map[int]*big.Int{}, map[int]*big.Int{}, map[int]*big.Int{}
		cachedUsing := new(big.Int)
		if snap != nil {
			obsStake = snap.Stake()
			for _, d := range snap.Delegations() {
				k := w.idxOf(d.To())
				if _, dup := obsDeleg[k]; dup || k < 0 {
					return fmt.Sprintf("block %d: account %d holds an unexpected delegation entry to %s", h, i, d.To())
				}
				obsDeleg[k] = d.Amount()
			}
			for _, b := range snap.Bonds() {
				k := w.idxOf(b.To())
				if _, dup := obsBond[k]; dup || k < 0 {
					return fmt.Sprintf("block %d: account %d holds an unexpected bond entry to %s", h, i, b.To())
				}
				obsBond[k] = b.Amount()
			}
			for _, u := range snap.Unbonds() {
				k := w.idxOf(u.Address())
				if obsUnbonds[k] == nil {
					obsUnbonds[k] = new(big.Int)
				}
				obsUnbonds[k] = new(big.Int).Add(obsUnbonds[k], u.Value())
				obsUnbond.Add(obsUnbond, u.Value())
				if u.Value().Sign() < 0 {
					return fmt.Sprintf("block %d: account %d has a negative unbond %s", h, i, u.Value())
				}
			}
			cachedUsing = snap.UsingStake()
		}
		// ledger: stake, delegations, bonds are exactly what the successful txs set
		if obsStake.Cmp(a.stake) != 0 {
			return fmt.Sprintf("block %d: account %d stake is %s, the successful setStake txs set %s", h, i, obsStake, a.stake)
		}
		if !c34SameVotes(obsDeleg, a.deleg) {
			return fmt.Sprintf("block %d: account %d delegations are %v, the successful txs set %v", h, i, obsDeleg, a.deleg)
		}
		if !c34SameVotes(obsBond, a.bond) {
			return fmt.Sprintf("block %d: account %d bonds are %v, the successful txs set %v", h, i, obsBond, a.bond)
		}
		// I2
		using := new(big.Int).Add(c34Sum(obsDeleg), c34Sum(obsBond))
		using.Add(using, obsUnbond)
		if using.Cmp(obsStake) > 0 {
			return fmt.Sprintf("block %d: I2 broken for account %d: delegated %s + bonded %s + unbonding %s > stake %s", h, i, c34Sum(obsDeleg), c34Sum(obsBond), obsUnbond, obsStake)
		}
		if cachedUsing.Cmp(obsStake) > 0 {
			return fmt.Sprintf("block %d: I2 broken for account %d: accounted used stake %s > stake %s", h, i, cachedUsing, obsStake)
		}
		// I4
		obsUn := new(big.Int)
		for _, u := range l {
			if u.exp <= h {
				return fmt.Sprintf("block %d: I4 broken: account %d still holds unstake {%s, expire %d} after its lock period ended", h, i, u.val, u.exp)
			}
			if u.val.Sign() <= 0 {
				return fmt.Sprintf("block %d: account %d holds a non-positive unstake entry %s", h, i, u.val)
			}
			obsUn.Add(obsUn, u.val)
		}
		due := new(big.Int)
		var keep []c34Un
		for _, u := range a.unstakes {
			if u.exp == h {
				due.Add(due, u.val)
			} else {
				keep = append(keep, u)
			}
		}
		returned := new(big.Int).Sub(a.unstk, obsUn)
		if len(l) >= w.slotMax {
			w.st["unstakeSlotsFull"]++
		}
		if staked[i] {
			pre := new(big.Int)
			for _, u := range a.unstakes {
				pre.Add(pre, u.val)
			}
			if a.unstk.Cmp(pre) < 0 {
				w.st["unstakeCancelled"]++
			}
		}
		if staked[i] {
			if returned.Sign() < 0 || returned.Cmp(due) > 0 {
				return fmt.Sprintf("block %d: I4 broken: account %d (setStake in this block) unstaking total went from ledger %s to %s, but only %s was due", h, i, a.unstk, obsUn, due)
			}
		} else {
			if returned.Cmp(due) != 0 {
				return fmt.Sprintf("block %d: I4 broken: account %d had %s due at this height but its unstaking total changed by %s (before %v, after %v)", h, i, due, returned, a.unstakes, l)
			}
			if !c34SameUnstakes(keep, l) {
				return fmt.Sprintf("block %d: I4 broken: account %d sent no setStake but its pending unstakes changed from %v to %v", h, i, a.unstakes, l)
			}
		}
		if returned.Sign() > 0 {
			w.st["unstakeReturned"]++
		}
		want := new(big.Int).Add(a.bal, returned)
		surplus := new(big.Int).Sub(obsBal, want)
		if claimed[i] {
			if surplus.Sign() < 0 {
				return fmt.Sprintf("block %d: account %d balance %s is below the ledger %s after a claim", h, i, obsBal, want)
			}
			if surplus.Sign() > 0 {
				w.st["claimPaid"]++
			}
			totalClaims.Add(totalClaims, surplus)
		} else if surplus.Sign() != 0 {
			return fmt.Sprintf("block %d: account %d balance is %s, ledger says %s (+%s returned unstake): difference %s", h, i, obsBal, a.bal, returned, surplus)
		}
		// adopt
		a.bal, a.unstk, a.unstakes, a.unbond, a.unbonds = obsBal, obsUn, l, obsUnbond, obsUnbonds
		sumBal.Add(sumBal, obsBal)
		sumStake.Add(sumStake, obsStake)
		sumUnstk.Add(sumUnstk, obsUn)
		for k, v := range obsDeleg {
			if w.ac[k].registered {
				sumDelegActive.Add(sumDelegActive, v)
			} else {
				w.st["delegToInactive"]++
			}
		}
		for k, v := range obsBond {
			if w.ac[k].registered {
				sumBondActive.Add(sumBondActive, v)
			}
		}
	}
	for i, a := range w.ac {
		if a.actor {
			continue
		}
		obsBal := w.sim.GetBalance(a.addr)
		want := a.bal
		if i == w.treasury {
			want = new(big.Int).Sub(a.bal, totalClaims)
		}
		if obsBal.Cmp(want) != 0 {
			return fmt.Sprintf("block %d: sink %s balance is %s, ledger says %s (claims paid in this block %s)", h, a.addr, obsBal, want, totalClaims)
		}
		a.bal = obsBal
		sumBal.Add(sumBal, obsBal)
	}
	// I1
	ts := w.sim.TotalSupply()
	rhs := new(big.Int).Add(sumBal, sumStake)
	rhs.Add(rhs, sumUnstk)
	if ts.Cmp(rhs) != 0 {
		return fmt.Sprintf("block %d: I1 broken: totalSupply %s != balances %s + staked %s + unstaking %s", h, ts, sumBal, sumStake, sumUnstk)
	}
	if ts.Cmp(w.supply) != 0 {
		return fmt.Sprintf("block %d: totalSupply %s, initial supply minus burnt registration fees is %s", h, ts, w.supply)
	}
	// I3
	if x := w.sim.TotalStake(); x.Cmp(sumStake) != 0 {
		return fmt.Sprintf("block %d: I3 broken: network total stake %s != sum of stakes %s", h, x, sumStake)
	}
	es := icsim.VerifExtensionState(w.sim)
	if x := es.State.GetTotalDelegation(); x.Cmp(sumDelegActive) != 0 {
		return fmt.Sprintf("block %d: I3 broken: network total delegation %s != sum of delegations to active P-Reps %s", h, x, sumDelegActive)
	}
	if x := w.sim.TotalBond(); x.Cmp(sumBondActive) != 0 {
		return fmt.Sprintf("block %d: I3 broken: network total bond %s != sum of bonds to active P-Reps %s", h, x, sumBondActive)
	}
	return ""
}

func c34SameVotes(a, b map[int]*big.Int) bool {
	if len(a) != len(b) {
		return false
	}
	for k, v := range a {
		if w, ok := b[k]; !ok || w.Cmp(v) != 0 {
			return false
		}
	}
	return true
}

func c34SameUnstakes(a, b []c34Un) bool {
	if len(a) != len(b) {
		return false
	}
	for i := range a {
		if a[i].exp != b[i].exp || a[i].val.Cmp(b[i].val) != 0 {
			return false
		}
	}
	return true
}

// ---- generation -------------------------------------------------------------------------------

// c34Part draws an amount in [lo, hi] (hi >= lo >= 0) with bias to the ends.
func c34Part(rt *rapid.T, label string, lo, hi *big.Int) *big.Int {
	span := new(big.Int).Sub(hi, lo)
	if span.Sign() <= 0 {
		return new(big.Int).Set(lo)
	}
	switch rapid.IntRange(0, 9).Draw(rt, label+".mode") {
	case 0:
		return new(big.Int).Set(hi)
	case 1:
		return new(big.Int).Set(lo)
	case 2:
		return new(big.Int).Add(lo, big.NewInt(1))
	case 3:
		return new(big.Int).Sub(hi, big.NewInt(1))
	}
	pm := rapid.IntRange(1, 999).Draw(rt, label+".permille")
	x := new(big.Int).Mul(span, big.NewInt(int64(pm)))
	x.Div(x, big.NewInt(1000))
	if rapid.Bool().Draw(rt, label+".round") {
		// whole ICX where possible
		r := new(big.Int).Div(x, c34ICX)
		r.Mul(r, c34ICX)
		if r.Sign() > 0 {
			x = r
		}
	}
	return x.Add(x, lo)
}

func (w *c34World) actors() []int {
	l := make([]int, w.nAct)
	for i := range l {
		l[i] = i
	}
	return l
}

func c34Using(a *c34Acct) *big.Int {
	u := new(big.Int).Add(c34Sum(a.deleg), c34Sum(a.bond))
	return u.Add(u, a.unbond)
}

// genTx draws one transaction against the ledger view (which already contains the assumed effects
// of the earlier transactions of the same block).
func (w *c34World) genTx(rt *rapid.T, view []*c34Acct, kind string) (c34Tx, bool) {
	from := rapid.IntRange(0, w.nAct-1).Draw(rt, "from")
	a := view[from]
	switch kind {
	case "transfer":
		to := rapid.IntRange(0, len(view)-1).Draw(rt, "to")
		if to == w.gov {
			to = w.treasury
		}
		return c34Tx{kind: "transfer", from: from, to: to, amt: c34Part(rt, "amt", new(big.Int), a.bal), valid: true}, true
	case "transferInvalid":
		to := rapid.IntRange(0, w.nAct-1).Draw(rt, "to")
		if to == from {
			to = (to + 1) % w.nAct
		}
		over := new(big.Int).Add(a.bal, c34Part(rt, "over", big.NewInt(1), c34ICX))
		return c34Tx{kind: "transfer", from: from, to: to, amt: over, valid: false}, true
	case "stakeUp":
		max := new(big.Int).Add(a.stake, a.unstk)
		max.Add(max, a.bal)
		if max.Cmp(a.stake) <= 0 {
			return c34Tx{}, false
		}
		lo := new(big.Int).Add(a.stake, big.NewInt(1))
		hi := max
		if a.unstk.Sign() > 0 && rapid.Bool().Draw(rt, "withinUnstake") {
			hi = new(big.Int).Add(a.stake, a.unstk) // consume pending unstakes only
		}
		return c34Tx{kind: "stake", from: from, amt: c34Part(rt, "stake", lo, hi), valid: true}, true
	case "stakeDown":
		using := c34Using(a)
		if a.stake.Cmp(using) <= 0 {
			return c34Tx{}, false
		}
		hi := new(big.Int).Sub(a.stake, big.NewInt(1))
		return c34Tx{kind: "stake", from: from, amt: c34Part(rt, "stake", using, hi), valid: true}, true
	case "stakeSame":
		return c34Tx{kind: "stake", from: from, amt: new(big.Int).Set(a.stake), valid: true}, true
	case "stakeCancel":
		// raise the stake by exactly the value of the last k pending unstakes (they are cancelled)
		var have []int
		for i := 0; i < w.nAct; i++ {
			if len(w.ac[i].unstakes) > 0 && view[i].unstk.Cmp(w.ac[i].unstk) == 0 && view[i].stake.Cmp(w.ac[i].stake) == 0 {
				have = append(have, i)
			}
		}
		if len(have) == 0 {
			return c34Tx{}, false
		}
		from = rapid.SampledFrom(have).Draw(rt, "cancelFrom")
		a = view[from]
		l := w.ac[from].unstakes
		k := rapid.IntRange(1, len(l)).Draw(rt, "cancelSlots")
		v := new(big.Int).Set(a.stake)
		for _, u := range l[len(l)-k:] {
			v.Add(v, u.val)
		}
		return c34Tx{kind: "stake", from: from, amt: v, valid: true}, true
	case "stakeInvalid":
		using := c34Using(a)
		if using.Sign() > 0 && rapid.Bool().Draw(rt, "belowUsing") {
			lo := new(big.Int)
			if a.unbond.Sign() > 0 && rapid.Bool().Draw(rt, "withinUnbonding") {
				// above delegated+bonded, but not above delegated+bonded+unbonding
				lo = new(big.Int).Sub(using, a.unbond)
			}
			return c34Tx{kind: "stake", from: from, amt: c34Part(rt, "stake", lo, new(big.Int).Sub(using, big.NewInt(1))), valid: false}, true
		}
		max := new(big.Int).Add(a.stake, a.unstk)
		max.Add(max, a.bal)
		return c34Tx{kind: "stake", from: from, amt: new(big.Int).Add(max, c34Part(rt, "over", big.NewInt(1), c34ICX)), valid: false}, true
	case "deleg", "delegInvalid":
		avail := new(big.Int).Sub(a.stake, c34Sum(a.bond))
		avail.Sub(avail, a.unbond)
		if avail.Sign() < 0 {
			return c34Tx{}, false
		}
		n := rapid.IntRange(0, 3).Draw(rt, "nDeleg")
		var votes []c34V
		seen := map[int]bool{}
		left := new(big.Int).Set(avail)
		for k := 0; k < n; k++ {
			to := rapid.IntRange(0, w.nAct-1).Draw(rt, "delegTo")
			if rapid.IntRange(0, 3).Draw(rt, "preferPRep") != 0 {
				var regs []int
				for i := 0; i < w.nAct; i++ {
					if view[i].registered {
						regs = append(regs, i)
					}
				}
				if len(regs) > 0 {
					to = rapid.SampledFrom(regs).Draw(rt, "delegToPRep")
				}
			}
			if seen[to] || left.Sign() <= 0 {
				continue
			}
			seen[to] = true
			amt := c34Part(rt, "delegAmt", big.NewInt(1), left)
			left.Sub(left, amt)
			votes = append(votes, c34V{to, amt})
		}
		if kind == "delegInvalid" {
			over := new(big.Int).Add(left, c34Part(rt, "over", big.NewInt(1), c34ICX))
			to := rapid.IntRange(0, w.nAct-1).Draw(rt, "delegTo")
			for seen[to] {
				to = (to + 1) % w.nAct
			}
			votes = append(votes, c34V{to, over})
			return c34Tx{kind: "deleg", from: from, votes: votes, valid: false}, true
		}
		return c34Tx{kind: "deleg", from: from, votes: votes, valid: true}, true
	case "bond":
		// targets: P-Reps that list `from` as bonder
		var targets []int
		for i := 0; i < w.nAct; i++ {
			if view[i].registered && view[i].bonders[from] {
				targets = append(targets, i)
			}
		}
		if len(targets) == 0 {
			return c34Tx{}, false
		}
		// new bond set; unbonding created by a decrease keeps the stake in use, an increase eats unbonding first
		n := rapid.IntRange(0, len(targets)).Draw(rt, "nBond")
		if n > 3 {
			n = 3
		}
		perm := rapid.Permutation(targets).Draw(rt, "bondTargets")[:n]
		nb := map[int]*big.Int{}
		// budget: stake - deleg - (unbonding that will exist afterwards) ; construct greedily
		budget := new(big.Int).Sub(a.stake, c34Sum(a.deleg))
		// unbonding that stays whatever we do: targets dropped or decreased keep/raise unbond
		// start from "drop everything": unbond' = unbond + bond (all)
		unb := map[int]*big.Int{}
		for k, v := range a.unbonds {
			unb[k] = new(big.Int).Set(v)
		}
		for k, v := range a.bond {
			if unb[k] == nil {
				unb[k] = new(big.Int)
			}
			unb[k].Add(unb[k], v)
		}
		budget.Sub(budget, c34Sum(unb))
		// now every ICX bonded to target k first converts k's (old bond + unbond) back at no cost
		sort.Ints(perm)
		for _, k := range perm {
			free := new(big.Int)
			if unb[k] != nil {
				free.Set(unb[k])
			}
			hi := new(big.Int).Add(free, budget)
			if hi.Sign() <= 0 {
				continue
			}
			amt := c34Part(rt, "bondAmt", big.NewInt(1), hi)
			nb[k] = amt
			if amt.Cmp(free) > 0 {
				budget.Sub(budget, new(big.Int).Sub(amt, free))
			}
		}
		// count of unbond entries afterwards
		cnt := 0
		for k, v := range unb {
			rest := new(big.Int).Set(v)
			if nb[k] != nil {
				rest.Sub(rest, nb[k])
			}
			if rest.Sign() > 0 {
				cnt++
			}
		}
		var votes []c34V
		for _, k := range perm {
			if nb[k] != nil {
				votes = append(votes, c34V{k, nb[k]})
			}
		}
		return c34Tx{kind: "bond", from: from, votes: votes, valid: cnt <= w.unbMax}, true
	case "bondInvalid":
		// bond to somebody who is no P-Rep or does not list `from`, or above the stake
		var bad []int
		for i := 0; i < w.nAct; i++ {
			if !view[i].registered || !view[i].bonders[from] {
				bad = append(bad, i)
			}
		}
		if len(bad) > 0 && rapid.Bool().Draw(rt, "notBonder") {
			to := rapid.SampledFrom(bad).Draw(rt, "bondTo")
			return c34Tx{kind: "bond", from: from, votes: []c34V{{to, big.NewInt(1)}}, valid: false}, true
		}
		var targets []int
		for i := 0; i < w.nAct; i++ {
			if view[i].registered && view[i].bonders[from] {
				targets = append(targets, i)
			}
		}
		if len(targets) == 0 {
			return c34Tx{}, false
		}
		// move: lower the bond to one P-Rep and raise the bond to ANOTHER one by more than the unused stake
		// allows. The amount taken from the first one becomes unbonding and keeps the stake in use, so the call
		// must fail although "new bonds + delegation + unbonding so far" would still fit into the stake.
		if len(targets) >= 2 && len(a.bond) > 0 && rapid.IntRange(0, 2).Draw(rt, "bondMove") != 0 {
			var srcs []int
			for k, v := range a.bond {
				if v.Sign() > 0 {
					srcs = append(srcs, k)
				}
			}
			sort.Ints(srcs)
			if len(srcs) > 0 {
				src := rapid.SampledFrom(srcs).Draw(rt, "moveFrom")
				var dsts []int
				for _, k := range targets {
					if k != src && (a.unbonds[k] == nil || a.unbonds[k].Sign() == 0) {
						dsts = append(dsts, k)
					}
				}
				free := new(big.Int).Sub(a.stake, c34Using(a))
				if len(dsts) > 0 && free.Sign() >= 0 {
					dst := rapid.SampledFrom(dsts).Draw(rt, "moveTo")
					d := c34Part(rt, "moveAmt", big.NewInt(1), a.bond[src])
					x := c34Part(rt, "moveOver", big.NewInt(1), d)
					raise := new(big.Int).Add(free, x)
					var votes []c34V
					var keys []int
					for k := range a.bond {
						keys = append(keys, k)
					}
					sort.Ints(keys)
					found := false
					for _, k := range keys {
						v := new(big.Int).Set(a.bond[k])
						switch k {
						case src:
							v.Sub(v, d)
						case dst:
							v.Add(v, raise)
							found = true
						}
						if v.Sign() > 0 {
							votes = append(votes, c34V{k, v})
						}
					}
					if !found {
						votes = append(votes, c34V{dst, raise})
					}
					if len(votes) <= 3 {
						w.st["bondMoveBeyondFreeStake"]++
						return c34Tx{kind: "bond", from: from, votes: votes, valid: false}, true
					}
				}
			}
		}
		to := rapid.SampledFrom(targets).Draw(rt, "bondTo")
		if rapid.Bool().Draw(rt, "aboveStake") {
			over := new(big.Int).Add(a.stake, c34Part(rt, "over", big.NewInt(1), c34ICX))
			return c34Tx{kind: "bond", from: from, votes: []c34V{{to, over}}, valid: false}, true
		}
		// keep the current bonds, raise one of them just above the unused stake (the raise first
		// converts the target's own unbonding back, so that much more is needed)
		free := new(big.Int).Sub(a.stake, c34Using(a))
		if free.Sign() < 0 {
			return c34Tx{}, false
		}
		raise := new(big.Int).Add(free, c34Part(rt, "over", big.NewInt(1), c34ICX))
		if u := a.unbonds[to]; u != nil {
			raise.Add(raise, u)
		}
		var votes []c34V
		found := false
		var keys []int
		for k := range a.bond {
			keys = append(keys, k)
		}
		sort.Ints(keys)
		for _, k := range keys {
			v := a.bond[k]
			if k == to {
				v = new(big.Int).Add(v, raise)
				found = true
			}
			votes = append(votes, c34V{k, v})
		}
		if !found {
			votes = append(votes, c34V{to, raise})
		}
		return c34Tx{kind: "bond", from: from, votes: votes, valid: false}, true
	case "register":
		if rapid.Bool().Draw(rt, "preferDelegated") {
			var cands []int
			for i := 0; i < w.nAct; i++ {
				if view[i].registered {
					continue
				}
				for _, v := range view[:w.nAct] {
					if x := v.deleg[i]; x != nil && x.Sign() > 0 {
						cands = append(cands, i)
						break
					}
				}
			}
			if len(cands) > 0 {
				from = rapid.SampledFrom(cands).Draw(rt, "registerDelegated")
				a = view[from]
			}
		}
		if a.registered {
			return c34Tx{kind: "register", from: from, valid: false}, true
		}
		return c34Tx{kind: "register", from: from, valid: a.bal.Cmp(icmodule.BigIntRegPRepFee) >= 0}, true
	case "bonderlist":
		if !a.registered {
			return c34Tx{}, false
		}
		// keep everybody who bonded / is unbonding (removal of those is refused), add some
		list := map[int]bool{}
		for i := 0; i < w.nAct; i++ {
			if a.bonders[i] {
				list[i] = true
			}
		}
		for k := rapid.IntRange(1, 3).Draw(rt, "nAdd"); k > 0; k-- {
			list[rapid.IntRange(0, w.nAct-1).Draw(rt, "bonder")] = true
		}
		var l []int
		for i := range list {
			l = append(l, i)
		}
		sort.Ints(l)
		return c34Tx{kind: "bonderlist", from: from, list: l, valid: len(l) <= 10}, true
	case "claim":
		return c34Tx{kind: "claim", from: from, valid: true}, true
	}
	panic("unknown op " + kind)
}

var c34Ops = []string{
	"transfer", "transfer", "transferInvalid",
	"stakeUp", "stakeUp", "stakeUp", "stakeDown", "stakeDown", "stakeDown", "stakeDown", "stakeDown", "stakeSame", "stakeCancel", "stakeCancel", "stakeInvalid",
	"deleg", "deleg", "deleg", "delegInvalid",
	"bond", "bond", "bond", "bondInvalid",
	"register", "bonderlist", "claim", "claim",
}

func (w *c34World) view() []*c34Acct {
	v := make([]*c34Acct, len(w.ac))
	for i, a := range w.ac {
		v[i] = a.clone()
	}
	return v
}

// genBlock draws 1..k transactions, each against the ledger as the previous ones leave it.
func (w *c34World) genBlock(rt *rapid.T, k int) []c34Tx {
	view := w.view()
	var txs []c34Tx
	for len(txs) < k {
		var t c34Tx
		ok := false
		for try := 0; try < 20 && !ok; try++ {
			t, ok = w.genTx(rt, view, rapid.SampledFrom(c34Ops).Draw(rt, "op"))
		}
		if !ok {
			break
		}
		txs = append(txs, t)
		if t.valid {
			before := view[t.from].clone()
			c34Apply(view, nil, t)
			if t.kind == "bond" {
				// unbonding bookkeeping of the view (construction aid only)
				c34ViewUnbond(view[t.from], before, t)
			}
		}
	}
	return txs
}

// c34ViewUnbond updates the view's per-target unbonding after an (assumed successful) setBond.
func c34ViewUnbond(a, before *c34Acct, t c34Tx) {
	old := map[int]*big.Int{}
	for k, v := range before.bond {
		old[k] = v
	}
	keys := map[int]bool{}
	for k := range old {
		keys[k] = true
	}
	for k := range a.bond {
		keys[k] = true
	}
	for k := range keys {
		o, n := old[k], a.bond[k]
		if o == nil {
			o = new(big.Int)
		}
		if n == nil {
			n = new(big.Int)
		}
		d := new(big.Int).Sub(n, o)
		u := a.unbonds[k]
		if u == nil {
			u = new(big.Int)
		}
		if d.Sign() < 0 {
			u = new(big.Int).Sub(u, d)
		} else if d.Sign() > 0 {
			u = new(big.Int).Sub(u, d)
			if u.Sign() < 0 {
				u = new(big.Int)
			}
		}
		a.unbonds[k] = u
	}
	a.unbond = c34Sum(a.unbonds)
}

// ---- set-up -----------------------------------------------------------------------------------

func c34Setup(rt *rapid.T) (*c34World, string) {
	tp := rapid.IntRange(10, 30).Draw(rt, "termPeriod")
	mainN := rapid.IntRange(3, 4).Draw(rt, "mainPReps")
	subN := rapid.IntRange(1, 2).Draw(rt, "subPReps")
	nAct := rapid.IntRange(8, 12).Draw(rt, "accounts")
	nReg := rapid.IntRange(mainN, mainN+subN+1).Draw(rt, "initialPReps")
	cfg := icsim.NewSimConfigWithParams(map[icsim.SimConfigOption]interface{}{
		icsim.SCOTermPeriod:     int64(tp),
		icsim.SCOMainPReps:      int64(mainN),
		icsim.SCOSubPReps:       int64(subN),
		icsim.SCOExtraMainPReps: int64(0),
	})
	cfg.UnstakeSlotMax = int64(rapid.IntRange(2, 4).Draw(rt, "unstakeSlotMax"))
	cfg.LockMinMultiplier = 1
	cfg.LockMaxMultiplier = int64(rapid.IntRange(2, 3).Draw(rt, "lockMaxMultiplier"))
	cfg.UnbondingPeriodMultiplier = 1
	cfg.UnbondingMax = int64(rapid.SampledFrom([]int{2, 3, 100}).Draw(rt, "unbondingMax"))
	cfg.RewardFund.Iglobal = 3_000_000_000_000_000_000
	// icsim's default Rrep=0 makes the IISS2 calculator drop the set-up delegations from the reward base
	// (varForVotingReward returns 0 and calculateVotingReward returns before persisting them); a real
	// network never ran IISS2 with rrep 0.
	cfg.Rrep = icmodule.DefaultRRep

	w := &c34World{nAct: nAct, st: map[string]int{}, unbMax: int(cfg.UnbondingMax), slotMax: int(cfg.UnstakeSlotMax)}
	w.cfgDesc = fmt.Sprintf("term=%d main=%d sub=%d accounts=%d initialPReps=%d slotMax=%d lockMax=%d unbondMax=%d",
		tp, mainN, subN, nAct, nReg, cfg.UnstakeSlotMax, cfg.LockMaxMultiplier, cfg.UnbondingMax)
	balances := map[string]*big.Int{}
	for i := 0; i < nAct; i++ {
		a := &c34Acct{addr: c34Address(0x34, i), actor: true, bal: new(big.Int), stake: new(big.Int), unstk: new(big.Int), unbond: new(big.Int),
			deleg: map[int]*big.Int{}, bond: map[int]*big.Int{}, unbonds: map[int]*big.Int{}, bonders: map[int]bool{}}
		icx := rapid.IntRange(10_000, 50_000).Draw(rt, "balanceICX")
		odd := rapid.IntRange(0, 999_999).Draw(rt, "balanceLoop")
		b := new(big.Int).Mul(big.NewInt(int64(icx)), c34ICX)
		b.Add(b, big.NewInt(int64(odd)))
		balances[icutils.ToKey(a.addr)] = b
		w.ac = append(w.ac, a)
	}
	sink := func(addr module.Address) int {
		w.ac = append(w.ac, &c34Acct{addr: addr, bal: new(big.Int), stake: new(big.Int), unstk: new(big.Int), unbond: new(big.Int)})
		return len(w.ac) - 1
	}
	w.treasury = sink(common.MustNewAddressFromString("hx1000000000000000000000000000000000000000"))
	w.system = sink(state.SystemAddress)
	w.gov = sink(common.MustNewAddressFromString("cx0000000000000000000000000000000000000001"))
	balances[icutils.ToKey(w.ac[w.treasury].addr)] = new(big.Int).Mul(big.NewInt(1000), c34ICX)

	validators := make([]module.Validator, mainN)
	for i := range validators {
		v, err := state.ValidatorFromAddress(c34Address(0x40, i))
		if err != nil {
			return nil, "harness: " + err.Error()
		}
		validators[i] = v
	}
	sim, err := icsim.NewSimulator(icmodule.ValueToRevision(icmodule.LatestRevision), validators, balances, cfg)
	if err != nil {
		return nil, "harness: NewSimulator: " + err.Error()
	}
	w.sim = sim
	w.sync()

	must := func(txs []c34Tx) string {
		if m := w.block(txs, false); m != "" {
			return "set-up: " + m
		}
		return ""
	}
	toEnd := func() string {
		end := w.sim.TermSnapshot().GetEndHeight()
		for w.sim.BlockHeight() < end {
			if m := must(nil); m != "" {
				return m
			}
		}
		return ""
	}
	if m := must([]c34Tx{{kind: "rev", from: w.gov, rev: icmodule.Revision13, valid: true}}); m != "" {
		return nil, m
	}
	var txs []c34Tx
	for i := 0; i < nReg; i++ {
		txs = append(txs, c34Tx{kind: "register", from: i, valid: true})
	}
	if m := must(txs); m != "" {
		return nil, m
	}
	txs = nil
	for i := 0; i < nAct; i++ {
		pm := rapid.IntRange(200, 800).Draw(rt, "stakePermille")
		v := new(big.Int).Mul(w.ac[i].bal, big.NewInt(int64(pm)))
		v.Div(v, big.NewInt(1000))
		txs = append(txs, c34Tx{kind: "stake", from: i, amt: v, valid: true})
	}
	if m := must(txs); m != "" {
		return nil, m
	}
	txs = nil
	for i := 0; i < nAct; i++ {
		// 30% of the stake delegated: registered P-Reps to themselves, the others to P-Rep i mod nReg
		v := new(big.Int).Mul(w.ac[i].stake, big.NewInt(3))
		v.Div(v, big.NewInt(10))
		to := i % nReg
		txs = append(txs, c34Tx{kind: "deleg", from: i, votes: []c34V{{to, v}}, valid: true})
	}
	if m := must(txs); m != "" {
		return nil, m
	}
	if m := toEnd(); m != "" {
		return nil, m
	}
	txs = nil
	for i := 0; i < nReg; i++ {
		l := map[int]bool{i: true}
		for k := rapid.IntRange(1, 3).Draw(rt, "nBonders"); k > 0; k-- {
			l[rapid.IntRange(0, nAct-1).Draw(rt, "bonder")] = true
		}
		var ll []int
		for k := range l {
			ll = append(ll, k)
		}
		sort.Ints(ll)
		txs = append(txs, c34Tx{kind: "bonderlist", from: i, list: ll, valid: true})
	}
	if m := must(txs); m != "" {
		return nil, m
	}
	txs = nil
	for i := 0; i < nReg; i++ {
		v := new(big.Int).Div(w.ac[i].stake, big.NewInt(5))
		txs = append(txs, c34Tx{kind: "bond", from: i, votes: []c34V{{i, v}}, valid: true})
	}
	if m := must(txs); m != "" {
		return nil, m
	}
	if m := toEnd(); m != "" {
		return nil, m
	}
	for rev := icmodule.Revision14; rev <= icmodule.LatestRevision; rev++ {
		if m := must([]c34Tx{{kind: "rev", from: w.gov, rev: rev, valid: true}}); m != "" {
			return nil, m
		}
		if m := toEnd(); m != "" {
			return nil, m
		}
	}
	if w.sim.Revision().Value() != icmodule.LatestRevision {
		return nil, fmt.Sprintf("harness: revision %d after set-up", w.sim.Revision().Value())
	}
	if !icsim.VerifExtensionState(w.sim).IsDecentralized() {
		return nil, "harness: network not decentralized after set-up"
	}
	for k := range w.st {
		delete(w.st, k)
	}
	w.trace = nil
	return w, ""
}

func init() {
	l := log.GlobalLogger()
	l.SetOutput(io.Discard)
	l.SetLevel(log.FatalLevel)
	l.SetConsoleLevel(log.FatalLevel)
}

func TestC34(t *testing.T) {
	rec := ev.New("C34", "rapid state machine over icsim at the latest revision: 8-12 accounts (3-7 P-Reps with bonder lists, later registrations), term 10-30 blocks, unstake lock 1-3 terms, actions = blocks of 1-4 drawn txs (transfer, setStake up/down, setDelegation, setBond, registerPRep, setBonderList, claimIScore; ~20% invalid), idle blocks, run to term end, run to next unstake expiry; every block compared with a receipt-driven ledger and I1-I4; non-trivial = an unstake was returned and stake, delegation and bond changes succeeded; distinct by configuration + transaction trace")
	defer rec.Flush(t)
	steps := ev.Pick(50, 200)
	t.Run("histories", func(t *testing.T) {
		_ = flag.Set("rapid.steps", strconv.Itoa(steps))
		ev.Check(t, 70, 300, func(rt *rapid.T) {
			w, msg := c34Setup(rt)
			if msg != "" {
				if strings.HasPrefix(msg, "harness:") {
					ev.Inconclusive("C34 %s", msg)
				}
				rt.Fatalf("C34 violated during set-up (registration, stake, delegation, bond, revision upgrades): %s", msg)
			}
			fail := ""
			blocks := 0
			terms := 0
			// the state reached by the set-up must satisfy the invariants as well
			w.sync()
			run := func(txs []c34Tx) bool {
				if fail != "" {
					return false
				}
				seq := w.sim.TermSnapshot().Sequence()
				fail = w.block(txs, true)
				blocks++
				if fail == "" && w.sim.TermSnapshot().Sequence() != seq {
					terms++
				}
				return fail == ""
			}
			run(nil)
			actions := map[string]func(*rapid.T){
				"tx": func(rt *rapid.T) {
					run(w.genBlock(rt, 1))
				},
				"tx2": func(rt *rapid.T) {
					run(w.genBlock(rt, 1))
				},
				"tx3": func(rt *rapid.T) {
					run(w.genBlock(rt, 1))
				},
				"twinDown": func(rt *rapid.T) {
					// two stake decreases of one account in one block (same unstake expire height),
					// optionally followed by cancelling the newest pending unstake or a further decrease
					from := rapid.IntRange(0, w.nAct-1).Draw(rt, "twinFrom")
					a := w.ac[from]
					room := new(big.Int).Sub(a.stake, c34Using(a))
					if room.Cmp(big.NewInt(4)) < 0 {
						rt.Skip("no free stake")
					}
					d1 := c34Part(rt, "d1", big.NewInt(1), new(big.Int).Div(room, big.NewInt(4)))
					d2 := c34Part(rt, "d2", big.NewInt(1), new(big.Int).Div(room, big.NewInt(4)))
					v1 := new(big.Int).Sub(a.stake, d1)
					v2 := new(big.Int).Sub(v1, d2)
					if !run([]c34Tx{{kind: "stake", from: from, amt: v1, valid: true}, {kind: "stake", from: from, amt: v2, valid: true}}) {
						return
					}
					switch rapid.IntRange(0, 3).Draw(rt, "twinNext") {
					case 0:
						run([]c34Tx{{kind: "stake", from: from, amt: v1, valid: true}}) // cancels exactly the newest one
					case 1:
						d3 := c34Part(rt, "d3", big.NewInt(1), new(big.Int).Div(room, big.NewInt(4)))
						run([]c34Tx{{kind: "stake", from: from, amt: new(big.Int).Sub(v2, d3), valid: true}})
					}
				},
				"batch2": func(rt *rapid.T) {
					run(w.genBlock(rt, rapid.IntRange(2, 4).Draw(rt, "batchSize")))
				},
				"batch": func(rt *rapid.T) {
					run(w.genBlock(rt, rapid.IntRange(2, 4).Draw(rt, "batchSize")))
				},
				"idle": func(rt *rapid.T) {
					for k := rapid.IntRange(1, 5).Draw(rt, "idleBlocks"); k > 0; k-- {
						if !run(nil) {
							return
						}
					}
				},
				"termEnd": func(rt *rapid.T) {
					if rapid.IntRange(0, 2).Draw(rt, "really") != 0 {
						rt.Skip("thinned")
					}
					end := w.sim.TermSnapshot().GetEndHeight()
					for w.sim.BlockHeight() < end {
						if !run(nil) {
							return
						}
					}
				},
				"toExpiry": func(rt *rapid.T) {
					// run to the earliest pending unstake expiry (bounded)
					var next int64 = -1
					for _, a := range w.ac[:w.nAct] {
						for _, u := range a.unstakes {
							if next < 0 || u.exp < next {
								next = u.exp
							}
						}
					}
					if next < 0 {
						rt.Skip("no pending unstake")
					}
					if next > w.sim.BlockHeight()+100 {
						next = w.sim.BlockHeight() + 100
					}
					for w.sim.BlockHeight() < next {
						if !run(nil) {
							return
						}
					}
				},
				"": func(rt *rapid.T) {
					if fail != "" {
						rt.Fatalf("C34 violated: %s\nconfiguration: %s\ntrace: %s", fail, w.cfgDesc, strings.Join(w.trace, " "))
					}
				},
			}
			defer func() {
				// evidence for this history (also when it failed)
				desc := w.cfgDesc + " | " + strings.Join(w.trace, " ")
				if len(desc) > 1000 {
					hsh := sha256.Sum256([]byte(desc))
					desc = fmt.Sprintf("%s… len=%d sha=%x", desc[:900], len(desc), hsh[:8])
				}
				nt := w.st["unstakeReturned"] > 0 && w.st["stakeOK"] > 0 && w.st["delegOK"] > 0 && w.st["bondOK"] > 0
				var labels []string
				for _, k := range []string{"unstakeReturned", "unstakeSlotsFull", "unstakeCancelled", "claimPaid", "registerOK", "delegToInactive", "validOpFailed", "invalidOpSucceeded", "bondMoveBeyondFreeStake"} {
					if w.st[k] > 0 {
						labels = append(labels, k)
					}
				}
				if terms > 0 {
					labels = append(labels, "crossedTerm")
				}
				rec.Case(desc, nt, labels...)
				rec.LabelN("blocks", blocks)
				keys := make([]string, 0, len(w.st))
				for k := range w.st {
					keys = append(keys, k)
				}
				sort.Strings(keys)
				for _, k := range keys {
					if strings.HasSuffix(k, "OK") || strings.HasSuffix(k, "Fail") || strings.HasPrefix(k, "validOpFailed.") {
						rec.LabelN("tx."+k, w.st[k])
					}
				}
			}()
			rt.Repeat(actions)
		})
	})
}
