package hicon

import (
	"crypto/sha256"
	"fmt"
	"io"
	"math/big"
	"sort"
	"strings"
	"testing"

	"github.com/icon-project/goloop/common"
	"github.com/icon-project/goloop/common/db"
	"github.com/icon-project/goloop/common/log"
	"github.com/icon-project/goloop/icon/icmodule"
	"github.com/icon-project/goloop/icon/iiss/calculator"
	"github.com/icon-project/goloop/icon/iiss/icreward"
	"github.com/icon-project/goloop/icon/iiss/icstage"
	"github.com/icon-project/goloop/icon/iiss/icstate"
	"github.com/icon-project/goloop/icon/iiss/icutils"
	"github.com/icon-project/goloop/module"
	"pgregory.net/rapid"

	"verifharness/internal/ev"
)

// C35: for any voting history, the total I-Score credited to P-Reps and voters for a term
// never exceeds the reward fund allocated to that term, and each voter's reward from a P-Rep
// is its share of that P-Rep's voter reward in proportion to its accumulated votes.
//
// The real IISS4 reward calculation (calculator.NewIISS4Reward(ctx).Calculate()) is run over
// real icstage/icreward states filled from a generated term; the harness implements
// calculator.Context and records every UpdateIScore call. The only hook is VerifPRepInfo
// (read access to the PRepInfo the calculation built, for PRep.VoterReward / GetReward).
//
// Oracle (independent, math/big):
//   B1  sum of everything credited (P-Rep + voter)  <=  Iglobal*(Iprep+Iwage)*period*1000/MonthBlock
//       (exact rational, no intermediate rounding: the loosest reading of "fund allocated to the term")
//   B2  sum over P-Reps of (GetReward + VoterReward) obeys the same bound (what is handed out to
//       voters is VoterReward; B2 differs from B1 only by the voters' rounding losses)
//   S   every voter's credited I-Score == sum over P-Reps p with VoterReward(p) > 0 of
//       floor(acc(v,p) * VoterReward(p) / ACC(p)),   acc(v,p) = sum over the blocks of the term of the
//       votes (delegation + bond) v holds on p at that block, recomputed from the generated history;
//       ACC(p) = sum over all voters of acc(v,p).  A P-Rep's VoterReward is the code's own number
//       (the statement does not define how a P-Rep's reward is derived), the share is not.
//   P   every P-Rep is credited exactly GetReward(), nobody else is credited anything.
// Not decided: which P-Reps are rewardable, the power-weighted split between P-Reps, wage rules.

type c35Vote struct {
	to  int // index into preps
	amt *big.Int
}

type c35Event struct {
	kind   int // 0 delegation, 1 bond, 2 enable
	offset int
	from   int // voter index (kind 0,1)
	votes  []c35Vote
	target int // prep index (kind 2)
	status icmodule.EnableStatus
}

type c35Prep struct {
	addr       *common.Address
	status     icmodule.EnableStatus
	commission icmodule.Rate
	pubkey     bool
	known      bool // has a Voted record at the start of the term
}

type c35Voter struct {
	addr  *common.Address
	deleg map[int]*big.Int
	bond  map[int]*big.Int
}

type c35Case struct {
	offsetLimit int
	elected     int
	br          icmodule.Rate
	iglobal     *big.Int
	iprep       icmodule.Rate
	iwage       icmodule.Rate
	minBond     *big.Int
	preps       []c35Prep
	voters      []c35Voter
	events      []c35Event
}

func c35Pow10(e int) *big.Int {
	return new(big.Int).Exp(big.NewInt(10), big.NewInt(int64(e)), nil)
}

func c35Amt(rt *rapid.T, label string, max int, scale *big.Int) *big.Int {
	m := rapid.IntRange(1, max).Draw(rt, label)
	return new(big.Int).Mul(big.NewInt(int64(m)), scale)
}

func c35Addr(kind byte, i int) *common.Address {
	b := make([]byte, 20)
	b[0] = kind
	b[19] = byte(i + 1)
	return common.NewAccountAddress(b)
}

func c35Status(rt *rapid.T, label string) icmodule.EnableStatus {
	if rapid.IntRange(0, 9).Draw(rt, label+".e") < 6 {
		return icmodule.ESEnable
	}
	return icmodule.EnableStatus(rapid.IntRange(0, int(icmodule.ESMax)-1).Draw(rt, label))
}

func c35Gen(rt *rapid.T) *c35Case {
	c := &c35Case{}
	nP := rapid.IntRange(3, 12).Draw(rt, "nPreps")
	nU := 0
	if rapid.IntRange(0, 3).Draw(rt, "unknownPreps?") == 0 {
		nU = rapid.IntRange(1, 2).Draw(rt, "nUnknown")
	}
	c.offsetLimit = rapid.IntRange(0, 150).Draw(rt, "offsetLimit")
	if rapid.IntRange(0, 19).Draw(rt, "elected0?") == 0 {
		c.elected = 0
	} else {
		c.elected = rapid.IntRange(1, nP+1).Draw(rt, "elected")
	}
	c.br = icmodule.Rate(rapid.SampledFrom([]int{0, 1, 100, 500, 500, 500, 1000, 5000, 10000}).Draw(rt, "bondRequirement"))
	e := rapid.SampledFrom([]int{0, 0, 3, 18, 18}).Draw(rt, "amountExp")
	scale := c35Pow10(e)
	ge := rapid.SampledFrom([]int{4, 6, 18, 18}).Draw(rt, "iglobalExp")
	c.iglobal = new(big.Int).Mul(big.NewInt(int64(rapid.IntRange(0, 5_000_000).Draw(rt, "iglobal"))), c35Pow10(ge))
	c.iprep = icmodule.Rate(rapid.IntRange(0, 10000).Draw(rt, "iprep"))
	c.iwage = icmodule.Rate(rapid.IntRange(0, 10000-int(c.iprep)).Draw(rt, "iwage"))
	c.minBond = new(big.Int).Mul(big.NewInt(int64(rapid.IntRange(0, 12000).Draw(rt, "minBond"))), scale)

	for i := 0; i < nP+nU; i++ {
		p := c35Prep{addr: c35Addr(0x10, i), known: i < nP}
		if p.known {
			p.status = c35Status(rt, "prepStatus")
			if rapid.IntRange(0, 4).Draw(rt, "commissionEdge?") == 0 {
				p.commission = icmodule.Rate(rapid.SampledFrom([]int{0, 1, 9999, 10000}).Draw(rt, "commission"))
			} else {
				p.commission = icmodule.Rate(rapid.IntRange(0, 10000).Draw(rt, "commission"))
			}
			p.pubkey = rapid.IntRange(0, 6).Draw(rt, "pubkey") != 0
		} else {
			p.status = icmodule.ESDisablePermanent
		}
		c.preps = append(c.preps, p)
	}

	nV := rapid.IntRange(1, 8).Draw(rt, "nVoters")
	usedPrep := map[int]bool{}
	for i := 0; i < nV; i++ {
		v := c35Voter{deleg: map[int]*big.Int{}, bond: map[int]*big.Int{}}
		v.addr = c35Addr(0x20, i)
		if rapid.IntRange(0, 9).Draw(rt, "voterIsPrep?") < 4 {
			j := rapid.IntRange(0, nP-1).Draw(rt, "voterPrep")
			if !usedPrep[j] {
				usedPrep[j] = true
				v.addr = c.preps[j].addr
			}
		}
		nd := rapid.IntRange(0, 3).Draw(rt, "nDeleg")
		for k := 0; k < nd; k++ {
			to := rapid.IntRange(0, nP-1).Draw(rt, "delegTo")
			if _, ok := v.deleg[to]; !ok {
				v.deleg[to] = c35Amt(rt, "delegAmt", 10000, scale)
			}
		}
		nb := rapid.IntRange(0, 2).Draw(rt, "nBond")
		for k := 0; k < nb; k++ {
			to := rapid.IntRange(0, nP-1).Draw(rt, "bondTo")
			if _, ok := v.bond[to]; !ok {
				v.bond[to] = c35Amt(rt, "bondAmt", 10000, scale)
			}
		}
		c.voters = append(c.voters, v)
	}

	// events: offsets non-decreasing (as the stage records them), running amounts never negative
	nE := rapid.IntRange(0, 14).Draw(rt, "nEvents")
	offs := make([]int, nE)
	for i := range offs {
		offs[i] = rapid.IntRange(0, c.offsetLimit).Draw(rt, "offset")
	}
	sort.Ints(offs)
	curD := make([]map[int]*big.Int, nV)
	curB := make([]map[int]*big.Int, nV)
	for i, v := range c.voters {
		curD[i], curB[i] = map[int]*big.Int{}, map[int]*big.Int{}
		for k, a := range v.deleg {
			curD[i][k] = new(big.Int).Set(a)
		}
		for k, a := range v.bond {
			curB[i][k] = new(big.Int).Set(a)
		}
	}
	for _, o := range offs {
		evn := c35Event{offset: o}
		k := rapid.IntRange(0, 99).Draw(rt, "eventKind")
		switch {
		case k < 15:
			evn.kind = 2
			evn.target = rapid.IntRange(0, len(c.preps)-1).Draw(rt, "enableTarget")
			evn.status = c35Status(rt, "enableStatus")
		default:
			evn.kind = 0
			cur := curD
			if k >= 65 {
				evn.kind = 1
				cur = curB
			}
			evn.from = rapid.IntRange(0, nV-1).Draw(rt, "eventFrom")
			nt := rapid.IntRange(1, 3).Draw(rt, "nVotes")
			seen := map[int]bool{}
			for j := 0; j < nt; j++ {
				var to int
				// prefer a P-Rep the voter already votes for (so that decreases are frequent)
				var held []int
				for p := range cur[evn.from] {
					if cur[evn.from][p].Sign() > 0 {
						held = append(held, p)
					}
				}
				sort.Ints(held)
				if len(held) > 0 && rapid.Bool().Draw(rt, "toHeld?") {
					to = rapid.SampledFrom(held).Draw(rt, "voteToHeld")
				} else {
					to = rapid.IntRange(0, len(c.preps)-1).Draw(rt, "voteTo")
				}
				if seen[to] {
					continue
				}
				seen[to] = true
				have := cur[evn.from][to]
				if have == nil {
					have = new(big.Int)
				}
				var d *big.Int
				mode := rapid.IntRange(0, 9).Draw(rt, "deltaMode")
				switch {
				case have.Sign() > 0 && mode < 2: // remove completely
					d = new(big.Int).Neg(have)
				case have.Sign() > 0 && mode < 5: // partial decrease
					num := rapid.IntRange(1, 99).Draw(rt, "decreasePct")
					d = new(big.Int).Mul(have, big.NewInt(int64(num)))
					d.Div(d, big.NewInt(100))
					d.Neg(d)
				case mode == 9:
					d = new(big.Int)
				default:
					d = c35Amt(rt, "increase", 10000, scale)
				}
				cur[evn.from][to] = new(big.Int).Add(have, d)
				evn.votes = append(evn.votes, c35Vote{to: to, amt: d})
			}
		}
		c.events = append(c.events, evn)
	}
	return c
}

func c35Big(x *big.Int) string {
	s := x.String()
	t := strings.TrimRight(s, "0")
	if z := len(s) - len(t); z >= 6 && t != "" && t != "-" {
		return fmt.Sprintf("%se%d", t, z)
	}
	return s
}

func c35SortedKeys(m map[int]*big.Int) []int {
	var ks []int
	for k := range m {
		ks = append(ks, k)
	}
	sort.Ints(ks)
	return ks
}

func (c *c35Case) desc() string {
	var sb strings.Builder
	fmt.Fprintf(&sb, "L=%d elected=%d br=%d iglobal=%s iprep=%d iwage=%d minBond=%s preps[", c.offsetLimit, c.elected, c.br,
		c35Big(c.iglobal), c.iprep, c.iwage, c35Big(c.minBond))
	for i, p := range c.preps {
		if !p.known {
			fmt.Fprintf(&sb, " %d:unknown", i)
			continue
		}
		fmt.Fprintf(&sb, " %d:s%d/c%d/k%v", i, p.status, p.commission, p.pubkey)
	}
	sb.WriteString(" ] voters[")
	for i, v := range c.voters {
		fmt.Fprintf(&sb, " %d(%x):", i, v.addr.ID()[0:1])
		if v.addr.ID()[0] == 0x10 {
			fmt.Fprintf(&sb, "=prep%d:", int(v.addr.ID()[19])-1)
		}
		for _, k := range c35SortedKeys(v.deleg) {
			fmt.Fprintf(&sb, "d%d=%s,", k, c35Big(v.deleg[k]))
		}
		for _, k := range c35SortedKeys(v.bond) {
			fmt.Fprintf(&sb, "b%d=%s,", k, c35Big(v.bond[k]))
		}
	}
	sb.WriteString(" ] events[")
	for _, e := range c.events {
		switch e.kind {
		case 2:
			fmt.Fprintf(&sb, " @%d:enable(p%d,s%d)", e.offset, e.target, e.status)
		default:
			fmt.Fprintf(&sb, " @%d:%s(v%d", e.offset, []string{"deleg", "bond"}[e.kind], e.from)
			for _, v := range e.votes {
				sign := ""
				if v.amt.Sign() >= 0 {
					sign = "+"
				}
				fmt.Fprintf(&sb, ",p%d%s%s", v.to, sign, c35Big(v.amt))
			}
			sb.WriteString(")")
		}
	}
	sb.WriteString(" ]")
	s := sb.String()
	if len(s) > 1000 {
		h := sha256.Sum256([]byte(s))
		s = fmt.Sprintf("%s… len=%d sha=%x", s[:900], len(s), h[:8])
	}
	return s
}

// c35Ctx implements calculator.Context and records every credit.
type c35Ctx struct {
	back     *icstage.Snapshot
	base     *icreward.Snapshot
	temp     *icreward.State
	stats    *calculator.Stats
	logger   log.Logger
	credited map[calculator.RewardType]map[string]*big.Int
	calls    map[calculator.RewardType]map[string]int
}

func (c *c35Ctx) Back() *icstage.Snapshot  { return c.back }
func (c *c35Ctx) Base() *icreward.Snapshot { return c.base }
func (c *c35Ctx) Temp() *icreward.State    { return c.temp }
func (c *c35Ctx) Stats() *calculator.Stats { return c.stats }
func (c *c35Ctx) Logger() log.Logger       { return c.logger }
func (c *c35Ctx) UpdateIScore(addr module.Address, reward *big.Int, t calculator.RewardType) error {
	k := icutils.ToKey(addr)
	if c.credited[t] == nil {
		c.credited[t] = map[string]*big.Int{}
		c.calls[t] = map[string]int{}
	}
	if c.credited[t][k] == nil {
		c.credited[t][k] = new(big.Int)
	}
	c.credited[t][k].Add(c.credited[t][k], reward)
	c.calls[t][k]++
	// keep the real side effect too
	is, err := c.temp.GetIScore(addr)
	if err != nil {
		return err
	}
	return c.temp.SetIScore(addr, is.Added(reward))
}

var c35Logger = func() log.Logger {
	l := log.New()
	l.SetOutput(io.Discard)
	l.SetLevel(log.FatalLevel)
	l.SetConsoleLevel(log.FatalLevel)
	return l
}()

type c35Result struct {
	ctx *c35Ctx
	pi  *calculator.PRepInfo
}

// c35Run fills real stage/reward states from the case and runs the real IISS4 calculation.
func c35Run(c *c35Case) (*c35Result, error) {
	database := db.NewMapDB()
	stage := icstage.NewState(database)
	reward := icreward.NewState(database, nil)

	rf := icstate.NewRewardFund(icstate.RFVersion2)
	if err := rf.SetIGlobal(c.iglobal); err != nil {
		return nil, err
	}
	if err := rf.SetAllocation(map[icstate.RFundKey]icmodule.Rate{
		icstate.KeyIprep:  c.iprep,
		icstate.KeyIwage:  c.iwage,
		icstate.KeyIcps:   icmodule.Rate(10000) - c.iprep - c.iwage,
		icstate.KeyIrelay: 0,
	}); err != nil {
		return nil, err
	}
	if err := stage.AddGlobalV3(0, 0, c.offsetLimit, c.elected, c.br, rf, c.minBond); err != nil {
		return nil, err
	}
	const dsaIndex = 1
	if err := reward.SetDSA(icreward.NewDSA().Updated(dsaIndex)); err != nil {
		return nil, err
	}
	// initial Voted totals = sums of the voters' initial votes
	del := make([]*big.Int, len(c.preps))
	bon := make([]*big.Int, len(c.preps))
	for i := range c.preps {
		del[i], bon[i] = new(big.Int), new(big.Int)
	}
	for _, v := range c.voters {
		for k, a := range v.deleg {
			del[k].Add(del[k], a)
		}
		for k, a := range v.bond {
			bon[k].Add(bon[k], a)
		}
	}
	for i, p := range c.preps {
		if !p.known {
			continue
		}
		vd := icreward.NewVotedV2()
		vd.SetStatus(p.status)
		vd.SetDelegated(del[i])
		vd.SetBonded(bon[i])
		vd.SetCommissionRate(p.commission)
		if err := reward.SetVoted(p.addr, vd); err != nil {
			return nil, err
		}
		if p.pubkey {
			if err := reward.SetPublicKey(p.addr, icreward.NewPublicKey().Updated(dsaIndex)); err != nil {
				return nil, err
			}
		}
	}
	for _, v := range c.voters {
		if len(v.deleg) > 0 {
			d := icreward.NewDelegating()
			for _, k := range c35SortedKeys(v.deleg) {
				d.Delegations = append(d.Delegations, icstate.NewDelegation(c.preps[k].addr, v.deleg[k]))
			}
			if err := reward.SetDelegating(v.addr, d); err != nil {
				return nil, err
			}
		}
		if len(v.bond) > 0 {
			b := icreward.NewBonding()
			for _, k := range c35SortedKeys(v.bond) {
				b.Bonds = append(b.Bonds, icstate.NewBond(c.preps[k].addr, v.bond[k]))
			}
			if err := reward.SetBonding(v.addr, b); err != nil {
				return nil, err
			}
		}
	}
	for _, e := range c.events {
		switch e.kind {
		case 2:
			if _, err := stage.AddEventEnable(e.offset, c.preps[e.target].addr, e.status); err != nil {
				return nil, err
			}
		default:
			var vl icstage.VoteList
			for _, v := range e.votes {
				vl = append(vl, icstage.NewVote(c.preps[v.to].addr, v.amt))
			}
			var err error
			if e.kind == 0 {
				_, _, err = stage.AddEventDelegation(e.offset, c.voters[e.from].addr, vl)
			} else {
				_, _, err = stage.AddEventBond(e.offset, c.voters[e.from].addr, vl)
			}
			if err != nil {
				return nil, err
			}
		}
	}
	ctx := &c35Ctx{
		back:     stage.GetSnapshot(),
		base:     reward.GetSnapshot(),
		stats:    calculator.NewStats(),
		logger:   c35Logger,
		credited: map[calculator.RewardType]map[string]*big.Int{},
		calls:    map[calculator.RewardType]map[string]int{},
	}
	ctx.temp = icreward.NewStateFromSnapshot(ctx.base)
	r, err := calculator.NewIISS4Reward(ctx)
	if err != nil {
		return nil, err
	}
	if err = r.Calculate(); err != nil {
		return nil, fmt.Errorf("Calculate: %w", err)
	}
	return &c35Result{ctx: ctx, pi: calculator.VerifPRepInfo(r)}, nil
}

// c35Acc recomputes acc(v,p): the sum over the blocks 0..L of the term of the votes voter v
// holds on P-Rep p in that block; an event recorded at offset o is in force from block o+1.
func c35Acc(c *c35Case) [][]*big.Int {
	acc := make([][]*big.Int, len(c.voters))
	for vi, v := range c.voters {
		acc[vi] = make([]*big.Int, len(c.preps))
		for pi := range c.preps {
			cur := new(big.Int)
			if a := v.deleg[pi]; a != nil {
				cur.Add(cur, a)
			}
			if a := v.bond[pi]; a != nil {
				cur.Add(cur, a)
			}
			sum := new(big.Int)
			next := 0 // first block not yet accounted
			for _, e := range c.events {
				if e.kind == 2 || e.from != vi {
					continue
				}
				for _, vt := range e.votes {
					if vt.to != pi {
						continue
					}
					if n := e.offset + 1 - next; n > 0 {
						sum.Add(sum, new(big.Int).Mul(cur, big.NewInt(int64(n))))
						next = e.offset + 1
					}
					cur = new(big.Int).Add(cur, vt.amt)
				}
			}
			if n := c.offsetLimit + 1 - next; n > 0 {
				sum.Add(sum, new(big.Int).Mul(cur, big.NewInt(int64(n))))
			}
			acc[vi][pi] = sum
		}
	}
	return acc
}

func c35Check(c *c35Case, res *c35Result) (msg string, stats map[string]bool) {
	stats = map[string]bool{}
	pi := res.pi
	if pi == nil {
		return "calculation built no PRepInfo", stats
	}
	// voters with the same address are the same account: merge by address
	acc := c35Acc(c)
	ACC := make([]*big.Int, len(c.preps))
	for p := range c.preps {
		ACC[p] = new(big.Int)
		for v := range c.voters {
			ACC[p].Add(ACC[p], acc[v][p])
		}
	}
	prepKey := map[string]int{}
	for i, p := range c.preps {
		prepKey[icutils.ToKey(p.addr)] = i
	}

	// P: P-Rep credits
	sumPRepSide := new(big.Int)
	for k, p := range pi.PReps() {
		idx, ok := prepKey[k]
		if !ok {
			return fmt.Sprintf("PRepInfo holds an address that is no P-Rep of the case: %x", k), stats
		}
		got := res.ctx.credited[calculator.RTPRep][k]
		if got == nil {
			got = new(big.Int)
		}
		if got.Cmp(p.GetReward()) != 0 {
			return fmt.Sprintf("P-Rep %d credited %s, its reward (commission+wage) is %s", idx, got, p.GetReward()), stats
		}
		if p.GetReward().Sign() < 0 || p.VoterReward().Sign() < 0 {
			return fmt.Sprintf("P-Rep %d has a negative reward: reward=%s voterReward=%s", idx, p.GetReward(), p.VoterReward()), stats
		}
		sumPRepSide.Add(sumPRepSide, p.GetReward())
		sumPRepSide.Add(sumPRepSide, p.VoterReward())
		if p.IsRewardable(pi.ElectedPRepCount()) {
			stats["rewardable"] = true
			if p.VoterReward().Sign() > 0 {
				stats["voterRewardPositive"] = true
			}
		} else if p.VoterReward().Sign() > 0 || p.GetReward().Sign() > 0 {
			// informational only; rewardability is not part of the statement
			stats["rewardToNonRewardable"] = true
		}
	}
	for k := range res.ctx.credited[calculator.RTPRep] {
		if pi.GetPRep(k) == nil {
			return fmt.Sprintf("P-Rep reward credited to %x which is not in PRepInfo", k), stats
		}
	}
	for t := range res.ctx.credited {
		if t != calculator.RTPRep && t != calculator.RTVoter {
			return fmt.Sprintf("unexpected reward type %v credited", t), stats
		}
	}

	// S: voter shares
	expected := map[string]*big.Int{}
	for vi, v := range c.voters {
		k := icutils.ToKey(v.addr)
		if expected[k] == nil {
			expected[k] = new(big.Int)
		}
		for p, prep := range c.preps {
			pr := pi.GetPRep(icutils.ToKey(prep.addr))
			if pr == nil || pr.VoterReward().Sign() <= 0 || ACC[p].Sign() <= 0 {
				continue
			}
			share := new(big.Int).Mul(acc[vi][p], pr.VoterReward())
			share.Div(share, ACC[p])
			expected[k].Add(expected[k], share)
		}
	}
	for vi, v := range c.voters {
		k := icutils.ToKey(v.addr)
		got := res.ctx.credited[calculator.RTVoter][k]
		if got == nil {
			got = new(big.Int)
		}
		if got.Cmp(expected[k]) != 0 {
			var sb strings.Builder
			for p, prep := range c.preps {
				pr := pi.GetPRep(icutils.ToKey(prep.addr))
				if pr != nil && pr.VoterReward().Sign() > 0 {
					fmt.Fprintf(&sb, " p%d{acc=%s ACC=%s voterReward=%s codeACC=%s}", p, acc[vi][p], ACC[p], pr.VoterReward(), pr.AccumulatedVoted())
				}
			}
			return fmt.Sprintf("voter %d credited %s, proportional share is %s (%s )", vi, got, expected[k], sb.String()), stats
		}
		if got.Sign() > 0 {
			stats["voterPaid"] = true
		}
	}
	for k, got := range res.ctx.credited[calculator.RTVoter] {
		if _, ok := expected[k]; !ok && got.Sign() != 0 {
			return fmt.Sprintf("voter reward %s credited to %x which never voted", got, k), stats
		}
	}

	// B1/B2: budget (exact rational)   x <= iglobal*(iprep+iwage)/10000 * period*1000/MonthBlock
	total := new(big.Int)
	for _, m := range res.ctx.credited {
		for _, a := range m {
			total.Add(total, a)
		}
	}
	rhs := new(big.Int).Mul(c.iglobal, big.NewInt(int64(c.iprep+c.iwage)))
	rhs.Mul(rhs, big.NewInt(int64(c.offsetLimit+1)))
	rhs.Mul(rhs, big.NewInt(icmodule.IScoreICXRatio))
	den := big.NewInt(icmodule.DenomInRate * icmodule.MonthBlock)
	if new(big.Int).Mul(total, den).Cmp(rhs) > 0 {
		return fmt.Sprintf("total credited %s exceeds the term budget %s/%s", total, rhs, den), stats
	}
	if new(big.Int).Mul(sumPRepSide, den).Cmp(rhs) > 0 {
		return fmt.Sprintf("sum of P-Rep rewards and voter rewards %s exceeds the term budget %s/%s", sumPRepSide, rhs, den), stats
	}
	if total.Sign() > 0 {
		stats["paid"] = true
	}
	return "", stats
}

func TestC35(t *testing.T) {
	rec := ev.New("C35", "generated term (3-12 P-Reps + unknown ones, 1-8 voters with initial delegations/bonds consistent with the P-Rep totals, 0-14 vote/enable events with non-negative running amounts) run through the real IISS4 reward calculation; non-trivial = some voter is paid and a non-zero vote event targets a finally rewardable P-Rep; distinct by the whole case")
	defer rec.Flush(t)
	t.Run("terms", func(t *testing.T) {
		ev.Check(t, 6000, 200000, func(rt *rapid.T) {
			c := c35Gen(rt)
			desc := c.desc()
			res, err := c35Run(c)
			if err != nil {
				// the generated term is valid by construction: an error is a failed calculation
				rec.Case(desc, false, "error")
				rt.Fatalf("C35 violated: calculation failed on a valid term: %v\ncase: %s", err, desc)
			}
			msg, st := c35Check(c, res)
			// classification
			var labels []string
			midTerm := false
			for _, e := range c.events {
				if e.kind == 2 {
					continue
				}
				for _, v := range e.votes {
					if v.amt.Sign() == 0 {
						continue
					}
					if p := res.pi.GetPRep(icutils.ToKey(c.preps[v.to].addr)); p != nil && p.IsRewardable(res.pi.ElectedPRepCount()) {
						midTerm = true
					}
				}
			}
			if midTerm {
				labels = append(labels, "midTermVoteOnRewardable")
			}
			for _, k := range []string{"rewardable", "voterRewardPositive", "voterPaid", "paid", "rewardToNonRewardable"} {
				if st[k] {
					labels = append(labels, k)
				}
			}
			if c.elected == 0 {
				labels = append(labels, "elected0")
			} else if c.elected < len(c.preps) {
				labels = append(labels, "someUnelected")
			}
			if c.br == 0 {
				labels = append(labels, "br0")
			}
			hasEnable, hasUnknownVote, evOnly, both := false, false, false, false
			for _, e := range c.events {
				if e.kind == 2 {
					hasEnable = true
					continue
				}
				for _, v := range e.votes {
					if !c.preps[v.to].known {
						hasUnknownVote = true
					}
				}
				if len(c.voters[e.from].deleg) == 0 && len(c.voters[e.from].bond) == 0 {
					evOnly = true
				}
			}
			for _, v := range c.voters {
				if len(v.deleg) > 0 && len(v.bond) > 0 {
					both = true
				}
			}
			if hasEnable {
				labels = append(labels, "enableEvent")
			}
			if hasUnknownVote {
				labels = append(labels, "voteToUnknownPRep")
			}
			if evOnly {
				labels = append(labels, "eventOnlyVoter")
			}
			if both {
				labels = append(labels, "voterDelegAndBond")
			}
			rec.Case(desc, midTerm && st["voterPaid"], labels...)
			if msg != "" {
				rt.Fatalf("C35 violated: %s\ncase: %s", msg, desc)
			}
		})
	})
}
