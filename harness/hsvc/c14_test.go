package hsvc

import (
	"bytes"
	"fmt"
	"math/big"
	"reflect"
	"sort"
	"strings"
	"testing"

	"golang.org/x/crypto/sha3"

	"github.com/icon-project/goloop/common"
	"github.com/icon-project/goloop/common/db"
	"github.com/icon-project/goloop/common/log"
	"github.com/icon-project/goloop/common/trie/cache"
	"github.com/icon-project/goloop/service/state"
	"pgregory.net/rapid"

	"verifharness/internal/ev"
)

// C14: a world-state snapshot never changes after it is taken; Reset(snapshot) restores exactly
// the snapshot's observable contents; the state hash depends only on the logical account
// contents (same regardless of access order, cache clearing, flushing and reloading from the
// database); empty accounts are indistinguishable from never-touched ones.
//
// Model: account index -> (balance, storage map, contract flag + owner). An account with zero
// balance, no storage and no contract flag is empty ≡ absent.
//
// Oracles, evaluated after every operation of a drawn history:
//   - every retained snapshot still shows exactly the model copy taken with it (all accounts,
//     all keys of the universe) and still reports the hash it reported when taken;
//   - the live state shows exactly the live model (read through AccountState or
//     AccountSnapshot getters, drawn);
//   - StateHash of every snapshot == StateHash of a *freshly built* world state on a fresh
//     database that receives the model's contents once, in sorted order, without deletions
//     (canonical form). Equal models therefore have equal hashes whatever the history was.

const c14Accounts = 6

var c14Keys = [][]byte{
	{0x01}, {0x01, 0x02}, {0x01, 0x03}, {0x10},
	append(bytes.Repeat([]byte{0xab}, 31), 0x01),
	append(bytes.Repeat([]byte{0xab}, 31), 0x02),
	[]byte("key"),
}

func c14ID(i int) []byte {
	a := make([]byte, 20)
	copy(a, fmt.Sprintf("account-%02d", i))
	a[19] = byte(i * 37)
	return a
}

func c14Owner(i int) *common.Address { return common.NewAccountAddress(c14ID(i)) }

// c14Contract is one deployed code version of a contract account: code / deploy tx / audit tx are
// small selectors (the bytes are derived from them), status is "pending", "active" or "rejected".
type c14Contract struct {
	code, tx, audit int
	status          string
}

func (c *c14Contract) String() string {
	if c == nil {
		return "-"
	}
	return fmt.Sprintf("code%d/tx%d/audit%d/%s", c.code, c.tx, c.audit, c.status)
}

type c14Acct struct {
	balance  *big.Int
	store    map[string][]byte
	contract bool
	owner    int
	// contract accounts only
	disabled, blocked bool
	cur, next         *c14Contract
}

func c14Code(sel int) []byte   { return bytes.Repeat([]byte{byte(0xc0 + sel)}, 40+sel) }
func c14TxHash(sel int) []byte { return bytes.Repeat([]byte{byte(0x70 + sel)}, 32) }
func c14Audit(sel int) []byte {
	if sel == 0 {
		return nil
	}
	return bytes.Repeat([]byte{byte(0xa0 + sel)}, 32)
}

func (a *c14Acct) empty() bool {
	return a == nil || (a.balance.Sign() == 0 && len(a.store) == 0 && !a.contract)
}

type c14Model map[int]*c14Acct

func (m c14Model) get(i int) *c14Acct {
	a := m[i]
	if a == nil {
		a = &c14Acct{balance: new(big.Int), store: map[string][]byte{}}
		m[i] = a
	}
	return a
}

func (m c14Model) clone() c14Model {
	o := c14Model{}
	for i, a := range m {
		c := &c14Acct{balance: new(big.Int).Set(a.balance), store: map[string][]byte{}, contract: a.contract, owner: a.owner,
			disabled: a.disabled, blocked: a.blocked}
		if a.cur != nil {
			cc := *a.cur
			c.cur = &cc
		}
		if a.next != nil {
			cc := *a.next
			c.next = &cc
		}
		for k, v := range a.store {
			c.store[k] = append([]byte{}, v...)
		}
		o[i] = c
	}
	return o
}

// fingerprint renders the logical contents canonically (empty accounts omitted).
func (m c14Model) fingerprint() string {
	var sb strings.Builder
	for i := 0; i < c14Accounts; i++ {
		a := m[i]
		if a.empty() {
			continue
		}
		fmt.Fprintf(&sb, "%d:{bal=%s", i, a.balance.Text(16))
		if a.contract {
			fmt.Fprintf(&sb, " contract(owner=%d disabled=%v blocked=%v cur=%s next=%s)", a.owner, a.disabled, a.blocked, a.cur, a.next)
		}
		keys := make([]string, 0, len(a.store))
		for k := range a.store {
			keys = append(keys, k)
		}
		sort.Strings(keys)
		for _, k := range keys {
			fmt.Fprintf(&sb, " %x=%x", k, a.store[k])
		}
		sb.WriteString("} ")
	}
	return sb.String()
}

// c14Build writes the model into a fresh world state in canonical order.
func c14Build(m c14Model) state.WorldState {
	ws := state.NewWorldState(db.NewMapDB(), nil, nil, nil, nil)
	for i := 0; i < c14Accounts; i++ {
		a := m[i]
		if a.empty() {
			continue
		}
		as := ws.GetAccountState(c14ID(i))
		if a.contract {
			as.InitContractAccount(c14Owner(a.owner))
			// the shortest way to the same contract state: deploy+accept the current code, deploy the next
			// one, reject it if it is rejected
			if a.cur != nil {
				if _, err := as.DeployContract(c14Code(a.cur.code), state.JavaEE, "application/java", []byte{byte(a.cur.code)}, c14TxHash(a.cur.tx)); err != nil {
					panic(err)
				}
				if err := as.AcceptContract(c14TxHash(a.cur.tx), c14Audit(a.cur.audit)); err != nil {
					panic(err)
				}
			}
			if a.next != nil {
				if _, err := as.DeployContract(c14Code(a.next.code), state.JavaEE, "application/java", []byte{byte(a.next.code)}, c14TxHash(a.next.tx)); err != nil {
					panic(err)
				}
				if a.next.status == "rejected" {
					if err := as.RejectContract(c14TxHash(a.next.tx), c14Audit(a.next.audit)); err != nil {
						panic(err)
					}
				}
			}
			as.SetDisable(a.disabled)
			as.SetBlock(a.blocked)
		}
		as.SetBalance(new(big.Int).Set(a.balance))
		keys := make([]string, 0, len(a.store))
		for k := range a.store {
			keys = append(keys, k)
		}
		sort.Strings(keys)
		for _, k := range keys {
			if _, err := as.SetValue([]byte(k), append([]byte{}, a.store[k]...)); err != nil {
				panic(err)
			}
		}
	}
	return ws
}

var c14RefCache = map[string][]byte{}

// c14RefHash is the canonical hash of the model's logical contents.
func c14RefHash(m c14Model) []byte {
	fp := m.fingerprint()
	if h, ok := c14RefCache[fp]; ok {
		return h
	}
	h := append([]byte{}, c14Build(m).GetSnapshot().StateHash()...)
	if len(c14RefCache) < 200000 {
		c14RefCache[fp] = h
	}
	return h
}

// c14CheckData compares one account's getters with the model; acc == nil means "absent".
//
// IsEmpty() is decided on snapshots only (the statement's observation points are snapshot
// getters and the hash): a live AccountState whose storage was emptied keeps its mutable store
// object and reports IsEmpty()=false until the next snapshot, which is not observable there.
func c14CheckData(acc state.AccountData, i int, a *c14Acct, isSnapshot bool) string {
	if acc == nil {
		if !a.empty() {
			return fmt.Sprintf("account %d is absent, model has %s", i, c14Model{i: a}.fingerprint())
		}
		return ""
	}
	want := a
	if want == nil {
		want = &c14Acct{balance: new(big.Int)}
	}
	if b := acc.GetBalance(); b == nil || b.Cmp(want.balance) != 0 {
		return fmt.Sprintf("account %d balance %v, model %s", i, b, want.balance)
	}
	if acc.IsContract() != want.contract {
		return fmt.Sprintf("account %d IsContract=%v, model %v", i, acc.IsContract(), want.contract)
	}
	if want.contract {
		if o := acc.ContractOwner(); o == nil || !o.Equal(c14Owner(want.owner)) {
			return fmt.Sprintf("account %d contract owner %v, model owner %d (%s)", i, o, want.owner, c14Owner(want.owner))
		}
		if acc.IsDisabled() != want.disabled || acc.IsBlocked() != want.blocked {
			return fmt.Sprintf("account %d disabled=%v blocked=%v, model disabled=%v blocked=%v", i, acc.IsDisabled(), acc.IsBlocked(), want.disabled, want.blocked)
		}
		var gotCur, gotNext state.ContractSnapshot
		switch x := acc.(type) {
		case state.AccountSnapshot:
			gotCur, gotNext = x.Contract(), x.NextContract()
		case state.AccountState:
			gotCur, gotNext = x.Contract(), x.NextContract()
		}
		for _, x := range []struct {
			name string
			got  state.ContractSnapshot
			want *c14Contract
		}{{"current contract", gotCur, want.cur}, {"next contract", gotNext, want.next}} {
			if msg := c14CheckContract(x.got, x.want); msg != "" {
				return fmt.Sprintf("account %d %s: %s (model %s)", i, x.name, msg, x.want)
			}
		}
	}
	for _, k := range c14Keys {
		v, err := acc.GetValue(k)
		if err != nil {
			return fmt.Sprintf("account %d GetValue(%x) error %v", i, k, err)
		}
		if !bytes.Equal(v, want.store[string(k)]) {
			return fmt.Sprintf("account %d value[%x]=%x, model %x", i, k, v, want.store[string(k)])
		}
	}
	if isSnapshot && acc.IsEmpty() != want.empty() {
		return fmt.Sprintf("account %d IsEmpty=%v, model %v", i, acc.IsEmpty(), want.empty())
	}
	return ""
}

func c14CheckContract(got state.ContractSnapshot, want *c14Contract) string {
	// (a nil interface and a typed nil pointer both mean "none")
	none := got == nil || reflect.ValueOf(got).IsNil()
	if want == nil {
		if !none {
			return fmt.Sprintf("present (status %v, deploy tx %x)", got.Status(), got.DeployTxHash())
		}
		return ""
	}
	if none {
		return "absent"
	}
	ch := sha3.Sum256(c14Code(want.code))
	st := map[string]state.ContractStatus{"pending": state.CSPending, "active": state.CSActive, "rejected": state.CSRejected}[want.status]
	switch {
	case !bytes.Equal(got.CodeHash(), ch[:]):
		return fmt.Sprintf("code hash %x", got.CodeHash())
	case !bytes.Equal(got.DeployTxHash(), c14TxHash(want.tx)):
		return fmt.Sprintf("deploy tx %x", got.DeployTxHash())
	case !bytes.Equal(got.AuditTxHash(), c14Audit(want.audit)):
		return fmt.Sprintf("audit tx %x", got.AuditTxHash())
	case got.Status() != st:
		return fmt.Sprintf("status %v", got.Status())
	}
	return ""
}

// c14CheckSnapshot: contents (directly or through a read-only world state) and hash.
func c14CheckSnapshot(wss state.WorldSnapshot, m c14Model, readonly bool) string {
	var ro state.WorldState
	if readonly {
		ro = state.NewReadOnlyWorldState(wss)
	}
	for i := 0; i < c14Accounts; i++ {
		var msg string
		if readonly {
			msg = c14CheckData(ro.GetAccountState(c14ID(i)), i, m[i], true)
		} else if as := wss.GetAccountSnapshot(c14ID(i)); as == nil {
			msg = c14CheckData(nil, i, m[i], true)
		} else {
			msg = c14CheckData(as, i, m[i], true)
		}
		if msg != "" {
			return msg
		}
	}
	if h, want := wss.StateHash(), c14RefHash(m); !bytes.Equal(h, want) {
		return fmt.Sprintf("StateHash %x, canonical hash of the same contents %x (contents: %s)", h, want, m.fingerprint())
	}
	return ""
}

func c14CheckLive(ws state.WorldState, m c14Model, viaState bool, order []int) string {
	for _, i := range order {
		var msg string
		if viaState {
			msg = c14CheckData(ws.GetAccountState(c14ID(i)), i, m[i], false)
		} else {
			msg = c14CheckData(ws.GetAccountSnapshot(c14ID(i)), i, m[i], true)
		}
		if msg != "" {
			return msg
		}
	}
	return ""
}

type c14Snap struct {
	wss   state.WorldSnapshot
	model c14Model
	hash  []byte
	at    int
	how   string
}

var c14OpKinds = []string{"balance", "set", "snapshot", "delete", "reset", "set", "clearcache", "balance", "reload",
	"contract", "zero", "read", "snapshot", "wipe", "set", "reset", "deploy", "accept", "reject", "flags", "contract"}

var c14Balances = []string{"0", "1", "ff", "100", "de0b6b3a7640000", "ffffffffffffffffffffffffffffffffffffffffffffffffffffffffffffffff"}

func c14Case(rt *rapid.T, rec *ev.Rec) {
	dbase := db.NewMapDB()
	// one history in 25 runs with the trie node caches a chain attaches to its database (world
	// node cache + per-account store caches), enabled on every world state instance (allocating
	// the caches costs ~40 ms per history, hence the low rate)
	nodeCache := rapid.IntRange(0, 24).Draw(rt, "nodeCache") == 24
	if nodeCache {
		dbase = cache.AttachManager(dbase, "", 5, 0, 0)
	}
	newState := func(ws state.WorldState) state.WorldState {
		if nodeCache {
			ws.EnableNodeCache()
			ws.EnableAccountNodeCache(c14ID(0))
		}
		return ws
	}
	ws := newState(state.NewWorldState(dbase, nil, nil, nil, nil))
	live := c14Model{}
	var snaps []*c14Snap
	hist := []string{fmt.Sprintf("nodeCache=%v", nodeCache)}
	labels := map[string]bool{}
	nops := rapid.IntRange(3, 40).Draw(rt, "nops")
	mutatedSinceSnapshot := false // a retained snapshot differs from the live model
	isolationExercised := false   // ... and a Reset / ClearCache / reload / new snapshot happened afterwards
	everNonEmpty := map[int]bool{}

	fail := func(step int, f string, a ...interface{}) {
		desc := strings.Join(hist, "; ")
		rec.Case(hsShort(desc, 1000), false, "failed")
		rt.Fatalf("C14 violated at step %d: %s\nhistory: %s", step, fmt.Sprintf(f, a...), desc)
	}
	// AccountState handles are kept by their users (a transaction handler fetches the sender's account once and goes
	// on using it across the frame snapshots and roll-backs of the call context): half of the mutations go through
	// the handle obtained when the account was first touched. ClearCache and a reload give up all handles (the
	// world state drops its table of handed-out accounts there); GetSnapshot and Reset do not.
	handles := map[int]state.AccountState{}
	oldHandleUses := 0
	acc := func(acct int) state.AccountState {
		if h, ok := handles[acct]; ok && rapid.Bool().Draw(rt, "viaKeptHandle") {
			oldHandleUses++
			return h
		}
		h := ws.GetAccountState(c14ID(acct))
		if _, ok := handles[acct]; !ok {
			handles[acct] = h
		}
		return h
	}
	checkAll := func(step int) {
		for k, s := range snaps {
			ro := rapid.IntRange(0, 3).Draw(rt, "viaReadOnly") == 0
			if msg := c14CheckSnapshot(s.wss, s.model, ro); msg != "" {
				fail(step, "snapshot #%d (taken at step %d by %s) changed or is not canonical: %s", k, s.at, s.how, msg)
			}
			if h := s.wss.StateHash(); !bytes.Equal(h, s.hash) {
				fail(step, "snapshot #%d (taken at step %d) reported hash %x when taken, now %x", k, s.at, s.hash, h)
			}
		}
		// what a kept handle shows is the live account (after a Reset: the account of the snapshot reset to)
		for i := 0; i < c14Accounts; i++ {
			if h, ok := handles[i]; ok {
				want := live[i] // (no live.get here: looking must not add an entry to the model)
				if want == nil {
					want = &c14Acct{balance: new(big.Int), store: map[string][]byte{}}
				}
				if msg := c14CheckData(h, i, want, false); msg != "" {
					fail(step, "the AccountState handle of account %d obtained earlier differs from the model: %s", i, msg)
				}
			}
		}
		mode := rapid.IntRange(0, 2).Draw(rt, "liveCheck")
		if mode < 2 {
			order := rapid.Permutation(hsIota(c14Accounts)).Draw(rt, "liveOrder")
			if msg := c14CheckLive(ws, live, mode == 1, order); msg != "" {
				fail(step, "live state differs from the model: %s", msg)
			}
		}
	}
	retain := func(step int, wss state.WorldSnapshot, how string) {
		s := &c14Snap{wss: wss, model: live.clone(), hash: append([]byte{}, wss.StateHash()...), at: step, how: how}
		snaps = append(snaps, s)
		for i := 0; i < c14Accounts; i++ {
			if everNonEmpty[i] && live[i].empty() {
				labels["snapshot-after-account-emptied"] = true
			}
		}
	}

	for step := 0; step < nops; step++ {
		kind := rapid.SampledFrom(c14OpKinds).Draw(rt, "op")
		acct := rapid.IntRange(0, c14Accounts-1).Draw(rt, "acct")
		id := c14ID(acct)
		switch kind {
		case "balance", "zero":
			v := hsBig(rapid.SampledFrom(c14Balances).Draw(rt, "balance"))
			if kind == "zero" {
				v = new(big.Int)
			}
			acc(acct).SetBalance(new(big.Int).Set(v))
			live.get(acct).balance = v
			hist = append(hist, fmt.Sprintf("bal(%d,%s)", acct, v.Text(16)))
		case "set":
			k := rapid.SampledFrom(c14Keys).Draw(rt, "key")
			n := rapid.SampledFrom([]int{1, 2, 31, 32, 33, 70}).Draw(rt, "vlen")
			v := bytes.Repeat([]byte{rapid.Byte().Draw(rt, "vbyte") | 1}, n)
			// (the "old value" results of SetValue / DeleteValue are not part of the statement: not decided)
			hist = append(hist, fmt.Sprintf("set(%d,%x,%x)", acct, k, hsShortBytes(v)))
			if _, err := acc(acct).SetValue(k, v); err != nil {
				fail(step, "SetValue(%d,%x) error %v", acct, k, err)
			}
			live.get(acct).store[string(k)] = v
		case "delete":
			k := rapid.SampledFrom(c14Keys).Draw(rt, "key")
			hist = append(hist, fmt.Sprintf("del(%d,%x)", acct, k))
			if _, err := acc(acct).DeleteValue(k); err != nil {
				fail(step, "DeleteValue(%d,%x) error %v", acct, k, err)
			}
			delete(live.get(acct).store, string(k))
		case "wipe":
			// make the account logically empty again (unless it is a contract)
			as := acc(acct)
			a := live.get(acct)
			for k := range a.store {
				if _, err := as.DeleteValue([]byte(k)); err != nil {
					fail(step, "DeleteValue error %v", err)
				}
			}
			as.SetBalance(new(big.Int))
			a.store = map[string][]byte{}
			a.balance = new(big.Int)
			hist = append(hist, fmt.Sprintf("wipe(%d)", acct))
			if everNonEmpty[acct] && !a.contract {
				labels["account-emptied-again"] = true
			}
		case "contract":
			owner := rapid.IntRange(0, c14Accounts-1).Draw(rt, "owner")
			ok := ws.GetAccountState(id).InitContractAccount(c14Owner(owner))
			a := live.get(acct)
			hist = append(hist, fmt.Sprintf("contract(%d,owner=%d)", acct, owner))
			if ok == a.contract {
				fail(step, "InitContractAccount(%d) returned %v, model contract flag was %v", acct, ok, a.contract)
			}
			if ok {
				a.contract, a.owner = true, owner
			}
		case "deploy", "accept", "reject", "flags":
			// contract life cycle; the verdict of each call (error or not) is taken from goloop, the resulting
			// state must then be what that call is defined to leave behind - in the live state, in every later
			// snapshot, after Reset and in the canonical hash
			var cands []int
			for i := 0; i < c14Accounts; i++ {
				if live[i] != nil && live[i].contract {
					cands = append(cands, i)
				}
			}
			if len(cands) == 0 {
				hist = append(hist, "noop")
				break
			}
			acct = rapid.SampledFrom(cands).Draw(rt, "contractAcct")
			a := live.get(acct)
			as := ws.GetAccountState(c14ID(acct))
			labels["contract-lifecycle"] = true
			switch kind {
			case "deploy":
				code, tx := rapid.IntRange(0, 2).Draw(rt, "code"), rapid.IntRange(0, 3).Draw(rt, "deployTx")
				_, err := as.DeployContract(c14Code(code), state.JavaEE, "application/java", []byte{byte(code)}, c14TxHash(tx))
				hist = append(hist, fmt.Sprintf("deploy(%d,code%d,tx%d)=%v", acct, code, tx, err != nil))
				if err == nil {
					a.next = &c14Contract{code: code, tx: tx, status: "pending"}
				}
			case "accept":
				tx, audit := rapid.IntRange(0, 3).Draw(rt, "acceptTx"), rapid.IntRange(0, 2).Draw(rt, "audit")
				if a.next != nil && rapid.IntRange(0, 2).Draw(rt, "matching") != 0 {
					tx = a.next.tx
				}
				err := as.AcceptContract(c14TxHash(tx), c14Audit(audit))
				hist = append(hist, fmt.Sprintf("accept(%d,tx%d,audit%d)=%v", acct, tx, audit, err != nil))
				if err == nil {
					if a.next == nil {
						fail(step, "AcceptContract(%d) succeeded without a next contract", acct)
					}
					a.cur = &c14Contract{code: a.next.code, tx: a.next.tx, audit: audit, status: "active"}
					a.next = nil
					labels["contract-accepted"] = true
				}
			case "reject":
				tx, audit := rapid.IntRange(0, 3).Draw(rt, "rejectTx"), rapid.IntRange(1, 2).Draw(rt, "audit")
				if a.next != nil && rapid.IntRange(0, 2).Draw(rt, "matching") != 0 {
					tx = a.next.tx
				}
				err := as.RejectContract(c14TxHash(tx), c14Audit(audit))
				hist = append(hist, fmt.Sprintf("reject(%d,tx%d,audit%d)=%v", acct, tx, audit, err != nil))
				if err == nil {
					if a.next == nil {
						fail(step, "RejectContract(%d) succeeded without a next contract", acct)
					}
					a.next.status, a.next.audit = "rejected", audit
				}
			default:
				d, b := rapid.Bool().Draw(rt, "disable"), rapid.Bool().Draw(rt, "block")
				as.SetDisable(d)
				as.SetBlock(b)
				a.disabled, a.blocked = d, b
				hist = append(hist, fmt.Sprintf("flags(%d,disabled=%v,blocked=%v)", acct, d, b))
			}
		case "read":
			// pure access: changes what is cached / which accounts are loaded
			if rapid.Bool().Draw(rt, "readState") {
				ws.GetAccountState(id).GetBalance()
			} else {
				ws.GetAccountSnapshot(id)
			}
			hist = append(hist, fmt.Sprintf("read(%d)", acct))
		case "snapshot":
			retain(step, ws.GetSnapshot(), "GetSnapshot")
			hist = append(hist, fmt.Sprintf("snapshot#%d", len(snaps)-1))
			if mutatedSinceSnapshot {
				isolationExercised = true
			}
		case "reset":
			if len(snaps) == 0 {
				hist = append(hist, "noop")
				break
			}
			k := rapid.IntRange(0, len(snaps)-1).Draw(rt, "resetTo")
			if err := ws.Reset(snaps[k].wss); err != nil {
				fail(step, "Reset(snapshot #%d) error %v", k, err)
			}
			if live.fingerprint() != snaps[k].model.fingerprint() {
				labels["reset-undoes-changes"] = true
				isolationExercised = true
			}
			live = snaps[k].model.clone()
			hist = append(hist, fmt.Sprintf("reset(#%d)", k))
			labels["has-reset"] = true
		case "clearcache":
			ws.ClearCache()
			handles = map[int]state.AccountState{}
			hist = append(hist, "clearcache")
			labels["has-clearcache"] = true
			if mutatedSinceSnapshot {
				isolationExercised = true
			}
		case "reload":
			s := ws.GetSnapshot()
			if err := s.Flush(); err != nil {
				fail(step, "Flush error %v", err)
			}
			hash := append([]byte{}, s.StateHash()...)
			how := "state-from-hash"
			if rapid.Bool().Draw(rt, "reloadViaSnapshot") {
				how = "snapshot-from-hash"
				wss := state.NewWorldSnapshot(dbase, hash, nil, nil, nil)
				retain(step, wss, "NewWorldSnapshot(hash)")
				nws, err := state.WorldStateFromSnapshot(wss)
				if err != nil {
					fail(step, "WorldStateFromSnapshot error %v", err)
				}
				ws = newState(nws)
			} else {
				ws = newState(state.NewWorldState(dbase, hash, nil, nil, nil))
			}
			handles = map[int]state.AccountState{}
			hist = append(hist, "flush+reload("+how+")")
			labels["has-reload"] = true
			if mutatedSinceSnapshot {
				isolationExercised = true
			}
		}
		for i, a := range live {
			if !a.empty() {
				everNonEmpty[i] = true
			}
		}
		mutatedSinceSnapshot = false
		for _, s := range snaps {
			if s.model.fingerprint() != live.fingerprint() {
				mutatedSinceSnapshot = true
			}
		}
		checkAll(step)
	}
	// the final live state, seen as a snapshot, must be canonical too
	final := ws.GetSnapshot()
	hist = append(hist, fmt.Sprintf("final-snapshot nodeCache=%v", nodeCache))
	if msg := c14CheckSnapshot(final, live, false); msg != "" {
		fail(nops, "final snapshot: %s", msg)
	}
	for k, s := range snaps {
		if msg := c14CheckSnapshot(s.wss, s.model, false); msg != "" {
			fail(nops, "snapshot #%d (taken at step %d by %s) changed: %s", k, s.at, s.how, msg)
		}
	}
	ls := []string{fmt.Sprintf("snapshots-%s", c14Bucket(len(snaps)))}
	if nodeCache {
		ls = append(ls, "node-cache-enabled")
	}
	if oldHandleUses > 0 {
		ls = append(ls, "mutation-through-kept-handle")
	}
	for l := range labels {
		ls = append(ls, l)
	}
	sort.Strings(ls)
	rec.Case(hsShort(strings.Join(hist, "; "), 1000), isolationExercised && len(snaps) > 0, ls...)
}

func c14Bucket(n int) string {
	switch {
	case n == 0:
		return "0"
	case n <= 2:
		return "1-2"
	case n <= 5:
		return "3-5"
	}
	return "6+"
}

func hsShortBytes(b []byte) []byte {
	if len(b) > 4 {
		return append(append([]byte{}, b[:2]...), byte(len(b)))
	}
	return b
}

func TestC14(t *testing.T) {
	rec := ev.New("C14", "drawn histories (3..40 ops) over 6 accounts × 7 storage keys on one MapDB: set balance / set, delete storage value / init contract / contract life cycle (deploy, accept, reject with matching or other deploy tx, disable/block flags) / wipe account / pure reads / "+
		"GetSnapshot (retained with a model copy) / Reset(retained snapshot) / ClearCache / Flush + reload from hash (NewWorldState or NewWorldSnapshot+WorldStateFromSnapshot); "+
		"after every op all retained snapshots, the live state and the canonical hash are checked; "+
		"non-trivial = at least one retained snapshot differed from the live contents and afterwards a Reset that undoes changes, a ClearCache, a reload or another snapshot happened; distinct by history")
	defer rec.Flush(t)
	rec.Assume("canonical hash = hash of a fresh world state on a fresh MapDB filled once with the model contents in sorted order (metamorphic reference; account RLP/trie encoding itself is not re-implemented)")
	log.GlobalLogger().SetLevel(log.WarnLevel) // hide the debug line of InitContractAccount on a contract
	t.Run("histories", func(t *testing.T) {
		ev.Check(t, 8000, 60000, func(rt *rapid.T) { c14Case(rt, rec) })
	})
}
