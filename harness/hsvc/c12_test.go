package hsvc

import (
	"bytes"
	"encoding/json"
	"fmt"
	"math/big"
	"reflect"
	"strings"
	"testing"

	"github.com/icon-project/goloop/module"
	"github.com/icon-project/goloop/service/transaction"
	"pgregory.net/rapid"

	"verifharness/internal/ev"
)

// C12: for any well-formed transaction submitted as JSON, id, sender, recipient, value, step
// limit, timestamp, nonce, data and signature validity are unchanged after converting it to the
// stored binary form and parsing it back, any number of times. Changing any signed field
// changes the id, except for the value equivalences defined by the ICON serialization format.
//
// Oracles:
//  (1) id == SHA3-256 of the independent ICON v3 serialization (hsTxPreimage) of the submitted
//      object, for canonical and non-canonical spellings, key orders, whitespace and JSON
//      escape variants alike;
//  (2) JSON -> Bytes() -> NewTransaction -> Bytes() -> ... (3 rounds): every observable field
//      equals the generator's intended value and Verify() passes each time;
//  (3) a drawn change of one signed member (semantic value, presence, or a structural edit
//      inside data) changes the id unless the independent serialization of both objects is the
//      same string (format-defined equivalence, e.g. [] and [""]).
//
// Generator restrictions (constructs the format description does not define, so no oracle can
// be derived independently): no JSON numbers / booleans (goloop truncates numbers, rejects
// booleans; the SDKs differ), no member names containing \ . { } [ ] (goloop escapes them, the
// Java SDK does not), member names within the BMP.
//
// Known finding C12-list-leading-empty-element (see c12KnownKey): lists of ≥ 2 elements that
// start with "" are generated and fully decided; a disagreement that is exactly that root cause
// is routed through rec.Known, everything else is a violation.

type c12Obs struct {
	id                    []byte
	from, to              string
	nonce                 *big.Int
	timestamp             int64
	version               int
	value, stepLimit, nid *big.Int
	hasDataType, hasData  bool
	dataType              string
	data                  interface{}
	verifyErr             error
	raw                   bool
}

func c12HexField(m map[string]interface{}, k string) (*big.Int, error) {
	x, ok := m[k]
	if !ok {
		return nil, nil
	}
	s, ok := x.(string)
	if !ok {
		return nil, fmt.Errorf("member %s is %T", k, x)
	}
	v, ok := hsParseHexInt(s)
	if !ok {
		return nil, fmt.Errorf("member %s = %q is not a hex integer", k, s)
	}
	return v, nil
}

func c12Observe(t transaction.Transaction) (*c12Obs, error) {
	o := &c12Obs{id: t.ID(), from: t.From().String(), to: t.To().String(), timestamp: t.Timestamp(), version: t.Version()}
	if n := t.Nonce(); n != nil {
		o.nonce = new(big.Int).Set(n)
	}
	jso, err := t.ToJSON(module.JSONVersionLast)
	if err != nil {
		return nil, fmt.Errorf("ToJSON: %v", err)
	}
	bs, err := json.Marshal(jso)
	if err != nil {
		return nil, fmt.Errorf("marshal of ToJSON: %v", err)
	}
	var m map[string]interface{}
	if err := json.Unmarshal(bs, &m); err != nil {
		return nil, fmt.Errorf("ToJSON output is not JSON: %v", err)
	}
	if o.value, err = c12HexField(m, "value"); err != nil {
		return nil, err
	}
	if o.stepLimit, err = c12HexField(m, "stepLimit"); err != nil {
		return nil, err
	}
	if o.nid, err = c12HexField(m, "nid"); err != nil {
		return nil, err
	}
	if x, ok := m["dataType"]; ok {
		o.hasDataType = true
		o.dataType, _ = x.(string)
	}
	o.data, o.hasData = m["data"]
	o.verifyErr = t.Verify()
	b := t.Bytes()
	o.raw = len(b) > 0 && b[0] == '{'
	return o, nil
}

func c12BigEq(a, b *big.Int) bool {
	if a == nil || b == nil {
		return a == nil && b == nil
	}
	return a.Cmp(b) == 0
}

// c12Compare returns "" when the observation equals the generator's intention.
func c12Compare(o *c12Obs, tx *hsTx, wantID []byte) string {
	switch {
	case !bytes.Equal(o.id, wantID):
		return fmt.Sprintf("id %x, expected %x (preimage %q)", o.id, wantID, hsShort(hsTxPreimage(tx.obj), 600))
	case o.version != 3:
		return fmt.Sprintf("version %d", o.version)
	case o.from != tx.from:
		return fmt.Sprintf("sender %s, submitted %s", o.from, tx.from)
	case o.to != tx.to:
		return fmt.Sprintf("recipient %s, submitted %s", o.to, tx.to)
	case !c12BigEq(o.value, tx.value):
		return fmt.Sprintf("value %v, submitted %v", o.value, tx.value)
	case !c12BigEq(o.stepLimit, tx.stepLimit):
		return fmt.Sprintf("stepLimit %v, submitted %v", o.stepLimit, tx.stepLimit)
	case o.timestamp != tx.timestamp:
		return fmt.Sprintf("timestamp %d, submitted %d", o.timestamp, tx.timestamp)
	case !c12BigEq(o.nonce, tx.nonce):
		return fmt.Sprintf("nonce %v, submitted %v", o.nonce, tx.nonce)
	case (o.nid == nil) != (tx.nid == nil) || (o.nid != nil && o.nid.Cmp(big.NewInt(*tx.nid)) != 0):
		return fmt.Sprintf("nid %v, submitted %v", o.nid, tx.nid)
	case o.hasDataType != (tx.dataType != nil) || (tx.dataType != nil && o.dataType != *tx.dataType):
		return fmt.Sprintf("dataType %v %q, submitted %v", o.hasDataType, o.dataType, tx.dataType)
	case o.hasData != (tx.data != nil):
		return fmt.Sprintf("data present=%v, submitted present=%v", o.hasData, tx.data != nil)
	case tx.data != nil && !reflect.DeepEqual(o.data, tx.data.toGo()):
		return fmt.Sprintf("data %#v, submitted %s", o.data, tx.data.JSON(nil))
	case o.verifyErr != nil:
		return fmt.Sprintf("Verify() fails: %v", o.verifyErr)
	}
	return ""
}

// ---- oracle (3): single-member changes

// c12MutateVal applies one structural or string edit somewhere inside v.
func c12MutateVal(rt *rapid.T, v hsVal, depth int) hsVal {
	v = v.clone()
	var children int
	if v.k == hsList {
		children = len(v.l)
	} else if v.k == hsDict {
		children = len(v.vals)
	}
	if children > 0 && depth < 4 && rapid.IntRange(0, 2).Draw(rt, "descend") > 0 {
		i := rapid.IntRange(0, children-1).Draw(rt, "child")
		if v.k == hsList {
			v.l[i] = c12MutateVal(rt, v.l[i], depth+1)
		} else {
			v.vals[i] = c12MutateVal(rt, v.vals[i], depth+1)
		}
		return v
	}
	switch v.k {
	case hsStr:
		switch rapid.IntRange(0, 6).Draw(rt, "strEdit") {
		case 0:
			v.s += string(rapid.SampledFrom(hsAlphabet).Draw(rt, "appendRune"))
		case 1:
			v.s = string(rapid.SampledFrom(hsAlphabet).Draw(rt, "prependRune")) + v.s
		case 2:
			v.s = `\` + v.s // a literal backslash in front: "\." must not collide with an escaped "."
		case 3:
			return hsVal{k: hsList, l: []hsVal{v}} // "a" -> ["a"]
		case 4:
			return hsVal{k: hsNull}
		case 5:
			key := v.s
			if hsEscape(key) != key {
				key = "k" // member names with special characters are outside the decided domain
			}
			return hsVal{k: hsDict, keys: []string{key}, vals: []hsVal{hsS("")}}
		default:
			v.s = hsDrawString(rt, "replacement")
		}
	case hsNull:
		return hsS(rapid.SampledFrom([]string{`\0`, "", "null", "0"}).Draw(rt, "nullTo"))
	case hsList:
		switch k := rapid.IntRange(0, 4).Draw(rt, "listEdit"); {
		case k == 0 || len(v.l) == 0:
			v.l = append(v.l, hsDrawVal(rt, "appended", 1))
		case k == 1:
			v.l = v.l[:len(v.l)-1]
		case k == 2:
			i := rapid.IntRange(0, len(v.l)-1).Draw(rt, "dup")
			v.l = append(v.l[:i+1:i+1], v.l[i:]...) // duplicate element i
		case k == 3 && len(v.l) >= 2:
			i := rapid.IntRange(0, len(v.l)-2).Draw(rt, "swap")
			v.l[i], v.l[i+1] = v.l[i+1], v.l[i]
		default:
			return hsVal{k: hsDict} // [] / [..] -> {}
		}
	case hsDict:
		switch k := rapid.IntRange(0, 3).Draw(rt, "dictEdit"); {
		case k == 0 || len(v.keys) == 0:
			key := hsDrawKeyName(rt, "newKey")
			if _, dup := v.get(key); dup {
				key += "_"
			}
			if _, dup := v.get(key); dup {
				return hsVal{k: hsList}
			}
			v.keys, v.vals = append(v.keys, key), append(v.vals, hsDrawVal(rt, "newVal", 1))
		case k == 1:
			i := rapid.IntRange(0, len(v.keys)-1).Draw(rt, "delKey")
			v.keys = append(v.keys[:i:i], v.keys[i+1:]...)
			v.vals = append(v.vals[:i:i], v.vals[i+1:]...)
		case k == 2:
			i := rapid.IntRange(0, len(v.keys)-1).Draw(rt, "renKey")
			nk := v.keys[i] + "a"
			if _, dup := v.get(nk); !dup {
				v.keys[i] = nk
			}
		default:
			return hsVal{k: hsList} // {..} -> []
		}
	}
	return v
}

var c12ChangeKinds = []string{"data", "data", "data", "dataType", "value", "stepLimit", "timestamp", "nid", "nonce", "to", "from", "dataType"}

// c12Change returns a copy of the top-level object with one signed member changed.
func c12Change(rt *rapid.T, tx *hsTx) (hsVal, string) {
	obj := tx.obj.clone()
	set := func(k string, v hsVal) {
		for i := range obj.keys {
			if obj.keys[i] == k {
				obj.vals[i] = v
				return
			}
		}
		obj.keys, obj.vals = append(obj.keys, k), append(obj.vals, v)
	}
	del := func(k string) {
		for i := range obj.keys {
			if obj.keys[i] == k {
				obj.keys = append(obj.keys[:i:i], obj.keys[i+1:]...)
				obj.vals = append(obj.vals[:i:i], obj.vals[i+1:]...)
				return
			}
		}
	}
	bigChange := func(k string, cur *big.Int, optional bool) {
		switch {
		case cur == nil:
			set(k, hsS(hsHexInt(hsDrawBig(rt, k+".new"))))
		case optional && rapid.IntRange(0, 2).Draw(rt, k+".drop") == 0:
			del(k)
		default:
			d := big.NewInt(int64(rapid.SampledFrom([]int{1, 16, 255, 256, -1}).Draw(rt, k+".delta")))
			n := new(big.Int).Add(cur, d)
			if n.Sign() < 0 {
				n = big.NewInt(1)
			}
			set(k, hsS(hsHexInt(n)))
		}
	}
	kind := rapid.SampledFrom(c12ChangeKinds).Draw(rt, "change")
	if kind == "data" && tx.data == nil {
		kind = "stepLimit"
	}
	switch kind {
	case "data":
		set("data", c12MutateVal(rt, *tx.data, 0))
	case "value":
		bigChange("value", tx.value, true)
	case "stepLimit":
		bigChange("stepLimit", tx.stepLimit, false)
	case "timestamp":
		ts := tx.timestamp - 1
		if ts < 0 {
			ts = 1
		}
		set("timestamp", hsS(hsHexInt(big.NewInt(ts))))
	case "nid":
		if tx.nid == nil {
			bigChange("nid", nil, true)
		} else {
			bigChange("nid", big.NewInt(*tx.nid&0xffffffff), true)
		}
	case "nonce":
		bigChange("nonce", tx.nonce, true)
	case "to", "from":
		cur := tx.to
		if kind == "from" {
			cur = tx.from
		}
		if rapid.IntRange(0, 3).Draw(rt, "prefix") == 0 {
			if cur[:2] == "hx" {
				cur = "cx" + cur[2:]
			} else {
				cur = "hx" + cur[2:]
			}
		} else {
			i := 2 + rapid.IntRange(0, 39).Draw(rt, "digit")
			b := []byte(cur)
			if b[i] == '0' {
				b[i] = '1'
			} else {
				b[i] = '0'
			}
			cur = string(b)
		}
		set(kind, hsS(cur))
	case "dataType":
		if tx.dataType == nil {
			set("dataType", hsS(rapid.SampledFrom([]string{"xyz", "", "message"}).Draw(rt, "newDataType")))
		} else if rapid.Bool().Draw(rt, "dropDataType") {
			del("dataType")
		} else {
			set("dataType", hsS(*tx.dataType+rapid.SampledFrom([]string{"2", ".", " "}).Draw(rt, "dtSuffix")))
		}
	}
	return obj, kind
}

// c12KnownKey: known finding (genuine, not repaired because the repair changes consensus
// hashing): goloop's serializeList writes the "." separator only while the list buffer is
// non-empty, so ["","a"] is hashed like ["a"] ("[a]" instead of the format's "[.a]"): two
// transactions that differ in a signed field share an id, and the id differs from the ICON
// format. A disagreement is attributed to it only when it disappears after switching the
// reference serializer to exactly that rule (hsSerializeMode quirk=true).
const c12KnownKey = "C12-list-leading-empty-element"

func c12Case(rt *rapid.T, rec *ev.Rec) {
	tx := hsGenTx(rt, hsTxOpt{variants: true, maxDepth: 3, leadingEmpty: true})
	desc := tx.desc()
	labels := tx.labels()
	fail := func(f string, a ...interface{}) {
		rec.Case(desc, false, append(labels, "failed")...)
		rt.Fatalf("C12 violated: "+f, a...)
	}
	knownHit := false
	known := func() bool { // at most one Known() count per case
		if !knownHit {
			knownHit = rec.Known(c12KnownKey)
		}
		return knownHit
	}
	sig := tx.sign()
	js := tx.json(sig)
	t0, err := transaction.NewTransactionFromJSON([]byte(js))
	if err != nil {
		fail("well-formed transaction is not accepted as JSON: %v\njson=%s", err, js)
	}
	wantID := tx.id()
	if !bytes.Equal(t0.ID(), wantID) && bytes.Equal(t0.ID(), hsTxIDQuirk(tx.obj)) {
		// exactly the known root cause (list separator dropped after leading empty elements)
		if !known() {
			fail("id %x, expected %x: a list starting with an empty element is serialized without its separators (goloop preimage %q, ICON format %q)\njson=%s",
				t0.ID(), wantID, hsShort(hsTxPreimageQuirk(tx.obj), 500), hsShort(hsTxPreimage(tx.obj), 500), js)
		}
		labels = append(labels, "known-id-differs-from-format")
		// keep searching: the remaining oracles run against the id goloop assigns
		wantID = append([]byte{}, t0.ID()...)
		sig = hsSignRSV(tx.key, wantID)
		js = tx.json(sig)
		if t0, err = transaction.NewTransactionFromJSON([]byte(js)); err != nil {
			fail("well-formed transaction is not accepted as JSON: %v\njson=%s", err, js)
		}
	}
	// (1) + (2)
	cur := t0
	var raw bool
	for round := 0; round <= 3; round++ {
		o, err := c12Observe(cur)
		if err != nil {
			fail("round %d: %v\njson=%s", round, err, js)
		}
		if round == 0 {
			raw = o.raw
		}
		if m := c12Compare(o, tx, wantID); m != "" {
			fail("after %d conversion(s) to the stored form and back: %s\nsubmitted json=%s\nstored form=%s", round, m, js, c12Stored(cur.Bytes()))
		}
		bs := cur.Bytes()
		if len(bs) == 0 {
			fail("round %d: Bytes() is empty, json=%s", round, js)
		}
		next, err := transaction.NewTransaction(append([]byte{}, bs...))
		if err != nil {
			fail("round %d: stored form is not parsed back: %v\nsubmitted json=%s\nstored form=%s", round, err, js, c12Stored(bs))
		}
		cur = next
	}
	if raw {
		labels = append(labels, "stored-raw-json")
	} else {
		labels = append(labels, "stored-binary")
	}
	if raw != tx.noncanon {
		// informational: generator's prediction of the raw fallback
		labels = append(labels, "raw-prediction-mismatch")
	}
	nested := tx.data != nil && tx.data.depth() >= 2
	nontrivial := raw || nested

	// (3)
	obj2, kind := c12Change(rt, tx)
	labels = append(labels, "change-"+kind)
	p1, p2 := hsTxPreimage(tx.obj), hsTxPreimage(obj2)
	tx2 := *tx
	tx2.obj = obj2
	js2 := tx2.json(sig)
	desc += " change=" + kind + ":" + hsShort(obj2.JSON(nil), 300)
	t2, err := transaction.NewTransactionFromJSON([]byte(js2))
	switch {
	case p1 == p2:
		labels = append(labels, "change-format-equivalent")
	case err != nil:
		// the changed object need not be well-formed for goloop (not decided)
		labels = append(labels, "change-not-parsed")
	default:
		id2, want2 := t2.ID(), hsTxID(obj2)
		switch {
		case bytes.Equal(id2, t0.ID()):
			// the id failed to change: the known finding iff the two objects collide under the quirk rule
			if hsTxPreimageQuirk(tx.obj) != hsTxPreimageQuirk(obj2) || !known() {
				fail("changing %s does not change the id %x\noriginal=%s\nchanged =%s", kind, t0.ID(), tx.obj.JSON(nil), obj2.JSON(nil))
			}
			labels = append(labels, "known-id-collision")
		case !bytes.Equal(id2, want2):
			if !bytes.Equal(id2, hsTxIDQuirk(obj2)) || !known() {
				fail("id %x of the changed transaction, expected %x (preimage %q)\njson=%s", id2, want2, hsShort(p2, 600), js2)
			}
			labels = append(labels, "known-changed-id-differs-from-format", "change-id-differs")
		default:
			labels = append(labels, "change-id-differs")
		}
	}
	rec.Case(desc, nontrivial, labels...)
}

// c12DirectedTx builds a fixed transaction around the given data (deterministic, no draws).
func c12DirectedTx(dataType *string, data hsVal) *hsTx {
	tx := &hsTx{key: hsKeyFromScalar(big.NewInt(0x1234567)), to: "cx00000000000000000000000000000000000000a1",
		stepLimit: big.NewInt(0x186a0), timestamp: 0x5d56f3231f818, dataType: dataType, data: &data}
	nid := int64(1)
	tx.nid = &nid
	tx.from = tx.key.addr
	tx.obj.k = hsDict
	tx.set("version", hsS("0x3"))
	tx.set("from", hsS(tx.from))
	tx.set("to", hsS(tx.to))
	tx.set("stepLimit", hsS(hsHexInt(tx.stepLimit)))
	tx.set("timestamp", hsS(hsHexInt(big.NewInt(tx.timestamp))))
	tx.set("nid", hsS("0x1"))
	if dataType != nil {
		tx.set("dataType", hsS(*dataType))
	}
	tx.set("data", data)
	tx.sigPos = len(tx.obj.keys)
	return tx
}

func c12List(v ...hsVal) hsVal { return hsVal{k: hsList, l: v} }

func c12Dict(kv ...interface{}) hsVal {
	d := hsVal{k: hsDict}
	for i := 0; i+1 < len(kv); i += 2 {
		d.keys, d.vals = append(d.keys, kv[i].(string)), append(d.vals, kv[i+1].(hsVal))
	}
	return d
}

// c12KnownFinding runs the minimal pairs of the known finding on every run: while the defect
// exists the KNOWN-FINDING line is printed (or, if the finding is not listed, the violation is
// reported); once goloop is repaired nothing is printed and nothing fails.
func c12KnownFinding(t *testing.T, rec *ev.Rec) {
	call := "call"
	pairs := []struct {
		name     string
		dataType *string
		a, b     hsVal
	}{
		{"flat", nil, c12List(hsS(""), hsS("a")), c12List(hsS("a"))},
		{"nested", &call,
			c12Dict("method", hsS("m"), "params", c12Dict("l", c12List(hsS(""), hsS(""), c12Dict("k", c12List(hsS(""), hsS("b")))))),
			c12Dict("method", hsS("m"), "params", c12Dict("l", c12List(c12Dict("k", c12List(hsS("b"))))))},
	}
	for _, p := range pairs {
		ta, tb := c12DirectedTx(p.dataType, p.a), c12DirectedTx(p.dataType, p.b)
		desc := fmt.Sprintf("directed %s: %s vs %s", p.name, ta.obj.JSON(nil), tb.data.JSON(nil))
		ga, errA := transaction.NewTransactionFromJSON([]byte(ta.json(ta.sign())))
		gb, errB := transaction.NewTransactionFromJSON([]byte(tb.json(tb.sign())))
		nontrivial := ta.data.depth() >= 2
		if errA != nil || errB != nil {
			rec.Case(desc, nontrivial, "directed-knownfinding", "failed")
			t.Fatalf("C12 violated: well-formed transaction is not accepted as JSON: %v %v (%s)", errA, errB, desc)
		}
		ida, idb := ga.ID(), gb.ID()
		switch {
		case bytes.Equal(ida, ta.id()) && bytes.Equal(idb, tb.id()) && !bytes.Equal(ida, idb):
			// repaired: ids follow the format and differ
			rec.Case(desc, nontrivial, "directed-knownfinding", "directed-repaired")
		case bytes.Equal(ida, hsTxIDQuirk(ta.obj)) && bytes.Equal(idb, tb.id()) && rec.Known(c12KnownKey):
			rec.Case(desc, nontrivial, "directed-knownfinding", "known-id-collision")
		default:
			rec.Case(desc, nontrivial, "directed-knownfinding", "failed")
			t.Fatalf("C12 violated: data %s and data %s are different signed contents but get ids %x and %x (ICON format: %x and %x; preimages %q vs %q)",
				ta.data.JSON(nil), tb.data.JSON(nil), ida, idb, ta.id(), tb.id(), hsTxPreimage(ta.obj), hsTxPreimage(tb.obj))
		}
	}
}

func c12Stored(b []byte) string {
	if len(b) > 0 && b[0] == '{' {
		return hsShort(string(b), 800)
	}
	return fmt.Sprintf("%x", b)
}

func TestC12(t *testing.T) {
	rec := ev.New("C12", "generated well-formed v3 transactions (drawn key, from/to, optional value/nid/nonce/dataType/data, nested dict/list/string/null data incl. \\ . { } [ ] and non-ASCII, "+
		"hex ints with leading zeros / upper case, upper-case addresses, member order, whitespace and JSON escape variants), signed over the reference id, plus one drawn change of a signed member; "+
		"non-trivial = stored form is the raw JSON (struct hash differs from map hash) or data nested ≥ 2 levels; distinct by (key, object, spelling tape, change)")
	defer rec.Flush(t)
	rec.Assume("id reference written from the ICON v3 serialization description; JSON numbers/booleans and member names with special characters are outside the decided domain")
	t.Run("knownfinding", func(t *testing.T) { c12KnownFinding(t, rec) })
	t.Run("numbers", func(t *testing.T) {
		ev.Check(t, 300, 6000, func(rt *rapid.T) { c12Numbers(rt, rec) })
	})
	t.Run("roundtrip", func(t *testing.T) {
		ev.Check(t, 1500, 30000, func(rt *rapid.T) { c12Case(rt, rec) })
	})
}

// c12Numbers: goloop also accepts bare JSON number literals inside "data" (clients send them; the ICON format
// only defines strings, so there is no reference id for such a transaction). What the statement still demands is
// identity across representations, decided against goloop itself: the id the JSON form has is the id after every
// conversion to the stored form and back, the signature made over that id verifies in every form, and the basic
// fields are unchanged. Integer literals only, biased to the edges of what float64 and int64 hold exactly.
func c12Numbers(rt *rapid.T, rec *ev.Rec) {
	tx := hsGenTx(rt, hsTxOpt{variants: false, maxDepth: 1})
	dt := "call"
	tx.dataType = &dt
	tx.set("dataType", hsS(dt))
	marks := []string{"@@N0@@", "@@N1@@", "@@N2@@"}
	data := hsVal{k: hsDict, keys: []string{"method", "params"}, vals: []hsVal{hsS("m"), {k: hsDict,
		keys: []string{"a", "b", "c"},
		vals: []hsVal{hsS(marks[0]), {k: hsList, l: []hsVal{hsS(marks[1]), hsS("0x1")}}, {k: hsDict, keys: []string{"d"}, vals: []hsVal{hsS(marks[2])}}}}}}
	tx.data = &data
	tx.set("data", data)
	lits := make([]string, len(marks))
	for i := range lits {
		var v *big.Int
		switch rapid.IntRange(0, 7).Draw(rt, "numClass") {
		case 0:
			v = big.NewInt(int64(rapid.IntRange(-300, 300).Draw(rt, "small")))
		case 1:
			v = new(big.Int).Add(new(big.Int).Lsh(big.NewInt(1), 53), big.NewInt(int64(rapid.IntRange(-3, 3).Draw(rt, "d53"))))
		case 2:
			v = new(big.Int).Sub(new(big.Int).Lsh(big.NewInt(1), 63), big.NewInt(int64(rapid.IntRange(1, 2000).Draw(rt, "below63"))))
		case 3:
			v = new(big.Int).Neg(new(big.Int).Sub(new(big.Int).Lsh(big.NewInt(1), 63), big.NewInt(int64(rapid.IntRange(0, 2000).Draw(rt, "aboveMin")))))
		default:
			v = new(big.Int).SetUint64(rapid.Uint64Range(1<<53, 1<<63-1).Draw(rt, "large"))
			if rapid.Bool().Draw(rt, "neg") {
				v.Neg(v)
			}
		}
		lits[i] = v.String()
	}
	inject := func(js string) string {
		for i, m := range marks {
			js = strings.Replace(js, "\""+m+"\"", lits[i], 1)
		}
		return js
	}
	desc := fmt.Sprintf("numbers %v in data of %s", lits, tx.desc())
	exact := true
	for _, l := range lits {
		v, _ := new(big.Int).SetString(l, 10)
		if f, _ := new(big.Float).SetInt(v).Float64(); new(big.Float).SetFloat64(f).Cmp(new(big.Float).SetInt(v)) != 0 {
			exact = false
		}
	}
	labels := []string{"numbers"}
	if !exact {
		labels = append(labels, "numbers-not-exact-in-float64")
	}
	rec.Case(desc, !exact, labels...)
	unsigned := inject(tx.obj.JSON(nil))
	t0, err := transaction.NewTransactionFromJSON([]byte(unsigned))
	if err != nil {
		rec.Label("numbers-unsigned-form-rejected")
		return
	}
	id0 := append([]byte{}, t0.ID()...)
	if len(id0) != 32 {
		rec.Label("numbers-no-id")
		return
	}
	sig := hsSignRSV(tx.key, id0)
	js := inject(tx.json(sig))
	cur, err := transaction.NewTransactionFromJSON([]byte(js))
	if err != nil {
		rt.Fatalf("C12 violated: the unsigned JSON form is accepted, the same transaction with a signature member is not: %v\njson=%s", err, js)
	}
	for round := 0; round <= 3; round++ {
		if !bytes.Equal(cur.ID(), id0) {
			rt.Fatalf("C12 violated: id %x as JSON, %x after %d conversion(s) to the stored form and back\njson=%s\nstored form=%s", id0, cur.ID(), round, js, c12Stored(cur.Bytes()))
		}
		if err := cur.Verify(); err != nil {
			rt.Fatalf("C12 violated: the sender's signature over the id verifies in no form after %d conversion(s) (%v)\njson=%s\nstored form=%s", round, err, js, c12Stored(cur.Bytes()))
		}
		if cur.From().String() != tx.from || cur.To().String() != tx.to || cur.Timestamp() != tx.timestamp {
			rt.Fatalf("C12 violated: from/to/timestamp %s/%s/%d after %d conversion(s), submitted %s/%s/%d\njson=%s", cur.From(), cur.To(), cur.Timestamp(), round, tx.from, tx.to, tx.timestamp, js)
		}
		bs := cur.Bytes()
		next, err := transaction.NewTransaction(append([]byte{}, bs...))
		if err != nil {
			rt.Fatalf("C12 violated: round %d: stored form is not parsed back: %v\njson=%s\nstored form=%s", round, err, js, c12Stored(bs))
		}
		cur = next
	}
}
