package hsvc

// Shared generator of well-formed ICON v3 transactions (C12, C13): semantic field values, the
// spelled JSON object (hsVal, see hsref_test.go) and spelling variants.

import (
	"encoding/base64"
	"encoding/hex"
	"fmt"
	"math"
	"math/big"
	"sort"
	"strings"

	"github.com/icon-project/goloop/common/crypto"
	"pgregory.net/rapid"
)

// hsKey is a private key together with its reference-derived public key and address.
type hsKey struct {
	d    []byte // 32-byte big-endian scalar, 1 ≤ d < n
	priv *crypto.PrivateKey
	pub  hsPt   // reference derivation d·G
	addr string // reference derivation of the EOA address
}

func hsKeyFromScalar(d *big.Int) hsKey {
	b := hsPad32(d)
	p, err := crypto.ParsePrivateKey(b)
	if err != nil {
		panic(err)
	}
	q := hsPub(b)
	return hsKey{d: b, priv: p, pub: q, addr: hsAddrOf(q)}
}

// hsDrawKey draws a private key: mostly uniform 32-byte scalars, sometimes edge scalars.
func hsDrawKey(rt *rapid.T, label string) hsKey {
	var d *big.Int
	switch rapid.IntRange(0, 11).Draw(rt, label+".kind") {
	case 0:
		d = big.NewInt(int64(rapid.IntRange(1, 3).Draw(rt, label+".small")))
	case 1:
		d = new(big.Int).Sub(hsN, big.NewInt(int64(rapid.IntRange(1, 3).Draw(rt, label+".nminus"))))
	default:
		b := rapid.SliceOfN(rapid.Byte(), 32, 32).Draw(rt, label)
		d = new(big.Int).SetBytes(b)
		d.Mod(d, new(big.Int).Sub(hsN, big.NewInt(1)))
		d.Add(d, big.NewInt(1))
	}
	return hsKeyFromScalar(d)
}

var hsBigBounds = []string{"0", "1", "7f", "80", "ff", "100", "7fff", "8000", "ffffffff", "7fffffffffffffff",
	"8000000000000000", "ffffffffffffffff", "10000000000000000", "de0b6b3a7640000",
	"7fffffffffffffffffffffffffffffffffffffffffffffffffffffffffffffff",
	"8000000000000000000000000000000000000000000000000000000000000000",
	"ffffffffffffffffffffffffffffffffffffffffffffffffffffffffffffffff",
	"10000000000000000000000000000000000000000000000000000000000000000"}

func hsDrawBig(rt *rapid.T, label string) *big.Int {
	if rapid.IntRange(0, 2).Draw(rt, label+".b") == 0 {
		return hsBig(rapid.SampledFrom(hsBigBounds).Draw(rt, label+".bound"))
	}
	n := rapid.IntRange(0, 33).Draw(rt, label+".len")
	return new(big.Int).SetBytes(rapid.SliceOfN(rapid.Byte(), n, n).Draw(rt, label))
}

var hsInt64Bounds = []int64{0, 1, 0x7f, 0x80, 0xff, 0x100, 1 << 31, 1<<53 + 1, 1700000000000000, math.MaxInt64 - 1, math.MaxInt64}

func hsDrawInt64(rt *rapid.T, label string) int64 {
	if rapid.IntRange(0, 2).Draw(rt, label+".b") == 0 {
		return rapid.SampledFrom(hsInt64Bounds).Draw(rt, label+".bound")
	}
	return rapid.Int64Range(0, math.MaxInt64).Draw(rt, label)
}

// hsSpellInt spells v canonically or, when allowed, with leading zeros and/or upper-case hex
// digits (spellings goloop accepts and that make the struct re-serialization differ from the
// submitted text). Returns the spelling and whether it is non-canonical.
func hsSpellInt(rt *rapid.T, label string, v *big.Int, variants bool) (string, bool) {
	s := hsHexInt(v)
	if !variants {
		return s, false
	}
	switch rapid.IntRange(0, 9).Draw(rt, label+".spell") {
	case 0, 1:
		return "0x" + strings.Repeat("0", rapid.IntRange(1, 3).Draw(rt, label+".zeros")) + s[2:], true
	case 2:
		u := "0x" + strings.ToUpper(s[2:])
		return u, u != s
	case 3:
		u := "0x0" + strings.ToUpper(s[2:])
		return u, true
	}
	return s, false
}

func hsSpellAddr(rt *rapid.T, label string, a string, variants bool) (string, bool) {
	if variants && rapid.IntRange(0, 11).Draw(rt, label+".spell") == 0 {
		u := a[:2] + strings.ToUpper(a[2:])
		return u, u != a
	}
	return a, false
}

var hsAlphabet = []rune{'a', 'b', 'Z', '0', '9', 'x', ' ', '.', '\\', '{', '}', '[', ']', '"', '/', ',', ':', '_', '-',
	'é', '한', '😀', '\n', '\t', '\u007f', '<', '&'}
var hsKeyAlphabet = []rune{'a', 'b', 'c', 'Z', '_', '0', '1', ' ', '"', '/', ',', ':', '-', 'é', '한', '\n'}
var hsWholeStrings = []string{"", "0x0", "0x1", "0x1f", `\0`, "null", ".", `\`, "{}", "[]", "true", "0", "a.b",
	"hx0000000000000000000000000000000000000000", "cx0000000000000000000000000000000000000001"}

func hsDrawString(rt *rapid.T, label string) string {
	switch rapid.IntRange(0, 5).Draw(rt, label+".k") {
	case 0:
		return rapid.SampledFrom(hsWholeStrings).Draw(rt, label+".whole")
	case 1:
		n := rapid.IntRange(0, 12).Draw(rt, label+".hexlen")
		return "0x" + hex.EncodeToString(rapid.SliceOfN(rapid.Byte(), n, n).Draw(rt, label+".hex"))
	default:
		return string(rapid.SliceOfN(rapid.SampledFrom(hsAlphabet), 0, 8).Draw(rt, label))
	}
}

func hsDrawKeyName(rt *rapid.T, label string) string {
	if rapid.IntRange(0, 3).Draw(rt, label+".k") == 0 {
		return rapid.SampledFrom([]string{"", "a", "_to", "_value", "method", "params", "address", "aa", "a0"}).Draw(rt, label+".whole")
	}
	return string(rapid.SliceOfN(rapid.SampledFrom(hsKeyAlphabet), 0, 5).Draw(rt, label))
}

// hsDrawVal draws a JSON value of at most the given nesting depth.
func hsDrawVal(rt *rapid.T, label string, depth int) hsVal {
	k := rapid.IntRange(0, 19).Draw(rt, label+".kind")
	switch {
	case depth > 0 && k < 5:
		return hsDrawDict(rt, label, depth)
	case depth > 0 && k < 9:
		n := rapid.IntRange(0, 4).Draw(rt, label+".n")
		v := hsVal{k: hsList}
		for i := 0; i < n; i++ {
			v.l = append(v.l, hsDrawVal(rt, fmt.Sprintf("%s[%d]", label, i), depth-1))
		}
		return v
	case k == 9:
		return hsVal{k: hsNull}
	default:
		return hsS(hsDrawString(rt, label+".s"))
	}
}

func hsDrawDict(rt *rapid.T, label string, depth int) hsVal {
	n := rapid.IntRange(0, 4).Draw(rt, label+".n")
	v := hsVal{k: hsDict}
	seen := map[string]bool{}
	for i := 0; i < n; i++ {
		key := hsDrawKeyName(rt, fmt.Sprintf("%s.key%d", label, i))
		if seen[key] {
			continue
		}
		seen[key] = true
		v.keys = append(v.keys, key)
		v.vals = append(v.vals, hsDrawVal(rt, fmt.Sprintf("%s.%d", label, i), depth-1))
	}
	return v
}

// hsTx is a generated v3 transaction: semantic values, the spelled JSON object (without the
// signature member) and the classes of spelling used.
type hsTx struct {
	key       hsKey
	from, to  string // canonical lower-case spellings
	value     *big.Int
	stepLimit *big.Int
	timestamp int64
	nid       *int64
	nonce     *big.Int
	dataType  *string
	data      *hsVal
	obj       hsVal  // top-level members in render order, no "signature"
	tape      []byte // spelling tape for the renderer
	sigPos    int    // where the signature member is inserted when rendering
	classes   []string
	noncanon  bool // a member spelling differs from goloop's canonical re-serialization
}

type hsTxOpt struct {
	variants     bool // spelling variants (non-canonical ints/addresses, whitespace, escapes, order)
	maxDepth     int  // nesting depth of generated data
	leadingEmpty bool // keep lists of ≥ 2 elements that start with "" (see hsLeadingEmpty)
}

// hsLeadingEmpty reports whether v contains a list of two or more elements whose first element
// is the empty string. goloop hashes such lists without the leading separators (["","a"] ->
// "[a]" instead of the format's "[.a]": known finding C12-list-leading-empty-element). C12
// generates and decides them (routing exactly that root cause through rec.Known); C13 signs
// over the reference id and therefore keeps them out (fix=true replaces the leading "" by "0x0").
func hsLeadingEmpty(v *hsVal, fix bool) bool {
	found := false
	if v.k == hsList && len(v.l) >= 2 && v.l[0].k == hsStr && v.l[0].s == "" {
		found = true
		if fix {
			v.l[0] = hsS("0x0")
		}
	}
	for i := range v.l {
		if hsLeadingEmpty(&v.l[i], fix) {
			found = true
		}
	}
	for i := range v.vals {
		if hsLeadingEmpty(&v.vals[i], fix) {
			found = true
		}
	}
	return found
}

func (tx *hsTx) set(key string, v hsVal) {
	for i, k := range tx.obj.keys {
		if k == key {
			tx.obj.vals[i] = v
			return
		}
	}
	tx.obj.keys = append(tx.obj.keys, key)
	tx.obj.vals = append(tx.obj.vals, v)
}

func (tx *hsTx) del(key string) {
	for i, k := range tx.obj.keys {
		if k == key {
			tx.obj.keys = append(tx.obj.keys[:i:i], tx.obj.keys[i+1:]...)
			tx.obj.vals = append(tx.obj.vals[:i:i], tx.obj.vals[i+1:]...)
			return
		}
	}
}

func (tx *hsTx) class(c string) {
	for _, x := range tx.classes {
		if x == c {
			return
		}
	}
	tx.classes = append(tx.classes, c)
}

func hsDrawAddr(rt *rapid.T, label string) string {
	b := rapid.SliceOfN(rapid.Byte(), 20, 20).Draw(rt, label)
	if rapid.Bool().Draw(rt, label+".cx") {
		return "cx" + hex.EncodeToString(b)
	}
	return "hx" + hex.EncodeToString(b)
}

// hsGenTx draws a well-formed v3 transaction whose Verify() preconditions (value ≥ 0,
// stepLimit ≥ 0, data shape required by dataType) hold by construction.
func hsGenTx(rt *rapid.T, opt hsTxOpt) *hsTx {
	tx := &hsTx{key: hsDrawKey(rt, "key")}
	tx.obj.k = hsDict
	nc := func(b bool, c string) {
		if b {
			tx.noncanon = true
			tx.class(c)
		}
	}
	tx.set("version", hsS("0x3"))
	tx.from = tx.key.addr
	// half of the transactions spell every integer / address canonically, so that they are stored
	// in the binary (codec) form rather than as raw JSON; member order, whitespace and JSON
	// escapes still vary for them
	spellVariants := opt.variants
	if opt.variants && rapid.Bool().Draw(rt, "canonicalNumbers") {
		spellVariants = false
	}
	s, b := hsSpellAddr(rt, "from", tx.from, spellVariants)
	nc(b, "addr-uppercase")
	tx.set("from", hsS(s))
	tx.to = hsDrawAddr(rt, "to")
	s, b = hsSpellAddr(rt, "to", tx.to, spellVariants)
	nc(b, "addr-uppercase")
	tx.set("to", hsS(s))
	tx.stepLimit = hsDrawBig(rt, "stepLimit")
	s, b = hsSpellInt(rt, "stepLimit", tx.stepLimit, spellVariants)
	nc(b, "int-noncanonical")
	tx.set("stepLimit", hsS(s))
	tx.timestamp = hsDrawInt64(rt, "timestamp")
	s, b = hsSpellInt(rt, "timestamp", big.NewInt(tx.timestamp), spellVariants)
	nc(b, "int-noncanonical")
	tx.set("timestamp", hsS(s))
	if rapid.IntRange(0, 3).Draw(rt, "hasNid") > 0 {
		v := hsDrawInt64(rt, "nid")
		if rapid.Bool().Draw(rt, "nid.small") {
			v = int64(rapid.IntRange(0, 100).Draw(rt, "nid.v"))
		}
		tx.nid = &v
		s, b = hsSpellInt(rt, "nid", big.NewInt(v), spellVariants)
		nc(b, "int-noncanonical")
		tx.set("nid", hsS(s))
		tx.class("nid")
	}
	if rapid.Bool().Draw(rt, "hasNonce") {
		tx.nonce = hsDrawBig(rt, "nonce")
		s, b = hsSpellInt(rt, "nonce", tx.nonce, spellVariants)
		nc(b, "int-noncanonical")
		tx.set("nonce", hsS(s))
		tx.class("nonce")
	}
	mode := rapid.IntRange(0, 9).Draw(rt, "dataMode")
	hasValue := rapid.IntRange(0, 3).Draw(rt, "hasValue") > 0
	if hasValue {
		tx.value = hsDrawBig(rt, "value")
		if mode == 3 {
			tx.value = new(big.Int) // deploy: value must be zero
		}
		s, b = hsSpellInt(rt, "value", tx.value, spellVariants)
		nc(b, "int-noncanonical")
		tx.set("value", hsS(s))
		tx.class("value")
	}
	setData := func(dt *string, d *hsVal) {
		tx.dataType, tx.data = dt, d
		if dt != nil {
			tx.set("dataType", hsS(*dt))
		}
		if d != nil {
			tx.set("data", *d)
		}
	}
	str := func(s string) *string { return &s }
	params := func() (hsVal, bool) {
		if rapid.IntRange(0, 4).Draw(rt, "hasParams") == 0 {
			return hsVal{}, false
		}
		return hsDrawDict(rt, "params", opt.maxDepth), true
	}
	shuffle := func(d hsVal) hsVal {
		if len(d.keys) > 1 {
			perm := rapid.Permutation(hsIota(len(d.keys))).Draw(rt, "dataOrder")
			o := hsVal{k: hsDict}
			for _, i := range perm {
				o.keys = append(o.keys, d.keys[i])
				o.vals = append(o.vals, d.vals[i])
			}
			return o
		}
		return d
	}
	switch mode {
	case 0, 1:
		tx.class("data-none")
	case 2:
		n := rapid.IntRange(0, 40).Draw(rt, "msglen")
		d := hsS("0x" + hex.EncodeToString(rapid.SliceOfN(rapid.Byte(), n, n).Draw(rt, "msg")))
		setData(str("message"), &d)
		tx.class("data-message")
	case 3:
		n := rapid.IntRange(0, 40).Draw(rt, "contentlen")
		d := hsVal{k: hsDict, keys: []string{"contentType", "content"}, vals: []hsVal{
			hsS(rapid.SampledFrom([]string{"application/zip", "application/java"}).Draw(rt, "ctype")),
			hsS("0x" + hex.EncodeToString(rapid.SliceOfN(rapid.Byte(), n, n).Draw(rt, "content")))}}
		if p, ok := params(); ok {
			d.keys, d.vals = append(d.keys, "params"), append(d.vals, p)
		}
		d = shuffle(d)
		setData(str("deploy"), &d)
		tx.class("data-deploy")
	case 4, 5, 6:
		m := hsDrawString(rt, "method")
		if m == "" {
			m = "transfer"
		}
		d := hsVal{k: hsDict, keys: []string{"method"}, vals: []hsVal{hsS(m)}}
		if p, ok := params(); ok {
			d.keys, d.vals = append(d.keys, "params"), append(d.vals, p)
		}
		d = shuffle(d)
		setData(str("call"), &d)
		tx.class("data-call")
	case 7:
		d := hsDrawDict(rt, "deposit", opt.maxDepth)
		setData(str("deposit"), &d)
		tx.class("data-deposit")
	default:
		// free-form: unknown / absent dataType with an arbitrary data value
		var dt *string
		switch rapid.IntRange(0, 3).Draw(rt, "freeType") {
		case 0:
		case 1:
			dt = str(rapid.SampledFrom([]string{"xyz", "", "custom", "bind"}).Draw(rt, "dtName"))
		default:
			dt = str(hsDrawString(rt, "dtName"))
			if *dt == "call" || *dt == "deploy" || *dt == "patch" || *dt == "deposit" || *dt == "message" {
				dt = str("xyz")
			}
		}
		if dt != nil && hsEscape(*dt) != *dt {
			nc(true, "datatype-special")
		}
		d := hsDrawVal(rt, "data", opt.maxDepth)
		setData(dt, &d)
		tx.class("data-free")
	}
	if tx.data != nil {
		if hsLeadingEmpty(tx.data, !opt.leadingEmpty) {
			if opt.leadingEmpty {
				tx.class("list-leading-empty")
			}
			tx.set("data", *tx.data)
		}
		if tx.data.k == hsNull {
			tx.class("data-null")
		}
		if tx.data.depth() >= 2 {
			tx.class("data-nested")
		}
	}
	if opt.variants {
		if rapid.Bool().Draw(rt, "permute") {
			perm := rapid.Permutation(hsIota(len(tx.obj.keys))).Draw(rt, "order")
			o := hsVal{k: hsDict}
			for _, i := range perm {
				o.keys = append(o.keys, tx.obj.keys[i])
				o.vals = append(o.vals, tx.obj.vals[i])
			}
			tx.obj = o
			tx.class("order-permuted")
		}
		if rapid.Bool().Draw(rt, "spelling") {
			tx.tape = rapid.SliceOfN(rapid.Byte(), 1, 48).Draw(rt, "tape")
			tx.class("ws-escape-variants")
		}
	}
	tx.sigPos = rapid.IntRange(0, len(tx.obj.keys)).Draw(rt, "sigPos")
	return tx
}

func hsIota(n int) []int {
	out := make([]int, n)
	for i := range out {
		out[i] = i
	}
	return out
}

// id is the reference transaction id.
func (tx *hsTx) id() []byte { return hsTxID(tx.obj) }

// sign produces the genuine 65-byte [R|S|V] signature of the sender key over the reference id.
func (tx *hsTx) sign() []byte { return hsSignRSV(tx.key, tx.id()) }

func hsSignRSV(k hsKey, hash []byte) []byte {
	sig, err := crypto.NewSignature(hash, k.priv)
	if err != nil {
		panic(err)
	}
	b, err := sig.SerializeRSV()
	if err != nil {
		panic(err)
	}
	return append([]byte{}, b...)
}

// withSig returns the top-level object with the signature member inserted at sigPos.
func (tx *hsTx) withSig(sig []byte) hsVal {
	o := hsVal{k: hsDict}
	for i, k := range tx.obj.keys {
		if i == tx.sigPos {
			o.keys, o.vals = append(o.keys, "signature"), append(o.vals, hsS(base64.StdEncoding.EncodeToString(sig)))
		}
		o.keys, o.vals = append(o.keys, k), append(o.vals, tx.obj.vals[i])
	}
	if tx.sigPos >= len(tx.obj.keys) {
		o.keys, o.vals = append(o.keys, "signature"), append(o.vals, hsS(base64.StdEncoding.EncodeToString(sig)))
	}
	return o
}

// json renders the signed transaction as submitted JSON text.
func (tx *hsTx) json(sig []byte) string { return tx.withSig(sig).JSON(tx.tape) }

func (tx *hsTx) labels() []string {
	out := append([]string{}, tx.classes...)
	sort.Strings(out)
	return out
}

// desc is a compact canonical rendering (fingerprint) of the generated transaction.
func (tx *hsTx) desc() string {
	return fmt.Sprintf("key=%x tx=%s sigPos=%d tape=%x", tx.key.d, hsShort(tx.obj.JSON(nil), 700), tx.sigPos, tx.tape)
}
