package hsvc

import (
	"bytes"
	"fmt"
	"math/big"
	"testing"

	"github.com/icon-project/goloop/common"
	"github.com/icon-project/goloop/common/codec"
	"github.com/icon-project/goloop/common/crypto"
	"github.com/icon-project/goloop/service/transaction"
	"pgregory.net/rapid"

	"verifharness/internal/ev"
)

// C13: a transaction passes verification only if its signature was produced by the private
// key of its sender address over its id; a signature by any other key, over any other id, or a
// malformed signature is rejected. Signing and key recovery round-trip for every key and hash.
//
// Oracle: an independent secp256k1 implementation (math/big, hsref_test.go) decides, for the
// exact 65 signature bytes, whether public-key recovery over the *reference* transaction id
// (hsTxID, independent serialization) yields the sender's EOA address. goloop may accept a
// transaction only if it does ("only if"); the genuine signature must be accepted.
//
// Deliberately not decided (the statement does not speak about them):
//   - the ECDSA malleable twin (r, n-s, v^1): mathematically a valid signature of the same key;
//   - recovery bytes 4..7 (the "compressed key" flag of the compact format, accepted by the
//     underlying library as an alias of 0..3): the (r,s) pair is still the sender's signature;
//     the check only demands that an accepted one recovers the sender with flag&3.
// Everything else that is not 65 bytes [R|S|V] with V<8 is "malformed" and must be rejected.

// c13V3 mirrors the stored binary layout of a v3 transaction (field order and types of
// transactionV3Data) with the signature as raw bytes, so arbitrary signature bytes can be put
// into the binary form.
type c13V3 struct {
	Version   common.HexUint16
	From      common.Address
	To        common.Address
	Value     *common.HexInt
	StepLimit common.HexInt
	TimeStamp common.HexInt64
	NID       *common.HexInt64
	Nonce     *common.HexInt
	Signature []byte
	DataType  *string
	Data      []byte
}

func c13Addr(s string) common.Address {
	var a common.Address
	if err := a.SetStringStrict(s); err != nil {
		panic(err)
	}
	return a
}

// c13RawData (when set for a transaction) replaces the data member of the binary form by arbitrary JSON bytes.
var c13RawData = map[*hsTx][]byte{}

func c13Binary(tx *hsTx, sig []byte) []byte {
	m := c13V3{From: c13Addr(tx.from), To: c13Addr(tx.to), Signature: sig, DataType: tx.dataType}
	m.Version.Value = 3
	if tx.value != nil {
		m.Value = new(common.HexInt)
		m.Value.Set(tx.value)
	}
	m.StepLimit.Set(tx.stepLimit)
	m.TimeStamp.Value = tx.timestamp
	if tx.nid != nil {
		m.NID = &common.HexInt64{Value: *tx.nid}
	}
	if tx.nonce != nil {
		m.Nonce = new(common.HexInt)
		m.Nonce.Set(tx.nonce)
	}
	if tx.data != nil {
		m.Data = []byte(tx.data.JSON(nil))
	}
	if raw, ok := c13RawData[tx]; ok {
		m.Data = raw
	}
	bs, err := codec.MarshalToBytes(&m)
	if err != nil {
		panic(err)
	}
	return bs
}

// c13RefAuthorized: does recovery over the reference id with exactly these signature bytes
// yield the sender's EOA address?
func c13RefAuthorized(tx *hsTx, sig []byte) bool {
	if len(sig) != 65 || sig[64] >= 8 || tx.from[:2] != "hx" {
		return false
	}
	r, s := new(big.Int).SetBytes(sig[:32]), new(big.Int).SetBytes(sig[32:64])
	q, ok := hsRecover(r, s, int(sig[64]&3), tx.id())
	return ok && hsAddrOf(q) == tx.from
}

// c13Submit runs goloop: parse + Verify. stage tells where a rejection happened.
func c13Submit(tx *hsTx, sig []byte, binary bool) (accepted bool, stage string) {
	var t transaction.Transaction
	var err error
	if binary {
		t, err = transaction.NewTransaction(c13Binary(tx, sig))
	} else {
		t, err = transaction.NewTransactionFromJSON([]byte(tx.json(sig)))
	}
	if err != nil {
		return false, "reject-parse"
	}
	if err := t.Verify(); err != nil {
		return false, "reject-verify"
	}
	return true, "accepted"
}

// c13Forge makes, from the PUBLIC key q alone, a signature (r, s, v) and the digest z it is valid for:
// R = u1*G + u2*Q, r = R.x, s = r/u2, z = u1*s (the textbook existential forgery; z follows from the choice of
// u1, u2 and cannot be chosen - except z = 0 with u1 = 0).
func c13Forge(q hsPt, u1, u2 *big.Int) (sig []byte, z []byte, ok bool) {
	R := hsMul(u2, q)
	if u1.Sign() != 0 {
		R = hsAdd(hsMul(u1, hsG), R)
	}
	if R.inf {
		return nil, nil, false
	}
	r := new(big.Int).Mod(R.x, hsN)
	if r.Sign() == 0 || r.Cmp(R.x) != 0 {
		return nil, nil, false
	}
	s := new(big.Int).Mul(r, new(big.Int).ModInverse(u2, hsN))
	s.Mod(s, hsN)
	if s.Sign() == 0 {
		return nil, nil, false
	}
	zi := new(big.Int).Mul(u1, s)
	zi.Mod(zi, hsN)
	sig = append(append(hsPad32(r), hsPad32(s)...), byte(R.y.Bit(0)))
	return sig, hsPad32(zi), true
}

type c13Variant struct {
	name string
	sig  []byte
	tx   *hsTx // the transaction the signature is attached to (may differ from the base in "from")
}

func c13Twin(sig []byte) []byte {
	out := append([]byte{}, sig...)
	s := new(big.Int).SetBytes(sig[32:64])
	copy(out[32:64], hsPad32(s.Sub(hsN, s)))
	out[64] ^= 1
	return out
}

var c13VariantNames = []string{"bitflip-s", "bitflip-v", "bitflip-r", "vflag", "other-id-sibling", "replayed-on-sibling", "replayed-on-sibling", "malleable-twin",
	"other-key", "len64-noV", "component-out-of-range", "contract-sender", "other-id-random", "swap-r-s", "wrong-length",
	"empty", "random-65", "genuine", "forged-for-digest-zero", "forged-for-some-digest", "sender-signs-zero-digest", "sender-signs-hash-of-nothing"}

func c13DrawVariant(rt *rapid.T, base *hsTx, genuine []byte) c13Variant {
	return c13DrawVariantOf(rt, rapid.SampledFrom(c13VariantNames).Draw(rt, "variant"), base, genuine)
}

func c13DrawVariantNamed(rt *rapid.T, name string, base *hsTx) c13Variant {
	return c13DrawVariantOf(rt, name, base, base.sign())
}

func c13DrawVariantOf(rt *rapid.T, name string, base *hsTx, genuine []byte) c13Variant {
	sig := append([]byte{}, genuine...)
	switch name {
	case "forged-for-digest-zero", "forged-for-some-digest":
		// made from the sender's public key alone: valid for digest 0 / for a digest that follows from the choice
		u1 := new(big.Int)
		if name == "forged-for-some-digest" {
			u1 = new(big.Int).SetBytes(rapid.SliceOfN(rapid.Byte(), 32, 32).Draw(rt, "u1"))
			u1.Mod(u1, hsN)
		}
		u2 := big.NewInt(int64(rapid.IntRange(1, 1<<30).Draw(rt, "u2")))
		if f, _, ok := c13Forge(base.key.pub, u1, u2); ok {
			return c13Variant{name, f, base}
		}
		return c13Variant{"genuine", sig, base}
	case "sender-signs-zero-digest":
		return c13Variant{name, hsSignRSV(base.key, make([]byte, 32)), base}
	case "sender-signs-hash-of-nothing":
		return c13Variant{name, hsSignRSV(base.key, hsSHA3(nil)), base}
	case "other-key":
		// another key signs the transaction that claims base.from as sender
		other := hsDrawKey(rt, "otherKey")
		if other.addr == base.from {
			return c13Variant{"genuine", sig, base}
		}
		return c13Variant{name, hsSignRSV(other, base.id()), base}
	case "other-id-random":
		h := rapid.SliceOfN(rapid.Byte(), 32, 32).Draw(rt, "otherHash")
		return c13Variant{name, hsSignRSV(base.key, h), base}
	case "other-id-sibling":
		// the sender's genuine signature of a sibling transaction (one signed field differs)
		sib := *base
		sib.obj = base.obj.clone()
		switch rapid.IntRange(0, 2).Draw(rt, "siblingField") {
		case 0:
			sib.set("timestamp", hsS(hsHexInt(new(big.Int).Add(big.NewInt(base.timestamp), big.NewInt(1)))))
		case 1:
			sib.set("stepLimit", hsS(hsHexInt(new(big.Int).Add(base.stepLimit, big.NewInt(1)))))
		default:
			sib.set("to", hsS(hsDrawAddr(rt, "siblingTo")))
		}
		if bytes.Equal(sib.id(), base.id()) {
			return c13Variant{"genuine", sig, base}
		}
		return c13Variant{name, hsSignRSV(base.key, sib.id()), base}
	case "replayed-on-sibling":
		// signature reuse: the genuine signature of the base transaction (which the node has just
		// verified and accepted) is attached to another transaction of the same sender
		sib := *base
		sib.obj = base.obj.clone()
		switch rapid.IntRange(0, 3).Draw(rt, "replayField") {
		case 0:
			sib.timestamp = base.timestamp + 1
			sib.set("timestamp", hsS(hsHexInt(big.NewInt(sib.timestamp))))
		case 1:
			sib.stepLimit = new(big.Int).Add(base.stepLimit, big.NewInt(1))
			sib.set("stepLimit", hsS(hsHexInt(sib.stepLimit)))
		case 2:
			sib.value = big.NewInt(0)
			if base.value != nil {
				sib.value = new(big.Int).Add(base.value, big.NewInt(1))
			}
			sib.set("value", hsS(hsHexInt(sib.value)))
		default:
			sib.to = hsDrawAddr(rt, "replayTo")
			sib.set("to", hsS(sib.to))
		}
		if bytes.Equal(sib.id(), base.id()) {
			return c13Variant{"genuine", sig, base}
		}
		return c13Variant{name, sig, &sib}
	case "bitflip-r", "bitflip-s", "bitflip-v":
		lo, n := 0, 32
		if name == "bitflip-s" {
			lo = 32
		}
		if name == "bitflip-v" {
			lo, n = 64, 1
		}
		bit := rapid.IntRange(0, n*8-1).Draw(rt, "bit")
		sig[lo+bit/8] ^= 1 << uint(bit%8)
		return c13Variant{name, sig, base}
	case "malleable-twin":
		return c13Variant{name, c13Twin(sig), base}
	case "vflag":
		v := sig[64]
		sig[64] = rapid.SampledFrom([]byte{v ^ 1, v | 2, v + 4, (v ^ 1) + 4, v + 8, v + 27, v + 31, 0x80 | v, 0xff,
			rapid.Byte().Draw(rt, "vAny")}).Draw(rt, "vflag")
		if sig[64] == v {
			return c13Variant{"genuine", sig, base}
		}
		return c13Variant{name, sig, base}
	case "len64-noV":
		return c13Variant{name, sig[:64], base}
	case "empty":
		return c13Variant{name, []byte{}, base}
	case "wrong-length":
		n := rapid.SampledFrom([]int{66, 63, 1, 32, 33, 67, 96, 128, 130}).Draw(rt, "len")
		out := make([]byte, n)
		copy(out, sig)
		if n > 65 {
			copy(out[65:], rapid.SliceOfN(rapid.Byte(), n-65, n-65).Draw(rt, "tail"))
		}
		return c13Variant{name, out, base}
	case "component-out-of-range":
		nb := hsPad32(hsN)
		ff := bytes.Repeat([]byte{0xff}, 32)
		zero := make([]byte, 32)
		switch rapid.IntRange(0, 5).Draw(rt, "component") {
		case 0:
			copy(sig[:32], zero)
		case 1:
			copy(sig[32:64], zero)
		case 2:
			copy(sig[:32], nb)
		case 3:
			copy(sig[32:64], nb)
		case 4:
			copy(sig[:32], ff)
		default:
			copy(sig[32:64], ff)
		}
		return c13Variant{name, sig, base}
	case "contract-sender":
		// sender spelled as the contract address with the same 20 bytes, signed by the key
		ct := *base
		ct.obj = base.obj.clone()
		ct.from = "cx" + base.from[2:]
		ct.set("from", hsS(ct.from))
		return c13Variant{name, hsSignRSV(base.key, ct.id()), &ct}
	case "swap-r-s":
		copy(sig[:32], genuine[32:64])
		copy(sig[32:64], genuine[:32])
		return c13Variant{name, sig, base}
	case "random-65":
		return c13Variant{name, rapid.SliceOfN(rapid.Byte(), 65, 65).Draw(rt, "randomSig"), base}
	default:
		return c13Variant{"genuine", sig, base}
	}
}

// c13ReachesRecovery: the signature passes all format checks (65 bytes, V<8, 1 ≤ r,s < n), so
// that its rejection has to come from the recovered key not being the sender.
func c13ReachesRecovery(sig []byte) bool {
	if len(sig) != 65 || sig[64] >= 8 {
		return false
	}
	r, s := new(big.Int).SetBytes(sig[:32]), new(big.Int).SetBytes(sig[32:64])
	return r.Sign() > 0 && r.Cmp(hsN) < 0 && s.Sign() > 0 && s.Cmp(hsN) < 0
}

func c13TxCase(rt *rapid.T, rec *ev.Rec, binary bool) {
	opt := hsTxOpt{variants: !binary, maxDepth: 1}
	tx := hsGenTx(rt, opt)
	if binary && tx.dataType != nil && hsEscape(*tx.dataType) != *tx.dataType {
		// A dataType containing one of the six special characters cannot reach the binary form
		// through JSON submission (such JSON is stored raw), so it is not generated here.
		dt := "xyz"
		tx.dataType = &dt
		tx.set("dataType", hsS(dt))
	}
	path := "path-json"
	if binary {
		path = "path-binary"
	}
	genuine := tx.sign()
	v := c13DrawVariant(rt, tx, genuine)
	desc := fmt.Sprintf("%s variant=%s sig=%x %s", path, v.name, v.sig, v.tx.desc())

	// the genuine signature must be accepted: this also shows that a rejection of the variant
	// below is caused by the signature and nothing else
	if ok, stage := c13Submit(tx, genuine, binary); !ok {
		rec.Case(desc, false, path, "genuine-rejected")
		rt.Fatalf("C13 violated: transaction with the sender's genuine signature is rejected (%s, %s): id(ref)=%x json=%s",
			stage, path, tx.id(), tx.json(genuine))
	}
	if !c13RefAuthorized(tx, genuine) {
		rec.Case(desc, false, path, "genuine-not-valid-by-reference")
		rt.Fatalf("C13 violated: signature produced by crypto.NewSignature is not a valid signature of the sender by the reference: key=%x id=%x sig=%x",
			tx.key.d, tx.id(), genuine)
	}
	refAuth := c13RefAuthorized(v.tx, v.sig)
	accepted, stage := c13Submit(v.tx, v.sig, binary)
	labels := []string{path, "variant-" + v.name, stage}
	labels = append(labels, tx.labels()...)
	nontrivial := false
	switch {
	case v.name == "genuine":
		labels = append(labels, "expect-accept")
	case refAuth:
		labels = append(labels, "reference-valid-undecided")
	default:
		labels = append(labels, "expect-reject")
		nontrivial = c13ReachesRecovery(v.sig)
		if nontrivial {
			labels = append(labels, "reject-by-recovered-key")
		} else {
			labels = append(labels, "reject-by-format")
		}
	}
	rec.Case(desc, nontrivial, labels...)
	if v.name == "genuine" && !accepted {
		rt.Fatalf("C13 violated: genuine signature rejected (%s)", stage)
	}
	if !refAuth && accepted {
		rt.Fatalf("C13 violated: transaction accepted although the signature (%s) is not the sender's signature over its id: from=%s id(ref)=%x sig=%x (%d bytes) %s json=%s",
			v.name, v.tx.from, v.tx.id(), v.sig, len(v.sig), path, v.tx.json(v.sig))
	}
}

var c13Hashes = [][]byte{
	make([]byte, 32),
	bytes.Repeat([]byte{0xff}, 32),
	hsPad32(hsN),
	hsPad32(new(big.Int).Sub(hsN, big.NewInt(1))),
	hsPad32(new(big.Int).Add(hsN, big.NewInt(1))),
	hsPad32(big.NewInt(1)),
}

// c13NoIDCase: a transaction in stored binary form (as peers deliver it and blocks hold it) whose data is valid JSON
// that the id serialization does not define (a boolean, a number, null inside a list...): it has no id, so no
// signature is "the sender's signature over its id" and Verify must refuse whatever signature it carries -
// in particular one made from the public key alone for the digest value an absent id might be read as.
func c13NoIDCase(rt *rapid.T, rec *ev.Rec) {
	tx := hsGenTx(rt, hsTxOpt{variants: false, maxDepth: 1})
	dt := "call"
	tx.dataType = &dt
	tx.set("dataType", hsS(dt))
	raw := rapid.SampledFrom([]string{
		`{"method":"transfer","params":{"_to":"hx0000000000000000000000000000000000000bad","_value":"0x100","_all":true}}`,
		`{"method":"setFlags","params":{"flags":[false]}}`,
		`{"method":"f","params":{"n":1}}`,
		`{"method":"f","params":{"x":1.5}}`,
		`[true]`,
		`true`,
	}).Draw(rt, "rawData")
	c13RawData[tx] = []byte(raw)
	defer delete(c13RawData, tx)
	// is it really id-less for goloop? (the reference has no say about JSON kinds outside the format)
	probe, err := transaction.NewTransaction(c13Binary(tx, tx.sign()))
	if err != nil {
		rec.Case("noid rejected-at-parse data="+raw, false, "path-binary-noid", "noid-reject-parse")
		return
	}
	if len(probe.ID()) != 0 {
		// goloop defines an id for this data after all: nothing to decide here
		rec.Case("noid has-id data="+raw, false, "path-binary-noid", "noid-has-id")
		return
	}
	name := rapid.SampledFrom([]string{"forged-for-digest-zero", "forged-for-digest-zero", "forged-for-some-digest", "sender-signs-zero-digest",
		"sender-signs-hash-of-nothing", "sender-signs-reference-id-of-other-data", "random-65", "empty"}).Draw(rt, "noidVariant")
	var sig []byte
	switch name {
	case "sender-signs-reference-id-of-other-data":
		sig = tx.sign()
	case "random-65":
		sig = rapid.SliceOfN(rapid.Byte(), 65, 65).Draw(rt, "rnd")
		sig[64] &= 1
	case "empty":
		sig = []byte{}
	default:
		sig = c13DrawVariantNamed(rt, name, tx).sig
	}
	desc := fmt.Sprintf("path-binary-noid variant=%s sig=%x data=%s %s", name, sig, raw, tx.desc())
	rec.Case(desc, c13ReachesRecovery(sig), "path-binary-noid", "noid-variant-"+name)
	t, err := transaction.NewTransaction(c13Binary(tx, sig))
	if err != nil {
		rec.Label("noid-reject-parse")
		return
	}
	if err := t.Verify(); err == nil {
		rt.Fatalf("C13 violated: a transaction without an id (data %s is outside the id serialization, ID()=%x) from %s is accepted by Verify with signature %x (%s): nobody signed an id with the sender's key",
			raw, t.ID(), tx.from, sig, name)
	}
	rec.Label("noid-reject-verify")
}

func c13PubBytes(pk *crypto.PublicKey) []byte { return pk.SerializeUncompressed() }

func c13SignRecoverCase(rt *rapid.T, rec *ev.Rec) {
	key := hsDrawKey(rt, "key")
	var hash []byte
	if rapid.IntRange(0, 5).Draw(rt, "hashKind") == 0 {
		hash = rapid.SampledFrom(c13Hashes).Draw(rt, "edgeHash")
	} else {
		hash = rapid.SliceOfN(rapid.Byte(), 32, 32).Draw(rt, "hash")
	}
	mutBit := rapid.IntRange(0, 64*8-1).Draw(rt, "mutBit")
	if rapid.IntRange(0, 4).Draw(rt, "mutV") == 0 {
		mutBit = 64*8 + rapid.IntRange(0, 7).Draw(rt, "mutVBit")
	}
	other := hsDrawKey(rt, "otherKey")
	hash2 := append([]byte{}, hash...)
	hash2[rapid.IntRange(0, 31).Draw(rt, "hashByte")] ^= byte(1 << uint(rapid.IntRange(0, 7).Draw(rt, "hashBit")))
	desc := fmt.Sprintf("signrecover key=%x hash=%x mutBit=%d other=%x hash2=%x", key.d, hash, mutBit, other.d, hash2)
	fail := func(f string, a ...interface{}) {
		rec.Case(desc, false, "signrecover", "failed")
		rt.Fatalf("C13 violated: "+f+fmt.Sprintf(" [key=%x hash=%x]", key.d, hash), a...)
	}

	refPub := hsUncompressed(key.pub)
	if !bytes.Equal(c13PubBytes(key.priv.PublicKey()), refPub) {
		fail("PrivateKey.PublicKey() = %x, reference d·G = %x", c13PubBytes(key.priv.PublicKey()), refPub)
	}
	sig, err := crypto.NewSignature(hash, key.priv)
	if err != nil {
		fail("NewSignature failed: %v", err)
	}
	rsv, err := sig.SerializeRSV()
	if err != nil || len(rsv) != 65 {
		fail("SerializeRSV: %v len=%d", err, len(rsv))
	}
	rsv = append([]byte{}, rsv...)
	r, s := new(big.Int).SetBytes(rsv[:32]), new(big.Int).SetBytes(rsv[32:64])
	if !hsVerify(key.pub, hash, r, s) {
		fail("signature %x does not verify under the signer's key by the reference", rsv)
	}
	if q, ok := hsRecover(r, s, int(rsv[64]), hash); rsv[64] > 3 || !ok || !bytes.Equal(hsUncompressed(q), refPub) {
		fail("reference recovery with V=%d does not give the signer (sig %x)", rsv[64], rsv)
	}
	// round trip through every serialization
	vrs, err := sig.SerializeVRS()
	if err != nil {
		fail("SerializeVRS: %v", err)
	}
	s1, err1 := crypto.ParseSignature(rsv)
	s2, err2 := crypto.ParseSignatureVRS(vrs)
	if err1 != nil || err2 != nil {
		fail("re-parsing own serialization failed: %v %v", err1, err2)
	}
	for i, x := range []*crypto.Signature{sig, s1, s2} {
		pk, err := x.RecoverPublicKey(hash)
		if err != nil {
			fail("RecoverPublicKey (form %d) failed: %v", i, err)
		}
		if !bytes.Equal(c13PubBytes(pk), refPub) || !pk.Equal(key.priv.PublicKey()) {
			fail("RecoverPublicKey (form %d) = %x, signer = %x", i, c13PubBytes(pk), refPub)
		}
		if !x.Verify(hash, pk) {
			fail("Signature.Verify (form %d) false for the signer", i)
		}
		if a := common.NewAccountAddressFromPublicKey(pk).String(); a != key.addr {
			fail("address of recovered key %s, reference %s", a, key.addr)
		}
		if b, _ := x.SerializeRSV(); !bytes.Equal(b, rsv) {
			fail("serialization not stable (form %d): %x vs %x", i, b, rsv)
		}
	}
	// "only": another key / another hash / a mutated signature must not lead back to the signer
	// unless the reference confirms that (r,s) is a signature of the signer over that hash.
	labels := []string{"signrecover"}
	if other.addr != key.addr {
		if sig.Verify(hash, other.priv.PublicKey()) && !hsVerify(other.pub, hash, r, s) {
			fail("Signature.Verify true under an unrelated key %x", other.d)
		}
	}
	if pk, err := sig.RecoverPublicKey(hash2); err == nil && bytes.Equal(c13PubBytes(pk), refPub) && !hsVerify(key.pub, hash2, r, s) {
		fail("recovery over another hash %x still yields the signer", hash2)
	}
	if sig.Verify(hash2, key.priv.PublicKey()) && !hsVerify(key.pub, hash2, r, s) {
		fail("Signature.Verify true over another hash %x", hash2)
	}
	mut := append([]byte{}, rsv...)
	mut[mutBit/8] ^= 1 << uint(mutBit%8)
	reaches := c13ReachesRecovery(mut)
	if ms, err := crypto.ParseSignature(mut); err == nil {
		mr, msv := new(big.Int).SetBytes(mut[:32]), new(big.Int).SetBytes(mut[32:64])
		refValid := hsVerify(key.pub, hash, mr, msv)
		if pk, err := ms.RecoverPublicKey(hash); err == nil {
			labels = append(labels, "mutant-recovers-some-key")
			if bytes.Equal(c13PubBytes(pk), refPub) && !refValid {
				fail("mutated signature %x (bit %d) still recovers the signer although (r,s) is not its signature", mut, mutBit)
			}
		} else {
			labels = append(labels, "mutant-recovery-error")
		}
		if ms.Verify(hash, key.priv.PublicKey()) && !refValid {
			fail("mutated signature %x (bit %d) verifies under the signer", mut, mutBit)
		}
	}
	if mutBit/8 == 64 {
		labels = append(labels, "mutbit-v")
	} else {
		labels = append(labels, "mutbit-rs")
	}
	rec.Case(desc, reaches, labels...)
}

func TestC13(t *testing.T) {
	rec := ev.New("C13", "sign/recover: drawn (key incl. edge scalars, 32-byte hash incl. 0/ff/n±1, one signature bit flip, other key, other hash); "+
		"tx: generated well-formed v3 transaction (JSON submission with spelling variants, and stored binary form) with a drawn signature variant "+
		"(genuine, other key, other id, bit flips in r/s/v, malleable twin, V-flag values, 64-byte, wrong length, empty, r/s out of range, contract sender, swapped r/s, random); "+
		"non-trivial = the (mutated / foreign) signature passes every format check (65 bytes, V<8, 1≤r,s<n) so only the recovered key can reject it "+
		"(tx level: and the reference says it is not the sender's; the same transaction with the genuine signature was accepted first); distinct by (key, hash/tx, variant bytes)")
	defer rec.Flush(t)
	rec.Assume("reference = math/big secp256k1 + independent ICON v3 id serialization; malleable twin and recovery bytes 4..7 are not decided")

	// harness sanity: the binary mirror must be byte-identical to goloop's stored form
	t.Run("mirror", func(t *testing.T) {
		ev.Check(t, 20, 40, func(rt *rapid.T) {
			tx := hsGenTx(rt, hsTxOpt{variants: false, maxDepth: 1})
			sig := tx.sign()
			jt, err := transaction.NewTransactionFromJSON([]byte(tx.json(sig)))
			if err != nil {
				rt.Fatalf("C13 violated: well-formed transaction not parsed: %v json=%s", err, tx.json(sig))
			}
			if b := jt.Bytes(); len(b) > 0 && b[0] != '{' && !bytes.Equal(b, c13Binary(tx, sig)) {
				ev.Inconclusive("C13 binary mirror differs from goloop's stored form: %x vs %x", c13Binary(tx, sig), b)
			}
			rec.Label("mirror-sanity")
		})
	})
	t.Run("signrecover", func(t *testing.T) {
		ev.Check(t, 250, 3500, func(rt *rapid.T) { c13SignRecoverCase(rt, rec) })
	})
	t.Run("txjson", func(t *testing.T) {
		ev.Check(t, 350, 5000, func(rt *rapid.T) { c13TxCase(rt, rec, false) })
	})
	t.Run("txbinary", func(t *testing.T) {
		ev.Check(t, 250, 3500, func(rt *rapid.T) { c13TxCase(rt, rec, true) })
	})
	t.Run("txnoid", func(t *testing.T) {
		ev.Check(t, 120, 2000, func(rt *rapid.T) { c13NoIDCase(rt, rec) })
	})
}
