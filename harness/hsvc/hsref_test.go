package hsvc

// Shared reference implementations for the hsvc checks (C12, C13). Nothing in this file is
// derived from the goloop code under test:
//
//   - secp256k1 ECDSA verify / public-key recovery / key derivation with math/big (SEC1 §4.1.4,
//     §4.1.6 and the published curve parameters), so that signature oracles do not lean on the
//     decred library goloop itself uses;
//   - ICON address derivation ("hx" + last 20 bytes of SHA3-256 of the 64-byte public key);
//   - the ICON v3 transaction serialization used for the transaction hash, written from the
//     format description (see hsSerialize);
//   - a JSON value model with its own JSON text renderer (key order / whitespace / escape
//     variants), so that the oracle sees the intended values and not what encoding/json parsed.

import (
	"encoding/hex"
	"fmt"
	"math/big"
	"sort"
	"strings"

	"github.com/icon-project/goloop/common/crypto"
)

// ---------------------------------------------------------------- secp256k1 (reference)

func hsBig(h string) *big.Int {
	v, ok := new(big.Int).SetString(h, 16)
	if !ok {
		panic(h)
	}
	return v
}

var (
	hsP  = hsBig("FFFFFFFFFFFFFFFFFFFFFFFFFFFFFFFFFFFFFFFFFFFFFFFFFFFFFFFEFFFFFC2F")
	hsN  = hsBig("FFFFFFFFFFFFFFFFFFFFFFFFFFFFFFFEBAAEDCE6AF48A03BBFD25E8CD0364141")
	hsGx = hsBig("79BE667EF9DCBBAC55A06295CE870B07029BFCDB2DCE28D959F2815B16F81798")
	hsGy = hsBig("483ADA7726A3C4655DA4FBFC0E1108A8FD17B448A68554199C47D08FFB10D4B8")
	hsG  = hsPt{x: hsGx, y: hsGy}
)

// hsPt is an affine point; inf marks the point at infinity.
type hsPt struct {
	x, y *big.Int
	inf  bool
}

func hsModP(v *big.Int) *big.Int { return v.Mod(v, hsP) }

func hsAdd(a, b hsPt) hsPt {
	if a.inf {
		return b
	}
	if b.inf {
		return a
	}
	var l *big.Int
	if a.x.Cmp(b.x) == 0 {
		if a.y.Cmp(b.y) != 0 || a.y.Sign() == 0 {
			return hsPt{inf: true}
		}
		// doubling, a = 0: l = 3x^2 / 2y
		num := new(big.Int).Mul(a.x, a.x)
		num.Mul(num, big.NewInt(3))
		den := new(big.Int).Lsh(a.y, 1)
		den.ModInverse(hsModP(den), hsP)
		l = hsModP(num.Mul(num, den))
	} else {
		num := new(big.Int).Sub(b.y, a.y)
		den := new(big.Int).Sub(b.x, a.x)
		den.ModInverse(hsModP(den), hsP)
		l = hsModP(num.Mul(hsModP(num), den))
	}
	x := new(big.Int).Mul(l, l)
	x.Sub(x, a.x)
	x.Sub(x, b.x)
	hsModP(x)
	y := new(big.Int).Sub(a.x, x)
	y.Mul(y, l)
	y.Sub(y, a.y)
	hsModP(y)
	return hsPt{x: x, y: y}
}

func hsMul(k *big.Int, p hsPt) hsPt {
	r := hsPt{inf: true}
	for i := k.BitLen() - 1; i >= 0; i-- {
		r = hsAdd(r, r)
		if k.Bit(i) == 1 {
			r = hsAdd(r, p)
		}
	}
	return r
}

// hsHashInt is the message representative e: the hash bytes as a big-endian integer mod n.
func hsHashInt(hash []byte) *big.Int {
	e := new(big.Int).SetBytes(hash)
	return e.Mod(e, hsN)
}

// hsRecover recovers the public key from (r, s, recid) and the message hash; ok=false when the
// triple is not a signature (component out of range, x not on the curve, r+n ≥ p, Q = ∞).
func hsRecover(r, s *big.Int, recid int, hash []byte) (hsPt, bool) {
	if r.Sign() <= 0 || r.Cmp(hsN) >= 0 || s.Sign() <= 0 || s.Cmp(hsN) >= 0 || recid < 0 || recid > 3 {
		return hsPt{}, false
	}
	x := new(big.Int).Set(r)
	if recid&2 != 0 {
		x.Add(x, hsN)
		if x.Cmp(hsP) >= 0 {
			return hsPt{}, false
		}
	}
	rhs := new(big.Int).Exp(x, big.NewInt(3), hsP)
	rhs.Add(rhs, big.NewInt(7))
	hsModP(rhs)
	exp := new(big.Int).Add(hsP, big.NewInt(1))
	exp.Rsh(exp, 2)
	y := new(big.Int).Exp(rhs, exp, hsP)
	if new(big.Int).Exp(y, big.NewInt(2), hsP).Cmp(rhs) != 0 {
		return hsPt{}, false
	}
	if int(y.Bit(0)) != recid&1 {
		y.Sub(hsP, y)
	}
	R := hsPt{x: x, y: y}
	rinv := new(big.Int).ModInverse(r, hsN)
	u1 := new(big.Int).Mul(hsHashInt(hash), rinv)
	u1.Neg(u1)
	u1.Mod(u1, hsN)
	u2 := new(big.Int).Mul(s, rinv)
	u2.Mod(u2, hsN)
	q := hsAdd(hsMul(u1, hsG), hsMul(u2, R))
	if q.inf {
		return hsPt{}, false
	}
	return q, true
}

// hsVerify is plain ECDSA verification of (r,s) over hash under public key q.
func hsVerify(q hsPt, hash []byte, r, s *big.Int) bool {
	if q.inf || r.Sign() <= 0 || r.Cmp(hsN) >= 0 || s.Sign() <= 0 || s.Cmp(hsN) >= 0 {
		return false
	}
	w := new(big.Int).ModInverse(s, hsN)
	u1 := new(big.Int).Mul(hsHashInt(hash), w)
	u1.Mod(u1, hsN)
	u2 := new(big.Int).Mul(r, w)
	u2.Mod(u2, hsN)
	x := hsAdd(hsMul(u1, hsG), hsMul(u2, q))
	if x.inf {
		return false
	}
	return new(big.Int).Mod(x.x, hsN).Cmp(r) == 0
}

// hsPub derives the public key of private scalar d (1 ≤ d < n).
func hsPub(d []byte) hsPt { return hsMul(new(big.Int).SetBytes(d), hsG) }

func hsPad32(v *big.Int) []byte {
	b := v.Bytes()
	out := make([]byte, 32)
	copy(out[32-len(b):], b)
	return out
}

// hsUncompressed is the 65-byte SEC1 uncompressed encoding.
func hsUncompressed(q hsPt) []byte {
	out := []byte{4}
	out = append(out, hsPad32(q.x)...)
	return append(out, hsPad32(q.y)...)
}

// hsSHA3 is SHA3-256 (goloop's thin wrapper over golang.org/x/crypto/sha3; the hash primitive
// is part of the trusted base).
func hsSHA3(b []byte) []byte { return crypto.SHA3Sum256(b) }

// hsAddrOf is the ICON EOA address of a public key: "hx" + hex(last 20 bytes of
// SHA3-256(X || Y)).
func hsAddrOf(q hsPt) string {
	d := hsSHA3(hsUncompressed(q)[1:])
	return "hx" + hex.EncodeToString(d[12:])
}

// ---------------------------------------------------------------- JSON value model

type hsKind int

const (
	hsNull hsKind = iota
	hsStr
	hsList
	hsDict
)

// hsVal is a JSON value restricted to what the ICON v3 format defines: strings, null, lists
// and dicts. Dict keys are kept in *render* order (the order they appear in the JSON text).
type hsVal struct {
	k    hsKind
	s    string
	l    []hsVal
	keys []string
	vals []hsVal
}

func hsS(s string) hsVal { return hsVal{k: hsStr, s: s} }

func (v hsVal) get(key string) (hsVal, bool) {
	for i, k := range v.keys {
		if k == key {
			return v.vals[i], true
		}
	}
	return hsVal{}, false
}

func (v hsVal) depth() int {
	d := 0
	for _, c := range v.l {
		if x := c.depth(); x > d {
			d = x
		}
	}
	for _, c := range v.vals {
		if x := c.depth(); x > d {
			d = x
		}
	}
	if v.k == hsList || v.k == hsDict {
		return d + 1
	}
	return 0
}

// clone deep-copies a value.
func (v hsVal) clone() hsVal {
	o := hsVal{k: v.k, s: v.s}
	for _, c := range v.l {
		o.l = append(o.l, c.clone())
	}
	o.keys = append(o.keys, v.keys...)
	for _, c := range v.vals {
		o.vals = append(o.vals, c.clone())
	}
	return o
}

// toGo converts to the shape encoding/json produces (for JSON-equality of exported data).
func (v hsVal) toGo() interface{} {
	switch v.k {
	case hsNull:
		return nil
	case hsStr:
		return v.s
	case hsList:
		out := make([]interface{}, 0, len(v.l))
		for _, c := range v.l {
			out = append(out, c.toGo())
		}
		return out
	default:
		out := map[string]interface{}{}
		for i, k := range v.keys {
			out[k] = v.vals[i].toGo()
		}
		return out
	}
}

// hsTape is a finite tape of rapid-drawn bytes that drives the spelling decisions of the
// renderer (whitespace, escapes); an empty tape renders compact canonical JSON.
type hsTape struct {
	b   []byte
	pos int
}

func (t *hsTape) next() byte {
	if t == nil || len(t.b) == 0 {
		return 0
	}
	x := t.b[t.pos%len(t.b)]
	t.pos++
	return x
}

var hsSpaces = []string{" ", "\n", "\t", "\r\n  ", "  "}

func (t *hsTape) ws(sb *strings.Builder) {
	x := t.next()
	if x >= 200 { // ~22% of the gaps get whitespace when the tape is random
		sb.WriteString(hsSpaces[int(x)%len(hsSpaces)])
	}
}

func hsRenderString(sb *strings.Builder, s string, t *hsTape) {
	sb.WriteByte('"')
	for _, r := range s {
		alt := t.next() >= 230
		switch {
		case r == '"':
			if alt {
				sb.WriteString("\\u0022")
			} else {
				sb.WriteString(`\"`)
			}
		case r == '\\':
			if alt {
				sb.WriteString("\\u005c")
			} else {
				sb.WriteString(`\\`)
			}
		case r == '\n' && !alt:
			sb.WriteString(`\n`)
		case r == '\t' && !alt:
			sb.WriteString(`\t`)
		case r < 0x20:
			fmt.Fprintf(sb, `\u%04x`, r)
		case r == '/' && alt:
			sb.WriteString(`\/`)
		case alt && r < 0x10000:
			fmt.Fprintf(sb, `\u%04X`, r)
		case alt:
			r -= 0x10000
			fmt.Fprintf(sb, `\u%04x\u%04x`, 0xd800+(r>>10), 0xdc00+(r&0x3ff))
		default:
			sb.WriteRune(r)
		}
	}
	sb.WriteByte('"')
}

func (v hsVal) render(sb *strings.Builder, t *hsTape) {
	switch v.k {
	case hsNull:
		sb.WriteString("null")
	case hsStr:
		hsRenderString(sb, v.s, t)
	case hsList:
		sb.WriteByte('[')
		t.ws(sb)
		for i, c := range v.l {
			if i > 0 {
				sb.WriteByte(',')
				t.ws(sb)
			}
			c.render(sb, t)
			t.ws(sb)
		}
		sb.WriteByte(']')
	case hsDict:
		sb.WriteByte('{')
		t.ws(sb)
		for i, k := range v.keys {
			if i > 0 {
				sb.WriteByte(',')
				t.ws(sb)
			}
			hsRenderString(sb, k, t)
			t.ws(sb)
			sb.WriteByte(':')
			t.ws(sb)
			v.vals[i].render(sb, t)
			t.ws(sb)
		}
		sb.WriteByte('}')
	}
}

func (v hsVal) JSON(tape []byte) string {
	var sb strings.Builder
	t := &hsTape{b: tape}
	t.ws(&sb)
	v.render(&sb, t)
	t.ws(&sb)
	return sb.String()
}

// ---------------------------------------------------------------- ICON v3 serialization (reference)
//
// Format (ICON JSON-RPC v3, "transaction hash / signature" description; the same format is
// implemented by the ICON SDKs):
//
//   tx hash  = SHA3-256("icx_sendTransaction." + items(top-level object without the members
//              "signature" and "txHash"))
//   items(o) = for the member names of o in ascending order: name "." ser(value), joined by "."
//   ser(v)   = v is null   -> the two characters \0
//              v is string -> v with each of the characters \ . { } [ ] preceded by a backslash
//              v is object -> "{" items(v) "}"
//              v is array  -> "[" ser(element) joined by "." "]"
//
// Not defined by that description (hence never generated, see c12 generator): JSON numbers,
// booleans, member names that contain one of the six special characters, and the ordering of
// member names outside the Basic Multilingual Plane.

func hsEscape(s string) string {
	var sb strings.Builder
	for _, r := range s {
		switch r {
		case '\\', '.', '{', '}', '[', ']':
			sb.WriteByte('\\')
		}
		sb.WriteRune(r)
	}
	return sb.String()
}

func hsItems(v hsVal, skip map[string]bool, quirk bool) string {
	idx := make([]int, 0, len(v.keys))
	for i, k := range v.keys {
		if !skip[k] {
			idx = append(idx, i)
		}
	}
	sort.Slice(idx, func(a, b int) bool { return v.keys[idx[a]] < v.keys[idx[b]] })
	parts := make([]string, 0, len(idx))
	for _, i := range idx {
		parts = append(parts, v.keys[i]+"."+hsSerializeMode(v.vals[i], quirk))
	}
	return strings.Join(parts, ".")
}

// hsSerialize is the ICON format as described above.
func hsSerialize(v hsVal) string { return hsSerializeMode(v, false) }

// hsSerializeMode with quirk=true is NOT the ICON format: it reproduces one known deviation of
// goloop (known finding C12-list-leading-empty-element): inside a list the "." separator is
// written only while the output collected for that list so far is non-empty, so leading
// elements that serialize to the empty string vanish together with their separators
// (["","a"] -> "[a]" instead of "[.a]"). It exists only to classify a disagreement as exactly
// that root cause; no oracle uses it as the expected value.
func hsSerializeMode(v hsVal, quirk bool) string {
	switch v.k {
	case hsNull:
		return `\0`
	case hsStr:
		return hsEscape(v.s)
	case hsList:
		if quirk {
			acc := ""
			for _, c := range v.l {
				if acc != "" {
					acc += "."
				}
				acc += hsSerializeMode(c, true)
			}
			return "[" + acc + "]"
		}
		parts := make([]string, 0, len(v.l))
		for _, c := range v.l {
			parts = append(parts, hsSerializeMode(c, false))
		}
		return "[" + strings.Join(parts, ".") + "]"
	default:
		return "{" + hsItems(v, nil, quirk) + "}"
	}
}

var hsTxSkip = map[string]bool{"signature": true, "txHash": true}

// hsTxPreimage is the string whose SHA3-256 is the id of the v3 transaction object tx.
func hsTxPreimage(tx hsVal) string { return "icx_sendTransaction." + hsItems(tx, hsTxSkip, false) }

func hsTxID(tx hsVal) []byte { return hsSHA3([]byte(hsTxPreimage(tx))) }

// hsTxPreimageQuirk / hsTxIDQuirk: classification only, see hsSerializeMode.
func hsTxPreimageQuirk(tx hsVal) string {
	return "icx_sendTransaction." + hsItems(tx, hsTxSkip, true)
}

func hsTxIDQuirk(tx hsVal) []byte { return hsSHA3([]byte(hsTxPreimageQuirk(tx))) }

// ---------------------------------------------------------------- small helpers

// hsHexInt spells a non-negative integer as an ICON T_INT ("0x" + lowercase hex, no leading
// zeros).
func hsHexInt(v *big.Int) string {
	if v.Sign() < 0 {
		return "-0x" + new(big.Int).Neg(v).Text(16)
	}
	return "0x" + v.Text(16)
}

// hsParseHexInt parses "0x.." / "-0x.." spellings (any digit case, leading zeros allowed).
func hsParseHexInt(s string) (*big.Int, bool) {
	neg := strings.HasPrefix(s, "-")
	if neg {
		s = s[1:]
	}
	if !strings.HasPrefix(s, "0x") || len(s) < 3 {
		return nil, false
	}
	v, ok := new(big.Int).SetString(s[2:], 16)
	if !ok {
		return nil, false
	}
	if neg {
		v.Neg(v)
	}
	return v, true
}

func hsShort(s string, n int) string {
	if len(s) <= n {
		return s
	}
	return fmt.Sprintf("%s…(%d bytes, sha3 %x)", s[:n], len(s), hsSHA3([]byte(s))[:6])
}
