package hexec

// Shared machinery of the execution cluster (C09, C10): a "programmable transaction" — a
// harness-defined transaction.Transaction whose handler interprets a small generated program
// (declared account/world locks, reads, read-modify-writes, optional scripted faults) — and a
// minimal environment that runs blocks of such transactions through goloop's real
// service.NewInitTransition / NewTransition (sequential and concurrent dispatchers, virtual
// world state, receipts, result hashing are all goloop's).

import (
	"crypto/sha256"
	"encoding/hex"
	"encoding/json"
	"fmt"
	"io"
	"math/big"
	"os"
	"sort"
	"strings"
	"sync"
	"sync/atomic"
	"time"

	"github.com/icon-project/goloop/common"
	"github.com/icon-project/goloop/common/codec"
	"github.com/icon-project/goloop/common/db"
	"github.com/icon-project/goloop/common/errors"
	"github.com/icon-project/goloop/common/log"
	"github.com/icon-project/goloop/common/wallet"
	"github.com/icon-project/goloop/consensus"
	"github.com/icon-project/goloop/module"
	"github.com/icon-project/goloop/service"
	"github.com/icon-project/goloop/service/contract"
	"github.com/icon-project/goloop/service/platform/basic"
	"github.com/icon-project/goloop/service/state"
	"github.com/icon-project/goloop/service/transaction"
	"github.com/icon-project/goloop/service/txresult"
	"github.com/icon-project/goloop/test"
	"pgregory.net/rapid"
)

func init() {
	// goloop packages log through the global logger as well; keep the test output readable
	l := log.New()
	l.SetOutput(io.Discard)
	l.SetLevel(log.PanicLevel)
	log.SetGlobalLogger(l)
}

// ---------------------------------------------------------------- programs

const (
	hxWorldNone  = 0
	hxWorldRead  = 1
	hxWorldWrite = 2
)

// fault kinds of a scripted attempt
const (
	hxFaultRetryable = 1 // errors.ExecutionFailError
	hxFaultRerun     = 2 // errors.CriticalRerunError (retryable as well)
	hxFaultInvalid   = 3 // errors.InvalidStateError     (non-retryable)
	hxFaultCritical  = 4 // errors.CriticalUnknownError  (non-retryable)
	hxFaultPlain     = 5 // error without a code         (non-retryable)
)

// hxProg is one generated program. It declares its locks exactly as it uses them:
// Reads are read-locked, Writes are write-locked (unless a world lock covers them).
type hxProg struct {
	World  int   `json:"w,omitempty"` // hxWorldNone / hxWorldRead / hxWorldWrite
	Reads  []int `json:"r,omitempty"` // accounts only read
	Writes []int `json:"x,omitempty"` // accounts read then written
	Idle   []int `json:"i,omitempty"` // accounts write-locked but never touched (a handler that bails out early)
	Salt   int   `json:"s,omitempty"`
	Redo   bool  `json:"redo,omitempty"`   // snapshot, garbage writes, Reset, then the real body (what a retry does)
	Ensure bool  `json:"ensure,omitempty"` // transition level: Prepare calls Ensure() like CallHandler does
	Faults []int `json:"f,omitempty"`      // C10: attempt k (0-based) ends with Faults[k]; attempts beyond succeed
}

func (p *hxProg) String() string {
	var sb strings.Builder
	switch p.World {
	case hxWorldRead:
		sb.WriteString("WR ")
	case hxWorldWrite:
		sb.WriteString("WW ")
	}
	fmt.Fprintf(&sb, "r%v x%v s%d", p.Reads, p.Writes, p.Salt)
	if len(p.Idle) > 0 {
		fmt.Fprintf(&sb, " i%v", p.Idle)
	}
	if p.Redo {
		sb.WriteString(" redo")
	}
	if p.Ensure {
		sb.WriteString(" ens")
	}
	if len(p.Faults) > 0 {
		fmt.Fprintf(&sb, " f%v", p.Faults)
	}
	return sb.String()
}

func hxAccountID(a int) []byte {
	b := make([]byte, 20)
	b[0] = 0xA0
	b[18] = byte(a >> 8)
	b[19] = byte(a)
	return common.NewAccountAddress(b).ID()
}

func hxTxAddr(kind byte, idx int) *common.Address {
	b := make([]byte, 20)
	b[0] = kind
	b[18] = byte(idx >> 8)
	b[19] = byte(idx)
	return common.NewAccountAddress(b)
}

// hxLockRequests renders the declared locks of p.
func hxLockRequests(p *hxProg) []state.LockRequest {
	var lq []state.LockRequest
	switch p.World {
	case hxWorldWrite:
		// the world write lock covers everything
		return []state.LockRequest{{ID: state.WorldIDStr, Lock: state.AccountWriteLock}}
	case hxWorldRead:
		lq = append(lq, state.LockRequest{ID: state.WorldIDStr, Lock: state.AccountReadLock})
	}
	for _, a := range p.Reads {
		lq = append(lq, state.LockRequest{ID: string(hxAccountID(a)), Lock: state.AccountReadLock})
	}
	for _, a := range p.Writes {
		lq = append(lq, state.LockRequest{ID: string(hxAccountID(a)), Lock: state.AccountWriteLock})
	}
	for _, a := range p.Idle {
		lq = append(lq, state.LockRequest{ID: string(hxAccountID(a)), Lock: state.AccountWriteLock})
	}
	return lq
}

var hxKeys = [][]byte{[]byte("k0"), []byte("k1"), []byte("k2")}

func hxObserve(a int, as state.AccountState) string {
	if as == nil {
		return fmt.Sprintf("a%d=<nil state>", a)
	}
	var sb strings.Builder
	fmt.Fprintf(&sb, "a%d=%s", a, as.GetBalance().String())
	for _, k := range hxKeys {
		v, err := as.GetValue(k)
		if err != nil {
			fmt.Fprintf(&sb, "/err:%v", err)
		} else {
			fmt.Fprintf(&sb, "/%x", v)
		}
	}
	return sb.String()
}

// hxRunBody interprets p (block index idx) on the accounts handed out by get. It returns the
// rendering of every value it read. mid, if not nil, is called between the read phase and the
// write phase. Writes are functions of everything read, so a wrong read propagates into the
// final state as well.
func hxRunBody(idx int, p *hxProg, get func(a int) state.AccountState, mid func()) string {
	var obs []string
	for _, a := range p.Reads {
		obs = append(obs, hxObserve(a, get(a)))
	}
	ws := make([]state.AccountState, len(p.Writes))
	for i, a := range p.Writes {
		ws[i] = get(a)
		obs = append(obs, hxObserve(a, ws[i]))
	}
	res := strings.Join(obs, " ")
	if mid != nil {
		mid()
	}
	h := sha256.Sum256([]byte(fmt.Sprintf("%d|%d|%s", idx, p.Salt, res)))
	for i, as := range ws {
		if as == nil {
			continue
		}
		old := as.GetBalance()
		nb := new(big.Int).Mul(old, big.NewInt(31))
		nb.Add(nb, big.NewInt(int64(h[i%32])+1))
		nb.Mod(nb, big.NewInt(1000003))
		as.SetBalance(nb)
		key := hxKeys[int(h[(i+1)%32])%len(hxKeys)]
		if h[(i+2)%32]%5 == 0 {
			_, _ = as.DeleteValue(key)
		} else {
			_, _ = as.SetValue(key, h[(i+3)%24:(i+3)%24+1+int(h[(i+4)%32]%6)])
		}
	}
	return res
}

// hxGarbage writes values unrelated to the program into its write set (used before a Reset).
func hxGarbage(p *hxProg, get func(a int) state.AccountState) {
	for _, a := range p.Writes {
		if as := get(a); as != nil {
			as.SetBalance(big.NewInt(999999))
			_, _ = as.SetValue(hxKeys[0], []byte("garbage"))
			_, _ = as.SetValue(hxKeys[2], []byte("garbage2"))
		}
	}
}

// hxConflict reports whether programs p and q may not be reordered: a world write lock
// conflicts with everything that touches state, otherwise they conflict when one writes an
// account the other reads or writes (a world read lock reads every account).
func hxConflict(p, q *hxProg) bool {
	touches := func(x *hxProg) bool {
		return x.World != hxWorldNone || len(x.Reads)+len(x.Writes)+len(x.Idle) > 0
	}
	if p.World == hxWorldWrite {
		return touches(q)
	}
	if q.World == hxWorldWrite {
		return touches(p)
	}
	inter := func(a, b []int) bool {
		for _, x := range a {
			for _, y := range b {
				if x == y {
					return true
				}
			}
		}
		return false
	}
	// an idle write lock is a write lock for the lock discipline
	pw := append(append([]int(nil), p.Writes...), p.Idle...)
	qw := append(append([]int(nil), q.Writes...), q.Idle...)
	if inter(pw, qw) || inter(pw, q.Reads) || inter(p.Reads, qw) {
		return true
	}
	if p.World == hxWorldRead && len(qw) > 0 {
		return true
	}
	if q.World == hxWorldRead && len(pw) > 0 {
		return true
	}
	return false
}

// hxDrawSubset draws a sorted subset of [0,n) with at most max elements.
func hxDrawSubset(rt *rapid.T, label string, n, max int) []int {
	k := rapid.IntRange(0, max).Draw(rt, label+".n")
	m := map[int]bool{}
	for i := 0; i < k; i++ {
		m[rapid.IntRange(0, n-1).Draw(rt, label)] = true
	}
	var out []int
	for a := range m {
		out = append(out, a)
	}
	sort.Ints(out)
	return out
}

// hxDrawProg draws one program over nAcc accounts. allowWorldRead: include whole-world read
// locks (no production handler requests one; see C09 notes).
func hxDrawProg(rt *rapid.T, nAcc int, allowWorldRead bool) hxProg {
	var p hxProg
	switch w := rapid.IntRange(0, 11).Draw(rt, "world"); {
	case w == 10 || w == 11:
		p.World = hxWorldWrite
	case w == 9 && allowWorldRead:
		p.World = hxWorldRead
	}
	p.Writes = hxDrawSubset(rt, "writes", nAcc, 2)
	rd := hxDrawSubset(rt, "reads", nAcc, 2)
	for _, a := range rd {
		dup := false
		for _, b := range p.Writes {
			dup = dup || a == b
		}
		if !dup {
			p.Reads = append(p.Reads, a)
		}
	}
	if p.World != hxWorldWrite && rapid.IntRange(0, 3).Draw(rt, "idle") == 3 {
		a := rapid.IntRange(0, nAcc-1).Draw(rt, "idleAcc")
		used := false
		for _, b := range append(append([]int(nil), p.Writes...), p.Reads...) {
			used = used || a == b
		}
		if !used {
			p.Idle = []int{a}
		}
	}
	p.Salt = rapid.IntRange(0, 255).Draw(rt, "salt")
	return p
}

// ---------------------------------------------------------------- run recorder

type hxAttempt struct {
	Obs   string // values read by this attempt
	Fault int    // 0 = returned a receipt
	Rct   txresult.Receipt
}

// hxRun collects what the handlers saw while a block executed.
type hxRun struct {
	mu       sync.Mutex
	attempts [][]hxAttempt // per transaction index
	inflight int32
	note     []string
	started  []int // transaction indices in the order their handlers were entered
}

func hxNewRun(n int) *hxRun { return &hxRun{attempts: make([][]hxAttempt, n)} }

func (r *hxRun) add(idx int, a hxAttempt) {
	r.mu.Lock()
	r.attempts[idx] = append(r.attempts[idx], a)
	r.mu.Unlock()
}

func (r *hxRun) get(idx int) []hxAttempt {
	r.mu.Lock()
	defer r.mu.Unlock()
	return append([]hxAttempt(nil), r.attempts[idx]...)
}

// waitIdle waits (bounded) until no handler is executing any more; only hygiene between cases.
func (r *hxRun) waitIdle(d time.Duration) bool {
	dl := time.Now().Add(d)
	for atomic.LoadInt32(&r.inflight) != 0 {
		if time.Now().After(dl) {
			return false
		}
		time.Sleep(200 * time.Microsecond)
	}
	return true
}

// ---------------------------------------------------------------- the transaction

type hxTx struct {
	idx  int
	prog hxProg
	run  *hxRun
	tag  string // distinguishes blocks so ids differ between cases sharing nothing anyway
	from *common.Address
	to   *common.Address
	bs   []byte
	id   []byte
	try  int32
}

func hxNewTx(idx int, p hxProg, run *hxRun, tag string) *hxTx {
	js, _ := json.Marshal(p)
	bs := []byte(fmt.Sprintf("{\"hx\":%q,\"i\":%d,\"p\":%s}", tag, idx, js))
	h := sha256.Sum256(bs)
	return &hxTx{idx: idx, prog: p, run: run, tag: tag,
		from: hxTxAddr(0xF0, idx), to: hxTxAddr(0xE0, idx), bs: bs, id: h[:]}
}

func (t *hxTx) Group() module.TransactionGroup { return module.TransactionGroupNormal }
func (t *hxTx) ID() []byte                     { return t.id }
func (t *hxTx) From() module.Address           { return t.from }
func (t *hxTx) Bytes() []byte                  { return t.bs }
func (t *hxTx) Hash() []byte                   { return t.id }
func (t *hxTx) Verify() error                  { return nil }
func (t *hxTx) Version() int                   { return module.TransactionVersion3 }
func (t *hxTx) ToJSON(module.JSONVersion) (interface{}, error) {
	return map[string]interface{}{"hx": t.tag, "i": t.idx}, nil
}
func (t *hxTx) ValidateNetwork(int) bool                   { return true }
func (t *hxTx) PreValidate(state.WorldContext, bool) error { return nil }
func (t *hxTx) Timestamp() int64                           { return 0 }
func (t *hxTx) Nonce() *big.Int                            { return nil }
func (t *hxTx) To() module.Address                         { return t.to }
func (t *hxTx) IsSkippable() bool                          { return false }
func (t *hxTx) GetHandler(contract.ContractManager) (transaction.Handler, error) {
	return &hxHandler{tx: t}, nil
}

type hxHandler struct{ tx *hxTx }

func (h *hxHandler) Prepare(ctx contract.Context) (state.WorldContext, error) {
	wc := ctx.GetFuture(hxLockRequests(&h.tx.prog))
	if h.tx.prog.Ensure {
		wc.WorldVirtualState().Ensure()
	}
	return wc, nil
}

func hxFaultError(kind int) error {
	switch kind {
	case hxFaultRetryable:
		return errors.ExecutionFailError.New("hx scripted retryable failure")
	case hxFaultRerun:
		return errors.CriticalRerunError.New("hx scripted rerun request")
	case hxFaultInvalid:
		return errors.InvalidStateError.New("hx scripted non-retryable failure")
	case hxFaultCritical:
		return errors.CriticalUnknownError.New("hx scripted critical failure")
	default:
		return fmt.Errorf("hx scripted plain failure")
	}
}

func hxRetryable(kind int) bool { return kind == hxFaultRetryable || kind == hxFaultRerun }

// hxStamp is what a receipt of transaction idx produced by attempt try carries as stepUsed.
func hxStamp(idx, try int) int64 { return int64(idx+1)*1000 + int64(try) }

func (h *hxHandler) Execute(ctx contract.Context, wcs state.WorldSnapshot, estimate bool) (txresult.Receipt, error) {
	t := h.tx
	atomic.AddInt32(&t.run.inflight, 1)
	defer atomic.AddInt32(&t.run.inflight, -1)
	try := int(atomic.AddInt32(&t.try, 1)) - 1
	t.run.mu.Lock()
	t.run.started = append(t.run.started, t.idx)
	t.run.mu.Unlock()
	get := func(a int) state.AccountState { return ctx.GetAccountState(hxAccountID(a)) }
	if t.prog.Redo {
		hxGarbage(&t.prog, get)
		if err := ctx.Reset(wcs); err != nil {
			t.run.mu.Lock()
			t.run.note = append(t.run.note, fmt.Sprintf("tx %d: Reset failed: %v", t.idx, err))
			t.run.mu.Unlock()
		}
	}
	obs := hxRunBody(t.idx, &t.prog, get, nil)
	if try < len(t.prog.Faults) {
		t.run.add(t.idx, hxAttempt{Obs: obs, Fault: t.prog.Faults[try]})
		return nil, hxFaultError(t.prog.Faults[try])
	}
	r := txresult.NewReceipt(ctx.Database(), ctx.Revision(), t.to)
	r.AddLog(t.to, [][]byte{[]byte("Obs(str)")}, [][]byte{[]byte(obs)})
	r.SetResult(module.StatusSuccess, big.NewInt(hxStamp(t.idx, try)), big.NewInt(0), nil)
	t.run.add(t.idx, hxAttempt{Obs: obs, Rct: r})
	return r, nil
}

func (h *hxHandler) Dispose() {}

// ---------------------------------------------------------------- environment

type hxChain struct {
	*test.Chain
	level int
}

func (c *hxChain) ConcurrencyLevel() int { return c.level }

type hxNullT struct{}

func (hxNullT) Errorf(string, ...interface{}) {}
func (hxNullT) Logf(string, ...any)           {}

type hxEnv struct {
	dbase  db.Database
	chain  *hxChain
	logger log.Logger
	cm     contract.ContractManager
	init   module.Transition
}

var hxWallet = wallet.New()

// hxResult mirrors the leading fields of service's transition result encoding
// (a list of state hash, patch receipt hash, normal receipt hash; the rest is optional).
type hxResult struct {
	StateHash         []byte
	PatchReceiptHash  []byte
	NormalReceiptHash []byte
}

// hxNewEnv builds a fresh database whose world state holds the initial account values, a chain
// with the given concurrency level and the initial transition on top of that state.
// dir is a directory for the (unused) contract store. A returned error is a harness problem.
// hxSlowLog > 0 makes the next environment's logger write warnings to a sink that takes this long per line.
var hxSlowLog time.Duration

type hxSlowWriter struct{ d time.Duration }

func (w hxSlowWriter) Write(p []byte) (int, error) {
	time.Sleep(w.d)
	return len(p), nil
}

func hxNewEnv(level int, dir string, nAcc int, seedVal int) (*hxEnv, error) {
	dbase := db.NewMapDB()
	logger := log.New()
	logger.SetOutput(io.Discard)
	logger.SetLevel(log.PanicLevel)
	if hxSlowLog > 0 {
		logger.SetOutput(hxSlowWriter{hxSlowLog})
		logger.SetLevel(log.WarnLevel)
		logger.SetConsoleLevel(log.WarnLevel)
	}
	tc, err := test.NewChain(hxNullT{}, hxWallet, dbase, logger, consensus.NewCommitVoteSetFromBytes, "{}")
	if err != nil {
		return nil, err
	}
	ch := &hxChain{Chain: tc, level: level}
	cm, err := basic.Platform.NewContractManager(dbase, dir, logger)
	if err != nil {
		ch.Close()
		return nil, err
	}
	ws := state.NewWorldState(dbase, nil, nil, nil, nil)
	hxSeedState(ws, nAcc, seedVal)
	wss := ws.GetSnapshot()
	if err := wss.Flush(); err != nil {
		ch.Close()
		return nil, err
	}
	res, err := codec.BC.MarshalToBytes(&hxResult{StateHash: wss.StateHash()})
	if err != nil {
		ch.Close()
		return nil, err
	}
	init, err := service.NewInitTransition(dbase, res, nil, cm, nil, ch, logger, basic.Platform, service.NewTimestampChecker())
	if err != nil {
		ch.Close()
		return nil, err
	}
	return &hxEnv{dbase: dbase, chain: ch, logger: logger, cm: cm, init: init}, nil
}

func (e *hxEnv) close() { e.chain.Close() }

// hxSeedState gives every account of the universe a non-trivial initial value.
func hxSeedState(ws state.WorldState, nAcc int, seedVal int) {
	for a := 0; a < nAcc; a++ {
		as := ws.GetAccountState(hxAccountID(a))
		as.SetBalance(big.NewInt(int64(100 + 7*a + seedVal)))
		if (a+seedVal)%2 == 0 {
			_, _ = as.SetValue(hxKeys[a%len(hxKeys)], []byte{byte(a + 1), byte(seedVal)})
		}
	}
}

type hxCallback struct {
	ch chan error
	vl chan error
}

func (c *hxCallback) OnValidate(tr module.Transition, err error) {
	select {
	case c.vl <- err:
	default:
	}
	if err != nil {
		select {
		case c.ch <- err:
		default:
		}
	}
}
func (c *hxCallback) OnExecute(tr module.Transition, err error) {
	select {
	case c.ch <- err:
	default:
	}
}

type hxOutcome struct {
	tr       module.Transition
	err      error // nil = the block was reported as successfully executed
	timedOut bool
}

// hxExecBlock executes txs as block height 1 on top of the initial transition.
func (e *hxEnv) hxExecBlock(txs []*hxTx, wait time.Duration) hxOutcome {
	lst := make([]module.Transaction, len(txs))
	for i, t := range txs {
		lst[i] = transaction.Wrap(t)
	}
	tl := transaction.NewTransactionListFromSlice(e.dbase, lst)
	tr := service.NewTransition(e.init, nil, tl, common.NewBlockInfo(1, 1000), common.NewConsensusInfo(nil, nil, nil), true)
	cb := &hxCallback{ch: make(chan error, 2), vl: make(chan error, 2)}
	if _, err := tr.Execute(cb); err != nil {
		return hxOutcome{tr: tr, err: err}
	}
	tm := time.NewTimer(wait)
	defer tm.Stop()
	select {
	case err := <-cb.ch:
		return hxOutcome{tr: tr, err: err}
	case <-tm.C:
		return hxOutcome{tr: tr, timedOut: true}
	}
}

func hxTmpDir() string {
	d, err := os.MkdirTemp("", "hexec")
	if err != nil {
		return ""
	}
	return d
}

func hxHex(b []byte) string { return hex.EncodeToString(b) }
