package hexec

import (
	"encoding/json"
	"fmt"
	"math/big"
	"os"
	"testing"
	"time"

	"github.com/icon-project/goloop/module"
	"github.com/icon-project/goloop/service"
	"pgregory.net/rapid"

	"verifharness/internal/ev"
)

// C10: executing a block either produces exactly one result for every transaction, in block
// order, or fails the whole block execution with an error; a transaction whose execution fails
// with a non-retryable error is never skipped while the block is reported as successfully
// executed. Sequential and concurrent modes alike.
//
// Subject: goloop's real transitions (service.NewTransition + Execute) over a block of harness
// transactions whose handlers follow a generated fault script; the chain's ConcurrencyLevel
// selects executeTxsSequential (1) or executeTxsConcurrent (2,4,8).
//
// Oracle (observational, needs no model of the retry policy): when OnExecute reports success,
//   - the receipt list has exactly n entries,
//   - entry i is the receipt that the LAST Execute call of transaction i returned (stamp =
//     (index, attempt), To = per-index address, cumulative step = prefix sum in block order),
//   - hence no transaction whose last attempt ended in an error may be present in a
//     successfully executed block.
// When OnExecute (or OnValidate/Execute) reports an error the statement is satisfied.
// The death of the process (nil receipt dereferenced in goloop's own goroutine) is reported
// through the crash journal: the case is journalled before it is executed.
//
// Not decided here (the statement does not say it): that a block with only recoverable faults
// (<= RetryCount retryable failures per transaction) must succeed. It is measured and
// labelled ("recoverable-but-errored"); a fault-free block that errors is treated as a
// harness problem (inconclusive).

type c10Case struct {
	Prop  string   `json:"prop"`
	Level int      `json:"level"`
	Acc   int      `json:"acc"`
	Seed  int      `json:"seed"`
	Progs []hxProg `json:"progs"`
	// SlowLogUs > 0: the node's logger writes warnings, and every written line takes this many
	// microseconds (a log file on a slow disk). A pure schedule perturbation: it widens every window
	// between a worker's steps that has a log statement in it.
	SlowLogUs int `json:"slowLogUs,omitempty"`
}

func (c *c10Case) desc() string {
	b, _ := json.Marshal(c)
	return string(b)
}

// c10Terminal applies the documented retry policy to a fault script: true when the
// transaction ends without a receipt (non-retryable failure or more than RetryCount
// retryable ones). Used for classification (labels, non-trivial rule) only.
func c10Terminal(faults []int) bool {
	for retry := 0; ; retry++ {
		if retry >= len(faults) {
			return false
		}
		if !hxRetryable(faults[retry]) {
			return true
		}
		if retry >= service.RetryCount {
			return true
		}
	}
}

func c10DrawScript(rt *rapid.T) []int {
	retr := rapid.SampledFrom([]int{hxFaultRetryable, hxFaultRerun})
	nonr := rapid.SampledFrom([]int{hxFaultInvalid, hxFaultCritical, hxFaultPlain})
	var s []int
	switch rapid.IntRange(0, 5).Draw(rt, "scriptClass") {
	case 0: // non-retryable at once
		s = append(s, nonr.Draw(rt, "nonretryable"))
	case 1, 2: // recoverable: 1..RetryCount retryable failures, then success
		k := rapid.IntRange(1, service.RetryCount).Draw(rt, "k")
		for i := 0; i < k; i++ {
			s = append(s, retr.Draw(rt, "retryable"))
		}
	case 3: // retry exhausted
		for i := 0; i <= service.RetryCount; i++ {
			s = append(s, retr.Draw(rt, "retryable"))
		}
	case 4: // some retries, then a non-retryable failure
		k := rapid.IntRange(1, service.RetryCount).Draw(rt, "k")
		for i := 0; i < k; i++ {
			s = append(s, retr.Draw(rt, "retryable"))
		}
		s = append(s, nonr.Draw(rt, "nonretryable"))
	case 5: // longer than the policy ever looks at
		k := rapid.IntRange(service.RetryCount+2, service.RetryCount+4).Draw(rt, "k")
		for i := 0; i < k; i++ {
			s = append(s, retr.Draw(rt, "retryable"))
		}
	}
	return s
}

func c10Draw(rt *rapid.T) *c10Case {
	c := &c10Case{Prop: "C10"}
	c.Level = rapid.SampledFrom([]int{1, 2, 4, 8, 4, 2}).Draw(rt, "level")
	c.Acc = rapid.IntRange(2, 5).Draw(rt, "accounts")
	c.Seed = rapid.IntRange(0, 9).Draw(rt, "seed")
	if rapid.IntRange(0, 2).Draw(rt, "slowLog") == 0 {
		c.SlowLogUs = rapid.SampledFrom([]int{200, 1000, 3000}).Draw(rt, "slowLogUs")
	}
	n := rapid.IntRange(1, ev.Pick(12, 24)).Draw(rt, "n")
	if c.SlowLogUs > 0 && rapid.Bool().Draw(rt, "shortBlock") {
		n = rapid.IntRange(1, 3).Draw(rt, "nShort") // the last transaction is the one everybody waits for
	}
	for i := 0; i < n; i++ {
		p := hxDrawProg(rt, c.Acc, false)
		if rapid.IntRange(0, 9).Draw(rt, "ensure") == 9 {
			p.Ensure = true
		}
		c.Progs = append(c.Progs, p)
	}
	nf := rapid.SampledFrom([]int{1, 1, 1, 2, 2, 3, 0}).Draw(rt, "faulted")
	for f := 0; f < nf; f++ {
		var pos int
		switch rapid.IntRange(0, 4).Draw(rt, "posClass") {
		case 0:
			pos = 0
		case 1:
			pos = n - 1
		default:
			pos = rapid.IntRange(0, n-1).Draw(rt, "pos")
		}
		c.Progs[pos].Faults = c10DrawScript(rt)
	}
	return c
}

type c10Class struct {
	faulted, terminal, recoverable int
	terminalNotFirst               bool
	labels                         []string
}

func c10Classify(c *c10Case) c10Class {
	var k c10Class
	seen := map[string]bool{}
	add := func(l string) {
		if !seen[l] {
			seen[l] = true
			k.labels = append(k.labels, l)
		}
	}
	if c.Level > 1 {
		add("mode-concurrent")
	} else {
		add("mode-sequential")
	}
	add(fmt.Sprintf("level-%d", c.Level))
	n := len(c.Progs)
	for i := range c.Progs {
		f := c.Progs[i].Faults
		if len(f) == 0 {
			continue
		}
		k.faulted++
		switch {
		case i == 0:
			add("fault-at-first")
		case i == n-1:
			add("fault-at-last")
		default:
			add("fault-in-middle")
		}
		if c10Terminal(f) {
			k.terminal++
			if i > 0 {
				k.terminalNotFirst = true
			}
			last := f[len(f)-1]
			if len(f) > service.RetryCount && hxRetryable(f[service.RetryCount]) {
				// the policy gives up on the (RetryCount+1)-th retryable failure
				allRetr := true
				for _, x := range f[:service.RetryCount+1] {
					allRetr = allRetr && hxRetryable(x)
				}
				if allRetr {
					add("kind-retry-exhausted")
					continue
				}
			}
			if len(f) == 1 {
				add("kind-nonretryable-at-once")
			} else if !hxRetryable(last) {
				add("kind-nonretryable-after-retries")
			}
		} else {
			k.recoverable++
			add("kind-recoverable")
		}
	}
	if k.faulted == 0 {
		add("no-fault")
	}
	if k.terminal > 0 {
		add("expect-error")
	} else {
		add("expect-success")
	}
	if c.Level > 1 && k.terminalNotFirst {
		add("concurrent-terminal-not-first")
	}
	if c.Level == 1 && k.terminal > 0 {
		add("sequential-terminal")
	}
	return k
}

// c10Exec runs the case and returns "" or the violation text. skip is set when the case could
// not be decided (bounded wait expired).
func c10Exec(c *c10Case, dir string, rec *ev.Rec) (viol string, skip string) {
	hxSlowLog = time.Duration(c.SlowLogUs) * time.Microsecond
	env, err := hxNewEnv(c.Level, dir, c.Acc, c.Seed)
	hxSlowLog = 0
	if err != nil {
		ev.Inconclusive("C10: cannot build environment: %v", err)
	}
	defer env.close()
	if c.SlowLogUs > 0 {
		rec.Label("slow-logger")
	}
	n := len(c.Progs)
	run := hxNewRun(n)
	txs := make([]*hxTx, n)
	for i := range c.Progs {
		txs[i] = hxNewTx(i, c.Progs[i], run, "c10")
	}
	out := env.hxExecBlock(txs, 90*time.Second)
	if out.timedOut {
		return "", "block execution did not report within 90s"
	}
	if !run.waitIdle(20 * time.Second) {
		rec.Label("handlers-still-running-after-report")
	}
	cls := c10Classify(c)
	if out.err != nil {
		rec.Label("outcome-error")
		if cls.faulted == 0 {
			ev.Inconclusive("C10: fault-free block %s failed: %v", c.desc(), out.err)
		}
		if cls.terminal == 0 {
			rec.Label("recoverable-but-errored")
		}
		return "", ""
	}
	rec.Label("outcome-success")
	// the block is reported as successfully executed: one result per transaction, in order
	rl := out.tr.NormalReceipts()
	if rl == nil {
		return fmt.Sprintf("block reported success but NormalReceipts() is nil; case %s", c.desc()), ""
	}
	cnt := 0
	for it := rl.Iterator(); it.Has(); _ = it.Next() {
		cnt++
		if cnt > n+1 {
			break
		}
	}
	if cnt != n {
		return fmt.Sprintf("block reported success with %d receipts for %d transactions; case %s", cnt, n, c.desc()), ""
	}
	if out.tr.Result() == nil {
		return fmt.Sprintf("block reported success but Result() is nil; case %s", c.desc()), ""
	}
	cum := new(big.Int)
	for i := 0; i < n; i++ {
		at := run.get(i)
		if len(at) == 0 {
			return fmt.Sprintf("block reported success but transaction %d was never executed; case %s", i, c.desc()), ""
		}
		last := at[len(at)-1]
		if last.Fault != 0 {
			return fmt.Sprintf("block reported success although the last attempt (%d) of transaction %d failed with fault kind %d (retryable=%v): the transaction was dropped; case %s",
				len(at)-1, i, last.Fault, hxRetryable(last.Fault), c.desc()), ""
		}
		r, err := rl.Get(i)
		if err != nil || r == nil {
			return fmt.Sprintf("block reported success but receipt %d is missing (%v); case %s", i, err, c.desc()), ""
		}
		want := hxStamp(i, len(at)-1)
		if r.StepUsed() == nil || r.StepUsed().Int64() != want || !r.To().Equal(txs[i].to) || r.Status() != module.StatusSuccess {
			return fmt.Sprintf("receipt %d is not the result of transaction %d's last attempt: stepUsed=%v want %d, to=%v want %v; case %s",
				i, i, r.StepUsed(), want, r.To(), txs[i].to, c.desc()), ""
		}
		cum.Add(cum, big.NewInt(want))
		if r.CumulativeStepUsed().Cmp(cum) != 0 {
			return fmt.Sprintf("receipt %d: cumulative steps %v, block-order prefix sum %v; case %s", i, r.CumulativeStepUsed(), cum, c.desc()), ""
		}
	}
	return "", ""
}

func TestC10(t *testing.T) {
	rec := ev.New("C10", "blocks of 1..12 (thorough ..24) programmable transactions over 2..5 accounts with drawn account/world locks, 0..3 of them carrying a fault script (non-retryable at once | 1..RetryCount retryable then success | RetryCount+1 retryable | retryable then non-retryable | longer), positions biased to first/last, ConcurrencyLevel in {1,2,4,8}, executed by goloop's real transitions; non-trivial = at least one transaction carries a fault script (class labels tell mode, kind, position; 'concurrent-terminal-not-first' is the class that needs the shared error latch); distinct by the whole case (level, accounts, programs, scripts)")
	defer rec.Flush(t)
	dir := hxTmpDir()
	if dir == "" {
		ev.Inconclusive("C10: cannot create temp dir")
	}
	defer os.RemoveAll(dir)

	runCase := func(c *c10Case, fail func(format string, args ...interface{})) {
		d := c.desc()
		ev.Journal(d)
		viol, skip := c10Exec(c, dir, rec)
		cls := c10Classify(c)
		if skip != "" {
			rec.Case(d, false, "undecided-timeout")
			return
		}
		rec.Case(d, cls.faulted > 0, cls.labels...)
		if viol != "" {
			fail("C10 violated: %s", viol)
		}
	}

	if j, ok := ev.ReplayJournal(); ok {
		var c c10Case
		if err := json.Unmarshal([]byte(j), &c); err != nil || c.Prop != "C10" {
			ev.Inconclusive("C10: journal is not a C10 case: %v", err)
		}
		t.Run("replay", func(t *testing.T) {
			runCase(&c, t.Fatalf)
		})
		return
	}

	t.Run("anchor", func(t *testing.T) {
		// the configuration named in the design notes: level 4, 5 transactions, #2 fails non-retryably
		for _, lvl := range []int{1, 2, 4, 8} {
			for pos := 0; pos < 5; pos++ {
				for _, kind := range []int{hxFaultInvalid, hxFaultRetryable} {
					c := &c10Case{Prop: "C10", Level: lvl, Acc: 3}
					for i := 0; i < 5; i++ {
						c.Progs = append(c.Progs, hxProg{Writes: []int{i % 3}, Salt: i})
					}
					if kind == hxFaultInvalid {
						c.Progs[pos].Faults = []int{kind}
					} else {
						c.Progs[pos].Faults = []int{kind, kind, kind}
					}
					runCase(c, t.Fatalf)
				}
			}
		}
	})
	t.Run("random", func(t *testing.T) {
		ev.Check(t, 1500, 20000, func(rt *rapid.T) {
			c := c10Draw(rt)
			runCase(c, rt.Fatalf)
		})
	})
}
