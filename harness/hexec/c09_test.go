package hexec

import (
	"bytes"
	"encoding/json"
	"fmt"
	"os"
	"strings"
	"sync"
	"sync/atomic"
	"testing"
	"time"

	"github.com/icon-project/goloop/common/db"
	"github.com/icon-project/goloop/service"
	"github.com/icon-project/goloop/service/state"
	"pgregory.net/rapid"

	"verifharness/internal/ev"
)

// C09: when a block's transactions are executed concurrently, the resulting world state, state
// hash and per-transaction results are identical to executing them one by one in block order,
// for every goroutine schedule; a transaction only observes state as of all earlier
// transactions that touch the accounts it declared.
//
// (i)  "schedule": virtual-state level with a harness-owned schedule. A block of programs
//      (declared account read/write locks or a world lock; body = read declared accounts,
//      then read-modify-write the write-locked ones as a function of everything read) is
//      executed on state.NewWorldVirtualState + GetFuture in block order — exactly the calls
//      the concurrent dispatcher makes — with every body in its own goroutine. The bodies are
//      gated at start, before the write phase and before Commit by tokens which the harness
//      hands out in a drawn order. Reference: the same bodies one by one on a plain WorldState.
//      Oracle: every value each body read equals what it reads in the reference run, and the
//      state hash after Realize (of the last future and of the underlying world state) equals
//      the reference hash.
// (ii) "transition": the same kind of block through goloop's real transitions at
//      ConcurrencyLevel 1,2,4,8 (Go runtime owns the schedule): result bytes (state hash,
//      receipt hashes), every receipt and every value read must equal level 1, and the values
//      read must equal the plain reference as well.
//
// Preconditions taken from the callers (service/state/worldcontext.go GetFuture,
// service/transition_pe.go): every future also read-locks the system account and the
// dispatcher reads it (UpdateSystemInfo) before the handler runs; bodies touch only what they
// declared. The "dispatcher-like" cases reproduce that; "raw" cases (labelled) use the
// WorldVirtualState API without that first read.
//
// A blocked body (waiting inside goloop for a predecessor's Commit) cannot wedge the harness:
// after a token is issued the harness waits for the body to reach its next gate only for a
// short grace period and then goes on issuing the other tokens. Grace expiry changes which
// interleaving is explored, never the verdict. All tokens are always issued, so every body
// eventually commits; a bounded final wait maps to "inconclusive".

const (
	c09StagePrepared = iota
	c09StageRead     // read phase done, waiting for the write token
	c09StageWritten  // write phase done, waiting for the commit token
	c09StageDone
)

type c09Case struct {
	Prop  string   `json:"prop"`
	Acc   int      `json:"acc"`
	Seed  int      `json:"seed"`
	Raw   bool     `json:"raw,omitempty"` // no system-account read lock / first read
	Progs []hxProg `json:"progs"`
	Order string   `json:"order"` // drawn token order, e.g. "P0 P1 S1 S0 W0 C0 W1 C1"
	// transition level only
	Levels []int `json:"levels,omitempty"`
}

func (c *c09Case) desc() string {
	b, _ := json.Marshal(c)
	return string(b)
}

type c09Event struct {
	kind byte // 'P' prepare (GetFuture), 'S' start/read, 'W' write, 'C' commit
	idx  int
}

func c09ParseOrder(s string) ([]c09Event, error) {
	var out []c09Event
	for _, f := range strings.Fields(s) {
		var e c09Event
		if _, err := fmt.Sscanf(f[1:], "%d", &e.idx); err != nil || strings.IndexByte("PSWC", f[0]) < 0 {
			return nil, fmt.Errorf("bad event %q", f)
		}
		e.kind = f[0]
		out = append(out, e)
	}
	return out, nil
}

// c09DrawOrder draws a linear extension of: P0<P1<..., Pi<Si<Wi<Ci.
func c09DrawOrder(rt *rapid.T, n int) string {
	stage := make([]int, n) // 0: not prepared, 1: prepared, 2: started, 3: written, 4: committed
	nextP := 0
	var sb strings.Builder
	// style biases the interleaving: 0 uniform, 1 prefer preparing everything first and
	// starting late programs first, 2 dispatcher-like (start right after prepare)
	style := rapid.IntRange(0, 2).Draw(rt, "style")
	for {
		type cand struct {
			k byte
			i int
		}
		var cs []cand
		if nextP < n {
			cs = append(cs, cand{'P', nextP})
		}
		for i := n - 1; i >= 0; i-- {
			switch stage[i] {
			case 1:
				cs = append(cs, cand{'S', i})
			case 2:
				cs = append(cs, cand{'W', i})
			case 3:
				cs = append(cs, cand{'C', i})
			}
		}
		if len(cs) == 0 {
			break
		}
		var pick int
		switch style {
		case 1:
			// candidates are listed P first, then programs from the last to the first
			if rapid.IntRange(0, 3).Draw(rt, "greedy") != 0 {
				pick = 0
			} else {
				pick = rapid.IntRange(0, len(cs)-1).Draw(rt, "pick")
			}
		case 2:
			if rapid.IntRange(0, 2).Draw(rt, "fifo") != 0 {
				pick = len(cs) - 1
			} else {
				pick = rapid.IntRange(0, len(cs)-1).Draw(rt, "pick")
			}
		default:
			pick = rapid.IntRange(0, len(cs)-1).Draw(rt, "pick")
		}
		c := cs[pick]
		if sb.Len() > 0 {
			sb.WriteByte(' ')
		}
		fmt.Fprintf(&sb, "%c%d", c.k, c.i)
		if c.k == 'P' {
			stage[nextP] = 1
			nextP++
		} else {
			stage[c.i]++
		}
	}
	return sb.String()
}

// c09Reference runs the programs one by one on a plain world state.
func c09Reference(c *c09Case) (obs []string, hash []byte) {
	ws := state.NewWorldState(db.NewMapDB(), nil, nil, nil, nil)
	hxSeedState(ws, c.Acc, c.Seed)
	ws.GetSnapshot()
	get := func(a int) state.AccountState { return ws.GetAccountState(hxAccountID(a)) }
	for i := range c.Progs {
		obs = append(obs, hxRunBody(i, &c.Progs[i], get, nil))
	}
	return obs, ws.GetSnapshot().StateHash()
}

// c09OutOfOrder counts pairs i<j of conflicting programs whose start token (S) was drawn
// for j before i.
func c09OutOfOrder(c *c09Case, order []c09Event) int {
	pos := map[int]int{}
	for k, e := range order {
		if e.kind == 'S' {
			pos[e.idx] = k
		}
	}
	cnt := 0
	for i := range c.Progs {
		for j := i + 1; j < len(c.Progs); j++ {
			if hxConflict(&c.Progs[i], &c.Progs[j]) && pos[j] < pos[i] {
				cnt++
			}
		}
	}
	return cnt
}

func c09ConflictPairs(ps []hxProg) int {
	cnt := 0
	for i := range ps {
		for j := i + 1; j < len(ps); j++ {
			if hxConflict(&ps[i], &ps[j]) {
				cnt++
			}
		}
	}
	return cnt
}

type c09Body struct {
	stage int32
	tok   chan struct{}
	obs   string
	fail  string
}

type c09ScheduleResult struct {
	viol    string
	blocked int // grace expiries (exploration statistic only)
}

var c09SystemIDStr = string(state.SystemID)

// c09RunSchedule executes the case at the virtual-state level following the drawn order.
func c09RunSchedule(c *c09Case, order []c09Event, grace time.Duration) c09ScheduleResult {
	var res c09ScheduleResult
	refObs, refHash := c09Reference(c)

	ws := state.NewWorldState(db.NewMapDB(), nil, nil, nil, nil)
	hxSeedState(ws, c.Acc, c.Seed)
	ws.GetSnapshot()
	n := len(c.Progs)
	bodies := make([]*c09Body, n)
	futures := make([]state.WorldVirtualState, n)
	tick := make(chan struct{}, 1)
	var wg sync.WaitGroup
	notify := func() {
		select {
		case tick <- struct{}{}:
		default:
		}
	}
	var cur state.WorldVirtualState = state.NewWorldVirtualState(ws, nil)

	body := func(i int, wvs state.WorldVirtualState, b *c09Body) {
		defer wg.Done()
		p := &c.Progs[i]
		committed := false
		defer func() {
			if r := recover(); r != nil {
				b.fail = fmt.Sprintf("program %d panicked inside the virtual state: %v", i, r)
				if !committed {
					func() {
						defer func() { _ = recover() }()
						wvs.Commit()
					}()
				}
			}
			atomic.StoreInt32(&b.stage, c09StageDone)
			notify()
		}()
		get := func(a int) state.AccountState { return wvs.GetAccountState(hxAccountID(a)) }
		<-b.tok                   // start
		wvss := wvs.GetSnapshot() // as the dispatcher's worker does first
		if !c.Raw {
			// UpdateSystemInfo: read the system account under the read lock added by GetFuture
			if as := wvs.GetAccountState(state.SystemID); as != nil {
				_ = as.GetBalance()
			}
		}
		if p.Redo {
			hxGarbage(p, get)
			if err := wvs.Reset(wvss); err != nil {
				b.fail = fmt.Sprintf("program %d: Reset to its own snapshot failed: %v", i, err)
			}
		}
		b.obs = hxRunBody(i, p, get, func() {
			atomic.StoreInt32(&b.stage, c09StageRead)
			notify()
			<-b.tok // write
		})
		atomic.StoreInt32(&b.stage, c09StageWritten)
		notify()
		<-b.tok // commit
		committed = true
		wvs.Commit()
	}

	waitStage := func(b *c09Body, want int32) {
		tm := time.NewTimer(grace)
		defer tm.Stop()
		for atomic.LoadInt32(&b.stage) < want {
			select {
			case <-tick:
			case <-tm.C:
				res.blocked++
				return
			}
		}
	}

	sent := make([]int, len(c.Progs))
	give := func(i, upto int) {
		for sent[i] < upto {
			bodies[i].tok <- struct{}{}
			sent[i]++
		}
	}
	for _, e := range order {
		switch e.kind {
		case 'P':
			lq := hxLockRequests(&c.Progs[e.idx])
			if !c.Raw {
				lq = append(lq, state.LockRequest{ID: c09SystemIDStr, Lock: state.AccountReadLock})
			}
			// GetFuture does not block in goloop today; should an implementation wait there for an earlier
			// transaction (which the harness is holding at a gate), let the prepared bodies run freely
			// instead of dead-locking the harness: that changes the explored interleaving, never the verdict.
			parent := cur
			ch := make(chan state.WorldVirtualState, 1)
			go func() { ch <- parent.GetFuture(lq) }()
			select {
			case cur = <-ch:
			case <-time.After(200 * time.Millisecond):
				res.blocked++
				for i, b := range bodies {
					if b != nil {
						give(i, 3)
					}
				}
				select {
				case cur = <-ch:
				case <-time.After(60 * time.Second):
					ev.Inconclusive("C09: GetFuture did not return within 60s although every earlier body was released; case %s", c.desc())
				}
			}
			futures[e.idx] = cur
			b := &c09Body{tok: make(chan struct{}, 3)}
			bodies[e.idx] = b
			wg.Add(1)
			go body(e.idx, cur, b)
		case 'S':
			give(e.idx, 1)
			waitStage(bodies[e.idx], c09StageRead)
		case 'W':
			give(e.idx, 2)
			waitStage(bodies[e.idx], c09StageWritten)
		case 'C':
			give(e.idx, 3)
			waitStage(bodies[e.idx], c09StageDone)
		}
	}
	done := make(chan struct{})
	go func() { wg.Wait(); close(done) }()
	select {
	case <-done:
	case <-time.After(60 * time.Second):
		// every token was issued, nothing can be withheld by the harness any more
		ev.Inconclusive("C09: bodies did not finish within 60s after all tokens were issued; case %s", c.desc())
	}
	cur.Realize()
	for i, b := range bodies {
		if b.fail != "" {
			res.viol = b.fail
			return res
		}
		if b.obs != refObs[i] {
			res.viol = fmt.Sprintf("program %d (%s) read [%s]; executing the block one by one it reads [%s]", i, c.Progs[i].String(), b.obs, refObs[i])
			return res
		}
	}
	if h := cur.GetSnapshot().StateHash(); !bytes.Equal(h, refHash) {
		res.viol = fmt.Sprintf("state hash of the last future after Realize %x, sequential reference %x", h, refHash)
		return res
	}
	if h := ws.GetSnapshot().StateHash(); !bytes.Equal(h, refHash) {
		res.viol = fmt.Sprintf("state hash of the underlying world state after Realize %x, sequential reference %x", h, refHash)
		return res
	}
	return res
}

func c09DrawProgs(rt *rapid.T, n, acc int, worldRead bool, redo bool) []hxProg {
	ps := make([]hxProg, n)
	for i := range ps {
		ps[i] = hxDrawProg(rt, acc, worldRead)
		if redo && rapid.IntRange(0, 5).Draw(rt, "redo") == 5 {
			ps[i].Redo = true
		}
	}
	return ps
}

// ---------------------------------------------------------------- transition level

type c09LevelRun struct {
	level   int
	err     error
	result  []byte
	rcts    [][]byte
	obs     []string
	started []int // order in which handlers were entered (first attempt)
}

func c09RunLevel(c *c09Case, level int, dir string) (*c09LevelRun, string) {
	env, err := hxNewEnv(level, dir, c.Acc, c.Seed)
	if err != nil {
		ev.Inconclusive("C09: cannot build environment: %v", err)
	}
	defer env.close()
	n := len(c.Progs)
	run := hxNewRun(n)
	txs := make([]*hxTx, n)
	for i := range c.Progs {
		txs[i] = hxNewTx(i, c.Progs[i], run, "c09")
	}
	out := env.hxExecBlock(txs, 90*time.Second)
	if out.timedOut {
		return nil, "timeout"
	}
	run.waitIdle(20 * time.Second)
	lr := &c09LevelRun{level: level, err: out.err}
	run.mu.Lock()
	lr.started = append([]int(nil), run.started...)
	run.mu.Unlock()
	if out.err != nil {
		return lr, ""
	}
	lr.result = out.tr.Result()
	rl := out.tr.NormalReceipts()
	for i := 0; i < n; i++ {
		r, err := rl.Get(i)
		if err != nil || r == nil {
			lr.rcts = append(lr.rcts, nil)
		} else {
			lr.rcts = append(lr.rcts, r.Bytes())
		}
		at := run.get(i)
		if len(at) > 0 {
			lr.obs = append(lr.obs, at[len(at)-1].Obs)
		} else {
			lr.obs = append(lr.obs, "<never executed>")
		}
	}
	return lr, ""
}

func TestC09(t *testing.T) {
	rec := ev.New("C09", "(schedule) blocks of 2..10 programs over 2..5 accounts, each declaring account read/write locks or a world lock and reading / read-modify-writing exactly those, run on NewWorldVirtualState+GetFuture with a drawn order of prepare/start/write/commit tokens, compared with one-by-one execution on a plain world state (all reads, final state hash); (transition) the same kind of block through real transitions at ConcurrencyLevel 1,2,4,8 compared with level 1 and with the plain reference; non-trivial = at least two conflicting programs and (schedule) the drawn order starts a later conflicting program before an earlier one / (transition) a level > 1 run in which conflicting programs exist; distinct by programs + order")
	defer rec.Flush(t)
	dir := hxTmpDir()
	if dir == "" {
		ev.Inconclusive("C09: cannot create temp dir")
	}
	defer os.RemoveAll(dir)
	grace := time.Duration(ev.Pick(400, 1000)) * time.Microsecond

	runSchedule := func(c *c09Case, fail func(format string, args ...interface{})) {
		order, err := c09ParseOrder(c.Order)
		if err != nil {
			ev.Inconclusive("C09: bad order in case: %v", err)
		}
		d := c.desc()
		ev.Journal(d)
		res := c09RunSchedule(c, order, grace)
		ooo := c09OutOfOrder(c, order)
		labels := []string{"schedule"}
		if c.Raw {
			labels = append(labels, "schedule-raw-api")
		} else {
			labels = append(labels, "schedule-dispatcher-like")
		}
		if ooo > 0 {
			labels = append(labels, "conflicting-started-out-of-order")
		}
		if c09ConflictPairs(c.Progs) == 0 {
			labels = append(labels, "no-conflict")
		}
		for i := range c.Progs {
			switch c.Progs[i].World {
			case hxWorldWrite:
				labels = append(labels, "has-world-write")
			case hxWorldRead:
				labels = append(labels, "has-world-read")
			}
			if c.Progs[i].Redo {
				labels = append(labels, "has-reset")
			}
			if len(c.Progs[i].Idle) > 0 {
				labels = append(labels, "has-idle-write-lock")
			}
		}
		labels = c09Dedup(labels)
		if res.blocked > 0 {
			labels = append(labels, "some-body-blocked-on-predecessor")
		}
		rec.Case(d, ooo > 0, labels...)
		rec.LabelN("grace-expiries", res.blocked)
		if res.viol != "" {
			fail("C09 violated (virtual state, drawn schedule): %s; case %s", res.viol, d)
		}
	}

	runTransition := func(c *c09Case, fail func(format string, args ...interface{})) {
		d := c.desc()
		ev.Journal(d)
		refObs, _ := c09Reference(c)
		var base *c09LevelRun
		conflicts := c09ConflictPairs(c.Progs)
		labels := []string{"transition"}
		observedOOO := false
		for _, lvl := range c.Levels {
			lr, skip := c09RunLevel(c, lvl, dir)
			if skip != "" {
				rec.Case(d, false, "undecided-timeout")
				return
			}
			if lvl == 1 {
				base = lr
				if lr.err != nil {
					ev.Inconclusive("C09: sequential execution of a fault-free/recoverable block failed: %v; case %s", lr.err, d)
				}
			}
			// did a later conflicting program enter its handler before an earlier one?
			pos := map[int]int{}
			for k, i := range lr.started {
				if _, ok := pos[i]; !ok {
					pos[i] = k
				}
			}
			for i := range c.Progs {
				for j := i + 1; j < len(c.Progs); j++ {
					pi, oki := pos[i]
					pj, okj := pos[j]
					if oki && okj && pj < pi && hxConflict(&c.Progs[i], &c.Progs[j]) {
						observedOOO = true
					}
				}
			}
			var viol string
			switch {
			case lr.err != nil:
				viol = fmt.Sprintf("level %d fails the block (%v) which level 1 executes", lvl, lr.err)
			case !bytes.Equal(lr.result, base.result):
				viol = fmt.Sprintf("level %d result %x, level 1 result %x", lvl, lr.result, base.result)
			default:
				for i := range c.Progs {
					if lr.obs[i] != refObs[i] {
						viol = fmt.Sprintf("level %d: transaction %d (%s) read [%s]; one by one it reads [%s]", lvl, i, c.Progs[i].String(), lr.obs[i], refObs[i])
						break
					}
					if !bytes.Equal(lr.rcts[i], base.rcts[i]) {
						viol = fmt.Sprintf("level %d: receipt %d differs from level 1: %x vs %x", lvl, i, lr.rcts[i], base.rcts[i])
						break
					}
				}
			}
			if viol != "" {
				rec.Case(d, conflicts > 0, labels...)
				fail("C09 violated (transition level): %s; case %s", viol, d)
				return
			}
		}
		if conflicts == 0 {
			labels = append(labels, "no-conflict")
		}
		if observedOOO {
			labels = append(labels, "conflicting-started-out-of-order")
			labels = append(labels, "transition-observed-out-of-order-start")
		}
		for i := range c.Progs {
			if len(c.Progs[i].Faults) > 0 {
				labels = append(labels, "has-retry")
			}
			switch c.Progs[i].World {
			case hxWorldWrite:
				labels = append(labels, "has-world-write")
			case hxWorldRead:
				labels = append(labels, "has-world-read")
			}
			if c.Progs[i].Redo {
				labels = append(labels, "has-reset")
			}
			if len(c.Progs[i].Idle) > 0 {
				labels = append(labels, "has-idle-write-lock")
			}
		}
		rec.Case(d, conflicts > 0, c09Dedup(labels)...)
	}

	if j, ok := ev.ReplayJournal(); ok {
		var c c09Case
		if err := json.Unmarshal([]byte(j), &c); err != nil || !strings.HasPrefix(c.Prop, "C09") {
			ev.Inconclusive("C09: journal is not a C09 case: %v", err)
		}
		t.Run("replay", func(t *testing.T) {
			if c.Prop == "C09t" {
				runTransition(&c, t.Fatalf)
			} else {
				runSchedule(&c, t.Fatalf)
			}
		})
		return
	}

	t.Run("anchor", func(t *testing.T) {
		// deterministic schedules for the lock classes: (1) a whole-world reader started after a
		// later writer has already written (found the missing world-read barrier in
		// applyLockRequests), (2) reader/writer started before the earlier writer, (3) world
		// writer between account writers started last-first, (4) idle write lock in a chain
		for _, js := range []string{
			`{"prop":"C09s","acc":2,"seed":0,"progs":[{"x":[1]},{"w":1,"r":[0]},{"x":[0]}],"order":"P0 P1 P2 S0 W0 S2 W2 C2 S1 C0 W1 C1"}`,
			`{"prop":"C09s","acc":2,"seed":0,"progs":[{"x":[0]},{"r":[0]},{"x":[0]}],"order":"P0 P1 P2 S2 S1 W1 C1 S0 W0 C0 W2 C2"}`,
			`{"prop":"C09s","acc":3,"seed":1,"progs":[{"x":[0]},{"w":2,"r":[0],"x":[1]},{"r":[1],"x":[2]},{"x":[0,1]}],"order":"P0 P1 P2 P3 S3 S2 S1 S0 W0 C0 W1 C1 W2 C2 W3 C3"}`,
			`{"prop":"C09s","acc":2,"seed":2,"progs":[{"x":[0]},{"i":[0],"r":[1]},{"x":[0]},{"r":[0]}],"order":"P0 P1 P2 P3 S3 S2 S1 W1 C1 S0 W0 C0 W2 C2 W3 C3"}`,
		} {
			var c c09Case
			if err := json.Unmarshal([]byte(js), &c); err != nil {
				t.Fatalf("bad anchor: %v", err)
			}
			runSchedule(&c, t.Fatalf)
		}
	})
	t.Run("schedule", func(t *testing.T) {
		ev.Check(t, 900, 8000, func(rt *rapid.T) {
			c := &c09Case{Prop: "C09s"}
			c.Acc = rapid.IntRange(2, 5).Draw(rt, "accounts")
			c.Seed = rapid.IntRange(0, 9).Draw(rt, "seed")
			c.Raw = rapid.IntRange(0, 7).Draw(rt, "raw") == 7
			n := rapid.IntRange(2, ev.Pick(10, 14)).Draw(rt, "n")
			c.Progs = c09DrawProgs(rt, n, c.Acc, true, true)
			c.Order = c09DrawOrder(rt, n)
			runSchedule(c, rt.Fatalf)
		})
	})
	t.Run("transition", func(t *testing.T) {
		ev.Check(t, 250, 6000, func(rt *rapid.T) {
			c := &c09Case{Prop: "C09t", Levels: []int{1, 2, 4, 8}}
			c.Acc = rapid.IntRange(2, 5).Draw(rt, "accounts")
			c.Seed = rapid.IntRange(0, 9).Draw(rt, "seed")
			n := rapid.IntRange(2, ev.Pick(12, 24)).Draw(rt, "n")
			c.Progs = c09DrawProgs(rt, n, c.Acc, true, true)
			for i := range c.Progs {
				if rapid.IntRange(0, 9).Draw(rt, "ensure") == 9 {
					c.Progs[i].Ensure = true
				}
				if rapid.IntRange(0, 7).Draw(rt, "retry") == 7 {
					// a recoverable script: the retry path (virtual state Reset) must be transparent
					k := rapid.IntRange(1, service.RetryCount).Draw(rt, "k")
					for x := 0; x < k; x++ {
						c.Progs[i].Faults = append(c.Progs[i].Faults, rapid.SampledFrom([]int{hxFaultRetryable, hxFaultRerun}).Draw(rt, "kind"))
					}
				}
			}
			runTransition(c, rt.Fatalf)
		})
	})
}

func c09Dedup(in []string) []string {
	seen := map[string]bool{}
	var out []string
	for _, l := range in {
		if !seen[l] {
			seen[l] = true
			out = append(out, l)
		}
	}
	return out
}
