// Package gen holds generators shared by the checks. Every random choice goes through rapid.
package gen

import (
	"github.com/icon-project/goloop/common"
	"github.com/icon-project/goloop/common/crypto"
	"github.com/icon-project/goloop/common/wallet"
	"github.com/icon-project/goloop/module"
	"pgregory.net/rapid"
)

// PrivKey draws a secp256k1 private key from a drawn 32-byte seed (reproducible; signatures
// in goloop are RFC-6979 deterministic).
func PrivKey(t *rapid.T, label string) *crypto.PrivateKey {
	for {
		b := rapid.SliceOfN(rapid.Byte(), 32, 32).Draw(t, label)
		b[0] &= 0x7f // stay below the group order
		zero := true
		for _, x := range b {
			if x != 0 {
				zero = false
			}
		}
		if zero {
			b[31] = 1
		}
		k, err := crypto.ParsePrivateKey(b)
		if err == nil {
			return k
		}
	}
}

// KeyFromIndex gives the i-th key of a fixed, reproducible key family (cheap; use when the
// identity of the key does not matter, only that keys are distinct).
func KeyFromIndex(i int) *crypto.PrivateKey {
	b := make([]byte, 32)
	b[0] = 0x11
	b[28] = byte(i >> 24)
	b[29] = byte(i >> 16)
	b[30] = byte(i >> 8)
	b[31] = byte(i)
	k, err := crypto.ParsePrivateKey(b)
	if err != nil {
		panic(err)
	}
	return k
}

// WalletFromIndex wraps KeyFromIndex into a module.Wallet.
func WalletFromIndex(i int) module.Wallet {
	w, err := wallet.NewFromPrivateKey(KeyFromIndex(i))
	if err != nil {
		panic(err)
	}
	return w
}

// Wallet draws a wallet.
func Wallet(t *rapid.T, label string) module.Wallet {
	w, err := wallet.NewFromPrivateKey(PrivKey(t, label))
	if err != nil {
		panic(err)
	}
	return w
}

// Address draws a 21-byte address (EOA or contract).
func Address(t *rapid.T, label string) *common.Address {
	b := rapid.SliceOfN(rapid.Byte(), 20, 20).Draw(t, label)
	if rapid.Bool().Draw(t, label+".contract") {
		return common.NewContractAddress(b)
	}
	return common.NewAccountAddress(b)
}

// BoundaryLens are the lengths that sit on codec / buffer boundaries.
var BoundaryLens = []int{0, 1, 2, 7, 8, 9, 31, 32, 33, 55, 56, 57, 127, 128, 129, 255, 256, 257, 4087, 4088, 4089, 4095, 4096, 4097}

// Len draws a length in [0,max] with bias towards boundary values.
func Len(t *rapid.T, label string, max int) int {
	if rapid.IntRange(0, 3).Draw(t, label+".b") == 0 {
		var c []int
		for _, l := range BoundaryLens {
			if l <= max {
				c = append(c, l)
			}
		}
		return rapid.SampledFrom(c).Draw(t, label)
	}
	return rapid.IntRange(0, max).Draw(t, label)
}

// Bytes draws a byte string with boundary-biased length.
func Bytes(t *rapid.T, label string, max int) []byte {
	n := Len(t, label+".len", max)
	return rapid.SliceOfN(rapid.Byte(), n, n).Draw(t, label)
}
