// Package ev records what a check actually explored and writes the evidence
// fragment the driver (check.py) merges into /verif/evidence/<ID>.json.
package ev

import (
	"crypto/sha256"
	"encoding/hex"
	"encoding/json"
	"flag"
	"fmt"
	"os"
	"sort"
	"strconv"
	"strings"
	"sync"
	"testing"
	"time"

	"pgregory.net/rapid"
)

const maxSamples = 6
const maxSampleLen = 1200

// Rec is the evidence recorder of one property check.
type Rec struct {
	mu          sync.Mutex
	id          string
	rule        string
	start       time.Time
	evals       int
	nt          map[[8]byte]struct{}
	labels      map[string]int
	samples     []string
	assumptions []string
	known       map[string]string
	knownHit    map[string]bool
	exhaustive  bool
	extra       map[string]interface{}
}

// New creates a recorder; rule states how cases are generated and what makes one non-trivial.
func New(id, rule string) *Rec {
	r := &Rec{
		id: id, rule: rule, start: time.Now(),
		nt: map[[8]byte]struct{}{}, labels: map[string]int{},
		known: map[string]string{}, knownHit: map[string]bool{},
		extra: map[string]interface{}{},
	}
	// VERIF_KNOWN: lines "key<TAB>description" of listed known findings for this property
	for _, l := range strings.Split(os.Getenv("VERIF_KNOWN"), "\n") {
		if l = strings.TrimSpace(l); l == "" {
			continue
		}
		kv := strings.SplitN(l, "\t", 2)
		d := ""
		if len(kv) > 1 {
			d = kv[1]
		}
		r.known[kv[0]] = d
	}
	return r
}

// Case records one executed case. desc is the canonical rendering of the case (it is the
// fingerprint for distinctness and, for the first few non-trivial ones, the sample).
func (r *Rec) Case(desc string, nontrivial bool, labels ...string) {
	r.mu.Lock()
	defer r.mu.Unlock()
	r.evals++
	for _, l := range labels {
		r.labels[l]++
	}
	if !nontrivial {
		r.labels["trivial"]++
		return
	}
	h := sha256.Sum256([]byte(desc))
	var k [8]byte
	copy(k[:], h[:8])
	if _, ok := r.nt[k]; ok {
		r.labels["duplicate"]++
		return
	}
	r.nt[k] = struct{}{}
	if len(r.samples) < maxSamples {
		s := desc
		if len(s) > maxSampleLen {
			s = s[:maxSampleLen] + "…"
		}
		r.samples = append(r.samples, s)
	}
}

// Label counts an event that is not a case (class of sub-step etc).
func (r *Rec) Label(l string) {
	r.mu.Lock()
	r.labels[l]++
	r.mu.Unlock()
}

// LabelN adds n to a label counter.
func (r *Rec) LabelN(l string, n int) {
	r.mu.Lock()
	r.labels[l] += n
	r.mu.Unlock()
}

func (r *Rec) Assume(s string) {
	r.mu.Lock()
	r.assumptions = append(r.assumptions, s)
	r.mu.Unlock()
}

func (r *Rec) Exhaustive()                   { r.mu.Lock(); r.exhaustive = true; r.mu.Unlock() }
func (r *Rec) Extra(k string, v interface{}) { r.mu.Lock(); r.extra[k] = v; r.mu.Unlock() }

// Known reports whether the violation identified by key is a listed known finding. The
// KNOWN-FINDING line is printed once per key. The check must then exclude exactly that case
// and keep searching; any other violation is still reported.
func (r *Rec) Known(key string) bool {
	r.mu.Lock()
	defer r.mu.Unlock()
	d, ok := r.known[key]
	if !ok {
		return false
	}
	if !r.knownHit[key] {
		r.knownHit[key] = true
		fmt.Printf("KNOWN-FINDING: property=%s %s %s\n", r.id, key, d)
	}
	r.labels["known-finding-excluded"]++
	return true
}

// Journal persists the case about to be executed, so that a crash of the whole process
// (panic in a goroutine the test does not own) still leaves a replayable input.
func Journal(desc string) {
	p := os.Getenv("VERIF_JOURNAL")
	if p == "" {
		return
	}
	_ = os.WriteFile(p, []byte(desc), 0o644)
}

// ReplayJournal returns the journal to replay, if the driver asked for one.
func ReplayJournal() (string, bool) {
	p := os.Getenv("VERIF_REPLAY_JOURNAL")
	if p == "" {
		return "", false
	}
	b, err := os.ReadFile(p)
	if err != nil {
		return "", false
	}
	return string(b), true
}

type fragment struct {
	ID          string                 `json:"property_id"`
	Rule        string                 `json:"rule"`
	Evals       int                    `json:"evaluations"`
	NT          []string               `json:"nt_hashes"`
	Labels      map[string]int         `json:"labels"`
	Samples     []string               `json:"samples"`
	Assumptions []string               `json:"assumptions"`
	Exhaustive  bool                   `json:"exhaustive"`
	Extra       map[string]interface{} `json:"extra"`
	WallS       float64                `json:"wall_s"`
}

// Flush writes the fragment to $VERIF_EVOUT (driver merges shards). Safe to call via defer.
func (r *Rec) Flush(t testing.TB) {
	r.mu.Lock()
	defer r.mu.Unlock()
	p := os.Getenv("VERIF_EVOUT")
	if p == "" {
		if t != nil {
			t.Logf("[ev] %s evaluations=%d distinct_nontrivial=%d labels=%v", r.id, r.evals, len(r.nt), r.labels)
		}
		return
	}
	f := fragment{ID: r.id, Rule: r.rule, Evals: r.evals, Labels: r.labels, Samples: r.samples,
		Assumptions: r.assumptions, Exhaustive: r.exhaustive, Extra: r.extra,
		WallS: time.Since(r.start).Seconds()}
	for k := range r.nt {
		f.NT = append(f.NT, hex.EncodeToString(k[:]))
	}
	sort.Strings(f.NT)
	b, _ := json.Marshal(f)
	_ = os.WriteFile(p, b, 0o644)
}

// Tier is "quick" or "thorough" (VERIF_TIER, default quick).
func Tier() string {
	if os.Getenv("VERIF_TIER") == "thorough" {
		return "thorough"
	}
	return "quick"
}

// Thorough reports whether the thorough tier is running.
func Thorough() bool { return Tier() == "thorough" }

// Pick returns q in the quick tier and th in the thorough tier.
func Pick(q, th int) int {
	if Thorough() {
		return th
	}
	return q
}

// Inconclusive aborts the run as "not decided" (driver maps it to exit 2, never a violation).
func Inconclusive(format string, args ...interface{}) {
	fmt.Printf("INCONCLUSIVE: "+format+"\n", args...)
	os.Exit(3)
}

// Check runs rapid.Check with a per-call case count: q cases in the quick tier, th in the
// thorough tier (each thorough shard runs th cases with its own seed). VERIF_SCALE (float)
// scales both. The seed comes from -rapid.seed, which the driver derives from VERIF_SEED.
func Check(t *testing.T, q, th int, prop func(*rapid.T)) {
	n := Pick(q, th)
	if s := os.Getenv("VERIF_SCALE"); s != "" {
		if f, err := strconv.ParseFloat(s, 64); err == nil && f > 0 {
			n = int(float64(n) * f)
		}
	}
	if n < 1 {
		n = 1
	}
	_ = flag.Set("rapid.checks", strconv.Itoa(n))
	rapid.Check(t, prop)
}
