package hfee

import (
	"testing"

	"pgregory.net/rapid"

	"verifharness/internal/ev"
)

// C16: if a transaction fails for any reason, every state change it made is rolled back except
// the fee charged to the payer, and its result carries no event logs or BTP messages.
//
// Cases are blocks of real (signed, version 3) transactions executed by goloop's transitions:
// calls of the programmable contract (programs that set/delete storage, move balances, emit
// events and BTP messages, burn steps, call sub-programs that succeed or fail, and end with a
// drawn status), transfers (also to unusable contract addresses, which debit before failing),
// messages and denied system calls, with drawn step limits/values/balances.
//
// Oracle: the harness contract records what it did and what each of its frames returned. From the
// state before the block, the receipts (status, stepUsed, stepPrice) and that record the expected
// state is: payer -= fee for every transaction, plus - only for transactions whose result says
// success - the effects of frames whose whole ancestor chain returned success. The found state
// (every known account, all known storage keys, and the Merkle state hash over everything) must
// equal it; a failed result must carry no event logs / BTP messages; a successful one exactly
// those of surviving frames.
func TestC16(t *testing.T) {
	rec := ev.New("C16", "rapid-drawn chain config + 1..3 blocks of 1..6 signed transactions (programmable-contract programs over two transports, transfers, messages, system calls) run through real transitions; non-trivial = some transaction failed after it had already mutated state (contract record non-empty or real handler debited first) or succeeded while an inner frame with mutations failed; distinct by rendered (config, blocks, programs)")
	defer rec.Flush(t)
	o := feeOpts{Prop: "C16", MaxBlocks: 3, MaxTx: 6, ProgWeight: 22, MaxOps: 5, MaxDepth: 3, CheckState: true}
	if ev.Thorough() {
		o.MaxBlocks, o.MaxTx, o.MaxOps, o.MaxDepth = 5, 10, 8, 4
	}
	t.Run("programs", func(t *testing.T) {
		ev.Check(t, 3000, 15000, func(rt *rapid.T) {
			res := feeRunCase(rt, o)
			feeRecord(rec, res, res.failAfterMutation+res.innerRollback > 0)
			if res.violation != "" {
				rt.Fatalf("C16 violated: %s\ncase: %s", res.violation, res.desc)
			}
		})
	})
}
