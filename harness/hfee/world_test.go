package hfee

// Shared harness of the hfee package (C15, C16): a goloop service stack on a MapDB (real
// transitions, real transaction handlers, real call context / frames, real contract manager and
// chain SCORE) plus the "programmable contract": the real contract manager is wrapped so that
// calls to a few reserved cx addresses are served by a harness handler that interprets a
// generated program through the real contract.CallContext.
//
// Everything the oracle uses is observed from the outside: receipts, the world state loaded from
// the database by the transition result, and the harness handler's own record of what it did and
// what it returned (the "contract's view").

import (
	"bytes"
	"encoding/base64"
	"encoding/hex"
	"encoding/json"
	"fmt"
	"math/big"
	"sort"
	"strings"
	"sync"
	"time"

	"github.com/icon-project/goloop/chain/base"
	"github.com/icon-project/goloop/common"
	"github.com/icon-project/goloop/common/codec"
	"github.com/icon-project/goloop/common/db"
	"github.com/icon-project/goloop/common/errors"
	"github.com/icon-project/goloop/common/log"
	"github.com/icon-project/goloop/consensus"
	"github.com/icon-project/goloop/module"
	"github.com/icon-project/goloop/service"
	"github.com/icon-project/goloop/service/contract"
	"github.com/icon-project/goloop/service/eeproxy"
	"github.com/icon-project/goloop/service/platform/basic"
	"github.com/icon-project/goloop/service/scoreapi"
	"github.com/icon-project/goloop/service/scoreresult"
	"github.com/icon-project/goloop/service/state"
	"github.com/icon-project/goloop/service/trace"
	"github.com/icon-project/goloop/service/transaction"
	"github.com/icon-project/goloop/service/txresult"
	"github.com/icon-project/goloop/test"

	"verifharness/internal/gen"
)

// ---------------------------------------------------------------------------------------------
// configuration

type feeCfg struct {
	Revision    int
	StepPrice   *big.Int
	Costs       map[string]int64 // step costs
	InvokeLimit int64
	NEOA        int        // funded EOAs (wallet index i)
	Balances    []*big.Int // initial balance of EOA i
	NProg       int        // programmable contracts
	NSync       int        // the first NSync use the sync-handler transport, the rest the system-SCORE transport
	ProgBal     []*big.Int // initial balance of programmable contract i
	TreasuryAlt bool       // treasury at a non-default address
	TreasuryBal *big.Int
	GovEOA      bool // governance is EOA 0 (can call setStepPrice by a real transaction)
	BTP         bool // open a BTP network owned by programmable contract 0 (needs revision 9)
	// LegacyBalance turns on the module.LegacyBalanceCheck revision bit (platform option: the
	// pre-execution balance check looks at the balance at block start). It makes the
	// "cannot pay the fee after execution -> roll back, OutOfBalance" branch reachable.
	LegacyBalance bool
	// TimeoutMs > 0: the chain's transaction timeout; such worlds may contain hang operations
	TimeoutMs int
}

func (c *feeCfg) String() string {
	var cs []string
	for _, k := range feeCostKeys {
		cs = append(cs, fmt.Sprintf("%s=%d", k, c.Costs[k]))
	}
	return fmt.Sprintf("rev=%d price=%s costs{%s} eoa=%v prog=%v(sync %d) treasuryAlt=%v treasury0=%s govEOA=%v btp=%v legacyBalanceCheck=%v txTimeoutMs=%d",
		c.Revision, c.StepPrice, strings.Join(cs, ","), c.Balances, c.ProgBal, c.NSync, c.TreasuryAlt, c.TreasuryBal, c.GovEOA, c.BTP, c.LegacyBalance, c.TimeoutMs)
}

var feeCostKeys = []string{"default", "input", "contractCall", "set", "replace", "delete", "eventLog", "get"}

const feeBTPNetworkID = 1

// ---------------------------------------------------------------------------------------------
// chain wrapper

type feeT struct{}

func (feeT) Errorf(format string, args ...interface{}) {}
func (feeT) Logf(format string, args ...any)           {}

// feePlatform is the basic platform with extra revision bits.
type feePlatform struct {
	base.Platform
	extra module.Revision
}

func (p *feePlatform) ToRevision(v int) module.Revision { return p.Platform.ToRevision(v) | p.extra }

type feeChain struct {
	*test.Chain
	timeout time.Duration
}

// no wall-clock dependent failures: system SCORE calls wait for their result with this timeout.
// Worlds that may run a "hang" operation (an asynchronous callee that never answers) use a short one.
func (c *feeChain) TransactionTimeout() time.Duration {
	if c.timeout > 0 {
		return c.timeout
	}
	return time.Hour
}
func (c *feeChain) ConcurrencyLevel() int { return 1 }

// ---------------------------------------------------------------------------------------------
// programs

const (
	feeOpSet = iota
	feeOpDel
	feeOpXfer  // balance move out of the contract (inter-call transfer through the real TransferHandler)
	feeOpEvent // harness event
	feeOpBTP   // BTP message
	feeOpSteps // burn steps
	feeOpCall  // nested call of a sub-program on a programmable contract
	feeOpSysCall
	feeOpFlag // disable/enable another programmable contract through the chain SCORE (owner only)
	feeOpHang // call of an asynchronous callee that writes a value and never answers: the transaction times out
)

const (
	feeEndOK = iota
	feeEndRevert
	feeEndUserRevert
	feeEndOutOfStep
	feeEndInvalidParam
	feeEndSystemError
	feeEndAccessDenied
	feeEndCount
)

var feeEndNames = []string{"ok", "revert", "urevert", "oos", "invparam", "syserr", "denied"}

type feeOp struct {
	Kind        int
	Key         int    // storage key index
	Val         []byte // storage value / message
	To          string // address string of transfer target
	Amt         *big.Int
	Steps       int64
	Sub         *feeProg
	Limit       int64 // step limit given to the nested call (0 = all available)
	Propagate   bool  // nested call / transfer failure aborts this frame with the same status
	ChargeFirst bool  // charge steps before mutating (otherwise mutate, then charge)
	Disable     bool  // feeOpFlag
}

type feeProg struct {
	Target     int // programmable contract index that runs it
	Value      *big.Int
	NonPayable bool // score transport: use the non-payable entry point
	Ops        []feeOp
	End        int
	id         string
}

func (p *feeProg) String() string {
	var sb strings.Builder
	p.render(&sb)
	return sb.String()
}

func (p *feeProg) render(sb *strings.Builder) {
	fmt.Fprintf(sb, "P%d", p.Target)
	if p.NonPayable {
		sb.WriteString("np")
	}
	if p.Value != nil && p.Value.Sign() != 0 {
		fmt.Fprintf(sb, "$%s", p.Value)
	}
	sb.WriteString("[")
	for i, o := range p.Ops {
		if i > 0 {
			sb.WriteString(" ")
		}
		cf := ""
		if o.ChargeFirst {
			cf = "'"
		}
		switch o.Kind {
		case feeOpSet:
			fmt.Fprintf(sb, "set%s(k%d,%x)", cf, o.Key, o.Val)
		case feeOpDel:
			fmt.Fprintf(sb, "del%s(k%d)", cf, o.Key)
		case feeOpXfer:
			fmt.Fprintf(sb, "xfer(%s,%s,prop=%v)", feeShort(o.To), o.Amt, o.Propagate)
		case feeOpEvent:
			fmt.Fprintf(sb, "ev%s(%x)", cf, o.Val)
		case feeOpBTP:
			fmt.Fprintf(sb, "btp(%x)", o.Val)
		case feeOpSteps:
			fmt.Fprintf(sb, "burn(%d)", o.Steps)
		case feeOpCall:
			fmt.Fprintf(sb, "call(lim=%d,prop=%v,", o.Limit, o.Propagate)
			o.Sub.render(sb)
			sb.WriteString(")")
		case feeOpSysCall:
			fmt.Fprintf(sb, "syscall(prop=%v)", o.Propagate)
		case feeOpFlag:
			fmt.Fprintf(sb, "flag(%s,disable=%v,prop=%v)", feeShort(o.To), o.Disable, o.Propagate)
		case feeOpHang:
			fmt.Fprintf(sb, "hang(k%d,%x)", o.Key, o.Val)
		}
	}
	fmt.Fprintf(sb, "]->%s", feeEndNames[p.End])
}

func feeShort(a string) string {
	if len(a) > 8 {
		return a[:8]
	}
	return a
}

func (p *feeProg) countOps() (ops, depth int) {
	d := 0
	for _, o := range p.Ops {
		ops++
		if o.Kind == feeOpCall {
			so, sd := o.Sub.countOps()
			ops += so
			if sd > d {
				d = sd
			}
		}
	}
	return ops, d + 1
}

// ---------------------------------------------------------------------------------------------
// record of what the programmable contract did (the contract's own view)

const (
	feeMutSet = iota
	feeMutDel
	feeMutXfer
	feeMutEvent
	feeMutBTP
	feeMutFlag
)

type feeMut struct {
	Kind     int
	Frame    *feeFrame
	Contract string // storage owner / event source
	Key      string
	Val      []byte
	From, To string
	Amt      *big.Int
	Disabled bool
}

type feeFrame struct {
	Parent *feeFrame
	Exited bool
	Status error
	Depth  int
}

func (f *feeFrame) committed() bool {
	for x := f; x != nil; x = x.Parent {
		if !x.Exited || x.Status != nil {
			return false
		}
	}
	return true
}

type feeTrace struct {
	Top                *feeFrame
	Frames             []*feeFrame
	Muts               []*feeMut
	Runs               int // number of times the top-level handler was executed (re-runs)
	cur                *feeFrame
	InnerFailed        bool // some inner frame failed
	InnerFailedWithMut bool
}

func (t *feeTrace) enter() *feeFrame {
	f := &feeFrame{Parent: t.cur}
	if t.cur != nil {
		f.Depth = t.cur.Depth + 1
	} else {
		t.Top = f
	}
	t.Frames = append(t.Frames, f)
	t.cur = f
	return f
}

func (t *feeTrace) exit(f *feeFrame, st error) {
	f.Exited = true
	f.Status = st
	t.cur = f.Parent
}

func (t *feeTrace) mut(m *feeMut) {
	m.Frame = t.cur
	t.Muts = append(t.Muts, m)
}

// ---------------------------------------------------------------------------------------------
// contract manager wrapper
//
// Two transports reach the same program interpreter:
//   sync  : contracts 0..NSync-1. GetHandler for a "call" to their address returns the harness
//           SyncContractHandler (feeHandler); the account is only marked as a contract account.
//   score : the other contracts are deployed as system SCOREs (content id "hfee-<i>"); calls go
//           through goloop's real CallHandler / TransferAndCallHandler (method lookup, parameter
//           conversion, payable check, async result delivery) and reach the interpreter via
//           GetSystemScore -> contract.Invoke -> Ex_run.

type feeCM struct {
	contract.ContractManager
	w *feeWorld
}

type feeCallData struct {
	Method string `json:"method"`
	Params struct {
		ID string `json:"id"`
	} `json:"params"`
}

func (m *feeCM) GetHandler(from, to module.Address, value *big.Int, ctype int, data []byte) (contract.ContractHandler, error) {
	// a transaction handler is being built: no program frame can be open any more
	m.w.active = nil
	if ctype == contract.CTypeCall {
		if idx, ok := m.w.progIndex[to.String()]; ok && idx < m.w.cfg.NSync {
			var cd feeCallData
			if err := json.Unmarshal(data, &cd); err != nil || cd.Method != "run" {
				return nil, scoreresult.MethodNotFoundError.New("harness: unknown method")
			}
			p := m.w.progs[cd.Params.ID]
			if p == nil || p.Target != idx {
				return nil, scoreresult.InvalidParameterError.New("harness: unknown program")
			}
			return &feeHandler{w: m.w, from: from, to: to, value: value, prog: p, id: cd.Params.ID,
				log: trace.LoggerOf(m.w.logger)}, nil
		}
	}
	return m.ContractManager.GetHandler(from, to, value, ctype, data)
}

const feeScorePrefix = "hfee-"

func (m *feeCM) GetSystemScore(contentID string, cc contract.CallContext, from module.Address, value *big.Int) (contract.SystemScore, error) {
	if strings.HasPrefix(contentID, feeScorePrefix) {
		var idx int
		if _, err := fmt.Sscanf(contentID[len(feeScorePrefix):], "%d", &idx); err != nil || idx < 0 || idx >= len(m.w.progAddr) {
			return nil, scoreresult.ContractNotFoundError.New("harness: bad content id")
		}
		return &FeeScore{w: m.w, cc: cc, from: from, value: value, self: m.w.progAddr[idx], idx: idx}, nil
	}
	return m.ContractManager.GetSystemScore(contentID, cc, from, value)
}

// FeeScore is the system-SCORE transport of the programmable contract.
type FeeScore struct {
	w     *feeWorld
	cc    contract.CallContext
	from  module.Address
	value *big.Int
	self  module.Address
	idx   int
}

func (s *FeeScore) Install(param []byte) error { return nil }
func (s *FeeScore) Update(param []byte) error  { return nil }
func (s *FeeScore) GetAPI() *scoreapi.Info {
	return scoreapi.NewInfo([]*scoreapi.Method{
		{Type: scoreapi.Function, Name: "run", Flags: scoreapi.FlagExternal | scoreapi.FlagPayable, Indexed: 1,
			Inputs: []scoreapi.Parameter{{Name: "id", Type: scoreapi.String}}},
		{Type: scoreapi.Function, Name: "runnp", Flags: scoreapi.FlagExternal, Indexed: 1,
			Inputs: []scoreapi.Parameter{{Name: "id", Type: scoreapi.String}}},
		{Type: scoreapi.Fallback, Name: scoreapi.FallbackMethodName, Flags: scoreapi.FlagPayable},
	})
}

func (s *FeeScore) Ex_run(id string) error   { return s.exec(id) }
func (s *FeeScore) Ex_runnp(id string) error { return s.exec(id) }
func (s *FeeScore) Ex_() error               { return nil } // payable fallback (its API name is "")

func (s *FeeScore) exec(id string) error {
	p := s.w.progs[id]
	if p == nil || p.Target != s.idx {
		return scoreresult.InvalidParameterError.New("harness: unknown program")
	}
	return feeRunFrame(s.w, s.cc, id, s.from, s.self, s.value, p, true)
}

// ---------------------------------------------------------------------------------------------
// the programmable contract handler (sync transport)

type feeHandler struct {
	w        *feeWorld
	from, to module.Address
	value    *big.Int
	prog     *feeProg
	id       string
	log      *trace.Logger
}

func (h *feeHandler) Prepare(ctx contract.Context) (state.WorldContext, error) {
	lq := []state.LockRequest{{Lock: state.AccountWriteLock, ID: state.WorldIDStr}}
	return ctx.GetFuture(lq), nil
}
func (h *feeHandler) SetTraceLogger(logger *trace.Logger) { h.log = logger }
func (h *feeHandler) TraceLogger() *trace.Logger          { return h.log }

func (h *feeHandler) ExecuteSync(cc contract.CallContext) (error, *codec.TypedObj, module.Address) {
	return feeRunFrame(h.w, cc, h.id, h.from, h.to, h.value, h.prog, false), nil, nil
}

// feeHangHandler is an asynchronous contract handler (the kind an execution engine proxy is): it mutates
// the callee's storage, emits an event and then never calls OnResult.
type feeHangHandler struct {
	eeproxy.CallContext // the engine-side callbacks are never used
	to                  module.Address
	key, val            []byte
	log                 *trace.Logger
}

func (h *feeHangHandler) Prepare(ctx contract.Context) (state.WorldContext, error) {
	lq := []state.LockRequest{{Lock: state.AccountWriteLock, ID: state.WorldIDStr}}
	return ctx.GetFuture(lq), nil
}
func (h *feeHangHandler) SetTraceLogger(logger *trace.Logger) { h.log = logger }
func (h *feeHangHandler) TraceLogger() *trace.Logger          { return h.log }
func (h *feeHangHandler) ExecuteAsync(cc contract.CallContext) error {
	as := cc.GetAccountState(h.to.ID())
	if _, err := as.SetValue(h.key, h.val); err != nil {
		return err
	}
	cc.OnEvent(h.to, [][]byte{feeEventSig, h.val}, nil)
	return nil
}
func (h *feeHangHandler) SendResult(status error, steps *big.Int, result *codec.TypedObj) error {
	return nil
}
func (h *feeHangHandler) Dispose()             {}
func (h *feeHangHandler) EEType() state.EEType { return state.NullEE }

var feeEventSig = []byte("HarnessEvent(bytes)")

var feeErrUserRevert = errors.NewBase(scoreresult.RevertedError+7, "UserRevert")

func feeKey(i int) []byte { return []byte(fmt.Sprintf("hk%02d", i)) }

// feeRunFrame opens a frame record, interprets the program and closes the record with the status
// the contract returns to goloop.
func feeRunFrame(w *feeWorld, cc contract.CallContext, id string, from, self module.Address, value *big.Int, p *feeProg, viaScore bool) error {
	tr := w.active
	if tr == nil {
		tr = &feeTrace{}
		if old := w.traces[id]; old != nil {
			tr.Runs = old.Runs
		}
		tr.Runs++
		w.traces[id] = tr
		w.active = tr
	}
	fr := tr.enter()
	st := feeInterp(w, tr, cc, from, self, value, p, viaScore)
	if st != nil && fr.Parent != nil {
		tr.InnerFailed = true
		for _, m := range tr.Muts {
			for x := m.Frame; x != nil; x = x.Parent {
				if x == fr {
					tr.InnerFailedWithMut = true
				}
			}
		}
	}
	tr.exit(fr, st)
	if fr.Parent == nil {
		w.active = nil
	}
	return st
}

func feeInterp(w *feeWorld, tr *feeTrace, cc contract.CallContext, from, self module.Address, value *big.Int, prog *feeProg, viaScore bool) error {
	me := self.String()
	if value != nil && value.Sign() > 0 {
		if !viaScore {
			// value transfer exactly as the real TransferAndCallHandler does it
			th := &contract.TransferHandler{CommonHandler: contract.NewCommonHandler(from, self, value, false, w.logger)}
			if st, _, _ := th.DoExecuteSync(cc); st != nil {
				return st
			}
		}
		// (score transport: the real TransferAndCallHandler has moved the value in this frame)
		tr.mut(&feeMut{Kind: feeMutXfer, From: from.String(), To: me, Amt: value})
	}
	if err := cc.ApplyCallSteps(); err != nil {
		return err
	}
	as := cc.GetAccountState(self.ID())
	charge := func(t state.StepType, n int) error {
		if !cc.ApplySteps(t, n) {
			return scoreresult.ErrOutOfStep
		}
		return nil
	}
	for i := range prog.Ops {
		o := &prog.Ops[i]
		switch o.Kind {
		case feeOpSet:
			if o.ChargeFirst {
				if err := charge(state.StepTypeSet, len(o.Val)); err != nil {
					return err
				}
			}
			if _, err := as.SetValue(feeKey(o.Key), o.Val); err != nil {
				return err
			}
			tr.mut(&feeMut{Kind: feeMutSet, Contract: me, Key: string(feeKey(o.Key)), Val: o.Val})
			if !o.ChargeFirst {
				if err := charge(state.StepTypeSet, len(o.Val)); err != nil {
					return err
				}
			}
		case feeOpDel:
			if o.ChargeFirst {
				if err := charge(state.StepTypeDelete, 1); err != nil {
					return err
				}
			}
			if _, err := as.DeleteValue(feeKey(o.Key)); err != nil {
				return err
			}
			tr.mut(&feeMut{Kind: feeMutDel, Contract: me, Key: string(feeKey(o.Key))})
			if !o.ChargeFirst {
				if err := charge(state.StepTypeDelete, 1); err != nil {
					return err
				}
			}
		case feeOpEvent:
			if o.ChargeFirst {
				if err := charge(state.StepTypeEventLog, len(o.Val)+1); err != nil {
					return err
				}
			}
			cc.OnEvent(self, [][]byte{feeEventSig, o.Val}, nil)
			tr.mut(&feeMut{Kind: feeMutEvent, Contract: me, Val: o.Val})
			if !o.ChargeFirst {
				if err := charge(state.StepTypeEventLog, len(o.Val)+1); err != nil {
					return err
				}
			}
		case feeOpBTP:
			cc.OnBTPMessage(feeBTPNetworkID, o.Val)
			tr.mut(&feeMut{Kind: feeMutBTP, Contract: me, Val: o.Val})
			if err := charge(state.StepTypeEventLog, len(o.Val)+1); err != nil {
				return err
			}
		case feeOpSteps:
			if !cc.DeductSteps(big.NewInt(o.Steps)) {
				return scoreresult.ErrOutOfStep
			}
		case feeOpXfer:
			to := common.MustNewAddressFromString(o.To)
			// what a contract's transfer does: an inter-call served by the real contract manager
			ch, err := w.cm.ContractManager.GetCallHandler(self, to, o.Amt, contract.CTypeTransfer, nil)
			if err != nil {
				return err
			}
			st, used, _, _ := cc.Call(ch, cc.StepAvailable())
			ok := cc.DeductSteps(used)
			if st == nil {
				tr.mut(&feeMut{Kind: feeMutXfer, From: me, To: o.To, Amt: o.Amt})
			}
			if !ok {
				return scoreresult.ErrOutOfStep
			}
			if st != nil && o.Propagate {
				return st
			}
		case feeOpCall:
			sub := o.Sub
			to := w.progAddr[sub.Target]
			limit := cc.StepAvailable()
			if o.Limit > 0 && big.NewInt(o.Limit).Cmp(limit) < 0 {
				limit = big.NewInt(o.Limit)
			}
			val := sub.Value
			if val == nil {
				val = new(big.Int)
			}
			var ch contract.ContractHandler
			if sub.Target < w.cfg.NSync {
				ch = &feeHandler{w: w, from: self, to: to, value: val, prog: sub, log: trace.LoggerOf(w.logger)}
			} else {
				method := "run"
				if sub.NonPayable {
					method = "runnp"
				}
				obj, err := common.EncodeAny(map[string]interface{}{
					"method": method,
					"params": map[string]interface{}{"id": sub.id},
				})
				if err != nil {
					return err
				}
				var err2 error
				ch, err2 = w.cm.GetCallHandler(self, to, val, contract.CTypeCall, obj)
				if err2 != nil {
					return err2
				}
			}
			st, used, _, _ := cc.Call(ch, limit)
			if errors.CodeOf(st) == scoreresult.TimeoutError {
				// nothing runs on after the transaction timed out (a real engine has been killed by now)
				cc.DeductSteps(used)
				return st
			}
			if !cc.DeductSteps(used) {
				return scoreresult.ErrOutOfStep
			}
			if st != nil && o.Propagate {
				return st
			}
		case feeOpFlag:
			method := "enableScore"
			if o.Disable {
				method = "disableScore"
			}
			data := []byte(fmt.Sprintf(`{"method":"%s","params":{"address":"%s"}}`, method, o.To))
			ch, err := w.cm.ContractManager.GetHandler(self, state.SystemAddress, new(big.Int), contract.CTypeCall, data)
			if err != nil {
				return err
			}
			st, used, _, _ := cc.Call(ch, cc.StepAvailable())
			ok := cc.DeductSteps(used)
			if st == nil {
				tr.mut(&feeMut{Kind: feeMutFlag, Contract: o.To, Disabled: o.Disable})
			}
			if !ok {
				return scoreresult.ErrOutOfStep
			}
			if st != nil && o.Propagate {
				return st
			}
		case feeOpHang:
			// an asynchronous callee changes state and never reports back: goloop's call context waits for the
			// transaction timeout and fails the whole transaction (clean-up of every open frame)
			ch := &feeHangHandler{to: self, key: feeKey(o.Key), val: o.Val, log: trace.LoggerOf(w.logger)}
			st, used, _, _ := cc.Call(ch, cc.StepAvailable())
			cc.DeductSteps(used)
			if st == nil {
				st = scoreresult.ErrUnknownFailure // cannot happen: nobody answered
			}
			return st
		case feeOpSysCall:
			// a call into the real chain SCORE that is denied (not governance): charged, fails
			data := []byte(`{"method":"setStepPrice","params":{"price":"0x1"}}`)
			ch, err := w.cm.ContractManager.GetHandler(self, state.SystemAddress, new(big.Int), contract.CTypeCall, data)
			if err != nil {
				return err
			}
			st, used, _, _ := cc.Call(ch, cc.StepAvailable())
			if !cc.DeductSteps(used) {
				return scoreresult.ErrOutOfStep
			}
			if st != nil && o.Propagate {
				return st
			}
		}
	}
	switch prog.End {
	case feeEndOK:
		return nil
	case feeEndRevert:
		return scoreresult.ErrReverted
	case feeEndUserRevert:
		return feeErrUserRevert
	case feeEndOutOfStep:
		cc.DeductSteps(new(big.Int).Add(cc.StepAvailable(), big.NewInt(1)))
		return scoreresult.ErrOutOfStep
	case feeEndInvalidParam:
		return scoreresult.ErrInvalidParameter
	case feeEndSystemError:
		return scoreresult.ErrUnknownFailure
	case feeEndAccessDenied:
		return scoreresult.ErrAccessDenied
	}
	return nil
}

// ---------------------------------------------------------------------------------------------
// setup transaction: marks the programmable contract accounts as contracts / deploys the score
// transport, then runs the chain SCORE calls of the embedded test transaction.

type feeSetupTx struct {
	*test.Transaction
	w *feeWorld
}

func (t *feeSetupTx) GetHandler(cm contract.ContractManager) (transaction.Handler, error) {
	return t, nil
}

func (t *feeSetupTx) Execute(ctx contract.Context, wcs state.WorldSnapshot, estimate bool) (txresult.Receipt, error) {
	cc := contract.NewCallContext(ctx, big.NewInt(1<<62), false)
	for i, a := range t.w.progAddr {
		// contract 0 belongs to EOA 0, the others to contract 0 (which may disable/enable them)
		var owner module.Address = common.MustNewAddressFromString(t.w.eoa[0])
		if i > 0 {
			owner = t.w.progAddr[0]
		}
		if i < t.w.cfg.NSync {
			if !ctx.GetAccountState(a.ID()).InitContractAccount(owner) {
				return nil, fmt.Errorf("harness: cannot init contract account %s", a)
			}
		} else {
			if err := contract.DeployAndInstallSystemSCORE(cc, fmt.Sprintf("%s%d", feeScorePrefix, i), owner, a, nil, t.ID()); err != nil {
				return nil, err
			}
		}
	}
	return t.Transaction.Execute(ctx, wcs, estimate)
}

// ---------------------------------------------------------------------------------------------
// world

type feeWorld struct {
	cfg       feeCfg
	db        db.Database
	chain     *feeChain
	plt       base.Platform
	cm        *feeCM
	logger    log.Logger
	last      module.Transition
	result    []byte
	height    int64
	ts        int64
	wallets   []module.Wallet
	eoa       []string // address strings of funded EOAs
	progAddr  []module.Address
	progIndex map[string]int
	treasury  string
	universe  []string // every address the generator may touch (sorted), incl. treasury and system

	mu     sync.Mutex
	progs  map[string]*feeProg
	traces map[string]*feeTrace
	active *feeTrace
	nextID int
	dir    string
}

type feeCB struct{ ch chan error }

func (c *feeCB) OnValidate(tr module.Transition, err error) { c.ch <- err }
func (c *feeCB) OnExecute(tr module.Transition, err error)  { c.ch <- err }

// feeRunTransition executes tr; returns (validation error, execution error).
func feeRunTransition(tr module.Transition) (error, error) {
	cb := &feeCB{ch: make(chan error, 2)}
	if _, err := tr.Execute(cb); err != nil {
		return nil, err
	}
	if err := <-cb.ch; err != nil {
		return err, nil
	}
	return nil, <-cb.ch
}

func feeProgAddress(i int) *common.Address {
	b := make([]byte, 20)
	copy(b, []byte("harnessprog"))
	b[19] = byte(i + 1)
	return common.NewContractAddress(b)
}

var feeDeadContract = func() *common.Address {
	b := make([]byte, 20)
	copy(b, []byte("nosuchcontract"))
	return common.NewContractAddress(b)
}()

const feeDefaultTreasury = "hx1000000000000000000000000000000000000000"

func feeFreshEOA(i int) *common.Address {
	b := make([]byte, 20)
	copy(b, []byte("fresheoa"))
	b[19] = byte(i + 1)
	return common.NewAccountAddress(b)
}

const feeWalletBase = 7000
const feeValidatorWallet = 7999

func init() {
	log.GlobalLogger().SetLevel(log.PanicLevel)
	log.GlobalLogger().SetConsoleLevel(log.PanicLevel)
}

func feeNewWorld(cfg feeCfg, tmpDir string) (*feeWorld, error) {
	var plt base.Platform = basic.Platform
	if cfg.LegacyBalance {
		plt = &feePlatform{Platform: basic.Platform, extra: module.LegacyBalanceCheck}
	}
	w := &feeWorld{cfg: cfg, db: db.NewMapDB(), plt: plt,
		progs: map[string]*feeProg{}, traces: map[string]*feeTrace{}, progIndex: map[string]int{}, dir: tmpDir}
	logger := log.New()
	logger.SetLevel(log.PanicLevel)
	logger.SetConsoleLevel(log.PanicLevel)
	w.logger = logger

	type acc struct {
		Name    string `json:"name"`
		Address string `json:"address"`
		Balance string `json:"balance"`
	}
	var accs []acc
	uni := map[string]bool{}
	for i := 0; i < cfg.NEOA; i++ {
		wl := gen.WalletFromIndex(feeWalletBase + i)
		w.wallets = append(w.wallets, wl)
		a := wl.Address().String()
		w.eoa = append(w.eoa, a)
		uni[a] = true
		name := fmt.Sprintf("acct%d", i)
		if i == 0 {
			name = "god"
		}
		accs = append(accs, acc{name, a, "0x" + cfg.Balances[i].Text(16)})
		if i == 0 && cfg.GovEOA {
			// a second name for the same address: "governance" system variable
			accs = append(accs, acc{"governance", a, "0x0"})
		}
	}
	// note: a repeated address overwrites the balance in genesis; put "governance" first instead
	if cfg.GovEOA {
		// reorder: governance entry (balance 0) before god (real balance)
		var re []acc
		for _, a := range accs {
			if a.Name == "governance" {
				re = append([]acc{a}, re...)
			} else {
				re = append(re, a)
			}
		}
		accs = re
	}
	w.treasury = feeDefaultTreasury
	if cfg.TreasuryAlt {
		b := make([]byte, 20)
		copy(b, []byte("alttreasury"))
		w.treasury = common.NewAccountAddress(b).String()
	}
	accs = append(accs, acc{"treasury", w.treasury, "0x" + cfg.TreasuryBal.Text(16)})
	uni[w.treasury] = true
	for i := 0; i < cfg.NProg; i++ {
		a := feeProgAddress(i)
		w.progAddr = append(w.progAddr, a)
		w.progIndex[a.String()] = i
		uni[a.String()] = true
		if cfg.ProgBal[i].Sign() > 0 {
			accs = append(accs, acc{fmt.Sprintf("prog%d", i), a.String(), "0x" + cfg.ProgBal[i].Text(16)})
		}
	}
	for i := 0; i < 3; i++ {
		uni[feeFreshEOA(i).String()] = true
	}
	uni[feeDeadContract.String()] = true
	uni[state.SystemAddress.String()] = true
	for a := range uni {
		w.universe = append(w.universe, a)
	}
	sort.Strings(w.universe)

	costs := map[string]string{}
	for k, v := range cfg.Costs {
		costs[k] = fmt.Sprintf("0x%x", v)
	}
	vw := gen.WalletFromIndex(feeValidatorWallet)
	chainCfg := map[string]interface{}{
		"revision": fmt.Sprintf("0x%x", cfg.Revision),
		"fee": map[string]interface{}{
			"stepPrice": "0x" + cfg.StepPrice.Text(16),
			"stepLimit": map[string]string{"invoke": fmt.Sprintf("0x%x", cfg.InvokeLimit), "query": "0x10000"},
			"stepCosts": costs,
		},
		"validatorList": []string{vw.Address().String()},
	}
	gj := map[string]interface{}{
		"accounts": accs,
		"message":  "hfee",
		"chain":    chainCfg,
		"nid":      "0x1",
	}
	gbs, err := json.Marshal(gj)
	if err != nil {
		return nil, err
	}
	tc, err := test.NewChain(feeT{}, vw, w.db, logger, consensus.NewCommitVoteSetFromBytes, string(gbs))
	if err != nil {
		return nil, err
	}
	w.chain = &feeChain{Chain: tc, timeout: time.Duration(cfg.TimeoutMs) * time.Millisecond}
	rcm, err := w.plt.NewContractManager(w.db, tmpDir, logger)
	if err != nil {
		return nil, err
	}
	w.cm = &feeCM{ContractManager: rcm, w: w}
	init, err := service.NewInitTransition(w.db, nil, nil, w.cm, nil, w.chain, logger, w.plt, service.NewTimestampChecker())
	if err != nil {
		return nil, err
	}
	gtx, err := transaction.NewGenesisTransaction(gbs)
	if err != nil {
		return nil, err
	}
	w.last = init
	w.height = -1
	if _, verr, xerr := w.runBlock([]module.Transaction{gtx}, true); verr != nil || xerr != nil {
		return nil, fmt.Errorf("genesis: validate=%v execute=%v", verr, xerr)
	}
	{
		stx := test.NewTx().SetTimestamp(w.ts)
		if cfg.BTP {
			const dsa = "ecdsa/secp256k1"
			gov := common.MustNewAddressFromString("cx0000000000000000000000000000000000000001")
			if cfg.GovEOA {
				gov = common.MustNewAddressFromString(w.eoa[0])
			}
			stx.CallFrom(vw.Address().(*common.Address), "setBTPPublicKey", map[string]string{
				"name":   dsa,
				"pubKey": "0x" + hex.EncodeToString(vw.PublicKey()),
			}).CallFrom(gov, "openBTPNetwork", map[string]string{
				"networkTypeName": "eth",
				"name":            "eth-test",
				"owner":           w.progAddr[0].String(),
			})
		}
		setup := transaction.Wrap(&feeSetupTx{Transaction: stx, w: w})
		if _, verr, xerr := w.runBlock([]module.Transaction{setup}, true); verr != nil || xerr != nil {
			return nil, fmt.Errorf("setup: validate=%v execute=%v", verr, xerr)
		}
		// one more (empty) block so that block-level effects of the setup are settled
		if _, verr, xerr := w.runBlock(nil, true); verr != nil || xerr != nil {
			return nil, fmt.Errorf("settle: validate=%v execute=%v", verr, xerr)
		}
		if cfg.BTP {
			bc, err := service.NewBTPContext(w.db, w.result)
			if err != nil {
				return nil, err
			}
			if _, err := bc.GetNetwork(feeBTPNetworkID); err != nil {
				return nil, fmt.Errorf("btp network not open: %v", err)
			}
		}
	}
	return w, nil
}

// runBlock executes one block on top of the last one and finalizes it. It returns the receipts.
// verr: the block was rejected by validation (nothing executed, world unchanged).
func (w *feeWorld) runBlock(txs []module.Transaction, validated bool) (rcts []module.Receipt, verr error, xerr error) {
	height := w.height + 1
	ts := w.ts + 1000
	txl := transaction.NewTransactionListFromSlice(w.db, txs)
	csi := common.NewConsensusInfo(nil, nil, nil)
	tr := service.NewTransition(w.last, nil, txl, common.NewBlockInfo(height, ts), csi, validated)
	verr, xerr = feeRunTransition(tr)
	if verr != nil || xerr != nil {
		return nil, verr, xerr
	}
	if err := service.FinalizeTransition(tr, module.FinalizeNormalTransaction|module.FinalizePatchTransaction|module.FinalizeResult, false); err != nil {
		return nil, nil, fmt.Errorf("finalize: %w", err)
	}
	w.last = tr
	w.height = height
	w.ts = ts
	w.result = tr.Result()
	rl := tr.NormalReceipts()
	for i := 0; i < len(txs); i++ {
		r, err := rl.Get(i)
		if err != nil {
			return nil, nil, fmt.Errorf("receipt %d: %w", i, err)
		}
		rcts = append(rcts, r)
	}
	return rcts, nil, nil
}

func (w *feeWorld) snapshot() (state.WorldSnapshot, error) {
	return service.NewWorldSnapshot(w.db, w.plt, w.result, nil)
}

// ---------------------------------------------------------------------------------------------
// transactions

type feeTxSpec struct {
	From   int // EOA index
	To     string
	Value  *big.Int // nil = no value field
	Limit  int64
	Kind   string   // "transfer", "message", "prog", "syscall", "govprice"
	Msg    []byte   // message payload
	Prog   *feeProg // for "prog"
	Price  *big.Int // for "govprice"
	ProgID string
	Nonce  int
}

func (s *feeTxSpec) String() string {
	v := "-"
	if s.Value != nil {
		v = s.Value.String()
	}
	d := ""
	switch s.Kind {
	case "message":
		d = fmt.Sprintf(" msg=%dB", len(s.Msg))
	case "prog":
		d = " " + s.Prog.String()
	case "govprice":
		d = " price=" + s.Price.String()
	}
	return fmt.Sprintf("{%s e%d->%s v=%s lim=%d%s}", s.Kind, s.From, feeShort(s.To), v, s.Limit, d)
}

func (w *feeWorld) registerProg(p *feeProg) string {
	w.mu.Lock()
	defer w.mu.Unlock()
	return w.registerProgLocked(p)
}

func (w *feeWorld) registerProgLocked(p *feeProg) string {
	w.nextID++
	id := fmt.Sprintf("p%d", w.nextID)
	p.id = id
	w.progs[id] = p
	for i := range p.Ops {
		if p.Ops[i].Kind == feeOpCall {
			w.registerProgLocked(p.Ops[i].Sub)
		}
	}
	return id
}

// dataBytes is the number of input bytes goloop charges for (compact JSON for revision >= 3)
func (w *feeWorld) buildTx(s *feeTxSpec) (module.Transaction, []byte, error) {
	m := map[string]interface{}{
		"version":   "0x3",
		"from":      w.eoa[s.From],
		"to":        s.To,
		"stepLimit": fmt.Sprintf("0x%x", s.Limit),
		"timestamp": fmt.Sprintf("0x%x", w.ts+1000),
		"nid":       "0x1",
		"nonce":     fmt.Sprintf("0x%x", s.Nonce),
	}
	if s.Value != nil {
		m["value"] = "0x" + s.Value.Text(16)
	}
	var data []byte
	switch s.Kind {
	case "message":
		m["dataType"] = "message"
		m["data"] = "0x" + hex.EncodeToString(s.Msg)
		data, _ = json.Marshal(m["data"])
	case "prog":
		if s.ProgID == "" {
			s.ProgID = w.registerProg(s.Prog)
		}
		m["dataType"] = "call"
		method := "run"
		if s.Prog.NonPayable && s.Prog.Target >= w.cfg.NSync {
			method = "runnp"
		}
		d := map[string]interface{}{"method": method, "params": map[string]string{"id": s.ProgID}}
		m["data"] = d
		data, _ = json.Marshal(d)
	case "syscall":
		m["dataType"] = "call"
		d := map[string]interface{}{"method": "setStepPrice", "params": map[string]string{"price": "0x5"}}
		m["data"] = d
		data, _ = json.Marshal(d)
	case "govprice":
		m["dataType"] = "call"
		d := map[string]interface{}{"method": "setStepPrice", "params": map[string]string{"price": "0x" + s.Price.Text(16)}}
		m["data"] = d
		data, _ = json.Marshal(d)
	}
	js, err := json.Marshal(m)
	if err != nil {
		return nil, nil, err
	}
	tx, err := transaction.NewTransactionFromJSON(js)
	if err != nil {
		return nil, nil, err
	}
	sig, err := w.wallets[s.From].Sign(tx.ID())
	if err != nil {
		return nil, nil, err
	}
	m["signature"] = base64.StdEncoding.EncodeToString(sig)
	js, err = json.Marshal(m)
	if err != nil {
		return nil, nil, err
	}
	tx, err = transaction.NewTransactionFromJSON(js)
	if err != nil {
		return nil, nil, err
	}
	return tx, data, nil
}

// ---------------------------------------------------------------------------------------------
// reference model of the observable world: balances and programmable-contract storage

type feeModel struct {
	bal      map[string]*big.Int
	store    map[string]map[string][]byte
	disabled map[string]bool
}

func feeNewModel() *feeModel {
	return &feeModel{bal: map[string]*big.Int{}, store: map[string]map[string][]byte{}, disabled: map[string]bool{}}
}

func (m *feeModel) clone() *feeModel {
	n := feeNewModel()
	for k, v := range m.bal {
		n.bal[k] = new(big.Int).Set(v)
	}
	for c, d := range m.disabled {
		n.disabled[c] = d
	}
	for c, s := range m.store {
		ns := map[string][]byte{}
		for k, v := range s {
			ns[k] = v
		}
		n.store[c] = ns
	}
	return n
}

func (m *feeModel) balance(a string) *big.Int {
	if b, ok := m.bal[a]; ok {
		return b
	}
	b := new(big.Int)
	m.bal[a] = b
	return b
}

func (m *feeModel) add(a string, d *big.Int) { m.balance(a).Add(m.balance(a), d) }
func (m *feeModel) sub(a string, d *big.Int) { m.balance(a).Sub(m.balance(a), d) }

func (m *feeModel) set(c, k string, v []byte) {
	s := m.store[c]
	if s == nil {
		s = map[string][]byte{}
		m.store[c] = s
	}
	if v == nil {
		delete(s, k)
	} else {
		s[k] = v
	}
}

// feeReadModel reads the model-visible part of a world snapshot.
func (w *feeWorld) readModel(ws state.WorldSnapshot, nKeys int) (*feeModel, error) {
	m := feeNewModel()
	for _, a := range w.universe {
		addr := common.MustNewAddressFromString(a)
		as := ws.GetAccountSnapshot(addr.ID())
		if as == nil {
			m.bal[a] = new(big.Int)
			continue
		}
		m.bal[a] = new(big.Int).Set(as.GetBalance())
		if _, ok := w.progIndex[a]; ok {
			if as.IsDisabled() {
				m.disabled[a] = true
			}
			for k := 0; k < nKeys; k++ {
				v, err := as.GetValue(feeKey(k))
				if err != nil {
					return nil, err
				}
				if v != nil {
					m.set(a, string(feeKey(k)), v)
				}
			}
		}
	}
	return m, nil
}

func feeDiffModels(exp, got *feeModel) []string {
	var out []string
	keys := map[string]bool{}
	for k := range exp.bal {
		keys[k] = true
	}
	for k := range got.bal {
		keys[k] = true
	}
	var ks []string
	for k := range keys {
		ks = append(ks, k)
	}
	sort.Strings(ks)
	for _, k := range ks {
		e, g := exp.balance(k), got.balance(k)
		if e.Cmp(g) != 0 {
			out = append(out, fmt.Sprintf("balance[%s]: expected %s, found %s (found-expected=%s)", k, e, g, new(big.Int).Sub(g, e)))
		}
	}
	for _, k := range ks {
		if exp.disabled[k] != got.disabled[k] {
			out = append(out, fmt.Sprintf("disabled-flag[%s]: expected %v, found %v", feeShort(k), exp.disabled[k], got.disabled[k]))
		}
	}
	cs := map[string]bool{}
	for c := range exp.store {
		cs[c] = true
	}
	for c := range got.store {
		cs[c] = true
	}
	var cl []string
	for c := range cs {
		cl = append(cl, c)
	}
	sort.Strings(cl)
	for _, c := range cl {
		kk := map[string]bool{}
		for k := range exp.store[c] {
			kk[k] = true
		}
		for k := range got.store[c] {
			kk[k] = true
		}
		var kl []string
		for k := range kk {
			kl = append(kl, k)
		}
		sort.Strings(kl)
		for _, k := range kl {
			e, g := exp.store[c][k], got.store[c][k]
			if !bytes.Equal(e, g) || (e == nil) != (g == nil) {
				out = append(out, fmt.Sprintf("storage[%s][%s]: expected %x (present=%v), found %x (present=%v)", feeShort(c), k, e, e != nil, g, g != nil))
			}
		}
	}
	return out
}

// expectedStateHash applies the difference between two models to the real "before" snapshot
// with goloop's own state package and returns the resulting state hash.
func (w *feeWorld) expectedStateHash(before state.WorldSnapshot, mBefore, mAfter *feeModel) ([]byte, error) {
	ws, err := state.WorldStateFromSnapshot(before)
	if err != nil {
		return nil, err
	}
	for _, a := range w.universe {
		addr := common.MustNewAddressFromString(a)
		b0, b1 := mBefore.balance(a), mAfter.balance(a)
		s0, s1 := mBefore.store[a], mAfter.store[a]
		changed := b0.Cmp(b1) != 0
		kk := map[string]bool{}
		for k, v := range s0 {
			if v1, ok := s1[k]; !ok || !bytes.Equal(v, v1) {
				kk[k] = true
			}
		}
		for k := range s1 {
			if _, ok := s0[k]; !ok {
				kk[k] = true
			}
		}
		if !changed && len(kk) == 0 && mBefore.disabled[a] == mAfter.disabled[a] {
			continue
		}
		as := ws.GetAccountState(addr.ID())
		if mBefore.disabled[a] != mAfter.disabled[a] {
			as.SetDisable(mAfter.disabled[a])
		}
		if changed {
			as.SetBalance(new(big.Int).Set(b1))
		}
		var kl []string
		for k := range kk {
			kl = append(kl, k)
		}
		sort.Strings(kl)
		for _, k := range kl {
			if v, ok := s1[k]; ok {
				if _, err := as.SetValue([]byte(k), v); err != nil {
					return nil, err
				}
			} else {
				if _, err := as.DeleteValue([]byte(k)); err != nil {
					return nil, err
				}
			}
		}
	}
	return ws.GetSnapshot().StateHash(), nil
}

// ---------------------------------------------------------------------------------------------
// receipts

type feeEv struct {
	Addr string
	Val  string
}

func feeHarnessEvents(r module.Receipt) (harness []feeEv, total int, err error) {
	for it := r.EventLogIterator(); it.Has(); it.Next() {
		e, err := it.Get()
		if err != nil {
			return nil, 0, err
		}
		total++
		idx := e.Indexed()
		if len(idx) == 2 && bytes.Equal(idx[0], feeEventSig) {
			harness = append(harness, feeEv{e.Address().String(), string(idx[1])})
		}
	}
	return harness, total, nil
}

func feeBTPMessages(r module.Receipt) int {
	if l := r.BTPMessages(); l != nil {
		return l.Len()
	}
	return 0
}
