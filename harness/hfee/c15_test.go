package hfee

import (
	"testing"

	"pgregory.net/rapid"

	"verifharness/internal/ev"
)

// C15: for every executed transaction without fee sharing, the sender is charged exactly the fee
// its result reports (stepUsed x stepPrice, minimum charge <= stepUsed <= stepLimit) plus, if it
// succeeded, the value it carries; a successful plain transfer credits exactly that value to the
// recipient; the treasury receives exactly the fees charged in the block, so the sum of all
// balances is unchanged; no balance ever becomes negative.
//
// Oracle (accounting model): balances of every account the generator can reach are read from the
// database before and after each block. Per result: fee = stepUsed*stepPrice is debited from the
// sender and credited to the treasury; value moves only for successful transactions (for
// programmable-contract calls additionally the contract's own surviving transfers, as recorded by
// the harness contract). Every account must match, the sum must stay constant, nothing negative,
// and default-cost <= stepUsed <= stepLimit.
func TestC15(t *testing.T) {
	rec := ev.New("C15", "rapid-drawn chain config (step price 0/1/10/1e10/1.25e10, step costs, balances 0..1e24, optional treasury address, optional in-block step price change) + 1..4 blocks of 1..20 signed transactions (transfers, messages with data, programmable-contract calls, system calls; values and step limits on the affordability boundaries); non-trivial = some block holds a failed and a successful transaction of the same sender; distinct by rendered (config, blocks)")
	defer rec.Flush(t)
	o := feeOpts{Prop: "C15", MaxBlocks: 4, MaxTx: 20, ProgWeight: 4, MaxOps: 4, MaxDepth: 2, CheckLedger: true}
	if ev.Thorough() {
		o.MaxBlocks, o.MaxTx = 6, 40
	}
	t.Run("ledger", func(t *testing.T) {
		ev.Check(t, 600, 7000, func(rt *rapid.T) {
			res := feeRunCase(rt, o)
			feeRecord(rec, res, res.sameSenderMix > 0)
			if res.violation != "" {
				rt.Fatalf("C15 violated: %s\ncase: %s", res.violation, res.desc)
			}
		})
	})
}
