package hfee

// Case generator and the accounting / rollback oracle shared by C15 and C16.

import (
	"bytes"
	"crypto/sha256"
	"fmt"
	"math/big"
	"os"
	"sort"
	"strings"

	"github.com/icon-project/goloop/module"
	"github.com/icon-project/goloop/service/state"
	"github.com/icon-project/goloop/service/transaction"
	"pgregory.net/rapid"

	"verifharness/internal/ev"
)

const feeNKeys = 4

// feeOpts selects the flavour of a case.
type feeOpts struct {
	Prop        string // "C15" or "C16"
	MaxBlocks   int
	MaxTx       int
	ProgWeight  int // weight of programmable-contract transactions among the kinds (others: 10 in total)
	MaxOps      int
	MaxDepth    int
	CheckState  bool // storage, events, BTP messages, state hash (C16)
	CheckLedger bool // balances of every account incl. treasury, conservation, step bounds (C15)
}

var feeBig = func(s string) *big.Int {
	v, ok := new(big.Int).SetString(s, 10)
	if !ok {
		panic(s)
	}
	return v
}

func feeDrawCfg(rt *rapid.T) feeCfg {
	cfg := feeCfg{}
	cfg.Revision = rapid.SampledFrom([]int{4, 5, 6, 8, 9, 9, 9}).Draw(rt, "revision")
	cfg.StepPrice = new(big.Int).Set(rapid.SampledFrom([]*big.Int{big.NewInt(0), big.NewInt(1), big.NewInt(10),
		feeBig("10000000000"), feeBig("12500000000")}).Draw(rt, "stepPrice"))
	def := rapid.SampledFrom([]int64{0, 1, 100, 100000}).Draw(rt, "cost.default")
	cfg.Costs = map[string]int64{
		"default":      def,
		"input":        rapid.SampledFrom([]int64{0, 1, 200}).Draw(rt, "cost.input"),
		"contractCall": rapid.SampledFrom([]int64{0, 10, 25000}).Draw(rt, "cost.contractCall"),
		"set":          rapid.SampledFrom([]int64{0, 1, 320}).Draw(rt, "cost.set"),
		"replace":      80,
		"delete":       rapid.SampledFrom([]int64{0, 7, 150}).Draw(rt, "cost.delete"),
		"eventLog":     rapid.SampledFrom([]int64{0, 1, 100}).Draw(rt, "cost.eventLog"),
		"get":          1,
	}
	cfg.InvokeLimit = 1 << 40
	if rapid.IntRange(0, 9).Draw(rt, "smallInvokeLimit") == 0 {
		cfg.InvokeLimit = def*3 + 60000
	}
	cfg.NEOA = rapid.IntRange(3, 6).Draw(rt, "nEOA")
	for i := 0; i < cfg.NEOA; i++ {
		var b *big.Int
		switch rapid.IntRange(0, 7).Draw(rt, fmt.Sprintf("balClass%d", i)) {
		case 0:
			b = big.NewInt(0)
		case 1:
			b = big.NewInt(int64(rapid.IntRange(1, 5000).Draw(rt, "bal")))
		case 2:
			b = new(big.Int).Mul(big.NewInt(int64(rapid.IntRange(1, 3000000).Draw(rt, "bal"))), cfg.StepPrice)
			b.Add(b, big.NewInt(int64(rapid.IntRange(0, 1000).Draw(rt, "balx"))))
		default:
			b = new(big.Int).Mul(feeBig("1000000000000000000"), big.NewInt(int64(rapid.IntRange(1, 1000000).Draw(rt, "bal"))))
		}
		if i == 0 && b.Sign() == 0 {
			b = feeBig("1000000000000000000000")
		}
		cfg.Balances = append(cfg.Balances, b)
	}
	cfg.NProg = rapid.IntRange(2, 3).Draw(rt, "nProg")
	cfg.NSync = rapid.IntRange(1, cfg.NProg).Draw(rt, "nSync")
	for i := 0; i < cfg.NProg; i++ {
		b := big.NewInt(0)
		if rapid.Bool().Draw(rt, fmt.Sprintf("progFunded%d", i)) {
			b = big.NewInt(int64(rapid.IntRange(1, 100000).Draw(rt, "progBal")))
		}
		cfg.ProgBal = append(cfg.ProgBal, b)
	}
	cfg.TreasuryAlt = rapid.Bool().Draw(rt, "treasuryAlt")
	cfg.TreasuryBal = big.NewInt(0)
	if rapid.Bool().Draw(rt, "treasuryFunded") {
		cfg.TreasuryBal = big.NewInt(12345)
	}
	cfg.GovEOA = rapid.Bool().Draw(rt, "govEOA")
	cfg.BTP = cfg.Revision == 9 && rapid.IntRange(0, 2).Draw(rt, "btp") > 0
	cfg.LegacyBalance = rapid.IntRange(0, 2).Draw(rt, "legacyBalanceCheck") == 0
	if rapid.IntRange(0, 7).Draw(rt, "hangWorld") == 0 {
		cfg.TimeoutMs = 200
	}
	return cfg
}

type feeGen struct {
	rt      *rapid.T
	w       *feeWorld
	o       feeOpts
	m       *feeModel // model at the start of the block being drawn
	nonce   int
	drained int // EOA that spends everything at the start of the block (-1: none)
	hangs   int // hang operations drawn so far (each costs one transaction timeout of wall time)
}

func (g *feeGen) anyAddr(label string, withContracts bool) string {
	var c []string
	c = append(c, g.w.eoa...)
	for i := 0; i < 3; i++ {
		c = append(c, feeFreshEOA(i).String())
	}
	c = append(c, g.w.treasury)
	if withContracts {
		for _, a := range g.w.progAddr {
			c = append(c, a.String())
		}
		c = append(c, feeDeadContract.String())
	}
	return rapid.SampledFrom(c).Draw(g.rt, label)
}

func (g *feeGen) smallBytes(label string) []byte {
	n := rapid.IntRange(1, 6).Draw(g.rt, label+".len")
	return rapid.SliceOfN(rapid.Byte(), n, n).Draw(g.rt, label)
}

func (g *feeGen) drawProg(target int, depth int, top bool) *feeProg {
	rt := g.rt
	p := &feeProg{Target: target}
	self := g.w.progAddr[target].String()
	nOps := rapid.IntRange(0, g.o.MaxOps).Draw(rt, "nOps")
	for i := 0; i < nOps; i++ {
		kinds := []int{feeOpSet, feeOpSet, feeOpSet, feeOpDel, feeOpDel, feeOpEvent, feeOpEvent, feeOpXfer, feeOpXfer, feeOpSteps}
		if g.w.cfg.BTP {
			kinds = append(kinds, feeOpBTP, feeOpBTP)
		}
		if depth < g.o.MaxDepth {
			kinds = append(kinds, feeOpCall, feeOpCall, feeOpCall, feeOpCall, feeOpCall)
		}
		kinds = append(kinds, feeOpSysCall)
		if g.w.cfg.TimeoutMs > 0 && g.hangs < 3 {
			kinds = append(kinds, feeOpHang, feeOpHang)
		}
		if g.w.cfg.NProg > 1 {
			kinds = append(kinds, feeOpFlag)
			if target == 0 {
				kinds = append(kinds, feeOpFlag)
			}
		}
		k := rapid.SampledFrom(kinds).Draw(rt, "op")
		if k == feeOpSysCall && rapid.IntRange(0, 2).Draw(rt, "sysKeep") != 0 {
			k = feeOpSet
		}
		o := feeOp{Kind: k, ChargeFirst: rapid.Bool().Draw(rt, "chargeFirst")}
		switch k {
		case feeOpSet:
			o.Key = rapid.IntRange(0, feeNKeys-1).Draw(rt, "key")
			o.Val = g.smallBytes("val")
		case feeOpDel:
			o.Key = rapid.IntRange(0, feeNKeys-1).Draw(rt, "key")
		case feeOpEvent, feeOpBTP:
			o.Val = g.smallBytes("payload")
		case feeOpSteps:
			o.Steps = int64(rapid.SampledFrom([]int{0, 1, 50, 1000, 100000}).Draw(rt, "burn"))
		case feeOpXfer:
			o.To = g.anyAddr("xferTo", true)
			bal := g.m.balance(self)
			switch rapid.IntRange(0, 4).Draw(rt, "amtClass") {
			case 0:
				o.Amt = big.NewInt(0)
			case 1:
				o.Amt = big.NewInt(int64(rapid.IntRange(1, 50).Draw(rt, "amt")))
			case 2:
				o.Amt = new(big.Int).Set(bal)
			case 3:
				o.Amt = new(big.Int).Add(bal, big.NewInt(int64(rapid.IntRange(1, 20).Draw(rt, "amtOver"))))
			default:
				o.Amt = big.NewInt(int64(rapid.IntRange(1, 100000).Draw(rt, "amt")))
			}
			o.Propagate = rapid.Bool().Draw(rt, "propagate")
		case feeOpCall:
			o.Sub = g.drawProg(rapid.IntRange(0, g.w.cfg.NProg-1).Draw(rt, "subTarget"), depth+1, false)
			o.Limit = int64(rapid.SampledFrom([]int{0, 0, 0, 0, 0, 1, 60, 400, 30000}).Draw(rt, "callLimit"))
			o.Propagate = rapid.IntRange(0, 2).Draw(rt, "propagate") == 0
		case feeOpHang:
			g.hangs++
			o.Key = rapid.IntRange(0, feeNKeys-1).Draw(rt, "key")
			o.Val = g.smallBytes("val")
		case feeOpSysCall:
			o.Propagate = rapid.IntRange(0, 3).Draw(rt, "propagate") == 0
		case feeOpFlag:
			o.To = g.w.progAddr[rapid.IntRange(1, g.w.cfg.NProg-1).Draw(rt, "flagTarget")].String()
			o.Disable = rapid.IntRange(0, 2).Draw(rt, "disable") > 0
			o.Propagate = rapid.IntRange(0, 3).Draw(rt, "propagate") == 0
		}
		p.Ops = append(p.Ops, o)
	}
	okw := 6
	if !top {
		okw = 7
	}
	ends := []int{}
	for i := 0; i < okw; i++ {
		ends = append(ends, feeEndOK)
	}
	ends = append(ends, feeEndRevert, feeEndRevert, feeEndUserRevert, feeEndOutOfStep, feeEndInvalidParam, feeEndSystemError, feeEndAccessDenied)
	p.End = rapid.SampledFrom(ends).Draw(rt, "end")
	if !top {
		p.Value = big.NewInt(0)
		switch rapid.IntRange(0, 5).Draw(rt, "subValueClass") {
		case 0:
			p.Value = big.NewInt(int64(rapid.IntRange(1, 30).Draw(rt, "subValue")))
		case 1:
			p.Value = new(big.Int).Add(g.m.balance(self), big.NewInt(int64(rapid.IntRange(0, 3).Draw(rt, "subValueOver"))))
		}
	}
	if target >= g.w.cfg.NSync {
		p.NonPayable = rapid.IntRange(0, 6).Draw(rt, "nonPayable") == 0
	}
	return p
}

// minSteps is the smallest step limit goloop's own pre-validation accepts for the data.
func (g *feeGen) minSteps(data []byte) (int64, error) {
	rev := g.w.plt.ToRevision(g.w.cfg.Revision)
	cnt, err := transaction.MeasureBytesOfData(rev, data)
	if err != nil {
		return 0, err
	}
	return g.w.cfg.Costs["default"] + g.w.cfg.Costs["input"]*int64(cnt), nil
}

func (g *feeGen) drawTx(price *big.Int) (*feeTxSpec, error) {
	rt := g.rt
	w := g.w
	s := &feeTxSpec{From: rapid.IntRange(0, w.cfg.NEOA-1).Draw(rt, "from")}
	g.nonce++
	s.Nonce = g.nonce
	type kw struct {
		k string
		w int
	}
	kinds := []kw{{"transfer", 5}, {"message", 3}, {"prog", g.o.ProgWeight}, {"syscall", 1}}
	if g.drained >= 0 {
		kinds = append(kinds, kw{"prog", 20})
	}
	if w.cfg.GovEOA {
		kinds = append(kinds, kw{"govprice", 1})
	}
	var pool []string
	for _, k := range kinds {
		for i := 0; i < k.w; i++ {
			pool = append(pool, k.k)
		}
	}
	s.Kind = rapid.SampledFrom(pool).Draw(rt, "kind")
	switch s.Kind {
	case "transfer":
		s.To = g.anyAddr("to", true)
	case "message":
		s.To = g.anyAddr("to", false)
		n := rapid.SampledFrom([]int{0, 1, 5, 32, 200}).Draw(rt, "msgLen")
		s.Msg = rapid.SliceOfN(rapid.Byte(), n, n).Draw(rt, "msg")
	case "prog":
		t := rapid.IntRange(0, w.cfg.NProg-1).Draw(rt, "target")
		s.To = w.progAddr[t].String()
		s.Prog = g.drawProg(t, 1, true)
		if g.drained >= 0 && rapid.IntRange(0, 9).Draw(rt, "drainedSender") < 7 {
			s.From = g.drained
		} else if rapid.IntRange(0, 9).Draw(rt, "richSender") < 8 {
			// let most programs run: the richest account pays
			best := 0
			for i := range w.eoa {
				if g.m.balance(w.eoa[i]).Cmp(g.m.balance(w.eoa[best])) > 0 {
					best = i
				}
			}
			s.From = best
		}
	case "syscall":
		s.To = state.SystemAddress.String()
	case "govprice":
		s.From = 0
		s.To = state.SystemAddress.String()
		s.Price = new(big.Int).Set(rapid.SampledFrom([]*big.Int{big.NewInt(0), big.NewInt(1), big.NewInt(7), feeBig("12500000000")}).Draw(rt, "newPrice"))
	}
	if s.Kind != "prog" && s.Kind != "govprice" && g.m.balance(w.eoa[s.From]).Sign() == 0 && rapid.IntRange(0, 3).Draw(rt, "fundedSender") > 0 {
		// penniless senders only produce OutOfBalance: mostly pick one that owns something
		var funded []int
		for i := range w.eoa {
			if g.m.balance(w.eoa[i]).Sign() > 0 {
				funded = append(funded, i)
			}
		}
		if len(funded) > 0 {
			s.From = rapid.SampledFrom(funded).Draw(rt, "fromFunded")
		}
	}
	// provisional limit to learn the data size
	s.Limit = 1
	_, data, err := w.buildTx(s)
	if err != nil {
		return nil, err
	}
	min, err := g.minSteps(data)
	if err != nil {
		return nil, err
	}
	limitClasses := []int{0, 1, 2, 3, 4, 5}
	if s.Kind == "prog" && s.From == g.drained {
		limitClasses = []int{2, 3, 3, 4, 4, 4, 4, 4}
	} else if s.Kind == "prog" {
		limitClasses = []int{0, 1, 2, 2, 3, 3, 3, 4, 4, 4, 4, 4, 4, 4, 4, 5}
	}
	switch rapid.SampledFrom(limitClasses).Draw(rt, "limitClass") {
	case 0:
		s.Limit = min
	case 1:
		s.Limit = min + 1
	case 2:
		s.Limit = min + int64(rapid.IntRange(0, 2000).Draw(rt, "limitExtra"))
	case 3:
		s.Limit = min + int64(rapid.IntRange(0, 200000).Draw(rt, "limitExtra"))
	case 4:
		s.Limit = min + 10000000
	default:
		s.Limit = w.cfg.InvokeLimit + int64(rapid.IntRange(0, 1000).Draw(rt, "limitOver"))
		if s.Limit < min {
			s.Limit = min
		}
	}
	bal := g.m.balance(w.eoa[s.From])
	maxFee := new(big.Int).Mul(big.NewInt(s.Limit), price)
	room := new(big.Int).Sub(bal, maxFee) // value that exactly exhausts the balance at the maximal fee
	if s.Kind == "syscall" || s.Kind == "govprice" {
		return s, nil
	}
	valueClasses := []int{0, 1, 2, 2, 3, 3, 4, 5, 6, 7, 7, 7}
	if s.Kind == "prog" {
		valueClasses = []int{0, 0, 0, 0, 1, 2, 2, 2, 2, 2, 3, 4, 5, 6, 7}
		if s.From == g.drained {
			valueClasses = []int{0, 0, 0, 0, 1, 1, 1, 2, 7}
		}
	}
	vc := rapid.SampledFrom(valueClasses).Draw(rt, "valueClass")
	switch vc {
	case 0:
		s.Value = nil
	case 1:
		s.Value = big.NewInt(0)
	case 2:
		s.Value = big.NewInt(int64(rapid.IntRange(1, 1000).Draw(rt, "value")))
	case 3: // exactly balance - stepLimit*price
		if room.Sign() >= 0 {
			s.Value = room
		} else {
			s.Value = big.NewInt(1)
		}
	case 4: // one more than affordable
		if room.Sign() >= 0 {
			s.Value = new(big.Int).Add(room, big.NewInt(1))
		} else {
			s.Value = new(big.Int).Set(bal)
		}
	case 5: // whole balance (not affordable together with the fee when price>0)
		s.Value = new(big.Int).Set(bal)
	case 6: // more than the balance
		s.Value = new(big.Int).Add(bal, big.NewInt(int64(rapid.IntRange(1, 1000).Draw(rt, "valueOver"))))
	default: // a fraction of the balance
		d := int64(rapid.IntRange(2, 1000).Draw(rt, "valueDiv"))
		s.Value = new(big.Int).Div(bal, big.NewInt(d))
	}
	return s, nil
}

// ---------------------------------------------------------------------------------------------

type feeTxInfo struct {
	spec    *feeTxSpec
	rct     module.Receipt
	trace   *feeTrace
	fee     *big.Int
	ok      bool
	partial bool // failed after the contract/real handler had already mutated something
	innerRB bool // succeeded while an inner frame with mutations failed
}

type feeCaseResult struct {
	desc              string
	labels            map[string]int
	failAfterMutation int // C16 non-trivial witnesses
	innerRollback     int
	sameSenderMix     int // C15 non-trivial witnesses: blocks with a failure and a success by the same sender
	violation         string
}

func (r *feeCaseResult) label(l string) { r.labels[l]++ }

func feeStatusLabel(s module.Status) string {
	if s >= module.StatusReverted {
		return "Reverted"
	}
	return s.String()
}

// feeRunCase draws and runs one case. journal is called with the description before every block.
func feeRunCase(rt *rapid.T, o feeOpts) *feeCaseResult {
	res := &feeCaseResult{labels: map[string]int{}}
	cfg := feeDrawCfg(rt)
	dir, err := os.MkdirTemp("", "hfee")
	if err != nil {
		ev.Inconclusive("cannot create temp dir: %v", err)
	}
	defer os.RemoveAll(dir)
	var desc strings.Builder
	fmt.Fprintf(&desc, "cfg{%s}", cfg.String())
	ev.Journal(desc.String())
	w, err := feeNewWorld(cfg, dir)
	if err != nil {
		ev.Inconclusive("world setup failed for %s: %v", cfg.String(), err)
	}
	snap, err := w.snapshot()
	if err != nil {
		ev.Inconclusive("snapshot: %v", err)
	}
	model, err := w.readModel(snap, feeNKeys)
	if err != nil {
		ev.Inconclusive("readModel: %v", err)
	}
	total0 := new(big.Int)
	for _, a := range w.universe {
		total0.Add(total0, model.balance(a))
	}
	price := new(big.Int).Set(cfg.StepPrice)
	g := &feeGen{rt: rt, w: w, o: o}
	nBlocks := rapid.IntRange(1, o.MaxBlocks).Draw(rt, "nBlocks")
	fail := func(format string, args ...interface{}) *feeCaseResult {
		res.violation = fmt.Sprintf(format, args...)
		res.desc = feeClip(desc.String())
		return res
	}
	for b := 0; b < nBlocks; b++ {
		g.m = model
		nTx := 1
		if rapid.IntRange(0, 2).Draw(rt, "multi") != 0 {
			nTx = rapid.IntRange(1, o.MaxTx).Draw(rt, "nTx")
		}
		validated := rapid.IntRange(0, 4).Draw(rt, "validated") != 0
		var specs []*feeTxSpec
		var txs []module.Transaction
		// directed scenario for the "fee cannot be paid after execution" branch: a sender spends
		// its whole balance first; its later transactions in the block still pass the
		// (block-start based) balance check and run, but the fee cannot be charged afterwards
		g.drained = -1
		var drain *feeTxSpec
		if cfg.LegacyBalance && price.Sign() > 0 && cfg.Costs["default"] > 0 && rapid.IntRange(0, 2).Draw(rt, "drainScenario") > 0 {
			e := 0
			for i := range w.eoa {
				if model.balance(w.eoa[i]).Cmp(model.balance(w.eoa[e])) > 0 {
					e = i
				}
			}
			lim := cfg.Costs["default"]
			room := new(big.Int).Sub(model.balance(w.eoa[e]), new(big.Int).Mul(big.NewInt(lim), price))
			if room.Sign() > 0 {
				g.nonce++
				drain = &feeTxSpec{From: e, To: feeFreshEOA(0).String(), Value: room, Limit: lim, Kind: "transfer", Nonce: g.nonce}
				g.drained = e
				if nTx < 2 {
					nTx = 2
				}
			}
		}
		// emulate the cumulative pre-validation to know whether the block may be sent unvalidated
		pv := model.clone()
		pvOK := true
		pvPrice := price
		for i := 0; i < nTx; i++ {
			var s *feeTxSpec
			if i == 0 && drain != nil {
				s = drain
			} else {
				var err error
				s, err = g.drawTx(price)
				if err != nil {
					ev.Inconclusive("drawTx: %v", err)
				}
			}
			tx, _, err := w.buildTx(s)
			if err != nil {
				ev.Inconclusive("buildTx: %v", err)
			}
			specs = append(specs, s)
			txs = append(txs, tx)
			need := new(big.Int).Mul(big.NewInt(s.Limit), pvPrice)
			if s.Value != nil {
				need.Add(need, s.Value)
			}
			if pv.balance(w.eoa[s.From]).Cmp(need) < 0 {
				pvOK = false
			}
			pv.sub(w.eoa[s.From], need)
			if s.Value != nil {
				pv.add(s.To, s.Value)
			}
		}
		if !pvOK {
			validated = true
		}
		fmt.Fprintf(&desc, " | block%d validated=%v", b, validated)
		for _, s := range specs {
			desc.WriteString(" ")
			desc.WriteString(s.String())
		}
		ev.Journal(desc.String())

		before, err := w.snapshot()
		if err != nil {
			ev.Inconclusive("snapshot: %v", err)
		}
		mBefore := model.clone()
		rcts, verr, xerr := w.runBlock(txs, validated)
		if xerr != nil {
			return fail("execution of a block of valid transactions failed as a whole: %v", xerr)
		}
		if verr != nil {
			// only possible for validated=false; our emulation said the block is valid
			res.label("block-rejected-by-validation")
			continue
		}
		res.label("blocks")
		if validated {
			res.label("block-prevalidated")
		} else {
			res.label("block-validated-by-transition")
		}
		if len(specs) == 1 {
			res.label("block-single-tx")
		}
		totalFee := new(big.Int)
		sysChanged := false
		btpCommitted := 0
		okBy := map[int]bool{}
		failBy := map[int]bool{}
		var infos []*feeTxInfo
		for i, s := range specs {
			r := rcts[i]
			ti := &feeTxInfo{spec: s, rct: r, ok: r.Status() == module.StatusSuccess}
			infos = append(infos, ti)
			from := w.eoa[s.From]
			res.label("tx-" + s.Kind)
			res.label("status-" + feeStatusLabel(r.Status()))
			if ti.ok {
				okBy[s.From] = true
			} else {
				failBy[s.From] = true
			}
			ti.fee = new(big.Int).Mul(r.StepUsed(), r.StepPrice())
			if ti.fee.Sign() < 0 {
				return fail("tx %d %s: negative fee in result: stepUsed=%s stepPrice=%s", i, s, r.StepUsed(), r.StepPrice())
			}
			totalFee.Add(totalFee, ti.fee)
			model.sub(from, ti.fee)
			model.add(w.treasury, ti.fee)
			if o.CheckLedger {
				// steps used between the minimum charge and the step limit
				min := big.NewInt(cfg.Costs["default"])
				if r.StepUsed().Cmp(min) < 0 {
					return fail("tx %d %s: stepUsed=%s below the minimum charge %s (status %s)", i, s, r.StepUsed(), min, r.Status())
				}
				if r.StepUsed().Cmp(big.NewInt(s.Limit)) > 0 {
					return fail("tx %d %s: stepUsed=%s above the step limit (status %s)", i, s, r.StepUsed(), r.Status())
				}
				if r.StepUsed().Cmp(big.NewInt(s.Limit)) == 0 {
					res.label("used-eq-limit")
				}
				if r.StepUsed().Cmp(min) == 0 {
					res.label("used-eq-min")
				}
			}
			if s.Kind == "prog" {
				ti.trace = w.traces[s.ProgID]
			}
			tr := ti.trace
			if tr != nil {
				if !tr.Top.Exited {
					return fail("tx %d %s: programmable contract frame never returned", i, s)
				}
				if tr.Top.Status != nil && ti.ok {
					return fail("tx %d %s: the contract call failed with %v but the result reports success", i, s, tr.Top.Status)
				}
				if tr.InnerFailed {
					res.label("prog-inner-frame-failed")
				}
				ops, depth := s.Prog.countOps()
				_ = ops
				res.label(fmt.Sprintf("prog-depth-%d", depth))
			}
			if s.Kind == "prog" && ti.ok && tr == nil {
				return fail("tx %d %s: result reports success but the contract was never run", i, s)
			}
			// what must be visible
			var expEvents []feeEv
			expBTP := 0
			if ti.ok {
				switch s.Kind {
				case "transfer", "message":
					if s.Value != nil && s.Value.Sign() > 0 {
						model.sub(from, s.Value)
						model.add(s.To, s.Value)
					}
				case "govprice":
					sysChanged = true
				case "syscall":
					// only succeeds when the sender happens to be the governance account
					sysChanged = true
				case "prog":
					for _, m := range tr.Muts {
						if !m.Frame.committed() {
							continue
						}
						switch m.Kind {
						case feeMutSet:
							model.set(m.Contract, m.Key, m.Val)
						case feeMutDel:
							model.set(m.Contract, m.Key, nil)
						case feeMutXfer:
							model.sub(m.From, m.Amt)
							model.add(m.To, m.Amt)
						case feeMutEvent:
							expEvents = append(expEvents, feeEv{m.Contract, string(m.Val)})
						case feeMutBTP:
							expBTP++
						case feeMutFlag:
							if model.disabled[m.Contract] != m.Disabled {
								res.label("contract-flag-flipped")
							}
							model.disabled[m.Contract] = m.Disabled
						}
					}
					if tr.InnerFailedWithMut {
						ti.innerRB = true
						res.innerRollback++
						res.label("success-with-rolled-back-inner-frame")
					}
				}
			} else {
				// classify: did anything mutate before the failure?
				if tr != nil && len(tr.Muts) > 0 {
					ti.partial = true
				}
				if tr != nil && tr.Top.Status == nil {
					// the call itself succeeded; the transaction failed afterwards (fee not payable)
					res.label("rolled-back-at-fee-charge")
				}
				if s.Kind == "transfer" && s.Value != nil && s.Value.Sign() > 0 && r.Status() != module.StatusOutOfBalance && r.Status() != module.StatusOutOfStep {
					// real handlers debit the sender before they find out that the target is unusable
					ti.partial = true
				}
				if ti.partial {
					res.failAfterMutation++
					res.label("failed-after-mutation")
				} else {
					res.label("failed-before-mutation")
				}
				if tr != nil {
					res.label("prog-fail-" + feeStatusLabel(r.Status()))
				}
			}
			if tr != nil {
				names := []string{"set", "del", "xfer", "event", "btp", "flag"}
				for _, m := range tr.Muts {
					if !ti.ok || !m.Frame.committed() {
						res.label("rolledback-" + names[m.Kind])
					}
				}
			}
			btpCommitted += expBTP
			if o.CheckState {
				hev, total, err := feeHarnessEvents(r)
				if err != nil {
					ev.Inconclusive("events: %v", err)
				}
				nb := feeBTPMessages(r)
				if !ti.ok {
					if total != 0 || nb != 0 {
						return fail("tx %d %s: failed with status %s but its result carries %d event log(s) and %d BTP message(s)", i, s, r.Status(), total, nb)
					}
				} else if s.Kind == "prog" {
					if m := feeEvDiff(expEvents, hev); m != "" {
						return fail("tx %d %s: succeeded with rolled back inner frame(s) but the event logs are not those of the surviving frames: %s", i, s, m)
					}
					if nb != expBTP {
						return fail("tx %d %s: succeeded; surviving frames sent %d BTP message(s), result carries %d", i, s, expBTP, nb)
					}
				}
			}
			if s.Kind == "govprice" && ti.ok {
				price = new(big.Int).Set(s.Price)
			}
			if s.Kind == "syscall" && ti.ok {
				price = big.NewInt(5)
			}
		}
		for e := range okBy {
			if failBy[e] {
				res.sameSenderMix++
				res.label("block-same-sender-success-and-failure")
				break
			}
		}

		after, err := w.snapshot()
		if err != nil {
			ev.Inconclusive("snapshot: %v", err)
		}
		mAfter, err := w.readModel(after, feeNKeys)
		if err != nil {
			ev.Inconclusive("readModel: %v", err)
		}
		blk := feeBlockSummary(infos)
		if o.CheckLedger {
			for _, a := range w.universe {
				if mAfter.balance(a).Sign() < 0 {
					return fail("negative balance: %s holds %s after block %d %s", a, mAfter.balance(a), b, blk)
				}
			}
			tDelta := new(big.Int).Sub(mAfter.balance(w.treasury), mBefore.balance(w.treasury))
			tExp := new(big.Int).Sub(model.balance(w.treasury), mBefore.balance(w.treasury))
			if tDelta.Cmp(tExp) != 0 {
				return fail("treasury %s changed by %s in block %d; fees reported by the results sum to %s (expected change incl. transfers to it: %s) %s",
					feeShort(w.treasury), tDelta, b, totalFee, tExp, blk)
			}
			for _, a := range w.universe {
				if a == w.treasury {
					continue
				}
				if mAfter.balance(a).Cmp(model.balance(a)) != 0 {
					got := new(big.Int).Sub(mAfter.balance(a), mBefore.balance(a))
					exp := new(big.Int).Sub(model.balance(a), mBefore.balance(a))
					return fail("account %s (%s) changed by %s in block %d, the results account for %s (fee of own transactions, value of successful ones, credits of successful transfers) %s",
						a, w.role(a), got, b, exp, blk)
				}
			}
			sum := new(big.Int)
			for _, a := range w.universe {
				sum.Add(sum, mAfter.balance(a))
			}
			if sum.Cmp(total0) != 0 {
				return fail("sum of all balances changed from %s to %s after block %d %s", total0, sum, b, blk)
			}
		}
		if o.CheckState {
			// the treasury credit is C15's business: take it as found
			exp := model.clone()
			exp.bal[w.treasury] = new(big.Int).Set(mAfter.balance(w.treasury))
			if d := feeDiffModels(exp, mAfter); len(d) > 0 {
				return fail("world state after block %d differs from {state before + effects of surviving frames of successful transactions - fees}: %s ; %s", b, strings.Join(d, "; "), blk)
			}
			if !sysChanged && btpCommitted == 0 {
				mb := mBefore.clone()
				h, err := w.expectedStateHash(before, mb, exp)
				if err != nil {
					ev.Inconclusive("expectedStateHash: %v", err)
				}
				if !bytes.Equal(h, after.StateHash()) {
					return fail("state hash after block %d is %x; applying only the fees and the effects of surviving frames to the state before gives %x: something else changed (account flags, other accounts, storage outside the known keys) %s",
						b, after.StateHash(), h, blk)
				}
				res.label("state-hash-compared")
			} else {
				res.label("state-hash-skipped-system-storage-legitimately-changed")
			}
		}
		// continue from the observed state
		model = mAfter
		if o.CheckLedger || o.CheckState {
			// keep prices in sync with what the chain now uses (observed through receipts only)
		}
	}
	res.desc = feeClip(desc.String())
	return res
}

func (w *feeWorld) role(a string) string {
	for i, e := range w.eoa {
		if e == a {
			return fmt.Sprintf("EOA e%d", i)
		}
	}
	if i, ok := w.progIndex[a]; ok {
		return fmt.Sprintf("contract P%d", i)
	}
	if a == w.treasury {
		return "treasury"
	}
	return "other"
}

func feeBlockSummary(infos []*feeTxInfo) string {
	var sb strings.Builder
	sb.WriteString("[block:")
	for i, ti := range infos {
		fmt.Fprintf(&sb, " #%d %s => %s used=%s price=%s", i, ti.spec, ti.rct.Status(), ti.rct.StepUsed(), ti.rct.StepPrice())
	}
	sb.WriteString("]")
	s := sb.String()
	if len(s) > 3000 {
		s = s[:3000] + "…"
	}
	return s
}

func feeEvDiff(exp, got []feeEv) string {
	key := func(l []feeEv) []string {
		var o []string
		for _, e := range l {
			o = append(o, fmt.Sprintf("%s:%x", feeShort(e.Addr), e.Val))
		}
		sort.Strings(o)
		return o
	}
	a, b := key(exp), key(got)
	if strings.Join(a, ",") != strings.Join(b, ",") {
		return fmt.Sprintf("expected %v, found %v", a, b)
	}
	return ""
}

func feeClip(s string) string {
	if len(s) <= 1000 {
		return s
	}
	h := sha256.Sum256([]byte(s))
	return fmt.Sprintf("%s… (%d bytes, sha256 %x)", s[:900], len(s), h[:8])
}

func feeRecord(rec *ev.Rec, res *feeCaseResult, nontrivial bool) {
	var ls []string
	for l := range res.labels {
		ls = append(ls, l)
	}
	sort.Strings(ls)
	rec.Case(res.desc, nontrivial)
	for _, l := range ls {
		rec.LabelN(l, res.labels[l])
	}
}
