package hnet

import (
	"bytes"
	"fmt"
	"strings"
	"sync"
	"testing"

	"github.com/icon-project/goloop/module"
	"github.com/icon-project/goloop/network"
	"pgregory.net/rapid"

	"verifharness/internal/ev"
)

// C33: a node hands each flooded (broadcast) message to its application at most once no matter
// how many peers relay it, accepts one-hop messages only from their originating peer, and accepts
// originator broadcasts only from peers holding the validator role.
//
// The REAL PeerToPeer.onPacket runs on a hook-built, not started PeerToPeer with 2-5 peer objects
// and a recording application callback. Every arriving packet is parsed from wire bytes (as the
// receive routine does), so relays of one message are distinct Packet objects.
//
// Oracle = decision function transcribed from the statement, with the protocol's notions:
//   flooded message      : ttl == 0 and dest != "peer" (exactly what receivers relay further,
//                          protocolHandler.onPacketResult); its identity is the packet digest
//   one-hop message      : every other packet (ttl != 0: neighbour/children broadcast; dest == peer: unicast)
//   originator broadcast : dest == any, ttl == 0, arriving from the peer named as source
//   validator role       : the sending peer's role flags contain module.RoleValidator
// Violations: (1) a flooded digest delivered more than once; (2) a one-hop packet delivered
// although the sending peer is not its source; (3) an originator broadcast delivered although the
// sending peer does not hold the validator role. Drops are never violations (the statement only
// restricts deliveries). To keep the check from being vacuous, a packet that is entitled to
// delivery under every stated rule (and comes from a peer with a determined connection type, with
// a protocol both sides registered, not carrying the node's own id as source) must reach the
// callback; if it does not, the run is reported inconclusive, not as a violation.
//
// Not decided: packets whose source is the node itself and flooded otherwise (statement silent);
// behaviour beyond the dedup window (sequence length stays far below 20x500 digests).

const (
	c33Proto  = module.ProtocolInfo(0x0300) // application protocol with a registered callback
	c33Proto2 = module.ProtocolInfo(0x0400) // second registered application protocol
	c33NoCb   = module.ProtocolInfo(0x0500) // known to the peers, no callback registered
	c33Unk    = module.ProtocolInfo(0x0600) // not negotiated with the peers
)

type c33peer struct {
	id       []byte
	role     byte
	connType byte
	p        *network.Peer
}

func (p *c33peer) validator() bool { return p.role&byte(module.RoleValidator) != 0 }

type c33tmpl struct {
	f    network.VerifPacketFields
	wire []byte
	desc string
	srcK string
}

type c33delivery struct {
	hash   uint64
	sender []byte
	f      network.VerifPacketFields
}

func c33ID(rt *rapid.T, label string, taken [][]byte) []byte {
	for {
		id := rapid.SliceOfN(rapid.Byte(), network.VerifPeerIDSize, network.VerifPeerIDSize).Draw(rt, label)
		dup := false
		for _, t := range taken {
			if bytes.Equal(t, id) {
				dup = true
			}
		}
		if !dup {
			return id
		}
		// make it distinct deterministically
		id[0] ^= byte(len(taken) + 1)
		ok := true
		for _, t := range taken {
			if bytes.Equal(t, id) {
				ok = false
			}
		}
		if ok {
			return id
		}
	}
}

func c33Case(rt *rapid.T, rec *ev.Rec) {
	log := hnQuietLogger()
	var taken [][]byte
	self := c33ID(rt, "self", taken)
	taken = append(taken, self)
	p2p := network.VerifNewP2P(self, log)
	var deliveries []c33delivery
	cb := func(pkt *network.Packet, p *network.Peer) {
		f := network.VerifPacketFieldsOf(pkt)
		deliveries = append(deliveries, c33delivery{hash: f.Hash, sender: p.ID().Bytes(), f: f})
	}
	p2p.VerifSetCallback(c33Proto, cb)
	p2p.VerifSetCallback(c33Proto2, cb)

	nPeers := rapid.IntRange(2, 5).Draw(rt, "nPeers")
	peers := make([]*c33peer, nPeers)
	var pd []string
	for i := range peers {
		id := c33ID(rt, "peerID", taken)
		taken = append(taken, id)
		role := byte(rapid.IntRange(0, 3).Draw(rt, "role")) // bit flags: 1 seed, 2 validator
		// connection types 1..Reserved-1 are determined ones; 0 (undetermined) is kept rare
		ct := byte(1 + rapid.IntRange(0, int(network.VerifConnTypeReserved)-2).Draw(rt, "connType"))
		if rapid.IntRange(0, 9).Draw(rt, "undetermined") == 5 {
			ct = network.VerifConnTypeNone
		}
		conn, _ := hnPipe()
		peers[i] = &c33peer{id: id, role: role, connType: ct,
			p: network.VerifNewPeer(conn, id, role, ct, []module.ProtocolInfo{c33Proto, c33Proto2, c33NoCb}, log)}
		pd = append(pd, fmt.Sprintf("p%d{id=%x role=%d type=%d}", i, id[:4], role, ct))
	}
	stranger := c33ID(rt, "stranger", taken)

	nT := rapid.IntRange(1, 6).Draw(rt, "nTemplates")
	tmpls := make([]*c33tmpl, nT)
	var td []string
	for i := range tmpls {
		var f network.VerifPacketFields
		srcSel := rapid.IntRange(0, nPeers+3).Draw(rt, "src")
		var srcK string
		switch {
		case srcSel < nPeers:
			f.Src, srcK = peers[srcSel].id, fmt.Sprintf("p%d", srcSel)
		case srcSel == nPeers:
			f.Src, srcK = self, "self"
		case srcSel == nPeers+1:
			f.Src, srcK = stranger, "stranger"
		default:
			k := rapid.IntRange(0, nPeers-1).Draw(rt, "src2")
			f.Src, srcK = peers[k].id, fmt.Sprintf("p%d", k)
		}
		f.Dest = rapid.SampledFrom([]byte{0x00, 0x00, 0x00, 0x01, 0x02, 0xFF, 0x03}).Draw(rt, "dest")
		f.TTL = rapid.SampledFrom([]byte{0, 0, 0, 1, 2, 3}).Draw(rt, "ttl")
		f.Protocol = uint16(rapid.SampledFrom([]module.ProtocolInfo{c33Proto, c33Proto, c33Proto, c33Proto, c33Proto2, c33NoCb, c33Unk}).Draw(rt, "proto"))
		f.SubProtocol = uint16(rapid.IntRange(0, 2).Draw(rt, "sub"))
		f.Payload = []byte{byte(rapid.IntRange(0, 2).Draw(rt, "content"))} // same/different content
		wire, w := c30Write([]*c30pkt{{f: f}})
		if w != "" {
			ev.Inconclusive("C33: cannot serialise a packet: %s", w)
		}
		tmpls[i] = &c33tmpl{f: f, wire: wire, srcK: srcK,
			desc: fmt.Sprintf("t%d{src=%s dest=%#02x ttl=%d pi=%#04x spi=%d c=%d}", i, srcK, f.Dest, f.TTL, f.Protocol, f.SubProtocol, f.Payload[0])}
		td = append(td, tmpls[i].desc)
	}

	nE := rapid.IntRange(1, 30).Draw(rt, "nEvents")
	var evd []string
	seenDelivered := map[uint64]int{} // flooded digest -> deliveries so far
	relayers := map[uint64]map[int]bool{}
	fail, vacuous := "", ""
	dupRelay, unauthorized, delivered, dropped := false, false, 0, 0
	for e := 0; e < nE && fail == "" && vacuous == ""; e++ {
		ti := rapid.IntRange(0, nT-1).Draw(rt, "tmpl")
		pi := rapid.IntRange(0, nPeers-1).Draw(rt, "via")
		t, sp := tmpls[ti], peers[pi]
		evd = append(evd, fmt.Sprintf("t%d<-p%d", ti, pi))
		pkt := &network.Packet{}
		if _, err := pkt.ReadFrom(bytes.NewReader(t.wire)); err != nil {
			ev.Inconclusive("C33: cannot parse a packet the harness wrote: %v", err)
		}
		hash := network.VerifPacketFieldsOf(pkt).Hash
		before := len(deliveries)
		p2p.VerifOnPacket(pkt, sp.p)
		got := len(deliveries) - before
		if got > 1 {
			fail = fmt.Sprintf("event %d (%s via p%d): callback invoked %d times for one arrival", e, t.desc, pi, got)
			break
		}
		isDelivered := got == 1

		// ---- classification from the statement
		flooded := t.f.TTL == 0 && t.f.Dest != network.VerifDestPeer
		oneHop := !flooded
		fromSource := bytes.Equal(sp.id, t.f.Src)
		originBroadcast := t.f.Dest == network.VerifDestAny && t.f.TTL == 0 && fromSource
		if flooded {
			if relayers[hash] == nil {
				relayers[hash] = map[int]bool{}
			}
			relayers[hash][pi] = true
			if len(relayers[hash]) >= 2 {
				dupRelay = true
			}
		}
		if (oneHop && !fromSource) || (originBroadcast && !sp.validator()) {
			unauthorized = true
		}
		if isDelivered {
			delivered++
			d := deliveries[len(deliveries)-1]
			if d.hash != hash || !bytes.Equal(d.sender, sp.id) {
				fail = fmt.Sprintf("event %d (%s via p%d): callback got digest %#x from %x, arrived %#x from %x", e, t.desc, pi, d.hash, d.sender, hash, sp.id)
				break
			}
			if oneHop && !fromSource {
				fail = fmt.Sprintf("event %d: one-hop packet %s delivered although it arrived from p%d, which is not its source", e, t.desc, pi)
				break
			}
			if originBroadcast && !sp.validator() {
				fail = fmt.Sprintf("event %d: originator broadcast %s delivered although its sender p%d (role flags %d) does not hold the validator role", e, t.desc, pi, sp.role)
				break
			}
			if flooded {
				seenDelivered[hash]++
				if seenDelivered[hash] > 1 {
					fail = fmt.Sprintf("event %d: flooded packet %s (digest %#x) handed to the application %d times (this time relayed by p%d)", e, t.desc, hash, seenDelivered[hash], pi)
					break
				}
			}
		} else {
			dropped++
			entitled := (t.f.Protocol == uint16(c33Proto) || t.f.Protocol == uint16(c33Proto2)) &&
				sp.connType != network.VerifConnTypeNone &&
				!bytes.Equal(t.f.Src, self) &&
				(!oneHop || fromSource) &&
				(!originBroadcast || sp.validator()) &&
				(!flooded || seenDelivered[hash] == 0)
			if entitled {
				vacuous = fmt.Sprintf("event %d: %s via p%d satisfies every stated rule but was not delivered", e, t.desc, pi)
			}
		}
	}
	desc := fmt.Sprintf("self=%x peers=[%s] stranger=%x tmpls=[%s] events=[%s]", self[:4], strings.Join(pd, " "), stranger[:4], strings.Join(td, " "), strings.Join(evd, ","))
	labels := []string{}
	if dupRelay {
		labels = append(labels, "floodedViaSeveralPeers")
	}
	if unauthorized {
		labels = append(labels, "unauthorizedOrigin")
	}
	if delivered > 0 {
		labels = append(labels, "someDelivered")
	}
	if dropped > 0 {
		labels = append(labels, "someDropped")
	}
	rec.LabelN("deliveries", delivered)
	rec.LabelN("drops", dropped)
	rec.Case(desc, (dupRelay || unauthorized) && delivered > 0, labels...)
	if fail != "" {
		rt.Fatalf("C33 violated: %s | case: %s", fail, desc)
	}
	if vacuous != "" {
		ev.Inconclusive("C33: %s; deliveries cannot be observed reliably | case: %s", vacuous, desc)
	}
}

func TestC33(t *testing.T) {
	rec := ev.New("C33", "rapid: node id, 2-5 peers (id, role flags 0-3, connection type 0-6), 1-6 packet templates (src in {a peer, self, stranger}, dest in {any, seed, validator, peer, other}, ttl 0-3, registered/unregistered protocol, 3 contents) and 1-30 arrivals (template, relaying peer) with repeats, each parsed from wire bytes and given to the real onPacket. Non-trivial = a flooded digest arrives through >= 2 different peers or an unauthorized origin occurs, and at least one packet was delivered; distinct by full rendering")
	defer rec.Flush(t)
	t.Run("relay", func(t *testing.T) {
		ev.Check(t, 12000, 200000, func(rt *rapid.T) { c33Case(rt, rec) })
	})
	t.Run("concurrent", func(t *testing.T) {
		ev.Check(t, 24, 400, func(rt *rapid.T) { c33Concurrent(rt, rec) })
	})
	t.Run("window", func(t *testing.T) {
		ev.Check(t, 40, 600, func(rt *rapid.T) { c33Window(rt, rec) })
	})
}

// c33Window: "at most once no matter how many peers relay it" with other flooded traffic in between.
// The node remembers flooded digests in a ring of DefaultPacketPoolNumBucket buckets of
// DefaultPacketPoolBucketLen digests; the oldest bucket is recycled when the ring comes round. A digest
// is therefore remembered for at least (NumBucket-1)*BucketLen-1 later distinct digests (worst case: it
// was the entry that filled its bucket). Inside that distance a re-relay must never reach the
// application again; beyond it the unchanged code forgets (labelled, not decided). The case draws the
// number of digests before the watched packets (to place them anywhere in a bucket, incl. its last
// slot and after the ring wrapped once or twice) and the number of digests between delivery and re-relay
// with bias to the bucket and ring boundaries.
func c33Window(rt *rapid.T, rec *ev.Rec) {
	log := hnQuietLogger()
	self := bytes.Repeat([]byte{0x51}, network.VerifPeerIDSize)
	stranger := bytes.Repeat([]byte{0x52}, network.VerifPeerIDSize)
	p2p := network.VerifNewP2P(self, log)
	var got []uint64
	cb := func(pkt *network.Packet, p *network.Peer) { got = append(got, network.VerifPacketFieldsOf(pkt).Hash) }
	p2p.VerifSetCallback(c33Proto, cb)
	var peers []*network.Peer
	for i := 0; i < 3; i++ {
		conn, _ := hnPipe()
		id := bytes.Repeat([]byte{byte(0x61 + i)}, network.VerifPeerIDSize)
		peers = append(peers, network.VerifNewPeer(conn, id, byte(module.RoleValidator), 1+byte(i), []module.ProtocolInfo{c33Proto}, log))
	}
	nb, bl := int(network.DefaultPacketPoolNumBucket), int(network.DefaultPacketPoolBucketLen)
	ring := nb * bl
	safe := (nb-1)*bl - 1 // re-relay after <= safe later digests must be suppressed
	near := func(label string, centres []int, max int) int {
		if rapid.IntRange(0, 4).Draw(rt, label+".uniform") == 0 {
			return rapid.IntRange(0, max).Draw(rt, label)
		}
		c := rapid.SampledFrom(centres).Draw(rt, label+".centre")
		v := c + rapid.IntRange(-2, 2).Draw(rt, label+".delta")
		if v < 0 {
			v = 0
		}
		if v > max {
			v = max
		}
		return v
	}
	before := near("before", []int{0, bl - 1, bl, 2*bl - 1, ring - bl - 1, ring - bl, ring - 1, ring, ring + bl - 1, 2*ring - 1, 2 * ring}, 2*ring+bl)
	nWatch := rapid.IntRange(1, 4).Draw(rt, "watched")
	gap := near("gap", []int{0, 1, bl - 1, bl, bl + 1, safe / 2, safe - bl, safe - 1, safe}, safe+bl+3)
	seq := uint32(0)
	seen := map[uint64]bool{}
	collisions := 0
	send := func(payload []byte, via int) (uint64, int) {
		f := network.VerifPacketFields{Src: stranger, Dest: network.VerifDestAny, TTL: 0, Protocol: uint16(c33Proto), Payload: payload}
		wire, w := c30Write([]*c30pkt{{f: f}})
		if w != "" {
			ev.Inconclusive("C33: cannot serialise a packet: %s", w)
		}
		pkt := &network.Packet{}
		if _, err := pkt.ReadFrom(bytes.NewReader(wire)); err != nil {
			ev.Inconclusive("C33: cannot parse a packet the harness wrote: %v", err)
		}
		n0 := len(got)
		p2p.VerifOnPacket(pkt, peers[via])
		return network.VerifPacketFieldsOf(pkt).Hash, len(got) - n0
	}
	filler := func(n int) {
		for i := 0; i < n; i++ {
			seq++
			h, d := send([]byte{'f', byte(seq >> 24), byte(seq >> 16), byte(seq >> 8), byte(seq)}, int(seq)%len(peers))
			if seen[h] {
				collisions++ // 64-bit digest collision between harness packets: distances are off by one
				continue
			}
			seen[h] = true
			if d != 1 {
				ev.Inconclusive("C33: a fresh flooded packet was not delivered (%d deliveries); deliveries cannot be observed reliably", d)
			}
		}
	}
	desc := fmt.Sprintf("window: %d digests first, then %d watched packets, %d other digests, each watched packet relayed again by another peer (ring %dx%d, must-suppress distance <= %d)", before, nWatch, gap, nb, bl, safe)
	filler(before)
	var watched []uint64
	for i := 0; i < nWatch; i++ {
		h, d := send([]byte{'w', byte(i)}, 0)
		if d != 1 || seen[h] {
			ev.Inconclusive("C33: a watched packet was not delivered on first arrival")
		}
		seen[h] = true
		watched = append(watched, h)
	}
	filler(gap)
	decided, fail := 0, ""
	for i := 0; i < nWatch; i++ {
		// digests stored after watched packet i: the later watched ones, the gap, and re-relays that were stored again
		dist := (nWatch - 1 - i) + gap + collisions
		_, d := send([]byte{'w', byte(i)}, 1+i%2)
		if dist <= safe-nWatch { // margin: a forgotten-and-stored-again earlier re-relay shifts later distances
			decided++
			if d != 0 && fail == "" {
				fail = fmt.Sprintf("flooded packet w%d was handed to the application again when another peer relayed it after only %d other flooded packets", i, dist)
			}
		}
	}
	labels := []string{"window"}
	if decided > 0 {
		labels = append(labels, "window:decided")
	} else {
		labels = append(labels, "window:beyondRing-notDecided")
	}
	if before+nWatch+gap >= ring {
		labels = append(labels, "window:ringWrapped")
	}
	if gap >= bl {
		labels = append(labels, "window:crossedBucket")
	}
	rec.Case(desc, decided > 0 && gap >= bl, labels...)
	if fail != "" {
		rt.Fatalf("C33 violated: %s | case: %s", fail, desc)
	}
}

// c33Concurrent: every peer connection has its own receive goroutine, so copies of one flooded packet relayed by
// several neighbours reach onPacket at practically the same moment. "Delivered once" has to hold for every
// interleaving of those calls: k goroutines are released together, each hands the node its own parsed copy of the
// packet through another peer, and the application callback must have run at most once per packet. The harness
// does not own the Go scheduler here; the oracle is an invariant of every schedule (no alarm is possible on code
// that keeps it), detection of a broken node is statistical (hundreds of rounds per case).
func c33Concurrent(rt *rapid.T, rec *ev.Rec) {
	log := hnQuietLogger()
	self := bytes.Repeat([]byte{0x51}, network.VerifPeerIDSize)
	stranger := bytes.Repeat([]byte{0x52}, network.VerifPeerIDSize)
	p2p := network.VerifNewP2P(self, log)
	var mu sync.Mutex
	got := map[uint64]int{}
	p2p.VerifSetCallback(c33Proto, func(pkt *network.Packet, p *network.Peer) {
		h := network.VerifPacketFieldsOf(pkt).Hash
		mu.Lock()
		got[h]++
		mu.Unlock()
	})
	k := rapid.IntRange(2, 8).Draw(rt, "relays")
	var peers []*network.Peer
	for i := 0; i < k; i++ {
		conn, _ := hnPipe()
		id := bytes.Repeat([]byte{byte(0x61 + i)}, network.VerifPeerIDSize)
		peers = append(peers, network.VerifNewPeer(conn, id, byte(module.RoleValidator), 1+byte(i%3), []module.ProtocolInfo{c33Proto}, log))
	}
	rounds := rapid.IntRange(200, ev.Pick(500, 1500)).Draw(rt, "rounds")
	tag := rapid.IntRange(0, 1<<20).Draw(rt, "tag")
	desc := fmt.Sprintf("concurrent: %d rounds, one flooded packet per round handed to the node by %d peers at once", rounds, k)
	twice, never := 0, 0
	var example string
	for r := 0; r < rounds; r++ {
		f := network.VerifPacketFields{Src: stranger, Dest: network.VerifDestAny, TTL: 0, Protocol: uint16(c33Proto),
			Payload: []byte{'c', byte(tag >> 16), byte(tag >> 8), byte(tag), byte(r >> 8), byte(r)}}
		wire, w := c30Write([]*c30pkt{{f: f}})
		if w != "" {
			ev.Inconclusive("C33: cannot serialise a packet: %s", w)
		}
		pkts := make([]*network.Packet, k)
		for i := range pkts {
			pkts[i] = &network.Packet{}
			if _, err := pkts[i].ReadFrom(bytes.NewReader(wire)); err != nil {
				ev.Inconclusive("C33: cannot parse a packet the harness wrote: %v", err)
			}
		}
		var ready, done sync.WaitGroup
		start := make(chan struct{})
		ready.Add(k)
		done.Add(k)
		for i := 0; i < k; i++ {
			go func(i int) {
				defer done.Done()
				ready.Done()
				<-start
				p2p.VerifOnPacket(pkts[i], peers[i])
			}(i)
		}
		ready.Wait()
		close(start)
		done.Wait()
		h := network.VerifPacketFieldsOf(pkts[0]).Hash
		mu.Lock()
		n := got[h]
		mu.Unlock()
		switch {
		case n > 1:
			twice++
			if example == "" {
				example = fmt.Sprintf("round %d: packet %x was handed to the application %d times", r, h, n)
			}
		case n == 0:
			never++
		}
	}
	labels := []string{"concurrent", fmt.Sprintf("concurrent:relays=%d", k)}
	if never > 0 {
		labels = append(labels, "concurrent:someNeverDelivered")
	}
	rec.Case(desc, true, labels...)
	if twice > 0 {
		rt.Fatalf("C33 violated: %d of %d flooded packets were delivered more than once when %d peers relayed them at the same moment (%s) | case: %s", twice, rounds, k, example, desc)
	}
}
