package hnet

import (
	"encoding/hex"
	"fmt"
	"io"
	"net"
	"time"

	"github.com/icon-project/goloop/common/log"
	"pgregory.net/rapid"
)

// Shared helpers of the network cluster (prefix hn).

// hnConn is one end of an in-memory, single-goroutine duplex. Write appends to the peer's
// inbox, Read takes from the own inbox and returns io.EOF when it is empty (nothing blocks).
type hnConn struct {
	in   []byte
	peer *hnConn
	// seg > 0: a Read hands out at most seg bytes (a transport that delivers a write in several segments)
	seg int
}

func hnPipe() (*hnConn, *hnConn) {
	a, b := &hnConn{}, &hnConn{}
	a.peer, b.peer = b, a
	return a, b
}

func (c *hnConn) Read(p []byte) (int, error) {
	if len(c.in) == 0 {
		return 0, io.EOF
	}
	if c.seg > 0 && len(p) > c.seg {
		p = p[:c.seg]
	}
	n := copy(p, c.in)
	c.in = c.in[n:]
	return n, nil
}

func (c *hnConn) Write(p []byte) (int, error) {
	if c.peer != nil {
		c.peer.in = append(c.peer.in, p...)
	}
	return len(p), nil
}

type hnAddr struct{}

func (hnAddr) Network() string { return "mem" }
func (hnAddr) String() string  { return "mem" }

func (c *hnConn) Close() error                       { return nil }
func (c *hnConn) LocalAddr() net.Addr                { return hnAddr{} }
func (c *hnConn) RemoteAddr() net.Addr               { return hnAddr{} }
func (c *hnConn) SetDeadline(t time.Time) error      { return nil }
func (c *hnConn) SetReadDeadline(t time.Time) error  { return nil }
func (c *hnConn) SetWriteDeadline(t time.Time) error { return nil }

// hnFill fills b with the bytes [off, off+len(b)) of a deterministic pseudo-random stream
// identified by seed (splitmix64 per 8-byte block), so that any shift, loss or reordering of
// stream content is visible.
func hnFill(b []byte, seed uint64, off int) {
	for i := range b {
		p := off + i
		x := seed + uint64(p/8)*0x9E3779B97F4A7C15
		x ^= x >> 30
		x *= 0xBF58476D1CE4E5B9
		x ^= x >> 27
		x *= 0x94D049BB133111EB
		x ^= x >> 31
		b[i] = byte(x >> (8 * uint(p%8)))
	}
}

func hnStream(seed uint64, off, n int) []byte {
	b := make([]byte, n)
	hnFill(b, seed, off)
	return b
}

// hnSum renders a byte string as length + short digest (FNV-1a) for descriptions.
func hnSum(b []byte) string {
	h := uint64(0xcbf29ce484222325)
	for _, x := range b {
		h ^= uint64(x)
		h *= 0x100000001b3
	}
	if len(b) <= 8 {
		return fmt.Sprintf("%d:%s", len(b), hex.EncodeToString(b))
	}
	return fmt.Sprintf("%d:#%08x", len(b), uint32(h))
}

// hnLen draws a length in [lo,hi] biased to the given boundary values.
func hnLen(rt *rapid.T, label string, lo, hi int, boundaries []int) int {
	if rapid.IntRange(0, 2).Draw(rt, label+".b") == 0 {
		var c []int
		for _, l := range boundaries {
			if l >= lo && l <= hi {
				c = append(c, l)
			}
		}
		if len(c) > 0 {
			return rapid.SampledFrom(c).Draw(rt, label)
		}
	}
	return rapid.IntRange(lo, hi).Draw(rt, label)
}

// hnChunkReader returns the data in chunks of the given sizes (cycled); a well-behaved
// io.Reader: never (0,nil), data and io.EOF are never returned together.
type hnChunkReader struct {
	data  []byte
	sizes []int
	i     int
}

func (r *hnChunkReader) Read(p []byte) (int, error) {
	if len(r.data) == 0 {
		return 0, io.EOF
	}
	if len(p) == 0 {
		return 0, nil
	}
	n := r.sizes[r.i%len(r.sizes)]
	r.i++
	if n > len(p) {
		n = len(p)
	}
	if n > len(r.data) {
		n = len(r.data)
	}
	copy(p, r.data[:n])
	r.data = r.data[n:]
	return n, nil
}

func hnQuietLogger() log.Logger {
	l := log.New()
	l.SetLevel(log.PanicLevel)
	l.SetConsoleLevel(log.PanicLevel)
	return l
}
