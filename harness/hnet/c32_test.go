package hnet

import (
	"bytes"
	"crypto/ecdsa"
	"fmt"
	"math/big"
	"sync/atomic"
	"testing"

	"github.com/decred/dcrd/dcrec/secp256k1/v4"
	"github.com/icon-project/goloop/common/codec"
	"github.com/icon-project/goloop/common/crypto"
	"github.com/icon-project/goloop/common/wallet"
	"github.com/icon-project/goloop/module"
	"github.com/icon-project/goloop/network"
	"golang.org/x/crypto/sha3"
	"pgregory.net/rapid"

	"verifharness/internal/ev"
	"verifharness/internal/gen"
)

// C32: a connecting peer is assigned an identity only if it proved possession of that identity's
// private key by signing the secret of this very session; signatures over another session's
// secret, by another key, or malformed keys/signatures are rejected.
//
// Oracle (only-if direction, as stated): whenever Authenticator.VerifySignature(pub, sig, secret)
// returns err == nil, an independent check must agree that (a) pub encodes a point of secp256k1
// (own parser, math/big), (b) sig is 64 or 65 bytes and (r,s) = sig[:64] is an ECDSA signature
// of SHA3-256(secret) under that point (crypto/ecdsa of the Go standard library over dcrd's curve
// arithmetic), and (c) the returned id is the last 20 bytes of SHA3-256(X||Y) of that point.
// Cases built as "other session", "other key", "wrong claim", mutated or malformed must therefore
// be rejected. The opposite direction (a genuine handshake signature is accepted) is not part of
// the statement; it is required only as a sanity condition of the harness (otherwise the check
// would be vacuous) and reported as inconclusive, not as a violation.
//
// Not decided: ECDSA malleability ((r, N-s) is a signature by the same key over the same secret
// and may be accepted), the value of the recovery byte (not used for verification).

var (
	c32P, _ = new(big.Int).SetString("fffffffffffffffffffffffffffffffffffffffffffffffffffffffefffffc2f", 16)
	c32N, _ = new(big.Int).SetString("fffffffffffffffffffffffffffffffebaaedce6af48a03bbfd25e8cd0364141", 16)
)

// c32ParsePub is the harness' own SEC1 point parser for secp256k1 (y^2 = x^3 + 7).
func c32ParsePub(b []byte) (x, y *big.Int, ok bool) {
	rhs := func(x *big.Int) *big.Int {
		r := new(big.Int).Mul(x, x)
		r.Mul(r, x)
		r.Add(r, big.NewInt(7))
		return r.Mod(r, c32P)
	}
	switch {
	case len(b) == 33 && (b[0] == 2 || b[0] == 3):
		x = new(big.Int).SetBytes(b[1:])
		if x.Cmp(c32P) >= 0 {
			return nil, nil, false
		}
		e := new(big.Int).Add(c32P, big.NewInt(1))
		e.Rsh(e, 2)
		r := rhs(x)
		y = new(big.Int).Exp(r, e, c32P)
		if new(big.Int).Mod(new(big.Int).Mul(y, y), c32P).Cmp(r) != 0 {
			return nil, nil, false
		}
		if y.Bit(0) != uint(b[0]&1) {
			y.Sub(c32P, y)
		}
		return x, y, true
	case len(b) == 65 && (b[0] == 4 || b[0] == 6 || b[0] == 7):
		x = new(big.Int).SetBytes(b[1:33])
		y = new(big.Int).SetBytes(b[33:])
		if x.Cmp(c32P) >= 0 || y.Cmp(c32P) >= 0 {
			return nil, nil, false
		}
		if new(big.Int).Mod(new(big.Int).Mul(y, y), c32P).Cmp(rhs(x)) != 0 {
			return nil, nil, false
		}
		if b[0] != 4 && y.Bit(0) != uint(b[0]&1) {
			return nil, nil, false
		}
		return x, y, true
	}
	return nil, nil, false
}

// c32Proves reports whether sig proves possession of the key encoded by pub over secret, and the
// identity that key stands for.
func c32Proves(pub, sig, secret []byte) (bool, []byte) {
	x, y, ok := c32ParsePub(pub)
	if !ok {
		return false, nil
	}
	if len(sig) != 64 && len(sig) != 65 {
		return false, nil
	}
	r := new(big.Int).SetBytes(sig[:32])
	s := new(big.Int).SetBytes(sig[32:64])
	if r.Sign() == 0 || s.Sign() == 0 || r.Cmp(c32N) >= 0 || s.Cmp(c32N) >= 0 {
		return false, nil
	}
	h := sha3.Sum256(secret)
	pk := &ecdsa.PublicKey{Curve: secp256k1.S256(), X: x, Y: y}
	if !ecdsa.Verify(pk, h[:], r, s) {
		return false, nil
	}
	xy := append(x.FillBytes(make([]byte, 32)), y.FillBytes(make([]byte, 32))...)
	d := sha3.Sum256(xy)
	return true, d[12:]
}

// c32Secrets draws the secrets of two different sessions: either the real extra secrets of two
// ECDH sessions (hook) or arbitrary byte strings.
func c32Secrets(rt *rapid.T) (s1, s2 []byte, kind string) {
	if rapid.Bool().Draw(rt, "realSession") {
		mk := func(l string) []byte {
			ka, err1 := network.VerifNewSecureKey(c31Scalar(rt, l+".da"))
			kb, err2 := network.VerifNewSecureKey(c31Scalar(rt, l+".db"))
			if err1 != nil || err2 != nil {
				ev.Inconclusive("C32: cannot build session keys")
			}
			sa := rapid.SampledFrom(c31Suites).Draw(rt, l+".suite")
			if err := ka.Setup(sa, kb.PublicKey(), true, 2); err != nil {
				ev.Inconclusive("C32: session key setup failed: %v", err)
			}
			return ka.Extra()
		}
		return mk("s1"), mk("s2"), "ecdhSession"
	}
	s1 = rapid.SliceOfN(rapid.Byte(), 0, 64).Draw(rt, "secret1")
	s2 = rapid.SliceOfN(rapid.Byte(), 0, 64).Draw(rt, "secret2")
	return s1, s2, "randomSecret"
}

var c32Classes = []string{"honest", "honest", "honestNoV", "otherSession", "otherSession", "otherKey", "otherKey",
	"wrongClaim", "mutatedSig", "mutatedSig", "mutatedPub", "mutatedPub", "malformedSig", "malformedPub", "malleated", "zeroSig", "swappedRS"}

func c32Case(rt *rapid.T, rec *ev.Rec) {
	kA := gen.PrivKey(rt, "keyA")
	kB := gen.PrivKey(rt, "keyB")
	kV := gen.KeyFromIndex(1)
	wA, _ := wallet.NewFromPrivateKey(kA)
	wB, _ := wallet.NewFromPrivateKey(kB)
	wV, _ := wallet.NewFromPrivateKey(kV)
	log := hnQuietLogger()
	aA := network.VerifNewAuthenticator(wA, log)
	aB := network.VerifNewAuthenticator(wB, log)
	aV := network.VerifNewAuthenticator(wV, log)
	s1, s2, skind := c32Secrets(rt)
	class := rapid.SampledFrom(c32Classes).Draw(rt, "class")
	pubOf := func(k *crypto.PrivateKey, l string) []byte {
		if rapid.Bool().Draw(rt, l+".uncompressed") {
			return k.PublicKey().SerializeUncompressed()
		}
		return k.PublicKey().SerializeCompressed()
	}
	pub := pubOf(kA, "pubA")
	sig := aA.Signature(s1) // what the honest peer A sends in this session
	if len(sig) != 65 {
		ev.Inconclusive("C32: Authenticator.Signature returned %d bytes", len(sig))
	}
	sameKeys := bytes.Equal(kA.Bytes(), kB.Bytes())
	mustReject := true
	switch class {
	case "honest":
		mustReject = false
	case "honestNoV":
		sig = sig[:64]
		mustReject = false
	case "otherSession":
		sig = aA.Signature(s2)
		mustReject = !bytes.Equal(s1, s2)
	case "otherKey": // B claims to be A with its own signature
		sig = aB.Signature(s1)
		mustReject = !sameKeys
	case "wrongClaim": // A's signature presented with B's public key
		pub = pubOf(kB, "pubB")
		mustReject = !sameKeys
	case "mutatedSig":
		sig = append([]byte{}, sig...)
		sig[rapid.IntRange(0, 63).Draw(rt, "pos")] ^= byte(1 << uint(rapid.IntRange(0, 7).Draw(rt, "bit")))
	case "mutatedPub":
		pub = append([]byte{}, pub...)
		pub[rapid.IntRange(0, len(pub)-1).Draw(rt, "pos")] ^= byte(1 << uint(rapid.IntRange(0, 7).Draw(rt, "bit")))
	case "malformedSig":
		n := rapid.SampledFrom([]int{0, 1, 32, 63, 66, 96, 130}).Draw(rt, "siglen")
		b := append(append([]byte{}, sig...), sig...)
		sig = b[:n]
	case "malformedPub":
		switch rapid.IntRange(0, 2).Draw(rt, "how") {
		case 0:
			n := rapid.SampledFrom([]int{0, 1, 20, 32, 34, 64, 66}).Draw(rt, "publen")
			b := append(append([]byte{}, pub...), pub...)
			pub = b[:n]
		case 1:
			pub = append([]byte{}, pub...)
			pub[0] = rapid.SampledFrom([]byte{0, 1, 5, 8, 0x40, 0xff}).Draw(rt, "prefix")
		default:
			// length and prefix of the other encoding
			pub = append([]byte{}, pub...)
			if pub[0] == 4 {
				pub[0] = 2
			} else {
				pub[0] = 4
			}
		}
	case "malleated": // (r, N-s): still a signature by A over s1
		sig = append([]byte{}, sig...)
		s := new(big.Int).Sub(c32N, new(big.Int).SetBytes(sig[32:64]))
		s.FillBytes(sig[32:64])
		sig[64] ^= 1
		mustReject = false
	case "zeroSig":
		sig = append([]byte{}, sig...)
		z := rapid.IntRange(0, 2).Draw(rt, "which")
		for i := 0; i < 64; i++ {
			if (z == 0 && i < 32) || (z == 1 && i >= 32) || z == 2 {
				sig[i] = 0
			}
		}
	case "swappedRS":
		sig = append(append(append([]byte{}, sig[32:64]...), sig[:32]...), sig[64])
	}
	desc := fmt.Sprintf("%s %s pub=%x sig=%x secret=%x otherSecret=%x", class, skind, pub, sig, s1, s2)
	proves, wantID := c32Proves(pub, sig, s1)
	// the verdict comes from the independent verifier alone; the class only says what was intended
	id, err := aV.VerifySignature(pub, sig, s1)
	fail := ""
	accepted := err == nil
	if accepted {
		switch {
		case !proves:
			fail = fmt.Sprintf("VerifySignature accepted (id %v) although the signature does not prove possession of the claimed key over this session's secret", id)
		case id == nil || !bytes.Equal(id.Bytes(), wantID):
			fail = fmt.Sprintf("VerifySignature accepted but assigned id %v, the key's identity is %x", id, wantID)
		}
	}
	labels := []string{class, skind}
	if accepted {
		labels = append(labels, "accepted")
	} else {
		labels = append(labels, "rejected")
	}
	if proves && !accepted {
		labels = append(labels, "stricterThanOracle")
	}
	if mustReject && proves {
		labels = append(labels, "mutationKeptProofValid") // e.g. 04 -> 06/07 prefix with matching parity
	}
	rec.Case(desc, !proves, labels...)
	if fail != "" {
		rt.Fatalf("C32 violated: %s | case: %s", fail, desc)
	}
	if class == "honest" && !accepted {
		ev.Inconclusive("C32: a genuine handshake signature is rejected (%v), the check cannot observe acceptance | case: %s", err, desc)
	}
}

func TestC32(t *testing.T) {
	rec := ev.New("C32", "rapid: signer key A, second key B, two session secrets (extra secrets of two real ECDH sessions or random 0..64 B); classes: genuine (65/64-byte signature, compressed/uncompressed key), signature over the other session's secret, signature by the other key, other key claimed, single-bit mutation of signature / public key, malformed lengths and prefixes, (r,N-s), zero r/s, swapped r/s. Non-trivial = a case that must be rejected; distinct by (class, key bytes, signature, secrets)")
	defer rec.Flush(t)
	t.Run("handshake", func(t *testing.T) {
		ev.Check(t, 10000, 150000, func(rt *rapid.T) { c32Case(rt, rec) })
	})
	t.Run("protocol", func(t *testing.T) {
		ev.Check(t, 1500, 30000, func(rt *rapid.T) { c32Protocol(rt, rec) })
		if atomic.LoadInt64(&c32HonestPassed) == 0 {
			ev.Inconclusive("C32: no honest handshake was authenticated (%d refused): the check cannot observe authentication", atomic.LoadInt64(&c32HonestRefused))
		}
		rec.LabelN("protocol:honestRefused", int(atomic.LoadInt64(&c32HonestRefused)))
	})
	t.Run("sessions", func(t *testing.T) {
		ev.Check(t, 60, 1200, func(rt *rapid.T) { c32Sessions(rt, rec) })
	})
}

// c32Sessions: the identity assigned to a peer is (and stays) the identity of the key that peer
// proved, over a node's life time with many peers. One verifying node authenticates a drawn
// sequence of up to 400 sessions of peers taken from a pool of up to 260 keys (returning peers
// included), interleaved with identities that reach the node by other ways (source ids of
// packets, addresses). After every session: a genuine proof that is accepted must be assigned
// the address of exactly the proving key, an impostor (another key's signature under the claimed
// key) must be rejected, and every identity handed out earlier must still be the address of the
// key that proved it (the node keeps these objects as the identities of its connections).
func c32Sessions(rt *rapid.T, rec *ev.Rec) {
	log := hnQuietLogger()
	wV, _ := wallet.NewFromPrivateKey(gen.KeyFromIndex(1))
	aV := network.VerifNewAuthenticator(wV, log)
	nKeys := rapid.SampledFrom([]int{1, 5, 40, 99, 100, 101, 102, 150, 201, 260}).Draw(rt, "nKeys")
	base := rapid.IntRange(0, 1<<20).Draw(rt, "keyBase")
	nSess := rapid.IntRange(1, 400).Draw(rt, "nSessions")
	type held struct {
		key int
		id  interface{ Bytes() []byte }
		at  int
	}
	var helds []held
	addrOf := map[int][]byte{}
	auths := map[int]*network.Authenticator{}
	pubs := map[int][]byte{}
	key := func(i int) (*network.Authenticator, []byte, []byte) {
		if auths[i] == nil {
			k := gen.KeyFromIndex(1000 + base + i)
			w, _ := wallet.NewFromPrivateKey(k)
			auths[i] = network.VerifNewAuthenticator(w, log)
			pubs[i] = k.PublicKey().SerializeCompressed()
			x, y, ok := c32ParsePub(k.PublicKey().SerializeUncompressed())
			if !ok {
				ev.Inconclusive("C32: harness cannot parse its own key")
			}
			d := sha3.Sum256(append(x.FillBytes(make([]byte, 32)), y.FillBytes(make([]byte, 32))...))
			addrOf[i] = d[12:]
		}
		return auths[i], pubs[i], addrOf[i]
	}
	distinct := map[int]bool{}
	returning, impostors, foreign := 0, 0, 0
	var trail []string
	for sn := 0; sn < nSess; sn++ {
		var ki int
		switch rapid.IntRange(0, 5).Draw(rt, "who") {
		case 0: // one of the first peers comes back
			ki = rapid.IntRange(0, min(nKeys-1, 3)).Draw(rt, "early")
		case 1: // any peer of the pool
			ki = rapid.IntRange(0, nKeys-1).Draw(rt, "any")
		default: // the next peer not seen yet (wraps around)
			ki = len(distinct) % nKeys
		}
		if distinct[ki] {
			returning++
		}
		distinct[ki] = true
		a, pub, want := key(ki)
		secret := []byte(fmt.Sprintf("session-%d-%d", base, sn))
		kind := rapid.IntRange(0, 9).Draw(rt, "kind")
		switch {
		case kind == 0 && nKeys > 1: // impostor: another peer's signature under this peer's key
			oa, _, _ := key((ki + 1) % nKeys)
			impostors++
			trail = append(trail, fmt.Sprintf("imp%d", ki))
			if id, err := aV.VerifySignature(pub, oa.Signature(secret), secret); err == nil {
				rt.Fatalf("C32 violated: session %d: peer claiming key #%d was assigned identity %v with a signature made by key #%d", sn, ki, id, (ki+1)%nKeys)
			}
		case kind == 1: // identities arriving by other ways than a handshake
			foreign++
			trail = append(trail, "pkt")
			junk := sha3.Sum256(secret)
			_ = network.NewPeerID(junk[:20])
		default:
			trail = append(trail, fmt.Sprintf("k%d", ki))
			id, err := aV.VerifySignature(pub, a.Signature(secret), secret)
			if err != nil {
				ev.Inconclusive("C32: a genuine handshake signature is rejected (%v), the check cannot observe acceptance", err)
			}
			if id == nil || !bytes.Equal(id.Bytes(), want) {
				rt.Fatalf("C32 violated: session %d of %d (%d distinct peers so far): key #%d proved possession and was assigned identity %v, its identity is %x | sessions: %v", sn, nSess, len(distinct), ki, id, want, trail)
			}
			helds = append(helds, held{ki, id, sn})
		}
		for _, h := range helds {
			if !bytes.Equal(h.id.Bytes(), addrOf[h.key]) {
				rt.Fatalf("C32 violated: after session %d (%d distinct peers): the identity assigned in session %d to the peer that proved key #%d (%x) now reads %x | sessions: %v", sn, len(distinct), h.at, h.key, addrOf[h.key], h.id.Bytes(), trail)
			}
		}
	}
	labels := []string{"sessions"}
	if len(distinct) > 100 {
		labels = append(labels, "sessions:moreThan100Peers")
	}
	if returning > 0 {
		labels = append(labels, "sessions:returningPeer")
	}
	if impostors > 0 {
		labels = append(labels, "sessions:impostor")
	}
	rec.Case(fmt.Sprintf("sessions: pool of %d keys (base %d), %d sessions, %d distinct peers, %d returning, %d impostors, %d foreign ids", nKeys, base, nSess, len(distinct), returning, impostors, foreign),
		len(distinct) > 100 && returning > 0, labels...)
}

// c32Protocol drives the real handshake handlers of an Authenticator (the node under test) from the
// other end of an in-memory connection. The harness plays the remote peer of either direction
// (it dials the node, or the node dials it), negotiates a session exactly as a peer would (plain
// suite, so that it can read the node's packets) and then presents a drawn proof: honest, made for
// another session (another ephemeral key), made by another key, the public key of another key,
// mutated, or malformed. Oracle: the node hands the peer on as authenticated ONLY IF the proof is,
// by the independent verifier, a signature by the presented key over the secret of this very
// session as the node derived it, and the identity on the peer object is then that key's address.
func c32Protocol(rt *rapid.T, rec *ev.Rec) {
	log := hnQuietLogger()
	kN := gen.KeyFromIndex(7) // the node
	wN, _ := wallet.NewFromPrivateKey(kN)
	node := network.VerifNewAuthenticator(wN, log)
	kA := gen.PrivKey(rt, "peerKey")
	kB := gen.PrivKey(rt, "otherKey")
	wA, _ := wallet.NewFromPrivateKey(kA)
	wB, _ := wallet.NewFromPrivateKey(kB)
	aA := network.VerifNewAuthenticator(wA, log)
	aB := network.VerifNewAuthenticator(wB, log)
	sameKeys := bytes.Equal(kA.Bytes(), kB.Bytes())
	nodeDials := rapid.Bool().Draw(rt, "nodeDials")
	class := rapid.SampledFrom([]string{"honest", "honest", "otherSession", "otherSession", "otherKey", "wrongClaim", "mutatedSig", "mutatedPub", "emptySig", "errorReply", "replayOfEarlierSession", "replayOfEarlierSession"}).Draw(rt, "class")
	// replayOfEarlierSession: the peer first completes an honest handshake; then a second connection to the
	// same node repeats that session byte for byte (same ephemeral parameter, same public key, same
	// signature) without owning any key. The recorded proof is a signature over the EARLIER session's secret.
	var replayPub, replaySig []byte
	replaying := false
	if class == "replayOfEarlierSession" {
		if nodeDials {
			class = "honest" // a dialling node chooses its own ephemeral parameter per connection; nothing to repeat
		} else {
			replaying = true
		}
	}
	ephD, ephD2 := c31Scalar(rt, "ephemeral"), c31Scalar(rt, "ephemeralOther")
	// emptyParam: the remote end sends no key-agreement parameter at all. Such a session has no secret of its own, so
	// nothing the peer signs is bound to it (it could be recorded and replayed): the node must not authenticate anybody
	// in it. A correct node refuses during negotiation; that is counted, not demanded in any particular form.
	emptyParam := rapid.IntRange(0, 5).Draw(rt, "emptyParam") == 0
	refusedEarly := func(where string) {
		rec.Case("protocol emptyParam: refused "+where, false, "protocol", "protocol:emptyParam", "protocol:emptyParamRefused")
	}
again:

	mine, theirs := hnPipe() // mine: harness end, theirs: node end
	sess := network.VerifNewAuthSession(node, theirs, !nodeDials, log)
	rd := network.NewPacketReader(mine)
	wr := network.NewPacketWriter(mine)
	recv := func(want module.ProtocolInfo, v interface{}) bool {
		pkt, err := rd.ReadPacket()
		if err != nil {
			return false
		}
		f := network.VerifPacketFieldsOf(pkt)
		if f.Protocol != network.VerifProtoAuth.Uint16() || f.SubProtocol != want.Uint16() {
			return false
		}
		_, err = codec.MP.UnmarshalFromBytes(f.Payload, v)
		return err == nil
	}
	send := func(sub module.ProtocolInfo, v interface{}, src []byte) {
		f := network.VerifPacketFields{Protocol: network.VerifProtoAuth.Uint16(), SubProtocol: sub.Uint16(), Src: src,
			Dest: network.VerifDestPeer, TTL: 1, Payload: codec.MP.MustMarshalToBytes(v)}
		var buf bytes.Buffer
		if err := network.NewPacketWriter(&buf).WritePacket(network.VerifNewPacket(f)); err != nil {
			ev.Inconclusive("C32: cannot serialise a handshake packet: %v", err)
		}
		_ = wr
		pkt, err := network.NewPacketReader(&buf).ReadPacket()
		if err != nil {
			ev.Inconclusive("C32: cannot parse a handshake packet the harness wrote: %v", err)
		}
		sess.Feed(pkt)
	}
	srcA := wA.Address().ID()
	eph, err := network.VerifNewSecureKey(ephD)
	eph2, err2 := network.VerifNewSecureKey(ephD2)
	if err != nil || err2 != nil {
		ev.Inconclusive("C32: cannot build ephemeral keys")
	}
	var nodeParam []byte
	if nodeDials {
		var req network.SecureRequest
		if !recv(network.VerifProtoAuthSecureRequest, &req) {
			ev.Inconclusive("C32: the dialling node did not send a secure request")
		}
		nodeParam = req.SecureParam
		myParam := eph.PublicKey()
		if emptyParam {
			myParam = nil
		}
		send(network.VerifProtoAuthSecureResponse, &network.SecureResponse{Channel: req.Channel, SecureSuite: network.SecureSuiteNone,
			SecureAeadSuite: network.SecureAeadSuiteNone, SecureParam: myParam}, srcA)
	} else {
		myParam := eph.PublicKey()
		if emptyParam {
			myParam = nil
		}
		send(network.VerifProtoAuthSecureRequest, &network.SecureRequest{Channel: "c32", SecureSuites: []network.SecureSuite{network.SecureSuiteNone},
			SecureAeadSuites: []network.SecureAeadSuite{network.SecureAeadSuiteChaCha20Poly1305}, SecureParam: myParam}, srcA)
		var resp network.SecureResponse
		if !recv(network.VerifProtoAuthSecureResponse, &resp) || resp.SecureSuite != network.SecureSuiteNone {
			if emptyParam {
				refusedEarly("in its secure response")
				return
			}
			ev.Inconclusive("C32: the node did not answer the secure request with the plain suite")
		}
		nodeParam = resp.SecureParam
	}
	if sess.Closed() {
		if emptyParam {
			refusedEarly("by closing the connection during negotiation")
			return
		}
		ev.Inconclusive("C32: the node closed the connection during suite negotiation")
	}
	// the session secret as the remote peer derives it, and that of a different session
	if err := eph.Setup(network.SecureAeadSuiteNone, nodeParam, nodeDials, 2); err != nil {
		ev.Inconclusive("C32: session key setup failed: %v", err)
	}
	if err := eph2.Setup(network.SecureAeadSuiteNone, nodeParam, nodeDials, 2); err != nil {
		ev.Inconclusive("C32: session key setup failed: %v", err)
	}
	secret, other := eph.Extra(), eph2.Extra()
	nodeSecret := sess.SessionSecret()
	if emptyParam {
		// the node went on without the peer's parameter: the peer signs whatever the node takes for the secret
		secret = nodeSecret
	} else if !bytes.Equal(secret, nodeSecret) {
		ev.Inconclusive("C32: both ends derived different session secrets (%x / %x)", secret, nodeSecret)
	}
	if nodeDials {
		// the node proves itself first; the harness does not care
		var sr network.SignatureRequest
		if !recv(network.VerifProtoAuthSignatureRequest, &sr) {
			if emptyParam {
				refusedEarly("by not going on to the signature step")
				return
			}
			ev.Inconclusive("C32: the dialling node did not send its signature request")
		}
	}
	pub := kA.PublicKey().SerializeCompressed()
	if rapid.Bool().Draw(rt, "uncompressed") {
		pub = kA.PublicKey().SerializeUncompressed()
	}
	sig := aA.Signature(secret)
	errText := ""
	if replaying && replaySig != nil {
		pub, sig = replayPub, replaySig
	}
	switch class {
	case "otherSession":
		sig = aA.Signature(other)
	case "otherKey":
		sig = aB.Signature(secret)
	case "wrongClaim":
		pub = kB.PublicKey().SerializeCompressed()
	case "mutatedSig":
		sig = append([]byte{}, sig...)
		sig[rapid.IntRange(0, 63).Draw(rt, "pos")] ^= byte(1 << uint(rapid.IntRange(0, 7).Draw(rt, "bit")))
	case "mutatedPub":
		pub = append([]byte{}, pub...)
		pub[rapid.IntRange(0, len(pub)-1).Draw(rt, "pos")] ^= byte(1 << uint(rapid.IntRange(0, 7).Draw(rt, "bit")))
	case "emptySig":
		sig = nil
	case "errorReply":
		errText = "refused"
	}
	_ = sameKeys
	if nodeDials {
		send(network.VerifProtoAuthSignatureResponse, &network.SignatureResponse{PublicKey: pub, Signature: sig, Error: errText}, srcA)
	} else {
		send(network.VerifProtoAuthSignatureRequest, &network.SignatureRequest{PublicKey: pub, Signature: sig}, srcA)
	}
	if emptyParam {
		desc := fmt.Sprintf("protocol emptyParam nodeDials=%v class=%s pub=%x sig=%x nodeSecret=%x", nodeDials, class, pub, sig, nodeSecret)
		rec.Case(desc, true, "protocol", "protocol:emptyParam", "protocol:emptyParamNodeWentOn")
		if sess.Passed() {
			rt.Fatalf("C32 violated: the node authenticated a peer (identity %x) in a session for which the peer sent no key-agreement parameter: no secret is bound to that session, so the accepted proof (a signature over %x) can be recorded and replayed | case: %s", sess.ID(), nodeSecret, desc)
		}
		return
	}
	if replaying && replaySig == nil {
		// first, honest session of the replay class: must be authenticated, then start over on a new connection
		if !sess.Passed() {
			atomic.AddInt64(&c32HonestRefused, 1)
			rec.Case("protocol replay: first honest session refused", false, "protocol", "protocol:replayFirstSessionRefused")
			return
		}
		replayPub, replaySig = pub, sig
		goto again
	}
	proves, wantID := c32Proves(pub, sig, nodeSecret)
	if errText != "" && nodeDials {
		proves = false // the remote end refused: nothing was proved to the node
	}
	if replaying {
		proves = false // the proof was made for the earlier session, whatever secret the node derived this time
	}
	dir := "peerDials"
	if nodeDials {
		dir = "nodeDials"
	}
	desc := fmt.Sprintf("protocol %s %s pub=%x sig=%x sessionSecret=%x otherSecret=%x", dir, class, pub, sig, nodeSecret, other)
	labels := []string{"protocol", "protocol:" + dir, "protocol:" + class}
	if sess.Passed() {
		labels = append(labels, "protocol:authenticated")
	} else {
		labels = append(labels, "protocol:refused")
	}
	rec.Case(desc, !proves, labels...)
	if sess.Passed() {
		if !proves {
			rt.Fatalf("C32 violated: the node treats the peer as authenticated (identity %x) although it did not prove possession of the presented key over this session's secret | case: %s", sess.ID(), desc)
		}
		if !bytes.Equal(sess.ID(), wantID) {
			rt.Fatalf("C32 violated: the peer proved key with identity %x but the node assigned identity %x | case: %s", wantID, sess.ID(), desc)
		}
		if class == "honest" {
			atomic.AddInt64(&c32HonestPassed, 1)
		}
	} else if class == "honest" {
		// not part of the statement (only-if); counted, and the whole sub-check is inconclusive if no
		// honest handshake is ever authenticated (it could not observe authentication at all)
		atomic.AddInt64(&c32HonestRefused, 1)
	}
}

var c32HonestPassed, c32HonestRefused int64
