package hnet

import (
	"bytes"
	"encoding/binary"
	"fmt"
	"strings"
	"testing"

	"github.com/icon-project/goloop/network"
	"pgregory.net/rapid"

	"verifharness/internal/ev"
)

// C30: any sequence of packets written to a stream is read back as the same sequence of packets
// (protocol, sub-protocol, source, destination, TTL, payload, extension) regardless of how the
// stream is chunked; a packet whose header or payload was altered in transit is rejected.
//
// Oracle
//   - roundtrip: the generated field tuples are the reference; PacketWriter.WritePacket into a
//     buffer, PacketReader.ReadPacket (or Packet.ReadFrom directly) from a reader that returns
//     drawn chunk sizes; field-by-field equality, and no further packet after the last one.
//   - corrupt: one byte of the header, the payload or the stored digest of one packet is
//     substituted; the packets in front of it still round-trip, the hit packet must end in an
//     error (digest mismatch, invalid length, or EOF/short read when the length field was hit).
//     A single-byte substitution always changes an FNV-1a digest of an equal-length input, so the
//     verdict is exact for header (except length)/payload/digest hits; for the length field it
//     relies on a 64-bit digest not matching by accident.
//   - arbitrary / FuzzC30ReadFrom: whatever ReadFrom accepts from arbitrary bytes is fed through
//     the same round trip (its fields written and read again must be unchanged).
//
// Not decided: extension bytes / extension length are not covered by the digest (never mutated);
// what the reader does after a rejected packet.

const (
	c30Hdr     = network.VerifPacketHeaderSize
	c30Ftr     = network.VerifPacketFooterSize
	c30MaxPay  = network.DefaultPacketPayloadMax
	c30MaxExt  = network.VerifPacketExtMaxLen
	c30MaxHint = network.VerifPacketExtMaxHint
)

type c30pkt struct {
	f    network.VerifPacketFields
	desc string
}

func (p *c30pkt) wireLen() int { return c30Hdr + len(p.f.Payload) + c30Ftr + len(p.f.Ext) }

var c30PayBounds = []int{0, 1, 2, 255, 256, 4095, 4096, 4097, 8192, 65535, 65536}

func c30GenPkt(rt *rapid.T, allowMax bool) *c30pkt {
	var f network.VerifPacketFields
	f.Protocol = rapid.Uint16().Draw(rt, "proto")
	f.SubProtocol = rapid.Uint16().Draw(rt, "sub")
	f.Src = rapid.SliceOfN(rapid.Byte(), network.VerifPeerIDSize, network.VerifPeerIDSize).Draw(rt, "src")
	f.Dest = rapid.SampledFrom([]byte{0x00, 0x01, 0x02, 0xFF, 0x03, 0x7f, 0x80}).Draw(rt, "dest")
	f.TTL = rapid.SampledFrom([]byte{0, 1, 2, 3, 0x7f, 0xff}).Draw(rt, "ttl")
	var n int
	switch c := rapid.IntRange(0, 79).Draw(rt, "payClass"); {
	case c == 41 && allowMax: // (rapid favours the ends of an integer range; keep the expensive class off them)
		n = c30MaxPay - rapid.IntRange(0, 1).Draw(rt, "belowMax")
	case c < 32:
		n = rapid.IntRange(0, 64).Draw(rt, "paylen")
	case c < 56:
		n = hnLen(rt, "paylen", 0, 70000, c30PayBounds)
	default:
		n = rapid.IntRange(0, 5000).Draw(rt, "paylen")
	}
	if n <= 64 {
		f.Payload = rapid.SliceOfN(rapid.Byte(), n, n).Draw(rt, "payload")
	} else {
		f.Payload = hnStream(rapid.Uint64().Draw(rt, "payseed"), 0, n)
	}
	switch rapid.IntRange(0, 3).Draw(rt, "extClass") {
	case 0:
		en := hnLen(rt, "extlen", 1, c30MaxExt, []int{1, 4, 255, 256, 1022, 1023})
		f.Ext = hnStream(rapid.Uint64().Draw(rt, "extseed"), 0, en)
		f.ExtHint = byte(rapid.IntRange(0, c30MaxHint).Draw(rt, "hint"))
	case 1:
		en := rapid.IntRange(1, 12).Draw(rt, "extlen")
		f.Ext = rapid.SliceOfN(rapid.Byte(), en, en).Draw(rt, "ext")
		f.ExtHint = byte(rapid.IntRange(0, 3).Draw(rt, "hint"))
	}
	d := fmt.Sprintf("{pi=%#04x spi=%#04x src=%x dest=%#02x ttl=%d pay=%s hint=%d ext=%s}",
		f.Protocol, f.SubProtocol, f.Src, f.Dest, f.TTL, hnSum(f.Payload), f.ExtHint, hnSum(f.Ext))
	return &c30pkt{f: f, desc: d}
}

func c30GenSeq(rt *rapid.T) ([]*c30pkt, string) {
	n := rapid.IntRange(1, 8).Draw(rt, "nPkts")
	var ps []*c30pkt
	var ds []string
	big := false
	for i := 0; i < n; i++ {
		p := c30GenPkt(rt, !big)
		if len(p.f.Payload) >= c30MaxPay-1 {
			big = true
		}
		ps = append(ps, p)
		ds = append(ds, p.desc)
	}
	return ps, strings.Join(ds, " ")
}

func c30GenChunks(rt *rapid.T) []int {
	n := rapid.IntRange(1, 6).Draw(rt, "nChunks")
	cs := make([]int, n)
	for i := range cs {
		switch rapid.IntRange(0, 3).Draw(rt, "chunkClass") {
		case 0:
			cs[i] = rapid.IntRange(1, 8).Draw(rt, "chunk")
		case 1:
			cs[i] = rapid.IntRange(1, 100).Draw(rt, "chunk")
		case 2:
			cs[i] = rapid.IntRange(1, 5000).Draw(rt, "chunk")
		default:
			cs[i] = 1 << 30
		}
	}
	return cs
}

// c30Write serialises the sequence with a fresh PacketWriter.
func c30Write(ps []*c30pkt) ([]byte, string) {
	var buf bytes.Buffer
	pw := network.NewPacketWriter(&buf)
	for i, p := range ps {
		// every sender hands NewPacket its own payload slice; keep the reference untouched
		f := p.f
		f.Payload = append([]byte{}, p.f.Payload...)
		f.Ext = append([]byte(nil), p.f.Ext...)
		if err := pw.WritePacket(network.VerifNewPacket(f)); err != nil {
			return nil, fmt.Sprintf("WritePacket of packet %d %s failed: %v", i, p.desc, err)
		}
	}
	return buf.Bytes(), ""
}

func c30Diff(want network.VerifPacketFields, pkt *network.Packet) string {
	got := network.VerifPacketFieldsOf(pkt)
	switch {
	case got.Protocol != want.Protocol:
		return fmt.Sprintf("protocol %#04x, written %#04x", got.Protocol, want.Protocol)
	case got.SubProtocol != want.SubProtocol:
		return fmt.Sprintf("sub-protocol %#04x, written %#04x", got.SubProtocol, want.SubProtocol)
	case !bytes.Equal(got.Src, want.Src):
		return fmt.Sprintf("source %x, written %x", got.Src, want.Src)
	case got.Dest != want.Dest:
		return fmt.Sprintf("destination %#02x, written %#02x", got.Dest, want.Dest)
	case got.TTL != want.TTL:
		return fmt.Sprintf("ttl %d, written %d", got.TTL, want.TTL)
	case !bytes.Equal(got.Payload, want.Payload):
		return fmt.Sprintf("payload %s, written %s", hnSum(got.Payload), hnSum(want.Payload))
	case got.ExtLen != len(want.Ext) || !bytes.Equal(got.Ext, want.Ext):
		return fmt.Sprintf("extension (declared %d) %s, written %s", got.ExtLen, hnSum(got.Ext), hnSum(want.Ext))
	case got.ExtHint != want.ExtHint:
		return fmt.Sprintf("extension hint %d, written %d", got.ExtHint, want.ExtHint)
	}
	return ""
}

// c30reader reads packets either through PacketReader or with Packet.ReadFrom directly.
type c30reader struct {
	pr     *network.PacketReader
	cr     *hnChunkReader
	direct bool
}

func c30NewReader(wire []byte, chunks []int, direct bool) *c30reader {
	cr := &hnChunkReader{data: wire, sizes: chunks}
	return &c30reader{pr: network.NewPacketReader(cr), cr: cr, direct: direct}
}

func (r *c30reader) next() (*network.Packet, error) {
	if r.direct {
		pkt := &network.Packet{}
		_, err := pkt.ReadFrom(r.cr)
		return pkt, err
	}
	return r.pr.ReadPacket()
}

func c30RoundTrip(rt *rapid.T, rec *ev.Rec) {
	ps, pd := c30GenSeq(rt)
	chunks := c30GenChunks(rt)
	direct := rapid.IntRange(0, 3).Draw(rt, "direct") == 0
	desc := fmt.Sprintf("roundtrip direct=%v chunks=%v pkts=[%s]", direct, chunks, pd)
	wire, fail := c30Write(ps)
	total := 0
	for _, p := range ps {
		total += p.wireLen()
	}
	if fail == "" && len(wire) != total {
		// informational only: the statement does not fix the wire size; the corrupt sub-check relies on it
		rec.Label("wireSizeUnexpected")
	}
	split := false // a chunk boundary inside a packet
	for _, c := range chunks {
		if c < total {
			split = true
		}
	}
	if fail == "" {
		r := c30NewReader(wire, chunks, direct)
		for i, p := range ps {
			pkt, err := r.next()
			if err != nil {
				fail = fmt.Sprintf("packet %d of %d %s: read failed: %v", i, len(ps), p.desc, err)
				break
			}
			if d := c30Diff(p.f, pkt); d != "" {
				fail = fmt.Sprintf("packet %d of %d %s read back with %s", i, len(ps), p.desc, d)
				break
			}
		}
		if fail == "" {
			if pkt, err := r.next(); err == nil {
				fail = fmt.Sprintf("an additional packet %v was read after the %d written ones", pkt, len(ps))
			}
		}
	}
	labels := []string{"roundtrip"}
	if direct {
		labels = append(labels, "directReadFrom")
	}
	for _, p := range ps {
		if len(p.f.Payload) >= c30MaxPay-1 {
			labels = append(labels, "maxPayload")
		}
		if len(p.f.Payload) == 0 {
			labels = append(labels, "emptyPayload")
		}
		if len(p.f.Ext) > 0 {
			labels = append(labels, "withExtension")
		}
	}
	rec.Case(desc, split && len(ps) >= 2, labels...)
	if fail != "" {
		rt.Fatalf("C30 violated: %s | case: %s", fail, desc)
	}
}

func c30Corrupt(rt *rapid.T, rec *ev.Rec) {
	ps, pd := c30GenSeq(rt)
	chunks := c30GenChunks(rt)
	direct := rapid.IntRange(0, 3).Draw(rt, "direct") == 0
	wire, fail := c30Write(ps)
	if fail != "" {
		rt.Fatalf("C30 violated: %s", fail)
	}
	total := 0
	offs := make([]int, len(ps))
	for i, p := range ps {
		offs[i] = total
		total += p.wireLen()
	}
	if len(wire) != total {
		ev.Inconclusive("C30: written stream has %d bytes, harness layout assumption gives %d", len(wire), total)
	}
	k := rapid.IntRange(0, len(ps)-1).Draw(rt, "victim")
	p := ps[k]
	regions := []string{"header", "digest", "length"}
	if len(p.f.Payload) > 0 {
		regions = append(regions, "payload", "payload")
	}
	region := rapid.SampledFrom(regions).Draw(rt, "region")
	var pos int
	switch region {
	case "header":
		pos = rapid.IntRange(0, c30Hdr-5).Draw(rt, "pos")
	case "length":
		pos = c30Hdr - 4 + rapid.IntRange(0, 3).Draw(rt, "pos")
	case "payload":
		pos = c30Hdr + rapid.IntRange(0, len(p.f.Payload)-1).Draw(rt, "pos")
	case "digest":
		pos = c30Hdr + len(p.f.Payload) + rapid.IntRange(0, 7).Draw(rt, "pos")
	}
	x := byte(rapid.IntRange(1, 255).Draw(rt, "xor"))
	mut := append([]byte{}, wire...)
	mut[offs[k]+pos] ^= x
	desc := fmt.Sprintf("corrupt direct=%v chunks=%v victim=%d region=%s pos=%d xor=%#02x pkts=[%s]", direct, chunks, k, region, pos, x, pd)
	if region == "length" {
		// sanity of the harness' idea of the layout: the 4 bytes really are the payload length
		if int(binary.BigEndian.Uint32(wire[offs[k]+c30Hdr-4:])) != len(p.f.Payload) {
			ev.Inconclusive("C30: length field not where the harness expects it")
		}
	}
	r := c30NewReader(mut, chunks, direct)
	for i := 0; i < k && fail == ""; i++ {
		pkt, err := r.next()
		if err != nil {
			fail = fmt.Sprintf("untouched packet %d in front of the corrupted one: read failed: %v", i, err)
		} else if d := c30Diff(ps[i].f, pkt); d != "" {
			fail = fmt.Sprintf("untouched packet %d in front of the corrupted one read back with %s", i, d)
		}
	}
	if fail == "" {
		pkt, err := r.next()
		if err == nil {
			fail = fmt.Sprintf("packet %d with a substituted %s byte was accepted as %v (differs from written: %q)", k, region, pkt, c30Diff(p.f, pkt))
		}
	}
	rec.Case(desc, true, "corrupt", "corrupt:"+region)
	if fail != "" {
		rt.Fatalf("C30 violated: %s | case: %s", fail, desc)
	}
}

// c30Arbitrary: if ReadFrom accepts data, the accepted fields must survive the round trip.
// Returns a failure text.
func c30Arbitrary(data []byte) (accepted bool, fail string) {
	pkt := &network.Packet{}
	rd := bytes.NewReader(data)
	n, err := pkt.ReadFrom(rd)
	if n < 0 || n > int64(len(data)) {
		return false, fmt.Sprintf("ReadFrom reports %d bytes read from %d", n, len(data))
	}
	if err != nil {
		return false, ""
	}
	f := network.VerifPacketFieldsOf(pkt)
	want := f
	want.Ext = f.Ext
	if f.ExtLen != len(f.Ext) {
		return true, fmt.Sprintf("accepted packet declares %d extension bytes but carries %d", f.ExtLen, len(f.Ext))
	}
	wire, w := c30Write([]*c30pkt{{f: want}})
	if w != "" {
		return true, w
	}
	p2, err := network.NewPacketReader(bytes.NewReader(wire)).ReadPacket()
	if err != nil {
		return true, fmt.Sprintf("fields accepted from arbitrary bytes do not read back after writing: %v", err)
	}
	if d := c30Diff(want, p2); d != "" {
		return true, "fields accepted from arbitrary bytes read back with " + d
	}
	return true, ""
}

func c30ArbitraryCase(rt *rapid.T, rec *ev.Rec) {
	var data []byte
	class := ""
	switch rapid.IntRange(0, 2).Draw(rt, "class") {
	case 0:
		class = "random"
		data = rapid.SliceOfN(rapid.Byte(), 0, 120).Draw(rt, "data")
	default:
		class = "mutatedValid"
		p := c30GenPkt(rt, false)
		if len(p.f.Payload) > 300 {
			p.f.Payload = p.f.Payload[:300]
		}
		data, _ = c30Write([]*c30pkt{p})
		nm := rapid.IntRange(0, 3).Draw(rt, "nMut")
		for i := 0; i < nm && len(data) > 0; i++ {
			switch rapid.IntRange(0, 2).Draw(rt, "mutKind") {
			case 0:
				data[rapid.IntRange(0, len(data)-1).Draw(rt, "pos")] ^= byte(rapid.IntRange(1, 255).Draw(rt, "xor"))
			case 1:
				data = data[:rapid.IntRange(0, len(data)).Draw(rt, "cut")]
			default:
				data = append(data, rapid.SliceOfN(rapid.Byte(), 0, 16).Draw(rt, "tail")...)
			}
		}
	}
	acc, fail := c30Arbitrary(data)
	l := "arbitrary:rejected"
	if acc {
		l = "arbitrary:accepted"
	}
	rec.Case(fmt.Sprintf("arbitrary %s data=%x", class, data), acc, "arbitrary", l)
	if fail != "" {
		rt.Fatalf("C30 violated: %s | data=%x", fail, data)
	}
}

func TestC30(t *testing.T) {
	rec := ev.New("C30", "rapid: sequences of 1-8 packets (all header fields, payload 0..1 MiB biased to {0,1,4095,4096,4097,max-1,max}, extension 0..1023 B + hint) written with WritePacket, read through drawn chunk sizes (PacketReader or direct ReadFrom); corrupt: one substituted byte in header/length/payload/digest of one packet; arbitrary: random or mutated bytes into ReadFrom. Non-trivial = round trip of >= 2 packets with a chunk boundary inside the stream, every corruption case, accepted arbitrary input; distinct by full rendering (payloads by length+digest)")
	defer rec.Flush(t)
	t.Run("roundtrip", func(t *testing.T) {
		ev.Check(t, 6000, 100000, func(rt *rapid.T) { c30RoundTrip(rt, rec) })
	})
	t.Run("corrupt", func(t *testing.T) {
		ev.Check(t, 6000, 100000, func(rt *rapid.T) { c30Corrupt(rt, rec) })
	})
	t.Run("arbitrary", func(t *testing.T) {
		ev.Check(t, 4000, 200000, func(rt *rapid.T) { c30ArbitraryCase(rt, rec) })
	})
}

// FuzzC30ReadFrom: native coverage-guided campaign (thorough tier) with the same oracle as the
// "arbitrary" sub-check.
func FuzzC30ReadFrom(f *testing.F) {
	for _, n := range []int{0, 1, 5, 300} {
		p := &c30pkt{f: network.VerifPacketFields{Protocol: 0x0100, SubProtocol: 0x0001, Src: make([]byte, network.VerifPeerIDSize), TTL: 1, Payload: hnStream(1, 0, n)}}
		if n == 5 {
			p.f.Ext = []byte{1, 2, 3, 4}
			p.f.ExtHint = 1
		}
		w, _ := c30Write([]*c30pkt{p})
		f.Add(w)
	}
	f.Fuzz(func(t *testing.T, data []byte) {
		if _, fail := c30Arbitrary(data); fail != "" {
			t.Fatalf("C30 violated: %s | data=%x", fail, data)
		}
	})
}
