package hnet

import (
	"bytes"
	"encoding/binary"
	"fmt"
	"math/big"
	"strings"
	"testing"

	"github.com/icon-project/goloop/network"
	"pgregory.net/rapid"

	"verifharness/internal/ev"
)

// C31: bytes written on one end of an encrypted peer connection are read on the other end as
// exactly the same byte sequence for any write sizes and any read buffer sizes; both ends derive
// matching keys with separate keys per direction; tampered or reordered ciphertext is rejected.
//
// Oracle
//   - stream: reference model = per direction the concatenation of everything written; every
//     Read must return err==nil, n <= len(buf) (io.Reader contract) and buf[:n] equal to the next
//     n model bytes; after the final drain nothing is missing.
//   - keys: pairwise relations only (the statement does not fix the derivation): the secret
//     vectors and the session extra secret of both ends are equal, the two direction secrets
//     differ, isLower is antisymmetric, and the key one end writes with is the key the other end
//     reads with and differs from the key of the opposite direction.
//   - tamper: one mutation of the ciphertext stream of one direction (byte substitution in the
//     length field, ciphertext or tag; swap of two frames; replay of a frame; removal of a frame
//     that is not the last). The reader must report an error, and the number of bytes it handed
//     out (sum of the returned n, also of a Read that returns an error — callers must process n
//     bytes before looking at err) must not exceed the plaintext that precedes the first affected
//     frame, and must be a prefix of the written plaintext.
//
// Not decided: header bytes 2..3 of a frame are unauthenticated padding (never mutated);
// truncation of the stream tail (undetectable, not claimed).

const (
	c31Hdr   = network.VerifSecureConnHeaderSize
	c31Frame = network.VerifSecureConnFrameSize
)

var c31Suites = []network.SecureAeadSuite{
	network.SecureAeadSuiteChaCha20Poly1305,
	network.SecureAeadSuiteAes128Gcm,
	network.SecureAeadSuiteAes256Gcm,
}

var c31P256N, _ = new(big.Int).SetString("ffffffff00000000ffffffffffffffffbce6faada7179e84f3b9cac2fc632551", 16)

type c31pair struct {
	desc   string
	sa     network.SecureAeadSuite
	ka, kb *network.VerifSecureKey
	a, b   *network.SecureConn
	ca, cb *hnConn // ca.in = wire bytes travelling to a
	class  string
}

func c31Scalar(rt *rapid.T, label string) []byte {
	d := rapid.SliceOfN(rapid.Byte(), 32, 32).Draw(rt, label)
	d[0] &= 0x7f // below the P-256 group order
	d[31] |= 1   // non-zero
	return d
}

// c31NewPair builds two connected SecureConn ends and checks the key relations. A non-empty
// msg is a violation text.
func c31NewPair(rt *rapid.T) (p *c31pair, msg string) {
	sa := rapid.SampledFrom(c31Suites).Draw(rt, "suite")
	da := c31Scalar(rt, "da")
	var db []byte
	class := "distinctKeys"
	switch rapid.IntRange(0, 11).Draw(rt, "keyClass") {
	case 0:
		db = append([]byte{}, da...)
		class = "sameKey"
	case 1:
		// same X, opposite Y: d' = N - d
		n := new(big.Int).Sub(c31P256N, new(big.Int).SetBytes(da))
		db = n.FillBytes(make([]byte, 32))
		class = "negatedKey"
	default:
		db = c31Scalar(rt, "db")
	}
	inA := rapid.Bool().Draw(rt, "aIsIncoming")
	ka, err := network.VerifNewSecureKey(da)
	if err != nil {
		ev.Inconclusive("C31: cannot build session key: %v", err)
	}
	kb, err := network.VerifNewSecureKey(db)
	if err != nil {
		ev.Inconclusive("C31: cannot build session key: %v", err)
	}
	desc := fmt.Sprintf("suite=%s da=%x db=%x aIn=%v", sa, da, db, inA)
	// the authenticator passes Peer.In() as the tie breaker and always asks for 2 secrets
	if err := ka.Setup(sa, kb.PublicKey(), inA, 2); err != nil {
		return nil, fmt.Sprintf("%s: key setup on end a failed: %v", desc, err)
	}
	if err := kb.Setup(sa, ka.PublicKey(), !inA, 2); err != nil {
		return nil, fmt.Sprintf("%s: key setup on end b failed: %v", desc, err)
	}
	sA, sB := ka.Secrets(), kb.Secrets()
	if len(sA) != 2 || len(sB) != 2 {
		return nil, fmt.Sprintf("%s: %d/%d secrets derived, want 2/2", desc, len(sA), len(sB))
	}
	for i := range sA {
		if len(sA[i]) == 0 || !bytes.Equal(sA[i], sB[i]) {
			return nil, fmt.Sprintf("%s: secret %d differs between the ends: %x vs %x", desc, i, sA[i], sB[i])
		}
	}
	if len(ka.Extra()) == 0 || !bytes.Equal(ka.Extra(), kb.Extra()) {
		return nil, fmt.Sprintf("%s: session extra secret differs between the ends: %x vs %x", desc, ka.Extra(), kb.Extra())
	}
	if bytes.Equal(sA[0], sA[1]) {
		return nil, fmt.Sprintf("%s: both directions use the same secret %x", desc, sA[0])
	}
	if ka.IsLower() == kb.IsLower() {
		return nil, fmt.Sprintf("%s: isLower not antisymmetric: a=%v b=%v", desc, ka.IsLower(), kb.IsLower())
	}
	ca, cb := hnPipe()
	// the transport under the channel may hand a written frame over in pieces (TCP segments, a re-chunking relay)
	seg := rapid.SampledFrom([]int{0, 0, 0, 1460, 536, 100, 17, 7, 1}).Draw(rt, "transportSegment")
	ca.seg, cb.seg = seg, seg
	desc += fmt.Sprintf(" seg=%d", seg)
	a, err := ka.NewConn(ca, sa)
	if err != nil {
		return nil, fmt.Sprintf("%s: NewSecureConn a: %v", desc, err)
	}
	b, err := kb.NewConn(cb, sa)
	if err != nil {
		return nil, fmt.Sprintf("%s: NewSecureConn b: %v", desc, err)
	}
	ain, aout := network.VerifSecureConnSecrets(a)
	bin, bout := network.VerifSecureConnSecrets(b)
	if !bytes.Equal(aout, bin) || !bytes.Equal(bout, ain) {
		return nil, fmt.Sprintf("%s: write key of one end is not the read key of the other: a.out=%x b.in=%x b.out=%x a.in=%x", desc, aout, bin, bout, ain)
	}
	if bytes.Equal(aout, ain) || bytes.Equal(bout, bin) {
		return nil, fmt.Sprintf("%s: an end reads and writes with the same key %x", desc, aout)
	}
	return &c31pair{desc: desc, sa: sa, ka: ka, kb: kb, a: a, b: b, ca: ca, cb: cb, class: class}, ""
}

var c31WriteBounds = []int{0, 1, 2, 1023, 1024, 1025, 2047, 2048, 2049, 3072, 4096, 5000}
var c31ReadBounds = []int{1, 2, 3, 15, 16, 17, 1023, 1024, 1025, 4096}

func c31ReadSize(rt *rapid.T, label string) int {
	switch rapid.IntRange(0, 3).Draw(rt, label+".c") {
	case 0:
		return rapid.IntRange(1, 32).Draw(rt, label)
	case 1:
		return rapid.IntRange(1, 1023).Draw(rt, label)
	default:
		return hnLen(rt, label, 1, 4096, c31ReadBounds)
	}
}

// c31dir is the model of one direction.
type c31dir struct {
	name    string
	w, r    *network.SecureConn
	seed    uint64
	written int
	read    int
	frames  []int // plaintext sizes of frames not yet fully consumed (first may be partial)
	small   bool  // a Read had a buffer smaller than what was left of the pending frame
	nread   int
	// reads into a window (len < cap) of a larger buffer
	windowed int
}

func (d *c31dir) write(n int) string {
	data := hnStream(d.seed, d.written, n)
	wn, err := d.w.Write(data)
	if err != nil || wn != n {
		return fmt.Sprintf("%s: Write(%d bytes) = (%d, %v)", d.name, n, wn, err)
	}
	d.written += n
	for n > 0 {
		f := n
		if f > c31Frame {
			f = c31Frame
		}
		d.frames = append(d.frames, f)
		n -= f
	}
	return ""
}

// readOnce performs one Read with a buffer of bs bytes; data must be pending.
func (d *c31dir) readOnce(bs int) string {
	buf := make([]byte, bs)
	// every third read goes into a window of a larger buffer (len < cap), the way a caller reads a length prefix
	// into the head of its message buffer: nothing may be written behind the window
	d.nread++
	var whole []byte
	if d.nread%3 == 0 {
		whole = bytes.Repeat([]byte{0xa5}, bs+c31Frame+64)
		buf = whole[:bs]
		d.windowed++
	}
	if len(d.frames) > 0 && bs < d.frames[0] {
		d.small = true
	}
	n, err := d.r.Read(buf)
	if whole != nil {
		for i := bs; i < len(whole); i++ {
			if whole[i] != 0xa5 {
				return fmt.Sprintf("%s: Read into a %d-byte window of a %d-byte buffer returned (%d, %v) and wrote behind the window (offset %d)", d.name, bs, len(whole), n, err, i)
			}
		}
	}
	if err != nil {
		return fmt.Sprintf("%s: Read(buf %d) with %d bytes pending = (%d, %v)", d.name, bs, d.written-d.read, n, err)
	}
	if n < 0 || n > bs {
		return fmt.Sprintf("%s: Read(buf %d) returned n=%d > len(buf) (io.Reader contract; pending frame of %d bytes, the rest of it is lost)", d.name, bs, n, d.frames[0])
	}
	if n > d.written-d.read {
		return fmt.Sprintf("%s: Read(buf %d) returned %d bytes, only %d were written and unread", d.name, bs, n, d.written-d.read)
	}
	want := hnStream(d.seed, d.read, n)
	if !bytes.Equal(buf[:n], want) {
		i := 0
		for buf[i] == want[i] {
			i++
		}
		return fmt.Sprintf("%s: Read(buf %d) returned %d bytes that differ from the written stream at stream offset %d (got %x.. want %x..)", d.name, bs, n, d.read+i, buf[i:min(n, i+8)], want[i:min(n, i+8)])
	}
	d.read += n
	for c := n; c > 0; {
		if d.frames[0] <= c {
			c -= d.frames[0]
			d.frames = d.frames[1:]
		} else {
			d.frames[0] -= c
			c = 0
		}
	}
	return ""
}

func c31Stream(rt *rapid.T, rec *ev.Rec) {
	p, msg := c31NewPair(rt)
	if msg != "" {
		rec.Case(msg, true, "keyRelationBroken")
		rt.Fatalf("C31 violated: %s", msg)
	}
	dirs := []*c31dir{
		{name: "a->b", w: p.a, r: p.b, seed: rapid.Uint64().Draw(rt, "seedAB")},
		{name: "b->a", w: p.b, r: p.a, seed: rapid.Uint64().Draw(rt, "seedBA")},
	}
	nOps := rapid.IntRange(1, 14).Draw(rt, "nOps")
	var ops []string
	fail := ""
	big := false
	for i := 0; i < nOps && fail == ""; i++ {
		d := dirs[rapid.IntRange(0, 1).Draw(rt, "dir")]
		if d.written == d.read || rapid.IntRange(0, 2).Draw(rt, "isWrite") == 0 {
			n := hnLen(rt, "wlen", 0, 5000, c31WriteBounds)
			if rapid.IntRange(0, 15).Draw(rt, "bigWrite") == 0 {
				// one Write of many frames, and sizes around 2^16 (the frame header holds a 16-bit length)
				n = rapid.SampledFrom([]int{63 * c31Frame, 64*c31Frame - 1, 64 * c31Frame, 64*c31Frame + 1, 65535, 65536, 65537, 70000,
					2 * 65536, 3*65536 + 17}).Draw(rt, "bigLen")
				big = true
			}
			ops = append(ops, fmt.Sprintf("%s w%d", d.name, n))
			fail = d.write(n)
		} else {
			bs := c31ReadSize(rt, "rbuf")
			ops = append(ops, fmt.Sprintf("%s r%d", d.name, bs))
			fail = d.readOnce(bs)
		}
	}
	// drain both directions with a drawn cycle of buffer sizes
	nd := rapid.IntRange(1, 4).Draw(rt, "nDrain")
	drain := make([]int, nd)
	for i := range drain {
		drain[i] = c31ReadSize(rt, "dbuf")
	}
	for _, d := range dirs {
		budget := d.written - d.read + 64
		for i := 0; fail == "" && d.read < d.written; i++ {
			if i >= budget {
				fail = fmt.Sprintf("%s: %d written bytes are never returned by Read (%d reads made no progress)", d.name, d.written-d.read, i)
				break
			}
			bs := drain[i%nd]
			if d.written-d.read > 16384 && bs < 1024 {
				bs += 1024 // keep the number of reads of a very long backlog bounded
			}
			fail = d.readOnce(bs)
		}
	}
	desc := fmt.Sprintf("%s ops=[%s] drain=%v", p.desc, strings.Join(ops, ","), drain)
	small := dirs[0].small || dirs[1].small
	labels := []string{"stream", p.sa.String(), p.class}
	if small {
		labels = append(labels, "bufferSmallerThanFrame")
	}
	if dirs[0].written > 0 && dirs[1].written > 0 {
		labels = append(labels, "bothDirections")
	}
	if big {
		labels = append(labels, "writeOf64KiBOrMore")
	}
	rec.Case(desc, small, labels...)
	if fail != "" {
		rt.Fatalf("C31 violated: %s | case: %s", fail, desc)
	}
}

// c31frame is one frame found on the wire.
type c31frame struct{ off, plain, total int }

func c31Parse(wire []byte, overhead int) ([]c31frame, bool) {
	var fs []c31frame
	for off := 0; off < len(wire); {
		if off+c31Hdr > len(wire) {
			return nil, false
		}
		n := int(binary.BigEndian.Uint16(wire[off:]))
		t := c31Hdr + n + overhead
		if off+t > len(wire) {
			return nil, false
		}
		fs = append(fs, c31frame{off, n, t})
		off += t
	}
	return fs, true
}

func c31Tamper(rt *rapid.T, rec *ev.Rec) {
	p, msg := c31NewPair(rt)
	if msg != "" {
		rec.Case(msg, true, "keyRelationBroken")
		rt.Fatalf("C31 violated: %s", msg)
	}
	w, r, wire := p.a, p.b, p.cb
	dir := "a->b"
	if rapid.Bool().Draw(rt, "reverse") {
		w, r, wire = p.b, p.a, p.ca
		dir = "b->a"
	}
	seed := rapid.Uint64().Draw(rt, "seed")
	nw := rapid.IntRange(1, 4).Draw(rt, "nWrites")
	var sizes []int
	total := 0
	for i := 0; i < nw; i++ {
		n := hnLen(rt, "wlen", 1, 3000, c31WriteBounds)
		sizes = append(sizes, n)
		if wn, err := w.Write(hnStream(seed, total, n)); err != nil || wn != n {
			rt.Fatalf("C31 violated: %s %s: Write(%d bytes) = (%d, %v)", p.desc, dir, n, wn, err)
		}
		total += n
	}
	orig := append([]byte{}, wire.in...)
	ov := network.VerifSecureConnOverhead(w)
	fs, ok := c31Parse(orig, ov)
	if !ok || len(fs) == 0 {
		ev.Inconclusive("C31: harness cannot parse the frames it observed on the wire (layout assumption broken)")
	}
	plainOff := make([]int, len(fs)+1)
	for i, f := range fs {
		plainOff[i+1] = plainOff[i] + f.plain
	}
	if plainOff[len(fs)] != total {
		ev.Inconclusive("C31: frame lengths on the wire do not add up to the written bytes (layout assumption broken)")
	}
	frameBytes := func(i int) []byte { return orig[fs[i].off : fs[i].off+fs[i].total] }

	kinds := []string{"flipBody", "flipTag", "flipLen"}
	if len(fs) >= 2 {
		kinds = append(kinds, "swap", "replay", "drop")
	} else {
		kinds = append(kinds, "replay")
	}
	kind := rapid.SampledFrom(kinds).Draw(rt, "kind")
	var mut []byte
	affected := 0
	how := ""
	switch kind {
	case "flipBody", "flipTag", "flipLen":
		fi := rapid.IntRange(0, len(fs)-1).Draw(rt, "frame")
		f := fs[fi]
		var pos int
		switch kind {
		case "flipLen":
			pos = f.off + rapid.IntRange(0, 1).Draw(rt, "pos")
		case "flipBody":
			pos = f.off + c31Hdr + rapid.IntRange(0, f.plain-1).Draw(rt, "pos")
		default:
			pos = f.off + c31Hdr + f.plain + rapid.IntRange(0, ov-1).Draw(rt, "pos")
		}
		x := byte(rapid.IntRange(1, 255).Draw(rt, "xor"))
		mut = append([]byte{}, orig...)
		mut[pos] ^= x
		affected = fi
		how = fmt.Sprintf("frame %d/%d wire offset %d (frame offset %d) ^= %#02x", fi, len(fs), pos, pos-f.off, x)
	case "swap":
		i := rapid.IntRange(0, len(fs)-2).Draw(rt, "i")
		j := rapid.IntRange(i+1, len(fs)-1).Draw(rt, "j")
		for k := range fs {
			switch k {
			case i:
				mut = append(mut, frameBytes(j)...)
			case j:
				mut = append(mut, frameBytes(i)...)
			default:
				mut = append(mut, frameBytes(k)...)
			}
		}
		affected = i
		how = fmt.Sprintf("frames %d and %d of %d swapped", i, j, len(fs))
	case "replay":
		i := rapid.IntRange(0, len(fs)-1).Draw(rt, "i")
		at := rapid.IntRange(i+1, len(fs)).Draw(rt, "at") // inserted before frame index `at`
		for k := 0; k <= len(fs); k++ {
			if k == at {
				mut = append(mut, frameBytes(i)...)
			}
			if k < len(fs) {
				mut = append(mut, frameBytes(k)...)
			}
		}
		affected = at
		how = fmt.Sprintf("frame %d of %d replayed before position %d", i, len(fs), at)
	case "drop":
		i := rapid.IntRange(0, len(fs)-2).Draw(rt, "i")
		for k := range fs {
			if k != i {
				mut = append(mut, frameBytes(k)...)
			}
		}
		affected = i
		how = fmt.Sprintf("frame %d of %d removed", i, len(fs))
	}
	wire.in = mut
	nd := rapid.IntRange(1, 3).Draw(rt, "nBuf")
	bufs := make([]int, nd)
	for i := range bufs {
		bufs[i] = c31ReadSize(rt, "rbuf")
	}
	desc := fmt.Sprintf("%s %s writes=%v tamper=%s: %s bufs=%v", p.desc, dir, sizes, kind, how, bufs)

	limit := plainOff[affected] // plaintext bytes in front of the first affected frame
	delivered := 0
	var rerr error
	fail := ""
	for i := 0; i < total+2*len(fs)+64; i++ {
		buf := make([]byte, bufs[i%nd])
		n, err := r.Read(buf)
		if n < 0 || n > len(buf) {
			fail = fmt.Sprintf("Read(buf %d) returned n=%d > len(buf)", len(buf), n)
			break
		}
		if n > 0 {
			if delivered+n > limit {
				fail = fmt.Sprintf("reader handed out %d bytes (last Read = (%d, %v)) although only %d plaintext bytes precede the tampered frame", delivered+n, n, err, limit)
				break
			}
			if !bytes.Equal(buf[:n], hnStream(seed, delivered, n)) {
				fail = fmt.Sprintf("bytes handed out at stream offset %d differ from the written ones", delivered)
				break
			}
			delivered += n
		}
		if err != nil {
			rerr = err
			break
		}
	}
	if fail == "" && rerr == nil {
		fail = "no Read reported an error"
	}
	rec.Case(desc, len(fs) >= 2, "tamper", "tamper:"+kind, p.sa.String())
	if fail != "" {
		rt.Fatalf("C31 violated: tampered ciphertext not rejected: %s | case: %s", fail, desc)
	}
}

func TestC31(t *testing.T) {
	rec := ev.New("C31", "rapid: AEAD suite, two P-256 session scalars (incl. equal and negated keys), tie-breaker side; stream: 1-14 interleaved writes (0..5000 B) / reads (buffer 1..4096 B) in both directions + drain with drawn buffer sizes; tamper: 1-4 writes then one ciphertext-stream mutation (byte substitution in length/ciphertext/tag, frame swap/replay/removal). Non-trivial = stream case in which a Read buffer was smaller than the pending frame, or tamper case with >= 2 frames on the wire, or keys-only case with equal / negated session keys (tie-breaker paths); distinct by the full rendering")
	defer rec.Flush(t)
	t.Run("stream", func(t *testing.T) {
		ev.Check(t, 4000, 150000, func(rt *rapid.T) { c31Stream(rt, rec) })
	})
	t.Run("tamper", func(t *testing.T) {
		ev.Check(t, 4000, 150000, func(rt *rapid.T) { c31Tamper(rt, rec) })
	})
	t.Run("keys", func(t *testing.T) {
		ev.Check(t, 1000, 20000, func(rt *rapid.T) {
			p, msg := c31NewPair(rt)
			if msg != "" {
				rec.Case(msg, true, "keyRelationBroken")
				rt.Fatalf("C31 violated: %s", msg)
			}
			rec.Case("keys "+p.desc, p.class != "distinctKeys", "keys", p.class, p.sa.String())
		})
	})
}
