module verifharness

go 1.23

require (
	github.com/decred/dcrd/dcrec/secp256k1/v4 v4.2.0
	github.com/icon-project/goloop v0.0.0
	golang.org/x/crypto v0.32.0
	pgregory.net/rapid v1.3.0
)

require (
	contrib.go.opencensus.io/exporter/prometheus v0.4.2 // indirect
	github.com/beorn7/perks v1.0.1 // indirect
	github.com/biter777/countries v1.3.4 // indirect
	github.com/bshuster-repo/logrus-logstash-hook v0.4.1 // indirect
	github.com/cespare/xxhash/v2 v2.1.2 // indirect
	github.com/davecgh/go-spew v1.1.2-0.20180830191138-d8f796af33cc // indirect
	github.com/evalphobia/logrus_fluent v0.5.4 // indirect
	github.com/fluent/fluent-logger-golang v1.4.0 // indirect
	github.com/go-kit/log v0.2.1 // indirect
	github.com/go-logfmt/logfmt v0.5.1 // indirect
	github.com/go-playground/locales v0.12.1 // indirect
	github.com/go-playground/universal-translator v0.16.0 // indirect
	github.com/gofrs/uuid v4.4.0+incompatible // indirect
	github.com/golang/groupcache v0.0.0-20210331224755-41bb18bfe9da // indirect
	github.com/golang/protobuf v1.5.3 // indirect
	github.com/golang/snappy v0.0.0-20180518054509-2e65f85255db // indirect
	github.com/labstack/echo/v4 v4.11.3 // indirect
	github.com/labstack/gommon v0.4.0 // indirect
	github.com/leodido/go-urn v1.1.0 // indirect
	github.com/mattn/go-colorable v0.1.13 // indirect
	github.com/mattn/go-isatty v0.0.19 // indirect
	github.com/matttproud/golang_protobuf_extensions v1.0.1 // indirect
	github.com/philhofer/fwd v1.0.0 // indirect
	github.com/pkg/errors v0.9.1 // indirect
	github.com/pmezard/go-difflib v1.0.1-0.20181226105442-5d4384ee4fb2 // indirect
	github.com/prometheus/client_golang v1.13.0 // indirect
	github.com/prometheus/client_model v0.2.0 // indirect
	github.com/prometheus/common v0.37.0 // indirect
	github.com/prometheus/procfs v0.8.0 // indirect
	github.com/prometheus/statsd_exporter v0.22.7 // indirect
	github.com/sirupsen/logrus v1.9.3 // indirect
	github.com/stretchr/testify v1.8.4 // indirect
	github.com/syndtr/goleveldb v1.0.0 // indirect
	github.com/tinylib/msgp v1.1.0 // indirect
	github.com/valyala/bytebufferpool v1.0.0 // indirect
	github.com/valyala/fasttemplate v1.2.2 // indirect
	github.com/vmihailenco/msgpack/v4 v4.3.13 // indirect
	github.com/vmihailenco/tagparser v0.1.1 // indirect
	go.opencensus.io v0.24.0 // indirect
	golang.org/x/net v0.34.0 // indirect
	golang.org/x/sync v0.10.0 // indirect
	golang.org/x/sys v0.29.0 // indirect
	golang.org/x/text v0.21.0 // indirect
	google.golang.org/protobuf v1.33.0 // indirect
	gopkg.in/go-playground/validator.v9 v9.31.0 // indirect
	gopkg.in/natefinch/lumberjack.v2 v2.2.1 // indirect
	gopkg.in/yaml.v2 v2.4.0 // indirect
	gopkg.in/yaml.v3 v3.0.1 // indirect
)

replace github.com/icon-project/goloop => /repo
