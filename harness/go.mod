module verifharness

go 1.23

require (
	github.com/icon-project/goloop v0.0.0
	pgregory.net/rapid v1.3.0
)

require (
	github.com/bshuster-repo/logrus-logstash-hook v0.4.1 // indirect
	github.com/decred/dcrd/dcrec/secp256k1/v4 v4.2.0 // indirect
	github.com/evalphobia/logrus_fluent v0.5.4 // indirect
	github.com/fluent/fluent-logger-golang v1.4.0 // indirect
	github.com/gofrs/uuid v4.4.0+incompatible // indirect
	github.com/golang/snappy v0.0.0-20180518054509-2e65f85255db // indirect
	github.com/philhofer/fwd v1.0.0 // indirect
	github.com/pkg/errors v0.9.1 // indirect
	github.com/sirupsen/logrus v1.9.3 // indirect
	github.com/syndtr/goleveldb v1.0.0 // indirect
	github.com/tinylib/msgp v1.1.0 // indirect
	github.com/vmihailenco/msgpack/v4 v4.3.13 // indirect
	github.com/vmihailenco/tagparser v0.1.1 // indirect
	golang.org/x/crypto v0.32.0 // indirect
	golang.org/x/sys v0.29.0 // indirect
	gopkg.in/natefinch/lumberjack.v2 v2.2.1 // indirect
)

replace github.com/icon-project/goloop => /repo
