package hblock

// C07: A block is accepted by import only if its height is its parent's plus one, it names its
// parent's id, its version is the one the parent's state requires, and (above height 1) its
// timestamp equals the median of its commit vote timestamps and is strictly greater than the
// parent's timestamp. Any single-field deviation in a candidate block causes import to fail.
//
// Set-up: two real nodes (repository test package: real block manager, real transitions, MapDB)
// on one genesis with 1-7 validators. Node A produces, node B imports. A chain of 1-5 heights is
// built (every block proposed by A with commit votes signed by >2/3 of the validators with drawn
// timestamps, imported and finalized by B). Then, on top of the common last block, several
// candidates for the next height (always >= 2, where the timestamp rule applies) are proposed by
// A with fresh vote timestamps, serialized, mutated in 0-2 fields with dependent hashes
// re-derived (so only the intended field deviates), and fed to B's BlockManager.Import.
//
// Oracle (independent of goloop's checks): with P = parent's timestamp, T = candidate header
// timestamp, V = vote timestamps inside the candidate,
//   expected to be accepted  <=>  height, prevID, version fields untouched
//                                 AND parent's state requires version 2 (the only version A can produce)
//                                 AND T == refMedian(V)  (own sort; odd: middle; even: floor((a+b)/2))
//                                 AND T > P.
// "accepted although not expected" breaks the only-if clause / the single-deviation clause;
// "rejected although expected" is reported too (DESIGN's oracle is an equivalence; an importer that
// computes another median or refuses valid blocks deviates from the stated rule as well).
// Not decided here (other properties): validity of vote signatures and 2/3 quorum (C05) — all
// vote lists generated here are validly signed by enough validators; timestamps are non-negative
// and far below 2^62 so floor/truncation and overflow do not differ; height-1 blocks (no
// timestamp rule) only occur as chain blocks.

import (
	"bytes"
	"fmt"
	"sort"
	"strings"
	"testing"

	"github.com/icon-project/goloop/common/crypto"
	"github.com/icon-project/goloop/consensus"
	"github.com/icon-project/goloop/module"
	"github.com/icon-project/goloop/test"
	"pgregory.net/rapid"

	"verifharness/internal/ev"
)

func c07RefMedian(ts []int64) int64 {
	s := append([]int64{}, ts...)
	sort.Slice(s, func(i, j int) bool { return s[i] < s[j] })
	n := len(s)
	if n == 0 {
		return 0
	}
	if n%2 == 1 {
		return s[n/2]
	}
	a, b := s[n/2-1], s[n/2]
	// floor((a+b)/2) for a,b >= 0 without overflow
	return a + (b-a)/2
}

// c07DrawTS draws k non-negative vote timestamps whose reference median is exactly m, biased to
// equal values and to the even-count rounding boundary. Returned in signer order (shuffled).
func c07DrawTS(rt *rapid.T, k int, m int64) (ts []int64, evenOddSum bool) {
	spread := func(label string) int64 {
		switch rapid.IntRange(0, 3).Draw(rt, label+".c") {
		case 0:
			return 0
		case 1:
			return 1
		case 2:
			return int64(rapid.IntRange(0, 20).Draw(rt, label))
		default:
			return int64(rapid.IntRange(0, 100000).Draw(rt, label))
		}
	}
	sorted := make([]int64, k)
	lo, hi := k/2, k/2 // indexes of the middle element(s)
	if k%2 == 1 {
		sorted[k/2] = m
	} else {
		lo = k/2 - 1
		a, b := m, m
		var pairs []string
		pairs = append(pairs, "m,m", "m,m+1")
		if m >= 1 {
			pairs = append(pairs, "m-1,m+1", "m-1,m+2")
		}
		switch rapid.SampledFrom(pairs).Draw(rt, "midPair") {
		case "m,m+1":
			b = m + 1
		case "m-1,m+1":
			a, b = m-1, m+1
		case "m-1,m+2":
			a, b = m-1, m+2
		}
		sorted[lo], sorted[hi] = a, b
		evenOddSum = (a+b)%2 != 0
	}
	for i := lo - 1; i >= 0; i-- {
		v := sorted[i+1] - spread("below")
		if v < 0 {
			v = 0
		}
		sorted[i] = v
	}
	for i := hi + 1; i < k; i++ {
		sorted[i] = sorted[i-1] + spread("above")
	}
	if got := c07RefMedian(sorted); got != m {
		panic(fmt.Sprintf("harness bug: drew %v for median %d, reference says %d", sorted, m, got))
	}
	perm := rapid.Permutation(hbRange(k)).Draw(rt, "tsOrder")
	ts = make([]int64, k)
	for i, p := range perm {
		ts[i] = sorted[p]
	}
	return ts, evenOddSum
}

func c07DrawSigners(rt *rapid.T, nv int) []int {
	min := nv*2/3 + 1
	k := rapid.IntRange(min, nv).Draw(rt, "nSigners")
	perm := rapid.Permutation(hbRange(nv)).Draw(rt, "signerOrder")
	return perm[:k]
}

// c07DrawMedian draws the target median relative to the parent's timestamp p.
func c07DrawMedian(rt *rapid.T, p int64, validOnly bool) (int64, string) {
	classes := []string{"P+1", "P+1", "P+2", "P+small", "P+big"}
	if !validOnly {
		classes = append(classes, "P", "P", "P")
		if p >= 1 {
			classes = append(classes, "P-1", "P-1")
		}
		if p >= 2 {
			classes = append(classes, "belowP")
		}
	}
	switch c := rapid.SampledFrom(classes).Draw(rt, "medianClass"); c {
	case "P-1":
		return p - 1, c
	case "P":
		return p, c
	case "P+1":
		return p + 1, c
	case "P+2":
		return p + 2, c
	case "P+small":
		return p + int64(rapid.IntRange(3, 50).Draw(rt, "d")), c
	case "belowP":
		return int64(rapid.Int64Range(0, p-2).Draw(rt, "m")), c
	default:
		return p + int64(rapid.IntRange(51, 500000).Draw(rt, "d")), c
	}
}

type c07World struct {
	W      *hbWorld
	A, B   *test.Node
	NV     int
	VerReq int // 0: chain never sets the next block version; else value set by a transaction
	Desc   []string
}

func (w *c07World) votes(parent module.Block, signers []int, ts []int64, round int32) module.CommitVoteSet {
	v, err := w.W.Votes(w.A, parent, signers, ts, round)
	if err != nil {
		ev.Inconclusive("C07: building votes: %v", err)
	}
	return v
}

// propose lets A propose on its last block and returns the candidate and its serialization.
func (w *c07World) propose(votes module.CommitVoteSet) (module.BlockCandidate, []byte) {
	bc, err := hbPropose(w.A, votes)
	if err != nil || bc == nil {
		ev.Inconclusive("C07: proposer node could not propose: %v", err)
	}
	return bc, hbMarshal(bc)
}

func c07Short(b []byte) string {
	if len(b) > 4 {
		b = b[:4]
	}
	return fmt.Sprintf("%x", b)
}

func TestC07(t *testing.T) {
	rec := ev.New("C07", "two real nodes on a genesis with 1-7 validators; a chain of 1-5 heights built by A and imported by B (each import is a case), then 8 candidates for the next height (>=2): "+
		"commit votes by a random >2/3 subset with timestamps drawn around the parent's timestamp P (median P-1, P, P+1, P+2, far; odd/even counts; equal values; even pairs with odd sum), 0-2 header/body fields mutated "+
		"(height+-1, prevID bit/random/short/sibling, version 0/1/3, timestamp+-1, votes replaced by another valid list, vote items reordered), optionally the parent's state requiring block version 2 or 3; fed to B's Import. "+
		"Non-trivial = exactly one deviation from the rule (one mutated field, or timestamp != median, or timestamp <= P, or state requires another version), or no deviation with the median on a boundary (P+1, or even count with odd middle sum). "+
		"Distinct by (validators, chain timestamps, vote timestamps, mutations)")
	defer rec.Flush(t)

	ev.Check(t, 150, 4000, func(rt *rapid.T) {
		nv := rapid.IntRange(1, 7).Draw(rt, "nv")
		H := rapid.IntRange(1, 5).Draw(rt, "heights")
		verReq := 0
		if H >= 2 {
			verReq = rapid.SampledFrom([]int{0, 0, 0, 0, 0, 0, 2, 3}).Draw(rt, "verReq")
		}
		hw := hbNewWorld(nv)
		defer hw.Close()
		w := &c07World{W: hw, NV: nv, VerReq: verReq}
		w.A = hw.NewNode(0)
		w.B = hw.NewNode(1000)
		chainDesc := fmt.Sprintf("nv=%d H=%d verReq=%d", nv, H, verReq)

		// ---- chain phase: valid blocks only, B must accept each ----
		var votes module.CommitVoteSet = consensus.NewEmptyCommitVoteList()
		var lastTS []int64
		for h := 1; h <= H; h++ {
			parent := hbLast(w.A)
			boundary := false
			vdesc := "novotes"
			if h >= 2 {
				signers := c07DrawSigners(rt, nv)
				m, class := c07DrawMedian(rt, parent.Timestamp(), true)
				ts, eo := c07DrawTS(rt, len(signers), m)
				votes = w.votes(parent, signers, ts, int32(rapid.IntRange(0, 2).Draw(rt, "round")))
				lastTS = ts
				boundary = class == "P+1" || eo
				vdesc = fmt.Sprintf("sig=%v ts=%v(%s)", signers, ts, class)
			}
			ntx := rapid.IntRange(0, 2).Draw(rt, "ntx")
			for j := 0; j < ntx; j++ {
				pl := fmt.Sprintf("c07-%d-%d", h, j)
				if err := hbSend(w.A, test.NewTx().SetTimestamp(parent.Timestamp()).SetVarTest(&pl)); err != nil {
					ev.Inconclusive("C07: send: %v", err)
				}
			}
			if verReq != 0 && h == H-1 {
				v := int32(verReq)
				if err := hbSend(w.A, test.NewTx().SetTimestamp(parent.Timestamp()).SetNextBlockVersion(&v)); err != nil {
					ev.Inconclusive("C07: send: %v", err)
				}
			}
			bc, enc := w.propose(votes)
			if h >= 2 && bc.Timestamp() != c07RefMedian(lastTS) {
				// proposer stamps the block with its own idea of the median: keep going, B decides
				vdesc += fmt.Sprintf(" proposerTS=%d", bc.Timestamp())
			}
			expect := h < 2 || (bc.Timestamp() == c07RefMedian(lastTS) && bc.Timestamp() > parent.Timestamp())
			imp, via := hbImport, "Import"
			if rapid.IntRange(0, 2).Draw(rt, "viaImportBlock") == 0 {
				imp, via = hbImportBlock, "ImportBlock"
			}
			bc2, ierr := imp(w.B, enc)
			desc := fmt.Sprintf("%s chain h=%d P=%d %s tx=%d via=%s", chainDesc, h, parent.Timestamp(), vdesc, ntx, via)
			rec.Case(desc, h >= 2 && boundary, "chain-block", fmt.Sprintf("chain-h%d", h), "via-"+via)
			if (ierr == nil) != expect {
				if ierr != nil {
					rt.Fatalf("C07 violated: valid block rejected by import (%v): %s; block %x", ierr, desc, enc)
				}
				rt.Fatalf("C07 violated: block accepted although its timestamp %d is not the median %d of its vote timestamps %v greater than parent's %d: %s; block %x",
					bc.Timestamp(), c07RefMedian(lastTS), lastTS, parent.Timestamp(), desc, enc)
			}
			if ierr != nil {
				// (only reachable when the proposer itself deviates) cannot extend the chain any further
				bc.Dispose()
				return
			}
			if err := w.A.BM.Finalize(bc); err != nil {
				ev.Inconclusive("C07: finalize on A: %v", err)
			}
			if err := w.B.BM.Finalize(bc2); err != nil {
				ev.Inconclusive("C07: finalize on B: %v", err)
			}
			bc.Dispose()
			bc2.Dispose()
			w.Desc = append(w.Desc, fmt.Sprintf("%d", hbLast(w.A).Timestamp()))
		}
		chainDesc += " ts=" + strings.Join(w.Desc, ",")

		// ---- candidate phase ----
		parent := hbLast(w.A)
		if !bytes.Equal(parent.ID(), hbLast(w.B).ID()) {
			ev.Inconclusive("C07: nodes diverged")
		}
		P := parent.Timestamp()
		verOK := verReq == 0 || verReq == module.BlockVersion2
		var sibling []byte // id of a valid candidate B holds un-finalized
		var keep []module.BlockCandidate
		defer func() {
			for _, k := range keep {
				k.Dispose()
			}
		}()
		for c := 0; c < 8; c++ {
			signers := c07DrawSigners(rt, nv)
			m, class := c07DrawMedian(rt, P, false)
			ts, eo := c07DrawTS(rt, len(signers), m)
			round := int32(rapid.IntRange(0, 2).Draw(rt, "round"))
			bc, enc := w.propose(w.votes(parent, signers, ts, round))
			hf, bf, err := hbFormats(enc)
			if err != nil {
				ev.Inconclusive("C07: cannot split proposed block: %v", err)
			}
			inTS := ts // vote timestamps inside the candidate as sent
			var muts []string
			fieldDev := 0
			nMut := rapid.SampledFrom([]int{0, 0, 1, 1, 1, 1, 2}).Draw(rt, "nMut")
			used := map[string]bool{}
			for i := 0; i < nMut; i++ {
				kinds := []string{"ts+1", "ts-1", "votesOther", "height+1", "height-1", "prevFlip", "ver3", "ver1", "prevRandom", "votesReorder", "prevShort", "ver0"}
				if sibling != nil {
					kinds = append(kinds, "prevSibling")
				}
				k := rapid.SampledFrom(kinds).Draw(rt, "mut")
				group := k[:3]
				if used[group] {
					continue
				}
				used[group] = true
				switch k {
				case "height+1":
					hf.Height++
					fieldDev++
				case "height-1":
					hf.Height--
					fieldDev++
				case "prevFlip":
					id := append([]byte{}, hf.PrevID...)
					bit := rapid.IntRange(0, len(id)*8-1).Draw(rt, "bit")
					id[bit/8] ^= 1 << uint(bit%8)
					hf.PrevID = id
					fieldDev++
				case "prevRandom":
					hf.PrevID = crypto.SHA3Sum256([]byte(fmt.Sprintf("random-%d", rapid.IntRange(0, 1000).Draw(rt, "r"))))
					fieldDev++
				case "prevShort":
					hf.PrevID = append([]byte{}, hf.PrevID[:len(hf.PrevID)-1]...)
					fieldDev++
				case "prevSibling":
					hf.PrevID = sibling
					fieldDev++
				case "ver0", "ver1", "ver3":
					hf.Version = int(k[3] - '0')
					fieldDev++
				case "ts+1":
					hf.Timestamp++
				case "ts-1":
					hf.Timestamp--
				case "votesOther":
					s2 := c07DrawSigners(rt, nv)
					m2, class2 := c07DrawMedian(rt, P, false)
					ts2, _ := c07DrawTS(rt, len(s2), m2)
					v2 := w.votes(parent, s2, ts2, round)
					bf.Votes = v2.Bytes()
					hf.VotesHash = crypto.SHA3Sum256(bf.Votes)
					inTS = ts2
					k = fmt.Sprintf("votesOther{sig=%v ts=%v(%s)}", s2, ts2, class2)
				case "votesReorder":
					cvl, _ := consensus.NewCommitVoteSetFromBytes(bf.Votes).(*consensus.CommitVoteList)
					if cvl == nil || len(cvl.Items) != len(inTS) {
						ev.Inconclusive("C07: cannot re-read proposed votes")
					}
					perm := rapid.Permutation(hbRange(len(cvl.Items))).Draw(rt, "itemOrder")
					n := &consensus.CommitVoteList{}
					n.Round, n.BlockPartSetIDAndAppData, n.NTSDProves = cvl.Round, cvl.BlockPartSetIDAndAppData, cvl.NTSDProves
					nts := make([]int64, len(perm))
					for i, p := range perm {
						n.Items = append(n.Items, cvl.Items[p])
						nts[i] = cvl.Items[p].Timestamp
					}
					// the items carry the timestamps: the multiset is unchanged
					if c07RefMedian(nts) != c07RefMedian(inTS) {
						ev.Inconclusive("C07: harness bug in votesReorder")
					}
					bf.Votes = n.Bytes()
					hf.VotesHash = crypto.SHA3Sum256(bf.Votes)
				}
				muts = append(muts, k)
			}
			in := enc
			if len(muts) > 0 {
				in = hbEncode(hf, bf)
			}
			T := hf.Timestamp
			med := c07RefMedian(inTS)
			devs := fieldDev
			if !verOK {
				devs++
			}
			if T != med {
				devs++
			}
			if T <= P {
				devs++
			}
			expect := devs == 0
			imp, via := hbImport, "Import"
			if rapid.IntRange(0, 2).Draw(rt, "candViaImportBlock") == 0 {
				imp, via = hbImportBlock, "ImportBlock"
			}
			bc2, ierr := imp(w.B, in)
			accepted := ierr == nil

			labels := []string{"candidate", "cand-via-" + via, "median-" + class, fmt.Sprintf("signers-%s", map[bool]string{true: "even", false: "odd"}[len(inTS)%2 == 0])}
			for _, mu := range muts {
				labels = append(labels, "mut-"+strings.SplitN(mu, "{", 2)[0])
			}
			if len(muts) == 0 {
				labels = append(labels, "mut-none")
			}
			if !verOK {
				labels = append(labels, "state-requires-v3")
			} else if verReq == 2 {
				labels = append(labels, "state-requires-v2-explicit")
			}
			if T != med {
				labels = append(labels, "ts-not-median")
			}
			if T <= P {
				labels = append(labels, "ts-not-above-parent")
			}
			if T == P {
				labels = append(labels, "ts-equals-parent")
			}
			if expect {
				labels = append(labels, "expect-accept")
			} else {
				labels = append(labels, "expect-reject", fmt.Sprintf("deviations-%d", devs))
			}
			nontrivial := devs == 1 || (devs == 0 && (T == P+1 || (len(inTS)%2 == 0 && eo && len(muts) == 0)))
			desc := fmt.Sprintf("%s cand P=%d sig=%v ts=%v(%s) round=%d muts=%v T=%d via=%s", chainDesc, P, signers, ts, class, round, muts, T, via)
			rec.Case(desc, nontrivial, labels...)

			if accepted != expect {
				why := fmt.Sprintf("height=%d (parent %d) prevID=%s (parent %s) version=%d (state requires %d) timestamp=%d refMedian=%d of %v parentTimestamp=%d mutations=%v",
					hf.Height, parent.Height(), c07Short(hf.PrevID), c07Short(parent.ID()), hf.Version, map[bool]int{true: 2, false: verReq}[verOK], T, med, inTS, P, muts)
				if accepted {
					rt.Fatalf("C07 violated: import accepted a block it must reject: %s; chain %s; block %x", why, chainDesc, in)
				}
				rt.Fatalf("C07 violated: import rejected (%v) a block that satisfies the rule: %s; chain %s; block %x", ierr, why, chainDesc, in)
			}
			if accepted {
				if sibling == nil && len(muts) == 0 {
					sibling = append([]byte{}, bc2.ID()...)
					keep = append(keep, bc2) // stays in B's tree as an un-finalized sibling
				} else {
					bc2.Dispose()
				}
			}
			bc.Dispose()
		}
	})
}
