package hblock

// C08: Any block serialized by a node decodes back to a block with the same id and contents,
// and decoding arbitrary bytes never crashes the node. A decoded block's transactions, votes,
// and BTP digest always match the hashes committed in its header, so a body cannot be swapped
// under a header.
//
// Observed at module.BlockDataFactory.NewBlockDataFromReader (block.NewBlockDataFactory) of a
// node that does not hold the chain (what a peer receiving the bytes has).
//
// Oracle for an input `in` (c08Judge):
//   * the call returns (a panic on the calling goroutine is a violation);
//   * if it returns a block, then with H = the header the same codec reads from the front of `in`
//       sha3-256(decoded votes bytes)                      == H.VotesHash
//       list-hash(decoded normal transactions, rebuilt from their bytes in a fresh DB)
//                                                        == H.NormalTransactionsHash
//       list-hash(decoded patch transactions, idem)        == H.PatchTransactionsHash
//       sha3-256(decoded BTP digest bytes) (nil for empty) == BTP digest hash field of H.Result
//     H must be taken from the input and not from the decoded object: blockV2 recomputes the
//     header hashes from the body it holds, so MarshalHeader of an object with a swapped body
//     shows hashes that match trivially.
//   * for a valid block (round trip) additionally: no error, same id (independently
//     sha3-256(header bytes)), height, prev id, timestamp, proposer, result, next validators hash,
//     logs bloom, transaction bytes in order, votes bytes, digest bytes, and re-marshalling the
//     decoded block gives the identical byte string.
// Trusted base: goloop's transaction list hash function (Merkle Patricia trie over index→tx bytes)
// and codec are used to *recompute* from decoded content; sha3 and the comparison are the harness's.

import (
	"bytes"
	"encoding/hex"
	"flag"
	"fmt"
	"os"
	"runtime"
	"sort"
	"strings"
	"sync"
	"testing"
	"time"

	"github.com/icon-project/goloop/block"
	"github.com/icon-project/goloop/common/codec"
	"github.com/icon-project/goloop/common/crypto"
	"github.com/icon-project/goloop/common/db"
	"github.com/icon-project/goloop/consensus"
	"github.com/icon-project/goloop/module"
	"github.com/icon-project/goloop/service/transaction"
	"github.com/icon-project/goloop/test"
	"pgregory.net/rapid"

	"verifharness/internal/ev"
	"verifharness/internal/gen"
)

// ---- plan (everything random is drawn into the plan; building is deterministic) ----

type c08BlockPlan struct {
	Payloads []string // one plain test transaction per payload (varTest value)
	BTPMsgs  []string // hex messages sent over the BTP network (only in btp worlds, height>=2)
	Signers  []int    // validators signing the commit votes FOR this block (carried by the next)
	TSOff    []int64  // their timestamp offsets
	// Patches > 0: a second rendering of this block is built by the node's block handler with that many patch
	// transactions (the skip-transaction patch consensus proposes after the round limit) and joins the pool
	Patches int
}

type c08Plan struct {
	NV     int
	BTP    bool
	Blocks []c08BlockPlan // heights 1..n; one more block is built to carry the last votes
}

func (p *c08Plan) String() string {
	var sb strings.Builder
	fmt.Fprintf(&sb, "nv=%d btp=%v", p.NV, p.BTP)
	for i, b := range p.Blocks {
		h := crypto.SHA3Sum256([]byte(strings.Join(b.Payloads, "|") + "#" + strings.Join(b.BTPMsgs, "|")))
		fmt.Fprintf(&sb, " h%d{tx=%d btpmsg=%d patches=%d sig=%v off=%v c=%x}", i+1, len(b.Payloads), len(b.BTPMsgs), b.Patches, b.Signers, b.TSOff, h[:4])
	}
	return sb.String()
}

func c08DrawSigners(rt *rapid.T, nv int) ([]int, []int64) {
	// more than 2/3 of nv, random subset in random order
	min := nv*2/3 + 1
	k := rapid.IntRange(min, nv).Draw(rt, "nSigners")
	perm := rapid.Permutation(hbRange(nv)).Draw(rt, "signerOrder")
	s := perm[:k]
	off := make([]int64, k)
	for i := range off {
		off[i] = int64(rapid.IntRange(0, 50).Draw(rt, "tsOff"))
	}
	return s, off
}

func c08DrawPlan(rt *rapid.T, maxTx int) *c08Plan {
	p := &c08Plan{}
	p.NV = rapid.IntRange(1, 4).Draw(rt, "nv")
	p.BTP = rapid.Bool().Draw(rt, "btp")
	n := rapid.IntRange(2, 4).Draw(rt, "blocks")
	for i := 0; i < n; i++ {
		var b c08BlockPlan
		ntx := 0
		switch rapid.IntRange(0, 3).Draw(rt, "txClass") {
		case 0:
			ntx = 0
		case 1:
			ntx = rapid.IntRange(1, 3).Draw(rt, "ntx")
		default:
			ntx = rapid.IntRange(1, maxTx).Draw(rt, "ntx")
		}
		for j := 0; j < ntx; j++ {
			pl := gen.Bytes(rt, "payload", 200)
			b.Payloads = append(b.Payloads, fmt.Sprintf("%d.%d.%x", i, j, pl))
		}
		if p.BTP && i >= 1 {
			nm := rapid.IntRange(0, 2).Draw(rt, "nBtpMsg")
			for j := 0; j < nm; j++ {
				b.BTPMsgs = append(b.BTPMsgs, hex.EncodeToString(append([]byte{byte(i), byte(j)}, gen.Bytes(rt, "btpmsg", 40)...)))
			}
		}
		b.Signers, b.TSOff = c08DrawSigners(rt, p.NV)
		if rapid.IntRange(0, 2).Draw(rt, "withPatches") == 0 {
			b.Patches = rapid.IntRange(1, 3).Draw(rt, "nPatches")
		}
		p.Blocks = append(p.Blocks, b)
	}
	return p
}

// ---- built world ----

type c08Blk struct {
	Blk    module.Block
	HF     *block.V2HeaderFormat
	BF     *block.V2BodyFormat
	Enc    []byte // header||body as the node serializes it
	HdrLen int
	NTx    int
	NVotes int
	HasBTP bool
	NPatch int
	// ids of the patch transactions as the transactions themselves report them before serialization (a v3
	// transaction's id is the hash of its canonical field serialization, not of its stored bytes)
	PatchIDs [][]byte
}

type c08SkipPatch struct{ h int64 }

func (c08SkipPatch) Type() string   { return module.PatchTypeSkipTransaction }
func (p c08SkipPatch) Data() []byte { return []byte(fmt.Sprintf(`{"height":"0x%x"}`, p.h)) }

type c08World struct {
	W    *hbWorld
	A    *test.Node
	BDF  module.BlockDataFactory
	Blks []*c08Blk
}

func (w *c08World) Close() { w.W.Close() }

// c08Build builds the planned chain on a producer node and a decoder on a second, empty node.
// Any failure here is a harness problem (the plan only asks for valid operations).
func c08Build(p *c08Plan) *c08World {
	hw := hbNewWorld(p.NV)
	w := &c08World{W: hw}
	w.A = hw.NewNode(0)
	d := hw.NewNode(1000)
	bdf, err := block.NewBlockDataFactory(d.Chain, nil)
	if err != nil {
		ev.Inconclusive("C08: NewBlockDataFactory: %v", err)
	}
	w.BDF = bdf
	var votes module.CommitVoteSet = consensus.NewEmptyCommitVoteList()
	n := len(p.Blocks)
	for h := 1; h <= n+1; h++ {
		last := hbLast(w.A)
		if h <= n {
			bp := p.Blocks[h-1]
			if p.BTP && h == 1 {
				if err := hbSend(w.A, hw.BTPSetupTx(last.Timestamp())); err != nil {
					ev.Inconclusive("C08: send: %v", err)
				}
			}
			for _, m := range bp.BTPMsgs {
				mb, _ := hex.DecodeString(m)
				if err := hbSend(w.A, hw.BTPMessageTx(last.Timestamp(), mb)); err != nil {
					ev.Inconclusive("C08: send: %v", err)
				}
			}
			for _, pl := range bp.Payloads {
				pl := pl
				if err := hbSend(w.A, test.NewTx().SetTimestamp(last.Timestamp()).SetVarTest(&pl)); err != nil {
					ev.Inconclusive("C08: send: %v", err)
				}
			}
		}
		bc, err := hbPropose(w.A, votes)
		if err != nil {
			ev.Inconclusive("C08: propose h=%d plan=%s: %v", h, p, err)
		}
		if err := w.A.BM.Finalize(bc); err != nil {
			ev.Inconclusive("C08: finalize h=%d: %v", h, err)
		}
		bc.Dispose()
		blk := hbLast(w.A)
		hf, bf, err := block.FormatFromBlock(blk)
		if err != nil {
			ev.Inconclusive("C08: FormatFromBlock: %v", err)
		}
		var hb bytes.Buffer
		if err := blk.MarshalHeader(&hb); err != nil {
			ev.Inconclusive("C08: MarshalHeader: %v", err)
		}
		w.Blks = append(w.Blks, &c08Blk{
			Blk: blk, HF: hf, BF: bf, Enc: hbMarshal(blk), HdrLen: hb.Len(),
			NTx:    len(bf.NormalTransactions),
			NVotes: c08VoteCount(bf.Votes),
			HasBTP: len(bf.BTPDigest) > 0,
		})
		if h <= n && p.Blocks[h-1].Patches > 0 {
			// the same block as the node's block handler builds it when the proposal carries patch transactions
			var ptxs []module.Transaction
			var pids [][]byte
			for i := 0; i < p.Blocks[h-1].Patches; i++ {
				ptx, err := transaction.NewPatchTransaction(c08SkipPatch{int64(h + i)}, w.A.Chain.NID(), blk.Timestamp()+int64(i), w.A.Chain.Wallet())
				if err != nil {
					ev.Inconclusive("C08: NewPatchTransaction: %v", err)
				}
				ptxs = append(ptxs, ptx)
				pids = append(pids, append([]byte{}, ptx.ID()...))
			}
			patches := transaction.NewTransactionListFromSlice(w.A.Chain.Database(), ptxs)
			bs, err := blk.BTPSection()
			if err != nil {
				ev.Inconclusive("C08: BTPSection: %v", err)
			}
			pb := block.NewBlockV2Handler(w.A.Chain).NewBlock(blk.Height(), blk.Timestamp(), blk.Proposer(), last, blk.LogsBloom(), blk.Result(),
				patches, blk.NormalTransactions(), blk.NextValidators(), blk.Votes(), bs)
			phf, pbf, err := block.FormatFromBlock(pb)
			if err != nil {
				ev.Inconclusive("C08: FormatFromBlock(patched): %v", err)
			}
			var phb bytes.Buffer
			if err := pb.MarshalHeader(&phb); err != nil {
				ev.Inconclusive("C08: MarshalHeader(patched): %v", err)
			}
			w.Blks = append(w.Blks, &c08Blk{
				Blk: pb, HF: phf, BF: pbf, Enc: hbMarshal(pb), HdrLen: phb.Len(),
				NTx:    len(pbf.NormalTransactions),
				NVotes: c08VoteCount(pbf.Votes),
				HasBTP: len(pbf.BTPDigest) > 0,
				NPatch: len(pbf.PatchTransactions), PatchIDs: pids,
			})
		}
		if h <= n {
			bp := p.Blocks[h-1]
			ts := make([]int64, len(bp.Signers))
			for i := range ts {
				ts[i] = int64(h)*1000 + bp.TSOff[i]
			}
			votes, err = hw.Votes(w.A, blk, bp.Signers, ts, 0)
			if err != nil {
				ev.Inconclusive("C08: votes h=%d: %v", h, err)
			}
		}
	}
	return w
}

func c08VoteCount(bs []byte) int {
	cvl, _ := consensus.NewCommitVoteSetFromBytes(bs).(*consensus.CommitVoteList)
	if cvl == nil {
		return 0
	}
	return len(cvl.Items)
}

// ---- oracle ----

func c08TxBytes(l module.TransactionList) ([][]byte, error) {
	var out [][]byte
	if l == nil {
		return nil, fmt.Errorf("nil transaction list")
	}
	for it := l.Iterator(); it.Has(); {
		tx, _, err := it.Get()
		if err != nil {
			return nil, err
		}
		out = append(out, append([]byte{}, tx.Bytes()...))
		if err := it.Next(); err != nil {
			return nil, err
		}
	}
	return out, nil
}

// c08ListHash rebuilds a transaction list from raw transaction bytes in a fresh database and
// returns its hash.
func c08ListHash(bss [][]byte) ([]byte, error) {
	txs := make([]module.Transaction, len(bss))
	for i, bs := range bss {
		tx, err := transaction.NewTransaction(bs)
		if err != nil {
			return nil, err
		}
		txs[i] = tx
	}
	return transaction.NewTransactionListFromSlice(db.NewMapDB(), txs).Hash(), nil
}

// c08ResultBTPHash reads the BTP digest hash out of a block result
// (list: stateHash, patchReceiptsHash, normalReceiptsHash [, extensionData [, flags [, btpDigestHash]]]).
func c08ResultBTPHash(result []byte) ([]byte, bool) {
	if len(result) == 0 {
		return nil, true
	}
	d := codec.BC.NewDecoder(bytes.NewReader(result))
	d2, err := d.DecodeList()
	if err != nil {
		return nil, false
	}
	var a, b, c, ext []byte
	var flags int64
	n, err := d2.DecodeMulti(&a, &b, &c, &ext, &flags)
	if err != nil {
		return nil, n >= 3
	}
	if flags&1 == 0 {
		return nil, true
	}
	var h []byte
	if err := d2.Decode(&h); err != nil {
		return nil, false
	}
	return h, true
}

func c08Sha3OrNil(bs []byte) []byte {
	if len(bs) == 0 {
		return nil
	}
	return crypto.SHA3Sum256(bs)
}

// ---- bounded execution of the decoder ----
//
// "Never crashes" includes not running away: a decoder that loops forever while allocating takes
// the node down as surely as a panic. Such a call can neither be interrupted nor recovered from
// inside the process, so the decoder runs on its own goroutine and a watchdog judges it by a
// load-independent quantity: if the call has not returned and the process has allocated more
// than c08RunawayBytes since the watchdog woke up (inputs are a few KB; a legitimate decode
// allocates a few hundred KB), it is a runaway. Wall-clock alone never yields a violation: a
// call that merely does not return within c08GiveUp is reported as inconclusive.
// After a runaway the process is poisoned (the goroutine keeps eating memory): the same input
// is answered from the recorded verdict (so rapid can confirm and write its fail file), any
// other input is not executed any more, and the remaining sub-checks abort.

const c08RunawayBytes = 1 << 30

var c08GiveUp = func() time.Duration {
	if d, err := time.ParseDuration(os.Getenv("VERIF_C08_GIVEUP")); err == nil && d > 0 {
		return d
	}
	return 180 * time.Second
}()

var c08ErrPoisoned = fmt.Errorf("not executed: an earlier decoder call ran away")

var c08Poison struct {
	mu  sync.Mutex
	set bool
	in  []byte
	msg string
}

func c08Poisoned() bool {
	c08Poison.mu.Lock()
	defer c08Poison.mu.Unlock()
	return c08Poison.set
}

type c08DecRes struct {
	bd  module.BlockData
	err error
	pan interface{}
}

func c08Decode(bdf module.BlockDataFactory, in []byte) (module.BlockData, error, string) {
	c08Poison.mu.Lock()
	if c08Poison.set {
		same := bytes.Equal(in, c08Poison.in)
		msg := c08Poison.msg
		c08Poison.mu.Unlock()
		if same {
			return nil, nil, msg
		}
		return nil, c08ErrPoisoned, ""
	}
	c08Poison.mu.Unlock()
	ch := make(chan c08DecRes, 1)
	go func() {
		var r c08DecRes
		defer func() {
			if p := recover(); p != nil {
				r.pan = p
			}
			ch <- r
		}()
		r.bd, r.err = bdf.NewBlockDataFromReader(bytes.NewReader(in))
	}()
	fin := func(r c08DecRes) (module.BlockData, error, string) {
		if r.pan != nil {
			panic(r.pan) // re-raise on the caller's goroutine (c08Judge turns it into a violation)
		}
		return r.bd, r.err, ""
	}
	first := time.NewTimer(500 * time.Millisecond)
	defer first.Stop()
	select {
	case r := <-ch:
		return fin(r)
	case <-first.C:
	}
	var ms runtime.MemStats
	runtime.ReadMemStats(&ms)
	base := ms.TotalAlloc
	start := time.Now()
	for {
		select {
		case r := <-ch:
			return fin(r)
		case <-time.After(100 * time.Millisecond):
		}
		runtime.ReadMemStats(&ms)
		if ms.TotalAlloc-base > c08RunawayBytes {
			msg := fmt.Sprintf("decoder does not return and keeps allocating (>%d MiB so far) on %d bytes %x", c08RunawayBytes>>20, len(in), in)
			c08Poison.mu.Lock()
			c08Poison.set, c08Poison.in, c08Poison.msg = true, append([]byte{}, in...), msg
			c08Poison.mu.Unlock()
			// the runaway goroutine cannot be stopped: keep rapid's minimisation short
			_ = flag.Set("rapid.shrinktime", "1s")
			return nil, nil, msg
		}
		if time.Since(start) > c08GiveUp {
			ev.Inconclusive("C08: decoder call did not return within %v (no runaway allocation seen) on input %x", c08GiveUp, in)
		}
	}
}

// c08Judge returns (outcome, decoded, violation). outcome: "rejected", "accepted".
func c08Judge(bdf module.BlockDataFactory, in []byte) (outcome string, bd module.BlockData, viol string) {
	defer func() {
		if r := recover(); r != nil {
			outcome, viol = "panic", fmt.Sprintf("decoder panicked on %d bytes %x: %v", len(in), in, r)
		}
	}()
	bd, err, runaway := c08Decode(bdf, in)
	if runaway != "" {
		return "runaway", nil, runaway
	}
	if err == c08ErrPoisoned {
		return "skipped-after-runaway", nil, ""
	}
	if err != nil {
		return "rejected", nil, ""
	}
	if bd == nil {
		return "accepted", nil, fmt.Sprintf("decoder returned neither block nor error for %x", in)
	}
	r := bytes.NewReader(in)
	var hf block.V2HeaderFormat
	if err := codec.BC.Unmarshal(r, &hf); err != nil {
		// cannot happen with the same codec; nothing to compare against, no verdict
		return "accepted-header-unreadable", bd, ""
	}
	// votes
	if bd.Votes() == nil {
		return "accepted", bd, fmt.Sprintf("decoded block has nil votes, input %x", in)
	}
	if got := crypto.SHA3Sum256(bd.Votes().Bytes()); !bytes.Equal(got, hf.VotesHash) {
		return "accepted", bd, fmt.Sprintf("decoded votes hash %x != header VotesHash %x, input %x", got, hf.VotesHash, in)
	}
	// transactions
	for _, g := range []struct {
		name string
		l    module.TransactionList
		want []byte
	}{
		{"normal", bd.NormalTransactions(), hf.NormalTransactionsHash},
		{"patch", bd.PatchTransactions(), hf.PatchTransactionsHash},
	} {
		bss, err := c08TxBytes(g.l)
		if err != nil {
			return "accepted", bd, fmt.Sprintf("decoded %s transactions unreadable (%v), input %x", g.name, err, in)
		}
		got, err := c08ListHash(bss)
		if err != nil {
			return "accepted", bd, fmt.Sprintf("decoded %s transactions do not re-parse (%v), input %x", g.name, err, in)
		}
		if !bytes.Equal(got, g.want) {
			return "accepted", bd, fmt.Sprintf("decoded %s transactions (%d) hash %x != header hash %x, input %x", g.name, len(bss), got, g.want, in)
		}
	}
	// BTP digest
	dg, err := bd.BTPDigest()
	if err != nil || dg == nil {
		return "accepted", bd, fmt.Sprintf("decoded block has no BTP digest (%v), input %x", err, in)
	}
	want, ok := c08ResultBTPHash(hf.Result)
	if !ok {
		return "accepted-result-unreadable", bd, ""
	}
	if got := c08Sha3OrNil(dg.Bytes()); !bytes.Equal(got, want) {
		return "accepted", bd, fmt.Sprintf("decoded BTP digest hash %x != digest hash in header result %x, input %x", got, want, in)
	}
	// Whatever bytes it came from, the accepted block is now a block of this node: serialized by the
	// node it must decode back to a block with the same id (and serialize to the same bytes again).
	// This is the round-trip clause applied to blocks that entered through a non-canonical encoding.
	enc2 := hbMarshal(bd)
	bd2, err2, runaway2 := c08Decode(bdf, enc2)
	if runaway2 != "" || err2 == c08ErrPoisoned {
		return "accepted", bd, ""
	}
	if err2 != nil || bd2 == nil {
		return "accepted", bd, fmt.Sprintf("block accepted from input %x does not decode from its own serialization %x: %v", in, enc2, err2)
	}
	if !bytes.Equal(bd2.ID(), bd.ID()) {
		return "accepted", bd, fmt.Sprintf("block accepted from input %x has id %x, but serialized by the node (%x) it decodes to id %x", in, bd.ID(), enc2, bd2.ID())
	}
	if enc3 := hbMarshal(bd2); !bytes.Equal(enc3, enc2) {
		return "accepted", bd, fmt.Sprintf("block accepted from input %x: serialization %x changes to %x after one more round trip", in, enc2, enc3)
	}
	return "accepted", bd, ""
}

func c08Eq(name string, a, b []byte) string {
	if !bytes.Equal(a, b) {
		return fmt.Sprintf("%s differs: %x vs %x", name, a, b)
	}
	return ""
}

// c08RoundTrip checks the valid-block clause for one block.
func c08RoundTrip(bdf module.BlockDataFactory, x *c08Blk) string {
	out, bd, viol := c08Judge(bdf, x.Enc)
	if viol != "" {
		return viol
	}
	if out != "accepted" {
		return fmt.Sprintf("valid block h=%d (%d tx) not decoded (%s): %x", x.Blk.Height(), x.NTx, out, x.Enc)
	}
	blk := x.Blk
	wantID := crypto.SHA3Sum256(x.Enc[:x.HdrLen])
	var msgs []string
	add := func(s string) {
		if s != "" {
			msgs = append(msgs, s)
		}
	}
	add(c08Eq("id vs sha3(header bytes)", bd.ID(), wantID))
	add(c08Eq("id", bd.ID(), blk.ID()))
	if bd.Height() != blk.Height() {
		add(fmt.Sprintf("height %d vs %d", bd.Height(), blk.Height()))
	}
	if bd.Timestamp() != blk.Timestamp() {
		add(fmt.Sprintf("timestamp %d vs %d", bd.Timestamp(), blk.Timestamp()))
	}
	if bd.Version() != blk.Version() {
		add(fmt.Sprintf("version %d vs %d", bd.Version(), blk.Version()))
	}
	add(c08Eq("prevID", bd.PrevID(), blk.PrevID()))
	add(c08Eq("result", bd.Result(), blk.Result()))
	add(c08Eq("nextValidatorsHash", bd.NextValidatorsHash(), blk.NextValidatorsHash()))
	if (bd.Proposer() == nil) != (blk.Proposer() == nil) || (bd.Proposer() != nil && !bd.Proposer().Equal(blk.Proposer())) {
		add(fmt.Sprintf("proposer %v vs %v", bd.Proposer(), blk.Proposer()))
	}
	add(c08Eq("logsBloom", bd.LogsBloom().CompressedBytes(), blk.LogsBloom().CompressedBytes()))
	add(c08Eq("votes", bd.Votes().Bytes(), x.BF.Votes))
	for _, g := range []struct {
		name string
		l    module.TransactionList
		want [][]byte
	}{{"normal", bd.NormalTransactions(), x.BF.NormalTransactions}, {"patch", bd.PatchTransactions(), x.BF.PatchTransactions}} {
		bss, err := c08TxBytes(g.l)
		if err != nil {
			add(fmt.Sprintf("%s txs: %v", g.name, err))
			continue
		}
		if len(bss) != len(g.want) {
			add(fmt.Sprintf("%s tx count %d vs %d", g.name, len(bss), len(g.want)))
			continue
		}
		for i := range bss {
			add(c08Eq(fmt.Sprintf("%s tx %d", g.name, i), bss[i], g.want[i]))
			tx, err := g.l.Get(i)
			if err != nil {
				add(fmt.Sprintf("%s tx %d: %v", g.name, i, err))
			} else if g.name == "patch" && i < len(x.PatchIDs) {
				add(c08Eq(fmt.Sprintf("%s tx id %d", g.name, i), tx.ID(), x.PatchIDs[i]))
			} else {
				add(c08Eq(fmt.Sprintf("%s tx id %d", g.name, i), tx.ID(), crypto.SHA3Sum256(g.want[i])))
			}
		}
	}
	if dg, err := bd.BTPDigest(); err != nil {
		add(fmt.Sprintf("digest: %v", err))
	} else {
		add(c08Eq("btp digest", dg.Bytes(), x.BF.BTPDigest))
	}
	add(c08Eq("re-marshalled bytes", hbMarshal(bd), x.Enc))
	if len(msgs) > 0 {
		return fmt.Sprintf("round trip of valid block h=%d changed it: %s; encoding %x", blk.Height(), strings.Join(msgs, "; "), x.Enc)
	}
	return ""
}

// ---- body swap ----

func c08CopyBody(b *block.V2BodyFormat) *block.V2BodyFormat {
	c := &block.V2BodyFormat{Votes: append([]byte(nil), b.Votes...)}
	if b.BTPDigest != nil {
		c.BTPDigest = append([]byte{}, b.BTPDigest...)
	}
	for _, t := range b.PatchTransactions {
		c.PatchTransactions = append(c.PatchTransactions, append([]byte{}, t...))
	}
	for _, t := range b.NormalTransactions {
		c.NormalTransactions = append(c.NormalTransactions, append([]byte{}, t...))
	}
	return c
}

func c08BodyEq(a, b *block.V2BodyFormat) bool {
	eqL := func(x, y [][]byte) bool {
		if len(x) != len(y) {
			return false
		}
		for i := range x {
			if !bytes.Equal(x[i], y[i]) {
				return false
			}
		}
		return true
	}
	return eqL(a.PatchTransactions, b.PatchTransactions) && eqL(a.NormalTransactions, b.NormalTransactions) &&
		bytes.Equal(a.Votes, b.Votes) && bytes.Equal(a.BTPDigest, b.BTPDigest)
}

var c08Grafts = []string{"normalFromY", "patchFromY", "votesFromY", "btpFromY", "dropTx", "dupTx", "swapTx", "replaceTx", "txToPatch", "votesItemsPermuted", "votesTsEdit", "btpDrop"}

// c08PickBlock prefers blocks that carry transactions (3 of 4 draws) when there are any.
func c08PickBlock(rt *rapid.T, w *c08World, label string) int {
	var withTx []int
	for i, b := range w.Blks {
		if b.NTx > 0 {
			withTx = append(withTx, i)
		}
	}
	if len(withTx) > 0 && rapid.IntRange(0, 3).Draw(rt, label+".withTx") > 0 {
		return rapid.SampledFrom(withTx).Draw(rt, label)
	}
	return rapid.IntRange(0, len(w.Blks)-1).Draw(rt, label)
}

// c08ApplicableGrafts lists the grafts that change the body of x (1 draw in 8: all of them, so
// the "nothing changed, still decodes" branch stays exercised).
func c08ApplicableGrafts(rt *rapid.T, x, y *c08Blk) []string {
	if rapid.IntRange(0, 7).Draw(rt, "anyGraft") == 0 {
		return c08Grafts
	}
	var out []string
	eqL := func(a, b [][]byte) bool {
		return c08BodyEq(&block.V2BodyFormat{NormalTransactions: a}, &block.V2BodyFormat{NormalTransactions: b})
	}
	if !eqL(x.BF.NormalTransactions, y.BF.NormalTransactions) {
		out = append(out, "normalFromY")
	}
	if len(y.BF.NormalTransactions) > 0 {
		out = append(out, "patchFromY")
	}
	if !bytes.Equal(x.BF.Votes, y.BF.Votes) {
		out = append(out, "votesFromY")
	}
	if !bytes.Equal(x.BF.BTPDigest, y.BF.BTPDigest) {
		out = append(out, "btpFromY")
	}
	if len(x.BF.BTPDigest) > 0 {
		out = append(out, "btpDrop")
	}
	if x.NTx > 0 {
		out = append(out, "dropTx", "dupTx", "replaceTx", "txToPatch")
	}
	if x.NTx > 1 {
		out = append(out, "swapTx")
	}
	if x.NVotes > 0 {
		out = append(out, "votesTsEdit")
	}
	if x.NVotes > 1 {
		out = append(out, "votesItemsPermuted")
	}
	if len(out) == 0 {
		return c08Grafts
	}
	return out
}

// c08Graft returns the body of x with one component changed, and whether it really differs.
func c08Graft(rt *rapid.T, kind string, x, y *c08Blk) (*block.V2BodyFormat, bool) {
	b := c08CopyBody(x.BF)
	yb := c08CopyBody(y.BF)
	n := len(b.NormalTransactions)
	switch kind {
	case "normalFromY":
		b.NormalTransactions = yb.NormalTransactions
	case "patchFromY":
		b.PatchTransactions = yb.NormalTransactions
	case "votesFromY":
		b.Votes = yb.Votes
	case "btpFromY":
		b.BTPDigest = yb.BTPDigest
	case "btpDrop":
		b.BTPDigest = nil
	case "dropTx":
		if n > 0 {
			i := rapid.IntRange(0, n-1).Draw(rt, "i")
			b.NormalTransactions = append(b.NormalTransactions[:i], b.NormalTransactions[i+1:]...)
		}
	case "dupTx":
		if n > 0 {
			i := rapid.IntRange(0, n-1).Draw(rt, "i")
			b.NormalTransactions = append(b.NormalTransactions, b.NormalTransactions[i])
		}
	case "swapTx":
		if n > 1 {
			i := rapid.IntRange(0, n-2).Draw(rt, "i")
			j := rapid.IntRange(i+1, n-1).Draw(rt, "j")
			b.NormalTransactions[i], b.NormalTransactions[j] = b.NormalTransactions[j], b.NormalTransactions[i]
		}
	case "replaceTx":
		if n > 0 {
			i := rapid.IntRange(0, n-1).Draw(rt, "i")
			pl := fmt.Sprintf("r%x", gen.Bytes(rt, "payload", 20))
			b.NormalTransactions[i] = test.NewTx().SetTimestamp(x.Blk.Timestamp()).SetVarTest(&pl).Bytes()
		}
	case "txToPatch":
		if n > 0 {
			b.PatchTransactions = [][]byte{b.NormalTransactions[0]}
		}
	case "votesItemsPermuted", "votesTsEdit":
		cvl, _ := consensus.NewCommitVoteSetFromBytes(b.Votes).(*consensus.CommitVoteList)
		if cvl != nil && len(cvl.Items) > 0 {
			c := &consensus.CommitVoteList{}
			c.Round = cvl.Round
			c.BlockPartSetIDAndAppData = cvl.BlockPartSetIDAndAppData
			c.NTSDProves = cvl.NTSDProves
			c.Items = append(c.Items, cvl.Items...)
			if kind == "votesTsEdit" {
				i := rapid.IntRange(0, len(c.Items)-1).Draw(rt, "i")
				c.Items[i].Timestamp += int64(rapid.SampledFrom([]int{-1, 1, 1000}).Draw(rt, "d"))
			} else if len(c.Items) > 1 {
				c.Items[0], c.Items[len(c.Items)-1] = c.Items[len(c.Items)-1], c.Items[0]
			}
			b.Votes = c.Bytes()
		}
	}
	return b, !c08BodyEq(b, x.BF)
}

// ---- byte level ----

// c08StructPositions returns offsets of RLP length/prefix bytes worth editing: the two outer list
// prefixes and the prefixes in front of every transaction, the votes and the digest.
func c08StructPositions(x *c08Blk) []int {
	pos := map[int]bool{}
	for i := 0; i < 4; i++ {
		pos[i] = true
		pos[x.HdrLen+i] = true
	}
	find := func(item []byte) {
		if len(item) < 4 {
			return
		}
		if i := bytes.Index(x.Enc[x.HdrLen:], item); i > 0 {
			for k := 1; k <= 3; k++ {
				if i-k >= 0 {
					pos[x.HdrLen+i-k] = true
				}
			}
		}
	}
	for _, t := range x.BF.NormalTransactions {
		find(t)
	}
	find(x.BF.Votes)
	find(x.BF.BTPDigest)
	var out []int
	for p := range pos {
		if p < len(x.Enc) {
			out = append(out, p)
		}
	}
	sort.Ints(out)
	return out
}

// c08Mutate applies one drawn byte-level mutation; returns the input, a description and
// whether the touched range reaches into the body region.
func c08Mutate(rt *rapid.T, x, y *c08Blk) ([]byte, string, bool) {
	in := append([]byte{}, x.Enc...)
	n := len(in)
	drawPos := func(label string) int {
		if x.HdrLen < n && rapid.IntRange(0, 9).Draw(rt, label+".inBody") < 7 {
			return rapid.IntRange(x.HdrLen, n-1).Draw(rt, label)
		}
		return rapid.IntRange(0, n-1).Draw(rt, label)
	}
	switch op := rapid.SampledFrom([]string{"flipbit", "setbyte", "truncate", "insert", "delete", "splice", "lenedit", "append"}).Draw(rt, "op"); op {
	case "flipbit":
		p := drawPos("pos")
		b := rapid.IntRange(0, 7).Draw(rt, "bit")
		in[p] ^= 1 << uint(b)
		return in, fmt.Sprintf("flipbit@%d.%d", p, b), p >= x.HdrLen
	case "setbyte":
		p := drawPos("pos")
		v := rapid.Byte().Draw(rt, "val")
		in[p] = v
		return in, fmt.Sprintf("setbyte@%d=%02x", p, v), p >= x.HdrLen
	case "truncate":
		p := drawPos("pos")
		return in[:p], fmt.Sprintf("truncate@%d", p), true
	case "insert":
		p := drawPos("pos")
		ins := gen.Bytes(rt, "ins", 40)
		out := append(append(append([]byte{}, in[:p]...), ins...), in[p:]...)
		return out, fmt.Sprintf("insert@%d:%x", p, ins), p >= x.HdrLen
	case "delete":
		p := drawPos("pos")
		l := rapid.IntRange(1, 40).Draw(rt, "len")
		if p+l > n {
			l = n - p
		}
		out := append(append([]byte{}, in[:p]...), in[p+l:]...)
		return out, fmt.Sprintf("delete@%d+%d", p, l), p+l > x.HdrLen
	case "splice":
		// overwrite a range with bytes from the other block's encoding
		p := drawPos("pos")
		q := rapid.IntRange(0, len(y.Enc)-1).Draw(rt, "src")
		l := rapid.IntRange(1, 120).Draw(rt, "len")
		for i := 0; i < l && p+i < n && q+i < len(y.Enc); i++ {
			in[p+i] = y.Enc[q+i]
		}
		return in, fmt.Sprintf("splice@%d<-y@%d+%d", p, q, l), p+l > x.HdrLen
	case "lenedit":
		ps := c08StructPositions(x)
		p := rapid.SampledFrom(ps).Draw(rt, "pos")
		d := rapid.SampledFrom([]int{-1, 1, -2, 2, 16, -16, 127, 128}).Draw(rt, "delta")
		in[p] = byte(int(in[p]) + d)
		return in, fmt.Sprintf("lenedit@%d%+d", p, d), p >= x.HdrLen
	default: // append
		ins := gen.Bytes(rt, "ins", 40)
		return append(in, ins...), fmt.Sprintf("append:%x", ins), true
	}
}

func c08Short(in []byte) string {
	h := crypto.SHA3Sum256(in)
	return fmt.Sprintf("len=%d sha3=%x", len(in), h[:6])
}

func TestC08(t *testing.T) {
	rec := ev.New("C08", "chains of 2-4 heights with 1-4 validators, 0-20 transactions per block, optionally a BTP network with messages (non-empty digests), built on a real node; "+
		"each block is (a) round-tripped through BlockDataFactory.NewBlockDataFromReader of a node without the chain, (b) re-encoded with one body component grafted from another block / a transaction dropped, duplicated, reordered, replaced / votes edited, (c) byte-mutated (flip, set, truncate, insert, delete, splice from another block, length-prefix edit, append). "+
		"Non-trivial = the block under test carries >=1 transaction (round trip), the grafted body really differs and one of the two blocks has >=1 transaction (swap), the mutation reaches the body region of a block with >=1 transaction (bytes). Distinct by (chain plan, block, mutation)")
	defer rec.Flush(t)
	maxTx := 20

	if j, ok := ev.ReplayJournal(); ok {
		// replay of a journaled input (process died while decoding it)
		i := strings.Index(j, "input=")
		if !strings.HasPrefix(j, "C08 ") || i < 0 {
			t.Skip("journal is not a C08 input")
		}
		in, err := hex.DecodeString(strings.TrimSpace(j[i+len("input="):]))
		if err != nil {
			ev.Inconclusive("C08: unreadable journal: %v", err)
		}
		hw := hbNewWorld(1)
		defer hw.Close()
		bdf, err := block.NewBlockDataFactory(hw.NewNode(1000).Chain, nil)
		if err != nil {
			ev.Inconclusive("C08: NewBlockDataFactory: %v", err)
		}
		out, _, viol := c08Judge(bdf, in)
		rec.Case(fmt.Sprintf("journal %x", in), true, "journal", "journal-"+out)
		if viol != "" {
			t.Fatalf("C08 violated: %s", viol)
		}
		return
	}

	t.Run("roundtrip", func(t *testing.T) {
		ev.Check(t, 70, 1000, func(rt *rapid.T) {
			p := c08DrawPlan(rt, maxTx)
			w := c08Build(p)
			defer w.Close()
			for i, x := range w.Blks {
				viol := c08RoundTrip(w.BDF, x)
				labels := []string{"roundtrip"}
				if x.NVotes > 0 {
					labels = append(labels, "rt-with-votes")
				}
				if x.HasBTP {
					labels = append(labels, "rt-with-btp-digest")
				}
				if x.NTx == 0 {
					labels = append(labels, "rt-empty-block")
				}
				if x.NPatch > 0 {
					labels = append(labels, "rt-with-patch-transactions")
				}
				rec.Case(fmt.Sprintf("roundtrip %s blk=%d", p, i+1), x.NTx >= 1 || x.NPatch >= 1, labels...)
				if viol != "" {
					rt.Fatalf("C08 violated: %s (plan %s)", viol, p)
				}
			}
		})
	})

	t.Run("bodyswap", func(t *testing.T) {
		if c08Poisoned() {
			t.Fatalf("not run: an earlier decoder call ran away and is still consuming memory")
		}
		ev.Check(t, 70, 1000, func(rt *rapid.T) {
			p := c08DrawPlan(rt, maxTx)
			w := c08Build(p)
			defer w.Close()
			k := 14
			for g := 0; g < k; g++ {
				xi := c08PickBlock(rt, w, "x")
				yi := rapid.IntRange(0, len(w.Blks)-1).Draw(rt, "y")
				x, y := w.Blks[xi], w.Blks[yi]
				kind := rapid.SampledFrom(c08ApplicableGrafts(rt, x, y)).Draw(rt, "graft")
				body, differs := c08Graft(rt, kind, x, y)
				in := hbEncode(x.HF, body)
				out, bd, viol := c08Judge(w.BDF, in)
				labels := []string{"swap", "swap-" + kind, "swap-" + out}
				if !differs {
					labels = append(labels, "swap-identical-body")
				}
				rec.Case(fmt.Sprintf("swap %s x=%d y=%d %s body{%s}", p, xi+1, yi+1, kind, c08Short(in)),
					differs && (x.NTx >= 1 || y.NTx >= 1), labels...)
				if viol != "" {
					rt.Fatalf("C08 violated: header of block %d with body graft %s from block %d: %s (plan %s)", xi+1, kind, yi+1, viol, p)
				}
				if !differs {
					// the unchanged valid block must still decode to itself
					if out != "accepted" || !bytes.Equal(bd.ID(), x.Blk.ID()) {
						rt.Fatalf("C08 violated: valid block %d not decoded to itself (%s), encoding %x (plan %s)", xi+1, out, in, p)
					}
				}
			}
		})
	})

	t.Run("bytes", func(t *testing.T) {
		if c08Poisoned() {
			t.Fatalf("not run: an earlier decoder call ran away and is still consuming memory")
		}
		ev.Check(t, 70, 1000, func(rt *rapid.T) {
			p := c08DrawPlan(rt, maxTx)
			w := c08Build(p)
			defer w.Close()
			k := ev.Pick(60, 150)
			for g := 0; g < k; g++ {
				xi := rapid.IntRange(0, len(w.Blks)-1).Draw(rt, "x")
				yi := rapid.IntRange(0, len(w.Blks)-1).Draw(rt, "y")
				x := w.Blks[xi]
				in, what, inBody := c08Mutate(rt, x, w.Blks[yi])
				ev.Journal(fmt.Sprintf("C08 bytes input=%x", in))
				out, _, viol := c08Judge(w.BDF, in)
				rec.Case(fmt.Sprintf("bytes %s x=%d %s", p, xi+1, what), inBody && x.NTx >= 1,
					"bytes", "bytes-"+what[:strings.IndexAny(what, "@:")], "bytes-"+out)
				if viol != "" {
					rt.Fatalf("C08 violated: block %d mutated by %s: %s (plan %s)", xi+1, what, viol, p)
				}
			}
		})
	})

	t.Run("random", func(t *testing.T) {
		if c08Poisoned() {
			t.Fatalf("not run: an earlier decoder call ran away and is still consuming memory")
		}
		// unstructured inputs: raw random bytes behind a plausible version prefix
		hw := hbNewWorld(1)
		defer hw.Close()
		d := hw.NewNode(1000)
		bdf, err := block.NewBlockDataFactory(d.Chain, nil)
		if err != nil {
			ev.Inconclusive("C08: NewBlockDataFactory: %v", err)
		}
		ev.Check(t, 1000, 12000, func(rt *rapid.T) {
			in := gen.Bytes(rt, "raw", 300)
			if rapid.Bool().Draw(rt, "v2prefix") && len(in) > 2 {
				in[0] = byte(0xc0 + rapid.IntRange(1, 0x37).Draw(rt, "l"))
				in[1] = 2
			}
			ev.Journal(fmt.Sprintf("C08 random input=%x", in))
			out, _, viol := c08Judge(bdf, in)
			rec.Case(fmt.Sprintf("random %x", in), false, "random", "random-"+out)
			if viol != "" {
				rt.Fatalf("C08 violated: %s", viol)
			}
		})
	})
}

// ---- native fuzz target (thorough tier: go test -fuzz=FuzzC08Decode) ----

func c08FixedPlans() []*c08Plan {
	mk := func(nv int, btp bool, ntx ...int) *c08Plan {
		p := &c08Plan{NV: nv, BTP: btp}
		for i, n := range ntx {
			var b c08BlockPlan
			for j := 0; j < n; j++ {
				b.Payloads = append(b.Payloads, fmt.Sprintf("fixed-%d-%d-%s", i, j, strings.Repeat("x", (j*37)%150)))
			}
			if btp && i >= 1 {
				b.BTPMsgs = []string{hex.EncodeToString([]byte(fmt.Sprintf("msg-%d", i)))}
			}
			for s := 0; s < nv; s++ {
				b.Signers = append(b.Signers, s)
				b.TSOff = append(b.TSOff, int64(s*3))
			}
			p.Blocks = append(p.Blocks, b)
		}
		return p
	}
	return []*c08Plan{mk(4, false, 0, 3, 12), mk(2, true, 1, 2, 0, 5)}
}

func FuzzC08Decode(f *testing.F) {
	var bdf module.BlockDataFactory
	for _, p := range c08FixedPlans() {
		w := c08Build(p)
		defer w.Close()
		bdf = w.BDF
		for i, x := range w.Blks {
			f.Add(x.Enc)
			// a grafted body as seed, too
			y := w.Blks[(i+1)%len(w.Blks)]
			b := c08CopyBody(x.BF)
			b.NormalTransactions = y.BF.NormalTransactions
			f.Add(hbEncode(x.HF, b))
		}
	}
	// the two seeds of the repository's own fuzz target (block/blockdatafactory_test.go)
	f.Add([]byte("\xf5\x02000000\x80\x8000000000000000000000000000000000000000000000\xde\xc0\xc00000000000000000000000000000"))
	f.Add([]byte("\xd0\x02000000\x80\x800000000\xe9\xc0\xc0000000000000000000000000000000000000000"))
	f.Fuzz(func(t *testing.T, in []byte) {
		_, bd, viol := c08Judge(bdf, in)
		if viol != "" {
			t.Fatalf("C08 violated: %s", viol)
		}
		if bd != nil {
			// an accepted block must be serializable again without crashing
			var buf bytes.Buffer
			_ = bd.Marshal(&buf)
		}
	})
}
