package hblock

// Shared node-assembly helpers of the block cluster (C07, C08). Everything here is prefixed hb.
//
// A "world" is a set of validator wallets (reproducible, from internal/gen), a genesis naming
// them, and real nodes from the repository's exported test package: real block manager
// (block.NewManager), real transitions (service.NewTransition ...) on a MapDB. Only the
// service manager is the repository's thin test.ServiceManager (a tx pool without fee logic).

import (
	"bytes"
	"flag"
	"fmt"
	"io"
	"os"
	"sync"
	"testing"
	"time"

	"github.com/icon-project/goloop/block"
	"github.com/icon-project/goloop/common"
	"github.com/icon-project/goloop/common/codec"
	"github.com/icon-project/goloop/common/db"
	"github.com/icon-project/goloop/common/log"
	"github.com/icon-project/goloop/consensus"
	"github.com/icon-project/goloop/module"
	"github.com/icon-project/goloop/service/platform/basic"
	"github.com/icon-project/goloop/test"

	"verifharness/internal/ev"
	"verifharness/internal/gen"
)

const hbDSA = "ecdsa/secp256k1"

// TestMain silences goloop's loggers: test.NewNode forces trace level on a logger that writes
// to whatever os.Stderr is when the logger is created. The Go runtime (fatal errors, panics)
// writes to fd 2 directly and the testing package / rapid write to stdout, so nothing the driver
// needs is lost. HBLOCK_LOG=1 keeps the logs.
func TestMain(m *testing.M) {
	flag.Parse()
	coordinator := false
	if f := flag.Lookup("test.fuzz"); f != nil && f.Value.String() != "" {
		if w := flag.Lookup("test.fuzzworker"); w == nil || w.Value.String() != "true" {
			coordinator = true // keep stderr: go's fuzz progress lines go there
		}
	}
	if os.Getenv("HBLOCK_LOG") == "" && !coordinator {
		if f, err := os.OpenFile(os.DevNull, os.O_WRONLY, 0); err == nil {
			os.Stderr = f
		}
		log.GlobalLogger().SetOutput(io.Discard)
		log.GlobalLogger().SetLevel(log.PanicLevel)
	}
	os.Exit(m.Run())
}

// hbT is the test.T handed to the repository's test package: it only records assertion
// failures of the fixture itself (harness problems), it never fails the check.
type hbT struct {
	mu   sync.Mutex
	errs []string
}

func (t *hbT) Errorf(format string, args ...interface{}) {
	t.mu.Lock()
	t.errs = append(t.errs, fmt.Sprintf(format, args...))
	t.mu.Unlock()
}
func (t *hbT) Logf(format string, args ...any) {}
func (t *hbT) Err() string {
	t.mu.Lock()
	defer t.mu.Unlock()
	if len(t.errs) == 0 {
		return ""
	}
	return t.errs[0]
}

type hbWalletProvider struct{ w module.Wallet }

func (p hbWalletProvider) WalletFor(dsa string) module.BaseWallet {
	if dsa == hbDSA {
		return p.w
	}
	return nil
}

type hbWorld struct {
	T       *hbT
	NV      int
	Wallets []module.Wallet
	Genesis string
	Nodes   []*test.Node
}

func hbGenesis(ws []module.Wallet) string {
	v := ""
	for i, w := range ws {
		if i > 0 {
			v += ","
		}
		v += fmt.Sprintf("%q", w.Address().String())
	}
	return fmt.Sprintf(`{"accounts":[{"name":"god","address":"hx0000000000000000000000000000000000000000","balance":"0x0"},`+
		`{"name":"treasury","address":"hx1000000000000000000000000000000000000000","balance":"0x0"}],`+
		`"message":"","nid":"0x1","chain":{"validatorList":[%s]}}`, v)
}

// hbNewWorld creates nv validator wallets (key family of internal/gen) and the genesis.
func hbNewWorld(nv int) *hbWorld {
	w := &hbWorld{T: &hbT{}, NV: nv}
	for i := 0; i < nv; i++ {
		w.Wallets = append(w.Wallets, gen.WalletFromIndex(i))
	}
	w.Genesis = hbGenesis(w.Wallets)
	return w
}

// NewNode adds a node with its own MapDB on the world's genesis. Setup failure is a harness
// problem, not a statement about goloop.
func (w *hbWorld) NewNode(walletIndex int) *test.Node {
	nd := test.NewNode(w.T, test.UseGenesis(w.Genesis), test.UseWallet(gen.WalletFromIndex(walletIndex)))
	if e := w.T.Err(); e != "" {
		ev.Inconclusive("hblock: node setup failed: %s", e)
	}
	w.Nodes = append(w.Nodes, nd)
	return nd
}

func (w *hbWorld) Close() {
	for _, n := range w.Nodes {
		n.Close()
	}
	w.Nodes = nil
}

func hbLast(nd *test.Node) module.Block {
	blk, err := nd.BM.GetLastBlock()
	if err != nil {
		ev.Inconclusive("hblock: GetLastBlock: %v", err)
	}
	return blk
}

// hbPartSetID computes the real block part set id like the consensus engine does.
func hbPartSetID(blk module.BlockData) (*consensus.PartSetID, error) {
	var buf bytes.Buffer
	if err := blk.Marshal(&buf); err != nil {
		return nil, err
	}
	pb := consensus.NewPartSetBuffer(consensus.ConfigBlockPartSize)
	if _, err := pb.Write(buf.Bytes()); err != nil {
		return nil, err
	}
	return pb.PartSet().ID(), nil
}

// Votes builds the commit vote list for blk (a finalized block of nd) signed by the validators
// signers[i] with timestamps ts[i], including BTP proof parts when the chain has BTP networks.
func (w *hbWorld) Votes(nd *test.Node, blk module.Block, signers []int, ts []int64, round int32) (module.CommitVoteSet, error) {
	if blk.Height() == 0 {
		return consensus.NewEmptyCommitVoteList(), nil
	}
	prev, err := nd.BM.GetBlockByHeight(blk.Height() - 1)
	if err != nil {
		return nil, err
	}
	pcm, err := prev.NextProofContextMap()
	if err != nil {
		return nil, err
	}
	bd, err := blk.BTPDigest()
	if err != nil {
		return nil, err
	}
	ntsVotes, err := bd.NTSVoteCount(pcm)
	if err != nil {
		return nil, err
	}
	psid, err := hbPartSetID(blk)
	if err != nil {
		return nil, err
	}
	msgs := make([]*consensus.VoteMessage, 0, len(signers))
	for i, s := range signers {
		vm, err := consensus.NewVoteMessageFromBlock(
			w.Wallets[s], hbWalletProvider{w.Wallets[s]}, blk, round,
			consensus.VoteTypePrecommit, psid.WithAppData(uint64(ntsVotes)), ts[i], 1, pcm,
		)
		if err != nil {
			return nil, err
		}
		msgs = append(msgs, vm)
	}
	cvl := consensus.NewCommitVoteList(pcm, msgs...)
	if cvl == nil || cvl.(*consensus.CommitVoteList) == nil {
		return nil, fmt.Errorf("NewCommitVoteList failed")
	}
	return cvl, nil
}

type hbCB struct {
	bc  module.BlockCandidate
	err error
}

// hbWaitLocators waits until the transaction locators of nd's last finalized block are in the
// database. goloop's locator manager flushes them on a background goroutine, while the
// repository's test.ServiceManager filters its pool by reading that bucket directly: proposing
// before the flush lands would put an already committed transaction into the next block (a
// block every importer rightly rejects as DuplicateTx) - an artefact of the test pool, not of
// the code under test. Bounded; running out of the bound is inconclusive.
func hbWaitLocators(nd *test.Node) {
	blk := hbLast(nd)
	bk, err := nd.Chain.Database().GetBucket(db.TransactionLocatorByHash)
	if err != nil {
		ev.Inconclusive("hblock: locator bucket: %v", err)
	}
	deadline := time.Now().Add(hbCallbackWait)
	for it := blk.NormalTransactions().Iterator(); it.Has(); {
		tx, _, err := it.Get()
		if err != nil {
			ev.Inconclusive("hblock: reading last block: %v", err)
		}
		for {
			bs, err := bk.Get(tx.ID())
			if err == nil && bs != nil {
				break
			}
			if time.Now().After(deadline) {
				ev.Inconclusive("hblock: transaction locators of height %d not flushed within %v", blk.Height(), hbCallbackWait)
			}
			time.Sleep(200 * time.Microsecond)
		}
		if err := it.Next(); err != nil {
			ev.Inconclusive("hblock: reading last block: %v", err)
		}
	}
}

// hbPropose proposes on top of nd's last finalized block.
func hbPropose(nd *test.Node, votes module.CommitVoteSet) (module.BlockCandidate, error) {
	hbWaitLocators(nd)
	ch := make(chan hbCB, 1)
	_, err := nd.BM.Propose(hbLast(nd).ID(), votes, func(bc module.BlockCandidate, err error) {
		ch <- hbCB{bc, err}
	})
	if err != nil {
		return nil, err
	}
	return hbWait(ch, "Propose")
}

// hbWait waits for a block manager callback. The wait is bounded; running out of it says
// nothing about the property (inconclusive).
func hbWait(ch chan hbCB, what string) (module.BlockCandidate, error) {
	select {
	case r := <-ch:
		return r.bc, r.err
	case <-time.After(hbCallbackWait):
		ev.Inconclusive("hblock: %s callback not delivered within %v", what, hbCallbackWait)
		return nil, nil
	}
}

const hbCallbackWait = 120 * time.Second

// hbImport feeds an encoded block to nd's block manager and waits for the verdict. The error is
// the synchronous one or the one delivered to the callback (observe_at of C07).
func hbImport(nd *test.Node, enc []byte) (module.BlockCandidate, error) {
	ch := make(chan hbCB, 1)
	_, err := nd.BM.Import(bytes.NewReader(enc), 0, func(bc module.BlockCandidate, err error) {
		ch <- hbCB{bc, err}
	})
	if err != nil {
		return nil, err
	}
	return hbWait(ch, "Import")
}

// hbImportBlock is the entry the consensus engine uses once it has assembled a block from its parts: the bytes
// are decoded by the node (NewBlockDataFromReader) and the block object is handed to ImportBlock.
func hbImportBlock(nd *test.Node, enc []byte) (module.BlockCandidate, error) {
	bd, err := nd.BM.NewBlockDataFromReader(bytes.NewReader(enc))
	if err != nil {
		return nil, err
	}
	ch := make(chan hbCB, 1)
	_, err = nd.BM.ImportBlock(bd, 0, func(bc module.BlockCandidate, err error) {
		ch <- hbCB{bc, err}
	})
	if err != nil {
		return nil, err
	}
	return hbWait(ch, "ImportBlock")
}

func hbMarshal(blk module.BlockData) []byte {
	var buf bytes.Buffer
	if err := blk.Marshal(&buf); err != nil {
		ev.Inconclusive("hblock: Marshal: %v", err)
	}
	return buf.Bytes()
}

func hbSend(nd *test.Node, tx *test.Transaction) error {
	_, err := nd.SM.SendTransaction(nil, 0, tx.String())
	return err
}

// hbBTPSetupTx opens one BTP network ("eth" type) owned by validator 0 with every validator's
// public key registered; its effect shows in the block after the one that carries it.
func (w *hbWorld) BTPSetupTx(ts int64) *test.Transaction {
	tx := test.NewTx().SetTimestamp(ts).Call("setRevision", map[string]string{
		"code": fmt.Sprintf("0x%x", basic.MaxRevision),
	})
	for _, v := range w.Wallets {
		tx.CallFrom(common.AddressToPtr(v.Address()), "setBTPPublicKey", map[string]string{
			"name":   hbDSA,
			"pubKey": fmt.Sprintf("0x%x", v.PublicKey()),
		})
	}
	tx.Call("openBTPNetwork", map[string]string{
		"networkTypeName": "eth",
		"name":            "eth-test",
		"owner":           w.Wallets[0].Address().String(),
	})
	return tx
}

func (w *hbWorld) BTPMessageTx(ts int64, msg []byte) *test.Transaction {
	return test.NewTx().SetTimestamp(ts).CallFrom(common.AddressToPtr(w.Wallets[0].Address()), "sendBTPMessage", map[string]string{
		"networkId": "0x1",
		"message":   fmt.Sprintf("0x%x", msg),
	})
}

// hbEncode serializes header and body formats the way a block travels on the wire.
func hbEncode(hf *block.V2HeaderFormat, bf *block.V2BodyFormat) []byte {
	var buf bytes.Buffer
	if err := codec.BC.Marshal(&buf, hf); err != nil {
		ev.Inconclusive("hblock: marshal header: %v", err)
	}
	if err := codec.BC.Marshal(&buf, bf); err != nil {
		ev.Inconclusive("hblock: marshal body: %v", err)
	}
	return buf.Bytes()
}

// hbFormats splits a serialized block into its header and body formats.
func hbFormats(enc []byte) (*block.V2HeaderFormat, *block.V2BodyFormat, error) {
	r := bytes.NewReader(enc)
	hf, bf := new(block.V2HeaderFormat), new(block.V2BodyFormat)
	if err := codec.BC.Unmarshal(r, hf); err != nil {
		return nil, nil, err
	}
	if err := codec.BC.Unmarshal(r, bf); err != nil {
		return nil, nil, err
	}
	return hf, bf, nil
}

func hbRange(n int) []int {
	r := make([]int, n)
	for i := range r {
		r[i] = i
	}
	return r
}
