package hcons

import (
	"bytes"
	"fmt"
	"strings"
	"testing"

	"github.com/icon-project/goloop/common/codec"
	"github.com/icon-project/goloop/common/crypto"
	"github.com/icon-project/goloop/consensus"
	"pgregory.net/rapid"

	"verifharness/internal/ev"
	"verifharness/internal/gen"
)

// C04: for any sequence of votes (duplicates, conflicting re-votes, votes for nil or for blocks)
// a vote set reports a +2/3 decision exactly when more than two thirds of the validator slots
// currently hold a vote for that decision, reports at most one such decision, and once a
// decision has +2/3 support later conflicting votes cannot remove it.
//
// The real voteSet is driven through the verif hook. Oracle = independent recount: after every
// add the harness reads the slot array (hook MessageAt; the stored pointers are the harness'
// own messages, whose decision is known from the draw, not from goloop's digests) and recounts.
//   tally : getOverTwoThirdsPartSetID reports (ok) <=> some decision d has 3*count(d) > 2n, and
//           then the reported part set id is d's; hasOverTwoThirds <=> 3*filled > 2n.
//           (two decisions can not both have +2/3: asserted on the recount itself)
//   sticky: a decision that had +2/3 after some step still has +2/3 (recount) and is still the
//           reported one after every later step.
//   slots : add(i, v) changes no slot other than i, leaves in slot i either the previous vote
//           or v, and fills an empty slot (otherwise "currently hold" would be meaningless).
// Whether a conflicting re-vote replaces the earlier vote of the same validator (when no
// +2/3 exists) is NOT decided: the statement does not say.
// Precondition taken from the callers (heightVoteSet.votesFor): all votes of one set have the
// same height, round and type; index i is the index of the signer.

type c04Decision struct {
	block int // -1 = nil
	ps    int
}

func (d c04Decision) String() string {
	if d.block < 0 {
		return "nil"
	}
	return fmt.Sprintf("%c%d", 'A'+d.block, d.ps)
}

func (d c04Decision) psid() *consensus.PartSetID {
	if d.block < 0 {
		return nil
	}
	return &consensus.PartSetID{Count: uint16(1 + d.ps), Hash: crypto.SHA3Sum256([]byte{'p', byte(d.ps)})}
}

type c04Step struct {
	idx int
	d   c04Decision
	ts  int64
}

func (s c04Step) String() string { return fmt.Sprintf("%d:%v@%d", s.idx, s.d, s.ts) }

type c04Case struct {
	n      int
	height int64
	round  int32
	vtype  consensus.VoteType
	steps  []c04Step
}

func (c *c04Case) String() string {
	var sb strings.Builder
	fmt.Fprintf(&sb, "n=%d h=%d r=%d type=%d steps=[", c.n, c.height, c.round, c.vtype)
	for i, s := range c.steps {
		if i > 0 {
			sb.WriteByte(' ')
		}
		sb.WriteString(s.String())
	}
	sb.WriteByte(']')
	return sb.String()
}

var c04Decisions = []c04Decision{{-1, 0}, {0, 0}, {1, 0}, {2, 1}, {0, 1}}

func c04Draw(rt *rapid.T) *c04Case {
	c := &c04Case{
		n:      rapid.SampledFrom([]int{1, 2, 3, 4, 4, 5, 6, 7, 7, 8, 9, 10, 10}).Draw(rt, "n"),
		height: int64(rapid.IntRange(1, 5).Draw(rt, "height")),
		round:  int32(rapid.IntRange(0, 3).Draw(rt, "round")),
		vtype:  consensus.VoteType(rapid.IntRange(0, 1).Draw(rt, "vtype")),
	}
	fav := rapid.SampledFrom(c04Decisions).Draw(rt, "favourite")
	favW := rapid.SampledFrom([]int{30, 55, 55, 75, 90}).Draw(rt, "favWeight")
	ns := rapid.IntRange(1, ev.Pick(40, 80)).Draw(rt, "nsteps")
	for i := 0; i < ns; i++ {
		s := c04Step{idx: rapid.IntRange(0, c.n-1).Draw(rt, "idx"), ts: int64(100 + rapid.IntRange(0, 1).Draw(rt, "ts"))}
		if rapid.IntRange(0, 99).Draw(rt, "w") < favW {
			s.d = fav
		} else {
			s.d = rapid.SampledFrom(c04Decisions).Draw(rt, "decision")
		}
		c.steps = append(c.steps, s)
	}
	return c
}

func c04Vote(c *c04Case, s c04Step) *consensus.VoteMessage {
	w := gen.WalletFromIndex(s.idx)
	if s.d.block < 0 {
		return consensus.NewVoteMessage(w, c.vtype, c.height, c.round, codec.MustMarshalToBytes(1), nil, s.ts, nil, nil, 0)
	}
	return consensus.NewVoteMessage(w, c.vtype, c.height, c.round, crypto.SHA3Sum256([]byte{'b', byte(s.d.block)}), s.d.psid(), s.ts, nil, nil, 0)
}

type c04Stats struct {
	reached, conflictAfter, replaced, kept, dup bool
}

// c04Run executes the case; returns a violation text or "".
func c04Run(c *c04Case, st *c04Stats) (msg string) {
	defer func() {
		if r := recover(); r != nil {
			msg = fmt.Sprintf("panic: %v in %v", r, c)
		}
	}()
	vs := consensus.VerifNewVoteSet(c.n)
	dec := map[*consensus.VoteMessage]c04Step{}
	prev := make([]*consensus.VoteMessage, c.n)
	var sticky *c04Decision
	stickyAt := -1
	for k, s := range c.steps {
		v := c04Vote(c, s)
		dec[v] = s
		if sticky != nil && s.d != *sticky {
			st.conflictAfter = true
		}
		added := vs.Add(s.idx, v)
		// slots
		cur := make([]*consensus.VoteMessage, c.n)
		for i := range cur {
			cur[i] = vs.MessageAt(i)
			if i != s.idx && cur[i] != prev[i] {
				return fmt.Sprintf("step %d (%v): slot %d changed although the vote was for slot %d; %v", k, s, i, s.idx, c)
			}
		}
		switch {
		case cur[s.idx] == v:
			if prev[s.idx] != nil {
				st.replaced = true
			}
		case cur[s.idx] == prev[s.idx] && prev[s.idx] != nil:
			st.kept = true
			if o := dec[prev[s.idx]]; o.d == s.d && o.ts == s.ts {
				st.dup = true
			}
			if added {
				return fmt.Sprintf("step %d (%v): add returned true but slot %d still holds the previous vote; %v", k, s, s.idx, c)
			}
		default:
			return fmt.Sprintf("step %d (%v): slot %d holds neither the previous vote nor the new one (previous empty: %v); %v", k, s, s.idx, prev[s.idx] == nil, c)
		}
		// recount
		filled := 0
		cnt := map[c04Decision]int{}
		for _, m := range cur {
			if m == nil {
				continue
			}
			ds, ok := dec[m]
			if !ok {
				return fmt.Sprintf("step %d (%v): a slot holds a message that was never added; %v", k, s, c)
			}
			filled++
			cnt[ds.d]++
		}
		var winner *c04Decision
		for _, d := range c04Decisions {
			if 3*cnt[d] > 2*c.n {
				if winner != nil {
					panic("harness: two decisions with +2/3 in the recount")
				}
				dd := d
				winner = &dd
			}
		}
		if got, want := vs.HasOverTwoThirds(), 3*filled > 2*c.n; got != want {
			return fmt.Sprintf("step %d (%v): hasOverTwoThirds()=%v but %d of %d slots hold a vote; %v", k, s, got, filled, c.n, c)
		}
		psid, ok := vs.GetOverTwoThirdsPartSetID()
		if ok != (winner != nil) {
			return fmt.Sprintf("step %d (%v): getOverTwoThirdsPartSetID ok=%v but the recount of the slots is %v (n=%d); %v", k, s, ok, c04Counts(cnt), c.n, c)
		}
		if winner != nil {
			want := winner.psid()
			same := (psid == nil && want == nil) || (psid != nil && want != nil && psid.Count == want.Count && bytes.Equal(psid.Hash, want.Hash))
			if !same {
				return fmt.Sprintf("step %d (%v): reported +2/3 part set id %v, but the decision with +2/3 of the slots is %v (recount %v); %v", k, s, psid, *winner, c04Counts(cnt), c)
			}
		}
		if sticky != nil {
			if winner == nil || *winner != *sticky {
				return fmt.Sprintf("step %d (%v): decision %v had +2/3 after step %d but no longer has it (recount %v, n=%d); %v", k, s, *sticky, stickyAt, c04Counts(cnt), c.n, c)
			}
		} else if winner != nil {
			sticky, stickyAt = winner, k
			st.reached = true
		}
		prev = cur
	}
	return ""
}

func c04Counts(cnt map[c04Decision]int) string {
	var sb strings.Builder
	for _, d := range c04Decisions {
		if cnt[d] > 0 {
			fmt.Fprintf(&sb, "%v=%d ", d, cnt[d])
		}
	}
	return strings.TrimSpace(sb.String())
}

func TestC04(t *testing.T) {
	rec := ev.New("C04", "n in 1..10 validators, sequences of 1..40 (thorough 80) add(index, vote) on the real voteSet with decisions from {nil, A0, B0, C1, A1(same block, other part set)} (one drawn favourite with drawn weight), two timestamps, duplicates and conflicting re-votes arising from repeated indexes; after every add the slot array is read back and recounted; non-trivial = a +2/3 decision existed and a vote for another decision was added afterwards; distinct by the rendered sequence")
	defer rec.Flush(t)
	t.Run("sequences", func(t *testing.T) {
		ev.Check(t, 4000, 60000, func(rt *rapid.T) {
			c := c04Draw(rt)
			var st c04Stats
			msg := c04Run(c, &st)
			labels := []string{fmt.Sprintf("n=%d", c.n)}
			if st.reached {
				labels = append(labels, "reached+2/3")
			}
			if st.replaced {
				labels = append(labels, "slot-replaced")
			}
			if st.kept {
				labels = append(labels, "revote-not-applied")
			}
			if st.dup {
				labels = append(labels, "exact-duplicate")
			}
			rec.Case(c.String(), st.reached && st.conflictAfter, labels...)
			if msg != "" {
				rt.Fatalf("C04 violated: %s", msg)
			}
		})
	})
}
