package hcons

import (
	"bytes"
	"fmt"
	"os"
	"runtime/debug"
	"sort"
	"strings"
	"sync"
	"testing"
	"time"

	"github.com/icon-project/goloop/block"
	"github.com/icon-project/goloop/common/codec"
	"github.com/icon-project/goloop/common/crypto"
	"github.com/icon-project/goloop/common/db"
	"github.com/icon-project/goloop/common/log"
	"github.com/icon-project/goloop/consensus"
	"github.com/icon-project/goloop/consensus/fastsync"
	"github.com/icon-project/goloop/module"
	"github.com/icon-project/goloop/network"
	"github.com/icon-project/goloop/service/state"
	gtest "github.com/icon-project/goloop/test"
	"pgregory.net/rapid"

	"verifharness/internal/ev"
	"verifharness/internal/gen"
)

// C05: a block is accepted as committed ONLY IF its commit vote list carries valid precommit
// signatures over exactly that block, round and part-set from more than two thirds of distinct
// members of the validator set; lists with forged, duplicated, non-validator or wrong-target
// signatures or with too few signers are rejected (with an error: a panic is a violation).
//
// Oracle: by construction the harness knows for every item whether it is a precommit signature
// over exactly the target by validator i, or one of the bad classes. Reference decision:
// accept <=> no bad item, all signers distinct, 3*items > 2*n. Violations:
//   - VerifyBlock accepts although the reference rejects,
//   - VerifyBlock panics,
//   - VerifyBlock accepts but the returned voter bitmap is not exactly the signer set,
//   - (conversion used by fast sync / WAL, consensus.WALRecordBytesFromCommitVoteListBytes ->
//     CommitVoteList.toVoteList) panics, or succeeds for a list with an item that is not signed
//     by a validator.
// A fully valid list that is rejected is only counted (label), the statement is an "only if".
// Signatures with V in 4..7 are not generated: the recovery library treats them as the
// "compressed key" flavour of V-4 and recovers the same key; the statement does not speak
// about signature malleability.

type c05Target struct {
	height  int64
	round   int32
	vtype   consensus.VoteType
	block   byte
	psCount uint16
	psHash  byte
	appData uint64
	realID  []byte // import path: id of the real block (selector block==0), nil otherwise
	// fast-sync path: part set id of the real block (selector psCount==0), nil otherwise
	realPS *consensus.PartSetID
}

func (t c05Target) psid() *consensus.PartSetIDAndAppData {
	if t.realPS != nil && t.psCount == 0 {
		return t.realPS.WithAppData(t.appData)
	}
	p := &consensus.PartSetID{Count: t.psCount, Hash: crypto.SHA3Sum256([]byte{'p', t.psHash})}
	return p.WithAppData(t.appData)
}

func (t c05Target) bid() []byte {
	if t.realID != nil && t.block == 0 {
		return t.realID
	}
	return crypto.SHA3Sum256([]byte{'b', t.block})
}

func (t c05Target) String() string {
	return fmt.Sprintf("h=%d r=%d block=%02x ps=%d/%02x app=%x", t.height, t.round, t.block, t.psCount, t.psHash, t.appData)
}

// c05Sign returns the 65-byte R|S|V precommit signature of key k over (target, ts).
func c05Sign(k int, t c05Target, ts int64) []byte {
	w := gen.WalletFromIndex(k)
	vm := consensus.NewVoteMessage(w, t.vtype, t.height, t.round, nil, nil, ts, nil, nil, 0)
	vm.SetRoundDecision(t.bid(), t.psid(), nil)
	if err := vm.Sign(w); err != nil {
		panic(err)
	}
	bs, err := vm.Signature.Signature.SerializeRSV()
	if err != nil {
		panic(err)
	}
	return bs
}

type c05Item struct {
	Timestamp int64
	Signature []byte
}

type c05Wire struct {
	Round int32
	PSID  *consensus.PartSetIDAndAppData
	Items []c05Item
}

type c05Desc struct {
	class  string
	signer int // validator index for good items, -1 otherwise
	item   c05Item
}

type c05Block struct {
	module.BlockData
	h  int64
	id []byte
}

func (b *c05Block) Height() int64 { return b.h }
func (b *c05Block) ID() []byte    { return b.id }

type c05NoNTS struct{}

func (c05NoNTS) NTSHashEntryListFormat() []module.NTSHashEntryFormat { return nil }
func (c05NoNTS) NTSHashEntryCount() int                              { return 0 }
func (c05NoNTS) NTSHashEntryAt(i int) module.NTSHashEntryFormat {
	return module.NTSHashEntryFormat{}
}

var c05BadClasses = []string{
	"dup-identical", "dup-signer-other-ts", "non-validator", "wrong-block", "wrong-round", "wrong-partset",
	"wrong-appdata", "wrong-height", "prevote-signature", "timestamp-altered", "random65", "bad-v", "sig64",
	"zero65", "flipped-bit", "empty-sig",
}

func c05Validators(n int) (module.ValidatorList, error) {
	vs := make([]module.Validator, n)
	for i := range vs {
		v, err := state.ValidatorFromAddress(gen.WalletFromIndex(i).Address())
		if err != nil {
			return nil, err
		}
		vs[i] = v
	}
	return state.ValidatorSnapshotFromSlice(db.NewMapDB(), vs)
}

func c05MakeBad(rt *rapid.T, class string, n int, tg c05Target, good []c05Desc, free []int) c05Desc {
	ts := int64(rapid.IntRange(5000, 5003).Draw(rt, "badts"))
	// signer for "right key, wrong thing" classes: prefer a validator that has not signed yet
	v := rapid.IntRange(0, n-1).Draw(rt, "badsigner")
	if len(free) > 0 && rapid.Bool().Draw(rt, "useFree") {
		v = rapid.SampledFrom(free).Draw(rt, "freesigner")
	}
	d := c05Desc{class: class, signer: -1}
	alt := tg
	switch class {
	case "dup-identical":
		if len(good) == 0 {
			return c05MakeBad(rt, "non-validator", n, tg, good, free)
		}
		d.item = good[rapid.IntRange(0, len(good)-1).Draw(rt, "dupOf")].item
		return d
	case "dup-signer-other-ts":
		if len(good) == 0 {
			return c05MakeBad(rt, "non-validator", n, tg, good, free)
		}
		g := good[rapid.IntRange(0, len(good)-1).Draw(rt, "dupOf")]
		d.item = c05Item{g.item.Timestamp + 7, c05Sign(g.signer, tg, g.item.Timestamp+7)}
		return d
	case "non-validator":
		d.item = c05Item{ts, c05Sign(100+rapid.IntRange(0, 3).Draw(rt, "outsider"), tg, ts)}
		return d
	case "wrong-block":
		alt.block++
	case "wrong-round":
		alt.round++
	case "wrong-partset":
		if tg.realPS != nil && tg.psCount == 0 {
			// the real part set is selected by psCount==0 alone: any other count leaves it
			alt.psCount = 1 + uint16(rapid.IntRange(0, 2).Draw(rt, "psAlt"))
		} else if rapid.Bool().Draw(rt, "psWhich") {
			alt.psCount++
		} else {
			alt.psHash++
		}
	case "wrong-appdata":
		alt.appData ^= uint64(1) << uint(rapid.IntRange(0, 47).Draw(rt, "appbit"))
	case "wrong-height":
		alt.height++
	case "prevote-signature":
		alt.vtype = consensus.VoteTypePrevote
	case "timestamp-altered":
		d.item = c05Item{ts + 1, c05Sign(v, tg, ts)}
		return d
	case "random65":
		b := rapid.SliceOfN(rapid.Byte(), 65, 65).Draw(rt, "rnd65")
		b[64] &= 1
		d.item = c05Item{ts, b}
		return d
	case "bad-v":
		s := c05Sign(v, tg, ts)
		s[64] = rapid.SampledFrom([]byte{2, 3, 8, 9, 27, 28, 31, 128, 255}).Draw(rt, "v")
		d.item = c05Item{ts, s}
		return d
	case "sig64":
		d.item = c05Item{ts, c05Sign(v, tg, ts)[:64]}
		return d
	case "zero65":
		d.item = c05Item{ts, make([]byte, 65)}
		return d
	case "empty-sig":
		d.item = c05Item{ts, []byte{}}
		return d
	case "flipped-bit":
		s := c05Sign(v, tg, ts)
		s[rapid.IntRange(0, 63).Draw(rt, "flipByte")] ^= 1 << uint(rapid.IntRange(0, 7).Draw(rt, "flipBit"))
		d.item = c05Item{ts, s}
		return d
	}
	d.item = c05Item{ts, c05Sign(v, alt, ts)}
	return d
}

type c05Case struct {
	n     int
	tg    c05Target
	items []c05Desc
}

func (c *c05Case) String() string {
	var sb strings.Builder
	fmt.Fprintf(&sb, "n=%d target{%v} items=[", c.n, c.tg)
	for i, it := range c.items {
		if i > 0 {
			sb.WriteByte(' ')
		}
		if it.signer >= 0 {
			fmt.Fprintf(&sb, "v%d@%d", it.signer, it.item.Timestamp)
		} else {
			fmt.Fprintf(&sb, "%s@%d:%x", it.class, it.item.Timestamp, c05Short(it.item.Signature))
		}
	}
	sb.WriteByte(']')
	return sb.String()
}

func c05Short(b []byte) []byte {
	if len(b) > 6 {
		return append(append([]byte{}, b[:4]...), b[len(b)-2:]...)
	}
	return b
}

func c05Draw(rt *rapid.T) *c05Case {
	return c05DrawWith(rt, rapid.IntRange(1, 10).Draw(rt, "n"), nil)
}

func c05DrawWith(rt *rapid.T, n int, fix func(*c05Target)) *c05Case {
	c := &c05Case{}
	c.n = n
	c.tg = c05Target{
		height:  int64(rapid.IntRange(1, 1000).Draw(rt, "height")),
		round:   int32(rapid.IntRange(0, 5).Draw(rt, "round")),
		vtype:   consensus.VoteTypePrecommit,
		block:   byte(rapid.IntRange(0, 200).Draw(rt, "block")),
		psCount: uint16(rapid.IntRange(1, 5).Draw(rt, "psCount")),
		psHash:  byte(rapid.IntRange(0, 200).Draw(rt, "psHash")),
		appData: uint64(rapid.SampledFrom([]int{0, 0, 1, 1 << 16, 3<<16 | 2}).Draw(rt, "appData")),
	}
	if fix != nil {
		fix(&c.tg)
	}
	need := c.n*2/3 + 1 // smallest count with 3*count > 2n
	var g int
	switch rapid.IntRange(0, 9).Draw(rt, "goodMode") {
	case 0, 1, 2:
		g = need
	case 3, 4:
		g = need - 1
	case 5:
		g = need + 1
	case 6:
		g = c.n
	default:
		g = rapid.IntRange(0, c.n).Draw(rt, "good")
	}
	if g > c.n {
		g = c.n
	}
	if g < 0 {
		g = 0
	}
	// which validators sign: a drawn subset of size g
	perm := c05Perm(rt, c.n, "signers")
	signers := append([]int{}, perm[:g]...)
	free := perm[g:]
	var good []c05Desc
	for _, s := range signers {
		ts := int64(rapid.IntRange(5000, 5003).Draw(rt, "ts"))
		good = append(good, c05Desc{class: "good", signer: s, item: c05Item{ts, c05Sign(s, c.tg, ts)}})
	}
	nb := rapid.SampledFrom([]int{0, 0, 0, 1, 1, 1, 1, 2, 3}).Draw(rt, "nbad")
	items := append([]c05Desc{}, good...)
	for i := 0; i < nb; i++ {
		cl := rapid.SampledFrom(c05BadClasses).Draw(rt, "badclass")
		items = append(items, c05MakeBad(rt, cl, c.n, c.tg, good, free))
	}
	// random order
	p := c05Perm(rt, len(items), "order")
	for _, i := range p {
		c.items = append(c.items, items[i])
	}
	return c
}

func c05Perm(rt *rapid.T, n int, label string) []int {
	keys := rapid.SliceOfN(rapid.IntRange(0, 1<<20), n, n).Draw(rt, label)
	p := make([]int, n)
	for i := range p {
		p[i] = i
	}
	sort.SliceStable(p, func(a, b int) bool { return keys[p[a]] < keys[p[b]] })
	return p
}

func (c *c05Case) wire() []byte {
	w := &c05Wire{Round: c.tg.round, PSID: c.tg.psid()}
	for _, it := range c.items {
		w.Items = append(w.Items, it.item)
	}
	if w.Items == nil {
		w.Items = []c05Item{}
	}
	return codec.BC.MustMarshalToBytes(w)
}

// reference decision
func (c *c05Case) ref() (accept bool, nbad int, signers map[int]bool) {
	signers = map[int]bool{}
	for _, it := range c.items {
		if it.signer < 0 {
			nbad++
			continue
		}
		signers[it.signer] = true
	}
	accept = nbad == 0 && len(signers) == len(c.items) && 3*len(c.items) > 2*c.n
	return
}

func c05Verify(cvs module.CommitVoteSet, blk module.BlockData, vl module.ValidatorList) (voted []bool, err error, panicked interface{}) {
	defer func() {
		if r := recover(); r != nil {
			panicked = r
		}
	}()
	voted, err = cvs.VerifyBlock(blk, vl)
	return
}

func c05ToVoteList(bs []byte, c *c05Case, vl module.ValidatorList) (err error, panicked interface{}) {
	defer func() {
		if r := recover(); r != nil {
			panicked = r
		}
	}()
	_, err = consensus.WALRecordBytesFromCommitVoteListBytes(bs, c.tg.height, c.tg.bid(), nil, vl, c05NoNTS{}, db.NewMapDB(), codec.BC)
	return
}

func c05Check(rec *ev.Rec, c *c05Case) string {
	vl, err := c05Validators(c.n)
	if err != nil {
		ev.Inconclusive("C05 validator list: %v", err)
	}
	bs := c.wire()
	want, nbad, signers := c.ref()
	cvs := consensus.NewCommitVoteSetFromBytes(bs)
	if cvs == nil {
		// undecodable = rejected; only a fully valid list must be decodable for the check to mean anything
		rec.Label("rejected-at-decode")
		if want {
			return fmt.Sprintf("harness: a fully valid list does not decode: %v", c)
		}
		return ""
	}
	blk := &c05Block{h: c.tg.height, id: c.tg.bid()}
	voted, verr, p := c05Verify(cvs, blk, vl)
	if p != nil {
		return fmt.Sprintf("VerifyBlock panicked (%v) instead of rejecting %v", p, c)
	}
	if verr == nil && !want {
		return fmt.Sprintf("VerifyBlock accepted %v: %d bad item(s), %d distinct validator signer(s) in %d items, needs 3*signers > 2*%d", c, nbad, len(signers), len(c.items), c.n)
	}
	if verr == nil {
		rec.Label("accepted")
		if len(voted) != c.n {
			return fmt.Sprintf("VerifyBlock accepted %v but the voter bitmap has %d entries for %d validators", c, len(voted), c.n)
		}
		for i, v := range voted {
			if v != signers[i] {
				return fmt.Sprintf("VerifyBlock accepted %v but the voter bitmap says validator %d voted=%v, signed=%v", c, i, v, signers[i])
			}
		}
	} else if want {
		rec.Label("valid-list-rejected")
	}
	// conversion path (fast sync / WAL)
	cerr, p := c05ToVoteList(bs, c, vl)
	if p != nil {
		return fmt.Sprintf("CommitVoteList.toVoteList (via WALRecordBytesFromCommitVoteListBytes) panicked (%v) for %v", p, c)
	}
	// toVoteList does not decide acceptance (no threshold, duplicates are resolved later by the
	// vote set); it must only refuse items that are not validator signatures over the target.
	foreign := 0
	for _, it := range c.items {
		if it.signer < 0 && !strings.HasPrefix(it.class, "dup-") {
			foreign++
		}
	}
	if cerr == nil && foreign > 0 {
		return fmt.Sprintf("CommitVoteList.toVoteList converted %v although %d item(s) are not signed by a validator over the target", c, foreign)
	}
	return ""
}

// ---- import path: block.Manager.Import -> verifyNewBlock -> verifyProofForLastBlock ----

type c05T struct{ errs []string }

var (
	c05NullOnce sync.Once
	c05Null     *os.File
)

func (t *c05T) Errorf(format string, args ...interface{}) {
	t.errs = append(t.errs, fmt.Sprintf(format, args...))
}
func (t *c05T) Logf(format string, args ...any) {}

func c05Median(items []c05Desc) int64 {
	l := len(items)
	if l == 0 {
		return 0
	}
	ts := make([]int64, l)
	for i := range ts {
		ts[i] = items[i].item.Timestamp
	}
	sort.Slice(ts, func(i, j int) bool { return ts[i] < ts[j] })
	if l%2 == 1 {
		return ts[l/2]
	}
	return (ts[l/2-1] + ts[l/2]) / 2
}

// c05ImportEnv is a real node (block manager + service manager on a MapDB) whose genesis names
// validators 0..n-1, with block 1 finalized and a proposed block 2 (carrying a full valid
// certificate for block 1) serialized, ready to have its certificate swapped.
type c05ImportEnv struct {
	tt     *c05T
	node   *gtest.Node
	blk1   module.Block
	header block.V2HeaderFormat
	body   block.V2BodyFormat
}

func c05Genesis(n int) string {
	var vals []string
	for i := 0; i < n; i++ {
		vals = append(vals, fmt.Sprintf("%q", gen.WalletFromIndex(i).Address().String()))
	}
	return fmt.Sprintf(`{"accounts":[{"name":"treasury","address":"hx1000000000000000000000000000000000000000","balance":"0x0"},{"name":"god","address":"hx0000000000000000000000000000000000000000","balance":"0x0"}],"message":"","nid":"0x1","chain":{"validatorList":[%s]}}`, strings.Join(vals, ","))
}

func c05NewImportEnv(n int) (env *c05ImportEnv, problem string) {
	defer func() {
		if r := recover(); r != nil {
			problem = fmt.Sprintf("panic while assembling the node: %v", r)
		}
	}()
	gs := c05Genesis(n)
	tt := &c05T{}
	// the node's logger (trace level) captures os.Stderr when it is created: give it /dev/null
	c05NullOnce.Do(func() { c05Null, _ = os.OpenFile(os.DevNull, os.O_WRONLY, 0) })
	if c05Null != nil {
		saved := os.Stderr
		os.Stderr = c05Null
		defer func() { os.Stderr = saved }()
	}
	node := gtest.NewNode(tt, gtest.UseGenesis(gs), gtest.UseWallet(gen.WalletFromIndex(0)))
	env = &c05ImportEnv{tt: tt, node: node}
	node.ProposeFinalizeBlock(consensus.NewEmptyCommitVoteList())
	if len(tt.errs) > 0 {
		return env, "block 1: " + strings.Join(tt.errs, "; ")
	}
	env.blk1 = node.LastBlock
	return env, ""
}

func (e *c05ImportEnv) close() {
	defer func() { _ = recover() }()
	e.node.Close()
}

// prepare proposes block 2 with the full valid certificate and keeps its wire form.
func (e *c05ImportEnv) prepare(full *c05Case) string {
	cvs := consensus.NewCommitVoteSetFromBytes(full.wire())
	if cvs == nil {
		return "full certificate does not decode"
	}
	bc, err, cbErr := gtest.ProposeBlock(e.node.BM, e.blk1.ID(), cvs)
	if err != nil || cbErr != nil {
		return fmt.Sprintf("propose block 2: %v %v", err, cbErr)
	}
	defer bc.Dispose()
	var hb, bb bytes.Buffer
	if err := bc.MarshalHeader(&hb); err != nil {
		return err.Error()
	}
	if err := bc.MarshalBody(&bb); err != nil {
		return err.Error()
	}
	if _, err := codec.BC.UnmarshalFromBytes(hb.Bytes(), &e.header); err != nil {
		return "decode header: " + err.Error()
	}
	if _, err := codec.BC.UnmarshalFromBytes(bb.Bytes(), &e.body); err != nil {
		return "decode body: " + err.Error()
	}
	return ""
}

// importWith swaps the certificate of block 2 and imports it. accepted = Import did not return an
// error (verifyNewBlock passed; execution then runs in the background and is cancelled/awaited).
func (e *c05ImportEnv) importWith(c *c05Case) (accepted bool, ierr error, panicked interface{}) {
	defer func() {
		if r := recover(); r != nil {
			panicked = fmt.Sprintf("%v\n%s", r, debug.Stack())
		}
	}()
	votes := c.wire()
	h := e.header
	b := e.body
	b.Votes = votes
	h.VotesHash = crypto.SHA3Sum256(votes)
	h.Timestamp = c05Median(c.items)
	var buf bytes.Buffer
	buf.Write(codec.BC.MustMarshalToBytes(&h))
	buf.Write(codec.BC.MustMarshalToBytes(&b))
	ch := make(chan module.BlockCandidate, 1)
	canceler, err := e.node.BM.Import(&buf, 0, func(bc module.BlockCandidate, err error) {
		ch <- bc
	})
	if err != nil {
		return false, err, nil
	}
	if !canceler.Cancel() {
		select {
		case bc := <-ch:
			if bc != nil {
				bc.Dispose()
			}
		case <-time.After(10 * time.Second):
		}
	}
	return true, nil, nil
}

func TestC05(t *testing.T) {
	rec := ev.New("C05", "validator sets of 1..10 keys, a target (height, round, block id, part-set id + app data), a commit vote list = valid precommits of a drawn subset of validators (size biased to the 2/3 threshold and +-1) plus 0..3 bad items (identical duplicate, second signature of the same validator, outsider key, signature over another block/round/part-set/app-data/height/vote type, altered timestamp, random 65 bytes, V not in {0,1}, 64-byte, empty, all-zero, one flipped bit) in drawn order, encoded to the wire form and decoded with NewCommitVoteSetFromBytes; non-trivial = number of good items within +-1 of the threshold, or exactly one bad item among enough good ones; distinct by the rendered list")
	defer rec.Flush(t)
	t.Run("lists", func(t *testing.T) {
		ev.Check(t, 2500, 30000, func(rt *rapid.T) {
			c := c05Draw(rt)
			_, nbad, signers := c.ref()
			need := c.n*2/3 + 1
			g := len(signers)
			nt := (nbad == 0 && g >= need-1 && g <= need+1) || (nbad == 1 && g >= need)
			labels := []string{fmt.Sprintf("bad=%d", nbad)}
			switch {
			case g < need:
				labels = append(labels, "good<threshold")
			case g == need:
				labels = append(labels, "good=threshold")
			default:
				labels = append(labels, "good>threshold")
			}
			for _, it := range c.items {
				if it.signer < 0 {
					labels = append(labels, "class:"+it.class)
				}
			}
			rec.Case(c.String(), nt, labels...)
			if m := c05Check(rec, c); m != "" {
				rt.Fatalf("C05 violated: %s", m)
			}
		})
	})
	t.Run("validatorChange", func(t *testing.T) {
		ev.Check(t, 60, 1500, func(rt *rapid.T) { c05ValidatorChange(rt, rec) })
	})
	t.Run("fastSync", func(t *testing.T) {
		gl := log.GlobalLogger()
		lv := gl.GetLevel()
		gl.SetLevel(log.WarnLevel)
		defer gl.SetLevel(lv)
		ev.Check(t, 400, 6000, func(rt *rapid.T) { c05FastSync(rt, rec) })
	})
	t.Run("import", func(t *testing.T) {
		// the package-global logger (db writer etc.) is at debug level: quieten it for this sub-check
		gl := log.GlobalLogger()
		lv := gl.GetLevel()
		gl.SetLevel(log.WarnLevel)
		defer gl.SetLevel(lv)
		ev.Check(t, 80, 1500, func(rt *rapid.T) {
			n := rapid.SampledFrom([]int{1, 2, 3, 4, 4, 5, 6, 7, 7, 10}).Draw(rt, "n")
			env, problem := c05NewImportEnv(n)
			if env != nil {
				defer env.close()
			}
			if problem != "" {
				ev.Inconclusive("C05 import path: cannot assemble a node: %s", problem)
			}
			fix := func(tg *c05Target) {
				tg.height, tg.block, tg.realID = env.blk1.Height(), 0, env.blk1.ID()
			}
			c := c05DrawWith(rt, n, fix)
			// the full certificate: every validator signs the same target
			full := &c05Case{n: n, tg: c.tg}
			for i := 0; i < n; i++ {
				full.items = append(full.items, c05Desc{class: "good", signer: i, item: c05Item{5001, c05Sign(i, c.tg, 5001)}})
			}
			if p := env.prepare(full); p != "" {
				ev.Inconclusive("C05 import path: %s", p)
			}
			if ok, err, p := env.importWith(full); !ok || p != nil {
				ev.Inconclusive("C05 import path: block 2 with the full valid certificate is not importable: %v %v", err, p)
			}
			want, nbad, signers := c.ref()
			need := n*2/3 + 1
			g := len(signers)
			labels := []string{"import", fmt.Sprintf("bad=%d", nbad)}
			for _, it := range c.items {
				if it.signer < 0 {
					labels = append(labels, "class:"+it.class)
				}
			}
			rec.Case("import "+c.String(), (nbad == 0 && g >= need-1 && g <= need+1) || (nbad == 1 && g >= need), labels...)
			ok, ierr, p := env.importWith(c)
			if p != nil {
				rt.Fatalf("C05 violated: BlockManager.Import panicked (%v) on block 2 whose certificate for block 1 is %v", p, c)
			}
			if ok && !want {
				rt.Fatalf("C05 violated: BlockManager.Import accepted block 2 whose certificate for block 1 is %v: %d bad item(s), %d distinct validator signer(s) in %d items, needs 3*signers > 2*%d", c, nbad, g, len(c.items), n)
			}
			if ok {
				rec.Label("import-accepted")
			} else if want {
				rec.Label("import-valid-list-rejected:" + c05Trim(ierr))
			}
		})
	})
}

func c05Trim(err error) string {
	s := fmt.Sprint(err)
	if i := strings.IndexByte(s, '\n'); i >= 0 {
		s = s[:i]
	}
	if len(s) > 60 {
		s = s[:60]
	}
	return s
}

// ---- the validator set "designated by its parent" when the set changes ----
//
// A chain is built on a real node: genesis names the old set O; block 1 carries a transaction that
// replaces the validator set by N (drawn: members leave, new keys join, the size - and with it the
// threshold - changes). The votes for block k are verified against the set designated by block k-1
// (the next-validators of block k-1, which lags the execution result by one block), so blocks 1 and 2
// are still certified by O and block 3 is the first one that must be certified by N. Block 4 is proposed
// with a full certificate of N for block 3, then its certificate is replaced by a drawn one (all of N,
// around N's threshold, members of O only, enough for O's threshold but not for N's, mixtures) and the
// block is imported. Reference: accept <=> all signers are distinct members of N and 3*signers > 2*|N|.

func c05Cert(tg c05Target, keys []int, ts int64) []byte {
	w := &c05Wire{Round: tg.round, PSID: tg.psid(), Items: []c05Item{}}
	for i, k := range keys {
		w.Items = append(w.Items, c05Item{Timestamp: ts + int64(i), Signature: c05Sign(k, tg, ts+int64(i))})
	}
	return codec.BC.MustMarshalToBytes(w)
}

func c05ValidatorChange(rt *rapid.T, rec *ev.Rec) {
	nOld := rapid.IntRange(1, 7).Draw(rt, "nOld")
	// new set: drawn subset of the old keys plus 0..5 new keys (indices 20..)
	var newKeys []int
	for i := 0; i < nOld; i++ {
		if rapid.IntRange(0, 2).Draw(rt, "stay") != 0 {
			newKeys = append(newKeys, i)
		}
	}
	for i, n := 0, rapid.IntRange(0, 5).Draw(rt, "joining"); i < n; i++ {
		newKeys = append(newKeys, 20+i)
	}
	if len(newKeys) == 0 {
		newKeys = []int{20}
	}
	inNew := map[int]bool{}
	for _, k := range newKeys {
		inNew[k] = true
	}
	oldKeys := make([]int, nOld)
	for i := range oldKeys {
		oldKeys[i] = i
	}
	env, problem := c05NewImportEnv(nOld)
	defer func() {
		if env != nil {
			env.close()
		}
	}()
	if problem != "" {
		ev.Inconclusive("C05 validator change: cannot assemble a node: %s", problem)
	}
	node := env.node
	// c05NewImportEnv finalized block 1 without transactions: the change goes into block 2, so the first
	// block certified by N is block 4 and the candidate is block 5
	addrs := make([]module.Address, len(newKeys))
	for i, k := range newKeys {
		addrs[i] = gen.WalletFromIndex(k).Address()
	}
	tgFor := func(blk module.Block) c05Target {
		return c05Target{height: blk.Height(), round: 0, vtype: consensus.VoteTypePrecommit, psCount: 1, psHash: 7, realID: blk.ID()}
	}
	step := func(what string, f func()) {
		f()
		if len(env.tt.errs) > 0 {
			ev.Inconclusive("C05 validator change: %s: %s", what, strings.Join(env.tt.errs, "; "))
		}
	}
	ts := int64(1000)
	step("block 2 (carries the validator change)", func() {
		node.ProposeFinalizeBlockWithTX(consensus.NewCommitVoteSetFromBytes(c05Cert(tgFor(node.LastBlock), oldKeys, ts)), node.NewTx().SetValidators(addrs...).String())
	})
	ts += 100
	step("block 3", func() {
		node.ProposeFinalizeBlock(consensus.NewCommitVoteSetFromBytes(c05Cert(tgFor(node.LastBlock), oldKeys, ts)))
	})
	ts += 100
	step("block 4 (first block voted by the new set)", func() {
		node.ProposeFinalizeBlock(consensus.NewCommitVoteSetFromBytes(c05Cert(tgFor(node.LastBlock), oldKeys, ts)))
	})
	ts += 100
	blk4 := node.LastBlock
	// sanity of the harness' reading of the lag: block 4's voters are the new set
	tg := tgFor(blk4)
	full := consensus.NewCommitVoteSetFromBytes(c05Cert(tg, newKeys, ts))
	bc, err, cbErr := gtest.ProposeBlock(node.BM, blk4.ID(), full)
	if err != nil || cbErr != nil {
		// The node does not take N's certificate for block 4. If it takes a certificate of the OLD set instead
		// although that one is not acceptable by the reference, the block manager accepts block 4 as committed
		// on votes of the wrong validator set (Propose verifies the votes it is given exactly like Import).
		refOld := 3*nOld > 2*len(newKeys)
		for _, k := range oldKeys {
			if !inNew[k] {
				refOld = false
			}
		}
		bc2, err2, cbErr2 := gtest.ProposeBlock(node.BM, blk4.ID(), consensus.NewCommitVoteSetFromBytes(c05Cert(tg, oldKeys, ts)))
		if err2 == nil && cbErr2 == nil {
			bc2.Dispose()
			if !refOld {
				rec.Case(fmt.Sprintf("validatorChange old=%v new=%v: propose on block 4", oldKeys, newKeys), true, "validatorChange", "validatorChange:wrongSetAccepted")
				rt.Fatalf("C05 violated: block 4 is accepted as committed with the votes of the previous validator set %v (Propose on it succeeds) and not with those of the set %v designated by its parent (%v)", oldKeys, newKeys, err)
			}
		}
		ev.Inconclusive("C05 validator change: block 5 with the full certificate of the new set cannot be proposed (old=%v new=%v): %v %v", oldKeys, newKeys, err, cbErr)
	}
	var hb, bb bytes.Buffer
	if bc.MarshalHeader(&hb) != nil || bc.MarshalBody(&bb) != nil {
		ev.Inconclusive("C05 validator change: cannot serialise block 5")
	}
	bc.Dispose()
	if _, err := codec.BC.UnmarshalFromBytes(hb.Bytes(), &env.header); err != nil {
		ev.Inconclusive("C05 validator change: %v", err)
	}
	if _, err := codec.BC.UnmarshalFromBytes(bb.Bytes(), &env.body); err != nil {
		ev.Inconclusive("C05 validator change: %v", err)
	}
	nNew := len(newKeys)
	needNew := nNew*2/3 + 1
	needOld := nOld*2/3 + 1
	// certificate to present
	var signers []int
	mode := rapid.SampledFrom([]string{"allNew", "newAtThreshold", "newBelowThreshold", "oldOnly", "oldThresholdOnly", "mixed", "leaversAdded"}).Draw(rt, "mode")
	var leavers []int
	for _, k := range oldKeys {
		if !inNew[k] {
			leavers = append(leavers, k)
		}
	}
	perm := func(ks []int, label string) []int {
		out := make([]int, len(ks))
		for i, j := range c05Perm(rt, len(ks), label) {
			out[i] = ks[j]
		}
		return out
	}
	switch mode {
	case "allNew":
		signers = perm(newKeys, "p")
	case "newAtThreshold":
		signers = perm(newKeys, "p")[:needNew]
	case "newBelowThreshold":
		signers = perm(newKeys, "p")[:needNew-1]
	case "oldOnly":
		signers = perm(oldKeys, "p")
	case "oldThresholdOnly":
		signers = perm(oldKeys, "p")[:needOld]
	case "mixed":
		all := append(append([]int{}, newKeys...), leavers...)
		k := rapid.IntRange(0, len(all)).Draw(rt, "count")
		signers = perm(all, "p")[:k]
	default:
		signers = append(perm(newKeys, "p")[:needNew-1], leavers...)
	}
	want := true
	seen := map[int]bool{}
	for _, k := range signers {
		if !inNew[k] || seen[k] {
			want = false
		}
		seen[k] = true
	}
	if 3*len(signers) <= 2*nNew {
		want = false
	}
	votes := c05Cert(tg, signers, ts)
	h, b := env.header, env.body
	b.Votes = votes
	h.VotesHash = crypto.SHA3Sum256(votes)
	var tss []int64
	for i := range signers {
		tss = append(tss, ts+int64(i))
	}
	if len(tss) > 0 {
		sort.Slice(tss, func(i, j int) bool { return tss[i] < tss[j] })
		if l := len(tss); l%2 == 1 {
			h.Timestamp = tss[l/2]
		} else {
			h.Timestamp = (tss[l/2-1] + tss[l/2]) / 2
		}
	}
	var buf bytes.Buffer
	buf.Write(codec.BC.MustMarshalToBytes(&h))
	buf.Write(codec.BC.MustMarshalToBytes(&b))
	accepted, ierr, panicked := func() (acc bool, ierr error, pn interface{}) {
		defer func() {
			if r := recover(); r != nil {
				pn = fmt.Sprintf("%v", r)
			}
		}()
		ch := make(chan module.BlockCandidate, 1)
		canceler, err := node.BM.Import(&buf, 0, func(bc module.BlockCandidate, err error) { ch <- bc })
		if err != nil {
			return false, err, nil
		}
		if !canceler.Cancel() {
			select {
			case bc := <-ch:
				if bc != nil {
					bc.Dispose()
				}
			case <-time.After(10 * time.Second):
			}
		}
		return true, nil, nil
	}()
	desc := fmt.Sprintf("validatorChange old=%v new=%v (need %d of %d; old rule needs %d of %d) mode=%s signers=%v", oldKeys, newKeys, needNew, nNew, needOld, nOld, mode, signers)
	labels := []string{"validatorChange", "validatorChange:" + mode}
	if want {
		labels = append(labels, "validatorChange:expectAccept")
	} else {
		labels = append(labels, "validatorChange:expectReject")
	}
	oldRuleAccepts := len(signers) >= needOld
	for _, k := range signers {
		if k >= nOld {
			oldRuleAccepts = false
		}
	}
	rec.Case(desc, oldRuleAccepts != want, labels...)
	switch {
	case panicked != nil:
		rt.Fatalf("C05 violated: Import panicked (%v) | %s", panicked, desc)
	case accepted && !want:
		rt.Fatalf("C05 violated: block 5 accepted although its certificate for block 4 is not made of more than two thirds of distinct members of the validator set designated by block 3 | %s", desc)
	case !accepted && want:
		rec.Label("validatorChange:valid-list-rejected:" + c05Trim(ierr))
		if mode == "allNew" {
			ev.Inconclusive("C05 validator change: the full certificate of the new set is rejected at import (%v): the harness misreads which set votes for block 4 | %s", ierr, desc)
		}
	}
}

// ---- the fast-sync path: consensus.processBlock ----
//
// A real consensus engine runs on a real node X (not a validator) at height 1. A second node with the same
// genesis produced the real block 1. Before the block result arrives, X may already have received votes of
// the validators over the network (drawn: none, nil precommits up to a quorum, precommits for another block
// up to a quorum, precommits for exactly the target, the same in another round, prevotes for the target).
// Then a fast-sync peer hands X block 1 with a drawn commit vote list (the same generator as "lists", its
// target being the real block id / real part set id most of the time) through ReceiveBlockResult, exactly
// like fastsync's client does.
//
// processBlock merges the list into the engine's vote set and asks that set for the decision, so precommits
// the node received earlier count as well. Reference (an "only if", like everywhere in C05): if the result
// is consumed at its height, then
//   - the list's target is the real block: real id, real part set id (the engine derives it from the block),
//   - S = {validators with a valid precommit in the list} + {validators whose precommit for exactly the
//     list's (round, block id, part set id, app data) X received before} has 3*|S| > 2*n.
// Everything the engine could count was made by the harness, so S is an upper bound of what it may count.
// A rejected valid list is only labelled.

type c05BlockResult struct {
	blk      module.BlockData
	votes    []byte
	consumed bool
	rejected bool
}

func (b *c05BlockResult) Block() module.BlockData { return b.blk }
func (b *c05BlockResult) Votes() []byte           { return b.votes }
func (b *c05BlockResult) Consume()                { b.consumed = true }
func (b *c05BlockResult) Reject()                 { b.rejected = true }

func c05FastSync(rt *rapid.T, rec *ev.Rec) {
	n := rapid.SampledFrom([]int{1, 2, 3, 4, 4, 4, 5, 6, 7, 7, 10}).Draw(rt, "n")
	need := n*2/3 + 1
	prod, problem := c05NewImportEnv(n)
	defer func() {
		if prod != nil {
			prod.close()
		}
	}()
	if problem != "" {
		ev.Inconclusive("C05 fast sync: cannot assemble the producer: %s", problem)
	}
	blk1 := prod.blk1
	var bb bytes.Buffer
	if blk1.MarshalHeader(&bb) != nil || blk1.MarshalBody(&bb) != nil {
		ev.Inconclusive("C05 fast sync: cannot serialise block 1")
	}
	psb := consensus.NewPartSetBuffer(consensus.ConfigBlockPartSize)
	_, _ = psb.Write(bb.Bytes())
	realPS := psb.PartSet().ID()

	// the syncing node
	xt := &c05T{}
	var x *gtest.Node
	func() {
		defer func() {
			if r := recover(); r != nil {
				problem = fmt.Sprintf("panic while assembling the syncing node: %v", r)
			}
		}()
		if c05Null != nil {
			saved := os.Stderr
			os.Stderr = c05Null
			defer func() { os.Stderr = saved }()
		}
		x = gtest.NewNode(xt, gtest.UseGenesis(c05Genesis(n)), gtest.UseWallet(gen.WalletFromIndex(200)))
	}()
	if x != nil {
		defer func() {
			defer func() { _ = recover() }()
			x.Close()
		}()
	}
	if problem != "" || len(xt.errs) > 0 {
		ev.Inconclusive("C05 fast sync: cannot assemble the syncing node: %s %v", problem, xt.errs)
	}
	if err := x.CS.Start(); err != nil {
		ev.Inconclusive("C05 fast sync: engine does not start: %v", err)
	}
	consensus.VerifSimFreezeTimer(x.CS)
	eng, ok := x.CS.(interface {
		ReceiveBlockResult(br fastsync.BlockResult)
	})
	if !ok {
		ev.Inconclusive("C05 fast sync: the engine has no ReceiveBlockResult")
	}
	blk, err := x.BM.NewBlockDataFromReader(bytes.NewReader(bb.Bytes()))
	if err != nil {
		ev.Inconclusive("C05 fast sync: block 1 does not decode on the syncing node: %v", err)
	}

	realApp := consensus.VerifSimPSIDAppData(1, 0)
	fix := func(tg *c05Target) {
		tg.height, tg.realID, tg.realPS = 1, blk1.ID(), realPS
		tg.round = int32(rapid.SampledFrom([]int{0, 0, 0, 1, 2}).Draw(rt, "listRound"))
		if rapid.IntRange(0, 7).Draw(rt, "otherBlock") != 0 {
			tg.block = 0
		} else {
			tg.block = byte(rapid.IntRange(1, 3).Draw(rt, "blockSel"))
		}
		if rapid.IntRange(0, 7).Draw(rt, "otherPS") != 0 {
			tg.psCount = 0
		}
		if rapid.IntRange(0, 7).Draw(rt, "otherApp") != 0 {
			tg.appData = realApp
		}
	}
	c := c05DrawWith(rt, n, fix)
	realTarget := c.tg.block == 0 && c.tg.psCount == 0

	// what X hears before the block result
	mode := rapid.SampledFrom([]string{"none", "none", "nilQuorum", "nilQuorum", "nilSome", "otherBlockQuorum", "otherBlockQuorum",
		"targetSome", "targetSome", "targetToThreshold", "targetOtherRound", "targetPrevotes", "mixed"}).Draw(rt, "heard")
	type heard struct {
		signer int
		what   string
		round  int32
	}
	var hs []heard
	perm := c05Perm(rt, n, "heardFrom")
	listSigners := map[int]bool{}
	for _, it := range c.items {
		if it.signer >= 0 {
			listSigners[it.signer] = true
		}
	}
	var outside []int // validators without an item in the list, in drawn order
	for _, v := range perm {
		if !listSigners[v] {
			outside = append(outside, v)
		}
	}
	take := func(from []int, k int) []int {
		if k > len(from) {
			k = len(from)
		}
		if k < 0 {
			k = 0
		}
		return from[:k]
	}
	switch mode {
	case "nilQuorum":
		for _, v := range take(perm, need+rapid.IntRange(0, n-need).Draw(rt, "extra")) {
			hs = append(hs, heard{v, "nil", c.tg.round})
		}
	case "nilSome":
		for _, v := range take(perm, rapid.IntRange(1, n).Draw(rt, "k")) {
			hs = append(hs, heard{v, "nil", c.tg.round})
		}
	case "otherBlockQuorum":
		for _, v := range take(perm, need+rapid.IntRange(0, n-need).Draw(rt, "extra")) {
			hs = append(hs, heard{v, "other", c.tg.round})
		}
	case "targetSome":
		for _, v := range take(perm, rapid.IntRange(1, n).Draw(rt, "k")) {
			hs = append(hs, heard{v, "target", c.tg.round})
		}
	case "targetToThreshold":
		// validators outside the list bring the union to the threshold, one below it, or one above
		k := need - len(listSigners) + rapid.IntRange(-1, 1).Draw(rt, "delta")
		for _, v := range take(outside, k) {
			hs = append(hs, heard{v, "target", c.tg.round})
		}
	case "targetOtherRound":
		for _, v := range take(perm, rapid.IntRange(1, n).Draw(rt, "k")) {
			hs = append(hs, heard{v, "target", c.tg.round + 1})
		}
	case "targetPrevotes":
		for _, v := range take(perm, rapid.IntRange(1, n).Draw(rt, "k")) {
			hs = append(hs, heard{v, "targetPrevote", c.tg.round})
		}
	case "mixed":
		for _, v := range take(perm, rapid.IntRange(1, n).Draw(rt, "k")) {
			hs = append(hs, heard{v, rapid.SampledFrom([]string{"nil", "other", "target", "targetPrevote"}).Draw(rt, "what"),
				c.tg.round + int32(rapid.SampledFrom([]int{0, 0, 0, 1}).Draw(rt, "dr"))})
		}
	}
	// The engine identifies a block by its part set id (a Merkle root over the block's bytes, so the id follows
	// from it); a correct validator never signs a pair (block id, part set id) that belongs to no block. Such
	// pairs may come from Byzantine validators only, so at most f = (n-1)/3 signers utter them.
	if (c.tg.block == 0) != (c.tg.psCount == 0) {
		f, k := (n-1)/3, 0
		var kept []heard
		for _, h := range hs {
			if h.what == "target" || h.what == "targetPrevote" {
				if k >= f {
					continue
				}
				k++
			}
			kept = append(kept, h)
		}
		hs = kept
	}
	other := c.tg
	other.block = 77
	other.psCount, other.psHash = 1, 99
	support := map[int]bool{}
	for v := range listSigners {
		support[v] = true
	}
	var hdesc []string
	for _, h := range hs {
		w := gen.WalletFromIndex(h.signer)
		var vm *consensus.VoteMessage
		ts := int64(4000 + h.signer)
		switch h.what {
		case "nil":
			vm = consensus.VerifSimNewVote(w, consensus.VoteTypePrecommit, 1, h.round, []byte{0x01}, nil, 0, ts)
		case "other":
			vm = consensus.VerifSimNewVote(w, consensus.VoteTypePrecommit, 1, h.round, other.bid(), other.psid().ID(), other.appData, ts)
		case "target":
			vm = consensus.VerifSimNewVote(w, consensus.VoteTypePrecommit, 1, h.round, c.tg.bid(), c.tg.psid().ID(), c.tg.appData, ts)
			if h.round == c.tg.round {
				support[h.signer] = true
			}
		case "targetPrevote":
			vm = consensus.VerifSimNewVote(w, consensus.VoteTypePrevote, 1, h.round, c.tg.bid(), c.tg.psid().ID(), c.tg.appData, ts)
		}
		pi, bs := consensus.VerifSimMarshal(vm)
		func() {
			defer func() {
				if r := recover(); r != nil {
					rt.Fatalf("C05 violated: the engine panicked (%v) on a %s vote of validator %d", r, h.what, h.signer)
				}
			}()
			_, _ = x.CS.(module.Reactor).OnReceive(pi, bs, network.NewPeerIDFromAddress(w.Address()))
		}()
		hdesc = append(hdesc, fmt.Sprintf("v%d:%s@r%d", h.signer, h.what, h.round))
	}
	st0 := consensus.VerifSimGetState(x.CS)
	if st0.Height != 1 {
		ev.Inconclusive("C05 fast sync: the syncing node left height 1 (%+v) on votes alone", st0)
	}

	_, nbad, _ := c.ref()
	desc := fmt.Sprintf("fastSync heard=%s[%s] block1=%x realPS=%v list{%v}", mode, strings.Join(hdesc, " "), c05Short(blk1.ID()), realPS, c)
	enough := 3*len(support) > 2*n
	labels := []string{"fastSync", "fastSync:heard:" + mode, fmt.Sprintf("fastSync:bad=%d", nbad)}
	if !realTarget {
		labels = append(labels, "fastSync:listTargetsOtherThing")
	}
	g := len(support)
	nontrivial := (nbad == 0 && g >= need-1 && g <= need+1) || (nbad == 1 && g >= need) ||
		((mode == "nilQuorum" || mode == "otherBlockQuorum") && len(listSigners) < need)
	rec.Case(desc, nontrivial, labels...)
	br := &c05BlockResult{blk: blk, votes: c.wire()}
	func() {
		defer func() {
			if r := recover(); r != nil {
				rt.Fatalf("C05 violated: ReceiveBlockResult panicked (%v) | %s", r, desc)
			}
		}()
		eng.ReceiveBlockResult(br)
	}()
	switch {
	case br.consumed && !realTarget:
		rt.Fatalf("C05 violated: fast sync accepted block 1 as committed on a vote list over something else (block selector %d, part set selector %d) | %s", c.tg.block, c.tg.psCount, desc)
	case br.consumed && !enough:
		rt.Fatalf("C05 violated: fast sync accepted block 1 as committed although only %d of %d validators (%v) ever precommitted exactly that block, round and part set (list and earlier votes together; more than two thirds are needed) | %s", g, n, support, desc)
	case br.consumed:
		rec.Label("fastSync:accepted")
		if len(listSigners) < need {
			rec.Label("fastSync:accepted-with-earlier-votes")
		}
		// the block really is committed by X
		deadline := time.Now().Add(5 * time.Second)
		for time.Now().Before(deadline) {
			if lb, err := x.BM.GetLastBlock(); err == nil && lb.Height() >= 1 {
				break
			}
			time.Sleep(2 * time.Millisecond)
		}
		if lb, err := x.BM.GetLastBlock(); err == nil && lb.Height() >= 1 {
			if !bytes.Equal(lb.ID(), blk1.ID()) {
				rt.Fatalf("C05 violated: after the accepted fast-sync result the node finalized %x at height 1, not the certified block %x | %s", lb.ID(), blk1.ID(), desc)
			}
			rec.Label("fastSync:finalized")
		} else {
			rec.Label("fastSync:accepted-not-finalized-in-5s")
		}
	case br.rejected:
		rec.Label("fastSync:rejected")
		if enough && realTarget && nbad == 0 {
			equiv := false
			for _, h := range hs {
				if h.round == c.tg.round && h.what != "target" && h.what != "targetPrevote" {
					equiv = true
				}
			}
			if equiv {
				rec.Label("fastSync:valid-list-rejected-after-conflicting-earlier-precommits")
			} else {
				rec.Label("fastSync:valid-list-rejected")
			}
		}
	default:
		rec.Label("fastSync:neither-consumed-nor-rejected")
	}
}
