package hcons

import (
	"bytes"
	"fmt"
	"os"
	"path/filepath"
	"sort"
	"strconv"
	"strings"
	"testing"
	"time"

	"github.com/icon-project/goloop/consensus"
	"pgregory.net/rapid"

	"verifharness/internal/ev"
)

// C03: after any crash that persists an arbitrary prefix of the not-yet-synced bytes, reopening
// the log yields a prefix of the appended records that contains every synced record and never
// a corrupted record; records appended after such a recovery are returned by later reads;
// repeated crash/recover/append cycles never lose a synced record.
//
// The check drives the real file WAL (OpenWALForWrite / OpenWALForRead) in a temp dir.
// History = cycles of [append(len) | sync | shift | housekeep]* followed by a crash. A crash is
// produced by closing the writer (which flushes everything to the file) and truncating the
// tail segment so that exactly a chosen prefix of the bytes appended since the last sync
// survives. Recovery is the loop of consensus.applyRoundWAL: ReadBytes until EOF, or
// corrupted / unexpected EOF -> CloseAndRepair. For the first crash of a history every
// candidate cut is executed on its own copy of the directory (all byte offsets when the
// unsynced tail is <= 96 bytes), later crashes use one drawn cut each, and the history ends
// with a clean Close + recovery that must return every surviving record.
//
// Oracle = reference list of appended payloads with a "synced" mark (payloads are unique per
// append, so a resurrected or foreign record is seen as a byte mismatch):
//   - the records read are byte-equal to a prefix of the reference list,
//   - that prefix contains every record appended before the last Sync/Shift/Close,
//   - recovery itself does not fail.
// Nothing is demanded about records that were never synced (they may or may not survive).
// Retention (TotalLimit) is out of scope: TotalLimit is huge.

type c03Op struct {
	kind byte // 'a' append, 's' sync, 'S' shift, 'h' housekeep
	n    int  // append length
}

func (o c03Op) String() string {
	if o.kind == 'a' {
		return "a" + strconv.Itoa(o.n)
	}
	return string(o.kind)
}

type c03Cycle struct {
	ops []c03Op
	sel int   // cut selector for cycles > 0
	rnd []int // interior offsets (per million of the unsynced tail) for long tails
}

type c03Case struct {
	fileLimit int64
	cycles    []c03Cycle
	final     []c03Op
}

func (c *c03Case) String() string {
	var sb strings.Builder
	fmt.Fprintf(&sb, "fileLimit=%d", c.fileLimit)
	for i, cy := range c.cycles {
		fmt.Fprintf(&sb, " c%d:%v", i, cy.ops)
		if i > 0 {
			fmt.Fprintf(&sb, "sel=%d", cy.sel)
		}
		if len(cy.rnd) > 0 {
			fmt.Fprintf(&sb, "rnd=%v", cy.rnd)
		}
	}
	fmt.Fprintf(&sb, " final:%v", c.final)
	return sb.String()
}

var c03Lens = []int{0, 1, 7, 8, 9, 55, 56, 4087, 4088, 4089, 5000}

func c03DrawOps(rt *rapid.T, min, max int, big bool) []c03Op {
	n := rapid.IntRange(min, max).Draw(rt, "nops")
	ops := make([]c03Op, 0, n)
	for i := 0; i < n; i++ {
		k := rapid.IntRange(0, 99).Draw(rt, "op")
		switch {
		case k < 60:
			var l int
			m := rapid.IntRange(0, 9).Draw(rt, "lenmode")
			switch {
			case m < 4:
				l = rapid.IntRange(0, 24).Draw(rt, "len")
			case m < 8 || !big:
				l = rapid.SampledFrom(c03Lens[:7]).Draw(rt, "len")
			default:
				l = rapid.SampledFrom(c03Lens).Draw(rt, "len")
			}
			ops = append(ops, c03Op{'a', l})
		case k < 78:
			ops = append(ops, c03Op{kind: 's'})
		case k < 88:
			ops = append(ops, c03Op{kind: 'S'})
		default:
			ops = append(ops, c03Op{kind: 'h'})
		}
	}
	return ops
}

func c03Draw(rt *rapid.T) *c03Case {
	c := &c03Case{}
	c.fileLimit = rapid.SampledFrom([]int64{30, 100, 600, 5000, 1 << 30}).Draw(rt, "fileLimit")
	big := rapid.IntRange(0, 3).Draw(rt, "big") == 0
	nc := rapid.IntRange(1, ev.Pick(3, 4)).Draw(rt, "cycles")
	for i := 0; i < nc; i++ {
		var cy c03Cycle
		if i == 0 {
			cy.ops = c03DrawOps(rt, 1, ev.Pick(9, 14), big)
		} else {
			cy.ops = c03DrawOps(rt, 0, 6, big)
			cy.sel = rapid.IntRange(0, 1<<16).Draw(rt, "sel")
		}
		if big {
			cy.rnd = rapid.SliceOfN(rapid.IntRange(0, 1000000), 3, 3).Draw(rt, "rnd")
		}
		c.cycles = append(c.cycles, cy)
	}
	c.final = c03DrawOps(rt, 0, 4, false)
	return c
}

func c03Payload(seq, n int) []byte {
	b := make([]byte, n)
	for i := range b {
		b[i] = byte(seq*131 + i*7 + 1 + (i>>8)*13)
	}
	if n >= 4 {
		b[0], b[1], b[2], b[3] = byte(seq>>8), byte(seq), 0xa5, byte(n)
	}
	return b
}

// c03World = the directory plus the reference model.
type c03World struct {
	dir      string
	id       string
	limit    int64
	total    int64    // TotalLimit (0: no retention)
	recs     [][]byte // live records in append order
	nSynced  int      // records covered by an explicit Sync/Shift/Close: must never be lost
	sessBase int      // recs[sessBase:] were appended after the last sync of this session
	seq      int
	floor    int64 // observed size of the tail segment right after the last sync
	w        consensus.WALWriter
	// evidence
	inFrame, nonFirst, freshSeg, repaired, afterHeader bool
	longTail, hkRotated                                bool
	crashes                                            int
}

type c03Seg struct {
	idx  uint64
	size int64
}

func c03Segs(dir string) []c03Seg {
	es, err := os.ReadDir(dir)
	if err != nil {
		ev.Inconclusive("C03 readdir %v", err)
	}
	var out []c03Seg
	for _, e := range es {
		if !strings.HasPrefix(e.Name(), "wal_") {
			continue
		}
		idx, err := strconv.ParseUint(e.Name()[4:], 10, 64)
		if err != nil {
			continue
		}
		fi, err := e.Info()
		if err != nil {
			ev.Inconclusive("C03 stat %v", err)
		}
		out = append(out, c03Seg{idx, fi.Size()})
	}
	sort.Slice(out, func(i, j int) bool { return out[i].idx < out[j].idx })
	return out
}

func (w *c03World) tail() (c03Seg, int) {
	s := c03Segs(w.dir)
	if len(s) == 0 {
		return c03Seg{}, 0
	}
	return s[len(s)-1], len(s)
}

func (w *c03World) open() string {
	ww, err := consensus.OpenWALForWrite(w.id, &consensus.WALConfig{
		FileLimit:            w.limit,
		TotalLimit:           c03Total(w.total),
		HousekeepingInterval: 10000 * time.Hour,
		SyncInterval:         10000 * time.Hour,
	})
	if err != nil {
		return fmt.Sprintf("OpenWALForWrite failed: %v", err)
	}
	w.w = ww
	w.sessBase = len(w.recs)
	t, _ := w.tail()
	w.floor = t.size
	return ""
}

func c03Total(t int64) int64 {
	if t <= 0 {
		return 1 << 50
	}
	return t
}

func (w *c03World) markSynced() {
	w.nSynced = len(w.recs)
	w.sessBase = len(w.recs)
	t, _ := w.tail()
	w.floor = t.size
}

func (w *c03World) apply(ops []c03Op) string {
	for _, o := range ops {
		switch o.kind {
		case 'a':
			p := c03Payload(w.seq, o.n)
			w.seq++
			if _, err := w.w.WriteBytes(p); err != nil {
				return fmt.Sprintf("WriteBytes failed: %v", err)
			}
			w.recs = append(w.recs, p)
		case 's':
			if err := w.w.Sync(); err != nil {
				return fmt.Sprintf("Sync failed: %v", err)
			}
			w.markSynced()
		case 'S':
			sh, ok := w.w.(interface{ Shift() error })
			if !ok {
				ev.Inconclusive("C03 writer has no Shift")
			}
			if err := sh.Shift(); err != nil {
				return fmt.Sprintf("Shift failed: %v", err)
			}
			w.markSynced()
		case 'h':
			b, a := consensus.VerifWALHousekeep(w.w)
			if a != b {
				// rotation syncs the old tail before switching
				w.markSynced()
				w.hkRotated = true
			}
		}
	}
	return ""
}

// closeForCrash closes the writer (which flushes everything to the file) and returns the tail
// file, the absolute offsets in it of the boundaries of the frames appended since the last sync
// (bounds[0] = where they start) and the lowest size the tail may be cut to.
func (w *c03World) closeForCrash() (tailPath string, bounds []int64, lo int64, msg string) {
	var u int64
	rel := []int64{0}
	for _, r := range w.recs[w.sessBase:] {
		u += int64(8 + len(r))
		rel = append(rel, u)
	}
	floor := w.floor
	err := w.w.Close()
	w.w = nil
	if err != nil {
		return "", nil, 0, fmt.Sprintf("Close failed: %v", err)
	}
	t, _ := w.tail()
	tailPath = fmt.Sprintf("%s_%d", w.id, t.idx)
	base := t.size - u
	if base < 0 {
		return "", nil, 0, fmt.Sprintf("Close() returned without error but the tail segment has %d bytes, fewer than the %d bytes appended since the last sync: appended records are not in the file", t.size, u)
	}
	for _, r := range rel {
		bounds = append(bounds, base+r)
	}
	lo = base
	if floor < base {
		// the file was shorter than this right after the last Sync returned: bytes of "synced"
		// records were not in the file, so they are not durable either
		lo = floor
	}
	return
}

// c03Cuts lists the tail sizes to crash at.
func c03Cuts(bounds []int64, lo int64, rnd []int) []int64 {
	base, end := bounds[0], bounds[len(bounds)-1]
	u := end - base
	set := map[int64]bool{lo: true}
	if u <= 96 {
		for c := base; c <= end; c++ {
			set[c] = true
		}
	} else {
		for _, b := range bounds {
			for _, d := range []int64{0, 1, 7, 8, 9} {
				for _, c := range []int64{b - d, b + d} {
					if c >= base && c <= end {
						set[c] = true
					}
				}
			}
		}
		for _, r := range rnd {
			set[base+int64(r)*u/1000000] = true
		}
	}
	out := make([]int64, 0, len(set))
	for c := range set {
		out = append(out, c)
	}
	sort.Slice(out, func(i, j int) bool { return out[i] < out[j] })
	return out
}

// crashAt truncates the tail segment to size cut and records the class of the cut.
func (w *c03World) crashAt(tailPath string, cut int64, bounds []int64) (class string) {
	if err := os.Truncate(tailPath, cut); err != nil {
		ev.Inconclusive("C03 truncate %v", err)
	}
	w.crashes++
	if bounds[len(bounds)-1]-bounds[0] > 96 {
		w.longTail = true
	}
	if len(c03Segs(w.dir)) > 1 {
		w.nonFirst = true
		if bounds[0] == 0 && len(bounds) > 1 {
			w.freshSeg = true
		}
	}
	class = "cut:frame-boundary"
	for i := 0; i+1 < len(bounds); i++ {
		if cut > bounds[i] && cut < bounds[i+1] {
			w.inFrame = true
			switch off := cut - bounds[i]; {
			case off < 8:
				class = "cut:in-header"
			case off == 8:
				class = "cut:after-header"
				w.afterHeader = true
			default:
				class = "cut:in-payload"
			}
		}
	}
	switch {
	case len(bounds) == 1:
		class = "cut:no-unsynced-bytes"
	case cut == bounds[0]:
		class = "cut:nothing-survives"
	case cut == bounds[len(bounds)-1]:
		class = "cut:everything-survives"
	}
	if cut < bounds[0] {
		class = "cut:below-bytes-not-flushed-by-sync"
	}
	return class
}

// c03Recover is the loop of consensus.applyRoundWAL.
func c03Recover(id string) (recs [][]byte, repaired bool, err error) {
	wr, err := consensus.OpenWALForRead(id)
	if err != nil {
		if consensus.IsNotExist(err) {
			return nil, false, nil
		}
		return nil, false, err
	}
	defer wr.Close()
	for {
		bs, err := wr.ReadBytes()
		if consensus.IsEOF(err) {
			break
		} else if consensus.IsCorruptedWAL(err) || consensus.IsUnexpectedEOF(err) {
			if err := wr.CloseAndRepair(); err != nil {
				return recs, true, fmt.Errorf("CloseAndRepair: %w", err)
			}
			repaired = true
			break
		} else if err != nil {
			return recs, false, err
		}
		recs = append(recs, bs)
	}
	return recs, repaired, nil
}

func (w *c03World) recoverAndCheck(phase string, exact bool) string {
	got, repaired, err := c03Recover(w.id)
	if err != nil {
		return fmt.Sprintf("%s: recovery failed (%d records were synced): %v; segments=%v", phase, w.nSynced, err, c03Segs(w.dir))
	}
	if repaired {
		w.repaired = true
	}
	for i, r := range got {
		if i >= len(w.recs) {
			return fmt.Sprintf("%s: read %d records but only %d were appended; extra record len=%d %x", phase, len(got), len(w.recs), len(r), c03Head(r))
		}
		if !bytes.Equal(r, w.recs[i]) {
			return fmt.Sprintf("%s: record #%d read back (len=%d %x) is not the appended record #%d (len=%d %x): corrupted or foreign record", phase, i, len(r), c03Head(r), i, len(w.recs[i]), c03Head(w.recs[i]))
		}
	}
	if len(got) < w.nSynced {
		return fmt.Sprintf("%s: synced record lost: %d records had been synced, recovery returned only the first %d (repair=%v); segments=%v", phase, w.nSynced, len(got), repaired, c03Segs(w.dir))
	}
	if exact && len(got) != len(w.recs) {
		return fmt.Sprintf("%s: after a clean Close %d records were appended and synced, read %d", phase, len(w.recs), len(got))
	}
	w.recs = w.recs[:len(got):len(got)]
	return ""
}

func c03Head(b []byte) []byte {
	if len(b) > 12 {
		return b[:12]
	}
	return b
}

func (w *c03World) fork() *c03World {
	nd, err := os.MkdirTemp(c03Root, "c03f")
	if err != nil {
		ev.Inconclusive("C03 mkdtemp %v", err)
	}
	es, err := os.ReadDir(w.dir)
	if err != nil {
		ev.Inconclusive("C03 readdir %v", err)
	}
	for _, e := range es {
		b, err := os.ReadFile(filepath.Join(w.dir, e.Name()))
		if err != nil {
			ev.Inconclusive("C03 read %v", err)
		}
		if err := os.WriteFile(filepath.Join(nd, e.Name()), b, 0o600); err != nil {
			ev.Inconclusive("C03 write %v", err)
		}
	}
	n := *w
	n.dir = nd
	n.id = filepath.Join(nd, "wal")
	n.recs = w.recs[:len(w.recs):len(w.recs)]
	n.w = nil
	return &n
}

// runFrom executes cycles[k:] and the final phase on world w (whose writer is closed).
func (w *c03World) runFrom(c *c03Case, k int, trace *[]string) string {
	defer func() {
		if w.w != nil {
			_ = w.w.Close()
			w.w = nil
		}
	}()
	for ; k < len(c.cycles); k++ {
		cy := c.cycles[k]
		if m := w.open(); m != "" {
			return m
		}
		if m := w.apply(cy.ops); m != "" {
			return fmt.Sprintf("cycle %d: %s", k, m)
		}
		tailPath, bounds, lo, m := w.closeForCrash()
		if m != "" {
			return fmt.Sprintf("cycle %d: %s", k, m)
		}
		cuts := c03Cuts(bounds, lo, cy.rnd)
		cut := cuts[cy.sel%len(cuts)]
		class := w.crashAt(tailPath, cut, bounds)
		span := bounds[len(bounds)-1] - bounds[0]
		*trace = append(*trace, fmt.Sprintf("crash%d(cut=%d/%d %s)", k, cut-bounds[0], span, class))
		if m := w.recoverAndCheck(fmt.Sprintf("recovery after crash %d (%d of %d unsynced bytes survive, %s)", k, cut-bounds[0], span, class), false); m != "" {
			return m
		}
	}
	if m := w.open(); m != "" {
		return m
	}
	if m := w.apply(c.final); m != "" {
		return "final: " + m
	}
	err := w.w.Close()
	w.w = nil
	if err != nil {
		return fmt.Sprintf("final Close failed: %v", err)
	}
	w.markSynced()
	return w.recoverAndCheck("recovery after clean Close", true)
}

type c03Result struct {
	cut    int64
	span   int64
	class  string
	w      *c03World
	msg    string
	traces []string
}

// c03Run executes the case; for the first crash every candidate cut runs on its own copy.
func c03Run(c *c03Case, each func(r *c03Result)) {
	dir, err := os.MkdirTemp(c03Root, "c03")
	if err != nil {
		ev.Inconclusive("C03 mkdtemp %v", err)
	}
	defer os.RemoveAll(dir)
	w := &c03World{dir: dir, id: filepath.Join(dir, "wal"), limit: c.fileLimit}
	defer func() {
		if w.w != nil {
			_ = w.w.Close()
		}
	}()
	fail := func(m string) { each(&c03Result{w: w, msg: m, class: "setup"}) }
	if m := w.open(); m != "" {
		fail(m)
		return
	}
	if m := w.apply(c.cycles[0].ops); m != "" {
		fail("cycle 0: " + m)
		return
	}
	tailPath, bounds, lo, m := w.closeForCrash()
	if m != "" {
		fail("cycle 0: " + m)
		return
	}
	span := bounds[len(bounds)-1] - bounds[0]
	tailName := filepath.Base(tailPath)
	for _, cut := range c03Cuts(bounds, lo, c.cycles[0].rnd) {
		f := w.fork()
		r := &c03Result{cut: cut - bounds[0], span: span, w: f}
		r.class = f.crashAt(filepath.Join(f.dir, tailName), cut, bounds)
		r.msg = f.recoverAndCheck(fmt.Sprintf("recovery after crash 0 (%d of %d unsynced bytes survive, %s)", r.cut, span, r.class), false)
		if r.msg == "" {
			r.msg = f.runFrom(c, 1, &r.traces)
		}
		_ = os.RemoveAll(f.dir)
		each(r)
		if r.msg != "" {
			return
		}
	}
}

func c03Report(rec *ev.Rec, desc string, failure *string) func(r *c03Result) {
	return func(r *c03Result) {
		w := r.w
		labels := []string{r.class}
		for _, f := range []struct {
			on bool
			l  string
		}{
			{w.freshSeg, "unsynced-tail-starts-a-fresh-segment"},
			{w.nonFirst, "multi-segment"},
			{w.repaired, "repair-executed"},
			{w.afterHeader, "some-cut-exactly-after-header"},
			{w.longTail, "long-tail(>96B)"},
			{w.hkRotated, "rotated-by-housekeeping"},
		} {
			if f.on {
				labels = append(labels, f.l)
			}
		}
		labels = append(labels, fmt.Sprintf("crashes=%d", w.crashes))
		rec.Case(fmt.Sprintf("%s | cut0=%d/%d %v", desc, r.cut, r.span, r.traces), w.inFrame || w.nonFirst, labels...)
		if r.msg != "" && *failure == "" {
			*failure = fmt.Sprintf("history{%s} first crash keeps %d of %d unsynced bytes (%s) then %v: %s", desc, r.cut, r.span, r.class, r.traces, r.msg)
		}
	}
}

// c03Root is where the scratch directories are created. Durability is modelled by the harness
// (truncation of the tail), the real cost of fsync only slows the check down (several fsyncs per
// crash point; minutes when the disk is busy), so a tmpfs is preferred when there is one;
// otherwise TMPDIR. The root is removed when the test ends.
var c03Root string
var c03OnTmpfs bool

func c03SetupRoot(t *testing.T) {
	c03Root = ""
	for _, base := range []string{"/dev/shm", ""} {
		if base != "" {
			if fi, err := os.Stat(base); err != nil || !fi.IsDir() {
				continue
			}
		}
		d, err := os.MkdirTemp(base, "verif-c03-")
		if err != nil {
			continue
		}
		c03Root = d
		c03OnTmpfs = base != ""
		t.Cleanup(func() { _ = os.RemoveAll(d) })
		return
	}
	ev.Inconclusive("C03 cannot create a scratch directory")
}

func TestC03(t *testing.T) {
	c03SetupRoot(t)
	rec := ev.New("C03", "histories of append/sync/shift/housekeep over the real file WAL with 1-3 (thorough 4) crash/recover/append cycles and a final clean close (small scope: every history of <= 4 (thorough 5) ops over {a0,a3,sync,shift}; plus rapid-drawn ones with boundary-biased record lengths up to 5000); a case = (history, cut of the first crash): every byte offset of the unsynced tail when it is <= 96 bytes, else frame boundaries +-{0,1,7,8,9} and drawn interior offsets, each executed on its own copy of the directory; non-trivial = some crash of the case cut strictly inside a frame (header or payload) or hit a log with more than one segment; distinct by (history, cut)")
	defer rec.Flush(t)
	t.Run("smallscope", func(t *testing.T) {
		alphabet := []c03Op{{'a', 0}, {'a', 3}, {kind: 's'}, {kind: 'S'}}
		maxLen := ev.Pick(4, 5)
		if !c03OnTmpfs {
			maxLen = ev.Pick(3, 4) // real fsyncs: keep the run time bounded
		}
		n := 0
		var gen func(prefix []c03Op)
		gen = func(prefix []c03Op) {
			if len(prefix) > 0 {
				c := &c03Case{fileLimit: 1 << 30, cycles: []c03Cycle{
					{ops: append([]c03Op{}, prefix...)},
					{ops: []c03Op{{'a', 2}, {kind: 's'}, {'a', 1}}, sel: 3},
				}, final: []c03Op{{'a', 1}}}
				var failure string
				c03Run(c, c03Report(rec, c.String(), &failure))
				n++
				if failure != "" {
					t.Fatalf("C03 violated: %s", failure)
				}
			}
			if len(prefix) == maxLen {
				return
			}
			for _, o := range alphabet {
				gen(append(prefix, o))
			}
		}
		gen(nil)
		rec.Extra("smallscope_histories", n)
	})
	t.Run("retention", func(t *testing.T) {
		q, th := 300, 4000
		if !c03OnTmpfs {
			q, th = 40, 600
		}
		ev.Check(t, q, th, func(rt *rapid.T) { c03Retention(rt, rec) })
	})
	t.Run("histories", func(t *testing.T) {
		q, th := 300, 4000
		if !c03OnTmpfs {
			q, th = 60, 1000
		}
		ev.Check(t, q, th, func(rt *rapid.T) {
			c := c03Draw(rt)
			var failure string
			c03Run(c, c03Report(rec, c.String(), &failure))
			if failure != "" {
				rt.Fatalf("C03 violated: %s", failure)
			}
		})
	})
}

// c03Retention: rotation and retention without any crash. Small FileLimit and TotalLimit, records of
// 0..9000 bytes (larger than the writer's 4096-byte buffer, so parts of a frame reach the file before
// the rest), housekeeping passes between appends and syncs, a clean Close at the end. Old segments may
// be removed by design, so the reference is weaker than in the crash histories: what recovery returns is
// a contiguous run of the appended records that ends with the LAST appended record (everything was
// closed cleanly), every record byte-for-byte, and the read ends with a clean end of log (nothing was
// torn, so nothing may look torn). After that, appended+synced records are returned by the next read.
func c03Retention(rt *rapid.T, rec *ev.Rec) {
	dir, err := os.MkdirTemp(c03Root, "c03r")
	if err != nil {
		ev.Inconclusive("C03 mkdtemp %v", err)
	}
	defer os.RemoveAll(dir)
	limit := int64(rapid.SampledFrom([]int{64, 300, 4000, 5000, 9000}).Draw(rt, "fileLimit"))
	total := limit * int64(rapid.IntRange(1, 4).Draw(rt, "totalInFiles"))
	w := &c03World{dir: dir, id: dir + "/wal", limit: limit, total: total}
	if m := w.open(); m != "" {
		rt.Fatalf("C03 violated: %s", m)
	}
	var hist []string
	nops := rapid.IntRange(3, 40).Draw(rt, "nops")
	rotations, big := 0, false
	for i := 0; i < nops; i++ {
		switch k := rapid.IntRange(0, 9).Draw(rt, "op"); {
		case k < 6:
			n := rapid.SampledFrom([]int{0, 1, 7, 90, 98, 1000, 4087, 4088, 4089, 5000, 9000}).Draw(rt, "len")
			if n > 4088 {
				big = true
			}
			hist = append(hist, fmt.Sprintf("a%d", n))
			if m := w.apply([]c03Op{{'a', n}}); m != "" {
				rt.Fatalf("C03 violated: %s (history %v)", m, hist)
			}
		case k < 8:
			before := len(c03Segs(dir))
			hist = append(hist, "h")
			if m := w.apply([]c03Op{{kind: 'h'}}); m != "" {
				rt.Fatalf("C03 violated: %s (history %v)", m, hist)
			}
			if w.hkRotated || len(c03Segs(dir)) != before {
				rotations++
			}
		default:
			hist = append(hist, "s")
			if m := w.apply([]c03Op{{kind: 's'}}); m != "" {
				rt.Fatalf("C03 violated: %s (history %v)", m, hist)
			}
		}
	}
	if err := w.w.Close(); err != nil {
		rt.Fatalf("C03 violated: Close failed: %v (history %v)", err, hist)
	}
	w.w = nil
	desc := fmt.Sprintf("retention fileLimit=%d totalLimit=%d history=%s", limit, total, strings.Join(hist, " "))
	check := func(phase string) {
		got, repaired, err := c03Recover(w.id)
		if err != nil {
			rt.Fatalf("C03 violated: %s: recovery failed: %v; %s; segments=%v", phase, err, desc, c03Segs(dir))
		}
		if repaired {
			rt.Fatalf("C03 violated: %s: a log that was closed cleanly reads as torn or corrupted after %d records (of %d appended); %s; segments=%v", phase, len(got), len(w.recs), desc, c03Segs(dir))
		}
		// (retention may legitimately leave nothing: a rotation followed by the removal of every older segment)
		off := len(w.recs) - len(got)
		if off < 0 {
			rt.Fatalf("C03 violated: %s: %d records returned, only %d appended; %s", phase, len(got), len(w.recs), desc)
		}
		for i, r := range got {
			if !bytes.Equal(r, w.recs[off+i]) {
				rt.Fatalf("C03 violated: %s: returned record #%d (len=%d %x) is not appended record #%d (len=%d %x): the returned records are not the most recent contiguous run; %s; segments=%v",
					phase, i, len(r), c03Head(r), off+i, len(w.recs[off+i]), c03Head(w.recs[off+i]), desc, c03Segs(dir))
			}
		}
	}
	check("after clean close")
	// append after recovery, sync, read again
	if m := w.open(); m != "" {
		rt.Fatalf("C03 violated: %s", m)
	}
	if m := w.apply([]c03Op{{'a', 5}, {'a', 4500}, {kind: 's'}}); m != "" {
		rt.Fatalf("C03 violated: %s (%s)", m, desc)
	}
	if err := w.w.Close(); err != nil {
		rt.Fatalf("C03 violated: Close failed: %v", err)
	}
	w.w = nil
	check("after re-open, append, sync, close")
	labels := []string{"retention"}
	if rotations > 0 {
		labels = append(labels, "retention:rotated")
	}
	if big {
		labels = append(labels, "retention:recordLargerThanWriteBuffer")
	}
	rec.Case(desc, rotations > 0 && big, labels...)
}
