package hcons

import (
	"bytes"
	"fmt"
	"math/big"
	"testing"

	"github.com/icon-project/goloop/common"
	"github.com/icon-project/goloop/common/codec"
	"github.com/icon-project/goloop/common/crypto"
	"github.com/icon-project/goloop/consensus"
	"github.com/icon-project/goloop/module"
	"github.com/icon-project/goloop/service/state"
	"github.com/icon-project/goloop/service/transaction"
	"pgregory.net/rapid"

	"verifharness/internal/ev"
	"verifharness/internal/gen"
)

// C06: a pair of signed consensus messages is treated as double-sign evidence ONLY IF both
// were signed by the same key for the same height, round and message type on the same network
// (or an unspecified network) and their signed contents differ.
//
// Oracle: the reference predicate below, computed from the drawn attribute tuples (never from
// goloop's encodings). A violation is a pair for which the reference says "no conflict" and
//   - DoubleSignData.IsConflictWith (either argument order) says true, or
//   - dsmLog.LogAndCheck*Message reports the pair after logging the first message, or
//   - a DoubleSignReport transaction built from the pair (re-parsed from its bytes) passes
//     PreValidate; also when the reference says "conflict" but the signer is unknown to the
//     double-sign context.
// The statement is an "only if": a genuine conflict that is NOT recognised is not a violation;
// it is only counted (label "genuine-conflict-not-recognised").
// Nil votes always carry a well-formed network id in the block id (what the engine produces);
// malformed ids are not generated because the statement does not say what they mean.

type c06Msg struct {
	proposal bool
	signer   int
	height   int64
	round    int32
	vtype    consensus.VoteType // votes
	nid      uint32
	nilVote  bool   // votes: vote for nil (NID in block id) or for a block (NID in part-set app data)
	block    byte   // votes for a block: block id selector
	psCount  uint16 // part set id
	psHash   byte
	ntsCount uint16 // votes for a block: low 16 bits of the app data
	unsig    byte   // precommits for a block: selects the content of the parts the signature does NOT cover
	ts       int64  // votes
	pol      int32  // proposals
	// sigForm re-encodes the signature after signing without touching what it signs or who signed: 0 as produced,
	// 1 the malleable twin (r, n-s, v^1), 2 the recovery byte with the "compressed key" flag (v|4). Both recover the
	// same key over the same hash, and anybody who has seen the message can make them.
	sigForm byte
}

var c06N, _ = new(big.Int).SetString("fffffffffffffffffffffffffffffffebaaedce6af48a03bbfd25e8cd0364141", 16)

// c06Reencode rewrites a signature in another accepted form (see c06Msg.sigForm).
func c06Reencode(sig *common.Signature, form byte) error {
	if form == 0 {
		return nil
	}
	rsv, err := sig.Signature.SerializeRSV()
	if err != nil {
		return err
	}
	out := append([]byte{}, rsv...)
	switch form {
	case 1:
		sv := new(big.Int).SetBytes(rsv[32:64])
		sv.Sub(c06N, sv)
		copy(out[32:64], sv.FillBytes(make([]byte, 32)))
		out[64] ^= 1
	default:
		out[64] |= 4
	}
	ns, err := crypto.ParseSignature(out)
	if err != nil {
		return err
	}
	sig.Signature = ns
	return nil
}

func (m c06Msg) String() string {
	if m.proposal {
		return fmt.Sprintf("proposal{signer=%d h=%d r=%d nid=%d ps=%d/%02x pol=%d sigform=%d}", m.signer, m.height, m.round, m.nid, m.psCount, m.psHash, m.pol, m.sigForm)
	}
	if m.nilVote {
		return fmt.Sprintf("vote{signer=%d h=%d r=%d type=%d nid=%d nil ts=%d sigform=%d}", m.signer, m.height, m.round, m.vtype, m.nid, m.ts, m.sigForm)
	}
	return fmt.Sprintf("vote{signer=%d h=%d r=%d type=%d nid=%d block=%02x ps=%d/%02x nts=%d ts=%d unsigned=%d sigform=%d}", m.signer, m.height, m.round, m.vtype, m.nid, m.block, m.psCount, m.psHash, m.ntsCount, m.ts, m.unsig, m.sigForm)
}

// signed is the canonical rendering of exactly the fields covered by the signature.
func (m c06Msg) signed() string {
	if m.proposal {
		return fmt.Sprintf("P|%d|%d|%d/%02x|%d|%d", m.height, m.round, m.psCount, m.psHash, m.pol, m.nid)
	}
	if m.nilVote {
		return fmt.Sprintf("V|%d|%d|%d|nil|%d|%d", m.height, m.round, m.vtype, m.nid, m.ts)
	}
	return fmt.Sprintf("V|%d|%d|%d|%02x|%d/%02x|%d|%d|%d", m.height, m.round, m.vtype, m.block, m.psCount, m.psHash, m.nid, m.ntsCount, m.ts)
}

// c06Conjuncts evaluates the conjuncts of the reference predicate.
func c06Conjuncts(a, b c06Msg) (names []string, conflict bool) {
	add := func(ok bool, n string) {
		if !ok {
			names = append(names, n)
		}
	}
	add(a.proposal == b.proposal, "kind")
	add(a.signer == b.signer, "signer")
	add(a.height == b.height, "height")
	add(a.round == b.round, "round")
	add(a.proposal || b.proposal || a.vtype == b.vtype, "votetype")
	add(a.nid == b.nid || a.nid == 0 || b.nid == 0, "network")
	add(a.proposal != b.proposal || a.signed() != b.signed(), "content-differs")
	return names, len(names) == 0
}

func c06Hash(tag string, b byte) []byte {
	return crypto.SHA3Sum256([]byte{tag[0], b})
}

func c06Build(m c06Msg) (typ string, bs []byte, err error) {
	w := gen.WalletFromIndex(m.signer)
	if m.proposal {
		pm := consensus.NewProposalMessage()
		pm.Height = m.height
		pm.Round = m.round
		pm.BlockPartSetID = &consensus.PartSetID{Count: m.psCount, Hash: c06Hash("p", m.psHash)}
		pm.POLRound = m.pol
		pm.NID = m.nid
		if err := pm.Sign(w); err != nil {
			return "", nil, err
		}
		if err := c06Reencode(&pm.Signature, m.sigForm); err != nil {
			return "", nil, err
		}
		bs, err := codec.BC.MarshalToBytes(pm)
		return module.DSTProposal, bs, err
	}
	// A precommit for a block carries, outside the signed part, one network-type-section entry and one
	// proof part per counted NTS vote (what VoteMessage.Verify demands); m.unsig selects their content, so
	// two messages that differ only in m.unsig are two copies of ONE signed vote.
	var entries []module.NTSHashEntryFormat
	var parts [][]byte
	if !m.nilVote && m.vtype == consensus.VoteTypePrecommit {
		for i := 0; i < int(m.ntsCount); i++ {
			entries = append(entries, module.NTSHashEntryFormat{NetworkTypeID: int64(i + 1), NetworkTypeSectionHash: c06Hash("n", m.unsig*8+byte(i))})
			parts = append(parts, []byte{0x10 + m.unsig, byte(i)})
		}
	}
	vm := consensus.NewVoteMessage(w, m.vtype, m.height, m.round, nil, nil, m.ts, entries, parts, 0)
	if m.nilVote {
		vm.BlockID = codec.MustMarshalToBytes(int(m.nid))
		vm.BlockPartSetIDAndNTSVoteCount = nil
	} else {
		psid := &consensus.PartSetID{Count: m.psCount, Hash: c06Hash("p", m.psHash)}
		vm.BlockID = c06Hash("b", m.block)
		vm.BlockPartSetIDAndNTSVoteCount = psid.WithAppData(uint64(m.nid)<<16 | uint64(m.ntsCount))
	}
	if err := vm.Sign(w); err != nil {
		return "", nil, err
	}
	if err := c06Reencode(&vm.Signature, m.sigForm); err != nil {
		return "", nil, err
	}
	bs, err = codec.BC.MarshalToBytes(vm)
	return module.DSTVote, bs, err
}

func c06DrawMsg(rt *rapid.T, nids []uint32) c06Msg {
	m := c06Msg{
		proposal: rapid.IntRange(0, 3).Draw(rt, "kind") == 0,
		signer:   rapid.IntRange(0, 2).Draw(rt, "signer"),
		height:   int64(rapid.IntRange(1, 4).Draw(rt, "height")),
		round:    int32(rapid.IntRange(0, 3).Draw(rt, "round")),
		vtype:    consensus.VoteType(rapid.IntRange(0, 1).Draw(rt, "vtype")),
		nid:      rapid.SampledFrom(nids).Draw(rt, "nid"),
		nilVote:  rapid.Bool().Draw(rt, "nil"),
		block:    byte(rapid.IntRange(0, 2).Draw(rt, "block")),
		psCount:  uint16(rapid.IntRange(1, 3).Draw(rt, "psCount")),
		psHash:   byte(rapid.IntRange(0, 2).Draw(rt, "psHash")),
		ntsCount: uint16(rapid.IntRange(0, 2).Draw(rt, "nts")),
		unsig:    byte(rapid.IntRange(0, 2).Draw(rt, "unsig")),
		ts:       int64(rapid.IntRange(1000, 1003).Draw(rt, "ts")),
		pol:      int32(rapid.IntRange(-1, 1).Draw(rt, "pol")),
	}
	return m
}

// c06Applicable lists the attributes whose change alters the message of this shape.
func c06Applicable(m c06Msg) []string {
	switch {
	case m.proposal:
		return []string{"kind", "signer", "height", "round", "nid", "ps", "pol", "sigform", "sigform"}
	case m.nilVote:
		return []string{"kind", "signer", "height", "round", "vtype", "nid", "nil", "ts", "sigform"}
	}
	if m.vtype == consensus.VoteTypePrecommit && m.ntsCount > 0 {
		// "unsig" is listed twice: it is the only attribute whose change leaves the signed content alone
		return []string{"kind", "signer", "height", "round", "vtype", "nid", "nil", "block", "ps", "nts", "ts", "unsig", "unsig", "sigform"}
	}
	return []string{"kind", "signer", "height", "round", "vtype", "nid", "nil", "block", "ps", "nts", "ts", "sigform"}
}

// c06Mutate changes attribute a of m to a different value.
func c06Mutate(rt *rapid.T, m c06Msg, a string, nids []uint32) c06Msg {
	other := func(cur, lo, hi int, l string) int {
		v := rapid.IntRange(lo, hi-1).Draw(rt, l)
		if v >= cur {
			v++
		}
		return v
	}
	switch a {
	case "kind":
		m.proposal = !m.proposal
	case "signer":
		m.signer = other(m.signer, 0, 2, "signer2")
	case "height":
		m.height = int64(other(int(m.height), 1, 4, "height2"))
	case "round":
		m.round = int32(other(int(m.round), 0, 3, "round2"))
	case "vtype":
		m.vtype = 1 - m.vtype
	case "nid":
		var c []uint32
		for _, n := range nids {
			if n != m.nid {
				c = append(c, n)
			}
		}
		m.nid = rapid.SampledFrom(c).Draw(rt, "nid2")
	case "nil":
		m.nilVote = !m.nilVote
	case "block":
		m.block = byte(other(int(m.block), 0, 2, "block2"))
	case "ps":
		if rapid.Bool().Draw(rt, "psWhich") {
			m.psCount = uint16(other(int(m.psCount), 1, 3, "psCount2"))
		} else {
			m.psHash = byte(other(int(m.psHash), 0, 2, "psHash2"))
		}
	case "nts":
		m.ntsCount = uint16(other(int(m.ntsCount), 0, 2, "nts2"))
	case "unsig":
		m.unsig = byte(other(int(m.unsig), 0, 2, "unsig2"))
	case "ts":
		m.ts = int64(other(int(m.ts), 1000, 1003, "ts2"))
	case "pol":
		m.pol = int32(other(int(m.pol), -1, 1, "pol2"))
	case "sigform":
		m.sigForm = byte(other(int(m.sigForm), 0, 2, "sigform2"))
	}
	return m
}

// --- stub world context / double sign context for the transaction level ---

type c06Ctx struct {
	known [][]byte
}

func (c *c06Ctx) AddressOf(signer []byte) module.Address {
	for _, k := range c.known {
		if bytes.Equal(k, signer) {
			return common.NewAddressWithTypeAndID(false, signer)
		}
	}
	return nil
}
func (c *c06Ctx) Hash() []byte  { return crypto.SHA3Sum256(c.Bytes()) }
func (c *c06Ctx) Bytes() []byte { return codec.BC.MustMarshalToBytes(c.known) }

type c06World struct {
	state.WorldContext // nil: any other method panics (=> the check would notice)
}

func (w *c06World) Revision() module.Revision { return module.AllRevision }
func (w *c06World) DecodeDoubleSignData(t string, d []byte) (module.DoubleSignData, error) {
	return consensus.DecodeDoubleSignData(t, d)
}
func (w *c06World) DecodeDoubleSignContext(t string, d []byte) (module.DoubleSignContext, error) {
	c := &c06Ctx{}
	if _, err := codec.BC.UnmarshalFromBytes(d, &c.known); err != nil {
		return nil, err
	}
	return c, nil
}

func TestC06(t *testing.T) {
	rec := ev.New("C06", "pairs of signed votes/proposals: the second is the first with a drawn set of attributes changed (kind, signer, height, round, vote type, network id in {0,a,b} carried in the nil-vote block id / block-vote part-set app data / proposal field, nil-vs-block, block id, part set id, nts count, timestamp, POL round) or byte-identical; both decoded with DecodeDoubleSignData; non-trivial = exactly one conjunct of the reference predicate is false (pair one step away from a genuine conflict); distinct by the two attribute tuples")
	defer rec.Flush(t)
	t.Run("pairs", func(t *testing.T) {
		ev.Check(t, 4000, 50000, func(rt *rapid.T) {
			a := uint32(rapid.SampledFrom([]int{1, 2, 3, 0x7fff, 0xffff, 0x10000, 0xabcdef}).Draw(rt, "nidA"))
			b := a + uint32(rapid.SampledFrom([]int{1, 2, 0x100, 0x10000}).Draw(rt, "nidB"))
			nids := []uint32{0, a, b}
			m1 := c06DrawMsg(rt, nids)
			m2 := m1
			k := rapid.SampledFrom([]int{0, 1, 1, 1, 1, 1, 1, 2, 2, 3}).Draw(rt, "nmut")
			var muts []string
			for i := 0; i < k; i++ {
				at := rapid.SampledFrom(c06Applicable(m2)).Draw(rt, "attr")
				// bias towards the network id: it is the conjunct the unit tests never vary
				if rapid.IntRange(0, 4).Draw(rt, "nidbias") == 0 {
					at = "nid"
				}
				m2 = c06Mutate(rt, m2, at, nids)
				muts = append(muts, at)
			}
			failed, want := c06Conjuncts(m1, m2)
			desc := fmt.Sprintf("%v vs %v", m1, m2)
			labels := []string{}
			if want {
				labels = append(labels, "genuine-conflict")
			} else {
				for _, f := range failed {
					labels = append(labels, "false:"+f)
				}
			}
			if m1.proposal && m2.proposal {
				labels = append(labels, "kind:proposals")
			} else if !m1.proposal && !m2.proposal {
				labels = append(labels, "kind:votes")
				if m1.nilVote != m2.nilVote {
					labels = append(labels, "votes:nil-vs-block")
				}
			} else {
				labels = append(labels, "kind:mixed")
			}
			if m1.nid != 0 && m2.nid != 0 && m1.nid != m2.nid {
				labels = append(labels, "two-different-nonzero-nids")
			}
			t1, bs1, err := c06Build(m1)
			if err != nil {
				rt.Fatalf("harness: build m1: %v", err)
			}
			t2, bs2, err := c06Build(m2)
			if err != nil {
				rt.Fatalf("harness: build m2: %v", err)
			}
			if !m1.proposal && !m2.proposal && m1.signer == m2.signer && m1.signed() == m2.signed() {
				if bytes.Equal(bs1, bs2) {
					labels = append(labels, "byte-identical-copies")
				} else {
					labels = append(labels, "one-signed-vote-copies-differ-in-unsigned-parts")
				}
			}
			if m1.proposal == m2.proposal && m1.signer == m2.signer && m1.signed() == m2.signed() && m1.sigForm != m2.sigForm {
				labels = append(labels, "one-signed-message-in-two-signature-encodings")
			}
			rec.Case(desc, len(failed) == 1, labels...)
			d1, err := consensus.DecodeDoubleSignData(t1, bs1)
			if err != nil {
				rt.Fatalf("C06 harness: well-formed signed message %v rejected by DecodeDoubleSignData: %v", m1, err)
			}
			d2, err := consensus.DecodeDoubleSignData(t2, bs2)
			if err != nil {
				rt.Fatalf("C06 harness: well-formed signed message %v rejected by DecodeDoubleSignData: %v", m2, err)
			}
			// sanity of the harness' own model: decoded signer / height agree with the drawn ones
			if !bytes.Equal(d1.Signer(), gen.WalletFromIndex(m1.signer).Address().ID()) || d1.Height() != m1.height {
				rt.Fatalf("C06 violated: decoded evidence %v reports signer %x height %d", m1, d1.Signer(), d1.Height())
			}

			// 1. conflict predicate, both orders
			for _, o := range []struct {
				x, y module.DoubleSignData
				n    string
			}{{d1, d2, "m1.IsConflictWith(m2)"}, {d2, d1, "m2.IsConflictWith(m1)"}} {
				got := o.x.IsConflictWith(o.y)
				if got && !want {
					rt.Fatalf("C06 violated: %s = true for m1=%v m2=%v, but they are not a genuine conflict (false conjuncts: %v)", o.n, m1, m2, failed)
				}
				if !got && want {
					rec.Label("genuine-conflict-not-recognised(IsConflictWith)")
				}
			}

			// 2. dsmLog: first message logged, second reported only for a genuine conflict
			lg := consensus.VerifNewDSMLog(1 << 20)
			logOne := func(typ string, bs []byte) []module.DoubleSignData {
				if typ == module.DSTVote {
					msg, err := consensus.UnmarshalMessage(uint16(consensus.ProtoVote), bs)
					if err != nil {
						rt.Fatalf("harness: unmarshal vote: %v", err)
					}
					return lg.LogAndCheckVoteMessage(msg.(*consensus.VoteMessage))
				}
				msg, err := consensus.UnmarshalMessage(uint16(consensus.ProtoProposal), bs)
				if err != nil {
					rt.Fatalf("harness: unmarshal proposal: %v", err)
				}
				return lg.LogAndCheckProposalMessage(msg.(*consensus.ProposalMessage))
			}
			if r := logOne(t1, bs1); r != nil {
				rt.Fatalf("C06 violated: dsmLog reported a double sign for the first message ever logged: %v", m1)
			}
			r := logOne(t2, bs2)
			if r != nil && !want {
				rt.Fatalf("C06 violated: dsmLog reported m1=%v m2=%v as double sign, but they are not a genuine conflict (false conjuncts: %v)", m1, m2, failed)
			}
			if r != nil {
				if len(r) != 2 || !((bytes.Equal(r[0].Bytes(), bs1) && bytes.Equal(r[1].Bytes(), bs2)) || (bytes.Equal(r[0].Bytes(), bs2) && bytes.Equal(r[1].Bytes(), bs1))) {
					rt.Fatalf("C06 violated: dsmLog evidence for m1=%v m2=%v does not consist of exactly these two messages", m1, m2)
				}
			}
			if r == nil && want {
				rec.Label("genuine-conflict-not-recognised(dsmLog)")
			}

			// 3. report transaction PreValidate (re-parsed from bytes, decoded through the stub context)
			known := rapid.IntRange(0, 3).Draw(rt, "signerKnown") != 0
			ctx := &c06Ctx{known: [][]byte{gen.WalletFromIndex(7).Address().ID()}}
			if known {
				ctx.known = append(ctx.known, gen.WalletFromIndex(m1.signer).Address().ID())
				if m2.signer != m1.signer {
					ctx.known = append(ctx.known, gen.WalletFromIndex(m2.signer).Address().ID())
				}
			}
			tx := transaction.NewDoubleSignReportTx([]module.DoubleSignData{d1, d2}, ctx, int(a), 12345)
			tx2, err := transaction.NewTransaction(tx.Bytes())
			if err != nil {
				rt.Fatalf("harness: re-parse DSR tx: %v", err)
			}
			for i, x := range []transaction.Transaction{tx, tx2} {
				err := x.PreValidate(&c06World{}, true)
				if err == nil && (!want || !known) {
					rt.Fatalf("C06 violated: DoubleSignReport transaction (%s) for m1=%v m2=%v signerKnown=%v passed PreValidate, but the pair is not acceptable evidence (false conjuncts: %v)",
						[]string{"as built", "re-parsed from bytes"}[i], m1, m2, known, failed)
				}
				if err == nil {
					rec.Label("dsr-tx-accepted")
				} else if want && known {
					rec.Label("genuine-conflict-not-recognised(PreValidate)")
				}
			}
		})
	})
}
